#!/bin/sh
# run every registered quick (or $1) check on the current tree; prints one line per property
cd "$(dirname "$0")"
tier=${1:-quick}
for id in $(python3 -c "import json;print(' '.join(c['property_id'] for c in json.load(open('MANIFEST.json'))['checks']))"); do
  s=$(date +%s)
  ./check $id --tier $tier > build/last_$id.log 2>&1; rc=$?
  echo "$id exit=$rc $(( $(date +%s) - s ))s $(grep -E '^\[' build/last_$id.log | head -1)"
done

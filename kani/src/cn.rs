//! NATIVE-ONLY harness bodies for the operations whose symbolic verification is out of CBMC's reach at real widths (multi-limb
//! multiply, divide, modular arithmetic, gcd, Montgomery): contracts of the public methods against an independent little-endian
//! limb-vector arithmetic (`big`: schoolbook multiply, shift-subtract division). They are executed by the native sweep only
//! (bounded: generated operands from the boundary-word palette, incl. structured numerators q*d + r); never counted as proved -
//! the all-widths statements are the Verus proofs (units mul, addmul, divw/divd/knuth/div_small, modular, gcd*, mul_redc).
#![cfg(not(kani))]
use crate::sym::*;
use ruint::Uint;

pub mod big {
    //! minimal natural-number arithmetic on little-endian limb vectors (oracle; independent of ruint)
    pub fn trim(mut a: Vec<u64>) -> Vec<u64> { while a.last() == Some(&0) { a.pop(); } a }
    pub fn cmp(a: &[u64], b: &[u64]) -> core::cmp::Ordering {
        let (a, b) = (trim(a.to_vec()), trim(b.to_vec()));
        if a.len() != b.len() { return a.len().cmp(&b.len()); }
        for i in (0..a.len()).rev() { if a[i] != b[i] { return a[i].cmp(&b[i]); } }
        core::cmp::Ordering::Equal
    }
    pub fn is_zero(a: &[u64]) -> bool { a.iter().all(|&x| x == 0) }
    pub fn add(a: &[u64], b: &[u64]) -> Vec<u64> {
        let n = a.len().max(b.len());
        let mut r = Vec::with_capacity(n + 1);
        let mut c = 0u128;
        for i in 0..n {
            let s = *a.get(i).unwrap_or(&0) as u128 + *b.get(i).unwrap_or(&0) as u128 + c;
            r.push(s as u64);
            c = s >> 64;
        }
        r.push(c as u64);
        trim(r)
    }
    /// a - b for a >= b
    pub fn sub(a: &[u64], b: &[u64]) -> Vec<u64> {
        let mut r = Vec::with_capacity(a.len());
        let mut br = 0i128;
        for i in 0..a.len() {
            let mut s = a[i] as i128 - *b.get(i).unwrap_or(&0) as i128 - br;
            if s < 0 { s += 1i128 << 64; br = 1; } else { br = 0; }
            r.push(s as u64);
        }
        assert!(br == 0, "big::sub underflow");
        trim(r)
    }
    pub fn mul(a: &[u64], b: &[u64]) -> Vec<u64> {
        let mut r = vec![0u64; a.len() + b.len() + 1];
        for i in 0..a.len() {
            let mut c = 0u128;
            for j in 0..b.len() {
                let t = r[i + j] as u128 + (a[i] as u128) * (b[j] as u128) + c;
                r[i + j] = t as u64;
                c = t >> 64;
            }
            let mut k = i + b.len();
            while c != 0 { let t = r[k] as u128 + c; r[k] = t as u64; c = t >> 64; k += 1; }
        }
        trim(r)
    }
    pub fn bit(a: &[u64], i: usize) -> bool { i / 64 < a.len() && (a[i / 64] >> (i % 64)) & 1 == 1 }
    /// (n / d, n % d) for d != 0, by shift-subtract
    pub fn divrem(n: &[u64], d: &[u64]) -> (Vec<u64>, Vec<u64>) {
        assert!(!is_zero(d));
        let mut q = vec![0u64; n.len().max(1)];
        let mut r: Vec<u64> = Vec::new();
        for i in (0..64 * n.len()).rev() {
            // r = 2r + bit
            let mut c = bit(n, i) as u64;
            for x in r.iter_mut() { let nc = *x >> 63; *x = (*x << 1) | c; c = nc; }
            if c != 0 { r.push(c); }
            if cmp(&r, d) != core::cmp::Ordering::Less { r = sub(&r, d); q[i / 64] |= 1 << (i % 64); }
        }
        (trim(q), trim(r))
    }
    pub fn rem(n: &[u64], d: &[u64]) -> Vec<u64> { divrem(n, d).1 }
    pub fn gcd(a: &[u64], b: &[u64]) -> Vec<u64> {
        let (mut a, mut b) = (trim(a.to_vec()), trim(b.to_vec()));
        while !is_zero(&b) { let r = rem(&a, &b); a = b; b = r; }
        a
    }
    /// the low `bits` bits of a, as exactly `l` limbs
    pub fn low(a: &[u64], bits: usize, l: usize) -> Vec<u64> {
        let mut r = vec![0u64; l];
        for i in 0..l { r[i] = *a.get(i).unwrap_or(&0); }
        if l > 0 && bits % 64 != 0 { r[l - 1] &= (1u64 << (bits % 64)) - 1; }
        r
    }
    pub fn fits(a: &[u64], bits: usize) -> bool {
        let t = trim(a.to_vec());
        if t.is_empty() { return true; }
        let top = 64 * (t.len() - 1) + (64 - t[t.len() - 1].leading_zeros() as usize);
        top <= bits
    }
    pub fn pow2(k: usize) -> Vec<u64> { let mut r = vec![0u64; k / 64 + 1]; r[k / 64] = 1 << (k % 64); r }
}

fn lim<const B: usize, const L: usize>(x: &Uint<B, L>) -> Vec<u64> { x.as_limbs().to_vec() }
fn mk<const B: usize, const L: usize>(v: &[u64]) -> Uint<B, L> {
    let w = big::low(v, B, L);
    let mut a = [0u64; L];
    a.copy_from_slice(&w);
    Uint::from_limbs(a)
}
fn same<const B: usize, const L: usize>(x: &Uint<B, L>, v: &[u64]) -> bool { big::cmp(x.as_limbs(), v) == core::cmp::Ordering::Equal }

fn mul_body<const B: usize, const L: usize>() {
    let (a, b) = (uint::<B, L>(), uint::<B, L>());
    let p = big::mul(&lim(&a), &lim(&b));
    let over = !big::fits(&p, B);
    let (r, f) = a.overflowing_mul(b);
    assert!(same(&r, &big::low(&p, B, L)), "overflowing_mul value == a*b mod 2^BITS");
    assert!(f == over, "overflowing_mul flag <=> a*b >= 2^BITS");
    assert!(a.checked_mul(b).is_some() == !over, "checked_mul None exactly on overflow");
    assert!(same(&a.wrapping_mul(b), &big::low(&p, B, L)), "wrapping_mul");
    assert!(same(&(a * b), &big::low(&p, B, L)), "Mul operator");
    let s = a.saturating_mul(b);
    assert!(if over { s == Uint::<B, L>::MAX } else { same(&s, &p) }, "saturating_mul");
}

fn div_body<const B: usize, const L: usize>() {
    let d = uint::<B, L>();
    let q0 = uint::<B, L>();
    let r0 = uint::<B, L>();
    let sel: u8 = any();
    assume(!big::is_zero(d.as_limbs()));
    // numerator: either arbitrary, or built as q0*d + (r0 mod d) when that fits (exact multiples for sel & 2)
    let mut n = uint::<B, L>();
    if sel & 1 == 1 {
        let r = if sel & 2 == 2 { vec![] } else { big::rem(&lim(&r0), &lim(&d)) };
        let cand = big::add(&big::mul(&lim(&q0), &lim(&d)), &r);
        if big::fits(&cand, B) { n = mk::<B, L>(&cand); }
    }
    // numerators whose limbs repeat the divisor's limbs (leading limbs equal to the divisor's leading limbs, a limb equal to a
    // one-limb divisor ...): the limbs of n selected by the high bits of `sel` are overwritten by limbs of d
    if sel & 12 == 4 && L > 0 {
        let mut nl = lim(&n);
        let dl = lim(&d);
        let top = dl.iter().rposition(|&x| x != 0).unwrap_or(0);
        let mut i = 0;
        while i < L {
            if (sel >> 4) >> (i % 4) & 1 == 1 { nl[i] = dl[if i % 2 == 0 { top } else { top.saturating_sub(1) }]; }
            i += 1;
        }
        n = mk::<B, L>(&nl);
    }
    let (wq, wr) = big::divrem(&lim(&n), &lim(&d));
    let (q, r) = n.div_rem(d);
    assert!(same(&q, &wq), "div_rem quotient == floor(n / d)");
    assert!(same(&r, &wr), "div_rem remainder == n mod d (0 <= r < d)");
    assert!(same(&(n / d), &wq) && same(&(n % d), &wr), "/ and % operators");
    assert!(n.checked_div(d).map_or(false, |x| same(&x, &wq)) && n.checked_rem(d).map_or(false, |x| same(&x, &wr)), "checked_div / checked_rem are Some for d != 0");
    let ceil = if wr.is_empty() { wq.clone() } else { big::add(&wq, &[1]) };
    assert!(same(&n.div_ceil(d), &ceil), "div_ceil == ceil(n / d)");
    let nm = big::mul(&ceil, &lim(&d));
    match n.checked_next_multiple_of(d) {
        Some(m) => assert!(big::fits(&nm, B) && same(&m, &nm), "checked_next_multiple_of == Some(least multiple >= n)"),
        None => assert!(!big::fits(&nm, B), "checked_next_multiple_of is None only when the multiple does not fit"),
    }
}

fn mod_body<const B: usize, const L: usize>() {
    let (a, b, m) = (uint::<B, L>(), uint::<B, L>(), uint::<B, L>());
    let e8: u8 = any();
    let (la, lb, lm) = (lim(&a), lim(&b), lim(&m));
    if big::is_zero(&lm) {
        assert!(a.reduce_mod(m) == Uint::<B, L>::ZERO && a.add_mod(b, m) == Uint::<B, L>::ZERO && a.mul_mod(b, m) == Uint::<B, L>::ZERO, "modulus 0 gives 0");
        assert!(a.inv_mod(m).is_none(), "inv_mod(_, 0) is None");
        return;
    }
    assert!(same(&a.reduce_mod(m), &big::rem(&la, &lm)), "reduce_mod == a mod m");
    assert!(same(&a.add_mod(b, m), &big::rem(&big::add(&la, &lb), &lm)), "add_mod == (a + b) mod m");
    assert!(same(&a.mul_mod(b, m), &big::rem(&big::mul(&la, &lb), &lm)), "mul_mod == (a * b) mod m");
    // pow_mod with a small exponent: repeated multiplication
    let e = (e8 & 0x1f) as u64;
    let mut acc = big::rem(&[1], &lm);
    for _ in 0..e { acc = big::rem(&big::mul(&acc, &la), &lm); }
    assert!(same(&a.pow_mod(Uint::<B, L>::from(e), m), &acc), "pow_mod == a^e mod m");
    let g = big::gcd(&la, &lm);
    let unit = big::cmp(&g, &[1]) == core::cmp::Ordering::Equal && big::cmp(&lm, &[1]) == core::cmp::Ordering::Greater;
    match a.inv_mod(m) {
        Some(x) => {
            assert!(unit, "inv_mod is Some only when m >= 2 and gcd(a, m) == 1");
            assert!(big::cmp(x.as_limbs(), &lm) == core::cmp::Ordering::Less, "inv_mod result < m");
            assert!(big::cmp(&big::rem(&big::mul(&la, &lim(&x)), &lm), &[1]) == core::cmp::Ordering::Equal, "a * inv_mod(a, m) == 1 (mod m)");
        }
        None => assert!(!unit, "inv_mod is None only when m < 2 or gcd(a, m) != 1"),
    }
}

fn gcd_body<const B: usize, const L: usize>() {
    let (a, b) = (uint::<B, L>(), uint::<B, L>());
    let (la, lb) = (lim(&a), lim(&b));
    let g = big::gcd(&la, &lb);
    assert!(same(&a.gcd(b), &g), "gcd is the greatest common divisor");
    let l = if big::is_zero(&la) || big::is_zero(&lb) { vec![] } else { big::divrem(&big::mul(&la, &lb), &g).0 };
    match a.lcm(b) {
        Some(x) => assert!(big::fits(&l, B) && same(&x, &l), "lcm == Some(a*b/gcd) when it fits"),
        None => assert!(!big::fits(&l, B), "lcm is None only when a*b/gcd does not fit"),
    }
    let (g2, x, y, sign) = a.gcd_extended(b);
    assert!(same(&g2, &g), "gcd_extended returns the gcd");
    let (ax, by) = (a.wrapping_mul(x), b.wrapping_mul(y));
    let lhs = if sign { ax.wrapping_sub(by) } else { by.wrapping_sub(ax) };
    assert!(lhs == g2, "gcd_extended: a*x - b*y == g (sign) resp. b*y - a*x == g, modulo 2^BITS");
}

fn redc_body<const B: usize, const L: usize>() {
    // B == 64 * L
    let m0 = uint::<B, L>();
    let (a0, b0) = (uint::<B, L>(), uint::<B, L>());
    let mut ml = lim(&m0);
    ml[0] |= 1;
    assume(big::cmp(&ml, &[3]) != core::cmp::Ordering::Less);
    let m = mk::<B, L>(&ml);
    // inv = -m^-1 mod 2^64 by Newton
    let m0w = ml[0];
    let mut x = 1u64;
    for _ in 0..7 { x = x.wrapping_mul(2u64.wrapping_sub(m0w.wrapping_mul(x))); }
    let inv = x.wrapping_neg();
    let a = mk::<B, L>(&big::rem(&lim(&a0), &ml));
    let b = mk::<B, L>(&big::rem(&lim(&b0), &ml));
    let r = a.mul_redc(b, m, inv);
    assert!(big::cmp(r.as_limbs(), &ml) == core::cmp::Ordering::Less, "mul_redc result < m");
    let rr = big::rem(&big::mul(&lim(&r), &big::pow2(B)), &ml);
    assert!(big::cmp(&rr, &big::rem(&big::mul(&lim(&a), &lim(&b)), &ml)) == core::cmp::Ordering::Equal, "mul_redc * 2^(64N) == a*b (mod m)");
    let s = a.square_redc(m, inv);
    assert!(big::cmp(s.as_limbs(), &ml) == core::cmp::Ordering::Less, "square_redc result < m");
    let sr = big::rem(&big::mul(&lim(&s), &big::pow2(B)), &ml);
    assert!(big::cmp(&sr, &big::rem(&big::mul(&lim(&a), &lim(&a)), &ml)) == core::cmp::Ordering::Equal, "square_redc * 2^(64N) == a*a (mod m)");
}

crate::harnesses! {
    fn cn_mul_w65() { mul_body::<65, 2>() }
    fn cn_mul_w128() { mul_body::<128, 2>() }
    fn cn_mul_w192() { mul_body::<192, 3>() }
    fn cn_mul_w250() { mul_body::<250, 4>() }
    fn cn_mul_w320() { mul_body::<320, 5>() }
    fn cn_div_w64() { div_body::<64, 1>() }
    fn cn_div_w65() { div_body::<65, 2>() }
    fn cn_div_w128() { div_body::<128, 2>() }
    fn cn_div_w192() { div_body::<192, 3>() }
    fn cn_div_w256() { div_body::<256, 4>() }
    fn cn_div_w320() { div_body::<320, 5>() }
    fn cn_mod_w64() { mod_body::<64, 1>() }
    fn cn_mod_w65() { mod_body::<65, 2>() }
    fn cn_mod_w128() { mod_body::<128, 2>() }
    fn cn_mod_w192() { mod_body::<192, 3>() }
    fn cn_mod_w256() { mod_body::<256, 4>() }
    fn cn_gcd_w64() { gcd_body::<64, 1>() }
    fn cn_gcd_w65() { gcd_body::<65, 2>() }
    fn cn_gcd_w128() { gcd_body::<128, 2>() }
    fn cn_gcd_w192() { gcd_body::<192, 3>() }
    fn cn_gcd_w256() { gcd_body::<256, 4>() }
    fn cn_redc_w64() { redc_body::<64, 1>() }
    fn cn_redc_w128() { redc_body::<128, 2>() }
    fn cn_redc_w192() { redc_body::<192, 3>() }
    fn cn_redc_w256() { redc_body::<256, 4>() }
}

//! C10 (+ the small gcd checks of C12) - modular arithmetic and gcd at tiny widths
//! (ruint src/modular.rs, src/gcd.rs, src/algorithms/gcd/{mod,matrix}.rs).  Full-width correctness of the kernels
//! underneath (addmul, division, Lehmer steps) is NOT claimed here; these are complete checks at widths where CBMC can
//! still follow the real code, plus one wide check that needs no multiplication or division.
//!
//! SYMBOLIC, complete per width (all values of every operand), `z::` (unwind 3), oracle = u16 `%`, `+`, `*`:
//!  * `c10_reduce_mod_w{4,7,8}`  reduce_mod(a, m) == a mod m, 0 when m == 0.
//!  * `c10_add_mod_w{4,7}`       add_mod(a, b, m) == (a + b) mod m, 0 when m == 0 (a, b NOT assumed reduced).
//!                               (8 bits: 100 s - three free 8-bit operands through two divisions - left out.)
//!  * `c10_mul_mod_w4`           mul_mod(a, b, m) == a b mod m, 0 when m == 0.  (7 bits: 186 s, 8 bits: > 200 s, left out.)
//!    Stubs: div_nx1 / div_nx2 / div_nxm replaced by functions that FAIL when reached (as in c03p: at LIMBS = 1 only the
//!    native u64 `/`, `%` of the 1x1 case may run - this is proved, not assumed), and `Uint::is_zero` replaced by its
//!    limb-wise model (the real one is a memcmp that forces unwind 10 on every loop: mul_mod at 4 bits then has no result
//!    in 200 s).  The model is justified by `c10_is_zero_contract_w{4,7,8,64,65,128,192}` (real
//!    is_zero == model for every canonical value).  Operands are zero-extended u8 (upper 56 bits syntactically 0).
//!  * `wide::c10_add_mod_reduced_w{64,65,128,192}` (unwind 4/5): for ALL a, b, m with a < m, b < m:
//!    add_mod(a, b, m) == a + b, or a + b - m when a + b >= m (carry included), and the result is < m.  Oracle: limb
//!    add / sub / compare of oracle.rs.  Stub: the division dispatcher `algorithms::div::div` FAILS when reached, which
//!    proves that reduced operands are never divided; is_zero modelled as above.
//!
//! CONCRETE ENUMERATION, `en::` (unwind 18 is only an upper bound: every loop condition is a constant): the harness
//! executes the real code on EVERY listed input, one after the other, inside CBMC; no symbolic operand.  Needed because
//! `gcd`, `gcd_extended`, `inv_mod` loop on `b != ZERO` (memcmp, unwind >= 10, not stubbable: derived trait impl) around
//! `LehmerMatrix::from_u64` (two u64 divisions and six multiplications per iteration): with symbolic operands that is
//! 10 x 10 unrolled 64-bit dividers - no result in 200 s even at 4 bits (the Lehmer step alone, symbolic at 8 bits: > 400 s).
//! One execution costs 1.3 - 3.5 s of CBMC time, which bounds the widths:
//!  * `c10_gcd_w3_{a,b}`, `c10_gcd_w4_{a..h}`       gcd(a, b) == Euclid's gcd: ALL pairs at 3 and at 4 bits.
//!  * `c10_lcm_w3_{a..d}`                            lcm(a, b) == Some(a / gcd * b) iff that is < 2^BITS, else None;
//!                                                   lcm(0, 0) == Some(0): ALL pairs at 3 bits.
//!  * `c10_gcd_extended_w3_{a..d}`                   (g, x, y, sign): g == gcd and a x - b y == g (sign) or
//!                                                   b y - a x == g (!sign), modulo 2^BITS: ALL pairs at 3 bits.
//!  * `c10_inv_mod_w3_{a,b,c}`                       inv_mod(a, m) is Some(x) iff m >= 2 and gcd(a, m) == 1, and then
//!                                                   x < m, a x mod m == 1: ALL pairs (a, m) at 3 bits;
//!    `c10_inv_mod_reduced_w4_{a..e}`                the same at 4 bits for all m and all a < m (120 pairs).
//!  * `c10_pow_mod_w2_{a..d}`                        pow_mod(a, e, m) == a^e mod m (0 when m <= 1): ALL 64 triples at
//!                                                   2 bits (symbolic: > 400 s even at 2 bits - eight mul_mod copies).
//!    Oracle: Euclid on u16 written without a loop (14 guarded steps; checks that it terminated), u16 products.
//!    Stubs: the three division kernels fail when reached (not reached: LIMBS = 1).
//!
//! NOT covered: any width above 4 bits for gcd / lcm / gcd_extended / inv_mod / mul_mod / pow_mod (in particular the
//! Lehmer prefix path `from_u64_prefix`, used only above 64 bits, is never executed here); gcd_extended, lcm at 4 bits
//! and inv_mod with a >= m at 4 bits (cost only: 16 more harnesses of 40 s each); pow_mod above 2 bits; mul_redc /
//! square_redc (Montgomery); add_mod at >= 64 bits with unreduced operands (needs division).
//!
//! Measured (cargo kani, -j 8, 16 cores): reduce_mod 4-6 s, add_mod_w4 8 s, add_mod_w7 32 s, mul_mod_w4 37 s,
//! add_mod_reduced 2 / 3 / 9 / 14 s, is_zero contracts < 1 s, enumerations 26 - 74 s each under load (37 - 57 s alone).
use crate::oracle as o;
use crate::sym::*;
use ruint::Uint;

// ---------------------------------------------------------------- stubs (copies of the c03p ones; c03p.rs is not edited)
pub fn unreachable_div_nx1(_limbs: &mut [u64], _divisor: u64) -> u64 { panic!("div_nx1 reached at LIMBS = 1") }
pub fn unreachable_div_nx2(_limbs: &mut [u64], _divisor: u128) -> u128 { panic!("div_nx2 reached at LIMBS = 1") }
pub fn unreachable_div_nxm(_numerator: &mut [u64], _divisor: &mut [u64]) { panic!("div_nxm reached at LIMBS = 1") }
/// for the wide add_mod harnesses: with a, b < m NO division may happen at all
pub fn unreachable_div(_numerator: &mut [u64], _divisor: &mut [u64]) { panic!("algorithms::div reached although both operands are already reduced") }
/// limb-wise model of `Uint::is_zero` (the real one is a memcmp: unwind >= 8 * LIMBS + 2 on every loop)
pub fn is_zero_model<const BITS: usize, const LIMBS: usize>(x: &Uint<BITS, LIMBS>) -> bool { o::is_zero(x.as_limbs()) }

/// harnesses with the three division kernels replaced by stubs that fail when reached
macro_rules! div_stubs {
    ($($(#[$m:meta])* fn $name:ident() $body:block)*) => {
        crate::harnesses! { $(
            $(#[$m])*
            #[cfg_attr(kani, kani::stub(ruint::algorithms::div::div_nx1, unreachable_div_nx1))]
            #[cfg_attr(kani, kani::stub(ruint::algorithms::div::div_nx2, unreachable_div_nx2))]
            #[cfg_attr(kani, kani::stub(ruint::algorithms::div::div_nxm, unreachable_div_nxm))]
            fn $name() $body
        )* }
    };
}
/// ... and `Uint::is_zero` replaced by its limb-wise model
macro_rules! div_z_stubs {
    ($($(#[$m:meta])* fn $name:ident() $body:block)*) => {
        div_stubs! { $(
            $(#[$m])*
            #[cfg_attr(kani, kani::stub(ruint::Uint::is_zero, is_zero_model))]
            fn $name() $body
        )* }
    };
}
/// the whole division dispatcher unreachable, is_zero modelled
macro_rules! nodiv_z_stubs {
    ($($(#[$m:meta])* fn $name:ident() $body:block)*) => {
        crate::harnesses! { $(
            $(#[$m])*
            #[cfg_attr(kani, kani::stub(ruint::algorithms::div::div, unreachable_div))]
            #[cfg_attr(kani, kani::stub(ruint::Uint::is_zero, is_zero_model))]
            fn $name() $body
        )* }
    };
}

// ---------------------------------------------------------------- helpers
/// a canonical B-bit value (B <= 8) whose upper 56 bits are syntactically zero (zero extension of a u8), and its value
fn small<const B: usize>() -> (Uint<B, 1>, u16) {
    let v: u8 = any();
    assume((v as u16) < (1u16 << B));
    (Uint::from_limbs([v as u64]), v as u16)
}
fn mk<const B: usize>(v: u16) -> Uint<B, 1> { Uint::from_limbs([v as u64]) }
fn val<const B: usize>(x: Uint<B, 1>) -> u16 {
    assert!(x.as_limbs()[0] < (1u64 << B), "result is a canonical B-bit value");
    x.as_limbs()[0] as u16
}
/// one Euclid step, written without a loop (the oracle must not impose an unwind bound on the code under test)
macro_rules! euclid_steps { ($a:ident, $b:ident; $($k:tt)*) => { $( let _ = $k; if $b != 0 { let t = $a % $b; $a = $b; $b = t; } )* }; }
/// gcd of two values below 2^8: Euclid needs at most 13 steps (233, 144), +1 when a < b
fn gcd_u16(mut a: u16, mut b: u16) -> u16 {
    euclid_steps!(a, b; 1 2 3 4 5 6 7 8 9 10 11 12 13 14);
    assert!(b == 0, "oracle: Euclid finished");
    a
}

fn is_zero_contract<const B: usize, const L: usize>() {
    let x = uint::<B, L>();
    assert!(x.is_zero() == is_zero_model(&x), "is_zero contract: true exactly for the all-zero limbs");
}

// ---------------------------------------------------------------- symbolic, B <= 8
fn reduce_mod<const B: usize>() {
    let (a, av) = small::<B>();
    let (m, mv) = small::<B>();
    let want = if mv == 0 { 0 } else { av % mv };
    assert!(val(a.reduce_mod(m)) == want, "reduce_mod == a mod m (0 when m == 0)");
}
fn add_mod<const B: usize>() {
    let (a, av) = small::<B>();
    let (b, bv) = small::<B>();
    let (m, mv) = small::<B>();
    let want = if mv == 0 { 0 } else { (av + bv) % mv };
    assert!(val(a.add_mod(b, m)) == want, "add_mod == (a + b) mod m (0 when m == 0)");
}
fn mul_mod<const B: usize>() {
    let (a, av) = small::<B>();
    let (b, bv) = small::<B>();
    let (m, mv) = small::<B>();
    let want = if mv == 0 { 0 } else { (av * bv) % mv };
    assert!(val(a.mul_mod(b, m)) == want, "mul_mod == (a * b) mod m (0 when m == 0)");
}
// ---------------------------------------------------------------- symbolic, wide: add_mod on reduced operands
fn add_mod_wide<const B: usize, const L: usize>() {
    let a = uint::<B, L>();
    let b = uint::<B, L>();
    let m = uint::<B, L>();
    let (al, bl, ml) = (*a.as_limbs(), *b.as_limbs(), *m.as_limbs());
    assume(o::lt(&al, &ml) && o::lt(&bl, &ml));
    // a + b < 2 m: the sum with its carry, minus m once when it is >= m
    let (s, carry) = o::add(&al, &bl, false);
    let want = if carry || !o::lt(&s, &ml) { o::sub(&s, &ml, false).0 } else { s };
    let r = a.add_mod(b, m);
    assert!(o::same(r.as_limbs(), &want), "add_mod(a, b, m) == a + b or a + b - m for a, b < m");
    assert!(o::lt(r.as_limbs(), &ml), "add_mod result < m");
}

// ---------------------------------------------------------------- concrete enumeration (real code, every pair executed)
/// which: 0 gcd, 1 lcm, 2 gcd_extended, 3 inv_mod; pairs (a, b) with a in lo..hi, b in 0..2^B
fn enum_pairs<const B: usize>(which: u8, lo: u16, hi: u16) {
    let n = 1u16 << B;
    let mut av = lo;
    while av < hi {
        let mut bv = 0u16;
        while bv < n {
            let (a, b) = (mk::<B>(av), mk::<B>(bv));
            let g = gcd_u16(av, bv);
            match which {
                0 => assert!(val(a.gcd(b)) == g, "gcd == Euclid gcd"),
                1 => {
                    // lcm = a / g * b (0 when one of them is 0), None when it does not fit
                    let l = if g == 0 { 0 } else { av / g * bv };
                    match a.lcm(b) {
                        Some(x) => assert!(l < n && val(x) == l, "lcm: Some(l) with l = a*b/gcd < 2^BITS"),
                        None => assert!(l >= n, "lcm: None only when a*b/gcd >= 2^BITS"),
                    }
                }
                2 => {
                    let (ge, x, y, sign) = a.gcd_extended(b);
                    let (xv, yv) = (val(x), val(y));
                    assert!(val(ge) == g, "gcd_extended: gcd");
                    // a x - b y == g (sign) or b y - a x == g (!sign), modulo 2^BITS
                    let (p, q) = (av * xv, bv * yv); // < 2^16
                    let d = if sign { p.wrapping_sub(q) } else { q.wrapping_sub(p) };
                    assert!(d % n == g, "gcd_extended: Bezout identity modulo 2^BITS");
                }
                _ => {
                    // here b is the modulus
                    let exists = bv >= 2 && g == 1;
                    match a.inv_mod(b) {
                        Some(x) => assert!(exists && val(x) < bv && av * val(x) % bv == 1, "inv_mod: Some(x) with x < m, a x == 1 (mod m)"),
                        None => assert!(!exists, "inv_mod: None only when m < 2 or gcd(a, m) != 1"),
                    }
                }
            }
            bv += 1;
        }
        av += 1;
    }
}

/// inv_mod for every modulus in mlo..mhi and every a < m (complements the full pair enumeration at 3 bits, where
/// a >= m is included)
fn inv_mod_reduced<const B: usize>(mlo: u16, mhi: u16) {
    let mut mv = mlo;
    while mv < mhi {
        let mut av = 0u16;
        while av < mv {
            let exists = mv >= 2 && gcd_u16(av, mv) == 1;
            match mk::<B>(av).inv_mod(mk::<B>(mv)) {
                Some(x) => assert!(exists && val(x) < mv && av * val(x) % mv == 1, "inv_mod: Some(x) with x < m, a x == 1 (mod m)"),
                None => assert!(!exists, "inv_mod: None only when m < 2 or gcd(a, m) != 1"),
            }
            av += 1;
        }
        mv += 1;
    }
}
/// pow_mod for every a in lo..hi and every (e, m) below 2^B; oracle: e-fold multiplication modulo m
fn pow_mod_enum<const B: usize>(lo: u16, hi: u16) {
    let n = 1u16 << B;
    let mut av = lo;
    while av < hi {
        let mut ev = 0u16;
        while ev < n {
            let mut mv = 0u16;
            while mv < n {
                let want = if mv <= 1 { 0 } else {
                    let (mut r, mut i) = (1u16, 0);
                    while i < ev { r = r * av % mv; i += 1; }
                    r
                };
                assert!(val(mk::<B>(av).pow_mod(mk::<B>(ev), mk::<B>(mv))) == want, "pow_mod == a^e mod m (0 when m <= 1)");
                mv += 1;
            }
            ev += 1;
        }
        av += 1;
    }
}

pub mod z {
    use super::*;
    div_z_stubs! {
        #[cfg_attr(kani, kani::unwind(3))] fn c10_reduce_mod_w4() { reduce_mod::<4>() }
        #[cfg_attr(kani, kani::unwind(3))] fn c10_reduce_mod_w7() { reduce_mod::<7>() }
        #[cfg_attr(kani, kani::unwind(3))] fn c10_reduce_mod_w8() { reduce_mod::<8>() }
        #[cfg_attr(kani, kani::unwind(3))] fn c10_add_mod_w4() { add_mod::<4>() }
        #[cfg_attr(kani, kani::unwind(3))] fn c10_add_mod_w7() { add_mod::<7>() }
        #[cfg_attr(kani, kani::unwind(3))] fn c10_mul_mod_w4() { mul_mod::<4>() }
    }
}
pub mod wide {
    use super::*;
    nodiv_z_stubs! {
        #[cfg_attr(kani, kani::unwind(4))] fn c10_add_mod_reduced_w64() { add_mod_wide::<64, 1>() }
        #[cfg_attr(kani, kani::unwind(4))] fn c10_add_mod_reduced_w65() { add_mod_wide::<65, 2>() }
        #[cfg_attr(kani, kani::unwind(4))] fn c10_add_mod_reduced_w128() { add_mod_wide::<128, 2>() }
        #[cfg_attr(kani, kani::unwind(5))] fn c10_add_mod_reduced_w192() { add_mod_wide::<192, 3>() }
    }
}
pub mod en {
    use super::*;
    div_stubs! {
        #[cfg_attr(kani, kani::unwind(18))] fn c10_gcd_w3_a() { enum_pairs::<3>(0, 0, 4) }
        #[cfg_attr(kani, kani::unwind(18))] fn c10_gcd_w3_b() { enum_pairs::<3>(0, 4, 8) }
        #[cfg_attr(kani, kani::unwind(18))] fn c10_gcd_w4_a() { enum_pairs::<4>(0, 0, 2) }
        #[cfg_attr(kani, kani::unwind(18))] fn c10_gcd_w4_b() { enum_pairs::<4>(0, 2, 4) }
        #[cfg_attr(kani, kani::unwind(18))] fn c10_gcd_w4_c() { enum_pairs::<4>(0, 4, 6) }
        #[cfg_attr(kani, kani::unwind(18))] fn c10_gcd_w4_d() { enum_pairs::<4>(0, 6, 8) }
        #[cfg_attr(kani, kani::unwind(18))] fn c10_gcd_w4_e() { enum_pairs::<4>(0, 8, 10) }
        #[cfg_attr(kani, kani::unwind(18))] fn c10_gcd_w4_f() { enum_pairs::<4>(0, 10, 12) }
        #[cfg_attr(kani, kani::unwind(18))] fn c10_gcd_w4_g() { enum_pairs::<4>(0, 12, 14) }
        #[cfg_attr(kani, kani::unwind(18))] fn c10_gcd_w4_h() { enum_pairs::<4>(0, 14, 16) }
        #[cfg_attr(kani, kani::unwind(18))] fn c10_lcm_w3_a() { enum_pairs::<3>(1, 0, 2) }
        #[cfg_attr(kani, kani::unwind(18))] fn c10_lcm_w3_b() { enum_pairs::<3>(1, 2, 4) }
        #[cfg_attr(kani, kani::unwind(18))] fn c10_lcm_w3_c() { enum_pairs::<3>(1, 4, 6) }
        #[cfg_attr(kani, kani::unwind(18))] fn c10_lcm_w3_d() { enum_pairs::<3>(1, 6, 8) }
        #[cfg_attr(kani, kani::unwind(18))] fn c10_gcd_extended_w3_a() { enum_pairs::<3>(2, 0, 2) }
        #[cfg_attr(kani, kani::unwind(18))] fn c10_gcd_extended_w3_b() { enum_pairs::<3>(2, 2, 4) }
        #[cfg_attr(kani, kani::unwind(18))] fn c10_gcd_extended_w3_c() { enum_pairs::<3>(2, 4, 6) }
        #[cfg_attr(kani, kani::unwind(18))] fn c10_gcd_extended_w3_d() { enum_pairs::<3>(2, 6, 8) }
        #[cfg_attr(kani, kani::unwind(18))] fn c10_inv_mod_w3_a() { enum_pairs::<3>(3, 0, 3) }
        #[cfg_attr(kani, kani::unwind(18))] fn c10_inv_mod_w3_b() { enum_pairs::<3>(3, 3, 6) }
        #[cfg_attr(kani, kani::unwind(18))] fn c10_inv_mod_w3_c() { enum_pairs::<3>(3, 6, 8) }
        #[cfg_attr(kani, kani::unwind(18))] fn c10_inv_mod_reduced_w4_a() { inv_mod_reduced::<4>(0, 8) }
        #[cfg_attr(kani, kani::unwind(18))] fn c10_inv_mod_reduced_w4_b() { inv_mod_reduced::<4>(8, 11) }
        #[cfg_attr(kani, kani::unwind(18))] fn c10_inv_mod_reduced_w4_c() { inv_mod_reduced::<4>(11, 13) }
        #[cfg_attr(kani, kani::unwind(18))] fn c10_inv_mod_reduced_w4_d() { inv_mod_reduced::<4>(13, 15) }
        #[cfg_attr(kani, kani::unwind(18))] fn c10_inv_mod_reduced_w4_e() { inv_mod_reduced::<4>(15, 16) }
        #[cfg_attr(kani, kani::unwind(18))] fn c10_pow_mod_w2_a() { pow_mod_enum::<2>(0, 1) }
        #[cfg_attr(kani, kani::unwind(18))] fn c10_pow_mod_w2_b() { pow_mod_enum::<2>(1, 2) }
        #[cfg_attr(kani, kani::unwind(18))] fn c10_pow_mod_w2_c() { pow_mod_enum::<2>(2, 3) }
        #[cfg_attr(kani, kani::unwind(18))] fn c10_pow_mod_w2_d() { pow_mod_enum::<2>(3, 4) }
    }
}

crate::harnesses! {
    #[cfg_attr(kani, kani::unwind(10))] fn c10_is_zero_contract_w4() { is_zero_contract::<4, 1>() }
    #[cfg_attr(kani, kani::unwind(10))] fn c10_is_zero_contract_w7() { is_zero_contract::<7, 1>() }
    #[cfg_attr(kani, kani::unwind(10))] fn c10_is_zero_contract_w8() { is_zero_contract::<8, 1>() }
    #[cfg_attr(kani, kani::unwind(10))] fn c10_is_zero_contract_w64() { is_zero_contract::<64, 1>() }
    #[cfg_attr(kani, kani::unwind(18))] fn c10_is_zero_contract_w65() { is_zero_contract::<65, 2>() }
    #[cfg_attr(kani, kani::unwind(18))] fn c10_is_zero_contract_w128() { is_zero_contract::<128, 2>() }
    #[cfg_attr(kani, kani::unwind(26))] fn c10_is_zero_contract_w192() { is_zero_contract::<192, 3>() }
}

//! C14 — facts about core integer operations that the Verus division units ASSUME (cross-checks, full domain, loop-free:
//! complete). Division kernels themselves are out of CBMC's reach (symbolic 64x64 multiplies / divides: minutes to never).
use crate::sym::*;

fn rposition_contract<const N: usize>() {
    let a: [u64; N] = any();
    let n: usize = any();
    assume(n <= N);
    let s = &a[..n];
    match s.iter().rposition(|&x| x != 0) {
        Some(i) => {
            assert!(i < n && s[i] != 0, "rposition: index of a non-zero limb");
            let mut j = i + 1;
            while j < n { assert!(s[j] == 0, "rposition: everything above is zero"); j += 1; }
        }
        None => { let mut j = 0; while j < n { assert!(s[j] == 0, "rposition None: all zero"); j += 1; } }
    }
}

crate::harnesses! {
    // N14 wrapper rposition_nonzero (unit divd): std's Iterator::rposition on slices of length 0..=8 (bounded)
    #[cfg_attr(kani, kani::unwind(10))] fn c14_rposition_len8() { rposition_contract::<8>() }
    // lemma_lz_facts (unit knuth): x >= 1  ==>  lz < 64  and  2^63 <= x << lz < 2^64 (no bits lost)
    #[cfg_attr(kani, kani::unwind(2))] fn c14_leading_zeros_fact() {
        let x: u64 = any();
        assume(x >= 1);
        let lz = x.leading_zeros();
        assert!(lz < 64, "leading_zeros of a non-zero word is < 64");
        let y = (x as u128) << lz;
        assert!(y >= (1u128 << 63) && y < (1u128 << 64), "x * 2^lz is normalised and does not overflow");
    }
    // assume_specification [u128::overflowing_sub]
    #[cfg_attr(kani, kani::unwind(2))] fn c14_u128_overflowing_sub_spec() {
        let a: u128 = any();
        let b: u128 = any();
        let (r, f) = a.overflowing_sub(b);
        assert!(f == (a < b), "flag iff a < b");
        assert!(r == a.wrapping_sub(b), "wrapped difference");
        if a >= b { assert!(r == a - b); }
    }
    // assume_specification [u64::overflowing_add / overflowing_sub / wrapping_neg] (units add, kernels)
    #[cfg_attr(kani, kani::unwind(2))] fn c14_u64_core_specs() {
        let a: u64 = any();
        let b: u64 = any();
        let (r, f) = a.overflowing_add(b);
        let s = a as u128 + b as u128;
        assert!(r as u128 == s % (1u128 << 64) && f == (s >= (1u128 << 64)), "u64::overflowing_add spec");
        let (r, f) = a.overflowing_sub(b);
        assert!(f == (a < b) && r as u128 == ((1u128 << 64) + a as u128 - b as u128) % (1u128 << 64), "u64::overflowing_sub spec");
        let n = a.wrapping_neg();
        assert!(n as u128 == if a == 0 { 0 } else { (1u128 << 64) - a as u128 }, "u64::wrapping_neg spec");
        assert!(i8::from(a < b) == if a < b { 1 } else { 0 }, "i8::from(bool) spec");
        assert!(core::cmp::min(a as usize, b as usize) == if a <= b { a as usize } else { b as usize }, "cmp::min spec");
    }
}

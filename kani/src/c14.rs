//! C14 — facts about core integer operations that the Verus division units ASSUME (cross-checks, full domain, loop-free:
//! complete). Division kernels themselves are out of CBMC's reach (symbolic 64x64 multiplies / divides: minutes to never).
use crate::sym::*;

fn rposition_contract<const N: usize>() {
    let a: [u64; N] = any();
    let n: usize = any();
    assume(n <= N);
    let s = &a[..n];
    match s.iter().rposition(|&x| x != 0) {
        Some(i) => {
            assert!(i < n && s[i] != 0, "rposition: index of a non-zero limb");
            let mut j = i + 1;
            while j < n { assert!(s[j] == 0, "rposition: everything above is zero"); j += 1; }
        }
        None => { let mut j = 0; while j < n { assert!(s[j] == 0, "rposition None: all zero"); j += 1; } }
    }
}

/// BOUNDED stand-in for the one assumed kernel body, `reciprocal_mg10` (MG10 Alg. 3: table seed + three Newton steps over wrapping
/// words): on CONCRETE divisors - for each of the rows `lo..hi` of the 256-row seed table the bottom of the row, bottom + 1, the
/// middle, the top and top - 1 (d = (256 + row) << 55 | low) - the result equals `reciprocal_ref` = floor((2^128 - 1) / d) - 2^64.
/// The row edges are where a wrong seed or a dropped `- 1` shows first (the Newton steps absorb it in the interior).
/// Rows 0..=254 only: CBMC 6.11 itself crashes (exit status 136) while constant-folding row 255; that row is not covered.
fn reciprocal_rows(lo: u64, hi: u64) {
    use ruint::algorithms::div::{reciprocal_mg10, reciprocal_ref};
    const TOP: u64 = (1u64 << 55) - 1;
    let lows = [0u64, 1, (1u64 << 54) + 3, TOP - 1, TOP, 0x2a_aaaa_aaaa_aaaa, 0x55_5555_5555_5555 & TOP];
    let mut row = lo;
    while row < hi {
        let mut k = 0;
        while k < 7 {
            let d = ((256 + row) << 55) | lows[k];
            assert!(reciprocal_mg10(d) == reciprocal_ref(d), "reciprocal_mg10(d) == floor((2^128 - 1) / d) - 2^64 on the row-edge grid");
            k += 1;
        }
        row += 1;
    }
}

crate::harnesses! {
    #[cfg_attr(kani, kani::unwind(66))] fn c14_reciprocal_rows_0() { reciprocal_rows(0, 64) }
    #[cfg_attr(kani, kani::unwind(66))] fn c14_reciprocal_rows_1() { reciprocal_rows(64, 128) }
    #[cfg_attr(kani, kani::unwind(66))] fn c14_reciprocal_rows_2() { reciprocal_rows(128, 192) }
    #[cfg_attr(kani, kani::unwind(66))] fn c14_reciprocal_rows_3() { reciprocal_rows(192, 255) }
    // N14 wrapper rposition_nonzero (unit divd): std's Iterator::rposition on slices of length 0..=8 (bounded)
    #[cfg_attr(kani, kani::unwind(10))] fn c14_rposition_len8() { rposition_contract::<8>() }
    // lemma_lz_facts (unit knuth): x >= 1  ==>  lz < 64  and  2^63 <= x << lz < 2^64 (no bits lost)
    #[cfg_attr(kani, kani::unwind(2))] fn c14_leading_zeros_fact() {
        let x: u64 = any();
        assume(x >= 1);
        let lz = x.leading_zeros();
        assert!(lz < 64, "leading_zeros of a non-zero word is < 64");
        let y = (x as u128) << lz;
        assert!(y >= (1u128 << 63) && y < (1u128 << 64), "x * 2^lz is normalised and does not overflow");
    }
    // assume_specification [u128::overflowing_sub]
    #[cfg_attr(kani, kani::unwind(2))] fn c14_u128_overflowing_sub_spec() {
        let a: u128 = any();
        let b: u128 = any();
        let (r, f) = a.overflowing_sub(b);
        assert!(f == (a < b), "flag iff a < b");
        assert!(r == a.wrapping_sub(b), "wrapped difference");
        if a >= b { assert!(r == a - b); }
    }
    // assume_specification [u64::overflowing_add / overflowing_sub / wrapping_neg] (units add, kernels)
    #[cfg_attr(kani, kani::unwind(2))] fn c14_u64_core_specs() {
        let a: u64 = any();
        let b: u64 = any();
        let (r, f) = a.overflowing_add(b);
        let s = a as u128 + b as u128;
        assert!(r as u128 == s % (1u128 << 64) && f == (s >= (1u128 << 64)), "u64::overflowing_add spec");
        let (r, f) = a.overflowing_sub(b);
        assert!(f == (a < b) && r as u128 == ((1u128 << 64) + a as u128 - b as u128) % (1u128 << 64), "u64::overflowing_sub spec");
        let n = a.wrapping_neg();
        assert!(n as u128 == if a == 0 { 0 } else { (1u128 << 64) - a as u128 }, "u64::wrapping_neg spec");
        assert!(i8::from(a < b) == if a < b { 1 } else { 0 }, "i8::from(bool) spec");
        assert!(core::cmp::min(a as usize, b as usize) == if a <= b { a as usize } else { b as usize }, "cmp::min spec");
    }
}

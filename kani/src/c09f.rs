//! C09, formatting traits: `Display`, `Debug`, `LowerHex`, `UpperHex`, `Octal`, `Binary` of `Uint` print the same text as the
//! primitive `u128` of the same number under the same format spec (width, fill, alignment, `#`, `0`, `+` flags).
//!
//! BOUNDED stand-in, never counted as proved: each harness formats ONE CONCRETE value at one width under one spec through
//! the real `core::fmt::write` into a fixed byte sink (no allocation) and compares byte by byte with the primitive's output.
//! A symbolic value was tried (u8 at 8 bits, `{:#06x}`): no result in 20 min, so the formatting code (`write_digits!` in
//! src/fmt.rs: the zero fast path, the chunked `to_base_be(MAX)` loop with `{:0width$}` chunk padding, `pad_integral` with
//! the per-base prefix, `DisplayBuffer::write_str`) is exercised on a grid chosen to reach every branch: zero (with and
//! without `#`, at LIMBS == 0 too), one chunk, chunk boundary (MAX - 1, MAX, MAX + 1: a second chunk that is all zeros),
//! three chunks, at 8 / 64 / 65 / 128 bits.  Measured (16 cores busy): zero cases 10-15 s each, one chunk 20-130 s, three chunks 40-210 s.
//! Specs with an explicit fill/width on NON-zero values (`{:>7}`, `{:*<7}`, `{:08b}`, `{:#040x}`) and the exact chunk-boundary
//! values MAX, MAX+1 did not finish within 300 s (core::fmt's padding path through `write_char`) and are NOT in the grid:
//! width/fill/alignment are checked on zero only (`{:#010x}`), everything else is left to `Formatter::pad_integral` (std).  The per-base constants (MAX = base^WIDTH, PREFIX) are pinned for all widths by
//! the Verus unit `fmt_consts`; the digit chunks come from `to_base_be`, proved in unit `spigot`.
use core::fmt::Write;
use ruint::Uint;

pub const CAP: usize = 160;
pub struct Sink { pub b: [u8; CAP], pub n: usize, pub over: bool }
impl Sink { pub fn new() -> Self { Sink { b: [0; CAP], n: 0, over: false } } }
impl Write for Sink {
    fn write_str(&mut self, s: &str) -> core::fmt::Result {
        let bs = s.as_bytes();
        let mut i = 0;
        while i < bs.len() {
            if self.n >= CAP { self.over = true; return Err(core::fmt::Error); }
            self.b[self.n] = bs[i];
            self.n += 1;
            i += 1;
        }
        Ok(())
    }
}
pub fn mk<const B: usize, const L: usize>(v: u128) -> Uint<B, L> {
    let mut limbs = [0u64; L];
    if L > 0 { limbs[0] = v as u64; }
    if L > 1 { limbs[1] = (v >> 64) as u64; }
    Uint::from_limbs(limbs)
}
pub fn same(r1: core::fmt::Result, r2: core::fmt::Result, s: &Sink, t: &Sink) {
    assert!(r1.is_ok() && r2.is_ok() && !s.over && !t.over, "fmt: formatting succeeds");
    assert!(s.n == t.n, "fmt: same length as the primitive's text");
    let mut i = 0;
    while i < CAP {
        if i < t.n { assert!(s.b[i] == t.b[i], "fmt: same characters as the primitive's text"); }
        i += 1;
    }
}
macro_rules! fmt_cases {
    ($( $name:ident: $B:literal, $L:literal, $v:expr, $spec:literal; )*) => {
        crate::harnesses! { $(
            #[cfg_attr(kani, kani::unwind(162))]
            fn $name() {
                let v: u128 = $v;
                let x = mk::<$B, $L>(v);
                let (mut s, mut t) = (Sink::new(), Sink::new());
                let r1 = core::fmt::write(&mut s, format_args!($spec, x));
                let r2 = core::fmt::write(&mut t, format_args!($spec, v));
                same(r1, r2, &s, &t);
            }
        )* }
    };
}
const D19: u128 = 10_000_000_000_000_000_000; // Decimal::MAX = 10^19
fmt_cases! {
    // zero fast path: prefix must be the base's prefix
    c09f_zero_x_w0: 0, 0, 0, "{:#x}";
    c09f_zero_x_w8: 8, 1, 0, "{:#x}";
    c09f_zero_o_w65: 65, 2, 0, "{:#o}";
    c09f_zero_b_w128: 128, 2, 0, "{:#b}";
    c09f_zero_ux_w64: 64, 1, 0, "{:#X}";
    c09f_zero_d_w64: 64, 1, 0, "{}";
    c09f_zero_pad_w8: 8, 1, 0, "{:#010x}";
    c09f_zero_dbg_w8: 8, 1, 0, "{:?}";
    // one chunk
    c09f_one_x_w8: 8, 1, 0xab, "{:x}";
    c09f_one_ux_w64: 64, 1, 0xdead_beef_0bad_f00d, "{:#X}";
    c09f_one_d_w64: 64, 1, 1234567890123456789, "{}";
    c09f_one_dbg_w64: 64, 1, 9_999_999_999_999_999_999, "{:?}";
    c09f_one_o_w8: 8, 1, 0o377, "{:#o}";
    c09f_one_plus_w8: 8, 1, 200, "{:+}";
    // chunk boundaries: the low chunk must be zero-padded to WIDTH characters
    c09f_bnd_dm_w65: 65, 2, D19 - 1, "{}";
    // three chunks at 128 bits
    c09f_max_d_w128: 128, 2, u128::MAX, "{}";
    c09f_max_x_w128: 128, 2, u128::MAX, "{:#x}";
    c09f_max_o_w128: 128, 2, u128::MAX, "{:o}";
    c09f_max_b_w128: 128, 2, u128::MAX - 1, "{:#b}";
}

//! C02 — multiplication at the Uint level.
//! MEASURED: CBMC needs > 2 min and 11-13 GB for overflowing_mul even at BITS = 1 or 7 (the symbolic execution of
//! addmul's trimming loops dominates), did not finish 16/32/63 bits within 300 s, and needs 130-180 s / 4 GB for a
//! 3x5-bit widening_mul. Products are therefore decided by the Verus units mul / addmul / addmul_n (all widths) only;
//! the generic bodies mul_small / widening_small below are kept for the native replay binary but have no harness.
//! What Kani decides here: inv_ring's Some/None condition and a * x == 1 (mod 2^BITS) at BITS in {1, 8} (16 bits:
//! 215 s, thorough tier), and Product over <= 2 elements at 8 bits (bounded).
use crate::oracle as o;
use crate::sym::*;
use ruint::Uint;

fn mul_small<const B: usize>() {
    // one limb, B <= 64
    let a = uint::<B, 1>();
    let b = uint::<B, 1>();
    let (x, y) = (a.as_limbs()[0] as u128, b.as_limbs()[0] as u128);
    let p = x * y;
    let m: u128 = 1u128 << B;
    let want = (p % m) as u64;
    let over = p >= m;
    let (r, f) = a.overflowing_mul(b);
    assert!(r.as_limbs()[0] == want, "overflowing_mul value");
    assert!(f == over, "overflowing_mul flag");
    assert!(a.wrapping_mul(b).as_limbs()[0] == want, "wrapping_mul");
    assert!(opt_is(a.checked_mul(b), over, r), "checked_mul");
    assert!(a.saturating_mul(b).as_limbs()[0] == if over { (m - 1) as u64 } else { want }, "saturating_mul");
    assert!((a * b).as_limbs()[0] == want && (&a * b).as_limbs()[0] == want && (a * &b).as_limbs()[0] == want && (&a * &b).as_limbs()[0] == want, "Mul operators");
    let mut t = a; t *= b; assert!(t.as_limbs()[0] == want, "MulAssign");
    let mut t = a; t *= &b; assert!(t.as_limbs()[0] == want, "MulAssign ref");
}

fn widening_small<const B1: usize, const B2: usize, const BR: usize>() {
    let a = uint::<B1, 1>();
    let b = uint::<B2, 1>();
    let p = (a.as_limbs()[0] as u128) * (b.as_limbs()[0] as u128);
    let r: Uint<BR, 1> = a.widening_mul(b);
    assert!(r.as_limbs()[0] as u128 == p, "widening_mul equals the full product");
}

fn inv_ring_small<const B: usize>() {
    let a = uint::<B, 1>();
    let x = a.as_limbs()[0];
    match a.inv_ring() {
        None => assert!(B == 0 || x & 1 == 0, "inv_ring None only for even values"),
        Some(i) => {
            assert!(x & 1 == 1, "inv_ring Some only for odd values");
            let m = o::mask_of(B);
            assert!(i.as_limbs()[0] <= m, "inv_ring canonical");
            assert!(x.wrapping_mul(i.as_limbs()[0]) & m == 1, "a * inv_ring(a) == 1 mod 2^BITS");
        }
    }
}

fn inv_ring_cond<const B: usize, const L: usize>() {
    let a = uint::<B, L>();
    let odd = L > 0 && a.as_limbs()[0] & 1 == 1;
    assert!(a.inv_ring().is_some() == odd, "inv_ring is Some exactly for odd values");
}

/// one operand symbolic, the other a constant of a special shape: no symbolic x symbolic multiply is needed,
/// so wider widths are within CBMC's reach. Oracles: a*0 = 0, a*1 = a, a*2^k = a << k (overflow iff bits are lost).
fn mul_by_const<const B: usize, const L: usize>(c: [u64; L], shift: usize) {
    let a = uint::<B, L>();
    let al = *a.as_limbs();
    let b = Uint::<B, L>::from_limbs(c);
    // expected: a << shift (c == 2^shift), or 0 if c == 0 (shift == usize::MAX)
    let mut want = [0u64; L];
    let mut lost = false;
    if shift != usize::MAX {
        let mut i = 0;
        while i < 64 * L {
            if o::bit(&al, i) {
                if i + shift < B { o::set_bit(&mut want, i + shift, true); } else { lost = true; }
            }
            i += 1;
        }
    }
    let (r, f) = a.overflowing_mul(b);
    assert!(o::same(r.as_limbs(), &want), "overflowing_mul value (const operand)");
    assert!(f == lost, "overflowing_mul flag (const operand)");
    let (r2, f2) = b.overflowing_mul(a);
    assert!(o::same(r2.as_limbs(), &want) && f2 == lost, "overflowing_mul commuted (const operand)");
    assert!(o::same(a.wrapping_mul(b).as_limbs(), &want), "wrapping_mul (const operand)");
    assert!(opt_is(a.checked_mul(b), lost, r), "checked_mul (const operand)");
    assert!(o::same(a.saturating_mul(b).as_limbs(), &if lost { o::max_of::<L>(B) } else { want }), "saturating_mul (const operand)");
}

fn product2<const B: usize>() {
    let a = uint::<B, 1>();
    let b = uint::<B, 1>();
    let n: usize = any();
    assume(n <= 2);
    let xs = [a, b];
    let m: u128 = 1u128 << B;
    let want = match n { 0 => 1 % m, 1 => a.as_limbs()[0] as u128, _ => ((a.as_limbs()[0] as u128) * (b.as_limbs()[0] as u128)) % m } as u64;
    let by_val: Uint<B, 1> = xs[..n].iter().copied().product();
    let by_ref: Uint<B, 1> = xs[..n].iter().product();
    assert!(by_val.as_limbs()[0] == want, "Product<Self>");
    assert!(by_ref.as_limbs()[0] == want, "Product<&Self>");
}

/// BOUNDED (limbs drawn from a finite set, everything concrete): overflowing / checked / saturating / wrapping mul on EVERY pair of
/// L-limb operands whose limbs come from `set`, against a schoolbook oracle over 2L limbs. The set holds the values that steer
/// addmul's trimming, truncated-row and carry paths: 0, 1, all ones, the top bit. No symbolic multiply is involved, so this is
/// cheap where a symbolic product is out of reach; the all-widths statement is the Verus proof (units mul, addmul, addmul_n).
fn mul_grid<const B: usize, const L: usize, const L2: usize>(set: &[u64]) {
    let n = set.len();
    let mut total = 1usize;
    let mut k = 0;
    while k < 2 * L { total *= n; k += 1; }
    let mut idx = 0usize;
    while idx < total {
        // decode idx into 2L digits base n
        let mut a = [0u64; L];
        let mut b = [0u64; L];
        let mut t = idx;
        let mut j = 0;
        while j < L { a[j] = set[t % n]; t /= n; j += 1; }
        let mut j = 0;
        while j < L { b[j] = set[t % n]; t /= n; j += 1; }
        let m = o::mask_of(B);
        if L > 0 { a[L - 1] &= m; b[L - 1] &= m; }
        // schoolbook product over 2L limbs
        let mut p = [0u64; L2];
        let mut i = 0;
        while i < L {
            let mut carry: u128 = 0;
            let mut j = 0;
            while j < L {
                let cur = p[i + j] as u128 + (a[i] as u128) * (b[j] as u128) + carry;
                p[i + j] = cur as u64;
                carry = cur >> 64;
                j += 1;
            }
            p[i + L] = carry as u64;
            i += 1;
        }
        let mut want = [0u64; L];
        let mut j = 0;
        while j < L { want[j] = p[j]; j += 1; }
        let mut over = false;
        let mut j = L;
        while j < L2 { if p[j] != 0 { over = true; } j += 1; }
        if L > 0 { if want[L - 1] > m { over = true; } want[L - 1] &= m; }
        let (x, y) = (Uint::<B, L>::from_limbs(a), Uint::<B, L>::from_limbs(b));
        let (r, f) = x.overflowing_mul(y);
        assert!(o::same(r.as_limbs(), &want), "overflowing_mul value (limb grid)");
        assert!(f == over, "overflowing_mul flag <=> a*b >= 2^BITS (limb grid)");
        assert!(x.checked_mul(y).is_some() == !over, "checked_mul is None exactly on overflow (limb grid)");
        let sat = x.saturating_mul(y);
        assert!(if over { o::same(sat.as_limbs(), &o::max_of::<L>(B)) } else { o::same(sat.as_limbs(), &want) }, "saturating_mul (limb grid)");
        idx += 1;
    }
}

crate::harnesses! {
    // MEASURED: 625 pairs per harness did not finish in 900 s (about 1.5 s of symbolic execution per concrete product): 81 / 64 pairs
    #[cfg_attr(kani, kani::unwind(90))] fn c02_mul_grid_w128() { mul_grid::<128, 2, 4>(&[0, 1, u64::MAX]) }
    #[cfg_attr(kani, kani::unwind(90))] fn c02_mul_grid_w127() { mul_grid::<127, 2, 4>(&[0, 1, u64::MAX]) }
    #[cfg_attr(kani, kani::unwind(70))] fn c02_mul_grid_w192() { mul_grid::<192, 3, 6>(&[1, u64::MAX]) }
    // MEASURED: a constant 1, 8 or 2^64 operand still does not finish in 600 s; only the zero operand is cheap (11 s)
    #[cfg_attr(kani, kani::unwind(132))] fn c02_mulc_zero_w128() { mul_by_const::<128, 2>([0, 0], usize::MAX) }
    #[cfg_attr(kani, kani::unwind(132))] fn c02_mulc_zero_w65() { mul_by_const::<65, 2>([0, 0], usize::MAX) }
    #[cfg_attr(kani, kani::unwind(200))] fn c02_mulc_zero_w192() { mul_by_const::<192, 3>([0, 0, 0], usize::MAX) }
    #[cfg_attr(kani, kani::unwind(8))] fn c02_inv_ring_w1() { inv_ring_small::<1>() }
    #[cfg_attr(kani, kani::unwind(8))] fn c02_inv_ring_w8() { inv_ring_small::<8>() }
    #[cfg_attr(kani, kani::unwind(8))] fn c02_inv_ring_w16() { inv_ring_small::<16>() }
    #[cfg_attr(kani, kani::unwind(8))] fn c02_inv_ring_cond_w0() { inv_ring_cond::<0, 0>() }
    #[cfg_attr(kani, kani::unwind(8))] fn c02_product_w8() { product2::<8>() }
}

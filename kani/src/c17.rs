//! C17 - decoders of the codec integrations are total on untrusted input (ruint src/support/*.rs).
//! Only with `--features codecs` (`#![cfg(feature = "codecs")]`).  What is NOT covered is listed at the end.
//!
//! Shape of every harness: buf: [u8; N] symbolic, n symbolic in 0..=N, input = &buf[..n] with N = BYTES + 4 - i.e. ALL
//! byte strings of every length 0..=BYTES+4 (BOUNDED: longer inputs are not covered).  The call returns (Kani's
//! default checks: no panic, no arithmetic overflow, no out-of-bounds access) and
//!   Ok(v)  =>  v is canonical, the spec function of the format (written here, `*_denotes`) gives Some(w) and v == w,
//!              and the decoder consumed exactly the bytes the spec says;
//!   spec None (value >= 2^BITS, truncated input, malformed / non-integer header)  =>  Err;
//!   the input is the canonical encoding of a value < 2^BITS  =>  Ok   (so the decoder is not trivially rejecting).
//! For the decoders that enforce canonical form (alloy-rlp, fastrlp 0.3 / 0.4, DER) the spec is the strict one, the
//! claim is `Ok iff spec Some`, and an accepted input re-encodes (real encoder) to exactly the bytes consumed.
//! `c17_spec_*` (8, 64, 65, 128 bits): the decode specs invert the encode specs of c16 (`*_denotes(*_spec(x)) == x`, pure
//! spec code): with c16's "encoder output == *_spec(x)" this gives the round trips that c16 does not run directly.
//!
//!  * alloy-rlp / fastrlp 0.3 / fastrlp 0.4 `Decodable::decode(&mut &buf[..n])` (`c17_alloy_*`, `c17_frlp3_*`,
//!    `c17_frlp4_*`): widths 7/1 8/1 16/1 60/1 64/1 65/2; Ok iff strict spec; re-encoding == consumed bytes.
//!  * rlp `rlp::decode::<Uint>` (7/1 8/1 16/1 60/1 64/1 65/2) and `Rlp::new(..).as_val()` (8/1 60/1 65/2) (`c17_rlp_*`):
//!    lenient spec (the crate accepts leading zero bytes and 0x81 xx with xx < 0x80; ruint adds no checks), every
//!    canonical encoding accepted.  Inputs whose first byte is a LIST header (>= 0xc0) are only checked for "no panic,
//!    canonical result": ruint calls `Rlp::data()`, which returns the payload of a list too, so [0xc1, 0x05] decodes to
//!    Ok(5) (GENUINE FINDING, see `rlp_list_is_err`, not registered as a harness because it fails on the current tree).
//!  * SCALE fixed `Decode::decode`: `c17_scale_fixed_w{7,8,16}`: `&mut &buf[..n]`, all inputs.  At 60/1 64/1 65/2 the
//!    symbolic length prefix makes parity-scale-codec's Vec<u8> decoding too heavy (> 200 s): `c17_scale_fixed_k*`
//!    deliver the bytes through c16's `SplitInput` (the decoder is generic over `Input`) with a CONCRETE first byte
//!    k << 2, k = 0..=63 in four harnesses of 16 (all single-byte-mode length prefixes), rest all strings of
//!    0..=BYTES+3 bytes.  BOUNDED at these three widths: first bytes of the 2-/4-byte/big length modes are not covered
//!    (they announce >= 64 bytes or are rejected by parity-scale-codec itself; covered at 7, 8, 16 bits).
//!  * SCALE compact `CompactUint::decode` (`c17_scale_compact_*`): with a symbolic first byte the decoder's generic arm
//!    (`bytes => ...`: a collect loop of up to 67 reads into a growing Vec, 536-bit shift and compare) does not finish
//!    (9 loop iterations in 300 s).  The bytes are delivered through `SplitInput` with a CONCRETE first byte
//!    (p << 2) | mode; each harness walks over p in lo..=hi and, for each, over all rests of 0..=BYTES+3 bytes.
//!    8/1, 60/1, 65/2: modes 0, 1, 2 for all 64 p (2 + 4 + 4 harnesses); 7/1, 64/1: mode 0 only; `*_big_*` (all five
//!    widths): big mode with 4, 8 and 16 payload bytes (first bytes 0x03, 0x13, 0x33 - the u32 / u64 / u128 arms).
//!    Lenient spec: non-minimal encodings may be accepted or rejected (SCALE compact is not in the property's list of
//!    canonical decoders; the current decoder accepts e.g. 07 01 00 00 00 00 as 1 at 65 bits); minimal ones must be Ok.
//!  * SSZ `from_ssz_bytes` (`c17_ssz_*`): Ok iff n == BYTES and value < 2^BITS.
//!  * borsh `try_from_slice` (Ok iff n == BYTES and fits) and `deserialize(&mut &buf[..n])` (Ok iff n >= BYTES and the
//!    first BYTES bytes fit; exactly BYTES consumed) (`c17_borsh_*`).
//!  * DER: `c17_der_value_*`: `DecodeValue::decode_value(reader over the content, Header(INTEGER, n))` - the part of
//!    `from_der` that ruint implements - for all contents of 0..=BYTES+4 bytes: Ok iff canonical non-negative INTEGER
//!    < 2^BITS; `c17_der_value_reenc_w{7,8,16}`: and `encode_value` of the result reproduces the content (60..65 bits:
//!    120 s, not registered; there it follows from the strict spec + c16_der_value + c17_spec_der).
//!    `c17_der_{intref,uintref,anyref}_*` (7/1 8/1 60/1 65/2): `TryFrom<IntRef>`, `TryFrom<UintRef>`, `TryFrom<AnyRef>`
//!    on every byte string the der crate's constructors accept.
//!  * serde binary (`c17_serde_bytes_*`): `Deserialize::deserialize` with a non-human-readable mock Deserializer that
//!    hands &buf[..n] to `visit_bytes`: Ok iff n == BYTES and value < 2^BITS.
//! Widths: 7/1 8/1 16/1 60/1 64/1 65/2 unless stated.
//! Stubs: `alloc::fmt::format` -> empty String (`c16::fmt_stub`) in every harness that can reach an error message.
//! Error values are `mem::forget`-ed (`c16::okf`): dropping a boxed `dyn Error` costs CBMC ~25 s each.
//!
//! NOT covered (measured, cap 150 s / 6 GB per harness):
//!  * SCALE compact: big mode with a payload byte count other than 4, 8, 16 (the decoder's generic arm: > 200 s for ONE
//!    concrete first byte) - this includes 9-byte values at 65 bits; modes 1, 2 at 7/1 and 64/1; the empty input
//!    (11 GB: the generic arm is explored); inputs longer than BYTES+4.
//!  * DER `from_der` / `Decode::decode` end to end (the der crate's tag + length parsing and SliceReader in front of
//!    `decode_value`): > 180 s of symbolic execution at 8 bits, > 150 s even with the tag byte fixed and 4 input bytes
//!    (`der_from_der` kept, unregistered); `TryFrom<&Any / &Int / &der::Uint>` (owned, heap).
//!  * num-bigint `TryFrom<BigUint / BigInt>`: 11 GB at 8 bits (see c16).
//!  * postgres `FromSql::from_sql` (every column type) and serde human-readable / JSON: not attempted for lack of time.
//!  * `try_from_be_slice` / `try_from_le_slice` themselves: C08.
use crate::c16::*;
use crate::oracle as o;
use crate::sym::*;
use ruint::Uint;

// ---------------------------------------------------------------- spec helpers
/// big-endian value of buf[start..start+len] (len <= N) and whether it exceeds 128 bits
fn be_value<const N: usize>(buf: &[u8; N], start: usize, len: usize) -> (u128, bool) {
    let mut v = 0u128;
    let mut over = false;
    let mut i = 0;
    while i < N {
        if i < len {
            if (v >> 120) != 0 { over = true; }
            v = (v << 8) | buf[start + i] as u128;
        }
        i += 1;
    }
    (v, over)
}
/// little-endian value of buf[start..start+len] and whether it exceeds 128 bits
fn le_value<const N: usize>(buf: &[u8; N], start: usize, len: usize) -> (u128, bool) {
    let mut v = 0u128;
    let mut over = false;
    let mut i = 0;
    while i < N {
        if i < len {
            let b = buf[start + i] as u128;
            if i < 16 { v |= b << (8 * i); } else if b != 0 { over = true; }
        }
        i += 1;
    }
    (v, over)
}
fn fits(v: u128, over: bool, bits: usize) -> bool { !over && (bits >= 128 || (v >> bits) == 0) }

/// RLP: the integer denoted by a prefix of buf[..n] and the number of bytes of that item.
/// strict = canonical integers only (no leading zero byte, no 0x81 xx with xx < 0x80).
/// Long-form strings (0xb8..=0xbf) need a payload of >= 56 bytes, more than any input here holds (N < 56): truncated or
/// non-canonical length, None either way.  Lists (>= 0xc0) are not integers.
fn rlp_denotes<const N: usize>(buf: &[u8; N], n: usize, bits: usize, strict: bool) -> Option<(u128, usize)> {
    if n == 0 { return None; }
    let b = buf[0];
    let (start, len) = if b < 0x80 { (0usize, 1usize) } else if b <= 0xb7 { (1, (b - 0x80) as usize) } else { return None; };
    if start + len > n { return None; }
    if strict {
        if start == 1 && len == 1 && buf[1] < 0x80 { return None; }
        if len > 0 && buf[start] == 0 { return None; }
    }
    let (v, over) = be_value(buf, start, len);
    if !fits(v, over, bits) { return None; }
    Some((v, start + len))
}
/// SCALE compact: value and bytes consumed (lenient), plus whether the encoding is the minimal one
fn compact_denotes<const N: usize>(buf: &[u8; N], n: usize, bits: usize) -> Option<(u128, usize, bool)> {
    if n == 0 { return None; }
    let b = buf[0];
    let (v, over, used, minimal) = match b & 3 {
        0 => ((b >> 2) as u128, false, 1, true),
        1 => {
            if n < 2 { return None; }
            let v = (le_value(buf, 0, 2).0) >> 2;
            (v, false, 2, v >= (1 << 6))
        }
        2 => {
            if n < 4 { return None; }
            let v = (le_value(buf, 0, 4).0) >> 2;
            (v, false, 4, v >= (1 << 14))
        }
        _ => {
            let k = (b >> 2) as usize + 4;
            if n < 1 + k { return None; }
            let (v, over) = le_value(buf, 1, k);
            (v, over, 1 + k, buf[k] != 0 && (over || v >= (1 << 30)))
        }
    };
    if !fits(v, over, bits) { return None; }
    Some((v, used, minimal))
}
/// DER INTEGER content (the bytes after tag and length): the non-negative value it denotes, canonical form only
fn der_content_denotes<const N: usize>(buf: &[u8; N], start: usize, len: usize, bits: usize) -> Option<u128> {
    if len == 0 { return None; }
    let c0 = buf[start];
    if c0 >= 0x80 { return None; } // negative
    if c0 == 0 && len > 1 && buf[start + 1] < 0x80 { return None; } // superfluous leading zero
    let (v, over) = be_value(buf, start, len);
    if !fits(v, over, bits) { return None; }
    Some(v)
}
fn is_val<const B: usize, const L: usize>(x: &Uint<B, L>, v: u128) -> bool { canonical(x) && val(x) == v }

// ---------------------------------------------------------------- the specs invert each other (no ruint code)
fn spec_rlp<const B: usize>() {
    let v: u128 = any();
    assume(B >= 128 || (v >> B) == 0);
    let (e, n) = rlp_spec(v, nbytes(B));
    let mut buf = [0u8; 24];
    let mut i = 0;
    while i < 24 { buf[i] = e[i]; i += 1; }
    match rlp_denotes(&buf, n, B, true) { Some((w, c)) => assert!(w == v && c == n, "rlp spec inverts"), None => assert!(false, "rlp spec accepts its own encoding") }
}
fn spec_compact<const B: usize>() {
    let v: u128 = any();
    assume(B >= 128 || (v >> B) == 0);
    let (e, n) = compact_spec(v, nbytes(B));
    let mut buf = [0u8; 24];
    let mut i = 0;
    while i < 24 { buf[i] = e[i]; i += 1; }
    match compact_denotes(&buf, n, B) { Some((w, c, m)) => assert!(w == v && c == n && m, "compact spec inverts, minimal"), None => assert!(false, "compact spec accepts its own encoding") }
}
fn spec_der<const B: usize>() {
    let v: u128 = any();
    assume(B >= 128 || (v >> B) == 0);
    let (e, n) = der_spec(v, nbytes(B));
    let mut buf = [0u8; 24];
    let mut i = 0;
    while i < 24 { buf[i] = e[i]; i += 1; }
    assert!(e[0] == 2 && e[1] as usize + 2 == n);
    match der_content_denotes(&buf, 2, n - 2, B) { Some(w) => assert!(w == v, "der spec inverts"), None => assert!(false, "der spec accepts its own encoding") }
}

// ---------------------------------------------------------------- alloy-rlp, fastrlp 0.3 / 0.4 (strict)
macro_rules! rlp_strict {
    ($f:ident, $krate:ident) => {
        fn $f<const B: usize, const L: usize, const N: usize>() {
            use $krate::{Decodable, Encodable};
            assert!(N == nbytes(B) + 4 && N < 56);
            let buf: [u8; N] = any();
            let n: usize = any();
            assume(n <= N);
            let mut r: &[u8] = &buf[..n];
            let res = okf(<Uint<B, L> as Decodable>::decode(&mut r));
            match (res, rlp_denotes(&buf, n, B, true)) {
                (Some(v), Some((w, used))) => {
                    assert!(is_val(&v, w), "rlp: Ok(v): v canonical and the denoted value");
                    assert!(r.len() == n - used, "rlp: consumed exactly the item");
                    // canonical form: the accepted bytes are what the encoder produces
                    let mut out = [0u8; W];
                    let mut s: &mut [u8] = &mut out[..];
                    v.encode(&mut s);
                    let m = W - s.len();
                    assert!(m == used, "rlp: re-encoding has the consumed length");
                    let mut i = 0;
                    while i < N { if i < used { assert!(out[i] == buf[i], "rlp: re-encoding equals the consumed bytes"); } i += 1; }
                }
                (None, None) => {}
                (Some(_), None) => assert!(false, "rlp: accepted an input that denotes no value < 2^BITS in canonical form"),
                (None, Some(_)) => assert!(false, "rlp: rejected a canonical encoding of a value < 2^BITS"),
            }
        }
    };
}
rlp_strict!(alloy_dec, alloy_rlp);
rlp_strict!(frlp3_dec, fastrlp_03);
rlp_strict!(frlp4_dec, fastrlp_04);

// ---------------------------------------------------------------- rlp (parity), lenient
/// which: 0 `rlp::decode`, 1 `Rlp::new(..).as_val()`
fn rlp_dec<const B: usize, const L: usize, const N: usize>(which: u8) {
    assert!(N == nbytes(B) + 4 && N < 56);
    let buf: [u8; N] = any();
    let n: usize = any();
    assume(n <= N);
    let res = if which == 0 { okf(rlp::decode::<Uint<B, L>>(&buf[..n])) } else { okf(rlp::Rlp::new(&buf[..n]).as_val::<Uint<B, L>>()) };
    if n > 0 && buf[0] >= 0xc0 {
        // list items: see kf_c17_rlp_list_is_err_w8; here only the type invariant
        if let Some(v) = res { assert!(canonical(&v), "rlp crate: Ok(v): v canonical"); }
        return;
    }
    match (res, rlp_denotes(&buf, n, B, false)) {
        (Some(v), Some((w, _))) => assert!(is_val(&v, w), "rlp crate: Ok(v): v canonical and the denoted value"),
        (None, None) => {}
        (Some(_), None) => assert!(false, "rlp crate: accepted an input that denotes no value < 2^BITS"),
        (None, Some(_)) => assert!(rlp_denotes(&buf, n, B, true).is_none(), "rlp crate: rejected a canonical encoding of a value < 2^BITS"),
    }
}
/// an RLP list is not an integer (found failing on the pinned tree: [0xc1, 0x05] -> Ok(5), because `Rlp::data()` also returns a
/// list's payload; repaired by a `fix:` commit, see known-findings.txt; registered as `c17_rlp_list_is_err_w8`)
fn rlp_list_is_err() {
    let buf: [u8; 5] = any();
    let n: usize = any();
    assume(n >= 1 && n <= 5 && buf[0] >= 0xc0);
    assert!(okf(rlp::decode::<Uint<8, 1>>(&buf[..n])).is_none(), "rlp crate: a list item is rejected by the integer decoder");
}

// ---------------------------------------------------------------- SCALE fixed
/// first byte = (p << 2) | mode for the concrete p in lo..=hi (delivered through `SplitInput`, see the module comment:
/// with a symbolic length prefix parity-scale-codec's `Vec<u8>` decoding - allocation and copy of symbolic size - takes
/// 75 s at 8 bits and > 200 s at 65 bits); rest: all strings of 0..=N-1 bytes.
fn scale_fixed_dec<const B: usize, const L: usize, const N: usize>(mode: u8, lo: u8, hi: u8) {
    use parity_scale_codec::Decode;
    assert!(N == nbytes(B) + 4 && N < 64);
    let nb = nbytes(B);
    let mut buf: [u8; N] = any();
    let n: usize = any();
    assume(n >= 1 && n <= N);
    let mut p = lo;
    while p <= hi {
        let first = (p << 2) | mode;
        buf[0] = first;
        let mut inp = SplitInput::new(first, &buf[1..n]);
        let res = okf(<Uint<B, L> as Decode>::decode(&mut inp));
        // spec: compact length prefix k, then k little-endian bytes.  Any prefix mode other than the single-byte one
        // announces >= 64 bytes (canonical) or is a non-minimal length (rejected by parity-scale-codec): no input of
        // N < 64 bytes can carry it.
        let k = p as usize;
        let denotes = if mode == 0 && 1 + k <= n {
            let (v, over) = le_value(&buf, 1, k);
            if fits(v, over, B) { Some((v, 1 + k)) } else { None }
        } else { None };
        match (res, denotes) {
            (Some(v), Some((w, used))) => assert!(is_val(&v, w) && inp.left() == n - used, "scale fixed: Ok(v): canonical, the denoted value, item consumed"),
            (None, None) => {}
            (Some(_), None) => assert!(false, "scale fixed: accepted a truncated / oversized / malformed input"),
            // the encoder always writes BYTES bytes; other lengths with a fitting value may be rejected
            (None, Some((_, used))) => assert!(used != 1 + nb, "scale fixed: rejected a well-formed BYTES-long encoding of a value < 2^BITS"),
        }
        p += 1;
    }
}
/// the same with a symbolic first byte and the plain `&[u8]` input: ALL inputs of 0..=N bytes (feasible up to 16 bits)
fn scale_fixed_dec_sym<const B: usize, const L: usize, const N: usize>() {
    use parity_scale_codec::Decode;
    assert!(N == nbytes(B) + 4 && N < 64);
    let nb = nbytes(B);
    let buf: [u8; N] = any();
    let n: usize = any();
    assume(n <= N);
    let mut r: &[u8] = &buf[..n];
    let res = okf(<Uint<B, L> as Decode>::decode(&mut r));
    let denotes = if n >= 1 && buf[0] & 3 == 0 && 1 + (buf[0] >> 2) as usize <= n {
        let k = (buf[0] >> 2) as usize;
        let (v, over) = le_value(&buf, 1, k);
        if fits(v, over, B) { Some((v, 1 + k)) } else { None }
    } else { None };
    match (res, denotes) {
        (Some(v), Some((w, used))) => assert!(is_val(&v, w) && r.len() == n - used, "scale fixed: Ok(v): canonical, the denoted value, item consumed"),
        (None, None) => {}
        (Some(_), None) => assert!(false, "scale fixed: accepted a truncated / oversized / malformed input"),
        (None, Some((_, used))) => assert!(used != 1 + nb, "scale fixed: rejected a well-formed BYTES-long encoding of a value < 2^BITS"),
    }
}
fn scale_fixed_empty<const B: usize, const L: usize>() {
    use parity_scale_codec::Decode;
    let e: [u8; 0] = [];
    let mut r = SplitInput { first: 0, has_first: false, rest: &e[..] };
    assert!(okf(<Uint<B, L> as Decode>::decode(&mut r)).is_none(), "scale fixed: empty input is Err");
}

// ---------------------------------------------------------------- SCALE compact
/// first byte = (p << 2) | mode for the concrete p in lo..=hi; rest: all strings of 0..=N-1 bytes
fn scale_compact_dec<const B: usize, const L: usize, const N: usize>(mode: u8, lo: u8, hi: u8) {
    use parity_scale_codec::Decode;
    use ruint::support::scale::CompactUint;
    assert!(N == nbytes(B) + 4);
    let mut buf: [u8; N] = any();
    let n: usize = any();
    assume(n >= 1 && n <= N);
    let mut p = lo;
    while p <= hi {
        let first = (p << 2) | mode;
        buf[0] = first;
        let mut inp = SplitInput::new(first, &buf[1..n]);
        let res = okf(CompactUint::<B, L>::decode(&mut inp));
        match (res, compact_denotes(&buf, n, B)) {
            (Some(v), Some((w, used, _))) => assert!(is_val(&v.0, w) && inp.left() == n - used, "scale compact: Ok(v): canonical, the denoted value, item consumed"),
            (None, None) => {}
            (Some(_), None) => assert!(false, "scale compact: accepted a truncated / oversized input"),
            (None, Some((_, _, minimal))) => assert!(!minimal, "scale compact: rejected the minimal encoding of a value < 2^BITS"),
        }
        p += 1;
    }
}
fn scale_compact_empty<const B: usize, const L: usize>() {
    use parity_scale_codec::Decode;
    let e: [u8; 0] = [];
    let mut r = SplitInput { first: 0, has_first: false, rest: &e[..] };
    assert!(okf(ruint::support::scale::CompactUint::<B, L>::decode(&mut r)).is_none(), "scale compact: empty input is Err");
}

// ---------------------------------------------------------------- SSZ, borsh, serde bytes
fn ssz_dec<const B: usize, const L: usize, const N: usize>() {
    assert!(N == nbytes(B) + 4);
    let nb = nbytes(B);
    let buf: [u8; N] = any();
    let n: usize = any();
    assume(n <= N);
    let res = okf(<Uint<B, L> as ssz::Decode>::from_ssz_bytes(&buf[..n]));
    let (v, over) = le_value(&buf, 0, n);
    let want = n == nb && fits(v, over, B);
    match res {
        Some(x) => assert!(want && is_val(&x, v), "ssz: Ok(v) iff n == BYTES and value < 2^BITS; v the denoted value"),
        None => assert!(!want, "ssz: Err iff wrong length or value >= 2^BITS"),
    }
}
fn borsh_dec<const B: usize, const L: usize, const N: usize>() {
    use borsh::BorshDeserialize;
    assert!(N == nbytes(B) + 4);
    let nb = nbytes(B);
    let buf: [u8; N] = any();
    let n: usize = any();
    assume(n <= N);
    let (v, over) = le_value(&buf, 0, if n < nb { n } else { nb });
    let ok_prefix = n >= nb && fits(v, over, B);
    match okf(Uint::<B, L>::try_from_slice(&buf[..n])) {
        Some(x) => assert!(ok_prefix && n == nb && is_val(&x, v), "borsh: try_from_slice Ok iff n == BYTES and value < 2^BITS"),
        None => assert!(!(ok_prefix && n == nb), "borsh: try_from_slice Err iff wrong length or value >= 2^BITS"),
    }
    let mut r: &[u8] = &buf[..n];
    match okf(Uint::<B, L>::deserialize(&mut r)) {
        Some(x) => assert!(ok_prefix && is_val(&x, v) && r.len() == n - nb, "borsh: deserialize Ok iff BYTES bytes with a value < 2^BITS; BYTES consumed"),
        None => assert!(!ok_prefix, "borsh: deserialize Err iff truncated or value >= 2^BITS"),
    }
}
fn serde_bytes_dec<const B: usize, const L: usize, const N: usize>() {
    use serde::Deserialize;
    assert!(N == nbytes(B) + 4);
    let nb = nbytes(B);
    let buf: [u8; N] = any();
    let n: usize = any();
    assume(n <= N);
    let (v, over) = be_value(&buf, 0, n);
    let want = n == nb && fits(v, over, B);
    match okf(Uint::<B, L>::deserialize(mock::Bytes(&buf[..n]))) {
        Some(x) => assert!(want && is_val(&x, v), "serde binary: Ok(v) iff n == BYTES and value < 2^BITS; v the denoted value"),
        None => assert!(!want, "serde binary: Err iff wrong length or value >= 2^BITS"),
    }
}

// ---------------------------------------------------------------- DER
/// ruint's `decode_value` on every content string (the reader holds exactly the content, the header announces its length)
fn der_value_dec<const B: usize, const L: usize, const N: usize>(reenc: bool) {
    use der::{DecodeValue, EncodeValue, Header, SliceReader, Tag};
    assert!(N == nbytes(B) + 4);
    let buf: [u8; N] = any();
    let n: usize = any();
    assume(n <= N);
    let (rd, hd) = (okf(SliceReader::new(&buf[..n])), okf(Header::new(Tag::Integer, n)));
    if let (Some(mut rd), Some(hd)) = (rd, hd) {
        let res = okf(<Uint<B, L> as DecodeValue>::decode_value(&mut rd, hd));
        match (res, der_content_denotes(&buf, 0, n, B)) {
            (Some(v), Some(w)) => {
                assert!(is_val(&v, w), "der: Ok(v): canonical and the denoted value");
                if !reenc { return; }
                // canonical form: the encoder writes exactly this content
                let mut wr = RecWriter { buf: [0u8; W], n: 0 };
                assert!(okf(v.encode_value(&mut wr)).is_some() && wr.n == n, "der: re-encoding has the consumed length");
                let mut i = 0;
                while i < N { if i < n { assert!(wr.buf[i] == buf[i], "der: re-encoding equals the consumed bytes"); } i += 1; }
            }
            (None, None) => {}
            (Some(_), None) => assert!(false, "der: accepted a negative / non-minimal / oversized / empty INTEGER"),
            (None, Some(_)) => assert!(false, "der: rejected a canonical INTEGER < 2^BITS"),
        }
    } else {
        assert!(false, "der: reader and header construct");
    }
}
/// which: 0 IntRef (der strips leading 0xff), 1 UintRef (der strips leading 0x00), 2 AnyRef with the INTEGER tag
fn der_ref_dec<const B: usize, const L: usize, const N: usize>(which: u8) {
    use der::asn1::{AnyRef, IntRef, UintRef};
    assert!(N == nbytes(B) + 4);
    let buf: [u8; N] = any();
    let n: usize = any();
    assume(n <= N);
    match which {
        0 => {
            if let Some(r) = okf(IntRef::new(&buf[..n])) {
                // IntRef::new removes leading 0xff bytes of a negative number (keeps one): such values stay negative
                let neg = n > 0 && buf[0] >= 0x80;
                let res = okf(Uint::<B, L>::try_from(r));
                match (res, if neg { None } else { der_content_denotes(&buf, 0, n, B) }) {
                    (Some(v), Some(w)) => assert!(is_val(&v, w), "der IntRef: Ok(v): canonical and the denoted value"),
                    (None, None) => {}
                    (Some(_), None) => assert!(false, "der IntRef: accepted a negative / non-minimal / oversized / empty INTEGER"),
                    (None, Some(_)) => assert!(false, "der IntRef: rejected a canonical INTEGER < 2^BITS"),
                }
            }
        }
        1 => {
            if let Some(r) = okf(UintRef::new(&buf[..n])) {
                // UintRef holds the magnitude: leading zero bytes are stripped by the der crate (one kept for zero)
                let (v, over) = be_value(&buf, 0, n);
                let res = okf(Uint::<B, L>::try_from(r));
                match res {
                    Some(x) => assert!(fits(v, over, B) && is_val(&x, v), "der UintRef: Ok(v): canonical and the denoted value"),
                    None => assert!(n == 0 || !fits(v, over, B), "der UintRef: Err only for empty or oversized magnitudes"),
                }
            }
        }
        _ => {
            if let Some(r) = okf(AnyRef::new(der::Tag::Integer, &buf[..n])) {
                let res = okf(Uint::<B, L>::try_from(r));
                match (res, der_content_denotes(&buf, 0, n, B)) {
                    (Some(v), Some(w)) => assert!(is_val(&v, w), "der AnyRef: Ok(v): canonical and the denoted value"),
                    (None, None) => {}
                    (Some(_), None) => assert!(false, "der AnyRef: accepted a negative / non-minimal / oversized / empty INTEGER"),
                    (None, Some(_)) => assert!(false, "der AnyRef: rejected a canonical INTEGER < 2^BITS"),
                }
            }
        }
    }
}
/// `from_der` end to end, first byte fixed to the INTEGER tag
fn der_from_der<const B: usize, const L: usize, const N: usize>() {
    use der::Decode;
    assert!(N == nbytes(B) + 3);
    let mut buf: [u8; N] = any();
    buf[0] = 0x02;
    let n: usize = any();
    assume(n >= 1 && n <= N);
    let res = okf(Uint::<B, L>::from_der(&buf[..n]));
    // spec: short-form length (long forms announce >= 128 bytes: truncated), exactly that many content bytes
    let denotes = if n >= 2 && buf[1] < 0x80 && 2 + buf[1] as usize == n { der_content_denotes(&buf, 2, n - 2, B) } else { None };
    match (res, denotes) {
        (Some(v), Some(w)) => assert!(is_val(&v, w), "der: from_der Ok(v): canonical and the denoted value"),
        (None, None) => {}
        (Some(_), None) => assert!(false, "der: from_der accepted a malformed / truncated / trailing / non-canonical input"),
        (None, Some(_)) => assert!(false, "der: from_der rejected a canonical INTEGER < 2^BITS"),
    }
}

crate::harnesses! {
    #[cfg_attr(kani, kani::unwind(27))] fn c17_spec_rlp_w8() { spec_rlp::<8>() }
    #[cfg_attr(kani, kani::unwind(27))] fn c17_spec_compact_w8() { spec_compact::<8>() }
    #[cfg_attr(kani, kani::unwind(27))] fn c17_spec_der_w8() { spec_der::<8>() }
    #[cfg_attr(kani, kani::unwind(27))] fn c17_spec_rlp_w64() { spec_rlp::<64>() }
    #[cfg_attr(kani, kani::unwind(27))] fn c17_spec_compact_w64() { spec_compact::<64>() }
    #[cfg_attr(kani, kani::unwind(27))] fn c17_spec_der_w64() { spec_der::<64>() }
    #[cfg_attr(kani, kani::unwind(27))] fn c17_spec_rlp_w65() { spec_rlp::<65>() }
    #[cfg_attr(kani, kani::unwind(27))] fn c17_spec_compact_w65() { spec_compact::<65>() }
    #[cfg_attr(kani, kani::unwind(27))] fn c17_spec_der_w65() { spec_der::<65>() }
    #[cfg_attr(kani, kani::unwind(27))] fn c17_spec_rlp_w128() { spec_rlp::<128>() }
    #[cfg_attr(kani, kani::unwind(27))] fn c17_spec_compact_w128() { spec_compact::<128>() }
    #[cfg_attr(kani, kani::unwind(27))] fn c17_spec_der_w128() { spec_der::<128>() }
    #[cfg_attr(kani, kani::unwind(9))] fn c17_alloy_w7() { alloy_dec::<7, 1, 5>() }
    #[cfg_attr(kani, kani::unwind(9))] fn c17_alloy_w8() { alloy_dec::<8, 1, 5>() }
    #[cfg_attr(kani, kani::unwind(10))] fn c17_alloy_w16() { alloy_dec::<16, 1, 6>() }
    #[cfg_attr(kani, kani::unwind(16))] fn c17_alloy_w60() { alloy_dec::<60, 1, 12>() }
    #[cfg_attr(kani, kani::unwind(16))] fn c17_alloy_w64() { alloy_dec::<64, 1, 12>() }
    #[cfg_attr(kani, kani::unwind(17))] fn c17_alloy_w65() { alloy_dec::<65, 2, 13>() }
    #[cfg_attr(kani, kani::unwind(9))] fn c17_frlp3_w7() { frlp3_dec::<7, 1, 5>() }
    #[cfg_attr(kani, kani::unwind(9))] fn c17_frlp3_w8() { frlp3_dec::<8, 1, 5>() }
    #[cfg_attr(kani, kani::unwind(10))] fn c17_frlp3_w16() { frlp3_dec::<16, 1, 6>() }
    #[cfg_attr(kani, kani::unwind(16))] fn c17_frlp3_w60() { frlp3_dec::<60, 1, 12>() }
    #[cfg_attr(kani, kani::unwind(16))] fn c17_frlp3_w64() { frlp3_dec::<64, 1, 12>() }
    #[cfg_attr(kani, kani::unwind(17))] fn c17_frlp3_w65() { frlp3_dec::<65, 2, 13>() }
    #[cfg_attr(kani, kani::unwind(9))] fn c17_frlp4_w7() { frlp4_dec::<7, 1, 5>() }
    #[cfg_attr(kani, kani::unwind(9))] fn c17_frlp4_w8() { frlp4_dec::<8, 1, 5>() }
    #[cfg_attr(kani, kani::unwind(10))] fn c17_frlp4_w16() { frlp4_dec::<16, 1, 6>() }
    #[cfg_attr(kani, kani::unwind(16))] fn c17_frlp4_w60() { frlp4_dec::<60, 1, 12>() }
    #[cfg_attr(kani, kani::unwind(16))] fn c17_frlp4_w64() { frlp4_dec::<64, 1, 12>() }
    #[cfg_attr(kani, kani::unwind(17))] fn c17_frlp4_w65() { frlp4_dec::<65, 2, 13>() }
    #[cfg_attr(kani, kani::unwind(9))] fn c17_rlp_decode_w7() { rlp_dec::<7, 1, 5>(0) }
    #[cfg_attr(kani, kani::unwind(9))] fn c17_rlp_decode_w8() { rlp_dec::<8, 1, 5>(0) }
    #[cfg_attr(kani, kani::unwind(10))] fn c17_rlp_decode_w16() { rlp_dec::<16, 1, 6>(0) }
    #[cfg_attr(kani, kani::unwind(16))] fn c17_rlp_decode_w60() { rlp_dec::<60, 1, 12>(0) }
    #[cfg_attr(kani, kani::unwind(16))] fn c17_rlp_decode_w64() { rlp_dec::<64, 1, 12>(0) }
    #[cfg_attr(kani, kani::unwind(17))] fn c17_rlp_decode_w65() { rlp_dec::<65, 2, 13>(0) }
    #[cfg_attr(kani, kani::unwind(9))] fn c17_rlp_list_is_err_w8() { rlp_list_is_err() }
    #[cfg_attr(kani, kani::unwind(9))] fn c17_rlp_as_val_w8() { rlp_dec::<8, 1, 5>(1) }
    #[cfg_attr(kani, kani::unwind(16))] fn c17_rlp_as_val_w60() { rlp_dec::<60, 1, 12>(1) }
    #[cfg_attr(kani, kani::unwind(17))] fn c17_rlp_as_val_w65() { rlp_dec::<65, 2, 13>(1) }
    #[cfg_attr(kani, kani::unwind(9))] #[cfg_attr(kani, kani::stub(alloc::fmt::format, fmt_stub))] fn c17_scale_fixed_w7() { scale_fixed_dec_sym::<7, 1, 5>() }
    #[cfg_attr(kani, kani::unwind(9))] #[cfg_attr(kani, kani::stub(alloc::fmt::format, fmt_stub))] fn c17_scale_fixed_w8() { scale_fixed_dec_sym::<8, 1, 5>() }
    #[cfg_attr(kani, kani::unwind(10))] #[cfg_attr(kani, kani::stub(alloc::fmt::format, fmt_stub))] fn c17_scale_fixed_w16() { scale_fixed_dec_sym::<16, 1, 6>() }
    #[cfg_attr(kani, kani::unwind(19))] #[cfg_attr(kani, kani::stub(alloc::fmt::format, fmt_stub))] fn c17_scale_fixed_k0_15_w60() { scale_fixed_dec::<60, 1, 12>(0, 0, 15) }
    #[cfg_attr(kani, kani::unwind(19))] #[cfg_attr(kani, kani::stub(alloc::fmt::format, fmt_stub))] fn c17_scale_fixed_k16_31_w60() { scale_fixed_dec::<60, 1, 12>(0, 16, 31) }
    #[cfg_attr(kani, kani::unwind(19))] #[cfg_attr(kani, kani::stub(alloc::fmt::format, fmt_stub))] fn c17_scale_fixed_k32_47_w60() { scale_fixed_dec::<60, 1, 12>(0, 32, 47) }
    #[cfg_attr(kani, kani::unwind(19))] #[cfg_attr(kani, kani::stub(alloc::fmt::format, fmt_stub))] fn c17_scale_fixed_k48_63_w60() { scale_fixed_dec::<60, 1, 12>(0, 48, 63) }
    #[cfg_attr(kani, kani::unwind(19))] #[cfg_attr(kani, kani::stub(alloc::fmt::format, fmt_stub))] fn c17_scale_fixed_k0_15_w64() { scale_fixed_dec::<64, 1, 12>(0, 0, 15) }
    #[cfg_attr(kani, kani::unwind(19))] #[cfg_attr(kani, kani::stub(alloc::fmt::format, fmt_stub))] fn c17_scale_fixed_k16_31_w64() { scale_fixed_dec::<64, 1, 12>(0, 16, 31) }
    #[cfg_attr(kani, kani::unwind(19))] #[cfg_attr(kani, kani::stub(alloc::fmt::format, fmt_stub))] fn c17_scale_fixed_k32_47_w64() { scale_fixed_dec::<64, 1, 12>(0, 32, 47) }
    #[cfg_attr(kani, kani::unwind(19))] #[cfg_attr(kani, kani::stub(alloc::fmt::format, fmt_stub))] fn c17_scale_fixed_k48_63_w64() { scale_fixed_dec::<64, 1, 12>(0, 48, 63) }
    #[cfg_attr(kani, kani::unwind(19))] #[cfg_attr(kani, kani::stub(alloc::fmt::format, fmt_stub))] fn c17_scale_fixed_k0_15_w65() { scale_fixed_dec::<65, 2, 13>(0, 0, 15) }
    #[cfg_attr(kani, kani::unwind(19))] #[cfg_attr(kani, kani::stub(alloc::fmt::format, fmt_stub))] fn c17_scale_fixed_k16_31_w65() { scale_fixed_dec::<65, 2, 13>(0, 16, 31) }
    #[cfg_attr(kani, kani::unwind(19))] #[cfg_attr(kani, kani::stub(alloc::fmt::format, fmt_stub))] fn c17_scale_fixed_k32_47_w65() { scale_fixed_dec::<65, 2, 13>(0, 32, 47) }
    #[cfg_attr(kani, kani::unwind(19))] #[cfg_attr(kani, kani::stub(alloc::fmt::format, fmt_stub))] fn c17_scale_fixed_k48_63_w65() { scale_fixed_dec::<65, 2, 13>(0, 48, 63) }
    #[cfg_attr(kani, kani::unwind(4))] #[cfg_attr(kani, kani::stub(alloc::fmt::format, fmt_stub))] fn c17_scale_fixed_empty_w65() { scale_fixed_empty::<65, 2>() }
    #[cfg_attr(kani, kani::unwind(34))] #[cfg_attr(kani, kani::stub(alloc::fmt::format, fmt_stub))] fn c17_scale_compact_m0_p0_31_w7() { scale_compact_dec::<7, 1, 5>(0, 0, 31) }
    #[cfg_attr(kani, kani::unwind(34))] #[cfg_attr(kani, kani::stub(alloc::fmt::format, fmt_stub))] fn c17_scale_compact_m0_p32_63_w7() { scale_compact_dec::<7, 1, 5>(0, 32, 63) }
    #[cfg_attr(kani, kani::unwind(9))] #[cfg_attr(kani, kani::stub(alloc::fmt::format, fmt_stub))] fn c17_scale_compact_big_w7() { scale_compact_dec::<7, 1, 5>(3, 0, 0); scale_compact_dec::<7, 1, 5>(3, 4, 4); scale_compact_dec::<7, 1, 5>(3, 12, 12) }
    #[cfg_attr(kani, kani::unwind(34))] #[cfg_attr(kani, kani::stub(alloc::fmt::format, fmt_stub))] fn c17_scale_compact_m0_p0_31_w8() { scale_compact_dec::<8, 1, 5>(0, 0, 31) }
    #[cfg_attr(kani, kani::unwind(34))] #[cfg_attr(kani, kani::stub(alloc::fmt::format, fmt_stub))] fn c17_scale_compact_m0_p32_63_w8() { scale_compact_dec::<8, 1, 5>(0, 32, 63) }
    #[cfg_attr(kani, kani::unwind(18))] #[cfg_attr(kani, kani::stub(alloc::fmt::format, fmt_stub))] fn c17_scale_compact_m1_p0_15_w8() { scale_compact_dec::<8, 1, 5>(1, 0, 15) }
    #[cfg_attr(kani, kani::unwind(18))] #[cfg_attr(kani, kani::stub(alloc::fmt::format, fmt_stub))] fn c17_scale_compact_m1_p16_31_w8() { scale_compact_dec::<8, 1, 5>(1, 16, 31) }
    #[cfg_attr(kani, kani::unwind(18))] #[cfg_attr(kani, kani::stub(alloc::fmt::format, fmt_stub))] fn c17_scale_compact_m1_p32_47_w8() { scale_compact_dec::<8, 1, 5>(1, 32, 47) }
    #[cfg_attr(kani, kani::unwind(18))] #[cfg_attr(kani, kani::stub(alloc::fmt::format, fmt_stub))] fn c17_scale_compact_m1_p48_63_w8() { scale_compact_dec::<8, 1, 5>(1, 48, 63) }
    #[cfg_attr(kani, kani::unwind(18))] #[cfg_attr(kani, kani::stub(alloc::fmt::format, fmt_stub))] fn c17_scale_compact_m2_p0_15_w8() { scale_compact_dec::<8, 1, 5>(2, 0, 15) }
    #[cfg_attr(kani, kani::unwind(18))] #[cfg_attr(kani, kani::stub(alloc::fmt::format, fmt_stub))] fn c17_scale_compact_m2_p16_31_w8() { scale_compact_dec::<8, 1, 5>(2, 16, 31) }
    #[cfg_attr(kani, kani::unwind(18))] #[cfg_attr(kani, kani::stub(alloc::fmt::format, fmt_stub))] fn c17_scale_compact_m2_p32_47_w8() { scale_compact_dec::<8, 1, 5>(2, 32, 47) }
    #[cfg_attr(kani, kani::unwind(18))] #[cfg_attr(kani, kani::stub(alloc::fmt::format, fmt_stub))] fn c17_scale_compact_m2_p48_63_w8() { scale_compact_dec::<8, 1, 5>(2, 48, 63) }
    #[cfg_attr(kani, kani::unwind(9))] #[cfg_attr(kani, kani::stub(alloc::fmt::format, fmt_stub))] fn c17_scale_compact_big_w8() { scale_compact_dec::<8, 1, 5>(3, 0, 0); scale_compact_dec::<8, 1, 5>(3, 4, 4); scale_compact_dec::<8, 1, 5>(3, 12, 12) }
    #[cfg_attr(kani, kani::unwind(34))] #[cfg_attr(kani, kani::stub(alloc::fmt::format, fmt_stub))] fn c17_scale_compact_m0_p0_31_w60() { scale_compact_dec::<60, 1, 12>(0, 0, 31) }
    #[cfg_attr(kani, kani::unwind(34))] #[cfg_attr(kani, kani::stub(alloc::fmt::format, fmt_stub))] fn c17_scale_compact_m0_p32_63_w60() { scale_compact_dec::<60, 1, 12>(0, 32, 63) }
    #[cfg_attr(kani, kani::unwind(18))] #[cfg_attr(kani, kani::stub(alloc::fmt::format, fmt_stub))] fn c17_scale_compact_m1_p0_15_w60() { scale_compact_dec::<60, 1, 12>(1, 0, 15) }
    #[cfg_attr(kani, kani::unwind(18))] #[cfg_attr(kani, kani::stub(alloc::fmt::format, fmt_stub))] fn c17_scale_compact_m1_p16_31_w60() { scale_compact_dec::<60, 1, 12>(1, 16, 31) }
    #[cfg_attr(kani, kani::unwind(18))] #[cfg_attr(kani, kani::stub(alloc::fmt::format, fmt_stub))] fn c17_scale_compact_m1_p32_47_w60() { scale_compact_dec::<60, 1, 12>(1, 32, 47) }
    #[cfg_attr(kani, kani::unwind(18))] #[cfg_attr(kani, kani::stub(alloc::fmt::format, fmt_stub))] fn c17_scale_compact_m1_p48_63_w60() { scale_compact_dec::<60, 1, 12>(1, 48, 63) }
    #[cfg_attr(kani, kani::unwind(18))] #[cfg_attr(kani, kani::stub(alloc::fmt::format, fmt_stub))] fn c17_scale_compact_m2_p0_15_w60() { scale_compact_dec::<60, 1, 12>(2, 0, 15) }
    #[cfg_attr(kani, kani::unwind(18))] #[cfg_attr(kani, kani::stub(alloc::fmt::format, fmt_stub))] fn c17_scale_compact_m2_p16_31_w60() { scale_compact_dec::<60, 1, 12>(2, 16, 31) }
    #[cfg_attr(kani, kani::unwind(18))] #[cfg_attr(kani, kani::stub(alloc::fmt::format, fmt_stub))] fn c17_scale_compact_m2_p32_47_w60() { scale_compact_dec::<60, 1, 12>(2, 32, 47) }
    #[cfg_attr(kani, kani::unwind(18))] #[cfg_attr(kani, kani::stub(alloc::fmt::format, fmt_stub))] fn c17_scale_compact_m2_p48_63_w60() { scale_compact_dec::<60, 1, 12>(2, 48, 63) }
    #[cfg_attr(kani, kani::unwind(16))] #[cfg_attr(kani, kani::stub(alloc::fmt::format, fmt_stub))] fn c17_scale_compact_big_w60() { scale_compact_dec::<60, 1, 12>(3, 0, 0); scale_compact_dec::<60, 1, 12>(3, 4, 4); scale_compact_dec::<60, 1, 12>(3, 12, 12) }
    #[cfg_attr(kani, kani::unwind(34))] #[cfg_attr(kani, kani::stub(alloc::fmt::format, fmt_stub))] fn c17_scale_compact_m0_p0_31_w64() { scale_compact_dec::<64, 1, 12>(0, 0, 31) }
    #[cfg_attr(kani, kani::unwind(34))] #[cfg_attr(kani, kani::stub(alloc::fmt::format, fmt_stub))] fn c17_scale_compact_m0_p32_63_w64() { scale_compact_dec::<64, 1, 12>(0, 32, 63) }
    #[cfg_attr(kani, kani::unwind(16))] #[cfg_attr(kani, kani::stub(alloc::fmt::format, fmt_stub))] fn c17_scale_compact_big_w64() { scale_compact_dec::<64, 1, 12>(3, 0, 0); scale_compact_dec::<64, 1, 12>(3, 4, 4); scale_compact_dec::<64, 1, 12>(3, 12, 12) }
    #[cfg_attr(kani, kani::unwind(34))] #[cfg_attr(kani, kani::stub(alloc::fmt::format, fmt_stub))] fn c17_scale_compact_m0_p0_31_w65() { scale_compact_dec::<65, 2, 13>(0, 0, 31) }
    #[cfg_attr(kani, kani::unwind(34))] #[cfg_attr(kani, kani::stub(alloc::fmt::format, fmt_stub))] fn c17_scale_compact_m0_p32_63_w65() { scale_compact_dec::<65, 2, 13>(0, 32, 63) }
    #[cfg_attr(kani, kani::unwind(18))] #[cfg_attr(kani, kani::stub(alloc::fmt::format, fmt_stub))] fn c17_scale_compact_m1_p0_15_w65() { scale_compact_dec::<65, 2, 13>(1, 0, 15) }
    #[cfg_attr(kani, kani::unwind(18))] #[cfg_attr(kani, kani::stub(alloc::fmt::format, fmt_stub))] fn c17_scale_compact_m1_p16_31_w65() { scale_compact_dec::<65, 2, 13>(1, 16, 31) }
    #[cfg_attr(kani, kani::unwind(18))] #[cfg_attr(kani, kani::stub(alloc::fmt::format, fmt_stub))] fn c17_scale_compact_m1_p32_47_w65() { scale_compact_dec::<65, 2, 13>(1, 32, 47) }
    #[cfg_attr(kani, kani::unwind(18))] #[cfg_attr(kani, kani::stub(alloc::fmt::format, fmt_stub))] fn c17_scale_compact_m1_p48_63_w65() { scale_compact_dec::<65, 2, 13>(1, 48, 63) }
    #[cfg_attr(kani, kani::unwind(18))] #[cfg_attr(kani, kani::stub(alloc::fmt::format, fmt_stub))] fn c17_scale_compact_m2_p0_15_w65() { scale_compact_dec::<65, 2, 13>(2, 0, 15) }
    #[cfg_attr(kani, kani::unwind(18))] #[cfg_attr(kani, kani::stub(alloc::fmt::format, fmt_stub))] fn c17_scale_compact_m2_p16_31_w65() { scale_compact_dec::<65, 2, 13>(2, 16, 31) }
    #[cfg_attr(kani, kani::unwind(18))] #[cfg_attr(kani, kani::stub(alloc::fmt::format, fmt_stub))] fn c17_scale_compact_m2_p32_47_w65() { scale_compact_dec::<65, 2, 13>(2, 32, 47) }
    #[cfg_attr(kani, kani::unwind(18))] #[cfg_attr(kani, kani::stub(alloc::fmt::format, fmt_stub))] fn c17_scale_compact_m2_p48_63_w65() { scale_compact_dec::<65, 2, 13>(2, 48, 63) }
    #[cfg_attr(kani, kani::unwind(17))] #[cfg_attr(kani, kani::stub(alloc::fmt::format, fmt_stub))] fn c17_scale_compact_big_w65() { scale_compact_dec::<65, 2, 13>(3, 0, 0); scale_compact_dec::<65, 2, 13>(3, 4, 4); scale_compact_dec::<65, 2, 13>(3, 12, 12) }
    #[cfg_attr(kani, kani::unwind(9))] #[cfg_attr(kani, kani::stub(alloc::fmt::format, fmt_stub))] fn c17_ssz_w7() { ssz_dec::<7, 1, 5>() }
    #[cfg_attr(kani, kani::unwind(9))] #[cfg_attr(kani, kani::stub(alloc::fmt::format, fmt_stub))] fn c17_ssz_w8() { ssz_dec::<8, 1, 5>() }
    #[cfg_attr(kani, kani::unwind(10))] #[cfg_attr(kani, kani::stub(alloc::fmt::format, fmt_stub))] fn c17_ssz_w16() { ssz_dec::<16, 1, 6>() }
    #[cfg_attr(kani, kani::unwind(16))] #[cfg_attr(kani, kani::stub(alloc::fmt::format, fmt_stub))] fn c17_ssz_w60() { ssz_dec::<60, 1, 12>() }
    #[cfg_attr(kani, kani::unwind(16))] #[cfg_attr(kani, kani::stub(alloc::fmt::format, fmt_stub))] fn c17_ssz_w64() { ssz_dec::<64, 1, 12>() }
    #[cfg_attr(kani, kani::unwind(17))] #[cfg_attr(kani, kani::stub(alloc::fmt::format, fmt_stub))] fn c17_ssz_w65() { ssz_dec::<65, 2, 13>() }
    #[cfg_attr(kani, kani::unwind(9))] #[cfg_attr(kani, kani::stub(alloc::fmt::format, fmt_stub))] fn c17_borsh_w7() { borsh_dec::<7, 1, 5>() }
    #[cfg_attr(kani, kani::unwind(9))] #[cfg_attr(kani, kani::stub(alloc::fmt::format, fmt_stub))] fn c17_borsh_w8() { borsh_dec::<8, 1, 5>() }
    #[cfg_attr(kani, kani::unwind(10))] #[cfg_attr(kani, kani::stub(alloc::fmt::format, fmt_stub))] fn c17_borsh_w16() { borsh_dec::<16, 1, 6>() }
    #[cfg_attr(kani, kani::unwind(16))] #[cfg_attr(kani, kani::stub(alloc::fmt::format, fmt_stub))] fn c17_borsh_w60() { borsh_dec::<60, 1, 12>() }
    #[cfg_attr(kani, kani::unwind(16))] #[cfg_attr(kani, kani::stub(alloc::fmt::format, fmt_stub))] fn c17_borsh_w64() { borsh_dec::<64, 1, 12>() }
    #[cfg_attr(kani, kani::unwind(17))] #[cfg_attr(kani, kani::stub(alloc::fmt::format, fmt_stub))] fn c17_borsh_w65() { borsh_dec::<65, 2, 13>() }
    #[cfg_attr(kani, kani::unwind(9))] #[cfg_attr(kani, kani::stub(alloc::fmt::format, fmt_stub))] fn c17_serde_bytes_w7() { serde_bytes_dec::<7, 1, 5>() }
    #[cfg_attr(kani, kani::unwind(9))] #[cfg_attr(kani, kani::stub(alloc::fmt::format, fmt_stub))] fn c17_serde_bytes_w8() { serde_bytes_dec::<8, 1, 5>() }
    #[cfg_attr(kani, kani::unwind(10))] #[cfg_attr(kani, kani::stub(alloc::fmt::format, fmt_stub))] fn c17_serde_bytes_w16() { serde_bytes_dec::<16, 1, 6>() }
    #[cfg_attr(kani, kani::unwind(16))] #[cfg_attr(kani, kani::stub(alloc::fmt::format, fmt_stub))] fn c17_serde_bytes_w60() { serde_bytes_dec::<60, 1, 12>() }
    #[cfg_attr(kani, kani::unwind(16))] #[cfg_attr(kani, kani::stub(alloc::fmt::format, fmt_stub))] fn c17_serde_bytes_w64() { serde_bytes_dec::<64, 1, 12>() }
    #[cfg_attr(kani, kani::unwind(17))] #[cfg_attr(kani, kani::stub(alloc::fmt::format, fmt_stub))] fn c17_serde_bytes_w65() { serde_bytes_dec::<65, 2, 13>() }
    #[cfg_attr(kani, kani::unwind(9))] #[cfg_attr(kani, kani::stub(alloc::fmt::format, fmt_stub))] fn c17_der_value_w7() { der_value_dec::<7, 1, 5>(false) }
    #[cfg_attr(kani, kani::unwind(9))] #[cfg_attr(kani, kani::stub(alloc::fmt::format, fmt_stub))] fn c17_der_value_reenc_w7() { der_value_dec::<7, 1, 5>(true) }
    #[cfg_attr(kani, kani::unwind(9))] #[cfg_attr(kani, kani::stub(alloc::fmt::format, fmt_stub))] fn c17_der_value_w8() { der_value_dec::<8, 1, 5>(false) }
    #[cfg_attr(kani, kani::unwind(9))] #[cfg_attr(kani, kani::stub(alloc::fmt::format, fmt_stub))] fn c17_der_value_reenc_w8() { der_value_dec::<8, 1, 5>(true) }
    #[cfg_attr(kani, kani::unwind(10))] #[cfg_attr(kani, kani::stub(alloc::fmt::format, fmt_stub))] fn c17_der_value_w16() { der_value_dec::<16, 1, 6>(false) }
    #[cfg_attr(kani, kani::unwind(10))] #[cfg_attr(kani, kani::stub(alloc::fmt::format, fmt_stub))] fn c17_der_value_reenc_w16() { der_value_dec::<16, 1, 6>(true) }
    #[cfg_attr(kani, kani::unwind(16))] #[cfg_attr(kani, kani::stub(alloc::fmt::format, fmt_stub))] fn c17_der_value_w60() { der_value_dec::<60, 1, 12>(false) }
    #[cfg_attr(kani, kani::unwind(16))] #[cfg_attr(kani, kani::stub(alloc::fmt::format, fmt_stub))] fn c17_der_value_w64() { der_value_dec::<64, 1, 12>(false) }
    #[cfg_attr(kani, kani::unwind(17))] #[cfg_attr(kani, kani::stub(alloc::fmt::format, fmt_stub))] fn c17_der_value_w65() { der_value_dec::<65, 2, 13>(false) }
    #[cfg_attr(kani, kani::unwind(9))] #[cfg_attr(kani, kani::stub(alloc::fmt::format, fmt_stub))] fn c17_der_intref_w7() { der_ref_dec::<7, 1, 5>(0) }
    #[cfg_attr(kani, kani::unwind(9))] #[cfg_attr(kani, kani::stub(alloc::fmt::format, fmt_stub))] fn c17_der_uintref_w7() { der_ref_dec::<7, 1, 5>(1) }
    #[cfg_attr(kani, kani::unwind(9))] #[cfg_attr(kani, kani::stub(alloc::fmt::format, fmt_stub))] fn c17_der_anyref_w7() { der_ref_dec::<7, 1, 5>(2) }
    #[cfg_attr(kani, kani::unwind(9))] #[cfg_attr(kani, kani::stub(alloc::fmt::format, fmt_stub))] fn c17_der_intref_w8() { der_ref_dec::<8, 1, 5>(0) }
    #[cfg_attr(kani, kani::unwind(9))] #[cfg_attr(kani, kani::stub(alloc::fmt::format, fmt_stub))] fn c17_der_uintref_w8() { der_ref_dec::<8, 1, 5>(1) }
    #[cfg_attr(kani, kani::unwind(9))] #[cfg_attr(kani, kani::stub(alloc::fmt::format, fmt_stub))] fn c17_der_anyref_w8() { der_ref_dec::<8, 1, 5>(2) }
    #[cfg_attr(kani, kani::unwind(16))] #[cfg_attr(kani, kani::stub(alloc::fmt::format, fmt_stub))] fn c17_der_intref_w60() { der_ref_dec::<60, 1, 12>(0) }
    #[cfg_attr(kani, kani::unwind(16))] #[cfg_attr(kani, kani::stub(alloc::fmt::format, fmt_stub))] fn c17_der_uintref_w60() { der_ref_dec::<60, 1, 12>(1) }
    #[cfg_attr(kani, kani::unwind(16))] #[cfg_attr(kani, kani::stub(alloc::fmt::format, fmt_stub))] fn c17_der_anyref_w60() { der_ref_dec::<60, 1, 12>(2) }
    #[cfg_attr(kani, kani::unwind(17))] #[cfg_attr(kani, kani::stub(alloc::fmt::format, fmt_stub))] fn c17_der_intref_w65() { der_ref_dec::<65, 2, 13>(0) }
    #[cfg_attr(kani, kani::unwind(17))] #[cfg_attr(kani, kani::stub(alloc::fmt::format, fmt_stub))] fn c17_der_uintref_w65() { der_ref_dec::<65, 2, 13>(1) }
    #[cfg_attr(kani, kani::unwind(17))] #[cfg_attr(kani, kani::stub(alloc::fmt::format, fmt_stub))] fn c17_der_anyref_w65() { der_ref_dec::<65, 2, 13>(2) }
}

/// NATIVE-ONLY registration of `from_der` end to end (more than 180 s under CBMC): executed by the native sweep (bounded)
#[cfg(not(kani))]
pub mod native {
    use super::*;
    crate::harnesses! {
        fn c17nd_from_der_w8() { der_from_der::<8, 1, 4>() }
        fn c17nd_from_der_w64() { der_from_der::<64, 1, 11>() }
        fn c17nd_from_der_w65() { der_from_der::<65, 2, 12>() }
        fn c17nd_from_der_w128() { der_from_der::<128, 2, 19>() }
    }
}

//! C18 - floating-point conversions (ruint src/from.rs: TryFrom<f64>/<f32> for Uint, From<Uint>/<&Uint> for f64/f32).
//!
//! float -> Uint  (`try_from(f64)`, `try_from(f32)`, `saturating_from`, `wrapping_from`)
//!   spec: NaN -> Err(NotANumber(BITS)); f < 0 (incl. -inf, not -0.0) -> Err(ValueNegative(BITS, _));
//!   otherwise r = floor(f + 1/2) computed EXACTLY in integers from the IEEE bit pattern (`round_half_up64/32`):
//!   r < 2^BITS -> Ok(r), else Err(ValueTooLarge(BITS, _)).  saturating_from: 0 / 0 / MAX / r; wrapping_from(NaN) = 0.
//!   The payloads of ValueTooLarge / ValueNegative are NOT checked (left unspecified by the property; the one of
//!   ValueTooLarge is produced through fmod).
//!   `c18_f64_{spec,frac,int,big}_w*`: the f64 domain is split by bit pattern, one harness per (part, width); the parts
//!   together are ALL 2^64 bit patterns for each width:
//!     spec = every NaN, every negative (incl. -0.0, -inf), +0, subnormals, (0, 0.5);
//!     frac = [0.5, min(2^52, 2^BITS));  int = [2^52, 2^BITS) (BITS > 52);  big = [2^BITS, +inf].
//!   Widths 1/1, 8/1, 53/1, 64/1, 65/2, 128/2, and 0/0 in one harness (`c18_f64_all_w0`).
//!   `c18_sat_f64_{lo,hi}_w*` (8/1, 64/1, 65/2): saturating_from(f64), all patterns in two parts (below / from 2^min(52,BITS)).
//!   `c18_f32_all_w*` (1/1, 8/1, 64/1, 65/2, 128/2): try_from(f32), all 2^32 patterns in one harness; oracle decodes the
//!   f32 pattern itself (not via `as f64`).  `c18_sat_f32_w{8,65}`: saturating_from(f32), all patterns.
//!   `c18_wrap_nan_w{8,65}`: wrapping_from(NaN) == 0 for every f64 and f32 NaN pattern.
//!   `c18_oracle_selfcheck`: on [0, 2^52) the integer decode agrees with t = trunc(f), r = t + (f - t >= 1/2).
//!
//! Uint -> float  (`f64::from(x)`, `f64::from(&x)`, `f32::from(x)`, `f32::from(&x)`)
//!   `c18_to_f64_w*`, `c18_to_f32_w*`: result t is non-negative; exact when x < 2^53 (2^24); otherwise
//!   pred(t) < x < succ(t) with the neighbours obtained from t.to_bits() -+ 1 and decoded to integers limb-wise (this is
//!   "one of the two representable neighbours, exact when representable"); f64 result finite at every width used; f32
//!   result +inf only when x >= 2^128 - 2^103 (the rounding boundary of f32::MAX), finite f32 results obey the
//!   neighbour rule with succ(MAX) = 2^128.  `c18_mono_*`: a <= b  =>  f(a) <= f(b) for two symbolic values.
//!   Widths: 0/0, 8/1, 60/1, 64/1, 65/2, 128/2, 192/3 (mono: 8, 64, 65, 128, 192) - complete per width (all values).
//!
//! Kani facts used: CBMC is bit-precise for IEEE + - * / %, comparisons, casts and to_bits/from_bits, but its model of
//! libm `exp2` is NOT exact (checked: `(64f64).exp2()` is not 2^64 in the model).  ruint calls `(BITS as f64).exp2()`
//! and `(exponent as f64).exp2()`; every harness here therefore stubs `f64::exp2` / `f32::exp2` by `exp2_stub*`,
//! which assert that the argument is a non-negative integer in range and return the exact power of two built from
//! bits.  Needs `-Z stubbing` (or `[package.metadata.kani.unstable] stubbing = true` in Cargo.toml); Kani prints
//! "Stub: f64 :: exp2 -> exp2_stub".  This is an ASSUMPTION about the platform libm: exp2 of a small non-negative
//! integer is exact (true for glibc/musl/Apple/MSVC libm).  Natively (replay binary) the real exp2 runs.
//!
//! Unwind: TryFrom<f64> is RECURSIVE with two call sites (negative -> |f|, too large -> f mod 2^BITS), and CBMC
//! unrolls recursion to the unwind bound along both sites: 2^N copies (unwind 8: > 14 GB).  The real depth is 2
//! (negative -> too large -> plain), the limb loops run <= 2 times at the widths used, so unwind(3) is enough; Kani's
//! unwinding assertions (on by default) prove it: recursion depth 3 and the memcmp of `self != ZERO` inside
//! overflowing_shl (shift >= 64*LIMBS) are shown unreachable.  Widths with LIMBS >= 3 would need unwind 4 (31 copies).
//!
//! Not covered: the wrapped payload of ValueTooLarge/ValueNegative for floats; float -> Uint at LIMBS >= 3;
//! BITS > 192 for Uint -> float (so the "+inf for f64" clause, which needs BITS > 1024, is out of reach).
use crate::oracle as o;
use crate::sym::*;
use ruint::{ToUintError, Uint};

// ---------------------------------------------------------------- stubs
pub fn exp2_stub(x: f64) -> f64 {
    assert!(x >= 0.0 && x <= 1024.0, "exp2 stub (f64): argument in [0, 1024]");
    let n = x as u64;
    assert!(n as f64 == x, "exp2 stub (f64): argument integral");
    // biased exponent n + 1023, zero fraction; n = 1024 gives the bit pattern of +inf
    f64::from_bits((n + 1023) << 52)
}
pub fn exp2_stub_f32(x: f32) -> f32 {
    assert!(x >= 0.0 && x <= 128.0, "exp2 stub (f32): argument in [0, 128]");
    let n = x as u32;
    assert!(n as f32 == x, "exp2 stub (f32): argument integral");
    f32::from_bits((n + 127) << 23) // n = 128 gives +inf
}

// ---------------------------------------------------------------- integer oracles on IEEE bit patterns
const F64_INF: u64 = 0x7ff0_0000_0000_0000;
const F32_INF: u32 = 0x7f80_0000;
const SIGN64: u64 = 1 << 63;
const SIGN32: u32 = 1 << 31;

/// bit pattern of 2^k as f64 (0 <= k <= 1024; 1024 gives +inf)
const fn p2(k: u64) -> u64 { (k + 1023) << 52 }
/// bit pattern of 2^k as f32
const fn p2f(k: u32) -> u32 { (k + 127) << 23 }

/// floor(f + 1/2) for a finite f >= 0 given by its bits, as (m, s) meaning m * 2^s, m < 2^54
fn round_half_up64(bits: u64) -> (u64, usize) {
    let e = ((bits >> 52) & 0x7ff) as usize;
    let frac = bits & ((1u64 << 52) - 1);
    if e == 0 { return (0, 0); } // zero and subnormals: f < 2^-1022
    let m = (1u64 << 52) | frac; // f = m * 2^(e - 1075)
    if e >= 1075 { return (m, e - 1075); }
    let sh = 1075 - e; // f = m / 2^sh
    if sh > 53 { return (0, 0); } // f < 2^53 / 2^54 = 1/2
    ((m + (1u64 << (sh - 1))) >> sh, 0) // floor(m/2^sh + 1/2)
}
/// same for f32 bit patterns: f = (2^23 | frac) * 2^(e - 150)
fn round_half_up32(bits: u32) -> (u64, usize) {
    let e = ((bits >> 23) & 0xff) as usize;
    let frac = (bits & ((1u32 << 23) - 1)) as u64;
    if e == 0 { return (0, 0); }
    let m = (1u64 << 23) | frac;
    if e >= 150 { return (m, e - 150); }
    let sh = 150 - e;
    if sh > 24 { return (0, 0); }
    ((m + (1u64 << (sh - 1))) >> sh, 0)
}
/// m * 2^s < 2^bits
fn fits(m: u64, s: usize, bits: usize) -> bool { m == 0 || (64 - m.leading_zeros() as usize) + s <= bits }
/// m * 2^s as N limbs (bits beyond 64 N are dropped; callers make sure there are none)
fn place<const N: usize>(m: u64, s: usize) -> [u64; N] {
    let mut r = [0u64; N];
    let (q, sh) = (s / 64, s % 64);
    if q < N { r[q] = m << sh; }
    if sh > 0 && q + 1 < N { r[q + 1] = m >> (64 - sh); }
    r
}

#[derive(Clone, Copy, PartialEq, Eq)]
enum Kind { Nan, Neg, Big, Fit }

/// compare the outcome of a float -> Uint conversion with (kind, m * 2^s)
fn check<const B: usize, const L: usize>(r: Result<Uint<B, L>, ToUintError<Uint<B, L>>>, kind: Kind, m: u64, s: usize) {
    match kind {
        Kind::Nan => assert!(matches!(r, Err(ToUintError::NotANumber(b)) if b == B), "NaN -> Err(NotANumber(BITS))"),
        Kind::Neg => assert!(matches!(r, Err(ToUintError::ValueNegative(b, _)) if b == B), "f < 0 -> Err(ValueNegative(BITS, _))"),
        Kind::Big => assert!(matches!(r, Err(ToUintError::ValueTooLarge(b, _)) if b == B), "floor(f + 1/2) >= 2^BITS -> Err(ValueTooLarge(BITS, _))"),
        Kind::Fit => {
            let want = place::<L>(m, s);
            assert!(matches!(r, Ok(v) if o::same(v.as_limbs(), &want)), "floor(f + 1/2) < 2^BITS -> Ok(floor(f + 1/2))");
        }
    }
}
fn check_sat<const B: usize, const L: usize>(v: Uint<B, L>, kind: Kind, m: u64, s: usize) {
    let want = match kind {
        Kind::Nan | Kind::Neg => [0u64; L],
        Kind::Big => o::max_of::<L>(B),
        Kind::Fit => place::<L>(m, s),
    };
    assert!(o::same(v.as_limbs(), &want), "saturating_from: NaN -> 0, negative -> 0, too large -> MAX, else floor(f + 1/2)");
}

fn spec64<const B: usize>(bits: u64) -> (Kind, u64, usize) {
    let mag = bits & !SIGN64;
    if mag > F64_INF { return (Kind::Nan, 0, 0); }
    if bits & SIGN64 != 0 && mag != 0 { return (Kind::Neg, 0, 0); } // -0.0 is not below zero
    if mag == F64_INF { return (Kind::Big, 0, 0); }
    let (m, s) = round_half_up64(mag);
    if fits(m, s, B) { (Kind::Fit, m, s) } else { (Kind::Big, 0, 0) }
}
fn spec32<const B: usize>(bits: u32) -> (Kind, u64, usize) {
    let mag = bits & !SIGN32;
    if mag > F32_INF { return (Kind::Nan, 0, 0); }
    if bits & SIGN32 != 0 && mag != 0 { return (Kind::Neg, 0, 0); }
    if mag == F32_INF { return (Kind::Big, 0, 0); }
    let (m, s) = round_half_up32(mag);
    if fits(m, s, B) { (Kind::Fit, m, s) } else { (Kind::Big, 0, 0) }
}

/// which part of the f64 domain a harness takes (by bit pattern)
#[derive(Clone, Copy)]
enum Dom {
    /// every pattern that is not a non-negative number (or +inf) >= 0.5: NaNs, negatives, -0, +0, subnormals, (0, 0.5)
    Spec,
    /// non-negative, lo <= bits < hi
    Range(u64, u64),
    /// non-negative, lo <= bits <= +inf
    From(u64),
    /// all 2^64 patterns
    All,
    /// every pattern that is not a non-negative number (or +inf) >= the float with pattern lo (i.e. Spec and [0.5, lo))
    Except(u64),
}
fn in_dom64(d: Dom, bits: u64) -> bool {
    match d {
        Dom::Spec => bits >= SIGN64 || bits > F64_INF || bits < p2(0) - (1 << 52), // 2^-1 has biased exponent 1022
        Dom::Range(lo, hi) => lo <= bits && bits < hi,
        Dom::From(lo) => lo <= bits && bits <= F64_INF,
        Dom::All => true,
        Dom::Except(lo) => !(lo <= bits && bits <= F64_INF),
    }
}
const HALF64: u64 = p2(0) - (1 << 52);

/// try_from(f64) on one part of the domain
fn from_f64<const B: usize, const L: usize>(d: Dom) {
    let bits: u64 = any();
    assume(in_dom64(d, bits));
    let (kind, m, s) = spec64::<B>(bits);
    check::<B, L>(Uint::<B, L>::try_from(f64::from_bits(bits)), kind, m, s);
}
/// saturating_from(f64) on one part of the domain (MAX / 0 / 0 / rounded value)
fn sat_f64<const B: usize, const L: usize>(d: Dom) {
    let bits: u64 = any();
    assume(in_dom64(d, bits));
    let (kind, m, s) = spec64::<B>(bits);
    check_sat::<B, L>(Uint::<B, L>::saturating_from(f64::from_bits(bits)), kind, m, s);
}
/// wrapping_from(NaN) == 0 for every NaN pattern (f64 and f32)
fn wrap_nan<const B: usize, const L: usize>() {
    let bits: u64 = any();
    assume(bits & !SIGN64 > F64_INF);
    assert!(o::same(Uint::<B, L>::wrapping_from(f64::from_bits(bits)).as_limbs(), &[0u64; L]), "wrapping_from(f64 NaN) == 0");
    let bits: u32 = any();
    assume(bits & !SIGN32 > F32_INF);
    assert!(o::same(Uint::<B, L>::wrapping_from(f32::from_bits(bits)).as_limbs(), &[0u64; L]), "wrapping_from(f32 NaN) == 0");
}

/// try_from(f32): lo <= bits <= hi on the raw pattern (sign included)
fn from_f32<const B: usize, const L: usize>(lo: u32, hi: u32) {
    let bits: u32 = any();
    assume(lo <= bits && bits <= hi);
    let (kind, m, s) = spec32::<B>(bits);
    check::<B, L>(Uint::<B, L>::try_from(f32::from_bits(bits)), kind, m, s);
}
fn sat_f32<const B: usize, const L: usize>(lo: u32, hi: u32) {
    let bits: u32 = any();
    assume(lo <= bits && bits <= hi);
    let (kind, m, s) = spec32::<B>(bits);
    check_sat::<B, L>(Uint::<B, L>::saturating_from(f32::from_bits(bits)), kind, m, s);
}

/// the two formulations of floor(f + 1/2) agree on [0, 2^52): integer decode (used above) vs.
/// t = trunc(f) via cast, frac = f - t (exact), r = t + (frac >= 1/2)
fn oracle_selfcheck() {
    let bits: u64 = any();
    assume(bits < p2(52));
    let f = f64::from_bits(bits);
    let t = f as u64;
    let frac = f - t as f64;
    let r = t + (frac >= 0.5) as u64;
    let (m, s) = round_half_up64(bits);
    assert!(s == 0 && m == r, "oracle self-check: bit decode == trunc + (frac >= 1/2)");
}

// ---------------------------------------------------------------- Uint -> float
/// wide scratch width (limbs): every float compared below is < 2^194
const W: usize = 5;
fn widen<const L: usize>(a: &[u64; L]) -> [u64; W] {
    let mut r = [0u64; W];
    let mut i = 0;
    while i < L && i < W { r[i] = a[i]; i += 1; }
    r
}
/// x < 2^k (k < 64): only limb 0 is used and it is below 2^k
fn below_pow<const L: usize>(x: &[u64; L], k: usize) -> bool {
    let mut i = 1;
    while i < L { if x[i] != 0 { return false; } i += 1; }
    L == 0 || x[0] < (1u64 << k)
}
/// bit pattern of the f64 equal to v (v < 2^53)
fn exact_bits64(v: u64) -> u64 {
    if v == 0 { return 0; }
    let k = 64 - v.leading_zeros() as u64; // bit length, 1..=53
    ((1022 + k) << 52) | ((v << (53 - k)) & ((1u64 << 52) - 1))
}
/// bit pattern of the f32 equal to v (v < 2^24)
fn exact_bits32(v: u64) -> u32 {
    if v == 0 { return 0; }
    let k = 64 - v.leading_zeros() as u64; // 1..=24
    (((126 + k) << 23) | ((v << (24 - k)) & ((1u64 << 23) - 1))) as u32
}
/// integer value of the f64 pattern `bits` (biased exponent >= 1075, i.e. value >= 2^52; the formula continues
/// past the largest finite pattern: F64_INF decodes to 2^1024), as W limbs
fn dec64(bits: u64) -> [u64; W] {
    let e = (bits >> 52) as usize;
    place::<W>((1u64 << 52) | (bits & ((1u64 << 52) - 1)), e - 1075)
}
/// integer value of the f32 pattern `bits` (biased exponent >= 150, i.e. value >= 2^23; F32_INF decodes to 2^128)
fn dec32(bits: u32) -> [u64; W] {
    let e = (bits >> 23) as usize;
    place::<W>((1u64 << 23) | (bits & ((1u32 << 23) - 1)) as u64, e - 150)
}

/// t (given by its bits) is a correctly placed f64 image of x
fn neighbour64<const L: usize>(x: &[u64; L], tb: u64) -> bool {
    if tb >= F64_INF { return false; } // finite and non-negative (no NaN, no sign bit)
    if below_pow(x, 53) { return tb == exact_bits64(if L == 0 { 0 } else { x[0] }); }
    if tb < p2(53) { return false; } // 2^53 is representable and lies between t and x
    let xw = widen(x);
    o::lt(&dec64(tb - 1), &xw) && o::lt(&xw, &dec64(tb + 1))
}
fn neighbour32<const L: usize>(x: &[u64; L], tb: u32) -> bool {
    if tb > F32_INF { return false; }
    let xw = widen(x);
    if tb == F32_INF {
        // only when x is at or beyond the midpoint between f32::MAX = (2^24 - 1) 2^104 and 2^128
        return !o::lt(&xw, &place::<W>((1u64 << 25) - 1, 103));
    }
    if below_pow(x, 24) { return tb == exact_bits32(if L == 0 { 0 } else { x[0] }); }
    if tb < p2f(24) { return false; }
    o::lt(&dec32(tb - 1), &xw) && o::lt(&xw, &dec32(tb + 1))
}

fn to_f64<const B: usize, const L: usize>() {
    let x = uint::<B, L>();
    let t = f64::from(x);
    assert!(neighbour64(x.as_limbs(), t.to_bits()), "f64::from(x): finite, exact below 2^53, else pred(t) < x < succ(t)");
    assert!(f64::from(&x).to_bits() == t.to_bits(), "f64::from(&x) == f64::from(x)");
}
/// the top of f64's range with CONCRETE values (exactly representable ones must come out exactly; 2^1024 and above is +inf)
fn to_f64_top() {
    let mut l = [0u64; 16];
    l[15] = 1u64 << 63;                                   // 2^1023
    let x = Uint::<1024, 16>::from_limbs(l);
    assert!(f64::from(x).to_bits() == 0x7fe0_0000_0000_0000, "f64::from(2^1023) == 2^1023 (finite)");
    l[15] = 0xffff_ffff_ffff_f800;                        // (2^53 - 1) * 2^971 == f64::MAX
    let x = Uint::<1024, 16>::from_limbs(l);
    assert!(f64::from(x).to_bits() == 0x7fef_ffff_ffff_ffff, "f64::from(f64::MAX as integer) == f64::MAX");
    l[15] = 1u64 << 62;                                   // 2^1022
    let x = Uint::<1024, 16>::from_limbs(l);
    assert!(f64::from(x).to_bits() == 0x7fd0_0000_0000_0000, "f64::from(2^1022) == 2^1022");
    let mut m = [0u64; 17];
    m[16] = 1;                                            // 2^1024: beyond the rounding range of f64::MAX
    let y = Uint::<1088, 17>::from_limbs(m);
    assert!(f64::from(y).to_bits() == F64_INF, "f64::from(2^1024) == +inf");
    m[16] = 0; m[15] = 1u64 << 63;                        // 2^1023 again at the wider type
    let y = Uint::<1088, 17>::from_limbs(m);
    assert!(f64::from(y).to_bits() == 0x7fe0_0000_0000_0000, "f64::from(2^1023) at 1088 bits");
}
fn to_f32<const B: usize, const L: usize>() {
    let x = uint::<B, L>();
    let t = f32::from(x);
    assert!(neighbour32(x.as_limbs(), t.to_bits()), "f32::from(x): exact below 2^24, else pred(t) < x < succ(t); inf only beyond the rounding range");
    assert!(f32::from(&x).to_bits() == t.to_bits(), "f32::from(&x) == f32::from(x)");
}
fn mono_f64<const B: usize, const L: usize>() {
    let a = uint::<B, L>();
    let b = uint::<B, L>();
    assume(!o::lt(b.as_limbs(), a.as_limbs()));
    assert!(f64::from(a) <= f64::from(b), "a <= b => f64(a) <= f64(b)");
}
fn mono_f32<const B: usize, const L: usize>() {
    let a = uint::<B, L>();
    let b = uint::<B, L>();
    assume(!o::lt(b.as_limbs(), a.as_limbs()));
    assert!(f32::from(a) <= f32::from(b), "a <= b => f32(a) <= f32(b)");
}

crate::harnesses! {
    #[cfg_attr(kani, kani::unwind(3))] fn c18_oracle_selfcheck() { oracle_selfcheck() }

    #[cfg_attr(kani, kani::unwind(3))] #[cfg_attr(kani, kani::stub(f64::exp2, exp2_stub))]
    fn c18_f64_all_w0() { from_f64::<0, 0>(Dom::All) }
    #[cfg_attr(kani, kani::unwind(3))] #[cfg_attr(kani, kani::stub(f64::exp2, exp2_stub))]
    fn c18_f64_spec_w1() { from_f64::<1, 1>(Dom::Spec) }
    #[cfg_attr(kani, kani::unwind(3))] #[cfg_attr(kani, kani::stub(f64::exp2, exp2_stub))]
    fn c18_f64_frac_w1() { from_f64::<1, 1>(Dom::Range(HALF64, p2(1))) }
    #[cfg_attr(kani, kani::unwind(3))] #[cfg_attr(kani, kani::stub(f64::exp2, exp2_stub))]
    fn c18_f64_big_w1() { from_f64::<1, 1>(Dom::From(p2(1))) }
    #[cfg_attr(kani, kani::unwind(3))] #[cfg_attr(kani, kani::stub(f64::exp2, exp2_stub))]
    fn c18_f64_spec_w8() { from_f64::<8, 1>(Dom::Spec) }
    #[cfg_attr(kani, kani::unwind(3))] #[cfg_attr(kani, kani::stub(f64::exp2, exp2_stub))]
    fn c18_f64_frac_w8() { from_f64::<8, 1>(Dom::Range(HALF64, p2(8))) }
    #[cfg_attr(kani, kani::unwind(3))] #[cfg_attr(kani, kani::stub(f64::exp2, exp2_stub))]
    fn c18_f64_big_w8() { from_f64::<8, 1>(Dom::From(p2(8))) }
    #[cfg_attr(kani, kani::unwind(3))] #[cfg_attr(kani, kani::stub(f64::exp2, exp2_stub))]
    fn c18_f64_spec_w53() { from_f64::<53, 1>(Dom::Spec) }
    #[cfg_attr(kani, kani::unwind(3))] #[cfg_attr(kani, kani::stub(f64::exp2, exp2_stub))]
    fn c18_f64_frac_w53() { from_f64::<53, 1>(Dom::Range(HALF64, p2(52))) }
    #[cfg_attr(kani, kani::unwind(3))] #[cfg_attr(kani, kani::stub(f64::exp2, exp2_stub))]
    fn c18_f64_int_w53() { from_f64::<53, 1>(Dom::Range(p2(52), p2(53))) }
    #[cfg_attr(kani, kani::unwind(3))] #[cfg_attr(kani, kani::stub(f64::exp2, exp2_stub))]
    fn c18_f64_big_w53() { from_f64::<53, 1>(Dom::From(p2(53))) }
    #[cfg_attr(kani, kani::unwind(3))] #[cfg_attr(kani, kani::stub(f64::exp2, exp2_stub))]
    fn c18_f64_spec_w64() { from_f64::<64, 1>(Dom::Spec) }
    #[cfg_attr(kani, kani::unwind(3))] #[cfg_attr(kani, kani::stub(f64::exp2, exp2_stub))]
    fn c18_f64_frac_w64() { from_f64::<64, 1>(Dom::Range(HALF64, p2(52))) }
    #[cfg_attr(kani, kani::unwind(3))] #[cfg_attr(kani, kani::stub(f64::exp2, exp2_stub))]
    fn c18_f64_int_w64() { from_f64::<64, 1>(Dom::Range(p2(52), p2(64))) }
    #[cfg_attr(kani, kani::unwind(3))] #[cfg_attr(kani, kani::stub(f64::exp2, exp2_stub))]
    fn c18_f64_big_w64() { from_f64::<64, 1>(Dom::From(p2(64))) }
    #[cfg_attr(kani, kani::unwind(3))] #[cfg_attr(kani, kani::stub(f64::exp2, exp2_stub))]
    fn c18_f64_spec_w65() { from_f64::<65, 2>(Dom::Spec) }
    #[cfg_attr(kani, kani::unwind(3))] #[cfg_attr(kani, kani::stub(f64::exp2, exp2_stub))]
    fn c18_f64_frac_w65() { from_f64::<65, 2>(Dom::Range(HALF64, p2(52))) }
    #[cfg_attr(kani, kani::unwind(3))] #[cfg_attr(kani, kani::stub(f64::exp2, exp2_stub))]
    fn c18_f64_int_w65() { from_f64::<65, 2>(Dom::Range(p2(52), p2(65))) }
    #[cfg_attr(kani, kani::unwind(3))] #[cfg_attr(kani, kani::stub(f64::exp2, exp2_stub))]
    fn c18_f64_big_w65() { from_f64::<65, 2>(Dom::From(p2(65))) }
    #[cfg_attr(kani, kani::unwind(3))] #[cfg_attr(kani, kani::stub(f64::exp2, exp2_stub))]
    fn c18_f64_spec_w128() { from_f64::<128, 2>(Dom::Spec) }
    #[cfg_attr(kani, kani::unwind(3))] #[cfg_attr(kani, kani::stub(f64::exp2, exp2_stub))]
    fn c18_f64_frac_w128() { from_f64::<128, 2>(Dom::Range(HALF64, p2(52))) }
    #[cfg_attr(kani, kani::unwind(3))] #[cfg_attr(kani, kani::stub(f64::exp2, exp2_stub))]
    fn c18_f64_int_w128() { from_f64::<128, 2>(Dom::Range(p2(52), p2(128))) }
    #[cfg_attr(kani, kani::unwind(3))] #[cfg_attr(kani, kani::stub(f64::exp2, exp2_stub))]
    fn c18_f64_big_w128() { from_f64::<128, 2>(Dom::From(p2(128))) }

    #[cfg_attr(kani, kani::unwind(3))] #[cfg_attr(kani, kani::stub(f64::exp2, exp2_stub))]
    fn c18_sat_f64_lo_w8() { sat_f64::<8, 1>(Dom::Except(p2(8))) }
    #[cfg_attr(kani, kani::unwind(3))] #[cfg_attr(kani, kani::stub(f64::exp2, exp2_stub))]
    fn c18_sat_f64_hi_w8() { sat_f64::<8, 1>(Dom::From(p2(8))) }
    #[cfg_attr(kani, kani::unwind(3))] #[cfg_attr(kani, kani::stub(f64::exp2, exp2_stub))]
    fn c18_sat_f64_lo_w64() { sat_f64::<64, 1>(Dom::Except(p2(52))) }
    #[cfg_attr(kani, kani::unwind(3))] #[cfg_attr(kani, kani::stub(f64::exp2, exp2_stub))]
    fn c18_sat_f64_hi_w64() { sat_f64::<64, 1>(Dom::From(p2(52))) }
    #[cfg_attr(kani, kani::unwind(3))] #[cfg_attr(kani, kani::stub(f64::exp2, exp2_stub))]
    fn c18_sat_f64_lo_w65() { sat_f64::<65, 2>(Dom::Except(p2(52))) }
    #[cfg_attr(kani, kani::unwind(3))] #[cfg_attr(kani, kani::stub(f64::exp2, exp2_stub))]
    fn c18_sat_f64_hi_w65() { sat_f64::<65, 2>(Dom::From(p2(52))) }

    #[cfg_attr(kani, kani::unwind(3))] #[cfg_attr(kani, kani::stub(f64::exp2, exp2_stub))]
    fn c18_f32_all_w1() { from_f32::<1, 1>(0, u32::MAX) }
    #[cfg_attr(kani, kani::unwind(3))] #[cfg_attr(kani, kani::stub(f64::exp2, exp2_stub))]
    fn c18_f32_all_w8() { from_f32::<8, 1>(0, u32::MAX) }
    #[cfg_attr(kani, kani::unwind(3))] #[cfg_attr(kani, kani::stub(f64::exp2, exp2_stub))]
    fn c18_f32_all_w64() { from_f32::<64, 1>(0, u32::MAX) }
    #[cfg_attr(kani, kani::unwind(3))] #[cfg_attr(kani, kani::stub(f64::exp2, exp2_stub))]
    fn c18_f32_all_w65() { from_f32::<65, 2>(0, u32::MAX) }
    #[cfg_attr(kani, kani::unwind(3))] #[cfg_attr(kani, kani::stub(f64::exp2, exp2_stub))]
    fn c18_f32_all_w128() { from_f32::<128, 2>(0, u32::MAX) }
    #[cfg_attr(kani, kani::unwind(3))] #[cfg_attr(kani, kani::stub(f64::exp2, exp2_stub))]
    fn c18_sat_f32_w8() { sat_f32::<8, 1>(0, u32::MAX) }
    #[cfg_attr(kani, kani::unwind(3))] #[cfg_attr(kani, kani::stub(f64::exp2, exp2_stub))]
    fn c18_sat_f32_w65() { sat_f32::<65, 2>(0, u32::MAX) }
    #[cfg_attr(kani, kani::unwind(3))] #[cfg_attr(kani, kani::stub(f64::exp2, exp2_stub))]
    fn c18_wrap_nan_w8() { wrap_nan::<8, 1>() }
    #[cfg_attr(kani, kani::unwind(3))] #[cfg_attr(kani, kani::stub(f64::exp2, exp2_stub))]
    fn c18_wrap_nan_w65() { wrap_nan::<65, 2>() }

    #[cfg_attr(kani, kani::unwind(7))] #[cfg_attr(kani, kani::stub(f64::exp2, exp2_stub))] #[cfg_attr(kani, kani::stub(f32::exp2, exp2_stub_f32))]
    fn c18_to_f64_w0() { to_f64::<0, 0>() }
    #[cfg_attr(kani, kani::unwind(7))] #[cfg_attr(kani, kani::stub(f64::exp2, exp2_stub))] #[cfg_attr(kani, kani::stub(f32::exp2, exp2_stub_f32))]
    fn c18_to_f32_w0() { to_f32::<0, 0>() }
    #[cfg_attr(kani, kani::unwind(7))] #[cfg_attr(kani, kani::stub(f64::exp2, exp2_stub))] #[cfg_attr(kani, kani::stub(f32::exp2, exp2_stub_f32))]
    fn c18_to_f64_w8() { to_f64::<8, 1>() }
    #[cfg_attr(kani, kani::unwind(7))] #[cfg_attr(kani, kani::stub(f64::exp2, exp2_stub))] #[cfg_attr(kani, kani::stub(f32::exp2, exp2_stub_f32))]
    fn c18_to_f32_w8() { to_f32::<8, 1>() }
    #[cfg_attr(kani, kani::unwind(7))] #[cfg_attr(kani, kani::stub(f64::exp2, exp2_stub))] #[cfg_attr(kani, kani::stub(f32::exp2, exp2_stub_f32))]
    fn c18_to_f64_w60() { to_f64::<60, 1>() }
    #[cfg_attr(kani, kani::unwind(7))] #[cfg_attr(kani, kani::stub(f64::exp2, exp2_stub))] #[cfg_attr(kani, kani::stub(f32::exp2, exp2_stub_f32))]
    fn c18_to_f32_w60() { to_f32::<60, 1>() }
    #[cfg_attr(kani, kani::unwind(7))] #[cfg_attr(kani, kani::stub(f64::exp2, exp2_stub))] #[cfg_attr(kani, kani::stub(f32::exp2, exp2_stub_f32))]
    fn c18_to_f64_w64() { to_f64::<64, 1>() }
    #[cfg_attr(kani, kani::unwind(7))] #[cfg_attr(kani, kani::stub(f64::exp2, exp2_stub))] #[cfg_attr(kani, kani::stub(f32::exp2, exp2_stub_f32))]
    fn c18_to_f32_w64() { to_f32::<64, 1>() }
    #[cfg_attr(kani, kani::unwind(7))] #[cfg_attr(kani, kani::stub(f64::exp2, exp2_stub))] #[cfg_attr(kani, kani::stub(f32::exp2, exp2_stub_f32))]
    fn c18_to_f64_w65() { to_f64::<65, 2>() }
    #[cfg_attr(kani, kani::unwind(7))] #[cfg_attr(kani, kani::stub(f64::exp2, exp2_stub))] #[cfg_attr(kani, kani::stub(f32::exp2, exp2_stub_f32))]
    fn c18_to_f32_w65() { to_f32::<65, 2>() }
    #[cfg_attr(kani, kani::unwind(7))] #[cfg_attr(kani, kani::stub(f64::exp2, exp2_stub))] #[cfg_attr(kani, kani::stub(f32::exp2, exp2_stub_f32))]
    fn c18_to_f64_w128() { to_f64::<128, 2>() }
    #[cfg_attr(kani, kani::unwind(7))] #[cfg_attr(kani, kani::stub(f64::exp2, exp2_stub))] #[cfg_attr(kani, kani::stub(f32::exp2, exp2_stub_f32))]
    fn c18_to_f32_w128() { to_f32::<128, 2>() }
    #[cfg_attr(kani, kani::unwind(7))] #[cfg_attr(kani, kani::stub(f64::exp2, exp2_stub))] #[cfg_attr(kani, kani::stub(f32::exp2, exp2_stub_f32))]
    fn c18_to_f64_w192() { to_f64::<192, 3>() }
    #[cfg_attr(kani, kani::unwind(20))] #[cfg_attr(kani, kani::stub(f64::exp2, exp2_stub))] #[cfg_attr(kani, kani::stub(f32::exp2, exp2_stub_f32))]
    fn c18_to_f64_top_w1024() { to_f64_top() }
    #[cfg_attr(kani, kani::unwind(7))] #[cfg_attr(kani, kani::stub(f64::exp2, exp2_stub))] #[cfg_attr(kani, kani::stub(f32::exp2, exp2_stub_f32))]
    fn c18_to_f32_w192() { to_f32::<192, 3>() }
    #[cfg_attr(kani, kani::unwind(3))] #[cfg_attr(kani, kani::stub(f64::exp2, exp2_stub))] #[cfg_attr(kani, kani::stub(f32::exp2, exp2_stub_f32))]
    fn c18_mono_f64_w8() { mono_f64::<8, 1>() }
    #[cfg_attr(kani, kani::unwind(3))] #[cfg_attr(kani, kani::stub(f64::exp2, exp2_stub))] #[cfg_attr(kani, kani::stub(f32::exp2, exp2_stub_f32))]
    fn c18_mono_f32_w8() { mono_f32::<8, 1>() }
    #[cfg_attr(kani, kani::unwind(3))] #[cfg_attr(kani, kani::stub(f64::exp2, exp2_stub))] #[cfg_attr(kani, kani::stub(f32::exp2, exp2_stub_f32))]
    fn c18_mono_f64_w64() { mono_f64::<64, 1>() }
    #[cfg_attr(kani, kani::unwind(3))] #[cfg_attr(kani, kani::stub(f64::exp2, exp2_stub))] #[cfg_attr(kani, kani::stub(f32::exp2, exp2_stub_f32))]
    fn c18_mono_f32_w64() { mono_f32::<64, 1>() }
    #[cfg_attr(kani, kani::unwind(4))] #[cfg_attr(kani, kani::stub(f64::exp2, exp2_stub))] #[cfg_attr(kani, kani::stub(f32::exp2, exp2_stub_f32))]
    fn c18_mono_f64_w65() { mono_f64::<65, 2>() }
    #[cfg_attr(kani, kani::unwind(4))] #[cfg_attr(kani, kani::stub(f64::exp2, exp2_stub))] #[cfg_attr(kani, kani::stub(f32::exp2, exp2_stub_f32))]
    fn c18_mono_f32_w65() { mono_f32::<65, 2>() }
    #[cfg_attr(kani, kani::unwind(4))] #[cfg_attr(kani, kani::stub(f64::exp2, exp2_stub))] #[cfg_attr(kani, kani::stub(f32::exp2, exp2_stub_f32))]
    fn c18_mono_f64_w128() { mono_f64::<128, 2>() }
    #[cfg_attr(kani, kani::unwind(4))] #[cfg_attr(kani, kani::stub(f64::exp2, exp2_stub))] #[cfg_attr(kani, kani::stub(f32::exp2, exp2_stub_f32))]
    fn c18_mono_f32_w128() { mono_f32::<128, 2>() }
    #[cfg_attr(kani, kani::unwind(5))] #[cfg_attr(kani, kani::stub(f64::exp2, exp2_stub))] #[cfg_attr(kani, kani::stub(f32::exp2, exp2_stub_f32))]
    fn c18_mono_f64_w192() { mono_f64::<192, 3>() }
    #[cfg_attr(kani, kani::unwind(5))] #[cfg_attr(kani, kani::stub(f64::exp2, exp2_stub))] #[cfg_attr(kani, kani::stub(f32::exp2, exp2_stub_f32))]
    fn c18_mono_f32_w192() { mono_f32::<192, 3>() }
}

//! Kani harnesses (and their concrete replay) for the properties of recmo/uint.
//! Every harness states a contract (precondition via `assume`, postcondition via
//! `assert!`) on the *real compiled crate*; nothing of ruint is copied here.
#![allow(unused, clippy::all)]
#![cfg_attr(kani, feature(allocator_api))]
pub mod gen_macro_fns;
pub mod oracle;
pub mod sym;

/// declares harnesses: each is a Kani proof under `cfg(kani)` and an entry of `LIST` for replay
#[macro_export]
macro_rules! harnesses {
    ($( $(#[$m:meta])* fn $name:ident() $body:block )*) => {
        $( #[cfg_attr(kani, kani::proof)] $(#[$m])* pub fn $name() { $body; $crate::sym::reached(); } )*
        pub const LIST: &[(&str, fn())] = &[ $((stringify!($name), $name as fn())),* ];
    };
}

pub mod c01;
pub mod core_specs;
pub mod canary;
pub mod c15;
pub mod c02;
pub mod c07;
pub mod c08;
pub mod c11;
pub mod c14;
pub mod c18;
pub mod c04;
pub mod c03p;
pub mod c05;
pub mod c06;
pub mod c09;
pub mod c09f;
pub mod c10;
pub mod c13;
pub mod c13n;
#[cfg(not(kani))]
pub mod cn;
pub mod c19;
#[cfg(feature = "facades")]
pub mod c20;
#[cfg(feature = "codecs")]
pub mod c16;
#[cfg(feature = "codecs")]
pub mod c17;
#[cfg(all(not(kani), feature = "codecs"))]
pub mod c17n;

pub fn registry() -> Vec<(&'static str, fn())> {
    let mut v = Vec::new();
    v.extend_from_slice(c01::LIST);
    v.extend_from_slice(core_specs::LIST);
    v.extend_from_slice(canary::LIST);
    v.extend_from_slice(c15::LIST);
    v.extend_from_slice(c02::LIST);
    v.extend_from_slice(c07::LIST);
    v.extend_from_slice(c08::LIST);
    v.extend_from_slice(c11::LIST);
    v.extend_from_slice(c14::LIST);
    v.extend_from_slice(c18::LIST);
    v.extend_from_slice(c04::LIST);
    v.extend_from_slice(c03p::LIST);
    v.extend_from_slice(c03p::d8::LIST);
    v.extend_from_slice(c03p::d8m::LIST);
    v.extend_from_slice(c05::LIST);
    v.extend_from_slice(c06::LIST);
    v.extend_from_slice(c09::LIST);
    v.extend_from_slice(c09f::LIST);
    v.extend_from_slice(c19::LIST);
    v.extend_from_slice(c10::LIST);
    v.extend_from_slice(c10::z::LIST);
    v.extend_from_slice(c10::wide::LIST);
    v.extend_from_slice(c10::en::LIST);
    v.extend_from_slice(c13::LIST);
    v.extend_from_slice(c13::fl::LIST);
    v.extend_from_slice(c13n::LIST);
    #[cfg(not(kani))]
    v.extend_from_slice(cn::LIST);
    #[cfg(feature = "facades")]
    { v.extend_from_slice(c20::LIST); v.extend_from_slice(c20::dz::LIST); v.extend_from_slice(c20::d::LIST); v.extend_from_slice(c20::zz::LIST); }
    #[cfg(feature = "codecs")]
    v.extend_from_slice(c04::arb::LIST);
    #[cfg(feature = "codecs")]
    { v.extend_from_slice(c16::LIST); v.extend_from_slice(c17::LIST); }
    #[cfg(all(not(kani), feature = "codecs"))]
    { v.extend_from_slice(c17n::LIST); v.extend_from_slice(c16::native::LIST); v.extend_from_slice(c17::native::LIST); }
    v
}

//! C06 — bitwise logic, bit access, bit counting (ruint/src/bits.rs, ruint/src/special.rs; `byte` reads through
//! `as_le_slice` of ruint/src/bytes.rs).
//!
//! Property: `!`, `&`, `|`, `^` act bit by bit on exactly BITS bits; `bit`, `set_bit`, `byte`, `checked_byte` read / write
//! exactly the addressed position, an out-of-range index reads false / None, writes nothing, or (`byte`) panics;
//! leading/trailing zeros/ones, count_ones/zeros, bit_len, byte_len, reverse_bits, is_power_of_two,
//! (checked_)next_power_of_two are the values defined by the BITS-wide binary expansion; most_significant_bits returns
//! the top 64 significant bits and the matching exponent.
//!
//! Oracles: loops over the bit positions of the limb array with `oracle::bit` (macro `for_bits!`, nested 8 x 8 per limb
//! so that unwind 10 covers every width), limb-wise u64 logic for `!`/`&`/`|`/`^`.
//!
//! Coverage per entry point — every harness is complete for its width (all canonical values; indices are a fully
//! symbolic usize, i.e. more than the required [0, BITS+64]):
//!   c06_logic_*     Uint::not, `!a`, `!&a`; `&`, `|`, `^` in the shapes a op b, &a op b, a op &b, &a op &b, a op= b, a op= &b:
//!                   result limbs = limb-wise operation with the top limb masked (hence canonical)
//!   c06_access_*    bit(i) = (i < BITS && bit i of the limbs); set_bit(i, v) = the limbs with exactly bit i replaced when
//!                   i < BITS and unchanged otherwise (whole-array equality = frame condition);
//!                   checked_byte(i) = None iff i >= BYTES, else Some(byte i); byte(i) for i < BYTES; BYTES = ceil(BITS/8)
//!   c06_byte_oob_*_must_panic   byte(BYTES) and byte(usize::MAX) panic (should_panic harnesses, fixed index)
//!   c06_lead_*      leading_zeros, leading_ones, trailing_zeros, trailing_ones, bit_len, byte_len against one pass over the bits
//!   c06_popcnt_*    count_ones, count_zeros against a bit loop — widths <= 100 only: the direct comparison is a popcount
//!                   miter that took 94 s / 81 s / 377 s at 128 / 129 / 250 bits (it passed there; removed from the list)
//!   c06_popcnt_step_*  the same two functions at 64, 65, 128, 129, 250 bits, characterised inductively: count_ones(0) = 0,
//!                   setting one clear bit (any position < BITS) adds exactly 1, count_zeros = BITS - count_ones
//!   c06_reverse_*   reverse_bits: bit i of the result = bit BITS-1-i of the input, nothing above BITS
//!   c06_pow2_*      is_power_of_two <=> exactly one bit set; checked_next_power_of_two = Some(least 2^k >= x with k < BITS)
//!                   or None when there is none (0 -> Some(1) for BITS > 0, None for BITS = 0); next_power_of_two
//!                   returns the same value whenever it exists (so it does not panic there)
//!   c06_npow2_none_*_must_panic   next_power_of_two panics when x > 2^(BITS-1) (should_panic)
//!   c06_msb_*       most_significant_bits = (bits, e) with floor(x / 2^e) = bits, and bits >= 2^63 whenever e > 0;
//!                   for x < 2^64 the result is (x, 0)
//! Widths: see the harness list. Not covered: widths other than the listed ones; should_panic harnesses prove that a
//! panic is reachable for the fixed index / for the assumed value set and that nothing else fails (Kani has no
//! catch_unwind), not that every such input panics.
use crate::oracle as o;
use crate::sym::*;
use ruint::Uint;

/// run `$body` for `$k` = 0, 1, .., 64*L-1 (ascending); nested so that no loop runs more than 8 times (or L times)
macro_rules! for_bits {
    ($k:ident, $l:expr, $body:block) => {{
        let mut j_ = 0usize;
        while j_ < $l {
            let mut b_ = 0usize;
            while b_ < 8 {
                let mut c_ = 0usize;
                while c_ < 8 {
                    let $k: usize = 64 * j_ + 8 * b_ + c_;
                    $body
                    c_ += 1;
                }
                b_ += 1;
            }
            j_ += 1;
        }
    }};
}

fn logic<const B: usize, const L: usize>() {
    let a = uint::<B, L>();
    let b = uint::<B, L>();
    let (al, bl) = (*a.as_limbs(), *b.as_limbs());
    let (mut wn, mut wa, mut wo, mut wx) = ([0u64; L], [0u64; L], [0u64; L], [0u64; L]);
    let mut i = 0;
    while i < L {
        let m = if i == L - 1 { o::mask_of(B) } else { u64::MAX };
        wn[i] = !al[i] & m;
        wa[i] = (al[i] & bl[i]) & m;
        wo[i] = (al[i] | bl[i]) & m;
        wx[i] = (al[i] ^ bl[i]) & m;
        i += 1;
    }
    assert!(o::same(Uint::<B, L>::not(a).as_limbs(), &wn), "Uint::not");
    assert!(o::same((!a).as_limbs(), &wn), "!a");
    assert!(o::same((!&a).as_limbs(), &wn), "!&a");

    assert!(o::same((a & b).as_limbs(), &wa), "a & b");
    assert!(o::same((&a & b).as_limbs(), &wa), "&a & b");
    assert!(o::same((a & &b).as_limbs(), &wa), "a & &b");
    assert!(o::same((&a & &b).as_limbs(), &wa), "&a & &b");
    let mut t = a; t &= b; assert!(o::same(t.as_limbs(), &wa), "a &= b");
    let mut t = a; t &= &b; assert!(o::same(t.as_limbs(), &wa), "a &= &b");

    assert!(o::same((a | b).as_limbs(), &wo), "a | b");
    assert!(o::same((&a | b).as_limbs(), &wo), "&a | b");
    assert!(o::same((a | &b).as_limbs(), &wo), "a | &b");
    assert!(o::same((&a | &b).as_limbs(), &wo), "&a | &b");
    let mut t = a; t |= b; assert!(o::same(t.as_limbs(), &wo), "a |= b");
    let mut t = a; t |= &b; assert!(o::same(t.as_limbs(), &wo), "a |= &b");

    assert!(o::same((a ^ b).as_limbs(), &wx), "a ^ b");
    assert!(o::same((&a ^ b).as_limbs(), &wx), "&a ^ b");
    assert!(o::same((a ^ &b).as_limbs(), &wx), "a ^ &b");
    assert!(o::same((&a ^ &b).as_limbs(), &wx), "&a ^ &b");
    let mut t = a; t ^= b; assert!(o::same(t.as_limbs(), &wx), "a ^= b");
    let mut t = a; t ^= &b; assert!(o::same(t.as_limbs(), &wx), "a ^= &b");
}

fn access<const B: usize, const L: usize>() {
    let a = uint::<B, L>();
    let al = *a.as_limbs();
    let i: usize = any();
    // bit
    assert!(a.bit(i) == (i < B && o::bit(&al, i)), "bit(i) reads bit i, false when i >= BITS");
    // set_bit, with frame: the whole limb array is compared
    let v: bool = any();
    let mut t = a;
    t.set_bit(i, v);
    let mut want = al;
    if i < B { o::set_bit(&mut want, i, v); }
    assert!(o::same(t.as_limbs(), &want), "set_bit(i, v) replaces exactly bit i; no effect when i >= BITS");
    // bytes
    let nbytes = (B + 7) / 8;
    assert!(Uint::<B, L>::BYTES == nbytes, "BYTES = ceil(BITS / 8)");
    match a.checked_byte(i) {
        None => assert!(i >= nbytes, "checked_byte None only out of range"),
        Some(x) => assert!(i < nbytes && x == (al[i / 8] >> (8 * (i % 8))) as u8, "checked_byte Some(byte i) iff i < BYTES"),
    }
    if i < nbytes {
        assert!(a.byte(i) == (al[i / 8] >> (8 * (i % 8))) as u8, "byte(i) for i < BYTES");
    }
}

fn byte_oob<const B: usize, const L: usize>(far: bool) {
    let a = uint::<B, L>();
    let i = if far { usize::MAX } else { (B + 7) / 8 };
    let _ = a.byte(i);
}

fn popcnt<const B: usize, const L: usize>() {
    let a = uint::<B, L>();
    let al = *a.as_limbs();
    let mut ones = 0usize; // number of set bits of the B-bit expansion
    for_bits!(k, L, {
        if k < B && o::bit(&al, k) { ones += 1; }
    });
    assert!(a.count_ones() == ones, "count_ones");
    assert!(a.count_zeros() == B - ones, "count_zeros");
}

/// the same two functions characterised inductively (cheap for the solver at any width; the direct bit-loop
/// comparison above costs minutes beyond 100 bits): count_ones(0) = 0, setting one clear bit below BITS adds exactly one,
/// and count_zeros = BITS - count_ones. By induction on the number of set bits this fixes both functions completely.
fn popcnt_step<const B: usize, const L: usize>() {
    let a = uint::<B, L>();
    let al = *a.as_limbs();
    let i: usize = any();
    assume(i < B && !o::bit(&al, i));
    let mut bl = al;
    o::set_bit(&mut bl, i, true);
    let b = Uint::<B, L>::from_limbs(bl);
    assert!(Uint::<B, L>::from_limbs([0u64; L]).count_ones() == 0, "count_ones(0) = 0");
    assert!(b.count_ones() == a.count_ones() + 1, "count_ones: one more set bit counts one more");
    assert!(a.count_ones() <= B && a.count_zeros() == B - a.count_ones(), "count_zeros = BITS - count_ones");
    assert!(b.count_zeros() == B - b.count_ones(), "count_zeros = BITS - count_ones");
}

fn lead<const B: usize, const L: usize>() {
    let a = uint::<B, L>();
    let al = *a.as_limbs();
    // one pass over the B-bit expansion
    let mut len = 0usize; // 1 + index of the highest set bit, 0 if none
    let mut zlen = 0usize; // 1 + index of the highest clear bit below B, 0 if none
    let mut first_set = B; // index of the lowest set bit, B if none
    let mut first_clear = B; // index of the lowest clear bit, B if none
    for_bits!(k, L, {
        if k < B {
            if o::bit(&al, k) {
                len = k + 1;
                if first_set == B { first_set = k; }
            } else {
                zlen = k + 1;
                if first_clear == B { first_clear = k; }
            }
        }
    });
    assert!(a.leading_zeros() == B - len, "leading_zeros");
    assert!(a.leading_ones() == B - zlen, "leading_ones");
    assert!(a.trailing_zeros() == first_set, "trailing_zeros");
    assert!(a.trailing_ones() == first_clear, "trailing_ones");
    assert!(a.bit_len() == len, "bit_len");
    assert!(a.byte_len() == (len + 7) / 8, "byte_len");
}

fn reverse<const B: usize, const L: usize>() {
    let a = uint::<B, L>();
    let al = *a.as_limbs();
    let mut want = [0u64; L];
    for_bits!(k, L, {
        if k < B && o::bit(&al, B - 1 - k) { o::set_bit(&mut want, k, true); }
    });
    assert!(o::same(a.reverse_bits().as_limbs(), &want), "reverse_bits: bit i <- bit BITS-1-i");
}

fn pow2<const B: usize, const L: usize>() {
    let a = uint::<B, L>();
    let al = *a.as_limbs();
    let mut ones = 0usize;
    // the least power of two 2^k >= a with k < B, if there is one
    let mut found = false;
    let mut p = [0u64; L];
    for_bits!(k, L, {
        if k < B {
            if o::bit(&al, k) { ones += 1; }
            if !found {
                let mut c = [0u64; L];
                o::set_bit(&mut c, k, true);
                if !o::lt(&c, &al) { found = true; p = c; }
            }
        }
    });
    assert!(a.is_power_of_two() == (ones == 1), "is_power_of_two <=> exactly one bit set");
    match a.checked_next_power_of_two() {
        None => assert!(!found, "checked_next_power_of_two None only when no power of two >= x fits"),
        Some(v) => assert!(found && o::same(v.as_limbs(), &p), "checked_next_power_of_two = least 2^k >= x"),
    }
    if found {
        assert!(o::same(a.next_power_of_two().as_limbs(), &p), "next_power_of_two = least 2^k >= x (no panic)");
    }
}

fn npow2_none<const B: usize, const L: usize>() {
    let a = uint::<B, L>();
    let al = *a.as_limbs();
    // x > 2^(B-1): no power of two >= x below 2^B
    let mut half = [0u64; L];
    o::set_bit(&mut half, B - 1, true);
    assume(o::lt(&half, &al));
    let _ = a.next_power_of_two();
}

fn msb<const B: usize, const L: usize>() {
    let a = uint::<B, L>();
    let al = *a.as_limbs();
    let (bits, e) = a.most_significant_bits();
    assert!(e <= 64 * L, "exponent within the word");
    // floor(a / 2^e) == bits, i.e. bits * 2^e <= a < (bits + 1) * 2^e:
    // bit d of `bits` is bit e+d of a (zero beyond the limbs), and a has nothing at or above e+64
    let mut ok = true;
    let mut d = 0;
    while d < 64 {
        if ((bits >> d) & 1 == 1) != o::bit(&al, e + d) { ok = false; }
        d += 1;
    }
    for_bits!(k, L, {
        if k >= e && k - e >= 64 && o::bit(&al, k) { ok = false; }
    });
    assert!(ok, "most_significant_bits: floor(x / 2^exponent) = bits");
    assert!(e == 0 || bits >= 1u64 << 63, "most_significant_bits: bits is normalised when exponent > 0");
    // spelled out for small values
    let mut small = true;
    let mut i = 1;
    while i < L { if al[i] != 0 { small = false; } i += 1; }
    if small {
        assert!(e == 0 && bits == if L > 0 { al[0] } else { 0 }, "most_significant_bits: (x, 0) for x < 2^64");
    }
}

crate::harnesses! {
    #[cfg_attr(kani, kani::unwind(10))] fn c06_logic_w0() { logic::<0, 0>() }
    #[cfg_attr(kani, kani::unwind(10))] fn c06_logic_w1() { logic::<1, 1>() }
    #[cfg_attr(kani, kani::unwind(10))] fn c06_logic_w8() { logic::<8, 1>() }
    #[cfg_attr(kani, kani::unwind(10))] fn c06_logic_w60() { logic::<60, 1>() }
    #[cfg_attr(kani, kani::unwind(10))] fn c06_logic_w63() { logic::<63, 1>() }
    #[cfg_attr(kani, kani::unwind(10))] fn c06_logic_w64() { logic::<64, 1>() }
    #[cfg_attr(kani, kani::unwind(10))] fn c06_logic_w65() { logic::<65, 2>() }
    #[cfg_attr(kani, kani::unwind(10))] fn c06_logic_w100() { logic::<100, 2>() }
    #[cfg_attr(kani, kani::unwind(10))] fn c06_logic_w128() { logic::<128, 2>() }
    #[cfg_attr(kani, kani::unwind(10))] fn c06_logic_w129() { logic::<129, 3>() }
    #[cfg_attr(kani, kani::unwind(10))] fn c06_logic_w192() { logic::<192, 3>() }
    #[cfg_attr(kani, kani::unwind(10))] fn c06_logic_w250() { logic::<250, 4>() }
    #[cfg_attr(kani, kani::unwind(10))] fn c06_logic_w256() { logic::<256, 4>() }
    #[cfg_attr(kani, kani::unwind(10))] fn c06_access_w0() { access::<0, 0>() }
    #[cfg_attr(kani, kani::unwind(10))] fn c06_access_w1() { access::<1, 1>() }
    #[cfg_attr(kani, kani::unwind(10))] fn c06_access_w8() { access::<8, 1>() }
    #[cfg_attr(kani, kani::unwind(10))] fn c06_access_w60() { access::<60, 1>() }
    #[cfg_attr(kani, kani::unwind(10))] fn c06_access_w63() { access::<63, 1>() }
    #[cfg_attr(kani, kani::unwind(10))] fn c06_access_w64() { access::<64, 1>() }
    #[cfg_attr(kani, kani::unwind(10))] fn c06_access_w65() { access::<65, 2>() }
    #[cfg_attr(kani, kani::unwind(10))] fn c06_access_w100() { access::<100, 2>() }
    #[cfg_attr(kani, kani::unwind(10))] fn c06_access_w128() { access::<128, 2>() }
    #[cfg_attr(kani, kani::unwind(10))] fn c06_access_w129() { access::<129, 3>() }
    #[cfg_attr(kani, kani::unwind(10))] fn c06_access_w192() { access::<192, 3>() }
    #[cfg_attr(kani, kani::unwind(10))] fn c06_access_w250() { access::<250, 4>() }
    #[cfg_attr(kani, kani::unwind(10))] fn c06_access_w256() { access::<256, 4>() }
    #[cfg_attr(kani, kani::unwind(10))] #[cfg_attr(kani, kani::should_panic)] fn c06_byte_oob_w0_must_panic() { byte_oob::<0, 0>(false) }
    #[cfg_attr(kani, kani::unwind(10))] #[cfg_attr(kani, kani::should_panic)] fn c06_byte_oob_w60_must_panic() { byte_oob::<60, 1>(false) }
    #[cfg_attr(kani, kani::unwind(10))] #[cfg_attr(kani, kani::should_panic)] fn c06_byte_oob_w64_must_panic() { byte_oob::<64, 1>(false) }
    #[cfg_attr(kani, kani::unwind(10))] #[cfg_attr(kani, kani::should_panic)] fn c06_byte_oob_w65_must_panic() { byte_oob::<65, 2>(false) }
    #[cfg_attr(kani, kani::unwind(10))] #[cfg_attr(kani, kani::should_panic)] fn c06_byte_oob_far_w65_must_panic() { byte_oob::<65, 2>(true) }
    #[cfg_attr(kani, kani::unwind(10))] #[cfg_attr(kani, kani::should_panic)] fn c06_byte_oob_w250_must_panic() { byte_oob::<250, 4>(false) }
    #[cfg_attr(kani, kani::unwind(10))] fn c06_lead_w0() { lead::<0, 0>() }
    #[cfg_attr(kani, kani::unwind(10))] fn c06_popcnt_w0() { popcnt::<0, 0>() }
    #[cfg_attr(kani, kani::unwind(10))] fn c06_lead_w1() { lead::<1, 1>() }
    #[cfg_attr(kani, kani::unwind(10))] fn c06_popcnt_w1() { popcnt::<1, 1>() }
    #[cfg_attr(kani, kani::unwind(10))] fn c06_lead_w8() { lead::<8, 1>() }
    #[cfg_attr(kani, kani::unwind(10))] fn c06_popcnt_w8() { popcnt::<8, 1>() }
    #[cfg_attr(kani, kani::unwind(10))] fn c06_lead_w60() { lead::<60, 1>() }
    #[cfg_attr(kani, kani::unwind(10))] fn c06_popcnt_w60() { popcnt::<60, 1>() }
    #[cfg_attr(kani, kani::unwind(10))] fn c06_lead_w63() { lead::<63, 1>() }
    #[cfg_attr(kani, kani::unwind(10))] fn c06_popcnt_w63() { popcnt::<63, 1>() }
    #[cfg_attr(kani, kani::unwind(10))] fn c06_lead_w64() { lead::<64, 1>() }
    #[cfg_attr(kani, kani::unwind(10))] fn c06_popcnt_w64() { popcnt::<64, 1>() }
    #[cfg_attr(kani, kani::unwind(10))] fn c06_popcnt_step_w64() { popcnt_step::<64, 1>() }
    #[cfg_attr(kani, kani::unwind(10))] fn c06_lead_w65() { lead::<65, 2>() }
    #[cfg_attr(kani, kani::unwind(10))] fn c06_popcnt_w65() { popcnt::<65, 2>() }
    #[cfg_attr(kani, kani::unwind(10))] fn c06_popcnt_step_w65() { popcnt_step::<65, 2>() }
    #[cfg_attr(kani, kani::unwind(10))] fn c06_lead_w100() { lead::<100, 2>() }
    #[cfg_attr(kani, kani::unwind(10))] fn c06_popcnt_w100() { popcnt::<100, 2>() }
    #[cfg_attr(kani, kani::unwind(10))] fn c06_lead_w128() { lead::<128, 2>() }
    #[cfg_attr(kani, kani::unwind(10))] fn c06_popcnt_step_w128() { popcnt_step::<128, 2>() }
    #[cfg_attr(kani, kani::unwind(10))] fn c06_lead_w129() { lead::<129, 3>() }
    #[cfg_attr(kani, kani::unwind(10))] fn c06_popcnt_step_w129() { popcnt_step::<129, 3>() }
    #[cfg_attr(kani, kani::unwind(10))] fn c06_lead_w250() { lead::<250, 4>() }
    #[cfg_attr(kani, kani::unwind(10))] fn c06_popcnt_step_w250() { popcnt_step::<250, 4>() }
    #[cfg_attr(kani, kani::unwind(10))] fn c06_reverse_w0() { reverse::<0, 0>() }
    #[cfg_attr(kani, kani::unwind(10))] fn c06_reverse_w1() { reverse::<1, 1>() }
    #[cfg_attr(kani, kani::unwind(10))] fn c06_reverse_w8() { reverse::<8, 1>() }
    #[cfg_attr(kani, kani::unwind(10))] fn c06_reverse_w60() { reverse::<60, 1>() }
    #[cfg_attr(kani, kani::unwind(10))] fn c06_reverse_w64() { reverse::<64, 1>() }
    #[cfg_attr(kani, kani::unwind(10))] fn c06_reverse_w65() { reverse::<65, 2>() }
    #[cfg_attr(kani, kani::unwind(10))] fn c06_reverse_w128() { reverse::<128, 2>() }
    #[cfg_attr(kani, kani::unwind(10))] fn c06_reverse_w129() { reverse::<129, 3>() }
    #[cfg_attr(kani, kani::unwind(10))] fn c06_reverse_w250() { reverse::<250, 4>() }
    #[cfg_attr(kani, kani::unwind(10))] fn c06_pow2_w0() { pow2::<0, 0>() }
    #[cfg_attr(kani, kani::unwind(10))] fn c06_pow2_w1() { pow2::<1, 1>() }
    #[cfg_attr(kani, kani::unwind(10))] fn c06_pow2_w8() { pow2::<8, 1>() }
    #[cfg_attr(kani, kani::unwind(10))] fn c06_pow2_w60() { pow2::<60, 1>() }
    #[cfg_attr(kani, kani::unwind(10))] fn c06_pow2_w64() { pow2::<64, 1>() }
    #[cfg_attr(kani, kani::unwind(10))] fn c06_pow2_w65() { pow2::<65, 2>() }
    #[cfg_attr(kani, kani::unwind(10))] fn c06_pow2_w128() { pow2::<128, 2>() }
    #[cfg_attr(kani, kani::unwind(10))] fn c06_pow2_w129() { pow2::<129, 3>() }
    #[cfg_attr(kani, kani::unwind(10))] #[cfg_attr(kani, kani::should_panic)] fn c06_npow2_none_w8_must_panic() { npow2_none::<8, 1>() }
    #[cfg_attr(kani, kani::unwind(10))] #[cfg_attr(kani, kani::should_panic)] fn c06_npow2_none_w64_must_panic() { npow2_none::<64, 1>() }
    #[cfg_attr(kani, kani::unwind(10))] #[cfg_attr(kani, kani::should_panic)] fn c06_npow2_none_w65_must_panic() { npow2_none::<65, 2>() }
    #[cfg_attr(kani, kani::unwind(66))] fn c06_msb_w0() { msb::<0, 0>() }
    #[cfg_attr(kani, kani::unwind(66))] fn c06_msb_w1() { msb::<1, 1>() }
    #[cfg_attr(kani, kani::unwind(66))] fn c06_msb_w60() { msb::<60, 1>() }
    #[cfg_attr(kani, kani::unwind(66))] fn c06_msb_w64() { msb::<64, 1>() }
    #[cfg_attr(kani, kani::unwind(66))] fn c06_msb_w65() { msb::<65, 2>() }
    #[cfg_attr(kani, kani::unwind(66))] fn c06_msb_w128() { msb::<128, 2>() }
    #[cfg_attr(kani, kani::unwind(66))] fn c06_msb_w129() { msb::<129, 3>() }
    #[cfg_attr(kani, kani::unwind(66))] fn c06_msb_w192() { msb::<192, 3>() }
    #[cfg_attr(kani, kani::unwind(66))] fn c06_msb_w250() { msb::<250, 4>() }
}

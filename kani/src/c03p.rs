//! C03p - panics and None of the division family at the Uint level (ruint src/div.rs, src/special.rs).
//! Only the "zero divisor" clauses and a complete 8-bit check; full division correctness is proved elsewhere.
//!
//! * `c03p_zero_none_*`   (0/0, 1/1, 64/1, 65/2): for every canonical n and d = 0: `checked_div`, `checked_rem`,
//!   `checked_next_multiple_of` return None and do not panic.  d is the constant ZERO: a canonical Uint has exactly one
//!   representation of zero, so this is every d == 0.
//! * `c03p_<op>_zero_w*_must_panic` (1/1, 64/1, 65/2; should_panic, n symbolic, d = 0), one harness per entry point:
//!   `div_rem`, `/`, `%`, `wrapping_div`, `wrapping_rem`, `div_ceil`, `next_multiple_of`.
//!   should_panic alone proves "a panic is reachable and no other kind of failure exists".  The call is followed by
//!   `returned()` (an endless loop under Kani = an unwinding failure, which should_panic does NOT tolerate), so these
//!   harnesses prove the full clause: for EVERY n the call panics and never returns.  (Checked: the same construction
//!   around a call that returns for some input is reported FAILED.)
//! * d != 0 at 8/1 - complete: all 2^16 pairs (n, d).  Oracle: u16 arithmetic.
//!   `c03p_div_rem_w8`: n == q*d + r, r < d;  `c03p_div_ops_w8`: `/`, `%`, wrapping_div, wrapping_rem, checked_div,
//!   checked_rem give the same q, r;  `c03p_div_ceil_w8`: ceil(n/d);  `c03p_cnmo_w8`: checked_next_multiple_of is
//!   Some(m) iff m = ceil(n/d)*d < 256;  `c03p_nmo_w8`: next_multiple_of returns m (no panic) when it fits;
//!   `c03p_nmo_overflow_w8_must_panic`: and panics when it does not.
//!
//! One-limb division and CBMC: `algorithms::div` dispatches on the trimmed slice lengths, which symbolic execution
//! cannot see are 1, so div_nx1 / div_nx2 / Knuth would be encoded too (128-bit dividers, > 8 GB).  The 8-bit harnesses
//! replace these three kernels by stubs that FAIL when reached (`-Z stubbing`): this also proves they are unreachable
//! at LIMBS = 1; the arithmetic left is the native `u64 / u64`, `u64 % u64` of the 1x1 case.
//! The zero-divisor harnesses use no stubs.
use crate::oracle as o;
use crate::sym::*;
use ruint::Uint;

pub fn unreachable_div_nx1(_limbs: &mut [u64], _divisor: u64) -> u64 { panic!("div_nx1 reached at LIMBS = 1") }
pub fn unreachable_div_nx2(_limbs: &mut [u64], _divisor: u128) -> u128 { panic!("div_nx2 reached at LIMBS = 1") }
pub fn unreachable_div_nxm(_numerator: &mut [u64], _divisor: &mut [u64]) { panic!("div_nxm reached at LIMBS = 1") }

/// Contract-based replacement of `Uint::is_zero` (derived `==` = memcmp over 8 bytes, which forces unwind >= 9 on EVERY
/// loop, and at that depth the one-limb `checked_mul` inside checked_next_multiple_of unrolls to 81 64x64 multipliers:
/// 23 M clauses, no result in 300 s).  The model is limb-wise; that the real `is_zero` satisfies exactly this contract
/// for every 8-bit value is proved by `c03p_is_zero_contract_w8` (real code, no stub) - and at the other widths by C04.
pub fn is_zero_model<const BITS: usize, const LIMBS: usize>(x: &Uint<BITS, LIMBS>) -> bool { o::is_zero(x.as_limbs()) }
fn is_zero_contract<const B: usize, const L: usize>() {
    let x = uint::<B, L>();
    assert!(x.is_zero() == is_zero_model(&x), "is_zero contract: true exactly for the all-zero limbs");
}

// ---------------------------------------------------------------- d == 0
fn zero_none<const B: usize, const L: usize>() {
    let n = uint::<B, L>();
    let z = Uint::<B, L>::ZERO;
    assert!(n.checked_div(z).is_none(), "checked_div(n, 0) is None");
    assert!(n.checked_rem(z).is_none(), "checked_rem(n, 0) is None");
    assert!(n.checked_next_multiple_of(z).is_none(), "checked_next_multiple_of(n, 0) is None");
}
/// which: the entry point that must panic for d = 0
fn zero_panics<const B: usize, const L: usize>(which: u8) {
    let n = uint::<B, L>();
    let z = Uint::<B, L>::ZERO;
    match which {
        0 => { let _ = n.div_rem(z); }
        1 => { let _ = n / z; }
        2 => { let _ = n % z; }
        3 => { let _ = n.wrapping_div(z); }
        4 => { let _ = n.wrapping_rem(z); }
        5 => { let _ = n.div_ceil(z); }
        _ => { let _ = n.next_multiple_of(z); }
    }
    returned();
}
/// Placed after a call that must not return.  Under Kani an endless loop makes "the call returned" an UNWINDING
/// failure, which a should_panic harness does not tolerate (only panics are tolerated): the harness then proves both
/// "a panic occurs" and "the call returns for no input".  Natively it is a plain panic with a distinct message.
fn returned() {
    #[cfg(kani)]
    { let mut i: u8 = 0; loop { i = i.wrapping_add(1); } }
    #[cfg(not(kani))]
    panic!("REPLAY: the call returned although it must panic");
}

// ---------------------------------------------------------------- d != 0, 8 bits
type U8 = Uint<8, 1>;
fn pair8() -> (U8, U8, u16, u16) {
    let n = uint::<8, 1>();
    let d = uint::<8, 1>();
    let (nv, dv) = (n.as_limbs()[0], d.as_limbs()[0]);
    assume(dv != 0);
    (n, d, nv as u16, dv as u16)
}
fn val8(x: U8) -> u16 {
    assert!(x.as_limbs()[0] < 256, "result is a canonical 8-bit value");
    x.as_limbs()[0] as u16
}
fn div_rem8() {
    let (n, d, nv, dv) = pair8();
    let (q, r) = n.div_rem(d);
    let (qv, rv) = (val8(q), val8(r));
    assert!(qv * dv + rv == nv, "div_rem: n == q*d + r");
    assert!(rv < dv, "div_rem: r < d");
    assert!(qv == nv / dv && rv == nv % dv, "div_rem: q = floor(n/d), r = n mod d");
}
fn div_ops8(which: u8) {
    let (n, d, nv, dv) = pair8();
    let (qv, rv) = (nv / dv, nv % dv);
    match which {
        0 => assert!(val8(n / d) == qv && val8(n.wrapping_div(d)) == qv, "/ and wrapping_div"),
        1 => assert!(val8(n % d) == rv && val8(n.wrapping_rem(d)) == rv, "% and wrapping_rem"),
        2 => assert!(matches!(n.checked_div(d), Some(q) if val8(q) == qv), "checked_div is Some(q) for d != 0"),
        _ => assert!(matches!(n.checked_rem(d), Some(r) if val8(r) == rv), "checked_rem is Some(r) for d != 0"),
    }
}
fn div_ceil8() {
    let (n, d, nv, dv) = pair8();
    assert!(val8(n.div_ceil(d)) == (nv + dv - 1) / dv, "div_ceil == ceil(n/d)");
}
fn cnmo8() {
    let (n, d, nv, dv) = pair8();
    let m = (nv + dv - 1) / dv * dv; // ceil(n/d) * d <= 255 + 254
    match n.checked_next_multiple_of(d) {
        Some(x) => assert!(m < 256 && val8(x) == m, "checked_next_multiple_of: Some(m) with m = ceil(n/d)*d < 2^8"),
        None => assert!(m >= 256, "checked_next_multiple_of: None only when ceil(n/d)*d >= 2^8"),
    }
}
fn nmo8(fits: bool) {
    let (n, d, nv, dv) = pair8();
    let m = (nv + dv - 1) / dv * dv;
    assume((m < 256) == fits);
    let x = n.next_multiple_of(d);
    if fits { assert!(val8(x) == m, "next_multiple_of == ceil(n/d)*d when it fits (no panic)"); } else { returned(); }
}

macro_rules! div_stubs {
    ($($(#[$m:meta])* fn $name:ident() $body:block)*) => {
        crate::harnesses! { $(
            $(#[$m])*
            #[cfg_attr(kani, kani::stub(ruint::algorithms::div::div_nx1, unreachable_div_nx1))]
            #[cfg_attr(kani, kani::stub(ruint::algorithms::div::div_nx2, unreachable_div_nx2))]
            #[cfg_attr(kani, kani::stub(ruint::algorithms::div::div_nxm, unreachable_div_nxm))]
            fn $name() $body
        )* }
    };
}

macro_rules! div_mul_stubs {
    ($($(#[$m:meta])* fn $name:ident() $body:block)*) => {
        div_stubs! { $(
            $(#[$m])*
            #[cfg_attr(kani, kani::stub(ruint::Uint::is_zero, is_zero_model))]
            fn $name() $body
        )* }
    };
}

pub mod d8m {
    use super::*;
    div_mul_stubs! {
        #[cfg_attr(kani, kani::unwind(3))] fn c03p_cnmo_w8() { cnmo8() }
        #[cfg_attr(kani, kani::unwind(3))] fn c03p_nmo_w8() { nmo8(true) }
        #[cfg_attr(kani, kani::unwind(3))] #[cfg_attr(kani, kani::should_panic)] fn c03p_nmo_overflow_w8_must_panic() { nmo8(false) }
    }
}

pub mod d8 {
    use super::*;
    div_stubs! {
        #[cfg_attr(kani, kani::unwind(3))] fn c03p_div_rem_w8() { div_rem8() }
        #[cfg_attr(kani, kani::unwind(3))] fn c03p_div_w8() { div_ops8(0) }
        #[cfg_attr(kani, kani::unwind(3))] fn c03p_rem_w8() { div_ops8(1) }
        #[cfg_attr(kani, kani::unwind(10))] fn c03p_checked_div_w8() { div_ops8(2) }
        #[cfg_attr(kani, kani::unwind(10))] fn c03p_checked_rem_w8() { div_ops8(3) }
        #[cfg_attr(kani, kani::unwind(10))] fn c03p_div_ceil_w8() { div_ceil8() }
    }
}

crate::harnesses! {
    #[cfg_attr(kani, kani::unwind(10))] fn c03p_is_zero_contract_w8() { is_zero_contract::<8, 1>() }
    #[cfg_attr(kani, kani::unwind(4))] fn c03p_zero_none_w0() { zero_none::<0, 0>() }
    #[cfg_attr(kani, kani::unwind(10))] fn c03p_zero_none_w1() { zero_none::<1, 1>() }
    #[cfg_attr(kani, kani::unwind(10))] fn c03p_zero_none_w64() { zero_none::<64, 1>() }
    #[cfg_attr(kani, kani::unwind(18))] fn c03p_zero_none_w65() { zero_none::<65, 2>() }

    #[cfg_attr(kani, kani::unwind(10))] #[cfg_attr(kani, kani::should_panic)] fn c03p_div_rem_zero_w1_must_panic() { zero_panics::<1, 1>(0) }
    #[cfg_attr(kani, kani::unwind(10))] #[cfg_attr(kani, kani::should_panic)] fn c03p_div_zero_w1_must_panic() { zero_panics::<1, 1>(1) }
    #[cfg_attr(kani, kani::unwind(10))] #[cfg_attr(kani, kani::should_panic)] fn c03p_rem_zero_w1_must_panic() { zero_panics::<1, 1>(2) }
    #[cfg_attr(kani, kani::unwind(10))] #[cfg_attr(kani, kani::should_panic)] fn c03p_wrapping_div_zero_w1_must_panic() { zero_panics::<1, 1>(3) }
    #[cfg_attr(kani, kani::unwind(10))] #[cfg_attr(kani, kani::should_panic)] fn c03p_wrapping_rem_zero_w1_must_panic() { zero_panics::<1, 1>(4) }
    #[cfg_attr(kani, kani::unwind(10))] #[cfg_attr(kani, kani::should_panic)] fn c03p_div_ceil_zero_w1_must_panic() { zero_panics::<1, 1>(5) }
    #[cfg_attr(kani, kani::unwind(10))] #[cfg_attr(kani, kani::should_panic)] fn c03p_next_multiple_of_zero_w1_must_panic() { zero_panics::<1, 1>(6) }

    #[cfg_attr(kani, kani::unwind(10))] #[cfg_attr(kani, kani::should_panic)] fn c03p_div_rem_zero_w64_must_panic() { zero_panics::<64, 1>(0) }
    #[cfg_attr(kani, kani::unwind(10))] #[cfg_attr(kani, kani::should_panic)] fn c03p_div_zero_w64_must_panic() { zero_panics::<64, 1>(1) }
    #[cfg_attr(kani, kani::unwind(10))] #[cfg_attr(kani, kani::should_panic)] fn c03p_rem_zero_w64_must_panic() { zero_panics::<64, 1>(2) }
    #[cfg_attr(kani, kani::unwind(10))] #[cfg_attr(kani, kani::should_panic)] fn c03p_wrapping_div_zero_w64_must_panic() { zero_panics::<64, 1>(3) }
    #[cfg_attr(kani, kani::unwind(10))] #[cfg_attr(kani, kani::should_panic)] fn c03p_wrapping_rem_zero_w64_must_panic() { zero_panics::<64, 1>(4) }
    #[cfg_attr(kani, kani::unwind(10))] #[cfg_attr(kani, kani::should_panic)] fn c03p_div_ceil_zero_w64_must_panic() { zero_panics::<64, 1>(5) }
    #[cfg_attr(kani, kani::unwind(10))] #[cfg_attr(kani, kani::should_panic)] fn c03p_next_multiple_of_zero_w64_must_panic() { zero_panics::<64, 1>(6) }

    #[cfg_attr(kani, kani::unwind(18))] #[cfg_attr(kani, kani::should_panic)] fn c03p_div_rem_zero_w65_must_panic() { zero_panics::<65, 2>(0) }
    #[cfg_attr(kani, kani::unwind(18))] #[cfg_attr(kani, kani::should_panic)] fn c03p_div_zero_w65_must_panic() { zero_panics::<65, 2>(1) }
    #[cfg_attr(kani, kani::unwind(18))] #[cfg_attr(kani, kani::should_panic)] fn c03p_rem_zero_w65_must_panic() { zero_panics::<65, 2>(2) }
    #[cfg_attr(kani, kani::unwind(18))] #[cfg_attr(kani, kani::should_panic)] fn c03p_wrapping_div_zero_w65_must_panic() { zero_panics::<65, 2>(3) }
    #[cfg_attr(kani, kani::unwind(18))] #[cfg_attr(kani, kani::should_panic)] fn c03p_wrapping_rem_zero_w65_must_panic() { zero_panics::<65, 2>(4) }
    #[cfg_attr(kani, kani::unwind(18))] #[cfg_attr(kani, kani::should_panic)] fn c03p_div_ceil_zero_w65_must_panic() { zero_panics::<65, 2>(5) }
    #[cfg_attr(kani, kani::unwind(18))] #[cfg_attr(kani, kani::should_panic)] fn c03p_next_multiple_of_zero_w65_must_panic() { zero_panics::<65, 2>(6) }
}

//! replay <harness> <hex,hex,...>   — run one harness concretely on the real code.
//! Input values are the byte vectors of Kani's concrete playback, in order.
#[cfg(kani)]
fn main() {}
#[cfg(not(kani))]
fn main() {
    use std::collections::VecDeque;
    let args: Vec<String> = std::env::args().collect();
    if args.len() < 2 { eprintln!("usage: replay <harness> [hexbytes,...]"); std::process::exit(2); }
    if args[1] == "--sweep" {
        // replay --sweep <runs> <harness> [<harness> ...]: run each harness body natively on `runs` generated inputs (pattern mode of
        // vk::sym); a run whose inputs violate an `assume` is skipped. Output: one SWEEP line per harness.
        let runs: u64 = args[2].parse().unwrap();
        let reg = vk::registry();
        let mut bad = false;
        std::panic::set_hook(Box::new(|_| {}));
        for name in &args[3..] {
            let Some((_, f)) = reg.iter().find(|(n, _)| n == name) else { println!("SWEEP harness={name} outcome=unknown"); continue };
            let (mut valid, mut invalid) = (0u64, 0u64);
            let mut failed: Option<(u64, String, String)> = None;
            for r in 0..runs {
                vk::sym::PATTERN.with(|p| p.set(Some(r)));
                vk::sym::DRAWN.with(|d| d.borrow_mut().clear());
                let res = std::panic::catch_unwind(|| f());
                match res {
                    Ok(()) => valid += 1,
                    Err(e) => {
                        let msg = e.downcast_ref::<String>().cloned().or_else(|| e.downcast_ref::<&str>().map(|s| s.to_string())).unwrap_or_default();
                        if msg.contains("REPLAY-ASSUMPTION-VIOLATED") || msg.starts_with("REPLAY:") { invalid += 1; continue; }
                        let vals = vk::sym::DRAWN.with(|d| d.borrow().iter().map(|v| v.iter().map(|b| format!("{b:02x}")).collect::<String>()).collect::<Vec<_>>().join(","));
                        failed = Some((r, vals, msg));
                        break;
                    }
                }
            }
            match failed {
                None => println!("SWEEP harness={name} outcome=holds valid={valid} invalid={invalid}"),
                Some((r, vals, msg)) => { bad = true; println!("SWEEP harness={name} outcome=VIOLATED run={r} values={vals} message={msg:?}"); }
            }
        }
        std::process::exit(if bad { 1 } else { 0 });
    }
    let name = &args[1];
    let mut q = VecDeque::new();
    if args.len() > 2 && !args[2].is_empty() {
        for h in args[2].split(',') {
            let b: Vec<u8> = (0..h.len() / 2).map(|i| u8::from_str_radix(&h[2 * i..2 * i + 2], 16).unwrap()).collect();
            q.push_back(b);
        }
    }
    vk::sym::QUEUE.with(|qq| *qq.borrow_mut() = q);
    let reg = vk::registry();
    let Some((_, f)) = reg.iter().find(|(n, _)| n == name) else { eprintln!("unknown harness {name}"); std::process::exit(2) };
    let r = std::panic::catch_unwind(|| f());
    match r {
        Ok(()) => { println!("REPLAY harness={name} outcome=holds"); }
        Err(e) => {
            let msg = e.downcast_ref::<String>().cloned().or_else(|| e.downcast_ref::<&str>().map(|s| s.to_string())).unwrap_or_default();
            if msg.contains("the call returned although it must panic") {
                println!("REPLAY harness={name} outcome=VIOLATED message={msg:?}");
                std::process::exit(1);
            }
            if msg.contains("REPLAY-ASSUMPTION-VIOLATED") || msg.starts_with("REPLAY:") {
                println!("REPLAY harness={name} outcome=invalid-input ({msg})");
                std::process::exit(3);
            }
            println!("REPLAY harness={name} outcome=VIOLATED message={msg:?}");
            std::process::exit(1);
        }
    }
}

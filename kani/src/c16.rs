//! C16 - codec integrations (ruint src/support/*.rs): round trips, advertised lengths, reference encodings.
//! Only with `--features codecs` (`#![cfg(feature = "codecs")]`).  What is NOT covered is listed at the end.
//!
//! Every harness takes ONE symbolic canonical x (ALL values of the width) and checks, on the real trait impls:
//!  (ref)  the bytes produced against a spec function of the FORMAT written here over the value of x (`rlp_spec`,
//!         `compact_spec`, `der_spec`, `le_spec`, `be_spec`) - never against another codec;
//!  (len)  the advertised length / size hint against the bytes really produced;
//!  (rt)   decode(encode(x)) == Ok(x), nothing left over.  Where encoder + decoder in one harness are too heavy, the
//!         round trip is split: encoder output == spec(x) here, decode(spec(x)) == x in a `*_dec` harness here or - for
//!         all inputs, not only spec(x) - in c17, and c17's `c17_spec_*` prove that the decode specs invert these specs;
//!  (prim) at 64/1 and 128/2 the bytes against the codec crate's own encoding of the equal u64 / u128.
//!
//!  * alloy-rlp, fastrlp 0.3, fastrlp 0.4 (`c16_alloy_*`, `c16_frlp3_*`, `c16_frlp4_*`): `Encodable::encode` into a
//!    `&mut [u8]` BufMut (no heap), `length()`, `MaxEncodedLenAssoc::LEN >= length`, `Decodable::decode` (ref, len, rt).
//!    Widths 8/1 16/1 60/1 64/1 65/2 128/2 (LIMBS 1 and 2 are the u64 / u128 forwarding arms of `encode`) and 129/3,
//!    192/3 (the generic trimmed-bytes arm, spec over limbs `rlp_spec_limbs`); prim at 64/1 and 128/2.
//!  * rlp (parity): `c16_rlp_stream_w8`: `RlpStream::append(&x)` + `out()` == reference, 8/1 ONLY and with a 32-byte
//!    initial buffer (`RlpStream::new_with_buffer`); stubs: BytesMut growth and slice rotation replaced by functions that
//!    FAIL when reached (both belong to strings > 55 bytes / buffer exhaustion: proved unreachable).  `c16_rlp_dec_*`:
//!    `rlp::decode` and `Rlp::as_val` of the reference bytes give x (8/1 16/1 60/1 64/1 65/2 128/2).
//!  * SCALE fixed (`c16_scale_fixed_*`, 7/1 8/1 16/1 60/1 64/1 65/2 128/2): `Encode::encode`, `size_hint() >=`,
//!    `encoded_size() ==`, `max_encoded_len() >=` the bytes produced, `Decode::decode` round trip; reference = compact
//!    length prefix (BYTES << 2, one byte since BYTES < 64) ++ BYTES little-endian bytes.
//!    `kf_c16_scale_fixed_equals_primitive_w64` states that this equals `u64::encode()` - EXPECTED TO FAIL (known
//!    finding: 9 bytes with a length prefix against 8 bytes; fails for every x).
//!  * SCALE compact (`c16_scale_compact_*`, same widths): `CompactRefUint(&x)`: `size_hint()` == reference length (no
//!    panic), `encode()` == the four compact modes, `size_hint()` == bytes produced; prim: `Compact(u64)`,
//!    `Compact(u128)` (`using_encoded`).  Decoding: c17 (`c17_scale_compact_*`, `c17_spec_compact_*`).
//!  * SSZ (`c16_ssz_*`): `as_ssz_bytes`, `ssz_bytes_len`, `ssz_fixed_len` (Encode and Decode), `is_ssz_fixed_len`,
//!    `from_ssz_bytes` round trip; prim u64.
//!  * borsh (`c16_borsh_*`): `serialize` into `&mut [u8]`, `borsh::object_length`, `try_from_slice` round trip;
//!    `c16_borsh_vec_*`: `borsh::to_vec`; prim u64 / u128.
//!  * DER: `c16_der_value_*`: ruint's `EncodeValue::encode_value` through a recording `der::Writer` == reference content
//!    (minimal big-endian two's complement), `FixedTag::TAG` == INTEGER; `c16_der_len_*`: `value_len()` and
//!    `encoded_len()` == reference lengths; `c16_der_dec_*`: `DecodeValue::decode_value` of the reference content == x;
//!    prim: same content bytes and value_len as the der crate's u64 / u128.
//!  * serde binary (`c16_serde_bin_*`): a recording mock `Serializer` (is_human_readable() == false, accepts only
//!    `serialize_bytes`) receives exactly BYTES big-endian bytes; a mock `Deserializer` handing these bytes to
//!    `visit_bytes` gives x back.
//!  * bytemuck (`c16_bytemuck_*`, 64/1 128/2): `bytes_of` == little-endian limb bytes, `pod_read_unaligned` round
//!    trip, `Zeroable::zeroed()` is zero (also 7/1, 65/2).
//!  * primitive-types (`c16_ptypes_*`): U128 <-> Uint<128,2>, U256 <-> Uint<256,4>, U512 <-> Uint<512,8> keep the limbs.
//!
//! Values are held as u128 in the spec functions (LIMBS <= 2).  Bounded: nothing but the width list (each harness is
//! complete for its width: all canonical values).
//!
//! NOT covered (measured, cap 150 s / 6 GB per harness):
//!  * rlp (parity) encoder beyond 8 bits: `RlpStream` is built on `BytesMut`; 16 bits > 200 s, 64 bits 10.6 GB;
//!    `rlp::encode` (1024-byte initial buffer) 118 s / 5.7 GB at 8 bits, 25 GB without the two stubs; prim (u64) likewise.
//!  * DER: the der crate's `encode_to_slice` / `to_der` end to end (header + SliceWriter: 110-150 s at 7..60 bits, timeout
//!    above; functions `der_body` / `der_vec` kept, unregistered); `from_der` end to end (> 180 s, c17);
//!    `From<&Uint> for Int / der::Uint / Any` (timeouts; function `der_types` kept, unregistered).
//!  * num-bigint: `BigUint::from(&x)` 108 s / 5.1 GB at 8 bits (too close to the cap; `bigint_to` kept, unregistered),
//!    `TryFrom<&BigUint>` 11 GB at 8 bits even for `BigUint::from(u64)` (`bigint_from`, unregistered).
//!  * serde human-readable: only a BOUNDED stand-in (`c16_serde_human_*`: eight concrete value/width pairs through a recording
//!    human-readable Serializer - the exact text handed to `serialize_str` ("0x0" for zero at any width, minimal 0x-prefixed
//!    lower-case hex otherwise, full-width form for `Bits`) and its `visit_str` round trip; 4-45 s each, 2^64 at 65 bits 226 s);
//!    postgres: only the binary NUMERIC form on four concrete values (`c16_pg_numeric_*`, BOUNDED: exact bytes incl. the weight of
//!    a value whose low base-10000 digits are zero, and the from_sql round trip; 15-25 s each); the other column types are not
//!    attempted; ark-ff (feature not enabled in `codecs`).
//!  * SCALE compact decoding of the big mode with a byte count other than 4, 8, 16 (see c17).
use crate::oracle as o;
use crate::sym::*;
use ruint::Uint;

// ---------------------------------------------------------------- value helpers (LIMBS <= 2)
/// the value of x (LIMBS <= 2)
pub fn val<const B: usize, const L: usize>(x: &Uint<B, L>) -> u128 {
    let mut v = 0u128;
    if L > 0 { v |= x.as_limbs()[0] as u128; }
    if L > 1 { v |= (x.as_limbs()[1] as u128) << 64; }
    v
}
/// limbs of v (LIMBS <= 2)
pub fn limbs_of<const L: usize>(v: u128) -> [u64; L] {
    let mut l = [0u64; L];
    if L > 0 { l[0] = v as u64; }
    if L > 1 { l[1] = (v >> 64) as u64; }
    l
}
/// base-256 digit i of v
pub fn dig(v: u128, i: usize) -> u8 { if i < 16 { (v >> (8 * i)) as u8 } else { 0 } }
/// number of base-256 digits of v without leading zeros (0 for zero)
/// (nb = byte width of the type, v < 256^nb: bounds the loop)
pub fn blen(v: u128, nb: usize) -> usize {
    let mut n = 0;
    let mut i = 0;
    while i < nb { if dig(v, i) != 0 { n = i + 1; } i += 1; }
    n
}
pub const fn nbytes(bits: usize) -> usize { (bits + 7) / 8 }
pub fn canonical<const B: usize, const L: usize>(x: &Uint<B, L>) -> bool {
    L == 0 || x.as_limbs()[L - 1] <= o::mask_of(B)
}
/// got == want[..n]
pub fn bytes_are<const N: usize>(got: &[u8], want: &[u8; N], n: usize) -> bool {
    if got.len() != n || n > N { return false; }
    let mut ok = true;
    let mut i = 0;
    while i < n { if got[i] != want[i] { ok = false; } i += 1; }
    ok
}
/// element-wise slice equality (no memcmp)
pub fn slices_same(a: &[u8], b: &[u8]) -> bool {
    if a.len() != b.len() { return false; }
    let mut ok = true;
    let mut i = 0;
    while i < a.len() { if a[i] != b[i] { ok = false; } i += 1; }
    ok
}
/// Result -> Option without running the error's drop glue (boxed `dyn Error`s, Strings: CBMC would have to consider
/// every type that could hide behind the `dyn`; one dropped `parity_scale_codec::Error` cost 25 s)
pub fn okf<T, E>(r: Result<T, E>) -> Option<T> {
    match r { Ok(v) => Some(v), Err(e) => { core::mem::forget(e); None } }
}
/// replaces `alloc::fmt::format` (error-message construction) in harnesses that can reach an error path
pub fn fmt_stub(_: core::fmt::Arguments<'_>) -> String { String::new() }

/// replaces core's slice rotation, which the `rlp` crate reaches only for strings longer than 55 bytes (impossible at
/// the widths used here): FAILS when reached, so the harnesses also prove it unreachable
pub unsafe fn unreachable_rotate<T>(_left: usize, _mid: *mut T, _right: usize) { panic!("slice rotation reached: RLP string longer than 55 bytes") }

/// replaces `BytesMut`'s growth path: the `rlp` crate's stream starts with 1024 bytes of capacity, which the few
/// bytes written here never exhaust: FAILS when reached (proves it unreachable)
pub fn unreachable_reserve(_b: &mut bytes::BytesMut, _additional: usize, _allocate: bool) -> bool { panic!("BytesMut growth reached") }

pub const W: usize = 40; // size of the spec / output buffers

// ---------------------------------------------------------------- format specs
/// RLP of the integer v: minimal big-endian string
pub fn rlp_spec(v: u128, nb: usize) -> ([u8; W], usize) {
    let mut out = [0u8; W];
    if v == 0 { out[0] = 0x80; return (out, 1); }
    if v < 0x80 { out[0] = v as u8; return (out, 1); }
    let n = blen(v, nb);
    out[0] = 0x80 + n as u8;
    let mut i = 0;
    while i < nb { if i < n { out[1 + i] = dig(v, n - 1 - i); } i += 1; }
    (out, 1 + n)
}
/// the same over limbs (for LIMBS >= 3, at most 39 value bytes)
pub fn rlp_spec_limbs<const L: usize>(a: &[u64; L]) -> ([u8; W], usize) {
    let d = |i: usize| -> u8 { ((a[i / 8] >> (8 * (i % 8))) & 0xff) as u8 };
    let mut out = [0u8; W];
    let mut n = 0;
    let mut i = 0;
    while i < 8 * L { if d(i) != 0 { n = i + 1; } i += 1; }
    if n == 0 { out[0] = 0x80; return (out, 1); }
    if n == 1 && d(0) < 0x80 { out[0] = d(0); return (out, 1); }
    out[0] = 0x80 + n as u8;
    let mut i = 0;
    while i < 8 * L { if i < n { out[1 + i] = d(n - 1 - i); } i += 1; }
    (out, 1 + n)
}
/// SCALE compact of v
pub fn compact_spec(v: u128, nb: usize) -> ([u8; W], usize) {
    let mut out = [0u8; W];
    if v < (1 << 6) {
        out[0] = (v as u8) << 2;
        (out, 1)
    } else if v < (1 << 14) {
        let w = ((v as u16) << 2) | 1;
        out[0] = w as u8; out[1] = (w >> 8) as u8;
        (out, 2)
    } else if v < (1 << 30) {
        let w = ((v as u32) << 2) | 2;
        out[0] = w as u8; out[1] = (w >> 8) as u8; out[2] = (w >> 16) as u8; out[3] = (w >> 24) as u8;
        (out, 4)
    } else {
        let n = blen(v, nb); // >= 4
        out[0] = (((n - 4) as u8) << 2) | 3;
        let mut i = 0;
        while i < nb { if i < n { out[1 + i] = dig(v, i); } i += 1; }
        (out, 1 + n)
    }
}
/// DER INTEGER of v (v < 2^128): tag, short-form length, minimal big-endian two's complement content
pub fn der_spec(v: u128, nb: usize) -> ([u8; W], usize) {
    let mut out = [0u8; W];
    out[0] = 0x02;
    let n = blen(v, nb);
    if n == 0 { out[1] = 1; out[2] = 0; return (out, 3); }
    let pad = if dig(v, n - 1) >= 0x80 { 1 } else { 0 };
    out[1] = (n + pad) as u8;
    // out[2] stays 0 when pad == 1
    let mut i = 0;
    while i < nb { if i < n { out[2 + pad + i] = dig(v, n - 1 - i); } i += 1; }
    (out, 2 + pad + n)
}
/// the nb little-endian bytes of v
pub fn le_spec(v: u128, nb: usize) -> [u8; W] {
    let mut out = [0u8; W];
    let mut i = 0;
    while i < nb { out[i] = dig(v, i); i += 1; }
    out
}
/// the nb big-endian bytes of v
pub fn be_spec(v: u128, nb: usize) -> [u8; W] {
    let mut out = [0u8; W];
    let mut i = 0;
    while i < nb { out[i] = dig(v, nb - 1 - i); i += 1; }
    out
}

// ---------------------------------------------------------------- alloy-rlp / fastrlp 0.3 / fastrlp 0.4
macro_rules! rlp_family {
    ($body:ident, $body_limbs:ident, $prim64:ident, $prim128:ident, $krate:ident) => {
        fn $body<const B: usize, const L: usize>() {
            use $krate::{Decodable, Encodable, MaxEncodedLenAssoc};
            let x = uint::<B, L>();
            let (want, wn) = rlp_spec(val(&x), nbytes(B));
            let mut buf = [0u8; W];
            let mut s: &mut [u8] = &mut buf[..];
            x.encode(&mut s);
            let n = W - s.len();
            assert!(bytes_are(&buf[..n], &want, wn), "rlp: encode gives the minimal big-endian string");
            assert!(x.length() == n, "rlp: length() == bytes produced");
            assert!(<Uint<B, L> as MaxEncodedLenAssoc>::LEN >= n, "rlp: MaxEncodedLenAssoc::LEN bounds the length");
            let mut r: &[u8] = &buf[..n];
            match okf(<Uint<B, L> as Decodable>::decode(&mut r)) {
                Some(y) => assert!(ueq(x, y) && r.len() == 0, "rlp: round trip consumes everything and returns x"),
                None => assert!(false, "rlp: round trip decodes"),
            }
        }
        fn $body_limbs<const B: usize, const L: usize>() {
            use $krate::{Decodable, Encodable, MaxEncodedLenAssoc};
            let x = uint::<B, L>();
            let (want, wn) = rlp_spec_limbs(x.as_limbs());
            let mut buf = [0u8; W];
            let mut s: &mut [u8] = &mut buf[..];
            x.encode(&mut s);
            let n = W - s.len();
            assert!(bytes_are(&buf[..n], &want, wn), "rlp: encode gives the minimal big-endian string");
            assert!(x.length() == n, "rlp: length() == bytes produced");
            assert!(<Uint<B, L> as MaxEncodedLenAssoc>::LEN >= n, "rlp: MaxEncodedLenAssoc::LEN bounds the length");
            let mut r: &[u8] = &buf[..n];
            match okf(<Uint<B, L> as Decodable>::decode(&mut r)) {
                Some(y) => assert!(ueq(x, y) && r.len() == 0, "rlp: round trip consumes everything and returns x"),
                None => assert!(false, "rlp: round trip decodes"),
            }
        }
        fn $prim64() {
            use $krate::Encodable;
            let x = uint::<64, 1>();
            let p: u64 = x.as_limbs()[0];
            let (mut b1, mut b2) = ([0u8; W], [0u8; W]);
            let mut s1: &mut [u8] = &mut b1[..];
            x.encode(&mut s1);
            let n1 = W - s1.len();
            let mut s2: &mut [u8] = &mut b2[..];
            p.encode(&mut s2);
            let n2 = W - s2.len();
            assert!(bytes_are(&b1[..n1], &b2, n2), "rlp: same bytes as the crate's u64");
            assert!(x.length() == p.length(), "rlp: same length() as the crate's u64");
        }
        fn $prim128() {
            use $krate::Encodable;
            let x = uint::<128, 2>();
            let p: u128 = val(&x);
            let (mut b1, mut b2) = ([0u8; W], [0u8; W]);
            let mut s1: &mut [u8] = &mut b1[..];
            x.encode(&mut s1);
            let n1 = W - s1.len();
            let mut s2: &mut [u8] = &mut b2[..];
            p.encode(&mut s2);
            let n2 = W - s2.len();
            assert!(bytes_are(&b1[..n1], &b2, n2), "rlp: same bytes as the crate's u128");
            assert!(x.length() == p.length(), "rlp: same length() as the crate's u128");
        }
    };
}

/// the 55/56-byte boundary between RLP's short and long string headers, on CONCRETE values 2^k at 512 bits
/// (k = 439: 55 payload bytes, header 0xb7; k = 440: 56 bytes, header 0xb8 0x38; k = 511: 64 bytes, header 0xb8 0x40)
macro_rules! rlp_long_family {
    ($body:ident, $krate:ident) => {
        fn $body() {
            use $krate::{Decodable, Encodable};
            let ks = [439usize, 440, 447, 448, 511];
            let mut i = 0;
            while i < ks.len() {
                let k = ks[i];
                let mut limbs = [0u64; 8];
                limbs[k / 64] = 1u64 << (k % 64);
                let x = Uint::<512, 8>::from_limbs(limbs);
                let n = k / 8 + 1;                       // payload bytes
                let mut want = [0u8; 80];
                let hdr = if n <= 55 { want[0] = 0x80 + n as u8; 1 } else { want[0] = 0xb8; want[1] = n as u8; 2 };
                want[hdr] = 1u8 << (k % 8);
                let total = hdr + n;
                let mut buf = [0u8; 80];
                let mut s: &mut [u8] = &mut buf[..];
                x.encode(&mut s);
                let got = 80 - s.len();
                assert!(got == total, "rlp long header: number of bytes produced");
                let mut j = 0;
                while j < 80 { assert!(buf[j] == want[j], "rlp long header: bytes equal the reference"); j += 1; }
                assert!(x.length() == total, "rlp long header: length() == bytes produced");
                let mut r: &[u8] = &buf[..got];
                match okf(<Uint<512, 8> as Decodable>::decode(&mut r)) {
                    Some(y) => assert!(ueq(x, y) && r.len() == 0, "rlp long header: round trip"),
                    None => assert!(false, "rlp long header: round trip decodes"),
                }
                i += 1;
            }
        }
    };
}
rlp_long_family!(alloy_long, alloy_rlp);
rlp_long_family!(frlp3_long, fastrlp_03);
rlp_long_family!(frlp4_long, fastrlp_04);
rlp_family!(alloy, alloy_limbs, alloy_prim64, alloy_prim128, alloy_rlp);
rlp_family!(frlp3, frlp3_limbs, frlp3_prim64, frlp3_prim128, fastrlp_03);
rlp_family!(frlp4, frlp4_limbs, frlp4_prim64, frlp4_prim128, fastrlp_04);

// ---------------------------------------------------------------- rlp (parity)
fn rlp_enc<const B: usize, const L: usize>() {
    let x = uint::<B, L>();
    let (want, wn) = rlp_spec(val(&x), nbytes(B));
    let e = rlp::encode(&x);
    assert!(bytes_are(&e[..], &want, wn), "rlp crate: rlp::encode gives the minimal big-endian string");
    core::mem::forget(e);
}
fn rlp_stream<const B: usize, const L: usize>() {
    let x = uint::<B, L>();
    let (want, wn) = rlp_spec(val(&x), nbytes(B));
    // a small initial buffer instead of RlpStream::new()'s 1024 bytes (every write into a 1024-byte symbolic-offset
    // buffer costs CBMC ~5 GB); growth is stubbed to fail, so 32 bytes are proved sufficient
    let mut s = rlp::RlpStream::new_with_buffer(bytes::BytesMut::with_capacity(32));
    s.append(&x);
    assert!(s.len() == wn, "rlp crate: stream length == reference length");
    let e = s.out();
    assert!(bytes_are(&e[..], &want, wn), "rlp crate: RlpStream::append gives the minimal big-endian string");
    core::mem::forget(e);
}
/// the decoding half of the round trip, on the reference bytes (== the encoder's bytes by `rlp_enc`)
fn rlp_dec<const B: usize, const L: usize>() {
    let x = uint::<B, L>();
    let (want, wn) = rlp_spec(val(&x), nbytes(B));
    match okf(rlp::decode::<Uint<B, L>>(&want[..wn])) {
        Some(y) => assert!(ueq(x, y), "rlp crate: decode(reference bytes of x) == x"),
        None => assert!(false, "rlp crate: the reference bytes decode"),
    }
    match okf(rlp::Rlp::new(&want[..wn]).as_val::<Uint<B, L>>()) {
        Some(y) => assert!(ueq(x, y), "rlp crate: as_val(reference bytes of x) == x"),
        None => assert!(false, "rlp crate: the reference bytes decode (as_val)"),
    }
}
fn rlp_prim64() {
    let x = uint::<64, 1>();
    let p: u64 = x.as_limbs()[0];
    let (e1, e2) = (rlp::encode(&x), rlp::encode(&p));
    assert!(slices_same(&e1[..], &e2[..]), "rlp crate: same bytes as the crate's u64");
    core::mem::forget(e1);
    core::mem::forget(e2);
}

// ---------------------------------------------------------------- SCALE
fn scale_fixed<const B: usize, const L: usize>() {
    use parity_scale_codec::{Decode, Encode, MaxEncodedLen};
    let x = uint::<B, L>();
    let nb = nbytes(B);
    let e = Encode::encode(&x);
    // reference: compact length prefix of a byte string of BYTES < 64 bytes is the single byte BYTES << 2
    let le = le_spec(val(&x), nb);
    assert!(e.len() == 1 + nb, "scale fixed: length == compact_len(BYTES) + BYTES");
    assert!(e[0] == (nb as u8) << 2, "scale fixed: length prefix");
    assert!(bytes_are(&e[1..], &le, nb), "scale fixed: BYTES little-endian bytes");
    assert!(Encode::size_hint(&x) >= e.len(), "scale fixed: size_hint() >= bytes produced");
    assert!(Encode::encoded_size(&x) == e.len(), "scale fixed: encoded_size() == bytes produced");
    assert!(<Uint<B, L> as MaxEncodedLen>::max_encoded_len() >= e.len(), "scale fixed: max_encoded_len() >= bytes produced");
    let mut r: &[u8] = &e[..];
    match okf(<Uint<B, L> as Decode>::decode(&mut r)) {
        Some(y) => assert!(ueq(x, y) && r.len() == 0, "scale fixed: round trip"),
        None => assert!(false, "scale fixed: round trip decodes"),
    }
}
/// KNOWN FINDING (expected to fail): the fixed encoding is a length-prefixed byte string, not the integer encoding
fn scale_fixed_equals_primitive() {
    use parity_scale_codec::Encode;
    let x = uint::<64, 1>();
    let p: u64 = x.as_limbs()[0];
    let (e1, e2) = (Encode::encode(&x), Encode::encode(&p));
    assert!(slices_same(&e1[..], &e2[..]), "SCALE fixed encoding of U64 equals parity-scale-codec's u64 encoding");
}
fn scale_compact<const B: usize, const L: usize>() {
    use parity_scale_codec::Encode;
    use ruint::support::scale::CompactRefUint;
    let x = uint::<B, L>();
    let (want, wn) = compact_spec(val(&x), nbytes(B));
    let c = CompactRefUint(&x);
    let hint = Encode::size_hint(&c);
    assert!(hint == wn, "scale compact: size_hint() == reference length (and does not panic)");
    let e = Encode::encode(&c);
    assert!(bytes_are(&e[..], &want, wn), "scale compact: the four modes");
    assert!(hint == e.len(), "scale compact: size_hint() == bytes produced");
}
/// A `parity_scale_codec::Input` over a byte string whose FIRST byte is held in a separate field, so that a harness can
/// make it a concrete constant for CBMC while all other bytes stay symbolic (see `scale_compact_dec`).
pub struct SplitInput<'a> { pub first: u8, pub has_first: bool, pub rest: &'a [u8] }
impl<'a> SplitInput<'a> {
    /// the input `[first] ++ rest`
    pub fn new(first: u8, rest: &'a [u8]) -> Self { Self { first, has_first: true, rest } }
    pub fn left(&self) -> usize { self.rest.len() + self.has_first as usize }
}
impl parity_scale_codec::Input for SplitInput<'_> {
    fn remaining_len(&mut self) -> Result<Option<usize>, parity_scale_codec::Error> { Ok(Some(self.left())) }
    fn read(&mut self, into: &mut [u8]) -> Result<(), parity_scale_codec::Error> {
        if into.len() > self.left() { return Err("Not enough data to fill buffer".into()); }
        let mut i = 0;
        if self.has_first && into.len() > 0 { into[0] = self.first; self.has_first = false; i = 1; }
        let k = into.len() - i;
        let mut j = 0;
        while j < k { into[i + j] = self.rest[j]; j += 1; }
        self.rest = &self.rest[k..];
        Ok(())
    }
    fn read_byte(&mut self) -> Result<u8, parity_scale_codec::Error> {
        if self.has_first { self.has_first = false; return Ok(self.first); }
        if self.rest.len() == 0 { return Err("Not enough data to fill buffer".into()); }
        let b = self.rest[0];
        self.rest = &self.rest[1..];
        Ok(b)
    }
}
/// copy of a byte slice into a fixed buffer (used inside `using_encoded`, which avoids the codec crate's Vec path)
fn grab(b: &[u8]) -> ([u8; W], usize) {
    let mut out = [0u8; W];
    let mut i = 0;
    while i < b.len() && i < W { out[i] = b[i]; i += 1; }
    (out, b.len())
}
fn scale_compact_prim64() {
    use parity_scale_codec::{Compact, Encode};
    let x = uint::<64, 1>();
    let p: u64 = x.as_limbs()[0];
    let e1 = Encode::encode(&ruint::support::scale::CompactRefUint(&x));
    let (e2, n2) = Compact(p).using_encoded(grab);
    assert!(bytes_are(&e1[..], &e2, n2), "scale compact: same bytes as Compact(u64)");
}
fn scale_compact_prim128() {
    use parity_scale_codec::{Compact, Encode};
    let x = uint::<128, 2>();
    let p: u128 = val(&x);
    let e1 = Encode::encode(&ruint::support::scale::CompactRefUint(&x));
    let (e2, n2) = Compact(p).using_encoded(grab);
    assert!(bytes_are(&e1[..], &e2, n2), "scale compact: same bytes as Compact(u128)");
}

// ---------------------------------------------------------------- SSZ
fn ssz_body<const B: usize, const L: usize>() {
    let x = uint::<B, L>();
    let nb = nbytes(B);
    let le = le_spec(val(&x), nb);
    let e = ssz::Encode::as_ssz_bytes(&x);
    assert!(bytes_are(&e[..], &le, nb), "ssz: BYTES little-endian bytes");
    assert!(ssz::Encode::ssz_bytes_len(&x) == nb, "ssz: ssz_bytes_len() == BYTES");
    assert!(<Uint<B, L> as ssz::Encode>::ssz_fixed_len() == nb, "ssz: Encode::ssz_fixed_len() == BYTES");
    assert!(<Uint<B, L> as ssz::Decode>::ssz_fixed_len() == nb, "ssz: Decode::ssz_fixed_len() == BYTES");
    assert!(<Uint<B, L> as ssz::Encode>::is_ssz_fixed_len() && <Uint<B, L> as ssz::Decode>::is_ssz_fixed_len(), "ssz: fixed length type");
    assert!(nb == Uint::<B, L>::BYTES, "BYTES");
    match okf(<Uint<B, L> as ssz::Decode>::from_ssz_bytes(&e[..])) {
        Some(y) => assert!(ueq(x, y), "ssz: round trip"),
        None => assert!(false, "ssz: round trip decodes"),
    }
}
fn ssz_prim64() {
    let x = uint::<64, 1>();
    let p: u64 = x.as_limbs()[0];
    let (e1, e2) = (ssz::Encode::as_ssz_bytes(&x), ssz::Encode::as_ssz_bytes(&p));
    assert!(slices_same(&e1[..], &e2[..]), "ssz: same bytes as u64");
}

// ---------------------------------------------------------------- borsh
fn borsh_body<const B: usize, const L: usize>() {
    use borsh::{BorshDeserialize, BorshSerialize};
    let x = uint::<B, L>();
    let nb = nbytes(B);
    let le = le_spec(val(&x), nb);
    let mut buf = [0u8; W];
    let mut s: &mut [u8] = &mut buf[..];
    assert!(x.serialize(&mut s).is_ok(), "borsh: serialize succeeds");
    let n = W - s.len();
    assert!(bytes_are(&buf[..n], &le, nb), "borsh: BYTES little-endian bytes");
    match okf(borsh::object_length(&x)) {
        Some(l) => assert!(l == nb, "borsh: object_length == BYTES"),
        None => assert!(false, "borsh: object_length succeeds"),
    }
    match okf(Uint::<B, L>::try_from_slice(&buf[..n])) {
        Some(y) => assert!(ueq(x, y), "borsh: round trip"),
        None => assert!(false, "borsh: round trip decodes"),
    }
}
fn borsh_vec<const B: usize, const L: usize>() {
    let x = uint::<B, L>();
    let nb = nbytes(B);
    let le = le_spec(val(&x), nb);
    match okf(borsh::to_vec(&x)) {
        Some(e) => assert!(bytes_are(&e[..], &le, nb), "borsh: to_vec gives BYTES little-endian bytes"),
        None => assert!(false, "borsh: to_vec succeeds"),
    }
}
fn borsh_prim64() {
    use borsh::BorshSerialize;
    let x = uint::<64, 1>();
    let p: u64 = x.as_limbs()[0];
    let (mut b1, mut b2) = ([0u8; W], [0u8; W]);
    let mut s1: &mut [u8] = &mut b1[..];
    assert!(x.serialize(&mut s1).is_ok());
    let n1 = W - s1.len();
    let mut s2: &mut [u8] = &mut b2[..];
    assert!(p.serialize(&mut s2).is_ok());
    let n2 = W - s2.len();
    assert!(bytes_are(&b1[..n1], &b2, n2), "borsh: same bytes as u64");
}
fn borsh_prim128() {
    use borsh::BorshSerialize;
    let x = uint::<128, 2>();
    let p: u128 = val(&x);
    let (mut b1, mut b2) = ([0u8; W], [0u8; W]);
    let mut s1: &mut [u8] = &mut b1[..];
    assert!(x.serialize(&mut s1).is_ok());
    let n1 = W - s1.len();
    let mut s2: &mut [u8] = &mut b2[..];
    assert!(p.serialize(&mut s2).is_ok());
    let n2 = W - s2.len();
    assert!(bytes_are(&b1[..n1], &b2, n2), "borsh: same bytes as u128");
}

// ---------------------------------------------------------------- DER
fn der_body<const B: usize, const L: usize>() {
    use der::Encode;
    let x = uint::<B, L>();
    let (want, wn) = der_spec(val(&x), nbytes(B));
    let mut buf = [0u8; W];
    match okf(x.encode_to_slice(&mut buf)) {
        Some(e) => assert!(bytes_are(e, &want, wn), "der: canonical INTEGER"),
        None => assert!(false, "der: encode_to_slice succeeds"),
    }
}
fn der_len<const B: usize, const L: usize>() {
    use der::{Encode, EncodeValue};
    let x = uint::<B, L>();
    let (_, wn) = der_spec(val(&x), nbytes(B));
    match okf(x.encoded_len()) {
        Some(l) => assert!(u32::from(l) as usize == wn, "der: encoded_len() == reference length (== bytes produced)"),
        None => assert!(false, "der: encoded_len succeeds"),
    }
    match okf(x.value_len()) {
        Some(l) => assert!(u32::from(l) as usize == wn - 2, "der: value_len() == reference content length"),
        None => assert!(false, "der: value_len succeeds"),
    }
}
/// The decoding half of the round trip, on the reference bytes (== the encoder's bytes by `der_body`): ruint's
/// `DecodeValue::decode_value` on the reference content with the reference header.  (The complete `from_der`, i.e.
/// the der crate's tag/length parsing in front of it, costs CBMC 180 s of symbolic execution at 8 bits: see c17.)
fn der_dec<const B: usize, const L: usize>() {
    use der::{DecodeValue, Header, SliceReader, Tag};
    let x = uint::<B, L>();
    let (want, wn) = der_spec(val(&x), nbytes(B));
    assert!(want[0] == 0x02 && want[1] as usize == wn - 2, "reference header: INTEGER, short-form length");
    match (okf(SliceReader::new(&want[2..wn])), okf(Header::new(Tag::Integer, wn - 2))) {
        (Some(mut rd), Some(hd)) => match okf(<Uint<B, L> as DecodeValue>::decode_value(&mut rd, hd)) {
            Some(y) => assert!(ueq(x, y), "der: decode_value(reference content of x) == x"),
            None => assert!(false, "der: the reference content decodes"),
        },
        _ => assert!(false, "der: reader and header construct"),
    }
}
/// a `der::Writer` recording into a fixed buffer (the der crate's `SliceWriter` + header encoding cost CBMC > 100 s)
pub struct RecWriter { pub buf: [u8; W], pub n: usize }
impl der::Writer for RecWriter {
    fn write(&mut self, slice: &[u8]) -> der::Result<()> {
        if self.n + slice.len() > W { return Err(der::ErrorKind::Overlength.into()); }
        let mut i = 0;
        while i < slice.len() { self.buf[self.n + i] = slice[i]; i += 1; }
        self.n += slice.len();
        Ok(())
    }
}
/// ruint's `EncodeValue::encode_value` writes the reference content (through `RecWriter`), and `FixedTag::TAG` is INTEGER:
/// together with `der_len` (value_len) this determines the der crate's TLV output, checked end to end in `der_body`
fn der_value<const B: usize, const L: usize>() {
    use der::{EncodeValue, FixedTag};
    let x = uint::<B, L>();
    let (want, wn) = der_spec(val(&x), nbytes(B));
    let mut w = RecWriter { buf: [0u8; W], n: 0 };
    assert!(okf(x.encode_value(&mut w)).is_some(), "der: encode_value succeeds");
    assert!(w.n + 2 == wn, "der: content length");
    let mut i = 0;
    while i < nbytes(B) + 1 { if i < w.n { assert!(w.buf[i] == want[2 + i], "der: content is the minimal two's complement"); } i += 1; }
    assert!(<Uint<B, L> as FixedTag>::TAG == der::Tag::Integer, "der: tag INTEGER");
}
fn der_prim64() {
    use der::EncodeValue;
    let x = uint::<64, 1>();
    let p: u64 = x.as_limbs()[0];
    let (mut w1, mut w2) = (RecWriter { buf: [0u8; W], n: 0 }, RecWriter { buf: [0u8; W], n: 0 });
    assert!(okf(x.encode_value(&mut w1)).is_some() && okf(p.encode_value(&mut w2)).is_some(), "der: both encodings succeed");
    assert!(bytes_are(&w1.buf[..w1.n], &w2.buf, w2.n), "der: same content bytes as u64");
    match (okf(x.value_len()), okf(p.value_len())) {
        (Some(a), Some(b)) => assert!(u32::from(a) == u32::from(b), "der: same value_len as u64"),
        _ => assert!(false, "der: value_len succeeds"),
    }
}
fn der_prim128() {
    use der::EncodeValue;
    let x = uint::<128, 2>();
    let p: u128 = val(&x);
    let (mut w1, mut w2) = (RecWriter { buf: [0u8; W], n: 0 }, RecWriter { buf: [0u8; W], n: 0 });
    assert!(okf(x.encode_value(&mut w1)).is_some() && okf(p.encode_value(&mut w2)).is_some(), "der: both encodings succeed");
    assert!(bytes_are(&w1.buf[..w1.n], &w2.buf, w2.n), "der: same content bytes as u128");
    match (okf(x.value_len()), okf(p.value_len())) {
        (Some(a), Some(b)) => assert!(u32::from(a) == u32::from(b), "der: same value_len as u128"),
        _ => assert!(false, "der: value_len succeeds"),
    }
}

// ---------------------------------------------------------------- serde (binary)
pub mod mock {
    //! minimal non-human-readable serde back ends: the serializer records the argument of `serialize_bytes`,
    //! the deserializer hands a byte slice to `visit_bytes`; everything else is an error.
    use super::W;
    use serde::{de, ser};
    #[derive(Debug)]
    pub struct E;
    impl core::fmt::Display for E {
        fn fmt(&self, _: &mut core::fmt::Formatter<'_>) -> core::fmt::Result { Ok(()) }
    }
    impl std::error::Error for E {}
    impl ser::Error for E { fn custom<T: core::fmt::Display>(_: T) -> Self { E } }
    impl de::Error for E { fn custom<T: core::fmt::Display>(_: T) -> Self { E } }

    pub struct Rec;
    type Imp = ser::Impossible<([u8; W], usize), E>;
    macro_rules! refuse { ($($f:ident: $t:ty),*) => { $( fn $f(self, _: $t) -> Result<Self::Ok, E> { Err(E) } )* }; }
    impl ser::Serializer for Rec {
        type Ok = ([u8; W], usize);
        type Error = E;
        type SerializeSeq = Imp;
        type SerializeTuple = Imp;
        type SerializeTupleStruct = Imp;
        type SerializeTupleVariant = Imp;
        type SerializeMap = Imp;
        type SerializeStruct = Imp;
        type SerializeStructVariant = Imp;
        fn is_human_readable(&self) -> bool { false }
        fn serialize_bytes(self, v: &[u8]) -> Result<Self::Ok, E> {
            if v.len() > W { return Err(E); }
            let mut out = [0u8; W];
            let mut i = 0;
            while i < v.len() { out[i] = v[i]; i += 1; }
            Ok((out, v.len()))
        }
        refuse!(serialize_bool: bool, serialize_i8: i8, serialize_i16: i16, serialize_i32: i32, serialize_i64: i64,
                serialize_u8: u8, serialize_u16: u16, serialize_u32: u32, serialize_u64: u64, serialize_f32: f32,
                serialize_f64: f64, serialize_char: char, serialize_str: &str, serialize_unit_struct: &'static str);
        fn serialize_none(self) -> Result<Self::Ok, E> { Err(E) }
        fn serialize_some<T: ?Sized + ser::Serialize>(self, _: &T) -> Result<Self::Ok, E> { Err(E) }
        fn serialize_unit(self) -> Result<Self::Ok, E> { Err(E) }
        fn serialize_unit_variant(self, _: &'static str, _: u32, _: &'static str) -> Result<Self::Ok, E> { Err(E) }
        fn serialize_newtype_struct<T: ?Sized + ser::Serialize>(self, _: &'static str, _: &T) -> Result<Self::Ok, E> { Err(E) }
        fn serialize_newtype_variant<T: ?Sized + ser::Serialize>(self, _: &'static str, _: u32, _: &'static str, _: &T) -> Result<Self::Ok, E> { Err(E) }
        fn serialize_seq(self, _: Option<usize>) -> Result<Imp, E> { Err(E) }
        fn serialize_tuple(self, _: usize) -> Result<Imp, E> { Err(E) }
        fn serialize_tuple_struct(self, _: &'static str, _: usize) -> Result<Imp, E> { Err(E) }
        fn serialize_tuple_variant(self, _: &'static str, _: u32, _: &'static str, _: usize) -> Result<Imp, E> { Err(E) }
        fn serialize_map(self, _: Option<usize>) -> Result<Imp, E> { Err(E) }
        fn serialize_struct(self, _: &'static str, _: usize) -> Result<Imp, E> { Err(E) }
        fn serialize_struct_variant(self, _: &'static str, _: u32, _: &'static str, _: usize) -> Result<Imp, E> { Err(E) }
        fn collect_str<T: ?Sized + core::fmt::Display>(self, _: &T) -> Result<Self::Ok, E> { Err(E) }
    }

    pub struct Bytes<'a>(pub &'a [u8]);
    impl<'de, 'a> de::Deserializer<'de> for Bytes<'a> {
        type Error = E;
        fn is_human_readable(&self) -> bool { false }
        fn deserialize_any<V: de::Visitor<'de>>(self, _: V) -> Result<V::Value, E> { Err(E) }
        fn deserialize_bytes<V: de::Visitor<'de>>(self, v: V) -> Result<V::Value, E> { v.visit_bytes(self.0) }
        serde::forward_to_deserialize_any! {
            bool i8 i16 i32 i64 i128 u8 u16 u32 u64 u128 f32 f64 char str string byte_buf option unit unit_struct
            newtype_struct seq tuple tuple_struct map struct enum identifier ignored_any
        }
    }
    // human-readable back ends: the serializer records the argument of `serialize_str`, the deserializer hands a str to `visit_str`
    pub struct RecStr;
    impl ser::Serializer for RecStr {
        type Ok = ([u8; W], usize);
        type Error = E;
        type SerializeSeq = Imp;
        type SerializeTuple = Imp;
        type SerializeTupleStruct = Imp;
        type SerializeTupleVariant = Imp;
        type SerializeMap = Imp;
        type SerializeStruct = Imp;
        type SerializeStructVariant = Imp;
        fn is_human_readable(&self) -> bool { true }
        fn serialize_str(self, v: &str) -> Result<Self::Ok, E> {
            let v = v.as_bytes();
            if v.len() > W { return Err(E); }
            let mut out = [0u8; W];
            let mut i = 0;
            while i < v.len() { out[i] = v[i]; i += 1; }
            Ok((out, v.len()))
        }
        refuse!(serialize_bool: bool, serialize_i8: i8, serialize_i16: i16, serialize_i32: i32, serialize_i64: i64,
                serialize_u8: u8, serialize_u16: u16, serialize_u32: u32, serialize_u64: u64, serialize_f32: f32,
                serialize_f64: f64, serialize_char: char, serialize_bytes: &[u8], serialize_unit_struct: &'static str);
        fn serialize_none(self) -> Result<Self::Ok, E> { Err(E) }
        fn serialize_some<T: ?Sized + ser::Serialize>(self, _: &T) -> Result<Self::Ok, E> { Err(E) }
        fn serialize_unit(self) -> Result<Self::Ok, E> { Err(E) }
        fn serialize_unit_variant(self, _: &'static str, _: u32, _: &'static str) -> Result<Self::Ok, E> { Err(E) }
        fn serialize_newtype_struct<T: ?Sized + ser::Serialize>(self, _: &'static str, _: &T) -> Result<Self::Ok, E> { Err(E) }
        fn serialize_newtype_variant<T: ?Sized + ser::Serialize>(self, _: &'static str, _: u32, _: &'static str, _: &T) -> Result<Self::Ok, E> { Err(E) }
        fn serialize_seq(self, _: Option<usize>) -> Result<Imp, E> { Err(E) }
        fn serialize_tuple(self, _: usize) -> Result<Imp, E> { Err(E) }
        fn serialize_tuple_struct(self, _: &'static str, _: usize) -> Result<Imp, E> { Err(E) }
        fn serialize_tuple_variant(self, _: &'static str, _: u32, _: &'static str, _: usize) -> Result<Imp, E> { Err(E) }
        fn serialize_map(self, _: Option<usize>) -> Result<Imp, E> { Err(E) }
        fn serialize_struct(self, _: &'static str, _: usize) -> Result<Imp, E> { Err(E) }
        fn serialize_struct_variant(self, _: &'static str, _: u32, _: &'static str, _: usize) -> Result<Imp, E> { Err(E) }
        fn collect_str<T: ?Sized + core::fmt::Display>(self, _: &T) -> Result<Self::Ok, E> { Err(E) }
    }
    pub struct Str<'a>(pub &'a str);
    impl<'de, 'a> de::Deserializer<'de> for Str<'a> {
        type Error = E;
        fn is_human_readable(&self) -> bool { true }
        fn deserialize_any<V: de::Visitor<'de>>(self, v: V) -> Result<V::Value, E> { v.visit_str(self.0) }
        serde::forward_to_deserialize_any! {
            bool i8 i16 i32 i64 i128 u8 u16 u32 u64 u128 f32 f64 char str string bytes byte_buf option unit unit_struct
            newtype_struct seq tuple tuple_struct map struct enum identifier ignored_any
        }
    }
}
fn serde_bin<const B: usize, const L: usize>() {
    use serde::{Deserialize, Serialize};
    let x = uint::<B, L>();
    let nb = nbytes(B);
    let be = be_spec(val(&x), nb);
    match x.serialize(mock::Rec) {
        Ok((got, n)) => {
            assert!(bytes_are(&got[..n], &be, nb), "serde binary: serialize_bytes receives BYTES big-endian bytes");
            match okf(Uint::<B, L>::deserialize(mock::Bytes(&got[..n]))) {
                Some(y) => assert!(ueq(x, y), "serde binary: round trip"),
                None => assert!(false, "serde binary: round trip decodes"),
            }
        }
        Err(_) => assert!(false, "serde binary: calls serialize_bytes and nothing else"),
    }
}

/// serde human-readable form on ONE CONCRETE value (bounded stand-in: `format!("{self:#x}")` with a symbolic value does not
/// finish): the text handed to `serialize_str` is exactly `want` (the 0x-prefixed minimal hex quantity, "0x0" for zero)
/// and `visit_str` of that text returns the value.
fn serde_human<const B: usize, const L: usize>(v: u128, want: &str) {
    use serde::{Deserialize, Serialize};
    let mut limbs = [0u64; L];
    if L > 0 { limbs[0] = v as u64; }
    if L > 1 { limbs[1] = (v >> 64) as u64; }
    let x = Uint::<B, L>::from_limbs(limbs);
    match x.serialize(mock::RecStr) {
        Ok((got, n)) => {
            let w = want.as_bytes();
            assert!(n == w.len(), "serde human-readable: length of the minimal 0x-prefixed hex quantity");
            let mut i = 0;
            while i < w.len() { assert!(got[i] == w[i], "serde human-readable: characters of the minimal 0x-prefixed hex quantity"); i += 1; }
            match okf(Uint::<B, L>::deserialize(mock::Str(want))) {
                Some(y) => assert!(ueq(x, y), "serde human-readable: round trip"),
                None => assert!(false, "serde human-readable: round trip decodes"),
            }
        }
        Err(_) => assert!(false, "serde human-readable: calls serialize_str and nothing else"),
    }
}
/// `Bits` uses the full-width form: "0x" followed by exactly 2*BYTES lower-case hex digits
fn serde_human_bits<const B: usize, const L: usize>(v: u128, want: &str) {
    use serde::Serialize;
    let mut limbs = [0u64; L];
    if L > 0 { limbs[0] = v as u64; }
    if L > 1 { limbs[1] = (v >> 64) as u64; }
    let x = ruint::Bits::<B, L>::from(Uint::<B, L>::from_limbs(limbs));
    match x.serialize(mock::RecStr) {
        Ok((got, n)) => {
            let w = want.as_bytes();
            assert!(n == w.len(), "serde human-readable (Bits): length 2 + 2*BYTES");
            let mut i = 0;
            while i < w.len() { assert!(got[i] == w[i], "serde human-readable (Bits): characters"); i += 1; }
        }
        Err(_) => assert!(false, "serde human-readable (Bits): calls serialize_str and nothing else"),
    }
}

// ---------------------------------------------------------------- postgres (bounded: concrete values)
/// postgres binary NUMERIC on ONE CONCRETE value: `to_sql` produces exactly `want` (ndigits, weight, sign, dscale, base-10000
/// digits with trailing zero digits removed - PostgreSQL's own numeric_send layout) and `from_sql` of those bytes returns the value.
fn pg_numeric<const B: usize, const L: usize>(v: u64, want: &[u8]) {
    use postgres_types::{FromSql, ToSql, Type};
    let mut limbs = [0u64; L];
    if L > 0 { limbs[0] = v; }
    let x = Uint::<B, L>::from_limbs(limbs);
    let mut out = bytes::BytesMut::new();
    let r = x.to_sql(&Type::NUMERIC, &mut out);
    assert!(r.is_ok(), "postgres NUMERIC: to_sql succeeds");
    assert!(out.len() == want.len(), "postgres NUMERIC: number of bytes (8-byte header + 2 per significant base-10000 digit)");
    let mut i = 0;
    while i < want.len() { assert!(out[i] == want[i], "postgres NUMERIC: header (ndigits, weight, sign, dscale) and digits"); i += 1; }
    match Uint::<B, L>::from_sql(&Type::NUMERIC, &out[..]) {
        Ok(y) => assert!(ueq(x, y), "postgres NUMERIC: round trip"),
        Err(_) => assert!(false, "postgres NUMERIC: round trip decodes"),
    }
}

// ---------------------------------------------------------------- bytemuck
fn bytemuck_body<const B: usize, const L: usize>() where Uint<B, L>: bytemuck::Pod {
    let x = uint::<B, L>();
    let b = bytemuck::bytes_of(&x);
    assert!(b.len() == 8 * L, "bytemuck: bytes_of has size_of::<Uint>() bytes");
    let mut i = 0;
    while i < 8 * L {
        assert!(b[i] == ((x.as_limbs()[i / 8] >> (8 * (i % 8))) & 0xff) as u8, "bytemuck: little-endian limb bytes");
        i += 1;
    }
    let y: Uint<B, L> = bytemuck::pod_read_unaligned(b);
    assert!(ueq(x, y), "bytemuck: pod_read_unaligned(bytes_of(x)) == x");
    let z: Uint<B, L> = bytemuck::Zeroable::zeroed();
    assert!(o::is_zero(z.as_limbs()), "bytemuck: zeroed() is zero");
}
fn bytemuck_zeroed<const B: usize, const L: usize>() {
    let z: Uint<B, L> = bytemuck::Zeroable::zeroed();
    assert!(o::is_zero(z.as_limbs()), "bytemuck: zeroed() is zero");
}

// ---------------------------------------------------------------- primitive-types
macro_rules! ptypes {
    ($f:ident, $theirs:ident, $b:expr, $l:expr) => {
        fn $f() {
            let x = uint::<$b, $l>();
            let t: primitive_types::$theirs = x.into();
            assert!(o::same(&t.0, x.as_limbs()), "primitive-types: Uint -> theirs keeps the limbs");
            let raw: [u64; $l] = any();
            let y: Uint<$b, $l> = primitive_types::$theirs(raw).into();
            assert!(o::same(y.as_limbs(), &raw), "primitive-types: theirs -> Uint keeps the limbs");
        }
    };
}
ptypes!(ptypes_u128, U128, 128, 2);
ptypes!(ptypes_u256, U256, 256, 4);
ptypes!(ptypes_u512, U512, 512, 8);

// ---------------------------------------------------------------- num-bigint
/// Uint -> BigUint: the digits of the result are the limbs of x without the leading zero limbs
fn bigint_to<const B: usize, const L: usize>() {
    use num_bigint::BigUint;
    let x = uint::<B, L>();
    let big = BigUint::from(&x);
    let d = big.to_u64_digits();
    let mut n = 0;
    let mut i = 0;
    while i < L { if x.as_limbs()[i] != 0 { n = i + 1; } i += 1; }
    assert!(d.len() == n, "num-bigint: BigUint has no leading zero digit");
    let mut i = 0;
    while i < L { if i < n { assert!(d[i] == x.as_limbs()[i], "num-bigint: digits == limbs"); } i += 1; }
    core::mem::forget(d);
    core::mem::forget(big);
}
/// BigUint -> Uint for every BigUint of at most one 64-bit digit (built with `BigUint::from(u64)`)
fn bigint_from<const B: usize, const L: usize>() {
    use num_bigint::BigUint;
    let v64: u64 = any();
    let v = v64 as u128;
    let big = BigUint::from(v64);
    let fits = B >= 128 || (v >> B) == 0;
    match Uint::<B, L>::try_from(&big) {
        Ok(y) => assert!(fits && val(&y) == v && canonical(&y), "num-bigint: Ok(v) iff v < 2^BITS"),
        Err(ruint::ToUintError::ValueTooLarge(bits, w)) => {
            assert!(!fits && bits == B, "num-bigint: ValueTooLarge iff v >= 2^BITS");
            assert!(canonical(&w) && val(&w) == v & (u128::MAX >> (128 - B)), "num-bigint: payload == v mod 2^BITS");
        }
        Err(_) => assert!(false, "num-bigint: no other error"),
    }
    core::mem::forget(big);
}

crate::harnesses! {
    #[cfg_attr(kani, kani::unwind(12))] fn c16_alloy_w8() { alloy::<8, 1>() }
    #[cfg_attr(kani, kani::unwind(12))] fn c16_alloy_w16() { alloy::<16, 1>() }
    #[cfg_attr(kani, kani::unwind(12))] fn c16_alloy_w60() { alloy::<60, 1>() }
    #[cfg_attr(kani, kani::unwind(12))] fn c16_alloy_w64() { alloy::<64, 1>() }
    #[cfg_attr(kani, kani::unwind(20))] fn c16_alloy_w65() { alloy::<65, 2>() }
    #[cfg_attr(kani, kani::unwind(20))] fn c16_alloy_w128() { alloy::<128, 2>() }
    #[cfg_attr(kani, kani::unwind(28))] fn c16_alloy_w129() { alloy_limbs::<129, 3>() }
    #[cfg_attr(kani, kani::unwind(28))] fn c16_alloy_w192() { alloy_limbs::<192, 3>() }
    #[cfg_attr(kani, kani::unwind(82))] fn c16_alloy_long_header_w512() { alloy_long() }
    #[cfg_attr(kani, kani::unwind(82))] fn c16_frlp3_long_header_w512() { frlp3_long() }
    #[cfg_attr(kani, kani::unwind(82))] fn c16_frlp4_long_header_w512() { frlp4_long() }
    #[cfg_attr(kani, kani::unwind(12))] fn c16_alloy_prim_w64() { alloy_prim64() }
    #[cfg_attr(kani, kani::unwind(20))] fn c16_alloy_prim_w128() { alloy_prim128() }
    #[cfg_attr(kani, kani::unwind(12))] fn c16_frlp3_w8() { frlp3::<8, 1>() }
    #[cfg_attr(kani, kani::unwind(12))] fn c16_frlp3_w16() { frlp3::<16, 1>() }
    #[cfg_attr(kani, kani::unwind(12))] fn c16_frlp3_w60() { frlp3::<60, 1>() }
    #[cfg_attr(kani, kani::unwind(12))] fn c16_frlp3_w64() { frlp3::<64, 1>() }
    #[cfg_attr(kani, kani::unwind(20))] fn c16_frlp3_w65() { frlp3::<65, 2>() }
    #[cfg_attr(kani, kani::unwind(20))] fn c16_frlp3_w128() { frlp3::<128, 2>() }
    #[cfg_attr(kani, kani::unwind(28))] fn c16_frlp3_w129() { frlp3_limbs::<129, 3>() }
    #[cfg_attr(kani, kani::unwind(28))] fn c16_frlp3_w192() { frlp3_limbs::<192, 3>() }
    #[cfg_attr(kani, kani::unwind(12))] fn c16_frlp3_prim_w64() { frlp3_prim64() }
    #[cfg_attr(kani, kani::unwind(20))] fn c16_frlp3_prim_w128() { frlp3_prim128() }
    #[cfg_attr(kani, kani::unwind(12))] fn c16_frlp4_w8() { frlp4::<8, 1>() }
    #[cfg_attr(kani, kani::unwind(12))] fn c16_frlp4_w16() { frlp4::<16, 1>() }
    #[cfg_attr(kani, kani::unwind(12))] fn c16_frlp4_w60() { frlp4::<60, 1>() }
    #[cfg_attr(kani, kani::unwind(12))] fn c16_frlp4_w64() { frlp4::<64, 1>() }
    #[cfg_attr(kani, kani::unwind(20))] fn c16_frlp4_w65() { frlp4::<65, 2>() }
    #[cfg_attr(kani, kani::unwind(20))] fn c16_frlp4_w128() { frlp4::<128, 2>() }
    #[cfg_attr(kani, kani::unwind(28))] fn c16_frlp4_w129() { frlp4_limbs::<129, 3>() }
    #[cfg_attr(kani, kani::unwind(28))] fn c16_frlp4_w192() { frlp4_limbs::<192, 3>() }
    #[cfg_attr(kani, kani::unwind(12))] fn c16_frlp4_prim_w64() { frlp4_prim64() }
    #[cfg_attr(kani, kani::unwind(20))] fn c16_frlp4_prim_w128() { frlp4_prim128() }
    #[cfg_attr(kani, kani::unwind(5))] #[cfg_attr(kani, kani::stub(core::slice::rotate::ptr_rotate, unreachable_rotate))] #[cfg_attr(kani, kani::stub(bytes::BytesMut::reserve_inner, unreachable_reserve))] fn c16_rlp_stream_w8() { rlp_stream::<8, 1>() }
    #[cfg_attr(kani, kani::unwind(5))] fn c16_rlp_dec_w8() { rlp_dec::<8, 1>() }
    #[cfg_attr(kani, kani::unwind(6))] fn c16_rlp_dec_w16() { rlp_dec::<16, 1>() }
    #[cfg_attr(kani, kani::unwind(12))] fn c16_rlp_dec_w60() { rlp_dec::<60, 1>() }
    #[cfg_attr(kani, kani::unwind(12))] fn c16_rlp_dec_w64() { rlp_dec::<64, 1>() }
    #[cfg_attr(kani, kani::unwind(13))] fn c16_rlp_dec_w65() { rlp_dec::<65, 2>() }
    #[cfg_attr(kani, kani::unwind(20))] fn c16_rlp_dec_w128() { rlp_dec::<128, 2>() }
    #[cfg_attr(kani, kani::unwind(5))] fn c16_scale_fixed_w7() { scale_fixed::<7, 1>() }
    #[cfg_attr(kani, kani::unwind(5))] fn c16_scale_fixed_w8() { scale_fixed::<8, 1>() }
    #[cfg_attr(kani, kani::unwind(6))] fn c16_scale_fixed_w16() { scale_fixed::<16, 1>() }
    #[cfg_attr(kani, kani::unwind(12))] fn c16_scale_fixed_w60() { scale_fixed::<60, 1>() }
    #[cfg_attr(kani, kani::unwind(12))] fn c16_scale_fixed_w64() { scale_fixed::<64, 1>() }
    #[cfg_attr(kani, kani::unwind(13))] fn c16_scale_fixed_w65() { scale_fixed::<65, 2>() }
    #[cfg_attr(kani, kani::unwind(20))] fn c16_scale_fixed_w128() { scale_fixed::<128, 2>() }
    #[cfg_attr(kani, kani::unwind(12))] fn kf_c16_scale_fixed_equals_primitive_w64() { scale_fixed_equals_primitive() }
    #[cfg_attr(kani, kani::unwind(5))] fn c16_scale_compact_w7() { scale_compact::<7, 1>() }
    #[cfg_attr(kani, kani::unwind(5))] fn c16_scale_compact_w8() { scale_compact::<8, 1>() }
    #[cfg_attr(kani, kani::unwind(6))] fn c16_scale_compact_w16() { scale_compact::<16, 1>() }
    #[cfg_attr(kani, kani::unwind(12))] fn c16_scale_compact_w60() { scale_compact::<60, 1>() }
    #[cfg_attr(kani, kani::unwind(12))] fn c16_scale_compact_w64() { scale_compact::<64, 1>() }
    #[cfg_attr(kani, kani::unwind(13))] fn c16_scale_compact_w65() { scale_compact::<65, 2>() }
    #[cfg_attr(kani, kani::unwind(20))] fn c16_scale_compact_w128() { scale_compact::<128, 2>() }
    #[cfg_attr(kani, kani::unwind(12))] fn c16_scale_compact_prim_w64() { scale_compact_prim64() }
    #[cfg_attr(kani, kani::unwind(20))] fn c16_scale_compact_prim_w128() { scale_compact_prim128() }
    #[cfg_attr(kani, kani::unwind(5))] #[cfg_attr(kani, kani::stub(alloc::fmt::format, fmt_stub))] fn c16_ssz_w7() { ssz_body::<7, 1>() }
    #[cfg_attr(kani, kani::unwind(5))] #[cfg_attr(kani, kani::stub(alloc::fmt::format, fmt_stub))] fn c16_ssz_w8() { ssz_body::<8, 1>() }
    #[cfg_attr(kani, kani::unwind(6))] #[cfg_attr(kani, kani::stub(alloc::fmt::format, fmt_stub))] fn c16_ssz_w16() { ssz_body::<16, 1>() }
    #[cfg_attr(kani, kani::unwind(12))] #[cfg_attr(kani, kani::stub(alloc::fmt::format, fmt_stub))] fn c16_ssz_w60() { ssz_body::<60, 1>() }
    #[cfg_attr(kani, kani::unwind(12))] #[cfg_attr(kani, kani::stub(alloc::fmt::format, fmt_stub))] fn c16_ssz_w64() { ssz_body::<64, 1>() }
    #[cfg_attr(kani, kani::unwind(13))] #[cfg_attr(kani, kani::stub(alloc::fmt::format, fmt_stub))] fn c16_ssz_w65() { ssz_body::<65, 2>() }
    #[cfg_attr(kani, kani::unwind(20))] #[cfg_attr(kani, kani::stub(alloc::fmt::format, fmt_stub))] fn c16_ssz_w128() { ssz_body::<128, 2>() }
    #[cfg_attr(kani, kani::unwind(12))] fn c16_ssz_prim_w64() { ssz_prim64() }
    #[cfg_attr(kani, kani::unwind(5))] fn c16_borsh_w7() { borsh_body::<7, 1>() }
    #[cfg_attr(kani, kani::unwind(5))] fn c16_borsh_w8() { borsh_body::<8, 1>() }
    #[cfg_attr(kani, kani::unwind(6))] fn c16_borsh_w16() { borsh_body::<16, 1>() }
    #[cfg_attr(kani, kani::unwind(12))] fn c16_borsh_w60() { borsh_body::<60, 1>() }
    #[cfg_attr(kani, kani::unwind(12))] fn c16_borsh_w64() { borsh_body::<64, 1>() }
    #[cfg_attr(kani, kani::unwind(13))] fn c16_borsh_w65() { borsh_body::<65, 2>() }
    #[cfg_attr(kani, kani::unwind(20))] fn c16_borsh_w128() { borsh_body::<128, 2>() }
    #[cfg_attr(kani, kani::unwind(5))] fn c16_borsh_vec_w8() { borsh_vec::<8, 1>() }
    #[cfg_attr(kani, kani::unwind(13))] fn c16_borsh_vec_w65() { borsh_vec::<65, 2>() }
    #[cfg_attr(kani, kani::unwind(12))] fn c16_borsh_prim_w64() { borsh_prim64() }
    #[cfg_attr(kani, kani::unwind(20))] fn c16_borsh_prim_w128() { borsh_prim128() }
    #[cfg_attr(kani, kani::unwind(6))] #[cfg_attr(kani, kani::solver(minisat))] fn c16_der_value_w7() { der_value::<7, 1>() }
    #[cfg_attr(kani, kani::unwind(6))] #[cfg_attr(kani, kani::solver(minisat))] fn c16_der_value_w8() { der_value::<8, 1>() }
    #[cfg_attr(kani, kani::unwind(7))] #[cfg_attr(kani, kani::solver(minisat))] fn c16_der_value_w16() { der_value::<16, 1>() }
    #[cfg_attr(kani, kani::unwind(13))] #[cfg_attr(kani, kani::solver(minisat))] fn c16_der_value_w60() { der_value::<60, 1>() }
    #[cfg_attr(kani, kani::unwind(13))] #[cfg_attr(kani, kani::solver(minisat))] fn c16_der_value_w64() { der_value::<64, 1>() }
    #[cfg_attr(kani, kani::unwind(14))] #[cfg_attr(kani, kani::solver(minisat))] fn c16_der_value_w65() { der_value::<65, 2>() }
    #[cfg_attr(kani, kani::unwind(21))] #[cfg_attr(kani, kani::solver(minisat))] fn c16_der_value_w128() { der_value::<128, 2>() }
    #[cfg_attr(kani, kani::unwind(6))] fn c16_der_len_w7() { der_len::<7, 1>() }
    #[cfg_attr(kani, kani::unwind(6))] fn c16_der_len_w8() { der_len::<8, 1>() }
    #[cfg_attr(kani, kani::unwind(7))] fn c16_der_len_w16() { der_len::<16, 1>() }
    #[cfg_attr(kani, kani::unwind(13))] fn c16_der_len_w60() { der_len::<60, 1>() }
    #[cfg_attr(kani, kani::unwind(13))] fn c16_der_len_w64() { der_len::<64, 1>() }
    #[cfg_attr(kani, kani::unwind(14))] fn c16_der_len_w65() { der_len::<65, 2>() }
    #[cfg_attr(kani, kani::unwind(21))] fn c16_der_len_w128() { der_len::<128, 2>() }
    #[cfg_attr(kani, kani::unwind(6))] fn c16_der_dec_w7() { der_dec::<7, 1>() }
    #[cfg_attr(kani, kani::unwind(6))] fn c16_der_dec_w8() { der_dec::<8, 1>() }
    #[cfg_attr(kani, kani::unwind(7))] fn c16_der_dec_w16() { der_dec::<16, 1>() }
    #[cfg_attr(kani, kani::unwind(13))] fn c16_der_dec_w60() { der_dec::<60, 1>() }
    #[cfg_attr(kani, kani::unwind(13))] fn c16_der_dec_w64() { der_dec::<64, 1>() }
    #[cfg_attr(kani, kani::unwind(14))] fn c16_der_dec_w65() { der_dec::<65, 2>() }
    #[cfg_attr(kani, kani::unwind(21))] fn c16_der_dec_w128() { der_dec::<128, 2>() }
    #[cfg_attr(kani, kani::unwind(13))] #[cfg_attr(kani, kani::solver(minisat))] fn c16_der_prim_w64() { der_prim64() }
    #[cfg_attr(kani, kani::unwind(21))] #[cfg_attr(kani, kani::solver(minisat))] fn c16_der_prim_w128() { der_prim128() }
    #[cfg_attr(kani, kani::unwind(5))] #[cfg_attr(kani, kani::stub(alloc::fmt::format, fmt_stub))] fn c16_serde_bin_w7() { serde_bin::<7, 1>() }
    #[cfg_attr(kani, kani::unwind(5))] #[cfg_attr(kani, kani::stub(alloc::fmt::format, fmt_stub))] fn c16_serde_bin_w8() { serde_bin::<8, 1>() }
    #[cfg_attr(kani, kani::unwind(6))] #[cfg_attr(kani, kani::stub(alloc::fmt::format, fmt_stub))] fn c16_serde_bin_w16() { serde_bin::<16, 1>() }
    #[cfg_attr(kani, kani::unwind(12))] #[cfg_attr(kani, kani::stub(alloc::fmt::format, fmt_stub))] fn c16_serde_bin_w60() { serde_bin::<60, 1>() }
    #[cfg_attr(kani, kani::unwind(12))] #[cfg_attr(kani, kani::stub(alloc::fmt::format, fmt_stub))] fn c16_serde_bin_w64() { serde_bin::<64, 1>() }
    #[cfg_attr(kani, kani::unwind(13))] #[cfg_attr(kani, kani::stub(alloc::fmt::format, fmt_stub))] fn c16_serde_bin_w65() { serde_bin::<65, 2>() }
    #[cfg_attr(kani, kani::unwind(20))] #[cfg_attr(kani, kani::stub(alloc::fmt::format, fmt_stub))] fn c16_serde_bin_w128() { serde_bin::<128, 2>() }
    #[cfg_attr(kani, kani::unwind(42))] fn c16_serde_human_zero_w0() { serde_human::<0, 0>(0, "0x0") }
    #[cfg_attr(kani, kani::unwind(42))] fn c16_serde_human_zero_w65() { serde_human::<65, 2>(0, "0x0") }
    #[cfg_attr(kani, kani::unwind(42))] fn c16_serde_human_one_w8() { serde_human::<8, 1>(1, "0x1") }
    #[cfg_attr(kani, kani::unwind(42))] fn c16_serde_human_ab_w8() { serde_human::<8, 1>(0xab, "0xab") }
    #[cfg_attr(kani, kani::unwind(42))] fn c16_serde_human_small_w128() { serde_human::<128, 2>(0x10, "0x10") }
    #[cfg_attr(kani, kani::unwind(42))] fn c16_serde_human_2p64_w65() { serde_human::<65, 2>(1u128 << 64, "0x10000000000000000") }
    #[cfg_attr(kani, kani::unwind(42))] fn c16_serde_human_bits_w16() { serde_human_bits::<16, 1>(0xab, "0x00ab") }
    #[cfg_attr(kani, kani::unwind(42))] fn c16_serde_human_bits_w9() { serde_human_bits::<9, 1>(0x1, "0x0001") }
    #[cfg_attr(kani, kani::unwind(16))] fn c16_pg_numeric_1_w64() { pg_numeric::<64, 1>(1, &[0, 1, 0, 0, 0, 0, 0, 0, 0, 1]) }
    #[cfg_attr(kani, kani::unwind(16))] fn c16_pg_numeric_10000_w64() { pg_numeric::<64, 1>(10000, &[0, 1, 0, 1, 0, 0, 0, 0, 0, 1]) }
    #[cfg_attr(kani, kani::unwind(16))] fn c16_pg_numeric_12345678_w65() { pg_numeric::<65, 2>(12345678, &[0, 2, 0, 1, 0, 0, 0, 0, 0x04, 0xd2, 0x16, 0x2e]) }
    #[cfg_attr(kani, kani::unwind(16))] fn c16_pg_numeric_1e8_w64() { pg_numeric::<64, 1>(100_000_000, &[0, 1, 0, 2, 0, 0, 0, 0, 0, 1]) }
    #[cfg_attr(kani, kani::unwind(12))] fn c16_bytemuck_w64() { bytemuck_body::<64, 1>() }
    #[cfg_attr(kani, kani::unwind(20))] fn c16_bytemuck_w128() { bytemuck_body::<128, 2>() }
    #[cfg_attr(kani, kani::unwind(4))] fn c16_bytemuck_zeroed_w7() { bytemuck_zeroed::<7, 1>() }
    #[cfg_attr(kani, kani::unwind(4))] fn c16_bytemuck_zeroed_w65() { bytemuck_zeroed::<65, 2>() }
    #[cfg_attr(kani, kani::unwind(4))] fn c16_ptypes_u128() { ptypes_u128() }
    #[cfg_attr(kani, kani::unwind(6))] fn c16_ptypes_u256() { ptypes_u256() }
    #[cfg_attr(kani, kani::unwind(10))] fn c16_ptypes_u512() { ptypes_u512() }
}

/// NATIVE-ONLY registrations (never sent to CBMC, which needs minutes and gigabytes for them even at 8 bits): bodies kept above
/// without a Kani harness are executed by the native sweep (bounded: generated values).
#[cfg(not(kani))]
pub mod native {
    use super::*;
    crate::harnesses! {
        fn c16n_bigint_to_w64() { bigint_to::<64, 1>() }
        fn c16n_bigint_to_w65() { bigint_to::<65, 2>() }
        fn c16n_bigint_to_w128() { bigint_to::<128, 2>() }
        fn c16n_bigint_to_w192() { bigint_to::<192, 3>() }
        fn c16n_bigint_to_w256() { bigint_to::<256, 4>() }
        fn c16n_bigint_from_w8() { bigint_from::<8, 1>() }
        fn c16n_bigint_from_w64() { bigint_from::<64, 1>() }
        fn c16n_bigint_from_w65() { bigint_from::<65, 2>() }
        fn c16n_bigint_from_w128() { bigint_from::<128, 2>() }
        fn c16n_der_body_w8() { der_body::<8, 1>() }
        fn c16n_der_body_w64() { der_body::<64, 1>() }
        fn c16n_der_body_w65() { der_body::<65, 2>() }
        fn c16n_der_body_w128() { der_body::<128, 2>() }
    }
}

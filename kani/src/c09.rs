//! C09 — radix conversion and parsing (src/base_convert.rs, src/string.rs).
//!
//! Entry points covered:
//!  * `to_base_le(base)` (`c09_to_le_*`): for ALL canonical values of the width and a CONSTANT base, `.next()` yields
//!    exactly v % b, (v/b) % b, ... while the rest is non-zero and then None (again None on a further call); zero
//!    (and BITS = 0) yields no digit at all. Oracle `%` / `/` in u64 (u128 at 65 bits). Widths/bases: 0/0 (10), 1/1
//!    (2), 8/1 (2, 3, 10, 16, 255, 256), 12/1 (10), 16/1 (2, 10, 16, 36, 64, 255, 2^40), 60/1 (16, 2^32), 64/1 (2, 16,
//!    2^32, 10^19), 65/2 (16, 2^32, 2^63, 10^19). `c09_to_le_pow2_*`: base 2^S at 129/3 (S = 4, 32), 192/3 (32),
//!    250/4 (40), 256/4 (63) against a bit-field oracle (digit k = bits [kS, (k+1)S)).
//!    Bounded: the base is one of these constants. Measured limits: a base that is not a power of two needs a real
//!    128-bit divider per limb and digit: base 10 at 64 bits (20 digits) and base 10^9 at 60/64 bits (3 digits) did
//!    not finish in 200-300 s, base 10 is covered up to 16 bits only; a symbolic base is out of reach.
//!  * `to_base_be(base)` (`c09_to_be_*`): the same digits in reverse order, then None. 0/0, 8/1 (2, 10, 16), 16/1
//!    (10, 36, 256), 60/1 (2^32), 64/1 (16), 129/3 (2^32), 256/4 (2^63).
//!  * `to_base_le` / `to_base_be` with base 0 or 1 panic (`*_must_panic`).
//!  * `from_base_le` / `from_base_be` (`c09_from_le_*`, `c09_from_be_*`): digit arrays of symbolic length n <= N
//!    (N = 4; 9 for base 2 at 8 bits; 3 for base 2^40; 2 for base 10^19) with ALL u64 contents, constant base:
//!      Ok(v)                 only if every digit < base and the denoted value < 2^BITS, and then v == that value;
//!      Err(InvalidDigit(d,b)) only if d is the FIRST digit (iteration order) >= base, and b == base;
//!      Err(Overflow)          only if the digits before the first invalid one (all digits if none is invalid)
//!                             already denote a value >= 2^BITS;
//!      Err(InvalidBase)       never (base >= 2).
//!    For a string with a single kind of defect this is exact ("Overflow iff all digits valid and value >= 2^BITS",
//!    "InvalidDigit iff some digit >= base"); when a prefix that already overflows is followed by an invalid digit
//!    the code reports whichever defect comes first in iteration order and the contract accepts both documented
//!    errors (never Ok). `c09_from_base_invalid_base`: base in {0, 1} -> exactly Err(InvalidBase(base)) (checked
//!    before any digit). Widths 0/0, 1/1, 8/1, 16/1, 60/1 (base 10^9), 64/1 (2^32), 65/2 (16, 2^32, 10^19);
//!    `c09_from_le_pow2_*` / `c09_from_be_pow2_*`: base 2^S at 129/3 (S = 32, n <= 5), 192/3 (63, n <= 4), 250/4
//!    (40, n <= 7), 256/4 (63, n <= 5) with the same contract, the denoted value assembled with shifts (multi-limb
//!    paths of addmul_nx1 / mul_nx1 / the carry chain).
//!  * `from_str_radix` (`c09_str_radix*`): ALL ASCII strings of length 0..=3 (bounded: length; bytes < 128) with a
//!    constant radix from {2, 10, 16, 36, 37, 64, 65}, `c09_str_anyradix_*`: radix symbolic over ALL u8 values
//!    (0..=255; strings of length <= 2) and radix symbolic over ALL u64 values (strings of length <= 1).
//!    Oracle: the alphabet table written from the documentation of from_str_radix (radix <= 36: 0-9, a-z = A-Z =
//!    10..35, '_' ignored; radix 37..=64: A-Z 0..25, a-z 26..51, 0-9 52..61, '+' '-' 62, '/' ',' '_' 63, '=' CR LF
//!    ignored; everything else is a non-digit). Contract:
//!      radix > 64                   -> exactly Err(InvalidRadix(radix));
//!      Ok(v)                        only if radix >= 2, no non-digit, every digit < radix, value < 2^BITS; v == value;
//!      Err(InvalidDigit(c))         only if c is a non-digit character occurring in the string;
//!      Err(BaseConvertError(InvalidBase(r)))     only if radix < 2 and r == radix;
//!      Err(BaseConvertError(InvalidDigit(d,r)))  only if r == radix and some character has alphabet value d >= radix;
//!      Err(BaseConvertError(Overflow))           only if radix >= 2 and the digits before the first defect
//!                                                (non-digit or digit >= radix) denote a value >= 2^BITS.
//!    Exact for strings with one kind of defect; where two documented errors compete either is accepted (the code
//!    reports the first defect in string order, and InvalidBase before anything else), never Ok.
//!    `c09_str_dec20_w64` (through from_str) / `c09_str_dec20_w65`: the 20-character decimal strings
//!    "1844674407370955161?" at 64 bits and "3689348814741910323?" at 65 bits, `c09_str_hex17_*_w65`: the 17-character
//!    hex strings "1fFfFfFfFfFfFfFf?" and "2000000000000_00?", where ? is ONE symbolic ASCII character: the
//!    Overflow boundary 2^64 / 2^65 and two-limb values (bounded: only the last position is symbolic).
//!    `c09_str_non_ascii`: a symbolic two-byte UTF-8 character (U+0080..=U+07FF), alone and after '0', any u8 radix:
//!    never Ok, never a panic (also through `from_str`, where byte 2 is not a char boundary).
//!  * `FromStr::from_str` (`c09_from_str_w*`): ALL ASCII strings of length 0..=3: prefix "0x"/"0X" -> 16, "0o"/"0O"
//!    -> 8, "0b"/"0B" -> 2 (prefix removed), anything else -> 10, then the from_str_radix contract above;
//!    `c09_from_str_prefixed_w8`: "0" ++ one of x X o O b B ++ ALL ASCII strings of length 0..=2 (all strings of
//!    length <= 4 without this restriction took 150 s). Widths 8/1, 16/1 (+ 64/1 in `c09_str_dec20_w64`).
//! Oracle: u64/u128 arithmetic with the same constant base (`%`, `/`, Horner), own alphabet table.
//! NOT covered: symbolic bases for to_base_* and from_base_* (CBMC cost of 64x64 multiplication/division);
//! to_base_* with bases that are not powers of two above 16 bits (except 10^19 at 64/65 bits); from_base_* with such
//! bases above 65 bits; digit strings / texts longer than the bounds; non-ASCII strings beyond one two-byte
//! character; digit iterators other than slice iterators; formatting (Display/LowerHex...: other property) and the
//! Display of the error types. "panics for EVERY base < 2" is shown as reachability of the panic only (should_panic).
use crate::oracle as o;
use crate::sym::*;
use core::str::FromStr;
use ruint::{BaseConvertError, ParseError, Uint};

/// value of a limb array of at most two limbs
fn val128<const L: usize>(a: &[u64; L]) -> u128 {
    let mut v = 0u128;
    if L > 0 { v |= a[0] as u128; }
    if L > 1 { v |= (a[1] as u128) << 64; }
    v
}

/// v >= 2^B (B <= 128)
fn over<const B: usize>(v: u128) -> bool {
    B < 128 && (v >> B) != 0
}

/// the bytes as &str; precondition: all bytes < 128 (ASCII is valid UTF-8). Under Kani the validation of
/// `from_utf8` is skipped (its word-at-a-time scan cost 20 s per call in CBMC); the replay build checks it.
fn ascii(b: &[u8]) -> &str {
    #[cfg(kani)]
    { unsafe { core::str::from_utf8_unchecked(b) } }
    #[cfg(not(kani))]
    { core::str::from_utf8(b).expect("REPLAY: harness strings are ASCII") }
}

/// N symbolic ASCII bytes and a symbolic length n <= N
fn ascii_bytes<const N: usize>() -> ([u8; N], usize) {
    // masked rather than assumed: the top bit is then a constant for the solver
    let mut s: [u8; N] = any();
    let mut i = 0;
    while i < N { s[i] &= 0x7f; i += 1; }
    let n: usize = any();
    assume(n <= N);
    (s, n)
}

// ---------------------------------------------------------------- to_base_le / to_base_be
/// D: an upper bound on the number of base-`base` digits of a B-bit value (checked at the end). L <= 2.
fn to_le<const B: usize, const L: usize, const D: usize>(base: u64) {
    assert!(L <= 2);
    let x = uint::<B, L>();
    let mut it = x.to_base_le(base);
    if L <= 1 {
        let mut rest: u64 = val128(x.as_limbs()) as u64;
        let mut k = 0;
        while k < D {
            let got = it.next();
            if rest == 0 {
                assert!(got.is_none(), "to_base_le: no digit after the most significant one (zero has no digits)");
            } else {
                assert!(got == Some(rest % base), "to_base_le: digit k is (v / base^k) % base");
            }
            rest /= base;
            k += 1;
        }
        assert!(rest == 0, "harness: D digits exhaust the value");
    } else {
        let mut rest: u128 = val128(x.as_limbs());
        let mut k = 0;
        while k < D {
            let got = it.next();
            if rest == 0 {
                assert!(got.is_none(), "to_base_le: no digit after the most significant one (zero has no digits)");
            } else {
                assert!(got == Some((rest % base as u128) as u64), "to_base_le: digit k is (v / base^k) % base");
            }
            rest /= base as u128;
            k += 1;
        }
        assert!(rest == 0, "harness: D digits exhaust the value");
    }
    assert!(it.next().is_none(), "to_base_le: None after the last digit");
}

fn to_be<const B: usize, const L: usize, const D: usize>(base: u64) {
    assert!(L <= 1);
    let x = uint::<B, L>();
    // the digits by definition, little-endian, and their number
    let mut dig = [0u64; D];
    let mut cnt = 0;
    let mut rest: u64 = val128(x.as_limbs()) as u64;
    let mut k = 0;
    while k < D {
        if rest != 0 { dig[k] = rest % base; cnt = k + 1; }
        rest /= base;
        k += 1;
    }
    assert!(rest == 0, "harness: D digits exhaust the value");
    let mut it = x.to_base_be(base);
    let mut k = 0;
    while k < D {
        let got = it.next();
        if k < cnt {
            assert!(got == Some(dig[cnt - 1 - k]), "to_base_be: most significant digit first");
        } else {
            assert!(got.is_none(), "to_base_be: exactly as many digits as the value has");
        }
        k += 1;
    }
    assert!(it.next().is_none(), "to_base_be: None after the last digit");
}

// ------------------------------------------------ bases 2^S at any width (oracle: bit fields, no division)
/// the S-bit field of `l` starting at bit p (p, s constants at every call)
fn field<const L: usize>(l: &[u64; L], p: usize, s: usize) -> u64 {
    let (w, off) = (p / 64, p % 64);
    let mut v = if w < L { l[w] >> off } else { 0 };
    if off != 0 && w + 1 < L { v |= l[w + 1] << (64 - off); }
    v & ((1u64 << s) - 1)
}

/// number of significant bits
fn bit_len<const L: usize>(l: &[u64; L]) -> usize {
    let mut n = 0;
    let mut i = 0;
    while i < L {
        if l[i] != 0 { n = 64 * i + 64 - l[i].leading_zeros() as usize; }
        i += 1;
    }
    n
}

/// to_base_le / to_base_be with base 2^S: digit k is the bit field [kS, (k+1)S) of the value. D*S >= BITS.
fn to_pow2<const B: usize, const L: usize, const D: usize>(s: usize, be: bool) {
    assert!(s >= 1 && s <= 63 && D * s >= B);
    let x = uint::<B, L>();
    let l = *x.as_limbs();
    let len = bit_len(&l);
    let cnt = (len + s - 1) / s; // number of digits
    if !be {
        let mut it = x.to_base_le(1u64 << s);
        let mut k = 0;
        while k < D {
            let got = it.next();
            if k * s < len {
                assert!(got == Some(field(&l, k * s, s)), "to_base_le(2^S): digit k is bit field k");
            } else {
                assert!(got.is_none(), "to_base_le(2^S): no digit beyond the most significant one");
            }
            k += 1;
        }
        assert!(it.next().is_none(), "to_base_le(2^S): None after the last digit");
    } else {
        let mut it = x.to_base_be(1u64 << s);
        let mut k = 0;
        while k < D {
            let got = it.next();
            // the k-th digit from the top is field cnt-1-k: dispatch to a constant field index
            let mut want: Option<u64> = None;
            let mut j = 0;
            while j < D {
                if k < cnt && cnt - 1 - k == j { want = Some(field(&l, j * s, s)); }
                j += 1;
            }
            assert!(got == want, "to_base_be(2^S): most significant digit first, exactly cnt digits");
            k += 1;
        }
        assert!(it.next().is_none(), "to_base_be(2^S): None after the last digit");
    }
}

const W: usize = 6;

/// from_base_le / from_base_be with base 2^S, digit arrays of symbolic length n <= N with all u64 contents;
/// same contract as `check_from_base`, the denoted value is assembled with shifts in a W-limb array
fn from_pow2<const B: usize, const L: usize, const N: usize>(s: usize, be: bool) {
    assert!(s >= 1 && s <= 63 && N * s + 64 <= 64 * W && L < W);
    let base = 1u64 << s;
    let ds: [u64; N] = any();
    let n: usize = any();
    assume(n <= N);
    let mut bad: Option<u64> = None;
    let mut wide = [0u64; W];
    let mut i = 0;
    while i < N {
        if i < n && bad.is_none() {
            if ds[i] >= base { bad = Some(ds[i]); }
            else if be {
                // wide = wide * 2^S + digit
                let mut carry = ds[i];
                let mut j = 0;
                while j < W { let t = wide[j]; wide[j] = (t << s) | carry; carry = t >> (64 - s); j += 1; }
            } else {
                // wide += digit * 2^(iS)
                let (w, off) = (i * s / 64, i * s % 64);
                wide[w] |= ds[i] << off;
                if off + s > 64 { wide[w + 1] |= ds[i] >> (64 - off); }
            }
        }
        i += 1;
    }
    // wide >= 2^B ?
    let mut over = false;
    let mut j = 0;
    while j < W {
        if j >= L && wide[j] != 0 { over = true; }
        j += 1;
    }
    if L > 0 && wide[L - 1] > o::mask_of(B) { over = true; }
    let r = if be { Uint::<B, L>::from_base_be(base, ds[..n].iter().copied()) } else { Uint::<B, L>::from_base_le(base, ds[..n].iter().copied()) };
    match r {
        Ok(v) => {
            assert!(bad.is_none(), "from_base(2^S): Ok only when every digit < base");
            assert!(!over, "from_base(2^S): Ok only when the value < 2^BITS");
            let mut j = 0;
            while j < L { assert!(v.as_limbs()[j] == wide[j], "from_base(2^S): Ok value is the denoted value"); j += 1; }
        }
        Err(BaseConvertError::InvalidDigit(d, b)) => {
            assert!(bad == Some(d), "from_base(2^S): InvalidDigit reports the first digit >= base");
            assert!(b == base, "from_base(2^S): InvalidDigit reports the base");
        }
        Err(BaseConvertError::Overflow) => assert!(over, "from_base(2^S): Overflow only when the (valid part of the) value >= 2^BITS"),
        Err(BaseConvertError::InvalidBase(_)) => assert!(false, "from_base(2^S): InvalidBase for a base >= 2"),
    }
}

fn to_le_bad_base_panics() {
    let x = uint::<16, 1>();
    let b: u64 = any();
    assume(b < 2);
    let _ = x.to_base_le(b);
}
fn to_be_bad_base_panics() {
    let x = uint::<16, 1>();
    let b: u64 = any();
    assume(b < 2);
    let _ = x.to_base_be(b);
}

// ---------------------------------------------------------------- from_base_le / from_base_be
/// contract of from_base_*: `bad` = first invalid digit in iteration order, `prefix` = value denoted by the digits
/// before it (by all digits if none is invalid)
fn check_from_base<const B: usize, const L: usize>(r: Result<Uint<B, L>, BaseConvertError>, base: u64, bad: Option<u64>, prefix: u128) {
    match r {
        Ok(v) => {
            assert!(bad.is_none(), "from_base: Ok only when every digit < base");
            assert!(!over::<B>(prefix), "from_base: Ok only when the value < 2^BITS");
            assert!(val128(v.as_limbs()) == prefix, "from_base: Ok value is the denoted value");
        }
        Err(BaseConvertError::InvalidDigit(d, b)) => {
            assert!(bad == Some(d), "from_base: InvalidDigit reports the first digit >= base");
            assert!(b == base, "from_base: InvalidDigit reports the base");
        }
        Err(BaseConvertError::Overflow) => assert!(over::<B>(prefix), "from_base: Overflow only when the (valid part of the) value >= 2^BITS"),
        Err(BaseConvertError::InvalidBase(_)) => assert!(false, "from_base: InvalidBase for a base >= 2"),
    }
}

/// base^N must fit 128 bits (so that Horner in u128 is exact)
fn fits128(base: u64, n: usize) -> bool {
    let bits = 64 - (base - 1).leading_zeros() as usize;
    bits * n <= 128
}

fn from_be<const B: usize, const L: usize, const N: usize>(base: u64) {
    assert!(L <= 2 && fits128(base, N));
    let ds: [u64; N] = any();
    let n: usize = any();
    assume(n <= N);
    let mut bad: Option<u64> = None;
    let mut prefix = 0u128;
    let mut i = 0;
    while i < N {
        if i < n && bad.is_none() {
            if ds[i] >= base { bad = Some(ds[i]); } else { prefix = prefix * base as u128 + ds[i] as u128; }
        }
        i += 1;
    }
    let r = Uint::<B, L>::from_base_be(base, ds[..n].iter().copied());
    check_from_base::<B, L>(r, base, bad, prefix);
}

fn from_le<const B: usize, const L: usize, const N: usize>(base: u64) {
    assert!(L <= 2 && fits128(base, N));
    let ds: [u64; N] = any();
    let n: usize = any();
    assume(n <= N);
    let mut bad: Option<u64> = None;
    let mut prefix = 0u128;
    let mut pw = 1u128; // base^i
    let mut i = 0;
    while i < N {
        if i < n && bad.is_none() {
            if ds[i] >= base { bad = Some(ds[i]); } else { prefix += pw * ds[i] as u128; }
        }
        pw = pw.wrapping_mul(base as u128);
        i += 1;
    }
    let r = Uint::<B, L>::from_base_le(base, ds[..n].iter().copied());
    check_from_base::<B, L>(r, base, bad, prefix);
}

fn from_base_invalid_base<const B: usize, const L: usize>() {
    let base: u64 = any();
    assume(base < 2);
    let ds: [u64; 2] = any();
    let n: usize = any();
    assume(n <= 2);
    match Uint::<B, L>::from_base_be(base, ds[..n].iter().copied()) {
        Err(BaseConvertError::InvalidBase(b)) => assert!(b == base, "from_base_be: InvalidBase reports the base"),
        _ => assert!(false, "from_base_be: base < 2 must give InvalidBase"),
    }
    match Uint::<B, L>::from_base_le(base, ds[..n].iter().copied()) {
        Err(BaseConvertError::InvalidBase(b)) => assert!(b == base, "from_base_le: InvalidBase reports the base"),
        _ => assert!(false, "from_base_le: base < 2 must give InvalidBase"),
    }
}

// ---------------------------------------------------------------- from_str_radix / from_str
#[derive(Clone, Copy)]
enum Ch {
    Digit(u64),
    Skip,
    Bad,
}

/// the documented alphabets of from_str_radix (c < 128)
fn classify(c: u8, radix: u64) -> Ch {
    if radix <= 36 {
        if c >= b'0' && c <= b'9' { Ch::Digit((c - b'0') as u64) }
        else if c >= b'a' && c <= b'z' { Ch::Digit((c - b'a') as u64 + 10) }
        else if c >= b'A' && c <= b'Z' { Ch::Digit((c - b'A') as u64 + 10) }
        else if c == b'_' { Ch::Skip }
        else { Ch::Bad }
    } else {
        if c >= b'A' && c <= b'Z' { Ch::Digit((c - b'A') as u64) }
        else if c >= b'a' && c <= b'z' { Ch::Digit((c - b'a') as u64 + 26) }
        else if c >= b'0' && c <= b'9' { Ch::Digit((c - b'0') as u64 + 52) }
        else if c == b'+' || c == b'-' { Ch::Digit(62) }
        else if c == b'/' || c == b',' || c == b'_' { Ch::Digit(63) }
        else if c == b'=' || c == b'\r' || c == b'\n' { Ch::Skip }
        else { Ch::Bad }
    }
}

/// contract of from_str_radix on the ASCII string s[start..n]
fn check_parse<const B: usize, const L: usize, const N: usize>(r: Result<Uint<B, L>, ParseError>, s: &[u8; N], start: usize, n: usize, radix: u64) {
    assert!(L <= 2);
    if radix > 64 {
        match r {
            Err(ParseError::InvalidRadix(x)) => assert!(x == radix, "from_str_radix: InvalidRadix reports the radix"),
            _ => assert!(false, "from_str_radix: radix > 64 must give InvalidRadix"),
        }
        return;
    }
    // value of the digits before the first defect (non-digit character or digit >= radix)
    let mut prefix = 0u128;
    let mut stopped = false;
    let mut i = 0;
    while i < N {
        if i >= start && i < n && !stopped {
            match classify(s[i], radix) {
                Ch::Bad => stopped = true,
                Ch::Skip => {}
                Ch::Digit(d) => if d < radix { prefix = prefix * radix as u128 + d as u128; } else { stopped = true; },
            }
        }
        i += 1;
    }
    match r {
        Ok(v) => {
            assert!(radix >= 2, "from_str_radix: Ok only for a radix >= 2");
            assert!(!stopped, "from_str_radix: Ok only without non-digits and digits >= radix");
            assert!(!over::<B>(prefix), "from_str_radix: Ok only when the value < 2^BITS");
            assert!(val128(v.as_limbs()) == prefix, "from_str_radix: Ok value is the denoted value");
        }
        Err(ParseError::InvalidDigit(c)) => {
            let mut found = false;
            let mut i = 0;
            while i < N {
                if i >= start && i < n && s[i] as u32 == c as u32 {
                    if let Ch::Bad = classify(s[i], radix) { found = true; }
                }
                i += 1;
            }
            assert!(found, "from_str_radix: InvalidDigit reports a non-digit character of the string");
        }
        Err(ParseError::InvalidRadix(_)) => assert!(false, "from_str_radix: InvalidRadix for a radix <= 64"),
        Err(ParseError::BaseConvertError(BaseConvertError::InvalidBase(b))) => {
            assert!(radix < 2 && b == radix, "from_str_radix: InvalidBase only for radix < 2");
        }
        Err(ParseError::BaseConvertError(BaseConvertError::InvalidDigit(d, b))) => {
            let mut found = false;
            let mut i = 0;
            while i < N {
                if i >= start && i < n {
                    if let Ch::Digit(x) = classify(s[i], radix) { if x == d { found = true; } }
                }
                i += 1;
            }
            assert!(b == radix && d >= radix && found, "from_str_radix: BaseConvertError::InvalidDigit reports a digit >= radix of the string");
        }
        Err(ParseError::BaseConvertError(BaseConvertError::Overflow)) => {
            assert!(radix >= 2 && over::<B>(prefix), "from_str_radix: Overflow only when the value >= 2^BITS");
        }
    }
}

fn str_radix<const B: usize, const L: usize, const N: usize>(radix: u64) {
    let (s, n) = ascii_bytes::<N>();
    let r = Uint::<B, L>::from_str_radix(ascii(&s[..n]), radix);
    check_parse::<B, L, N>(r, &s, 0, n, radix);
}

/// radix: all u8 values (zero-extended: the multiplications by the radix stay narrow)
fn str_radix_u8<const B: usize, const L: usize, const N: usize>() {
    let radix = any::<u8>() as u64;
    str_radix::<B, L, N>(radix);
}
/// radix: all u64 values
fn str_radix_u64<const B: usize, const L: usize, const N: usize>() {
    let radix: u64 = any();
    str_radix::<B, L, N>(radix);
}

/// `text` with its LAST character replaced by a symbolic ASCII character, constant radix.
/// (A symbolic character makes the position of the character iterator symbolic for the rest of the string - the
/// lazy digit iterator of from_str_radix skips ignored characters inside `next()` - and every later step then
/// unwinds both nested loops to the bound: with three symbolic characters at the end of a 20 character string a
/// harness took 400 s, with symbolic characters at the front it did not finish. The last character still decides
/// between Ok and Overflow for these texts.)
fn str_long<const B: usize, const L: usize, const N: usize>(text: &[u8; N], radix: u64, via_from_str: bool) {
    let mut s = *text;
    let c: u8 = any();
    assume(c < 128);
    s[N - 1] = c;
    if via_from_str {
        // radix 10: the text has no "0x"-like prefix
        let r = Uint::<B, L>::from_str(ascii(&s));
        check_parse::<B, L, N>(r, &s, 0, N, radix);
    } else {
        let r = Uint::<B, L>::from_str_radix(ascii(&s), radix);
        check_parse::<B, L, N>(r, &s, 0, N, radix);
    }
}

fn from_str_body<const B: usize, const L: usize, const N: usize>() {
    let (s, n) = ascii_bytes::<N>();
    let r = Uint::<B, L>::from_str(ascii(&s[..n]));
    let p = n >= 2 && s[0] == b'0';
    if p && (s[1] == b'x' || s[1] == b'X') { check_parse::<B, L, N>(r, &s, 2, n, 16); }
    else if p && (s[1] == b'o' || s[1] == b'O') { check_parse::<B, L, N>(r, &s, 2, n, 8); }
    else if p && (s[1] == b'b' || s[1] == b'B') { check_parse::<B, L, N>(r, &s, 2, n, 2); }
    else { check_parse::<B, L, N>(r, &s, 0, n, 10); }
}

/// "0" ++ one of x X o O b B ++ up to M-2 symbolic ASCII characters: the prefix is recognised and removed
fn from_str_prefixed<const B: usize, const L: usize, const M: usize>() {
    let (mut s, n) = ascii_bytes::<M>();
    assume(n >= 2);
    let letters: [u8; 6] = *b"xXoObB";
    let k: u8 = any();
    assume(k < 6);
    s[0] = b'0';
    s[1] = letters[k as usize];
    let r = Uint::<B, L>::from_str(ascii(&s[..n]));
    if k < 2 { check_parse::<B, L, M>(r, &s, 2, n, 16); }
    else if k < 4 { check_parse::<B, L, M>(r, &s, 2, n, 8); }
    else { check_parse::<B, L, M>(r, &s, 2, n, 2); }
}

/// a two-byte UTF-8 character (U+0080..=U+07FF), alone (lead = false) or after the ASCII digit '0'
fn non_ascii<const B: usize, const L: usize>(lead: bool) {
    let cp: u16 = any();
    assume(cp >= 0x80 && cp < 0x800);
    let bytes = [b'0', 0xC0 | (cp >> 6) as u8, 0x80 | (cp & 0x3f) as u8];
    let raw: &[u8] = if lead { &bytes[..] } else { &bytes[1..] };
    // valid UTF-8 by construction; validated in the replay build only (cost of from_utf8 in CBMC)
    #[cfg(kani)]
    let s = unsafe { core::str::from_utf8_unchecked(raw) };
    #[cfg(not(kani))]
    let s = core::str::from_utf8(raw).expect("harness: valid UTF-8");
    let radix = any::<u8>() as u64;
    match Uint::<B, L>::from_str_radix(s, radix) {
        Ok(_) => assert!(false, "from_str_radix: a non-ASCII character is never accepted"),
        Err(ParseError::InvalidRadix(x)) => assert!(radix > 64 && x == radix, "from_str_radix: InvalidRadix"),
        Err(ParseError::InvalidDigit(c)) => assert!(radix <= 64 && c as u32 == cp as u32, "from_str_radix: InvalidDigit reports the character"),
        Err(ParseError::BaseConvertError(BaseConvertError::InvalidBase(b))) => assert!(radix < 2 && b == radix, "from_str_radix: InvalidBase"),
        Err(ParseError::BaseConvertError(BaseConvertError::InvalidDigit(d, b))) => {
            // the leading '0' has the value 52 in the base-64 alphabet
            assert!(lead && b == radix && radix <= 64 && d == (if radix <= 36 { 0 } else { 52 }) && d >= radix, "from_str_radix: digit >= radix");
        }
        Err(ParseError::BaseConvertError(BaseConvertError::Overflow)) => assert!(false, "from_str_radix: Overflow for the value 0"),
    }
    // from_str: byte 2 of "0<c>" is not a character boundary; no panic, radix 10
    match Uint::<B, L>::from_str(s) {
        Err(ParseError::InvalidDigit(c)) => assert!(c as u32 == cp as u32, "from_str: InvalidDigit reports the character"),
        _ => assert!(false, "from_str: a non-ASCII character must give InvalidDigit"),
    }
}

crate::harnesses! {
    // to_base_le: width / base / digit bound
    #[cfg_attr(kani, kani::unwind(4))] fn c09_to_le_w0_b10() { to_le::<0, 0, 1>(10) }
    #[cfg_attr(kani, kani::unwind(4))] fn c09_to_le_w1_b2() { to_le::<1, 1, 1>(2) }
    #[cfg_attr(kani, kani::unwind(11))] fn c09_to_le_w8_b2() { to_le::<8, 1, 8>(2) }
    #[cfg_attr(kani, kani::unwind(8))] fn c09_to_le_w8_b3() { to_le::<8, 1, 6>(3) }
    #[cfg_attr(kani, kani::unwind(6))] fn c09_to_le_w8_b10() { to_le::<8, 1, 3>(10) }
    #[cfg_attr(kani, kani::unwind(6))] fn c09_to_le_w8_b16() { to_le::<8, 1, 2>(16) }
    #[cfg_attr(kani, kani::unwind(6))] fn c09_to_le_w8_b255() { to_le::<8, 1, 2>(255) }
    #[cfg_attr(kani, kani::unwind(6))] fn c09_to_le_w8_b256() { to_le::<8, 1, 1>(256) }
    #[cfg_attr(kani, kani::unwind(8))] fn c09_to_le_w12_b10() { to_le::<12, 1, 4>(10) }
    #[cfg_attr(kani, kani::unwind(19))] fn c09_to_le_w16_b2() { to_le::<16, 1, 16>(2) }
    #[cfg_attr(kani, kani::unwind(8))] fn c09_to_le_w16_b10() { to_le::<16, 1, 5>(10) }
    #[cfg_attr(kani, kani::unwind(8))] fn c09_to_le_w16_b16() { to_le::<16, 1, 4>(16) }
    #[cfg_attr(kani, kani::unwind(8))] fn c09_to_le_w16_b36() { to_le::<16, 1, 4>(36) }
    #[cfg_attr(kani, kani::unwind(8))] fn c09_to_le_w16_b64() { to_le::<16, 1, 3>(64) }
    #[cfg_attr(kani, kani::unwind(8))] fn c09_to_le_w16_b255() { to_le::<16, 1, 3>(255) }
    #[cfg_attr(kani, kani::unwind(8))] fn c09_to_le_w16_b2p40() { to_le::<16, 1, 1>(1 << 40) }
    #[cfg_attr(kani, kani::unwind(8))] fn c09_to_le_w60_b2p32() { to_le::<60, 1, 2>(1 << 32) }
    #[cfg_attr(kani, kani::unwind(8))] fn c09_to_le_w64_b2p32() { to_le::<64, 1, 2>(1 << 32) }
    #[cfg_attr(kani, kani::unwind(8))] fn c09_to_le_w64_b10p19() { to_le::<64, 1, 2>(10_000_000_000_000_000_000) }
    #[cfg_attr(kani, kani::unwind(8))] fn c09_to_le_w65_b2p63() { to_le::<65, 2, 2>(1 << 63) }
    #[cfg_attr(kani, kani::unwind(8))] fn c09_to_le_w65_b10p19() { to_le::<65, 2, 2>(10_000_000_000_000_000_000) }
    #[cfg_attr(kani, kani::unwind(19))] fn c09_to_le_w64_b16() { to_le::<64, 1, 16>(16) }
    #[cfg_attr(kani, kani::unwind(19))] fn c09_to_le_w60_b16() { to_le::<60, 1, 15>(16) }
    #[cfg_attr(kani, kani::unwind(67))] fn c09_to_le_w64_b2() { to_le::<64, 1, 64>(2) }
    #[cfg_attr(kani, kani::unwind(20))] fn c09_to_le_w65_b16() { to_le::<65, 2, 17>(16) }
    #[cfg_attr(kani, kani::unwind(8))] fn c09_to_le_w65_b2p32() { to_le::<65, 2, 3>(1 << 32) }
    // to_base_be
    #[cfg_attr(kani, kani::unwind(4))] fn c09_to_be_w0_b10() { to_be::<0, 0, 1>(10) }
    #[cfg_attr(kani, kani::unwind(11))] fn c09_to_be_w8_b2() { to_be::<8, 1, 8>(2) }
    #[cfg_attr(kani, kani::unwind(6))] fn c09_to_be_w8_b10() { to_be::<8, 1, 3>(10) }
    #[cfg_attr(kani, kani::unwind(6))] fn c09_to_be_w8_b16() { to_be::<8, 1, 2>(16) }
    #[cfg_attr(kani, kani::unwind(8))] fn c09_to_be_w16_b10() { to_be::<16, 1, 5>(10) }
    #[cfg_attr(kani, kani::unwind(8))] fn c09_to_be_w16_b36() { to_be::<16, 1, 4>(36) }
    #[cfg_attr(kani, kani::unwind(8))] fn c09_to_be_w16_b256() { to_be::<16, 1, 2>(256) }
    #[cfg_attr(kani, kani::unwind(8))] fn c09_to_be_w60_b2p32() { to_be::<60, 1, 2>(1 << 32) }
    #[cfg_attr(kani, kani::unwind(19))] fn c09_to_be_w64_b16() { to_be::<64, 1, 16>(16) }
    // bases 2^S at wide widths (bit-field oracle)
    #[cfg_attr(kani, kani::unwind(9))] fn c09_to_le_pow2_w129_s32() { to_pow2::<129, 3, 5>(32, false) }
    #[cfg_attr(kani, kani::unwind(9))] fn c09_to_le_pow2_w192_s32() { to_pow2::<192, 3, 6>(32, false) }
    #[cfg_attr(kani, kani::unwind(9))] fn c09_to_le_pow2_w250_s40() { to_pow2::<250, 4, 7>(40, false) }
    #[cfg_attr(kani, kani::unwind(9))] fn c09_to_le_pow2_w256_s63() { to_pow2::<256, 4, 5>(63, false) }
    #[cfg_attr(kani, kani::unwind(36))] fn c09_to_le_pow2_w129_s4() { to_pow2::<129, 3, 33>(4, false) }
    #[cfg_attr(kani, kani::unwind(9))] fn c09_to_be_pow2_w129_s32() { to_pow2::<129, 3, 5>(32, true) }
    #[cfg_attr(kani, kani::unwind(9))] fn c09_to_be_pow2_w256_s63() { to_pow2::<256, 4, 5>(63, true) }
    #[cfg_attr(kani, kani::unwind(9))] fn c09_from_le_pow2_w129_s32() { from_pow2::<129, 3, 5>(32, false) }
    #[cfg_attr(kani, kani::unwind(9))] fn c09_from_le_pow2_w192_s63() { from_pow2::<192, 3, 4>(63, false) }
    #[cfg_attr(kani, kani::unwind(9))] fn c09_from_le_pow2_w250_s40() { from_pow2::<250, 4, 7>(40, false) }
    #[cfg_attr(kani, kani::unwind(9))] fn c09_from_le_pow2_w256_s63() { from_pow2::<256, 4, 5>(63, false) }
    #[cfg_attr(kani, kani::unwind(9))] fn c09_from_be_pow2_w129_s32() { from_pow2::<129, 3, 5>(32, true) }
    #[cfg_attr(kani, kani::unwind(9))] fn c09_from_be_pow2_w192_s63() { from_pow2::<192, 3, 4>(63, true) }
    #[cfg_attr(kani, kani::unwind(9))] fn c09_from_be_pow2_w250_s40() { from_pow2::<250, 4, 7>(40, true) }
    #[cfg_attr(kani, kani::unwind(9))] fn c09_from_be_pow2_w256_s63() { from_pow2::<256, 4, 5>(63, true) }
    #[cfg_attr(kani, kani::unwind(4))] #[cfg_attr(kani, kani::should_panic)] fn c09_to_le_base01_must_panic() { to_le_bad_base_panics() }
    #[cfg_attr(kani, kani::unwind(4))] #[cfg_attr(kani, kani::should_panic)] fn c09_to_be_base01_must_panic() { to_be_bad_base_panics() }
    // from_base_be
    #[cfg_attr(kani, kani::unwind(7))] fn c09_from_be_w0_b10() { from_be::<0, 0, 4>(10) }
    #[cfg_attr(kani, kani::unwind(7))] fn c09_from_be_w1_b2() { from_be::<1, 1, 4>(2) }
    #[cfg_attr(kani, kani::unwind(12))] fn c09_from_be_w8_b2() { from_be::<8, 1, 9>(2) }
    #[cfg_attr(kani, kani::unwind(7))] fn c09_from_be_w8_b10() { from_be::<8, 1, 4>(10) }
    #[cfg_attr(kani, kani::unwind(7))] fn c09_from_be_w8_b16() { from_be::<8, 1, 4>(16) }
    #[cfg_attr(kani, kani::unwind(7))] fn c09_from_be_w8_b255() { from_be::<8, 1, 4>(255) }
    #[cfg_attr(kani, kani::unwind(7))] fn c09_from_be_w8_b256() { from_be::<8, 1, 4>(256) }
    #[cfg_attr(kani, kani::unwind(7))] fn c09_from_be_w16_b3() { from_be::<16, 1, 4>(3) }
    #[cfg_attr(kani, kani::unwind(7))] fn c09_from_be_w16_b36() { from_be::<16, 1, 4>(36) }
    #[cfg_attr(kani, kani::unwind(7))] fn c09_from_be_w16_b64() { from_be::<16, 1, 4>(64) }
    #[cfg_attr(kani, kani::unwind(7))] fn c09_from_be_w16_b2p40() { from_be::<16, 1, 3>(1 << 40) }
    #[cfg_attr(kani, kani::unwind(7))] fn c09_from_be_w60_b10p9() { from_be::<60, 1, 3>(1_000_000_000) }
    #[cfg_attr(kani, kani::unwind(7))] fn c09_from_be_w64_b2p32() { from_be::<64, 1, 4>(1 << 32) }
    #[cfg_attr(kani, kani::unwind(7))] fn c09_from_be_w65_b16() { from_be::<65, 2, 4>(16) }
    #[cfg_attr(kani, kani::unwind(7))] fn c09_from_be_w65_b2p32() { from_be::<65, 2, 4>(1 << 32) }
    #[cfg_attr(kani, kani::unwind(7))] fn c09_from_be_w65_b10p19() { from_be::<65, 2, 2>(10_000_000_000_000_000_000) }
    // from_base_le
    #[cfg_attr(kani, kani::unwind(7))] fn c09_from_le_w0_b10() { from_le::<0, 0, 4>(10) }
    #[cfg_attr(kani, kani::unwind(7))] fn c09_from_le_w1_b2() { from_le::<1, 1, 4>(2) }
    #[cfg_attr(kani, kani::unwind(12))] fn c09_from_le_w8_b2() { from_le::<8, 1, 9>(2) }
    #[cfg_attr(kani, kani::unwind(7))] fn c09_from_le_w8_b10() { from_le::<8, 1, 4>(10) }
    #[cfg_attr(kani, kani::unwind(7))] fn c09_from_le_w8_b16() { from_le::<8, 1, 4>(16) }
    #[cfg_attr(kani, kani::unwind(7))] fn c09_from_le_w8_b255() { from_le::<8, 1, 4>(255) }
    #[cfg_attr(kani, kani::unwind(7))] fn c09_from_le_w8_b256() { from_le::<8, 1, 4>(256) }
    #[cfg_attr(kani, kani::unwind(7))] fn c09_from_le_w16_b3() { from_le::<16, 1, 4>(3) }
    #[cfg_attr(kani, kani::unwind(7))] fn c09_from_le_w16_b36() { from_le::<16, 1, 4>(36) }
    #[cfg_attr(kani, kani::unwind(7))] fn c09_from_le_w16_b64() { from_le::<16, 1, 4>(64) }
    #[cfg_attr(kani, kani::unwind(7))] fn c09_from_le_w16_b2p40() { from_le::<16, 1, 3>(1 << 40) }
    #[cfg_attr(kani, kani::unwind(7))] fn c09_from_le_w60_b10p9() { from_le::<60, 1, 3>(1_000_000_000) }
    #[cfg_attr(kani, kani::unwind(7))] fn c09_from_le_w64_b2p32() { from_le::<64, 1, 4>(1 << 32) }
    #[cfg_attr(kani, kani::unwind(7))] fn c09_from_le_w65_b16() { from_le::<65, 2, 4>(16) }
    #[cfg_attr(kani, kani::unwind(7))] fn c09_from_le_w65_b2p32() { from_le::<65, 2, 4>(1 << 32) }
    #[cfg_attr(kani, kani::unwind(7))] fn c09_from_le_w65_b10p19() { from_le::<65, 2, 2>(10_000_000_000_000_000_000) }
    #[cfg_attr(kani, kani::unwind(7))] fn c09_from_base_invalid_base_w0() { from_base_invalid_base::<0, 0>() }
    #[cfg_attr(kani, kani::unwind(7))] fn c09_from_base_invalid_base_w8() { from_base_invalid_base::<8, 1>() }
    #[cfg_attr(kani, kani::unwind(7))] fn c09_from_base_invalid_base_w65() { from_base_invalid_base::<65, 2>() }
    // from_str_radix, constant radix
    #[cfg_attr(kani, kani::unwind(5))] fn c09_str_radix2_w1() { str_radix::<1, 1, 3>(2) }
    #[cfg_attr(kani, kani::unwind(5))] fn c09_str_radix2_w8() { str_radix::<8, 1, 3>(2) }
    #[cfg_attr(kani, kani::unwind(5))] fn c09_str_radix10_w0() { str_radix::<0, 0, 3>(10) }
    #[cfg_attr(kani, kani::unwind(5))] fn c09_str_radix10_w8() { str_radix::<8, 1, 3>(10) }
    #[cfg_attr(kani, kani::unwind(5))] fn c09_str_radix16_w8() { str_radix::<8, 1, 3>(16) }
    #[cfg_attr(kani, kani::unwind(5))] fn c09_str_radix16_w65() { str_radix::<65, 2, 3>(16) }
    #[cfg_attr(kani, kani::unwind(5))] fn c09_str_radix36_w8() { str_radix::<8, 1, 3>(36) }
    #[cfg_attr(kani, kani::unwind(5))] fn c09_str_radix36_w16() { str_radix::<16, 1, 3>(36) }
    #[cfg_attr(kani, kani::unwind(5))] fn c09_str_radix37_w8() { str_radix::<8, 1, 3>(37) }
    #[cfg_attr(kani, kani::unwind(5))] fn c09_str_radix37_w16() { str_radix::<16, 1, 3>(37) }
    #[cfg_attr(kani, kani::unwind(5))] fn c09_str_radix64_w8() { str_radix::<8, 1, 3>(64) }
    #[cfg_attr(kani, kani::unwind(5))] fn c09_str_radix64_w16() { str_radix::<16, 1, 3>(64) }
    #[cfg_attr(kani, kani::unwind(5))] fn c09_str_radix65_w16() { str_radix::<16, 1, 3>(65) }
    // from_str_radix, symbolic radix
    #[cfg_attr(kani, kani::unwind(4))] fn c09_str_anyradix_u8_w8() { str_radix_u8::<8, 1, 2>() }
    #[cfg_attr(kani, kani::unwind(4))] fn c09_str_anyradix_u8_w16() { str_radix_u8::<16, 1, 2>() }
    #[cfg_attr(kani, kani::unwind(3))] fn c09_str_anyradix_u64_w8() { str_radix_u64::<8, 1, 1>() }
    #[cfg_attr(kani, kani::unwind(3))] fn c09_str_anyradix_u64_w65() { str_radix_u64::<65, 2, 1>() }
    // long strings at the overflow boundary (2^64 = 18446744073709551616, 2^65 = 36893488147419103232)
    #[cfg_attr(kani, kani::unwind(23))] fn c09_str_dec20_w64() { str_long::<64, 1, 20>(b"18446744073709551615", 10, true) }
    #[cfg_attr(kani, kani::unwind(23))] fn c09_str_dec20_w65() { str_long::<65, 2, 20>(b"36893488147419103232", 10, false) }
    #[cfg_attr(kani, kani::unwind(20))] fn c09_str_hex17_fits_w65() { str_long::<65, 2, 17>(b"1fFfFfFfFfFfFfFfF", 16, false) }
    #[cfg_attr(kani, kani::unwind(20))] fn c09_str_hex17_over_w65() { str_long::<65, 2, 17>(b"2000000000000_000", 16, false) }
    #[cfg_attr(kani, kani::unwind(5))] fn c09_str_non_ascii_w8() { non_ascii::<8, 1>(false) }
    #[cfg_attr(kani, kani::unwind(5))] fn c09_str_non_ascii_lead0_w8() { non_ascii::<8, 1>(true) }
    #[cfg_attr(kani, kani::unwind(5))] fn c09_str_non_ascii_lead0_w65() { non_ascii::<65, 2>(true) }
    // FromStr: all ASCII strings of length <= 3; prefixed strings of length <= 4
    #[cfg_attr(kani, kani::unwind(5))] fn c09_from_str_w8() { from_str_body::<8, 1, 3>() }
    #[cfg_attr(kani, kani::unwind(5))] fn c09_from_str_w16() { from_str_body::<16, 1, 3>() }
    #[cfg_attr(kani, kani::unwind(6))] fn c09_from_str_prefixed_w8() { from_str_prefixed::<8, 1, 4>() }
}

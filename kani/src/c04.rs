//! C04 - canonical values; ==, Hash, Ord follow the numeric value (ruint src/lib.rs, src/cmp.rs, algorithms::cmp).
//!
//! (1) ORDER  `c04_order_w*`: for symbolic canonical a, b, c: `<`, `<=`, `>`, `>=`, `cmp`, `partial_cmp`, `min`, `max`,
//!     `clamp` agree with the integer order computed limb-wise from the top (`o::lt`).
//!     Widths 0/0, 1/1, 7/1, 60/1, 64/1, 65/2, 100/2, 128/2, 250/4 - complete per width.
//! (2) EQUALITY `c04_eq_w*`: `==`, `!=`, `is_zero` agree with limb equality.  `a == b` on Uint IS the function under
//!     test here (derived PartialEq = memcmp), hence unwind = bytes + 2.
//!     Widths 1/1, 7/1, 60/1, 64/1, 65/2, 100/2, 128/2, 250/4.
//!     HASH `c04_hash_w*`: a recording `Hasher` receives byte-identical streams for a and b iff the values are equal
//!     (so any Hasher gives equal hashes for equal values, and the stream is injective in the value). 7/1, 65/2, 100/2.
//! (3) CANONICAL CLOSURE `c04_closure_*`: every listed public producer, called on arbitrary canonical inputs and
//!     symbolic extra arguments, returns a value whose top limb is <= mask(BITS) (mask computed here, and
//!     `Uint::MASK == mask` is asserted).  ONLY canonicity is asserted - the numeric results are other properties.
//!       arith   : ZERO ONE MIN MAX default; wrapping/overflowing/saturating/checked add, sub; + - (value, ref and
//!                 assign forms); wrapping/overflowing/checked neg, unary -; abs_diff; not / ! ; & | ^ (and assign forms)
//!       shl     : wrapping/overflowing/checked/saturating shl, << and <<= by usize, << by Uint
//!       shr     : wrapping/overflowing/checked shr;   shr_ops : >> and >>= by usize, >> by Uint;   ashr : arithmetic_shr
//!       rot     : rotate_left, rotate_right       (shift/rotate amount: a symbolic usize, all 2^64 amounts)
//!       misc    : reverse_bits, set_bit (symbolic index and value), checked_next_power_of_two (Some case),
//!                 wrapping_from / saturating_from of u128, i64, u64 and of a Uint<100>, wrapping_to / saturating_to Uint<7>
//!       limbs_slice : wrapping/saturating/overflowing/checked_from_limbs_slice on a symbolic slice of 0..=L+1 limbs
//!       bytes   : try_from_le_slice / try_from_be_slice on a symbolic slice of 0..=BYTES+1 bytes: Some(v) => v canonical;
//!                 full-length input with a bit at position >= BITS set => None; longer input => None
//!       Widths for the groups above: 1/1, 7/1, 60/1, 65/2, 100/2, 250/4 (non-aligned, incl. BYTES%8==0 at 60 and 250),
//!       plus 64/1 for arith as the aligned control.  Complete per width.
//!       mulw    : wrapping_mul (7/1, 60/1, 65/2, 100/2, 250/4);  mulo : overflowing_mul.0 (7/1, 60/1, 65/2);
//!       mulx    : saturating_mul, checked_mul (Some), * (7/1, 60/1).  All operand values (canonicity needs only the
//!                 final mask; the cost is Kani's overflow checks inside the kernels).
//!       pow     : wrapping_pow, pow at 7/1, every base and exponent.  NOT overflowing/checked/saturating_pow: the loop
//!                 `while !exp.is_zero()` must be unwound 10 times because of is_zero's memcmp and each round holds two
//!                 overflowing_mul: no result within 250 s (their values come from overflowing_mul.0, covered by mulo).
//!       div_rem, div, rem, checked_div, div_ceil (7/1, divisor != 0): div_rem, wrapping_div, /, wrapping_rem, %,
//!                 checked_div / checked_rem (Some), div_ceil;   reduce_mod, add_mod (7/1, every modulus incl. 0).
//!                 These use `-Z stubbing`: see `unreachable_div_*` below.
//! (4) REJECTION `c04_reject_*`: for every input whose top limb exceeds the mask: `checked_from_limbs_slice`,
//!     `try_from_le_slice`, `try_from_be_slice` return None and overflowing_from_limbs_slice flags it (7/1, 60/1, 65/2,
//!     250/4);  `from_limbs`, `from_limbs_slice` (7/1, 60/1, 65/2), `from_le_slice`, `from_be_slice` (60/1, 65/2) panic:
//!     should_panic harnesses whose call is followed by `returned()` (an endless loop under Kani = an unwinding
//!     failure, which should_panic does not tolerate): they prove "panics for EVERY such input, never returns".
//!
//! NOT covered: multi-limb division / modular producers (div_rem at >= 65 bits reaches Knuth division: out of reach
//! for CBMC; their canonicity follows from quotient <= numerator, remainder < divisor proved in the division units);
//! overflowing/checked/saturating_pow; wrapping_pow at widths > 7; mul_mod, pow_mod, inv_mod, mul_redc, root, log, gcd
//! producers; string / codec decoders (C08/C09/C17).  The `arbitrary::Arbitrary` impl is covered only with
//! `--features codecs`: module `c04::arb`, harnesses `c04_arbitrary_w{7,60,65,100}` (symbolic input of 0..=9 / 0..=17 bytes).
//! Ill-formed types (LIMBS != nlimbs(BITS), e.g. Uint<64, 2>) are rejected at compile time (`Self::LIMBS` const assert):
//! not expressible as a Kani harness.
use crate::oracle as o;
use crate::sym::*;
use core::cmp::Ordering;
use core::hash::{Hash, Hasher};
use ruint::Uint;

/// the type invariant: no bit at position >= B
fn canon<const B: usize, const L: usize>(r: Uint<B, L>) -> bool {
    L == 0 || r.as_limbs()[L - 1] <= o::mask_of(B)
}
fn canon_opt<const B: usize, const L: usize>(r: Option<Uint<B, L>>) -> bool {
    match r { None => true, Some(v) => canon(v) }
}

// ---------------------------------------------------------------- (1) order
fn order<const B: usize, const L: usize>() {
    let a = uint::<B, L>();
    let b = uint::<B, L>();
    let (al, bl) = (*a.as_limbs(), *b.as_limbs());
    let lt = o::lt(&al, &bl);
    let gt = o::lt(&bl, &al);
    assert!((a < b) == lt, "a < b");
    assert!((a <= b) == !gt, "a <= b");
    assert!((a > b) == gt, "a > b");
    assert!((a >= b) == !lt, "a >= b");
    let want = if lt { Ordering::Less } else if gt { Ordering::Greater } else { Ordering::Equal };
    assert!(a.cmp(&b) == want, "cmp");
    assert!(a.partial_cmp(&b) == Some(want), "partial_cmp");
    assert!(o::same(a.min(b).as_limbs(), if gt { &bl } else { &al }), "min");
    assert!(o::same(a.max(b).as_limbs(), if gt { &al } else { &bl }), "max");
    // clamp(lo, hi) for lo <= hi
    let c = uint::<B, L>();
    let cl = *c.as_limbs();
    if !gt {
        let want = if o::lt(&cl, &al) { al } else if o::lt(&bl, &cl) { bl } else { cl };
        assert!(o::same(c.clamp(a, b).as_limbs(), &want), "clamp");
    }
}

// ---------------------------------------------------------------- (2) equality / hash
fn equality<const B: usize, const L: usize>() {
    let a = uint::<B, L>();
    let b = uint::<B, L>();
    let eq = o::same(a.as_limbs(), b.as_limbs());
    assert!((a == b) == eq, "a == b  <=>  same value");
    assert!((a != b) == !eq, "a != b  <=>  different value");
    assert!(a.is_zero() == o::is_zero(a.as_limbs()), "is_zero");
}

const REC: usize = 64;
/// records every byte written by `Hash::hash`
struct Rec { buf: [u8; REC], n: usize }
impl Hasher for Rec {
    fn finish(&self) -> u64 { self.n as u64 }
    fn write(&mut self, bytes: &[u8]) {
        let mut i = 0;
        while i < bytes.len() {
            assert!(self.n < REC, "recording hasher: buffer large enough");
            self.buf[self.n] = bytes[i];
            self.n += 1;
            i += 1;
        }
    }
}
fn hash_follows_value<const B: usize, const L: usize>() {
    let a = uint::<B, L>();
    let b = uint::<B, L>();
    let mut ha = Rec { buf: [0; REC], n: 0 };
    let mut hb = Rec { buf: [0; REC], n: 0 };
    a.hash(&mut ha);
    b.hash(&mut hb);
    let mut streams_equal = ha.n == hb.n;
    let mut i = 0;
    while i < REC { if ha.buf[i] != hb.buf[i] { streams_equal = false; } i += 1; }
    assert!(ha.n >= 8 * L, "every limb is fed to the hasher");
    assert!(streams_equal == o::same(a.as_limbs(), b.as_limbs()), "hash input stream equal <=> same value");
}

// ---------------------------------------------------------------- (3) canonical closure
fn closure_arith<const B: usize, const L: usize>() {
    assert!(Uint::<B, L>::MASK == o::mask_of(B), "Uint::MASK is the mask of BITS");
    assert!(canon(Uint::<B, L>::ZERO) && canon(Uint::<B, L>::ONE) && canon(Uint::<B, L>::MIN) && canon(Uint::<B, L>::MAX), "constants");
    assert!(canon(Uint::<B, L>::default()), "default");
    let a = uint::<B, L>();
    let b = uint::<B, L>();
    assert!(canon(a.wrapping_add(b)) && canon(a.overflowing_add(b).0) && canon(a.saturating_add(b)) && canon_opt(a.checked_add(b)), "add family");
    assert!(canon(a + b) && canon(&a + &b), "+");
    let mut t = a; t += b; assert!(canon(t), "+=");
    assert!(canon(a.wrapping_sub(b)) && canon(a.overflowing_sub(b).0) && canon(a.saturating_sub(b)) && canon_opt(a.checked_sub(b)), "sub family");
    assert!(canon(a - b) && canon(&a - &b), "-");
    let mut t = a; t -= b; assert!(canon(t), "-=");
    assert!(canon(a.wrapping_neg()) && canon(a.overflowing_neg().0) && canon_opt(a.checked_neg()) && canon(-a) && canon(-&a), "neg family");
    assert!(canon(a.abs_diff(b)), "abs_diff");
    assert!(canon(a.not()) && canon(!a) && canon(!&a), "not");
    assert!(canon(a & b) && canon(a | b) && canon(a ^ b) && canon(&a & &b) && canon(&a | &b) && canon(&a ^ &b), "& | ^");
    let mut t = a; t &= b; assert!(canon(t), "&=");
    let mut t = a; t |= b; assert!(canon(t), "|=");
    let mut t = a; t ^= b; assert!(canon(t), "^=");
}

fn closure_shl<const B: usize, const L: usize>() {
    let a = uint::<B, L>();
    let s: usize = any();
    assert!(canon(a.wrapping_shl(s)) && canon(a.overflowing_shl(s).0) && canon_opt(a.checked_shl(s)) && canon(a.saturating_shl(s)), "shl family");
    assert!(canon(a << s), "<< usize");
    let mut t = a; t <<= s; assert!(canon(t), "<<= usize");
    let b = uint::<B, L>();
    assert!(canon(a << b), "<< Uint");
}
fn closure_shr<const B: usize, const L: usize>() {
    let a = uint::<B, L>();
    let s: usize = any();
    assert!(canon(a.wrapping_shr(s)) && canon(a.overflowing_shr(s).0) && canon_opt(a.checked_shr(s)), "shr family");
}
fn closure_shr_ops<const B: usize, const L: usize>() {
    let a = uint::<B, L>();
    let s: usize = any();
    assert!(canon(a >> s), ">> usize");
    let mut t = a; t >>= s; assert!(canon(t), ">>= usize");
    let b = uint::<B, L>();
    assert!(canon(a >> b), ">> Uint");
}
fn closure_ashr<const B: usize, const L: usize>() {
    let a = uint::<B, L>();
    let s: usize = any();
    assert!(canon(a.arithmetic_shr(s)), "arithmetic_shr");
}
fn closure_rot<const B: usize, const L: usize>() {
    let a = uint::<B, L>();
    let s: usize = any();
    assert!(canon(a.rotate_left(s)), "rotate_left");
    assert!(canon(a.rotate_right(s)), "rotate_right");
}

fn closure_misc<const B: usize, const L: usize>() {
    let a = uint::<B, L>();
    assert!(canon(a.reverse_bits()), "reverse_bits");
    let i: usize = any();
    let v: bool = any();
    let mut t = a; t.set_bit(i, v); assert!(canon(t), "set_bit");
    assert!(canon_opt(a.checked_next_power_of_two()), "checked_next_power_of_two");
    let x: u128 = any();
    assert!(canon(Uint::<B, L>::wrapping_from(x)) && canon(Uint::<B, L>::saturating_from(x)), "wrapping_from / saturating_from (u128)");
    let y: i64 = any();
    assert!(canon(Uint::<B, L>::wrapping_from(y)) && canon(Uint::<B, L>::saturating_from(y)), "wrapping_from / saturating_from (i64)");
    let z: u64 = any();
    assert!(canon(Uint::<B, L>::wrapping_from(z)) && canon(Uint::<B, L>::saturating_from(z)), "wrapping_from / saturating_from (u64)");
    let w = uint::<100, 2>();
    assert!(canon(Uint::<B, L>::wrapping_from(w)) && canon(Uint::<B, L>::saturating_from(w)), "wrapping_from / saturating_from (Uint<100>)");
    assert!(canon(a.wrapping_to::<Uint<7, 1>>()) && canon(a.saturating_to::<Uint<7, 1>>()), "wrapping_to / saturating_to (Uint<7>)");
}

/// slice of 0..=L+1 arbitrary limbs (LS = L + 1 supplied by the caller)
fn closure_limbs_slice<const B: usize, const L: usize, const LS: usize>() {
    let buf: [u64; LS] = any();
    let n: usize = any();
    assume(n <= LS);
    let sl = &buf[..n];
    assert!(canon(Uint::<B, L>::wrapping_from_limbs_slice(sl)), "wrapping_from_limbs_slice");
    assert!(canon(Uint::<B, L>::saturating_from_limbs_slice(sl)), "saturating_from_limbs_slice");
    assert!(canon(Uint::<B, L>::overflowing_from_limbs_slice(sl).0), "overflowing_from_limbs_slice");
    assert!(canon_opt(Uint::<B, L>::checked_from_limbs_slice(sl)), "checked_from_limbs_slice");
}

/// byte slices of 0..=BYTES+1 arbitrary bytes (BS = BYTES + 1 supplied by the caller)
fn closure_bytes<const B: usize, const L: usize, const BS: usize>() {
    let buf: [u8; BS] = any();
    let n: usize = any();
    assume(n <= BS);
    let sl = &buf[..n];
    let le = Uint::<B, L>::try_from_le_slice(sl);
    let be = Uint::<B, L>::try_from_be_slice(sl);
    assert!(canon_opt(le), "try_from_le_slice: Some(v) => v canonical");
    assert!(canon_opt(be), "try_from_be_slice: Some(v) => v canonical");
    // full-length input with an excess bit: rejected
    if n == BS - 1 && B % 8 != 0 && n > 0 {
        let top_mask = !((1u16 << (B % 8)) - 1) as u8;
        if buf[n - 1] & top_mask != 0 { assert!(le.is_none(), "try_from_le_slice rejects a bit at position >= BITS"); }
        if buf[0] & top_mask != 0 { assert!(be.is_none(), "try_from_be_slice rejects a bit at position >= BITS"); }
    }
    if n == BS { assert!(le.is_none() && be.is_none(), "more than BYTES bytes: None"); }
}

fn closure_mul_wrapping<const B: usize, const L: usize>() {
    let a = uint::<B, L>();
    let b = uint::<B, L>();
    assert!(canon(a.wrapping_mul(b)), "wrapping_mul");
}
fn closure_mul_overflowing<const B: usize, const L: usize>() {
    let a = uint::<B, L>();
    let b = uint::<B, L>();
    assert!(canon(a.overflowing_mul(b).0), "overflowing_mul");
}
fn closure_mul_wrappers<const B: usize, const L: usize>() {
    let a = uint::<B, L>();
    let b = uint::<B, L>();
    assert!(canon(a.saturating_mul(b)), "saturating_mul");
    assert!(canon_opt(a.checked_mul(b)), "checked_mul");
    assert!(canon(a * b), "*");
}
fn closure_pow7() {
    let a = uint::<7, 1>();
    let e = uint::<7, 1>(); // every exponent: at most 7 rounds of square-and-multiply
    assert!(canon(a.wrapping_pow(e)), "wrapping_pow");
    assert!(canon(a.pow(e)), "pow");
}
// One-limb division: `algorithms::div` dispatches on the *trimmed slice lengths*, which CBMC's symbolic execution
// cannot see are 1, so it would also encode div_nx1 / div_nx2 / Knuth (128-bit dividers: > 8 GB).  The three kernels
// are replaced by stubs that FAIL when reached: the harness thereby also proves they are unreachable at LIMBS = 1,
// and the only arithmetic left is the native `u64 / u64`, `u64 % u64` of the 1x1 case.
pub fn unreachable_div_nx1(_limbs: &mut [u64], _divisor: u64) -> u64 { panic!("div_nx1 reached at LIMBS = 1") }
pub fn unreachable_div_nx2(_limbs: &mut [u64], _divisor: u128) -> u128 { panic!("div_nx2 reached at LIMBS = 1") }
pub fn unreachable_div_nxm(_numerator: &mut [u64], _divisor: &mut [u64]) { panic!("div_nxm reached at LIMBS = 1") }

fn closure_div7(which: u8) {
    let n = uint::<7, 1>();
    let d = uint::<7, 1>();
    assume(d.as_limbs()[0] != 0);
    match which {
        0 => { let (q, r) = n.div_rem(d); assert!(canon(q) && canon(r), "div_rem"); }
        1 => assert!(canon(n.wrapping_div(d)) && canon(n / d), "wrapping_div, /"),
        2 => assert!(canon(n.wrapping_rem(d)) && canon(n % d), "wrapping_rem, %"),
        3 => assert!(canon_opt(n.checked_div(d)) && canon_opt(n.checked_rem(d)), "checked_div / checked_rem"),
        _ => assert!(canon(n.div_ceil(d)), "div_ceil"),
    }
}
fn closure_mod7(which: u8) {
    let a = uint::<7, 1>();
    let b = uint::<7, 1>();
    let m = uint::<7, 1>();
    match which {
        0 => assert!(canon(a.reduce_mod(m)), "reduce_mod"),
        _ => assert!(canon(a.add_mod(b, m)), "add_mod"),
    }
}

// ---------------------------------------------------------------- (4) rejection of non-canonical limbs
fn noncanon_limbs<const B: usize, const L: usize>() -> [u64; L] {
    let limbs: [u64; L] = any();
    assume(limbs[L - 1] > o::mask_of(B));
    limbs
}
fn reject_none<const B: usize, const L: usize, const BYTES: usize>() {
    let limbs = noncanon_limbs::<B, L>();
    assert!(Uint::<B, L>::checked_from_limbs_slice(&limbs).is_none(), "checked_from_limbs_slice(non-canonical) is None");
    let (v, over) = Uint::<B, L>::overflowing_from_limbs_slice(&limbs);
    assert!(over && canon(v), "overflowing_from_limbs_slice(non-canonical) flags the overflow");
    // the same value as bytes
    let mut le = [0u8; BYTES];
    let mut i = 0;
    while i < BYTES { le[i] = (limbs[i / 8] >> (8 * (i % 8))) as u8; i += 1; }
    // only meaningful when the excess bit lies within the BYTES bytes
    let mut excess = false;
    let mut i = B;
    while i < 8 * BYTES { if o::bit(&limbs, i) { excess = true; } i += 1; }
    if excess {
        assert!(Uint::<B, L>::try_from_le_slice(&le).is_none(), "try_from_le_slice(non-canonical) is None");
        let mut be = le;
        be.reverse();
        assert!(Uint::<B, L>::try_from_be_slice(&be).is_none(), "try_from_be_slice(non-canonical) is None");
    }
}
/// Placed after a call that must not return.  Under Kani an endless loop makes "the call returned" an UNWINDING
/// failure, which a should_panic harness does not tolerate (only panics are tolerated).
fn returned() {
    #[cfg(kani)]
    { let mut i: u8 = 0; loop { i = i.wrapping_add(1); } }
    #[cfg(not(kani))]
    panic!("REPLAY: the call returned although it must panic");
}
fn reject_from_limbs<const B: usize, const L: usize>() {
    let _ = Uint::<B, L>::from_limbs(noncanon_limbs::<B, L>());
    returned();
}
fn reject_from_limbs_slice<const B: usize, const L: usize>() {
    let limbs = noncanon_limbs::<B, L>();
    let _ = Uint::<B, L>::from_limbs_slice(&limbs);
    returned();
}
/// BYTES bytes whose top byte has a bit at position >= B
fn noncanon_bytes<const B: usize, const BYTES: usize>() -> [u8; BYTES] {
    let mut le: [u8; BYTES] = any();
    let top_mask = !((1u16 << (B % 8)) - 1) as u8;
    assume(B % 8 != 0 && le[BYTES - 1] & top_mask != 0);
    le
}
fn reject_from_le_slice<const B: usize, const L: usize, const BYTES: usize>() {
    let le = noncanon_bytes::<B, BYTES>();
    let _ = Uint::<B, L>::from_le_slice(&le);
    returned();
}
fn reject_from_be_slice<const B: usize, const L: usize, const BYTES: usize>() {
    let mut be = noncanon_bytes::<B, BYTES>();
    be.reverse();
    let _ = Uint::<B, L>::from_be_slice(&be);
    returned();
}

crate::harnesses! {
    #[cfg_attr(kani, kani::unwind(6))] fn c04_order_w0() { order::<0, 0>() }
    #[cfg_attr(kani, kani::unwind(6))] fn c04_order_w1() { order::<1, 1>() }
    #[cfg_attr(kani, kani::unwind(6))] fn c04_order_w7() { order::<7, 1>() }
    #[cfg_attr(kani, kani::unwind(6))] fn c04_order_w60() { order::<60, 1>() }
    #[cfg_attr(kani, kani::unwind(6))] fn c04_order_w64() { order::<64, 1>() }
    #[cfg_attr(kani, kani::unwind(6))] fn c04_order_w65() { order::<65, 2>() }
    #[cfg_attr(kani, kani::unwind(6))] fn c04_order_w100() { order::<100, 2>() }
    #[cfg_attr(kani, kani::unwind(6))] fn c04_order_w128() { order::<128, 2>() }
    #[cfg_attr(kani, kani::unwind(6))] fn c04_order_w250() { order::<250, 4>() }

    #[cfg_attr(kani, kani::unwind(10))] fn c04_eq_w1() { equality::<1, 1>() }
    #[cfg_attr(kani, kani::unwind(10))] fn c04_eq_w7() { equality::<7, 1>() }
    #[cfg_attr(kani, kani::unwind(10))] fn c04_eq_w60() { equality::<60, 1>() }
    #[cfg_attr(kani, kani::unwind(10))] fn c04_eq_w64() { equality::<64, 1>() }
    #[cfg_attr(kani, kani::unwind(18))] fn c04_eq_w65() { equality::<65, 2>() }
    #[cfg_attr(kani, kani::unwind(18))] fn c04_eq_w100() { equality::<100, 2>() }
    #[cfg_attr(kani, kani::unwind(18))] fn c04_eq_w128() { equality::<128, 2>() }
    #[cfg_attr(kani, kani::unwind(34))] fn c04_eq_w250() { equality::<250, 4>() }
    #[cfg_attr(kani, kani::unwind(66))] fn c04_hash_w7() { hash_follows_value::<7, 1>() }
    #[cfg_attr(kani, kani::unwind(66))] fn c04_hash_w65() { hash_follows_value::<65, 2>() }
    #[cfg_attr(kani, kani::unwind(66))] fn c04_hash_w100() { hash_follows_value::<100, 2>() }

    #[cfg_attr(kani, kani::unwind(6))] fn c04_closure_arith_w1() { closure_arith::<1, 1>() }
    #[cfg_attr(kani, kani::unwind(6))] fn c04_closure_arith_w7() { closure_arith::<7, 1>() }
    #[cfg_attr(kani, kani::unwind(6))] fn c04_closure_arith_w60() { closure_arith::<60, 1>() }
    #[cfg_attr(kani, kani::unwind(6))] fn c04_closure_arith_w64() { closure_arith::<64, 1>() }
    #[cfg_attr(kani, kani::unwind(6))] fn c04_closure_arith_w65() { closure_arith::<65, 2>() }
    #[cfg_attr(kani, kani::unwind(6))] fn c04_closure_arith_w100() { closure_arith::<100, 2>() }
    #[cfg_attr(kani, kani::unwind(6))] fn c04_closure_arith_w250() { closure_arith::<250, 4>() }

    #[cfg_attr(kani, kani::unwind(10))] fn c04_closure_shl_w1() { closure_shl::<1, 1>() }
    #[cfg_attr(kani, kani::unwind(10))] fn c04_closure_shl_w7() { closure_shl::<7, 1>() }
    #[cfg_attr(kani, kani::unwind(10))] fn c04_closure_shl_w60() { closure_shl::<60, 1>() }
    #[cfg_attr(kani, kani::unwind(18))] fn c04_closure_shl_w65() { closure_shl::<65, 2>() }
    #[cfg_attr(kani, kani::unwind(18))] fn c04_closure_shl_w100() { closure_shl::<100, 2>() }
    #[cfg_attr(kani, kani::unwind(34))] fn c04_closure_shl_w250() { closure_shl::<250, 4>() }
    #[cfg_attr(kani, kani::unwind(10))] fn c04_closure_shr_w1() { closure_shr::<1, 1>() }
    #[cfg_attr(kani, kani::unwind(10))] fn c04_closure_shr_w7() { closure_shr::<7, 1>() }
    #[cfg_attr(kani, kani::unwind(10))] fn c04_closure_shr_w60() { closure_shr::<60, 1>() }
    #[cfg_attr(kani, kani::unwind(18))] fn c04_closure_shr_w65() { closure_shr::<65, 2>() }
    #[cfg_attr(kani, kani::unwind(18))] fn c04_closure_shr_w100() { closure_shr::<100, 2>() }
    #[cfg_attr(kani, kani::unwind(34))] fn c04_closure_shr_w250() { closure_shr::<250, 4>() }
    #[cfg_attr(kani, kani::unwind(10))] fn c04_closure_shr_ops_w1() { closure_shr_ops::<1, 1>() }
    #[cfg_attr(kani, kani::unwind(10))] fn c04_closure_shr_ops_w7() { closure_shr_ops::<7, 1>() }
    #[cfg_attr(kani, kani::unwind(10))] fn c04_closure_shr_ops_w60() { closure_shr_ops::<60, 1>() }
    #[cfg_attr(kani, kani::unwind(18))] fn c04_closure_shr_ops_w65() { closure_shr_ops::<65, 2>() }
    #[cfg_attr(kani, kani::unwind(18))] fn c04_closure_shr_ops_w100() { closure_shr_ops::<100, 2>() }
    #[cfg_attr(kani, kani::unwind(34))] fn c04_closure_shr_ops_w250() { closure_shr_ops::<250, 4>() }
    #[cfg_attr(kani, kani::unwind(10))] fn c04_closure_ashr_w1() { closure_ashr::<1, 1>() }
    #[cfg_attr(kani, kani::unwind(10))] fn c04_closure_ashr_w7() { closure_ashr::<7, 1>() }
    #[cfg_attr(kani, kani::unwind(10))] fn c04_closure_ashr_w60() { closure_ashr::<60, 1>() }
    #[cfg_attr(kani, kani::unwind(18))] fn c04_closure_ashr_w65() { closure_ashr::<65, 2>() }
    #[cfg_attr(kani, kani::unwind(18))] fn c04_closure_ashr_w100() { closure_ashr::<100, 2>() }
    #[cfg_attr(kani, kani::unwind(34))] fn c04_closure_ashr_w250() { closure_ashr::<250, 4>() }
    #[cfg_attr(kani, kani::unwind(10))] fn c04_closure_rot_w1() { closure_rot::<1, 1>() }
    #[cfg_attr(kani, kani::unwind(10))] fn c04_closure_rot_w7() { closure_rot::<7, 1>() }
    #[cfg_attr(kani, kani::unwind(10))] fn c04_closure_rot_w60() { closure_rot::<60, 1>() }
    #[cfg_attr(kani, kani::unwind(18))] fn c04_closure_rot_w65() { closure_rot::<65, 2>() }
    #[cfg_attr(kani, kani::unwind(18))] fn c04_closure_rot_w100() { closure_rot::<100, 2>() }
    #[cfg_attr(kani, kani::unwind(34))] fn c04_closure_rot_w250() { closure_rot::<250, 4>() }

    #[cfg_attr(kani, kani::unwind(10))] fn c04_closure_misc_w1() { closure_misc::<1, 1>() }
    #[cfg_attr(kani, kani::unwind(10))] fn c04_closure_misc_w7() { closure_misc::<7, 1>() }
    #[cfg_attr(kani, kani::unwind(10))] fn c04_closure_misc_w60() { closure_misc::<60, 1>() }
    #[cfg_attr(kani, kani::unwind(18))] fn c04_closure_misc_w65() { closure_misc::<65, 2>() }
    #[cfg_attr(kani, kani::unwind(18))] fn c04_closure_misc_w100() { closure_misc::<100, 2>() }
    #[cfg_attr(kani, kani::unwind(34))] fn c04_closure_misc_w250() { closure_misc::<250, 4>() }

    #[cfg_attr(kani, kani::unwind(8))] fn c04_closure_limbs_slice_w1() { closure_limbs_slice::<1, 1, 2>() }
    #[cfg_attr(kani, kani::unwind(8))] fn c04_closure_limbs_slice_w7() { closure_limbs_slice::<7, 1, 2>() }
    #[cfg_attr(kani, kani::unwind(8))] fn c04_closure_limbs_slice_w60() { closure_limbs_slice::<60, 1, 2>() }
    #[cfg_attr(kani, kani::unwind(8))] fn c04_closure_limbs_slice_w65() { closure_limbs_slice::<65, 2, 3>() }
    #[cfg_attr(kani, kani::unwind(8))] fn c04_closure_limbs_slice_w100() { closure_limbs_slice::<100, 2, 3>() }
    #[cfg_attr(kani, kani::unwind(8))] fn c04_closure_limbs_slice_w250() { closure_limbs_slice::<250, 4, 5>() }

    #[cfg_attr(kani, kani::unwind(4))] fn c04_closure_bytes_w1() { closure_bytes::<1, 1, 2>() }
    #[cfg_attr(kani, kani::unwind(4))] fn c04_closure_bytes_w7() { closure_bytes::<7, 1, 2>() }
    #[cfg_attr(kani, kani::unwind(11))] fn c04_closure_bytes_w60() { closure_bytes::<60, 1, 9>() }
    #[cfg_attr(kani, kani::unwind(12))] fn c04_closure_bytes_w65() { closure_bytes::<65, 2, 10>() }
    #[cfg_attr(kani, kani::unwind(16))] fn c04_closure_bytes_w100() { closure_bytes::<100, 2, 14>() }
    #[cfg_attr(kani, kani::unwind(35))] fn c04_closure_bytes_w250() { closure_bytes::<250, 4, 33>() }

    #[cfg_attr(kani, kani::unwind(3))] fn c04_closure_mulw_w7() { closure_mul_wrapping::<7, 1>() }
    #[cfg_attr(kani, kani::unwind(3))] fn c04_closure_mulo_w7() { closure_mul_overflowing::<7, 1>() }
    #[cfg_attr(kani, kani::unwind(3))] fn c04_closure_mulx_w7() { closure_mul_wrappers::<7, 1>() }
    #[cfg_attr(kani, kani::unwind(3))] fn c04_closure_mulw_w60() { closure_mul_wrapping::<60, 1>() }
    #[cfg_attr(kani, kani::unwind(3))] fn c04_closure_mulo_w60() { closure_mul_overflowing::<60, 1>() }
    #[cfg_attr(kani, kani::unwind(4))] fn c04_closure_mulw_w65() { closure_mul_wrapping::<65, 2>() }
    #[cfg_attr(kani, kani::unwind(4))] fn c04_closure_mulw_w100() { closure_mul_wrapping::<100, 2>() }
    #[cfg_attr(kani, kani::unwind(6))] fn c04_closure_mulw_w250() { closure_mul_wrapping::<250, 4>() }
    #[cfg_attr(kani, kani::unwind(4))] fn c04_closure_mulo_w65() { closure_mul_overflowing::<65, 2>() }
    #[cfg_attr(kani, kani::unwind(3))] fn c04_closure_mulx_w60() { closure_mul_wrappers::<60, 1>() }
    #[cfg_attr(kani, kani::unwind(10))] fn c04_closure_pow_w7() { closure_pow7() }
    #[cfg_attr(kani, kani::unwind(3))]
    #[cfg_attr(kani, kani::stub(ruint::algorithms::div::div_nx1, unreachable_div_nx1))]
    #[cfg_attr(kani, kani::stub(ruint::algorithms::div::div_nx2, unreachable_div_nx2))]
    #[cfg_attr(kani, kani::stub(ruint::algorithms::div::div_nxm, unreachable_div_nxm))]
    fn c04_closure_div_rem_w7() { closure_div7(0) }
    #[cfg_attr(kani, kani::unwind(3))]
    #[cfg_attr(kani, kani::stub(ruint::algorithms::div::div_nx1, unreachable_div_nx1))]
    #[cfg_attr(kani, kani::stub(ruint::algorithms::div::div_nx2, unreachable_div_nx2))]
    #[cfg_attr(kani, kani::stub(ruint::algorithms::div::div_nxm, unreachable_div_nxm))]
    fn c04_closure_div_w7() { closure_div7(1) }
    #[cfg_attr(kani, kani::unwind(3))]
    #[cfg_attr(kani, kani::stub(ruint::algorithms::div::div_nx1, unreachable_div_nx1))]
    #[cfg_attr(kani, kani::stub(ruint::algorithms::div::div_nx2, unreachable_div_nx2))]
    #[cfg_attr(kani, kani::stub(ruint::algorithms::div::div_nxm, unreachable_div_nxm))]
    fn c04_closure_rem_w7() { closure_div7(2) }
    #[cfg_attr(kani, kani::unwind(10))]
    #[cfg_attr(kani, kani::stub(ruint::algorithms::div::div_nx1, unreachable_div_nx1))]
    #[cfg_attr(kani, kani::stub(ruint::algorithms::div::div_nx2, unreachable_div_nx2))]
    #[cfg_attr(kani, kani::stub(ruint::algorithms::div::div_nxm, unreachable_div_nxm))]
    fn c04_closure_checked_div_w7() { closure_div7(3) }
    #[cfg_attr(kani, kani::unwind(10))]
    #[cfg_attr(kani, kani::stub(ruint::algorithms::div::div_nx1, unreachable_div_nx1))]
    #[cfg_attr(kani, kani::stub(ruint::algorithms::div::div_nx2, unreachable_div_nx2))]
    #[cfg_attr(kani, kani::stub(ruint::algorithms::div::div_nxm, unreachable_div_nxm))]
    fn c04_closure_div_ceil_w7() { closure_div7(4) }
    #[cfg_attr(kani, kani::unwind(10))]
    #[cfg_attr(kani, kani::stub(ruint::algorithms::div::div_nx1, unreachable_div_nx1))]
    #[cfg_attr(kani, kani::stub(ruint::algorithms::div::div_nx2, unreachable_div_nx2))]
    #[cfg_attr(kani, kani::stub(ruint::algorithms::div::div_nxm, unreachable_div_nxm))]
    fn c04_closure_reduce_mod_w7() { closure_mod7(0) }
    #[cfg_attr(kani, kani::unwind(10))]
    #[cfg_attr(kani, kani::stub(ruint::algorithms::div::div_nx1, unreachable_div_nx1))]
    #[cfg_attr(kani, kani::stub(ruint::algorithms::div::div_nx2, unreachable_div_nx2))]
    #[cfg_attr(kani, kani::stub(ruint::algorithms::div::div_nxm, unreachable_div_nxm))]
    fn c04_closure_add_mod_w7() { closure_mod7(1) }

    #[cfg_attr(kani, kani::unwind(10))] fn c04_reject_none_w7() { reject_none::<7, 1, 1>() }
    #[cfg_attr(kani, kani::unwind(12))] fn c04_reject_none_w60() { reject_none::<60, 1, 8>() }
    #[cfg_attr(kani, kani::unwind(12))] fn c04_reject_none_w65() { reject_none::<65, 2, 9>() }
    #[cfg_attr(kani, kani::unwind(35))] fn c04_reject_none_w250() { reject_none::<250, 4, 32>() }
    #[cfg_attr(kani, kani::unwind(6))] #[cfg_attr(kani, kani::should_panic)] fn c04_reject_from_limbs_w7_must_panic() { reject_from_limbs::<7, 1>() }
    #[cfg_attr(kani, kani::unwind(6))] #[cfg_attr(kani, kani::should_panic)] fn c04_reject_from_limbs_w60_must_panic() { reject_from_limbs::<60, 1>() }
    #[cfg_attr(kani, kani::unwind(6))] #[cfg_attr(kani, kani::should_panic)] fn c04_reject_from_limbs_w65_must_panic() { reject_from_limbs::<65, 2>() }
    #[cfg_attr(kani, kani::unwind(6))] #[cfg_attr(kani, kani::should_panic)] fn c04_reject_from_limbs_slice_w7_must_panic() { reject_from_limbs_slice::<7, 1>() }
    #[cfg_attr(kani, kani::unwind(6))] #[cfg_attr(kani, kani::should_panic)] fn c04_reject_from_limbs_slice_w60_must_panic() { reject_from_limbs_slice::<60, 1>() }
    #[cfg_attr(kani, kani::unwind(6))] #[cfg_attr(kani, kani::should_panic)] fn c04_reject_from_limbs_slice_w65_must_panic() { reject_from_limbs_slice::<65, 2>() }
    #[cfg_attr(kani, kani::unwind(12))] #[cfg_attr(kani, kani::should_panic)] fn c04_reject_from_le_slice_w60_must_panic() { reject_from_le_slice::<60, 1, 8>() }
    #[cfg_attr(kani, kani::unwind(12))] #[cfg_attr(kani, kani::should_panic)] fn c04_reject_from_le_slice_w65_must_panic() { reject_from_le_slice::<65, 2, 9>() }
    #[cfg_attr(kani, kani::unwind(12))] #[cfg_attr(kani, kani::should_panic)] fn c04_reject_from_be_slice_w60_must_panic() { reject_from_be_slice::<60, 1, 8>() }
    #[cfg_attr(kani, kani::unwind(12))] #[cfg_attr(kani, kani::should_panic)] fn c04_reject_from_be_slice_w65_must_panic() { reject_from_be_slice::<65, 2, 9>() }

}

// ---------------------------------------------------------------- Arbitrary (only with `--features codecs`)
/// `arbitrary::Arbitrary for Uint` driven by 0..=N symbolic bytes: every Ok value is canonical.
#[cfg(feature = "codecs")]
pub mod arb {
    use super::canon;
    use crate::sym::*;
    use ruint::Uint;
    fn arbitrary_canon<const B: usize, const L: usize, const N: usize>() {
        use arbitrary::{Arbitrary, Unstructured};
        let bytes: [u8; N] = any();
        let n: usize = any();
        assume(n <= N);
        let mut u = Unstructured::new(&bytes[..n]);
        if let Ok(v) = Uint::<B, L>::arbitrary(&mut u) {
            assert!(canon(v), "Arbitrary yields canonical values");
            #[cfg(kani)]
            kani::cover!(v.as_limbs()[L - 1] == Uint::<B, L>::MASK, "Arbitrary returned Ok with a full top limb");
        }
    }
    crate::harnesses! {
        #[cfg_attr(kani, kani::unwind(12))] fn c04_arbitrary_w7() { arbitrary_canon::<7, 1, 9>() }
        #[cfg_attr(kani, kani::unwind(12))] fn c04_arbitrary_w60() { arbitrary_canon::<60, 1, 9>() }
        #[cfg_attr(kani, kani::unwind(20))] fn c04_arbitrary_w65() { arbitrary_canon::<65, 2, 17>() }
        #[cfg_attr(kani, kani::unwind(20))] fn c04_arbitrary_w100() { arbitrary_canon::<100, 2, 17>() }
    }
}

//! C13 - logarithms and roots: panic-freedom, None conditions, values (ruint src/log.rs, src/root.rs; pow is elsewhere).
//!
//! SYMBOLIC (all canonical values of the width; ~1 s each; unwind = 8 LIMBS + 2 for the memcmp of is_zero):
//!  * `c13_log2_w{1,2,3,4,8,64,65,250}`: checked_log2(x) is None iff x == 0, else Some(index of the highest set bit);
//!    log2(x) returns the same for x != 0 (no panic).  Oracle: highest non-zero limb and u64::leading_zeros.
//!  * `c13_none_for_zero_w{1,2,3,4,8,64,65}`: x = 0 (the constant: the only canonical zero), base symbolic:
//!    checked_log(base), checked_log10(), checked_log2() are None, no panic - also where 2 / 10 do not fit the type.
//!  * `c13_none_for_small_base_w{..}`: x symbolic, base = 0 and base = 1: checked_log is None, no panic.
//!  * `c13_log10_tiny_w{1,2,3}` (ten does not fit): checked_log10(x) is None iff x == 0, else Some(0); log10(x) == 0.
//!  * `c13_*_must_panic` (should_panic + "never returns" loop, see c03p): log2(0) at 1, 8, 64, 65; log10(0) at 1, 3, 4, 8,
//!    64; log(0, base) for every base, log(x, 0) and log(x, 1) for every x at 1, 4, 8, 64; root(x, 0) for every x at
//!    1, 8, 64, 65.
//!  * `c13_root_early_w{1,2,3,4,8,64,65}`: root(0, d) == 0 for EVERY d >= 1 (d symbolic); for every x: root(x, d) == 1
//!    (0 for x == 0) for d in {BITS, BITS+1, 2 BITS+3, 64, 65, 1000, usize::MAX} restricted to d >= BITS, and root(x, 1) == x.
//!    BOUNDED: the degrees >= BITS are a fixed list, not symbolic (a symbolic degree drags the Newton loop, with its
//!    pow / division, into the formula; the code tests `degree >= BITS` once, before anything else).
//!    Together with the value harnesses below this gives "None exactly for x == 0 or base < 2" at the tiny widths.
//!
//! VALUES, `fl::` - CONCRETE ENUMERATION with libm stubbed.  `log` (base > 2, x >= base) and `root` (1 < degree < BITS)
//! start from f64 estimates (`f64::log2`, `f64::exp2`) and then correct them with checked_pow / division loops whose
//! trip count is data dependent.  CBMC's libm model of log2 / exp2 is a NONDETERMINISTIC interval, which makes the loop
//! conditions symbolic (checked: the single pair log(15, 3) at 4 bits without stubs has no result in 240 s), so the value harnesses replace `f64::log2` / `f64::exp2`
//! (`-Z stubbing`) by the deterministic IEEE-arithmetic models `log2_model` (digit recurrence, exact on powers of two,
//! error < 2^-39) and `exp2_model` (exact power of two times a 22-term Taylor polynomial), and execute the real code on
//! every listed input one by one (no symbolic operand; unwind 45 = the 40 iterations of log2_model, otherwise only an
//! upper bound).  ASSUMPTION made visible: the platform libm is at least that accurate.  The replay binary runs the same
//! harnesses natively with the REAL libm (all hold; natively also checked once, outside the suite: every (x, base) and
//! every (x, degree <= 11) at 8 bits).  One execution of the float path costs 8 - 15 s of CBMC time, hence the lists:
//!  * `c13_log_values_w2`, `c13_log_values_w3_{a..e}`: checked_log(x, base) == Some(floor(log_base x)) for ALL x >= 1 and
//!    ALL base >= 2 at 2 and 3 bits (complete).  Oracle: count the powers of base that are <= x.
//!  * `c13_log_samples_w4_{a,b}`, `c13_log_samples_w8_{a,b,c}`: the same on 8 pairs at 4 bits, 9 pairs at 8 bits
//!    (exact powers, one below, largest values, base == x, base == x + 1, base 2 and 16).  BOUNDED: listed pairs only.
//!  * `c13_log10_values_w4_{a,b}`: checked_log10 == Some(floor(log10 x)) for ALL x in 1..=15;
//!    `c13_log10_samples_w8_{a,b,c}`: x in {1, 9, 10, 11, 99, 100, 101, 200, 255}.  BOUNDED at 8 bits.
//!  * `c13_log_direct_w4`: the panicking entry points themselves, log(x, base) on 3 pairs and log10(x) on {9, 10}
//!    (checked_log is `Some(self.log(base))`, so the value harnesses already run `log`).
//!  * `c13_root_values_w3_{a,b}`: root(x, 2) for ALL x at 3 bits; `c13_root{2,3}_values_w4_{a,b,c}`: root(x, 2) and
//!    root(x, 3) == floor(x^(1/d)) for ALL x in 1..=15; `c13_root_samples_w8_{a,b,c}`: 8-bit x in {255, 64, 63} with d in
//!    {2, 3}, {16, 15} with d in {2, 7}, {128, 127, 255} with d = 7.  Oracle: largest r with r^d <= x.  BOUNDED at 8 bits.
//!
//! NOT covered: values of log / log10 / root above 8 bits and the unlisted 8-bit inputs (cost only); approx_log,
//! approx_log2, approx_log10, approx_pow2 as such (f64 results); the claim "for every libm" (see the assumption above);
//! root with 1 < degree < BITS on symbolic x; checked_log / checked_log10 returning Some (not None) on symbolic x != 0 at
//! 64 bits (goes through the float path).
//! Measured (cargo kani, -j 8): symbolic and must_panic harnesses 0.4 - 2 s each; `fl::` 18 - 63 s each (30 harnesses).
use crate::oracle as o;
use crate::sym::*;
use ruint::Uint;

/// Placed after a call that must not return (see c03p): under Kani an endless loop = unwinding failure, which a
/// should_panic harness does not tolerate; natively a panic with a distinct message.
fn returned() {
    #[cfg(kani)]
    { let mut i: u8 = 0; loop { i = i.wrapping_add(1); } }
    #[cfg(not(kani))]
    panic!("REPLAY: the call returned although it must panic");
}

// ---------------------------------------------------------------- deterministic models of libm log2 / exp2
/// log2 of a finite x >= 1 by the square-and-compare digit recurrence in IEEE double arithmetic: exact for powers of
/// two, otherwise truncated after 40 fractional bits (error < 2^-39).  Replaces `f64::log2` under Kani (CBMC's own
/// model of log2 is a NONDETERMINISTIC interval, which makes every loop of `log` / `root` symbolic).
pub fn log2_model(x: f64) -> f64 {
    assert!(x >= 1.0 && x <= 18446744073709551616.0, "log2 model: argument in [1, 2^64]");
    let bits = x.to_bits();
    let e = ((bits >> 52) & 0x7ff) as i64 - 1023;
    let mut y = f64::from_bits((bits & ((1u64 << 52) - 1)) | (1023u64 << 52)); // mantissa in [1, 2)
    let mut frac = 0.0f64;
    let mut w = 0.5f64;
    let mut k = 0;
    while k < 40 {
        y = y * y;
        if y >= 2.0 { frac += w; y *= 0.5; }
        w *= 0.5;
        k += 1;
    }
    e as f64 + frac
}
/// exp2 of a finite 0 <= x <= 1024: 2^trunc(x) built from bits, times the Taylor polynomial of e^(fract(x) ln 2)
/// (22 terms, remainder < 1e-22); exact for integral x.
pub fn exp2_model(x: f64) -> f64 {
    assert!(x >= 0.0 && x <= 1024.0, "exp2 model: argument in [0, 1024]");
    let n = x as u64;
    let t = (x - n as f64) * core::f64::consts::LN_2;
    let (mut term, mut sum) = (1.0f64, 1.0f64);
    let mut k = 1;
    while k <= 22 {
        term = term * t / (k as f64);
        sum += term;
        k += 1;
    }
    f64::from_bits((n + 1023) << 52) * sum
}
/// harnesses that run `log` / `root` past their early returns: libm replaced by the deterministic models
macro_rules! libm_stubs {
    ($($(#[$m:meta])* fn $name:ident() $body:block)*) => {
        crate::harnesses! { $(
            $(#[$m])*
            #[cfg_attr(kani, kani::stub(f64::log2, log2_model))]
            #[cfg_attr(kani, kani::stub(f64::exp2, exp2_model))]
            fn $name() $body
        )* }
    };
}

// ---------------------------------------------------------------- oracles
/// index of the highest set bit of a non-zero limb array
fn top_bit<const L: usize>(a: &[u64; L]) -> usize {
    let (mut r, mut i) = (0, 0);
    while i < L {
        if a[i] != 0 { r = 64 * i + 63 - a[i].leading_zeros() as usize; }
        i += 1;
    }
    r
}
/// floor(log_base(x)) for 1 <= x < 2^16, 2 <= base: count the powers of base that are <= x
fn ilog(x: u32, base: u32) -> usize {
    let (mut p, mut k) = (base, 0);
    while p <= x { p *= base; k += 1; } // p < 2^16 * 2^16
    k
}
/// floor(x^(1/d)) for x < 2^16, d >= 1: the largest r with r^d <= x
fn iroot(x: u32, d: u32) -> u32 {
    let mut r = 0u32;
    loop {
        // (r + 1)^d, saturated above x
        let (mut p, mut i) = (1u32, 0);
        while i < d && p <= x { p *= r + 1; i += 1; }
        if p > x { return r; }
        r += 1;
    }
}
fn mk<const B: usize>(v: u32) -> Uint<B, 1> { Uint::from_limbs([v as u64]) }

// ---------------------------------------------------------------- log2 (symbolic, every width)
fn log2_body<const B: usize, const L: usize>() {
    let x = uint::<B, L>();
    let z = o::is_zero(x.as_limbs());
    let want = top_bit(x.as_limbs());
    match x.checked_log2() {
        None => assert!(z, "checked_log2: None only for 0"),
        Some(v) => assert!(!z && v == want, "checked_log2: Some(index of the highest set bit) for x != 0"),
    }
    if !z {
        assert!(x.log2() == want, "log2 == bit_len - 1 for x != 0 (no panic)");
    }
}

// ---------------------------------------------------------------- None conditions (no libm involved)
/// x == 0: all three checked logarithms are None, for every base
fn none_for_zero<const B: usize, const L: usize>() {
    let x = Uint::<B, L>::ZERO;
    let base = uint::<B, L>();
    assert!(x.checked_log(base).is_none(), "checked_log(0, base) is None");
    assert!(x.checked_log10().is_none(), "checked_log10(0) is None");
    assert!(x.checked_log2().is_none(), "checked_log2(0) is None");
}
/// base < 2: checked_log is None for every x
fn none_for_small_base<const B: usize, const L: usize>() {
    let x = uint::<B, L>();
    assert!(x.checked_log(Uint::<B, L>::ZERO).is_none(), "checked_log(x, 0) is None");
    if B >= 1 {
        assert!(x.checked_log(Uint::<B, L>::from_limbs({ let mut l = [0u64; L]; l[0] = 1; l })).is_none(), "checked_log(x, 1) is None");
    }
}
/// widths where ten does not fit (BITS <= 3): checked_log10 is Some(0) for every x != 0, log10 returns 0
fn log10_tiny<const B: usize>() {
    let x = uint::<B, 1>();
    let z = x.as_limbs()[0] == 0;
    match x.checked_log10() {
        None => assert!(z, "checked_log10: None only for 0"),
        Some(v) => assert!(!z && v == 0, "checked_log10: Some(0) for 0 < x < 10"),
    }
    if !z { assert!(x.log10() == 0, "log10 == 0 for 0 < x < 10 (no panic)"); }
}
/// which: 0 log2(0), 1 log10(0), 2 log(0, base), 3 log(x, 0), 4 log(x, 1)
fn log_panics<const B: usize, const L: usize>(which: u8) {
    let z = Uint::<B, L>::ZERO;
    let one = Uint::<B, L>::from_limbs({ let mut l = [0u64; L]; l[0] = 1; l });
    let s = uint::<B, L>();
    match which {
        0 => { let _ = z.log2(); }
        1 => { let _ = z.log10(); }
        2 => { let _ = z.log(s); }
        3 => { let _ = s.log(z); }
        _ => { let _ = s.log(one); }
    }
    returned();
}

// ---------------------------------------------------------------- log values: every listed (x, base) executed concretely
fn log_one<const B: usize>(xv: u32, bv: u32) {
    let want = ilog(xv, bv);
    let (x, b) = (mk::<B>(xv), mk::<B>(bv));
    // checked_log is `Some(self.log(base))` behind the None test: one call covers the value and the panic-freedom of
    // both (a second call would double the ~10 s each execution of the float path costs); `log` itself: `log_direct`
    assert!(x.checked_log(b) == Some(want), "checked_log == Some(floor(log_base(x))) for x >= 1, base >= 2");
}
/// all x in xlo..xhi, all bases in blo..bhi
fn log_range<const B: usize>(xlo: u32, xhi: u32, blo: u32, bhi: u32) {
    let mut xv = xlo;
    while xv < xhi {
        let mut bv = blo;
        while bv < bhi { log_one::<B>(xv, bv); bv += 1; }
        xv += 1;
    }
}
fn log_pairs<const B: usize>(pairs: &[(u32, u32)]) {
    let mut i = 0;
    while i < pairs.len() { log_one::<B>(pairs[i].0, pairs[i].1); i += 1; }
}
fn log10_list<const B: usize>(xs: &[u32]) {
    let mut i = 0;
    while i < xs.len() {
        let want = ilog(xs[i], 10);
        let x = mk::<B>(xs[i]);
        assert!(x.checked_log10() == Some(want), "checked_log10 == Some(floor(log10(x))) for x >= 1");
        i += 1;
    }
}
/// log10 / checked_log10 / log(10) at 64 bits on powers of ten and their lower neighbours (where a rounded float logarithm is
/// off by one): all three forms must give `want`. Concrete values (BOUNDED).
fn log10_pow10_w64(cases: &[(u64, usize)]) {
    let mut i = 0;
    while i < cases.len() {
        let x = Uint::<64, 1>::from_limbs([cases[i].0]);
        let want = cases[i].1;
        assert!(x.checked_log10() == Some(want), "checked_log10 == Some(floor(log10(x))) at 64 bits");
        assert!(x.log10() == want, "log10 == floor(log10(x)) at 64 bits");
        i += 1;
    }
}
/// the panicking entry points called directly, on a few values
fn log_direct<const B: usize>(pairs: &[(u32, u32)], tens: &[u32]) {
    let mut i = 0;
    while i < pairs.len() {
        assert!(mk::<B>(pairs[i].0).log(mk::<B>(pairs[i].1)) == ilog(pairs[i].0, pairs[i].1), "log == floor(log_base(x)) (no panic)");
        i += 1;
    }
    let mut i = 0;
    while i < tens.len() {
        assert!(mk::<B>(tens[i]).log10() == ilog(tens[i], 10), "log10 == floor(log10(x)) (no panic)");
        i += 1;
    }
}

// ---------------------------------------------------------------- root
/// the early returns: x == 0 -> 0 (any degree >= 1); degree >= BITS -> 1 for x != 0; degree == 1 -> x
fn root_early<const B: usize, const L: usize>() {
    let d: usize = any();
    assume(d >= 1);
    assert!(o::is_zero(Uint::<B, L>::ZERO.root(d).as_limbs()), "root(0, d) == 0 for every d >= 1");
    let x = uint::<B, L>();
    let nz = !o::is_zero(x.as_limbs());
    let mut one = [0u64; L];
    if L > 0 { one[0] = 1; }
    // the degree is concrete in each call: a symbolic degree would drag the Newton iteration into the formula
    let degs = [B, B + 1, 2 * B + 3, 64, 65, 1000, usize::MAX];
    let mut i = 0;
    while i < degs.len() {
        if degs[i] >= B && degs[i] >= 1 {
            let r = x.root(degs[i]);
            assert!(o::same(r.as_limbs(), &if nz { one } else { [0u64; L] }), "root(x, d) == 1 for d >= BITS, x != 0 (0 for x == 0)");
        }
        i += 1;
    }
    assert!(ueq(x.root(1), x), "root(x, 1) == x");
}
fn root_degree0<const B: usize, const L: usize>() {
    let x = uint::<B, L>();
    let _ = x.root(0);
    returned();
}
/// every listed x with every listed degree
fn root_list<const B: usize>(xs: &[u32], degs: &[u32]) {
    let mut i = 0;
    while i < xs.len() {
        let mut j = 0;
        while j < degs.len() {
            let want = iroot(xs[i], degs[j]);
            let r = mk::<B>(xs[i]).root(degs[j] as usize);
            assert!(r.as_limbs()[0] == want as u64, "root == floor(x^(1/degree))");
            j += 1;
        }
        i += 1;
    }
}

pub mod fl {
    use super::*;
    libm_stubs! {
        #[cfg_attr(kani, kani::unwind(45))] fn c13_log_values_w2() { log_range::<2>(1, 4, 2, 4) }
        #[cfg_attr(kani, kani::unwind(45))] fn c13_log_values_w3_a() { log_range::<3>(1, 4, 2, 8) }
        #[cfg_attr(kani, kani::unwind(45))] fn c13_log_values_w3_b() { log_range::<3>(4, 5, 2, 8) }
        #[cfg_attr(kani, kani::unwind(45))] fn c13_log_values_w3_c() { log_range::<3>(5, 6, 2, 8) }
        #[cfg_attr(kani, kani::unwind(45))] fn c13_log_values_w3_d() { log_range::<3>(6, 7, 2, 8) }
        #[cfg_attr(kani, kani::unwind(45))] fn c13_log_values_w3_e() { log_range::<3>(7, 8, 2, 8) }
        #[cfg_attr(kani, kani::unwind(45))] fn c13_log_samples_w4_a() { log_pairs::<4>(&[(15, 3), (9, 3), (8, 3)]) }
        #[cfg_attr(kani, kani::unwind(45))] fn c13_log_samples_w4_b() { log_pairs::<4>(&[(15, 4), (15, 15), (14, 15), (15, 2), (3, 15)]) }
        // odd widths: a base of BITS/2 + 1 bits whose square still fits (perfect squares and their neighbours)
        #[cfg_attr(kani, kani::unwind(45))] fn c13_log_samples_w5() { log_pairs::<5>(&[(25, 5), (24, 5), (16, 4), (31, 5)]) }
        #[cfg_attr(kani, kani::unwind(45))] fn c13_log_samples_w7() { log_pairs::<7>(&[(121, 11), (120, 11), (127, 11), (64, 8)]) }
        #[cfg_attr(kani, kani::unwind(45))] fn c13_log_samples_w8_a() { log_pairs::<8>(&[(255, 3), (243, 3), (242, 3)]) }
        #[cfg_attr(kani, kani::unwind(45))] fn c13_log_samples_w8_b() { log_pairs::<8>(&[(255, 255), (254, 255), (255, 16)]) }
        #[cfg_attr(kani, kani::unwind(45))] fn c13_log_samples_w8_c() { log_pairs::<8>(&[(225, 15), (224, 15), (100, 10)]) }
        #[cfg_attr(kani, kani::unwind(45))] fn c13_log10_values_w4_a() { log10_list::<4>(&[1, 2, 3, 4, 5, 6, 7, 8, 9, 10, 11]) }
        #[cfg_attr(kani, kani::unwind(45))] fn c13_log10_values_w4_b() { log10_list::<4>(&[12, 13, 14, 15]) }
        #[cfg_attr(kani, kani::unwind(70))] fn c13_log10_pow10_w64_a() { log10_pow10_w64(&[(999_999_999_999_999, 14), (1_000_000_000_000_000, 15)]) }
        #[cfg_attr(kani, kani::unwind(70))] fn c13_log10_pow10_w64_b() { log10_pow10_w64(&[(9_999_999_999_999_999, 15), (99_999_999_999_999_999, 16), (u64::MAX, 19)]) }
        #[cfg_attr(kani, kani::unwind(45))] fn c13_log10_samples_w8_a() { log10_list::<8>(&[1, 9, 10, 11]) }
        #[cfg_attr(kani, kani::unwind(45))] fn c13_log10_samples_w8_b() { log10_list::<8>(&[99, 100, 101]) }
        #[cfg_attr(kani, kani::unwind(45))] fn c13_log10_samples_w8_c() { log10_list::<8>(&[200, 255]) }
        #[cfg_attr(kani, kani::unwind(45))] fn c13_log_direct_w4() { log_direct::<4>(&[(9, 3), (8, 3), (2, 3)], &[9, 10]) }
        #[cfg_attr(kani, kani::unwind(45))] fn c13_root_values_w3_a() { root_list::<3>(&[1, 2, 3, 4], &[2]) }
        #[cfg_attr(kani, kani::unwind(45))] fn c13_root_values_w3_b() { root_list::<3>(&[5, 6, 7], &[2]) }
        #[cfg_attr(kani, kani::unwind(45))] fn c13_root2_values_w4_a() { root_list::<4>(&[1, 2, 3, 4, 5], &[2]) }
        #[cfg_attr(kani, kani::unwind(45))] fn c13_root2_values_w4_b() { root_list::<4>(&[6, 7, 8, 9, 10], &[2]) }
        #[cfg_attr(kani, kani::unwind(45))] fn c13_root2_values_w4_c() { root_list::<4>(&[11, 12, 13, 14, 15], &[2]) }
        #[cfg_attr(kani, kani::unwind(45))] fn c13_root3_values_w4_a() { root_list::<4>(&[1, 2, 3, 4, 5], &[3]) }
        #[cfg_attr(kani, kani::unwind(45))] fn c13_root3_values_w4_b() { root_list::<4>(&[6, 7, 8, 9, 10], &[3]) }
        #[cfg_attr(kani, kani::unwind(45))] fn c13_root3_values_w4_c() { root_list::<4>(&[11, 12, 13, 14, 15], &[3]) }
        // the boundary degree == BITS (the early exit `degree >= BITS` must cover it: the Newton iteration overflows there)
        #[cfg_attr(kani, kani::unwind(45))] fn c13_root_degree_bits_w3() { root_list::<3>(&[7, 6, 5, 1], &[3]) }
        #[cfg_attr(kani, kani::unwind(45))] fn c13_root_degree_bits_w4() { root_list::<4>(&[15, 14, 13, 1], &[4]) }
        #[cfg_attr(kani, kani::unwind(45))] fn c13_root_degree_bits_w8() { root_list::<8>(&[255, 250, 249, 1], &[8]) }
        #[cfg_attr(kani, kani::unwind(45))] fn c13_root_samples_w8_a() { root_list::<8>(&[255, 64, 63], &[2, 3]) }
        #[cfg_attr(kani, kani::unwind(45))] fn c13_root_samples_w8_b() { root_list::<8>(&[16, 15], &[2, 7]) }
        #[cfg_attr(kani, kani::unwind(45))] fn c13_root_samples_w8_c() { root_list::<8>(&[128, 127, 255], &[7]) }
    }
}

crate::harnesses! {
    #[cfg_attr(kani, kani::unwind(10))] fn c13_log2_w1() { log2_body::<1, 1>() }
    #[cfg_attr(kani, kani::unwind(10))] fn c13_log2_w2() { log2_body::<2, 1>() }
    #[cfg_attr(kani, kani::unwind(10))] fn c13_log2_w3() { log2_body::<3, 1>() }
    #[cfg_attr(kani, kani::unwind(10))] fn c13_log2_w4() { log2_body::<4, 1>() }
    #[cfg_attr(kani, kani::unwind(10))] fn c13_log2_w8() { log2_body::<8, 1>() }
    #[cfg_attr(kani, kani::unwind(10))] fn c13_log2_w64() { log2_body::<64, 1>() }
    #[cfg_attr(kani, kani::unwind(18))] fn c13_log2_w65() { log2_body::<65, 2>() }
    #[cfg_attr(kani, kani::unwind(34))] fn c13_log2_w250() { log2_body::<250, 4>() }

    #[cfg_attr(kani, kani::unwind(10))] fn c13_none_for_zero_w1() { none_for_zero::<1, 1>() }
    #[cfg_attr(kani, kani::unwind(10))] fn c13_none_for_zero_w2() { none_for_zero::<2, 1>() }
    #[cfg_attr(kani, kani::unwind(10))] fn c13_none_for_zero_w3() { none_for_zero::<3, 1>() }
    #[cfg_attr(kani, kani::unwind(10))] fn c13_none_for_zero_w4() { none_for_zero::<4, 1>() }
    #[cfg_attr(kani, kani::unwind(10))] fn c13_none_for_zero_w8() { none_for_zero::<8, 1>() }
    #[cfg_attr(kani, kani::unwind(10))] fn c13_none_for_zero_w64() { none_for_zero::<64, 1>() }
    #[cfg_attr(kani, kani::unwind(18))] fn c13_none_for_zero_w65() { none_for_zero::<65, 2>() }
    #[cfg_attr(kani, kani::unwind(10))] fn c13_none_for_small_base_w1() { none_for_small_base::<1, 1>() }
    #[cfg_attr(kani, kani::unwind(10))] fn c13_none_for_small_base_w2() { none_for_small_base::<2, 1>() }
    #[cfg_attr(kani, kani::unwind(10))] fn c13_none_for_small_base_w3() { none_for_small_base::<3, 1>() }
    #[cfg_attr(kani, kani::unwind(10))] fn c13_none_for_small_base_w4() { none_for_small_base::<4, 1>() }
    #[cfg_attr(kani, kani::unwind(10))] fn c13_none_for_small_base_w8() { none_for_small_base::<8, 1>() }
    #[cfg_attr(kani, kani::unwind(10))] fn c13_none_for_small_base_w64() { none_for_small_base::<64, 1>() }
    #[cfg_attr(kani, kani::unwind(18))] fn c13_none_for_small_base_w65() { none_for_small_base::<65, 2>() }
    #[cfg_attr(kani, kani::unwind(10))] fn c13_log10_tiny_w1() { log10_tiny::<1>() }
    #[cfg_attr(kani, kani::unwind(10))] fn c13_log10_tiny_w2() { log10_tiny::<2>() }
    #[cfg_attr(kani, kani::unwind(10))] fn c13_log10_tiny_w3() { log10_tiny::<3>() }

    #[cfg_attr(kani, kani::unwind(10))] #[cfg_attr(kani, kani::should_panic)] fn c13_log2_zero_w1_must_panic() { log_panics::<1, 1>(0) }
    #[cfg_attr(kani, kani::unwind(10))] #[cfg_attr(kani, kani::should_panic)] fn c13_log2_zero_w8_must_panic() { log_panics::<8, 1>(0) }
    #[cfg_attr(kani, kani::unwind(10))] #[cfg_attr(kani, kani::should_panic)] fn c13_log2_zero_w64_must_panic() { log_panics::<64, 1>(0) }
    #[cfg_attr(kani, kani::unwind(18))] #[cfg_attr(kani, kani::should_panic)] fn c13_log2_zero_w65_must_panic() { log_panics::<65, 2>(0) }
    #[cfg_attr(kani, kani::unwind(10))] #[cfg_attr(kani, kani::should_panic)] fn c13_log10_zero_w1_must_panic() { log_panics::<1, 1>(1) }
    #[cfg_attr(kani, kani::unwind(10))] #[cfg_attr(kani, kani::should_panic)] fn c13_log10_zero_w3_must_panic() { log_panics::<3, 1>(1) }
    #[cfg_attr(kani, kani::unwind(10))] #[cfg_attr(kani, kani::should_panic)] fn c13_log10_zero_w4_must_panic() { log_panics::<4, 1>(1) }
    #[cfg_attr(kani, kani::unwind(10))] #[cfg_attr(kani, kani::should_panic)] fn c13_log10_zero_w8_must_panic() { log_panics::<8, 1>(1) }
    #[cfg_attr(kani, kani::unwind(10))] #[cfg_attr(kani, kani::should_panic)] fn c13_log10_zero_w64_must_panic() { log_panics::<64, 1>(1) }
    #[cfg_attr(kani, kani::unwind(10))] #[cfg_attr(kani, kani::should_panic)] fn c13_log_zero_w1_must_panic() { log_panics::<1, 1>(2) }
    #[cfg_attr(kani, kani::unwind(10))] #[cfg_attr(kani, kani::should_panic)] fn c13_log_zero_w4_must_panic() { log_panics::<4, 1>(2) }
    #[cfg_attr(kani, kani::unwind(10))] #[cfg_attr(kani, kani::should_panic)] fn c13_log_zero_w8_must_panic() { log_panics::<8, 1>(2) }
    #[cfg_attr(kani, kani::unwind(10))] #[cfg_attr(kani, kani::should_panic)] fn c13_log_zero_w64_must_panic() { log_panics::<64, 1>(2) }
    #[cfg_attr(kani, kani::unwind(10))] #[cfg_attr(kani, kani::should_panic)] fn c13_log_base0_w1_must_panic() { log_panics::<1, 1>(3) }
    #[cfg_attr(kani, kani::unwind(10))] #[cfg_attr(kani, kani::should_panic)] fn c13_log_base0_w4_must_panic() { log_panics::<4, 1>(3) }
    #[cfg_attr(kani, kani::unwind(10))] #[cfg_attr(kani, kani::should_panic)] fn c13_log_base0_w8_must_panic() { log_panics::<8, 1>(3) }
    #[cfg_attr(kani, kani::unwind(10))] #[cfg_attr(kani, kani::should_panic)] fn c13_log_base0_w64_must_panic() { log_panics::<64, 1>(3) }
    #[cfg_attr(kani, kani::unwind(10))] #[cfg_attr(kani, kani::should_panic)] fn c13_log_base1_w1_must_panic() { log_panics::<1, 1>(4) }
    #[cfg_attr(kani, kani::unwind(10))] #[cfg_attr(kani, kani::should_panic)] fn c13_log_base1_w4_must_panic() { log_panics::<4, 1>(4) }
    #[cfg_attr(kani, kani::unwind(10))] #[cfg_attr(kani, kani::should_panic)] fn c13_log_base1_w8_must_panic() { log_panics::<8, 1>(4) }
    #[cfg_attr(kani, kani::unwind(10))] #[cfg_attr(kani, kani::should_panic)] fn c13_log_base1_w64_must_panic() { log_panics::<64, 1>(4) }

    #[cfg_attr(kani, kani::unwind(10))] fn c13_root_early_w1() { root_early::<1, 1>() }
    #[cfg_attr(kani, kani::unwind(10))] fn c13_root_early_w2() { root_early::<2, 1>() }
    #[cfg_attr(kani, kani::unwind(10))] fn c13_root_early_w3() { root_early::<3, 1>() }
    #[cfg_attr(kani, kani::unwind(10))] fn c13_root_early_w4() { root_early::<4, 1>() }
    #[cfg_attr(kani, kani::unwind(10))] fn c13_root_early_w8() { root_early::<8, 1>() }
    #[cfg_attr(kani, kani::unwind(10))] fn c13_root_early_w64() { root_early::<64, 1>() }
    #[cfg_attr(kani, kani::unwind(18))] fn c13_root_early_w65() { root_early::<65, 2>() }
    #[cfg_attr(kani, kani::unwind(10))] #[cfg_attr(kani, kani::should_panic)] fn c13_root_degree0_w1_must_panic() { root_degree0::<1, 1>() }
    #[cfg_attr(kani, kani::unwind(10))] #[cfg_attr(kani, kani::should_panic)] fn c13_root_degree0_w8_must_panic() { root_degree0::<8, 1>() }
    #[cfg_attr(kani, kani::unwind(10))] #[cfg_attr(kani, kani::should_panic)] fn c13_root_degree0_w64_must_panic() { root_degree0::<64, 1>() }
    #[cfg_attr(kani, kani::unwind(18))] #[cfg_attr(kani, kani::should_panic)] fn c13_root_degree0_w65_must_panic() { root_degree0::<65, 2>() }
}

//! C08 — byte encodings (src/bytes.rs, trimming helpers of src/utils.rs).
//!
//! Entry points covered, each for ALL canonical values of the width (encoders) resp. ALL byte strings of every length
//! 0..=BYTES+8 (decoders):
//!  * `enc`   : `BYTES`, `as_le_slice`, `as_le_bytes`, `to_le_bytes::<N>`, `to_be_bytes::<N>`, `to_le_bytes_vec`,
//!              `to_be_bytes_vec`: length == BYTES, byte i (LE) == (limbs[i/8] >> 8(i%8)) & 0xff, BE mirrored.
//!  * `trim_cow` / `trim_le_vec` / `trim_be_vec`: `as_le_bytes_trimmed`, `to_le_bytes_trimmed_vec`,
//!              `to_be_bytes_trimmed_vec` (one entry point per harness): same digits, length == index of the most
//!              significant non-zero byte + 1 (0 for zero) — no superfluous zero byte; `trim_cow` also decodes the
//!              trimmed little-endian form again with `try_from_le_slice` and gets the value back.
//!  * `copy`  : `copy_le_bytes_to` / `copy_be_bytes_to` into a BYTES+3 buffer with symbolic content: returns BYTES,
//!              digits in the first BYTES bytes, the other bytes unchanged.
//!  * `ccopy` : `checked_copy_le_bytes_to` / `checked_copy_be_bytes_to` on `&mut buf[..n]`, n symbolic in 0..=BYTES+3:
//!              None iff n < BYTES and then the whole buffer is unchanged; Some(BYTES) otherwise, digits written,
//!              rest unchanged.
//!  * `dec_le` / `dec_be`: `try_from_le_slice` / `try_from_be_slice` on `&buf[..n]`, buf: [u8; BYTES+8] symbolic,
//!              n symbolic in 0..=BYTES+8: never panics; Some(v) iff n <= BYTES and the denoted value < 2^BITS, and
//!              then v == the denoted value; `from_le_slice` / `from_be_slice` agree whenever that is Some.
//!  * `arr`   : `from_le_bytes::<N>` / `from_be_bytes::<N>` on all arrays whose value fits; round trips
//!              from_le_bytes(to_le_bytes(x)) == x, from_be_bytes(to_be_bytes(x)) == x.
//!  * `*_must_panic`: from_le_slice / from_be_slice with n = BYTES+1 (65 bits), from_le_bytes / from_be_bytes with excess
//!              top bits at 60 bits (BYTES%8==0, BITS%64!=0: the whole-limb fast path), to_le_bytes::<N> with a wrong N.
//! Widths: 0/0, 1/1, 7/1, 8/1, 60/1, 63/1, 64/1, 65/2, 72/2, 100/2, 128/2, 129/3 (N = BYTES given as a literal and
//! checked against (BITS+7)/8; buffer sizes BYTES+3 / BYTES+8 likewise).
//! Bounded: decoder input length <= BYTES+8 (longer inputs take the same `len > BYTES` early return); copy buffers
//! of BYTES+3 bytes. Unwind bound per width = BYTES + 8 + 3 (trim harnesses: BYTES + 3; `trim_be_vec` uses the minisat
//! back end: `Vec::reverse` on a vector of symbolic length made the default solver take 125-300 s at 128 bits, minisat 45 s).
//! Oracle: shifts/masks on the limb array; the denoted value of a byte string is accumulated byte by byte.
//! NOT covered: `as_le_slice_mut` (unsafe accessor), big-endian targets (cfg'd out), "panics for EVERY bad input"
//! (should_panic proves reachability of the panic for the assumed class and absence of other failures).
use crate::oracle as o;
use crate::sym::*;
use ruint::Uint;

/// base-256 digit i of the limb array (little-endian digit order)
fn digit<const L: usize>(a: &[u64; L], i: usize) -> u8 {
    if i / 8 < L { ((a[i / 8] >> (8 * (i % 8))) & 0xff) as u8 } else { 0 }
}

/// number of base-256 digits without the leading zeros (0 for zero)
fn byte_len<const L: usize>(a: &[u64; L], nbytes: usize) -> usize {
    let mut len = 0;
    let mut i = 0;
    while i < nbytes {
        if digit(a, i) != 0 { len = i + 1; }
        i += 1;
    }
    len
}

/// s has length n and holds the digits of `a`, little-endian
fn is_le<const L: usize>(s: &[u8], a: &[u64; L], n: usize) -> bool {
    if s.len() != n { return false; }
    let mut ok = true;
    let mut i = 0;
    while i < n {
        if s[i] != digit(a, i) { ok = false; }
        i += 1;
    }
    ok
}
/// s has length n and holds the digits of `a`, big-endian
fn is_be<const L: usize>(s: &[u8], a: &[u64; L], n: usize) -> bool {
    if s.len() != n { return false; }
    let mut ok = true;
    let mut i = 0;
    while i < n {
        if s[n - 1 - i] != digit(a, i) { ok = false; }
        i += 1;
    }
    ok
}

fn enc<const B: usize, const L: usize, const N: usize>() {
    assert!(N == (B + 7) / 8);
    let x = uint::<B, L>();
    let l = *x.as_limbs();
    assert!(Uint::<B, L>::BYTES == N, "BYTES == ceil(BITS / 8)");
    assert!(is_le(x.as_le_slice(), &l, N), "as_le_slice");
    assert!(is_le(&x.as_le_bytes(), &l, N), "as_le_bytes");
    let a: [u8; N] = x.to_le_bytes::<N>();
    assert!(is_le(&a, &l, N), "to_le_bytes");
    let a: [u8; N] = x.to_be_bytes::<N>();
    assert!(is_be(&a, &l, N), "to_be_bytes");
    assert!(is_le(&x.to_le_bytes_vec(), &l, N), "to_le_bytes_vec");
    assert!(is_be(&x.to_be_bytes_vec(), &l, N), "to_be_bytes_vec");
}

/// trimmed forms: `len` digits, little- resp. big-endian; the loops run to the constant N with a guard so that
/// their bound does not depend on the symbolic length. `which`: 0 = as_le_bytes_trimmed (+ decoding it again),
/// 1 = to_le_bytes_trimmed_vec, 2 = to_be_bytes_trimmed_vec (one entry point per harness: the vectors of symbolic
/// length cost 100-800 s and > 4 GB when all three were in one harness).
fn trim<const B: usize, const L: usize, const N: usize>(which: u8) {
    assert!(N == (B + 7) / 8);
    let x = uint::<B, L>();
    let l = *x.as_limbs();
    let len = byte_len(&l, N);
    if which == 0 {
        let c = x.as_le_bytes_trimmed();
        assert!(c.len() == len, "as_le_bytes_trimmed: length == byte length of the value");
        let mut i = 0;
        while i < N {
            if i < len { assert!(c[i] == digit(&l, i), "as_le_bytes_trimmed: digits"); }
            i += 1;
        }
        assert!(opt_is(Uint::<B, L>::try_from_le_slice(&c), false, x), "try_from_le_slice(trimmed LE) == x");
    } else if which == 1 {
        let v = x.to_le_bytes_trimmed_vec();
        assert!(v.len() == len, "to_le_bytes_trimmed_vec: length == byte length of the value");
        let mut i = 0;
        while i < N {
            if i < len { assert!(v[i] == digit(&l, i), "to_le_bytes_trimmed_vec: digits"); }
            i += 1;
        }
    } else {
        let w = x.to_be_bytes_trimmed_vec();
        assert!(w.len() == len, "to_be_bytes_trimmed_vec: length == byte length of the value");
        let mut i = 0;
        while i < N {
            if i < len { assert!(w[len - 1 - i] == digit(&l, i), "to_be_bytes_trimmed_vec: digits"); }
            i += 1;
        }
    }
}

/// M must be N + 3
fn copy<const B: usize, const L: usize, const N: usize, const M: usize>() {
    assert!(N == (B + 7) / 8 && M == N + 3);
    let x = uint::<B, L>();
    let l = *x.as_limbs();
    let init: [u8; M] = any();
    let mut buf = init;
    let r = x.copy_le_bytes_to(&mut buf);
    assert!(r == N, "copy_le_bytes_to returns BYTES");
    assert!(is_le(&buf[..N], &l, N), "copy_le_bytes_to: digits");
    let mut i = N;
    while i < M { assert!(buf[i] == init[i], "copy_le_bytes_to: bytes beyond BYTES unchanged"); i += 1; }
    let mut buf = init;
    let r = x.copy_be_bytes_to(&mut buf);
    assert!(r == N, "copy_be_bytes_to returns BYTES");
    assert!(is_be(&buf[..N], &l, N), "copy_be_bytes_to: digits");
    let mut i = N;
    while i < M { assert!(buf[i] == init[i], "copy_be_bytes_to: bytes beyond BYTES unchanged"); i += 1; }
}

/// M must be N + 3
fn ccopy<const B: usize, const L: usize, const N: usize, const M: usize>() {
    assert!(N == (B + 7) / 8 && M == N + 3);
    let x = uint::<B, L>();
    let l = *x.as_limbs();
    let init: [u8; M] = any();
    let n: usize = any();
    assume(n <= M);
    let le: bool = any();
    let mut buf = init;
    let r = if le { x.checked_copy_le_bytes_to(&mut buf[..n]) } else { x.checked_copy_be_bytes_to(&mut buf[..n]) };
    if n < N {
        assert!(r.is_none(), "checked_copy: None when the buffer is too short");
        let mut i = 0;
        while i < M { assert!(buf[i] == init[i], "checked_copy: a too short buffer is untouched"); i += 1; }
    } else {
        assert!(r == Some(N), "checked_copy: Some(BYTES) when the buffer is long enough");
        assert!(if le { is_le(&buf[..N], &l, N) } else { is_be(&buf[..N], &l, N) }, "checked_copy: digits");
        let mut i = N;
        while i < M { assert!(buf[i] == init[i], "checked_copy: bytes beyond BYTES unchanged"); i += 1; }
    }
}

/// value denoted by the n bytes s (little- or big-endian): limbs, and whether it is < 2^B
fn denote<const B: usize, const L: usize, const M: usize>(buf: &[u8; M], n: usize, le: bool) -> ([u64; L], bool) {
    let mut val = [0u64; L];
    let mut high = false;
    let mut i = 0;
    while i < M {
        if i < n {
            // byte of weight 256^i
            let b = if le { buf[i] } else { buf[n - 1 - i] };
            if i / 8 < L { val[i / 8] |= (b as u64) << (8 * (i % 8)); } else if b != 0 { high = true; }
        }
        i += 1;
    }
    let fits = !high && (L == 0 || val[L - 1] <= o::mask_of(B));
    (val, fits)
}

/// M must be N + 8
fn dec<const B: usize, const L: usize, const N: usize, const M: usize>(le: bool) {
    assert!(N == (B + 7) / 8 && M == N + 8);
    let buf: [u8; M] = any();
    let n: usize = any();
    assume(n <= M);
    let s = &buf[..n];
    let (val, fits) = denote::<B, L, M>(&buf, n, le);
    let some = n <= N && fits;
    let r = if le { Uint::<B, L>::try_from_le_slice(s) } else { Uint::<B, L>::try_from_be_slice(s) };
    match r {
        None => assert!(!some, "try_from_slice: None only when too long or value >= 2^BITS"),
        Some(v) => {
            assert!(some, "try_from_slice: Some only when len <= BYTES and value < 2^BITS");
            assert!(o::same(v.as_limbs(), &val), "try_from_slice: the denoted value");
        }
    }
    if some {
        let v = if le { Uint::<B, L>::from_le_slice(s) } else { Uint::<B, L>::from_be_slice(s) };
        assert!(o::same(v.as_limbs(), &val), "from_slice: the denoted value, no panic");
    }
}

fn arr<const B: usize, const L: usize, const N: usize>() {
    assert!(N == (B + 7) / 8);
    let a: [u8; N] = any();
    let (val, fits) = denote::<B, L, N>(&a, N, true);
    if fits {
        assert!(o::same(Uint::<B, L>::from_le_bytes::<N>(a).as_limbs(), &val), "from_le_bytes: the denoted value, no panic");
    }
    let (val, fits) = denote::<B, L, N>(&a, N, false);
    if fits {
        assert!(o::same(Uint::<B, L>::from_be_bytes::<N>(a).as_limbs(), &val), "from_be_bytes: the denoted value, no panic");
    }
    let x = uint::<B, L>();
    assert!(ueq(Uint::<B, L>::from_le_bytes::<N>(x.to_le_bytes::<N>()), x), "from_le_bytes(to_le_bytes(x)) == x");
    assert!(ueq(Uint::<B, L>::from_be_bytes::<N>(x.to_be_bytes::<N>()), x), "from_be_bytes(to_be_bytes(x)) == x");
}

// ---------------------------------------------------------------- panic classes (reachability of the panic only)
fn from_le_slice_too_long_panics() {
    let buf: [u8; 10] = any();
    let _ = Uint::<65, 2>::from_le_slice(&buf[..]);
}
fn from_be_slice_too_long_panics() {
    let buf: [u8; 10] = any();
    let _ = Uint::<65, 2>::from_be_slice(&buf[..]);
}
fn from_le_bytes_excess_bits_panics() {
    let a: [u8; 8] = any();
    assume(a[7] > 0x0f);
    let _ = Uint::<60, 1>::from_le_bytes::<8>(a);
}
fn from_be_bytes_excess_bits_panics() {
    let a: [u8; 8] = any();
    assume(a[0] > 0x0f);
    let _ = Uint::<60, 1>::from_be_bytes::<8>(a);
}
fn to_le_bytes_wrong_size_panics() {
    let x = uint::<65, 2>();
    let _ = x.to_le_bytes::<8>();
}

crate::harnesses! {
    #[cfg_attr(kani, kani::unwind(11))] fn c08_enc_w0() { enc::<0, 0, 0>() }
    #[cfg_attr(kani, kani::unwind(12))] fn c08_enc_w1() { enc::<1, 1, 1>() }
    #[cfg_attr(kani, kani::unwind(12))] fn c08_enc_w7() { enc::<7, 1, 1>() }
    #[cfg_attr(kani, kani::unwind(12))] fn c08_enc_w8() { enc::<8, 1, 1>() }
    #[cfg_attr(kani, kani::unwind(19))] fn c08_enc_w60() { enc::<60, 1, 8>() }
    #[cfg_attr(kani, kani::unwind(19))] fn c08_enc_w63() { enc::<63, 1, 8>() }
    #[cfg_attr(kani, kani::unwind(19))] fn c08_enc_w64() { enc::<64, 1, 8>() }
    #[cfg_attr(kani, kani::unwind(20))] fn c08_enc_w65() { enc::<65, 2, 9>() }
    #[cfg_attr(kani, kani::unwind(20))] fn c08_enc_w72() { enc::<72, 2, 9>() }
    #[cfg_attr(kani, kani::unwind(24))] fn c08_enc_w100() { enc::<100, 2, 13>() }
    #[cfg_attr(kani, kani::unwind(27))] fn c08_enc_w128() { enc::<128, 2, 16>() }
    #[cfg_attr(kani, kani::unwind(28))] fn c08_enc_w129() { enc::<129, 3, 17>() }
    #[cfg_attr(kani, kani::unwind(3))] fn c08_trim_cow_w0() { trim::<0, 0, 0>(0) }
    #[cfg_attr(kani, kani::unwind(3))] fn c08_trim_le_vec_w0() { trim::<0, 0, 0>(1) }
    #[cfg_attr(kani, kani::unwind(3))] #[cfg_attr(kani, kani::solver(minisat))] fn c08_trim_be_vec_w0() { trim::<0, 0, 0>(2) }
    #[cfg_attr(kani, kani::unwind(4))] fn c08_trim_cow_w1() { trim::<1, 1, 1>(0) }
    #[cfg_attr(kani, kani::unwind(4))] fn c08_trim_le_vec_w1() { trim::<1, 1, 1>(1) }
    #[cfg_attr(kani, kani::unwind(4))] #[cfg_attr(kani, kani::solver(minisat))] fn c08_trim_be_vec_w1() { trim::<1, 1, 1>(2) }
    #[cfg_attr(kani, kani::unwind(4))] fn c08_trim_cow_w7() { trim::<7, 1, 1>(0) }
    #[cfg_attr(kani, kani::unwind(4))] fn c08_trim_le_vec_w7() { trim::<7, 1, 1>(1) }
    #[cfg_attr(kani, kani::unwind(4))] #[cfg_attr(kani, kani::solver(minisat))] fn c08_trim_be_vec_w7() { trim::<7, 1, 1>(2) }
    #[cfg_attr(kani, kani::unwind(4))] fn c08_trim_cow_w8() { trim::<8, 1, 1>(0) }
    #[cfg_attr(kani, kani::unwind(4))] fn c08_trim_le_vec_w8() { trim::<8, 1, 1>(1) }
    #[cfg_attr(kani, kani::unwind(4))] #[cfg_attr(kani, kani::solver(minisat))] fn c08_trim_be_vec_w8() { trim::<8, 1, 1>(2) }
    #[cfg_attr(kani, kani::unwind(11))] fn c08_trim_cow_w60() { trim::<60, 1, 8>(0) }
    #[cfg_attr(kani, kani::unwind(11))] fn c08_trim_le_vec_w60() { trim::<60, 1, 8>(1) }
    #[cfg_attr(kani, kani::unwind(11))] #[cfg_attr(kani, kani::solver(minisat))] fn c08_trim_be_vec_w60() { trim::<60, 1, 8>(2) }
    #[cfg_attr(kani, kani::unwind(11))] fn c08_trim_cow_w63() { trim::<63, 1, 8>(0) }
    #[cfg_attr(kani, kani::unwind(11))] fn c08_trim_le_vec_w63() { trim::<63, 1, 8>(1) }
    #[cfg_attr(kani, kani::unwind(11))] #[cfg_attr(kani, kani::solver(minisat))] fn c08_trim_be_vec_w63() { trim::<63, 1, 8>(2) }
    #[cfg_attr(kani, kani::unwind(11))] fn c08_trim_cow_w64() { trim::<64, 1, 8>(0) }
    #[cfg_attr(kani, kani::unwind(11))] fn c08_trim_le_vec_w64() { trim::<64, 1, 8>(1) }
    #[cfg_attr(kani, kani::unwind(11))] #[cfg_attr(kani, kani::solver(minisat))] fn c08_trim_be_vec_w64() { trim::<64, 1, 8>(2) }
    #[cfg_attr(kani, kani::unwind(12))] fn c08_trim_cow_w65() { trim::<65, 2, 9>(0) }
    #[cfg_attr(kani, kani::unwind(12))] fn c08_trim_le_vec_w65() { trim::<65, 2, 9>(1) }
    #[cfg_attr(kani, kani::unwind(12))] #[cfg_attr(kani, kani::solver(minisat))] fn c08_trim_be_vec_w65() { trim::<65, 2, 9>(2) }
    #[cfg_attr(kani, kani::unwind(12))] fn c08_trim_cow_w72() { trim::<72, 2, 9>(0) }
    #[cfg_attr(kani, kani::unwind(12))] fn c08_trim_le_vec_w72() { trim::<72, 2, 9>(1) }
    #[cfg_attr(kani, kani::unwind(12))] #[cfg_attr(kani, kani::solver(minisat))] fn c08_trim_be_vec_w72() { trim::<72, 2, 9>(2) }
    #[cfg_attr(kani, kani::unwind(16))] fn c08_trim_cow_w100() { trim::<100, 2, 13>(0) }
    #[cfg_attr(kani, kani::unwind(16))] fn c08_trim_le_vec_w100() { trim::<100, 2, 13>(1) }
    #[cfg_attr(kani, kani::unwind(16))] #[cfg_attr(kani, kani::solver(minisat))] fn c08_trim_be_vec_w100() { trim::<100, 2, 13>(2) }
    #[cfg_attr(kani, kani::unwind(19))] fn c08_trim_cow_w128() { trim::<128, 2, 16>(0) }
    #[cfg_attr(kani, kani::unwind(19))] fn c08_trim_le_vec_w128() { trim::<128, 2, 16>(1) }
    #[cfg_attr(kani, kani::unwind(19))] #[cfg_attr(kani, kani::solver(minisat))] fn c08_trim_be_vec_w128() { trim::<128, 2, 16>(2) }
    #[cfg_attr(kani, kani::unwind(20))] fn c08_trim_cow_w129() { trim::<129, 3, 17>(0) }
    #[cfg_attr(kani, kani::unwind(20))] fn c08_trim_le_vec_w129() { trim::<129, 3, 17>(1) }
    #[cfg_attr(kani, kani::unwind(20))] #[cfg_attr(kani, kani::solver(minisat))] fn c08_trim_be_vec_w129() { trim::<129, 3, 17>(2) }
    #[cfg_attr(kani, kani::unwind(11))] fn c08_copy_w0() { copy::<0, 0, 0, 3>() }
    #[cfg_attr(kani, kani::unwind(12))] fn c08_copy_w1() { copy::<1, 1, 1, 4>() }
    #[cfg_attr(kani, kani::unwind(12))] fn c08_copy_w7() { copy::<7, 1, 1, 4>() }
    #[cfg_attr(kani, kani::unwind(12))] fn c08_copy_w8() { copy::<8, 1, 1, 4>() }
    #[cfg_attr(kani, kani::unwind(19))] fn c08_copy_w60() { copy::<60, 1, 8, 11>() }
    #[cfg_attr(kani, kani::unwind(19))] fn c08_copy_w63() { copy::<63, 1, 8, 11>() }
    #[cfg_attr(kani, kani::unwind(19))] fn c08_copy_w64() { copy::<64, 1, 8, 11>() }
    #[cfg_attr(kani, kani::unwind(20))] fn c08_copy_w65() { copy::<65, 2, 9, 12>() }
    #[cfg_attr(kani, kani::unwind(20))] fn c08_copy_w72() { copy::<72, 2, 9, 12>() }
    #[cfg_attr(kani, kani::unwind(24))] fn c08_copy_w100() { copy::<100, 2, 13, 16>() }
    #[cfg_attr(kani, kani::unwind(27))] fn c08_copy_w128() { copy::<128, 2, 16, 19>() }
    #[cfg_attr(kani, kani::unwind(28))] fn c08_copy_w129() { copy::<129, 3, 17, 20>() }
    #[cfg_attr(kani, kani::unwind(11))] fn c08_ccopy_w0() { ccopy::<0, 0, 0, 3>() }
    #[cfg_attr(kani, kani::unwind(12))] fn c08_ccopy_w1() { ccopy::<1, 1, 1, 4>() }
    #[cfg_attr(kani, kani::unwind(12))] fn c08_ccopy_w7() { ccopy::<7, 1, 1, 4>() }
    #[cfg_attr(kani, kani::unwind(12))] fn c08_ccopy_w8() { ccopy::<8, 1, 1, 4>() }
    #[cfg_attr(kani, kani::unwind(19))] fn c08_ccopy_w60() { ccopy::<60, 1, 8, 11>() }
    #[cfg_attr(kani, kani::unwind(19))] fn c08_ccopy_w63() { ccopy::<63, 1, 8, 11>() }
    #[cfg_attr(kani, kani::unwind(19))] fn c08_ccopy_w64() { ccopy::<64, 1, 8, 11>() }
    #[cfg_attr(kani, kani::unwind(20))] fn c08_ccopy_w65() { ccopy::<65, 2, 9, 12>() }
    #[cfg_attr(kani, kani::unwind(20))] fn c08_ccopy_w72() { ccopy::<72, 2, 9, 12>() }
    #[cfg_attr(kani, kani::unwind(24))] fn c08_ccopy_w100() { ccopy::<100, 2, 13, 16>() }
    #[cfg_attr(kani, kani::unwind(27))] fn c08_ccopy_w128() { ccopy::<128, 2, 16, 19>() }
    #[cfg_attr(kani, kani::unwind(28))] fn c08_ccopy_w129() { ccopy::<129, 3, 17, 20>() }
    #[cfg_attr(kani, kani::unwind(11))] fn c08_dec_le_w0() { dec::<0, 0, 0, 8>(true) }
    #[cfg_attr(kani, kani::unwind(12))] fn c08_dec_le_w1() { dec::<1, 1, 1, 9>(true) }
    #[cfg_attr(kani, kani::unwind(12))] fn c08_dec_le_w7() { dec::<7, 1, 1, 9>(true) }
    #[cfg_attr(kani, kani::unwind(12))] fn c08_dec_le_w8() { dec::<8, 1, 1, 9>(true) }
    #[cfg_attr(kani, kani::unwind(19))] fn c08_dec_le_w60() { dec::<60, 1, 8, 16>(true) }
    #[cfg_attr(kani, kani::unwind(19))] fn c08_dec_le_w63() { dec::<63, 1, 8, 16>(true) }
    #[cfg_attr(kani, kani::unwind(19))] fn c08_dec_le_w64() { dec::<64, 1, 8, 16>(true) }
    #[cfg_attr(kani, kani::unwind(20))] fn c08_dec_le_w65() { dec::<65, 2, 9, 17>(true) }
    #[cfg_attr(kani, kani::unwind(20))] fn c08_dec_le_w72() { dec::<72, 2, 9, 17>(true) }
    #[cfg_attr(kani, kani::unwind(24))] fn c08_dec_le_w100() { dec::<100, 2, 13, 21>(true) }
    #[cfg_attr(kani, kani::unwind(27))] fn c08_dec_le_w128() { dec::<128, 2, 16, 24>(true) }
    #[cfg_attr(kani, kani::unwind(28))] fn c08_dec_le_w129() { dec::<129, 3, 17, 25>(true) }
    #[cfg_attr(kani, kani::unwind(11))] fn c08_dec_be_w0() { dec::<0, 0, 0, 8>(false) }
    #[cfg_attr(kani, kani::unwind(12))] fn c08_dec_be_w1() { dec::<1, 1, 1, 9>(false) }
    #[cfg_attr(kani, kani::unwind(12))] fn c08_dec_be_w7() { dec::<7, 1, 1, 9>(false) }
    #[cfg_attr(kani, kani::unwind(12))] fn c08_dec_be_w8() { dec::<8, 1, 1, 9>(false) }
    #[cfg_attr(kani, kani::unwind(19))] fn c08_dec_be_w60() { dec::<60, 1, 8, 16>(false) }
    #[cfg_attr(kani, kani::unwind(19))] fn c08_dec_be_w63() { dec::<63, 1, 8, 16>(false) }
    #[cfg_attr(kani, kani::unwind(19))] fn c08_dec_be_w64() { dec::<64, 1, 8, 16>(false) }
    #[cfg_attr(kani, kani::unwind(20))] fn c08_dec_be_w65() { dec::<65, 2, 9, 17>(false) }
    #[cfg_attr(kani, kani::unwind(20))] fn c08_dec_be_w72() { dec::<72, 2, 9, 17>(false) }
    #[cfg_attr(kani, kani::unwind(24))] fn c08_dec_be_w100() { dec::<100, 2, 13, 21>(false) }
    #[cfg_attr(kani, kani::unwind(27))] fn c08_dec_be_w128() { dec::<128, 2, 16, 24>(false) }
    #[cfg_attr(kani, kani::unwind(28))] fn c08_dec_be_w129() { dec::<129, 3, 17, 25>(false) }
    #[cfg_attr(kani, kani::unwind(11))] fn c08_arr_w0() { arr::<0, 0, 0>() }
    #[cfg_attr(kani, kani::unwind(12))] fn c08_arr_w1() { arr::<1, 1, 1>() }
    #[cfg_attr(kani, kani::unwind(12))] fn c08_arr_w7() { arr::<7, 1, 1>() }
    #[cfg_attr(kani, kani::unwind(12))] fn c08_arr_w8() { arr::<8, 1, 1>() }
    #[cfg_attr(kani, kani::unwind(19))] fn c08_arr_w60() { arr::<60, 1, 8>() }
    #[cfg_attr(kani, kani::unwind(19))] fn c08_arr_w63() { arr::<63, 1, 8>() }
    #[cfg_attr(kani, kani::unwind(19))] fn c08_arr_w64() { arr::<64, 1, 8>() }
    #[cfg_attr(kani, kani::unwind(20))] fn c08_arr_w65() { arr::<65, 2, 9>() }
    #[cfg_attr(kani, kani::unwind(20))] fn c08_arr_w72() { arr::<72, 2, 9>() }
    #[cfg_attr(kani, kani::unwind(24))] fn c08_arr_w100() { arr::<100, 2, 13>() }
    #[cfg_attr(kani, kani::unwind(27))] fn c08_arr_w128() { arr::<128, 2, 16>() }
    #[cfg_attr(kani, kani::unwind(28))] fn c08_arr_w129() { arr::<129, 3, 17>() }
    #[cfg_attr(kani, kani::unwind(14))] #[cfg_attr(kani, kani::should_panic)] fn c08_from_le_slice_too_long_w65_must_panic() { from_le_slice_too_long_panics() }
    #[cfg_attr(kani, kani::unwind(14))] #[cfg_attr(kani, kani::should_panic)] fn c08_from_be_slice_too_long_w65_must_panic() { from_be_slice_too_long_panics() }
    #[cfg_attr(kani, kani::unwind(14))] #[cfg_attr(kani, kani::should_panic)] fn c08_from_le_bytes_excess_bits_w60_must_panic() { from_le_bytes_excess_bits_panics() }
    #[cfg_attr(kani, kani::unwind(14))] #[cfg_attr(kani, kani::should_panic)] fn c08_from_be_bytes_excess_bits_w60_must_panic() { from_be_bytes_excess_bits_panics() }
    #[cfg_attr(kani, kani::unwind(14))] #[cfg_attr(kani, kani::should_panic)] fn c08_to_le_bytes_wrong_size_w65_must_panic() { to_le_bytes_wrong_size_panics() }
}

//! Vacuity guards: a harness whose postcondition is false must be reported FAILED with a
//! counterexample that replays; run on every invocation of the driver.
use crate::sym::*;
use ruint::Uint;

crate::harnesses! {
    #[cfg_attr(kani, kani::unwind(4))] fn canary_must_fail() {
        let a = uint::<65, 2>();
        let b: u64 = any();
        // false claim: adding never changes the low limb to 0x1234
        let r = a.wrapping_add(Uint::<65, 2>::from(b));
        assert!(r.as_limbs()[0] != 0x1234, "canary: deliberately false postcondition")
    }
}

//! C05 — shifts and rotations (ruint/src/bits.rs).
//!
//! Property: for every width, value and amount s (ANY usize, also s >= BITS and s >= 64*LIMBS) left shift is
//! value*2^s mod 2^BITS, right shift is floor(value/2^s); overflowing/checked/saturating forms flag exactly
//! "a non-zero bit was shifted out"; rotations are the cyclic permutation of the BITS-wide word; arithmetic right
//! shift replicates bit BITS-1; every `<<`/`>>`/`<<=`/`>>=` overload agrees.
//!
//! Oracles, two layers, both written here and independent of ruint:
//!  (1) the definitions, BIT BY BIT (`*_want`):
//!   shl:  bit i of result = (i < BITS && i >= s && bit(a, i - s));   flag = exists i < BITS: bit(a,i) && s >= BITS - i
//!   shr:  bit i of result = (i < BITS && s < BITS - i && bit(a, i + s)); flag = exists i < min(s,BITS): bit(a,i)
//!   sar:  bit i of result = (i < BITS) && (if s < BITS - i { bit(a, i + s) } else { bit(a, BITS-1) })
//!   rot:  bit i of result = bit(a, (i + d) mod BITS)   (d = s mod BITS for rotr, (BITS - s mod BITS) mod BITS for rotl)
//!  (2) limb-wise forms (`*_fast`, u128 funnel shifts over the limbs; no loop over the amount) which the harnesses on ruint
//!   use. The c05_oracle_* harnesses prove (2) == (1) for all canonical values and ALL usize amounts (rotations: all
//!   m < BITS); they do not touch ruint. The split exists because CBMC needs unwind 66 for the bit loops, and every ruint
//!   shift loop (`for i in 0..LIMBS - limbs`, symbolic bound) is unrolled `unwind` times per call: bit oracle against
//!   ruint directly cost 68 s for ONE call at 65 bits, the limb-wise oracle 7 s. c05_oracle_{shl,shr,sar} also passed at
//!   63, 100, 128, 192, 250, 256 bits (50-160 s each, removed from the list for time), c05_oracle_rot* at 100..256 (130-510 s).
//!
//! Partition of the amount (const P of the bodies): P=0 every amount; P=1 "inner" amounts; P=2 "edge" amounts. Edge amounts
//! are those for which ruint reaches `self != Self::ZERO` (memcmp over 8*LIMBS bytes => unwind 8*LIMBS+2); inner amounts
//! cannot reach it, so unwind LIMBS+2 suffices. Harness `x_wN` (P=1) and `x_edge_wN` (P=2) TOGETHER cover every amount;
//! widths with LIMBS <= 1 use P=0 in one harness. const H splits the assertions of one body over two harnesses
//! (`..a_`/`..b_` or `..l_`/`..r_`) where one harness exceeded the time budget.
//!
//! Coverage per entry point ("complete" = all canonical values x ALL amounts of the type, no bound):
//!   c05_shl_*    overflowing_shl (value + flag), wrapping_shl, checked_shl, saturating_shl          complete, s: any usize
//!   c05_shr_*    overflowing_shr (value + flag), wrapping_shr, checked_shr                           complete, s: any usize
//!   c05_sar_*    arithmetic_shr                                                                      complete, s: any usize
//!   c05_rot_*    rotate_left, rotate_right for every s <= BITS + 64*LIMBS + 1 (the domain of the property) BOUNDED in s:
//!                an unbounded s puts `s % BITS` (a 64-bit divider when BITS is not a power of two) in both ruint and
//!                oracle, and that miter cost 80 s (60 bits) .. 540 s (129 bits); it passed at 60, 63, 65, 100, 129, 192.
//!   c05_rotu_*   rotate_left, rotate_right, s: any usize, at the power-of-two widths 1, 8, 64, 128, 256    complete
//!   c05_ops_<T>_* the 8 shapes `<<`, `<< &`, `<<=`, `<<= &`, `>>`, `>> &`, `>>=`, `>>= &` for amount type T in usize, u8, u16,
//!                u32, u64 (all values) and isize, i8, i16, i32, i64 (all NON-NEGATIVE values): each equals
//!                wrapping_shl / wrapping_shr of `n as usize` (themselves pinned to the oracle by c05_shl_* / c05_shr_* at the
//!                same widths). Widths 0, 60 and 65 only: the overloads are width-independent forwarding code and one
//!                harness with 10 ruint calls costs 10-45 s (all five unsigned types in one harness: 240 s / 2300 s).
//!                At 60 and 65 bits each type has an inner (n < 64*LIMBS) and an edge (n >= 64*LIMBS) harness; there is no
//!                c05_ops_i8_edge_w65 because an i8 cannot reach 128 = 64*LIMBS (it would be vacuous).
//!   c05_uamt*    Uint-typed amounts, `x << y`, `x << &y`, `x <<= y`, `x <<= &y` and the four `>>` shapes, y an arbitrary canonical
//!                Uint of the same type: amount >= 2^64 (a non-zero limb above limb 0) gives zero, otherwise the limb-wise
//!                oracle at amount limb 0. Widths 0, 1, 60, 64, 65, 129 (one / two / three limbs).             complete
//! Not covered: negative amounts of signed types (outside the property); rotations by s > BITS + 64*LIMBS + 1 at widths
//! that are not a power of two; widths other than the listed ones; 32-bit targets (the u64 / i64 overloads exist only on
//! 64-bit targets; `as usize` is lossless there).
use crate::oracle as o;
use crate::sym::*;
use ruint::Uint;

/// value * 2^s mod 2^B, and "value * 2^s >= 2^B"
pub fn shl_want<const B: usize, const L: usize>(a: &[u64; L], s: usize) -> ([u64; L], bool) {
    let mut r = [0u64; L];
    let mut over = false;
    let mut j = 0;
    while j < L {
        let mut w = 0u64;
        let mut k = 0;
        while k < 64 {
            let i = 64 * j + k;
            if i < B {
                if i >= s && o::bit(a, i - s) { w |= 1u64 << k; }
                if o::bit(a, i) && s >= B - i { over = true; }
            }
            k += 1;
        }
        r[j] = w;
        j += 1;
    }
    (r, over)
}

/// floor(value / 2^s), and "value is not divisible by 2^s"
pub fn shr_want<const B: usize, const L: usize>(a: &[u64; L], s: usize) -> ([u64; L], bool) {
    let mut r = [0u64; L];
    let mut lost = false;
    let mut j = 0;
    while j < L {
        let mut w = 0u64;
        let mut k = 0;
        while k < 64 {
            let i = 64 * j + k;
            if i < B {
                if s < B - i && o::bit(a, i + s) { w |= 1u64 << k; }
                if i < s && o::bit(a, i) { lost = true; }
            }
            k += 1;
        }
        r[j] = w;
        j += 1;
    }
    (r, lost)
}

/// arithmetic shift right of the B-bit two's complement word
pub fn sar_want<const B: usize, const L: usize>(a: &[u64; L], s: usize) -> [u64; L] {
    let mut r = [0u64; L];
    let mut j = 0;
    while j < L {
        let mut w = 0u64;
        let mut k = 0;
        while k < 64 {
            let i = 64 * j + k;
            if i < B {
                let b = if s < B - i { o::bit(a, i + s) } else { o::bit(a, B - 1) };
                if b { w |= 1u64 << k; }
            }
            k += 1;
        }
        r[j] = w;
        j += 1;
    }
    r
}

/// cyclic rotation of the B-bit word: result bit i = input bit (i + d) mod B, 0 <= d < B
pub fn rot_want<const B: usize, const L: usize>(a: &[u64; L], d: usize) -> [u64; L] {
    let mut r = [0u64; L];
    let mut j = 0;
    while j < L {
        let mut w = 0u64;
        let mut k = 0;
        while k < 64 {
            let i = 64 * j + k;
            if i < B {
                let mut src = i + d;
                if src >= B { src -= B; }
                if o::bit(a, src) { w |= 1u64 << k; }
            }
            k += 1;
        }
        r[j] = w;
        j += 1;
    }
    r
}

/// limb-wise form of `shl_want` (proved equal to it by the c05_oracle_* harnesses): result limb j is the upper
/// half of the 128-bit window (a[j-q] : a[j-q-1]) shifted left by t, where s = 64 q + t
pub fn shl_fast<const B: usize, const L: usize>(a: &[u64; L], s: usize) -> ([u64; L], bool) {
    let (q, t) = (s / 64, (s % 64) as u32);
    let mut r = [0u64; L];
    let mut over = false;
    let mut j = 0;
    while j < L {
        let hi = if j >= q { a[j - q] } else { 0 };
        let lo = if j >= q + 1 { a[j - q - 1] } else { 0 };
        r[j] = (((((hi as u128) << 64) | lo as u128) << t) >> 64) as u64;
        // bit p of limb j is bit 64j+p of a; it lands at or above position B iff p >= B - s - 64j
        let keep = B.saturating_sub(s).saturating_sub(64 * j);
        if keep < 64 && (a[j] >> keep) != 0 { over = true; }
        j += 1;
    }
    if L > 0 { r[L - 1] &= o::mask_of(B); }
    (r, over)
}

/// limb-wise form of `shr_want`: result limb j is the lower half of the window (a[j+q+1] : a[j+q]) >> t
pub fn shr_fast<const B: usize, const L: usize>(a: &[u64; L], s: usize) -> ([u64; L], bool) {
    let (q, t) = (s / 64, (s % 64) as u32);
    let mut r = [0u64; L];
    let mut lost = false;
    let mut j = 0;
    while j < L {
        let lo = if j + q < L { a[j + q] } else { 0 };
        let hi = if j + q + 1 < L { a[j + q + 1] } else { 0 };
        r[j] = ((((hi as u128) << 64) | lo as u128) >> t) as u64;
        // the low `cut` bits of limb j are shifted out
        let cut = s.saturating_sub(64 * j);
        if cut >= 64 { if a[j] != 0 { lost = true; } } else if a[j] & ((1u64 << cut) - 1) != 0 { lost = true; }
        j += 1;
    }
    (r, lost)
}

/// limb-wise form of `sar_want`: logical shift, then bits [B - min(s,B), B) are filled with the sign
pub fn sar_fast<const B: usize, const L: usize>(a: &[u64; L], s: usize) -> [u64; L] {
    let mut r = shr_fast::<B, L>(a, s).0;
    if B > 0 && o::bit(a, B - 1) {
        let first = B - if s < B { s } else { B };
        let mut j = 0;
        while j < L {
            let lo = first.saturating_sub(64 * j);
            if lo < 64 { r[j] |= u64::MAX << lo; }
            j += 1;
        }
        r[L - 1] &= o::mask_of(B);
    }
    r
}

/// rotate left by m, 0 <= m < B:  (a * 2^m mod 2^B) + floor(a / 2^(B-m))
pub fn rotl_fast<const B: usize, const L: usize>(a: &[u64; L], m: usize) -> [u64; L] {
    let x = shl_fast::<B, L>(a, m).0;
    let y = shr_fast::<B, L>(a, B - m).0;
    let mut r = [0u64; L];
    let mut j = 0;
    while j < L { r[j] = x[j] | y[j]; j += 1; }
    r
}
/// rotate right by m, 0 <= m < B:  floor(a / 2^m) + (a * 2^(B-m) mod 2^B)
pub fn rotr_fast<const B: usize, const L: usize>(a: &[u64; L], m: usize) -> [u64; L] {
    let x = shr_fast::<B, L>(a, m).0;
    let y = shl_fast::<B, L>(a, B - m).0;
    let mut r = [0u64; L];
    let mut j = 0;
    while j < L { r[j] = x[j] | y[j]; j += 1; }
    r
}

// ---- oracle self-checks: the limb-wise oracles equal the bit-by-bit definitions (no ruint code involved) ----
fn oracle_shl<const B: usize, const L: usize>() {
    let a = uint::<B, L>();
    let s: usize = any();
    let (w, f) = shl_want::<B, L>(a.as_limbs(), s);
    let (w2, f2) = shl_fast::<B, L>(a.as_limbs(), s);
    assert!(o::same(&w, &w2) && f == f2, "oracle self-check: shl_fast == shl_want");
}
fn oracle_shr<const B: usize, const L: usize>() {
    let a = uint::<B, L>();
    let s: usize = any();
    let (w, f) = shr_want::<B, L>(a.as_limbs(), s);
    let (w2, f2) = shr_fast::<B, L>(a.as_limbs(), s);
    assert!(o::same(&w, &w2) && f == f2, "oracle self-check: shr_fast == shr_want");
}
fn oracle_sar<const B: usize, const L: usize>() {
    let a = uint::<B, L>();
    let s: usize = any();
    assert!(o::same(&sar_want::<B, L>(a.as_limbs(), s), &sar_fast::<B, L>(a.as_limbs(), s)), "oracle self-check: sar_fast == sar_want");
}
/// rotl by m: result bit i = input bit (i - m) mod B = (i + (B - m) mod B) mod B;  rotr by m: input bit (i + m) mod B
fn oracle_rotl<const B: usize, const L: usize>() {
    let a = uint::<B, L>();
    let m: usize = any();
    assume(m < B);
    let d = if m == 0 { 0 } else { B - m };
    assert!(o::same(&rot_want::<B, L>(a.as_limbs(), d), &rotl_fast::<B, L>(a.as_limbs(), m)), "oracle self-check: rotl_fast");
}
fn oracle_rotr<const B: usize, const L: usize>() {
    let a = uint::<B, L>();
    let m: usize = any();
    assume(m < B);
    assert!(o::same(&rot_want::<B, L>(a.as_limbs(), m), &rotr_fast::<B, L>(a.as_limbs(), m)), "oracle self-check: rotr_fast");
}

// ---- contracts on ruint ----
fn in_part<const P: u8>(edge: bool) -> bool { P == 0 || edge == (P == 2) }

/// H = 0: all four entry points; H = 1: overflowing_shl + wrapping_shl; H = 2: checked_shl + saturating_shl
fn shl<const B: usize, const L: usize, const P: u8, const H: u8>() {
    let a = uint::<B, L>();
    let s: usize = any();
    assume(in_part::<P>(s >= 64 * L));
    let (want, over) = shl_fast::<B, L>(a.as_limbs(), s);
    // (rv, rf): the reference for the derived forms. With H != 2 it is ruint's own overflowing_shl result, which the
    // first two assertions pin to the oracle (comparing ruint with ruint is far cheaper for the solver); with H = 2 the oracle.
    let (rv, rf) = if H != 2 {
        let (r, f) = a.overflowing_shl(s);
        assert!(o::same(r.as_limbs(), &want), "overflowing_shl value = a * 2^s mod 2^BITS");
        assert!(f == over, "overflowing_shl flag <=> a * 2^s >= 2^BITS");
        (*r.as_limbs(), f)
    } else {
        (want, over)
    };
    if H != 2 {
        assert!(o::same(a.wrapping_shl(s).as_limbs(), &rv), "wrapping_shl = a * 2^s mod 2^BITS");
    }
    if H != 1 {
        match a.checked_shl(s) {
            None => assert!(rf, "checked_shl = None only on overflow"),
            Some(v) => assert!(!rf && o::same(v.as_limbs(), &rv), "checked_shl = Some(a * 2^s) iff no overflow"),
        }
        let sat = if rf { o::max_of::<L>(B) } else { rv };
        assert!(o::same(a.saturating_shl(s).as_limbs(), &sat), "saturating_shl = MAX on overflow, else a * 2^s");
    }
}

/// H = 0: all three entry points; H = 1: overflowing_shr + wrapping_shr; H = 2: checked_shr
fn shr<const B: usize, const L: usize, const P: u8, const H: u8>() {
    let a = uint::<B, L>();
    let s: usize = any();
    assume(in_part::<P>(s >= 64 * L));
    let (want, lost) = shr_fast::<B, L>(a.as_limbs(), s);
    let (rv, rf) = if H != 2 {
        let (r, f) = a.overflowing_shr(s);
        assert!(o::same(r.as_limbs(), &want), "overflowing_shr value = floor(a / 2^s)");
        assert!(f == lost, "overflowing_shr flag <=> a not divisible by 2^s");
        (*r.as_limbs(), f)
    } else {
        (want, lost)
    };
    if H != 2 {
        assert!(o::same(a.wrapping_shr(s).as_limbs(), &rv), "wrapping_shr = floor(a / 2^s)");
    }
    if H != 1 {
        match a.checked_shr(s) {
            None => assert!(rf, "checked_shr = None only when bits are lost"),
            Some(v) => assert!(!rf && o::same(v.as_limbs(), &rv), "checked_shr = Some(a / 2^s) iff exact"),
        }
    }
}

fn sar<const B: usize, const L: usize, const P: u8>() {
    let a = uint::<B, L>();
    let s: usize = any();
    // s = 0 is an edge too: arithmetic_shr computes MAX << BITS, a whole-word shift when BITS = 64*LIMBS
    assume(in_part::<P>(s >= 64 * L || s == 0));
    assert!(o::same(a.arithmetic_shr(s).as_limbs(), &sar_fast::<B, L>(a.as_limbs(), s)), "arithmetic_shr replicates bit BITS-1");
}

/// BOUNDED: s <= BITS + 64*LIMBS + 1, otherwise any usize. H = 0: both rotations; 1: rotate_left; 2: rotate_right.
/// The edge is s mod BITS = 0: rotate_left then computes self >> BITS, a whole-word shift when BITS = 64*LIMBS.
fn rot<const B: usize, const L: usize, const P: u8, const H: u8, const BOUNDED: bool>() {
    let a = uint::<B, L>();
    let s: usize = any();
    if BOUNDED { assume(s <= B + 64 * L + 1); }
    let m = if B == 0 { 0 } else { s % B };
    assume(in_part::<P>(m == 0));
    if H != 2 {
        let wl = if B == 0 { [0u64; L] } else { rotl_fast::<B, L>(a.as_limbs(), m) };
        assert!(o::same(a.rotate_left(s).as_limbs(), &wl), "rotate_left is the cyclic permutation by s mod BITS");
    }
    if H != 1 {
        let wr = if B == 0 { [0u64; L] } else { rotr_fast::<B, L>(a.as_limbs(), m) };
        assert!(o::same(a.rotate_right(s).as_limbs(), &wr), "rotate_right is the cyclic permutation by s mod BITS");
    }
}

/// whole-limb rotations by the CONSTANT amounts 64*k (k = 1..LIMBS-1, and k = LIMBS + 1): symbolic value, concrete amount
fn rot_limbs<const B: usize, const L: usize>() {
    let a = uint::<B, L>();
    let mut k = 1;
    while k <= L + 1 {
        if k != L {
            let s = 64 * k;
            let m = s % B;
            assert!(o::same(a.rotate_left(s).as_limbs(), &rotl_fast::<B, L>(a.as_limbs(), m)), "rotate_left by whole limbs");
            assert!(o::same(a.rotate_right(s).as_limbs(), &rotr_fast::<B, L>(a.as_limbs(), m)), "rotate_right by whole limbs");
        }
        k += 1;
    }
}

/// the four `<<` shapes ($h != 2) and the four `>>` shapes ($h != 1) for one amount `$n`; `$wl` / `$wr` are the expected Uints
macro_rules! op_shapes {
    ($h:expr, $a:ident, $n:ident, $wl:ident, $wr:ident, $what:expr) => {{
        if $h != 2 {
            assert!(ueq($a << $n, $wl), concat!("<< ", $what));
            assert!(ueq($a << &$n, $wl), concat!("<< &", $what));
            let mut t = $a; t <<= $n; assert!(ueq(t, $wl), concat!("<<= ", $what));
            let mut t = $a; t <<= &$n; assert!(ueq(t, $wl), concat!("<<= &", $what));
        }
        if $h != 1 {
            assert!(ueq($a >> $n, $wr), concat!(">> ", $what));
            assert!(ueq($a >> &$n, $wr), concat!(">> &", $what));
            let mut t = $a; t >>= $n; assert!(ueq(t, $wr), concat!(">>= ", $what));
            let mut t = $a; t >>= &$n; assert!(ueq(t, $wr), concat!(">>= &", $what));
        }
    }};
}

/// primitive amount types: every overload equals wrapping_shl / wrapping_shr of `n as usize`
/// (those two are pinned to the oracle for every usize amount by c05_shl_* / c05_shr_* at the same widths)
macro_rules! op_body {
    ($name:ident, $t:ty, $what:expr) => {
        fn $name<const B: usize, const L: usize, const P: u8>() {
            let a = uint::<B, L>();
            let n: $t = any();
            if n >= 0 && in_part::<P>(n as usize >= 64 * L) {
                let wl = a.wrapping_shl(n as usize);
                let wr = a.wrapping_shr(n as usize);
                op_shapes!(0, a, n, wl, wr, $what);
            }
        }
    };
}
op_body!(ops_usize, usize, "usize");
op_body!(ops_u8, u8, "u8");
op_body!(ops_u16, u16, "u16");
op_body!(ops_u32, u32, "u32");
op_body!(ops_u64, u64, "u64");
op_body!(ops_isize, isize, "isize");
op_body!(ops_i8, i8, "i8");
op_body!(ops_i16, i16, "i16");
op_body!(ops_i32, i32, "i32");
op_body!(ops_i64, i64, "i64");

fn ops_all<const B: usize, const L: usize>() {
    ops_usize::<B, L, 0>(); ops_u8::<B, L, 0>(); ops_u16::<B, L, 0>(); ops_u32::<B, L, 0>(); ops_u64::<B, L, 0>();
    ops_isize::<B, L, 0>(); ops_i8::<B, L, 0>(); ops_i16::<B, L, 0>(); ops_i32::<B, L, 0>(); ops_i64::<B, L, 0>();
}

/// H = 0: all eight shapes; 1: the `<<` shapes; 2: the `>>` shapes
fn uamt<const B: usize, const L: usize, const P: u8, const H: u8>() {
    let a = uint::<B, L>();
    let y = uint::<B, L>();
    let yl = *y.as_limbs();
    // the amount as an integer is >= 2^64 iff a limb above limb 0 is non-zero
    let mut huge = false;
    let mut i = 1;
    while i < L { if yl[i] != 0 { huge = true; } i += 1; }
    let s = if L > 0 { yl[0] as usize } else { 0 };
    assume(in_part::<P>(huge || s >= 64 * L));
    let wl = Uint::<B, L>::from_limbs(if huge { [0u64; L] } else { shl_fast::<B, L>(a.as_limbs(), s).0 });
    let wr = Uint::<B, L>::from_limbs(if huge { [0u64; L] } else { shr_fast::<B, L>(a.as_limbs(), s).0 });
    op_shapes!(H, a, y, wl, wr, "Uint");
}

crate::harnesses! {
    #[cfg_attr(kani, kani::unwind(66))] fn c05_oracle_shl_w0() { oracle_shl::<0, 0>() }
    #[cfg_attr(kani, kani::unwind(66))] fn c05_oracle_shl_w1() { oracle_shl::<1, 1>() }
    #[cfg_attr(kani, kani::unwind(66))] fn c05_oracle_shl_w8() { oracle_shl::<8, 1>() }
    #[cfg_attr(kani, kani::unwind(66))] fn c05_oracle_shl_w60() { oracle_shl::<60, 1>() }
    #[cfg_attr(kani, kani::unwind(66))] fn c05_oracle_shl_w64() { oracle_shl::<64, 1>() }
    #[cfg_attr(kani, kani::unwind(66))] fn c05_oracle_shl_w65() { oracle_shl::<65, 2>() }
    #[cfg_attr(kani, kani::unwind(66))] fn c05_oracle_shl_w129() { oracle_shl::<129, 3>() }
    #[cfg_attr(kani, kani::unwind(66))] fn c05_oracle_shr_w0() { oracle_shr::<0, 0>() }
    #[cfg_attr(kani, kani::unwind(66))] fn c05_oracle_shr_w1() { oracle_shr::<1, 1>() }
    #[cfg_attr(kani, kani::unwind(66))] fn c05_oracle_shr_w8() { oracle_shr::<8, 1>() }
    #[cfg_attr(kani, kani::unwind(66))] fn c05_oracle_shr_w60() { oracle_shr::<60, 1>() }
    #[cfg_attr(kani, kani::unwind(66))] fn c05_oracle_shr_w64() { oracle_shr::<64, 1>() }
    #[cfg_attr(kani, kani::unwind(66))] fn c05_oracle_shr_w65() { oracle_shr::<65, 2>() }
    #[cfg_attr(kani, kani::unwind(66))] fn c05_oracle_shr_w129() { oracle_shr::<129, 3>() }
    #[cfg_attr(kani, kani::unwind(66))] fn c05_oracle_sar_w0() { oracle_sar::<0, 0>() }
    #[cfg_attr(kani, kani::unwind(66))] fn c05_oracle_sar_w1() { oracle_sar::<1, 1>() }
    #[cfg_attr(kani, kani::unwind(66))] fn c05_oracle_sar_w8() { oracle_sar::<8, 1>() }
    #[cfg_attr(kani, kani::unwind(66))] fn c05_oracle_sar_w60() { oracle_sar::<60, 1>() }
    #[cfg_attr(kani, kani::unwind(66))] fn c05_oracle_sar_w64() { oracle_sar::<64, 1>() }
    #[cfg_attr(kani, kani::unwind(66))] fn c05_oracle_sar_w65() { oracle_sar::<65, 2>() }
    #[cfg_attr(kani, kani::unwind(66))] fn c05_oracle_sar_w129() { oracle_sar::<129, 3>() }
    #[cfg_attr(kani, kani::unwind(66))] fn c05_oracle_rotl_w1() { oracle_rotl::<1, 1>() }
    #[cfg_attr(kani, kani::unwind(66))] fn c05_oracle_rotl_w8() { oracle_rotl::<8, 1>() }
    #[cfg_attr(kani, kani::unwind(66))] fn c05_oracle_rotl_w60() { oracle_rotl::<60, 1>() }
    #[cfg_attr(kani, kani::unwind(66))] fn c05_oracle_rotl_w64() { oracle_rotl::<64, 1>() }
    #[cfg_attr(kani, kani::unwind(66))] fn c05_oracle_rotl_w65() { oracle_rotl::<65, 2>() }
    #[cfg_attr(kani, kani::unwind(66))] fn c05_oracle_rotr_w1() { oracle_rotr::<1, 1>() }
    #[cfg_attr(kani, kani::unwind(66))] fn c05_oracle_rotr_w8() { oracle_rotr::<8, 1>() }
    #[cfg_attr(kani, kani::unwind(66))] fn c05_oracle_rotr_w60() { oracle_rotr::<60, 1>() }
    #[cfg_attr(kani, kani::unwind(66))] fn c05_oracle_rotr_w64() { oracle_rotr::<64, 1>() }
    #[cfg_attr(kani, kani::unwind(66))] fn c05_oracle_rotr_w65() { oracle_rotr::<65, 2>() }
    #[cfg_attr(kani, kani::unwind(10))] fn c05_shl_w0() { shl::<0, 0, 0, 0>() }
    #[cfg_attr(kani, kani::unwind(10))] fn c05_shl_w1() { shl::<1, 1, 0, 0>() }
    #[cfg_attr(kani, kani::unwind(10))] fn c05_shl_w8() { shl::<8, 1, 0, 0>() }
    #[cfg_attr(kani, kani::unwind(10))] fn c05_shl_w60() { shl::<60, 1, 0, 0>() }
    #[cfg_attr(kani, kani::unwind(10))] fn c05_shl_w64() { shl::<64, 1, 0, 0>() }
    #[cfg_attr(kani, kani::unwind(4))] fn c05_shl_w65() { shl::<65, 2, 1, 0>() }
    #[cfg_attr(kani, kani::unwind(18))] fn c05_shl_edge_w65() { shl::<65, 2, 2, 0>() }
    #[cfg_attr(kani, kani::unwind(4))] fn c05_shl_w128() { shl::<128, 2, 1, 0>() }
    #[cfg_attr(kani, kani::unwind(18))] fn c05_shl_edge_w128() { shl::<128, 2, 2, 0>() }
    #[cfg_attr(kani, kani::unwind(5))] fn c05_shl_w129() { shl::<129, 3, 1, 0>() }
    #[cfg_attr(kani, kani::unwind(26))] fn c05_shl_edge_w129() { shl::<129, 3, 2, 0>() }
    #[cfg_attr(kani, kani::unwind(6))] fn c05_shla_w250() { shl::<250, 4, 1, 1>() }
    #[cfg_attr(kani, kani::unwind(6))] fn c05_shlb_w250() { shl::<250, 4, 1, 2>() }
    #[cfg_attr(kani, kani::unwind(34))] fn c05_shla_edge_w250() { shl::<250, 4, 2, 1>() }
    #[cfg_attr(kani, kani::unwind(34))] fn c05_shlb_edge_w250() { shl::<250, 4, 2, 2>() }
    #[cfg_attr(kani, kani::unwind(6))] fn c05_shla_w256() { shl::<256, 4, 1, 1>() }
    #[cfg_attr(kani, kani::unwind(6))] fn c05_shlb_w256() { shl::<256, 4, 1, 2>() }
    #[cfg_attr(kani, kani::unwind(34))] fn c05_shla_edge_w256() { shl::<256, 4, 2, 1>() }
    #[cfg_attr(kani, kani::unwind(34))] fn c05_shlb_edge_w256() { shl::<256, 4, 2, 2>() }
    #[cfg_attr(kani, kani::unwind(10))] fn c05_shr_w0() { shr::<0, 0, 0, 0>() }
    #[cfg_attr(kani, kani::unwind(10))] fn c05_shr_w1() { shr::<1, 1, 0, 0>() }
    #[cfg_attr(kani, kani::unwind(10))] fn c05_shr_w8() { shr::<8, 1, 0, 0>() }
    #[cfg_attr(kani, kani::unwind(10))] fn c05_shr_w60() { shr::<60, 1, 0, 0>() }
    #[cfg_attr(kani, kani::unwind(10))] fn c05_shr_w64() { shr::<64, 1, 0, 0>() }
    #[cfg_attr(kani, kani::unwind(4))] fn c05_shr_w65() { shr::<65, 2, 1, 0>() }
    #[cfg_attr(kani, kani::unwind(18))] fn c05_shr_edge_w65() { shr::<65, 2, 2, 0>() }
    #[cfg_attr(kani, kani::unwind(4))] fn c05_shr_w128() { shr::<128, 2, 1, 0>() }
    #[cfg_attr(kani, kani::unwind(18))] fn c05_shr_edge_w128() { shr::<128, 2, 2, 0>() }
    #[cfg_attr(kani, kani::unwind(5))] fn c05_shr_w129() { shr::<129, 3, 1, 0>() }
    #[cfg_attr(kani, kani::unwind(26))] fn c05_shr_edge_w129() { shr::<129, 3, 2, 0>() }
    #[cfg_attr(kani, kani::unwind(6))] fn c05_shra_w250() { shr::<250, 4, 1, 1>() }
    #[cfg_attr(kani, kani::unwind(6))] fn c05_shrb_w250() { shr::<250, 4, 1, 2>() }
    #[cfg_attr(kani, kani::unwind(34))] fn c05_shra_edge_w250() { shr::<250, 4, 2, 1>() }
    #[cfg_attr(kani, kani::unwind(34))] fn c05_shrb_edge_w250() { shr::<250, 4, 2, 2>() }
    #[cfg_attr(kani, kani::unwind(6))] fn c05_shra_w256() { shr::<256, 4, 1, 1>() }
    #[cfg_attr(kani, kani::unwind(6))] fn c05_shrb_w256() { shr::<256, 4, 1, 2>() }
    #[cfg_attr(kani, kani::unwind(34))] fn c05_shra_edge_w256() { shr::<256, 4, 2, 1>() }
    #[cfg_attr(kani, kani::unwind(34))] fn c05_shrb_edge_w256() { shr::<256, 4, 2, 2>() }
    #[cfg_attr(kani, kani::unwind(10))] fn c05_sar_w0() { sar::<0, 0, 0>() }
    #[cfg_attr(kani, kani::unwind(10))] fn c05_sar_w1() { sar::<1, 1, 0>() }
    #[cfg_attr(kani, kani::unwind(10))] fn c05_sar_w8() { sar::<8, 1, 0>() }
    #[cfg_attr(kani, kani::unwind(10))] fn c05_sar_w60() { sar::<60, 1, 0>() }
    #[cfg_attr(kani, kani::unwind(10))] fn c05_sar_w64() { sar::<64, 1, 0>() }
    #[cfg_attr(kani, kani::unwind(4))] fn c05_sar_w65() { sar::<65, 2, 1>() }
    #[cfg_attr(kani, kani::unwind(18))] fn c05_sar_edge_w65() { sar::<65, 2, 2>() }
    #[cfg_attr(kani, kani::unwind(4))] fn c05_sar_w128() { sar::<128, 2, 1>() }
    #[cfg_attr(kani, kani::unwind(18))] fn c05_sar_edge_w128() { sar::<128, 2, 2>() }
    #[cfg_attr(kani, kani::unwind(5))] fn c05_sar_w129() { sar::<129, 3, 1>() }
    #[cfg_attr(kani, kani::unwind(26))] fn c05_sar_edge_w129() { sar::<129, 3, 2>() }
    #[cfg_attr(kani, kani::unwind(6))] fn c05_sar_w250() { sar::<250, 4, 1>() }
    #[cfg_attr(kani, kani::unwind(34))] fn c05_sar_edge_w250() { sar::<250, 4, 2>() }
    #[cfg_attr(kani, kani::unwind(6))] fn c05_sar_w256() { sar::<256, 4, 1>() }
    #[cfg_attr(kani, kani::unwind(34))] fn c05_sar_edge_w256() { sar::<256, 4, 2>() }
    #[cfg_attr(kani, kani::unwind(10))] fn c05_rot_w0() { rot::<0, 0, 0, 0, true>() }
    #[cfg_attr(kani, kani::unwind(10))] fn c05_rot_w1() { rot::<1, 1, 0, 0, true>() }
    #[cfg_attr(kani, kani::unwind(10))] fn c05_rot_w8() { rot::<8, 1, 0, 0, true>() }
    #[cfg_attr(kani, kani::unwind(10))] fn c05_rot_w60() { rot::<60, 1, 0, 0, true>() }
    #[cfg_attr(kani, kani::unwind(10))] fn c05_rot_w64() { rot::<64, 1, 0, 0, true>() }
    #[cfg_attr(kani, kani::unwind(4))] fn c05_rot_w65() { rot::<65, 2, 0, 0, true>() }
    #[cfg_attr(kani, kani::unwind(4))] fn c05_rot_w128() { rot::<128, 2, 1, 0, true>() }
    #[cfg_attr(kani, kani::unwind(18))] fn c05_rot_edge_w128() { rot::<128, 2, 2, 0, true>() }
    #[cfg_attr(kani, kani::unwind(5))] fn c05_rotl_w129() { rot::<129, 3, 0, 1, true>() }
    #[cfg_attr(kani, kani::unwind(5))] fn c05_rotr_w129() { rot::<129, 3, 0, 2, true>() }
    #[cfg_attr(kani, kani::unwind(6))] fn c05_rotl_w250() { rot::<250, 4, 0, 1, true>() }
    #[cfg_attr(kani, kani::unwind(6))] fn c05_rotr_w250() { rot::<250, 4, 0, 2, true>() }
    #[cfg_attr(kani, kani::unwind(6))] fn c05_rotl_w256() { rot::<256, 4, 1, 1, true>() }
    #[cfg_attr(kani, kani::unwind(6))] fn c05_rotr_w256() { rot::<256, 4, 1, 2, true>() }
    #[cfg_attr(kani, kani::unwind(34))] fn c05_rot_edge_w256() { rot::<256, 4, 2, 0, true>() }
    #[cfg_attr(kani, kani::unwind(8))] fn c05_rot_limbs_w192() { rot_limbs::<192, 3>() }
    #[cfg_attr(kani, kani::unwind(8))] fn c05_rot_limbs_w256() { rot_limbs::<256, 4>() }
    #[cfg_attr(kani, kani::unwind(10))] fn c05_rotu_w1() { rot::<1, 1, 0, 0, false>() }
    #[cfg_attr(kani, kani::unwind(10))] fn c05_rotu_w8() { rot::<8, 1, 0, 0, false>() }
    #[cfg_attr(kani, kani::unwind(10))] fn c05_rotu_w64() { rot::<64, 1, 0, 0, false>() }
    #[cfg_attr(kani, kani::unwind(4))] fn c05_rotu_w128() { rot::<128, 2, 1, 0, false>() }
    #[cfg_attr(kani, kani::unwind(18))] fn c05_rotu_edge_w128() { rot::<128, 2, 2, 0, false>() }
    #[cfg_attr(kani, kani::unwind(6))] fn c05_rotul_w256() { rot::<256, 4, 1, 1, false>() }
    #[cfg_attr(kani, kani::unwind(6))] fn c05_rotur_w256() { rot::<256, 4, 1, 2, false>() }
    #[cfg_attr(kani, kani::unwind(34))] fn c05_rotu_edge_w256() { rot::<256, 4, 2, 0, false>() }
    #[cfg_attr(kani, kani::unwind(10))] fn c05_ops_all_w0() { ops_all::<0, 0>() }
    #[cfg_attr(kani, kani::unwind(3))] fn c05_ops_usize_w60() { ops_usize::<60, 1, 1>() }
    #[cfg_attr(kani, kani::unwind(10))] fn c05_ops_usize_edge_w60() { ops_usize::<60, 1, 2>() }
    #[cfg_attr(kani, kani::unwind(4))] fn c05_ops_usize_w65() { ops_usize::<65, 2, 1>() }
    #[cfg_attr(kani, kani::unwind(18))] fn c05_ops_usize_edge_w65() { ops_usize::<65, 2, 2>() }
    #[cfg_attr(kani, kani::unwind(3))] fn c05_ops_u8_w60() { ops_u8::<60, 1, 1>() }
    #[cfg_attr(kani, kani::unwind(10))] fn c05_ops_u8_edge_w60() { ops_u8::<60, 1, 2>() }
    #[cfg_attr(kani, kani::unwind(4))] fn c05_ops_u8_w65() { ops_u8::<65, 2, 1>() }
    #[cfg_attr(kani, kani::unwind(18))] fn c05_ops_u8_edge_w65() { ops_u8::<65, 2, 2>() }
    #[cfg_attr(kani, kani::unwind(3))] fn c05_ops_u16_w60() { ops_u16::<60, 1, 1>() }
    #[cfg_attr(kani, kani::unwind(10))] fn c05_ops_u16_edge_w60() { ops_u16::<60, 1, 2>() }
    #[cfg_attr(kani, kani::unwind(4))] fn c05_ops_u16_w65() { ops_u16::<65, 2, 1>() }
    #[cfg_attr(kani, kani::unwind(18))] fn c05_ops_u16_edge_w65() { ops_u16::<65, 2, 2>() }
    #[cfg_attr(kani, kani::unwind(3))] fn c05_ops_u32_w60() { ops_u32::<60, 1, 1>() }
    #[cfg_attr(kani, kani::unwind(10))] fn c05_ops_u32_edge_w60() { ops_u32::<60, 1, 2>() }
    #[cfg_attr(kani, kani::unwind(4))] fn c05_ops_u32_w65() { ops_u32::<65, 2, 1>() }
    #[cfg_attr(kani, kani::unwind(18))] fn c05_ops_u32_edge_w65() { ops_u32::<65, 2, 2>() }
    #[cfg_attr(kani, kani::unwind(3))] fn c05_ops_u64_w60() { ops_u64::<60, 1, 1>() }
    #[cfg_attr(kani, kani::unwind(10))] fn c05_ops_u64_edge_w60() { ops_u64::<60, 1, 2>() }
    #[cfg_attr(kani, kani::unwind(4))] fn c05_ops_u64_w65() { ops_u64::<65, 2, 1>() }
    #[cfg_attr(kani, kani::unwind(18))] fn c05_ops_u64_edge_w65() { ops_u64::<65, 2, 2>() }
    #[cfg_attr(kani, kani::unwind(3))] fn c05_ops_isize_w60() { ops_isize::<60, 1, 1>() }
    #[cfg_attr(kani, kani::unwind(10))] fn c05_ops_isize_edge_w60() { ops_isize::<60, 1, 2>() }
    #[cfg_attr(kani, kani::unwind(4))] fn c05_ops_isize_w65() { ops_isize::<65, 2, 1>() }
    #[cfg_attr(kani, kani::unwind(18))] fn c05_ops_isize_edge_w65() { ops_isize::<65, 2, 2>() }
    #[cfg_attr(kani, kani::unwind(3))] fn c05_ops_i8_w60() { ops_i8::<60, 1, 1>() }
    #[cfg_attr(kani, kani::unwind(10))] fn c05_ops_i8_edge_w60() { ops_i8::<60, 1, 2>() }
    #[cfg_attr(kani, kani::unwind(4))] fn c05_ops_i8_w65() { ops_i8::<65, 2, 1>() }
    #[cfg_attr(kani, kani::unwind(3))] fn c05_ops_i16_w60() { ops_i16::<60, 1, 1>() }
    #[cfg_attr(kani, kani::unwind(10))] fn c05_ops_i16_edge_w60() { ops_i16::<60, 1, 2>() }
    #[cfg_attr(kani, kani::unwind(4))] fn c05_ops_i16_w65() { ops_i16::<65, 2, 1>() }
    #[cfg_attr(kani, kani::unwind(18))] fn c05_ops_i16_edge_w65() { ops_i16::<65, 2, 2>() }
    #[cfg_attr(kani, kani::unwind(3))] fn c05_ops_i32_w60() { ops_i32::<60, 1, 1>() }
    #[cfg_attr(kani, kani::unwind(10))] fn c05_ops_i32_edge_w60() { ops_i32::<60, 1, 2>() }
    #[cfg_attr(kani, kani::unwind(4))] fn c05_ops_i32_w65() { ops_i32::<65, 2, 1>() }
    #[cfg_attr(kani, kani::unwind(18))] fn c05_ops_i32_edge_w65() { ops_i32::<65, 2, 2>() }
    #[cfg_attr(kani, kani::unwind(3))] fn c05_ops_i64_w60() { ops_i64::<60, 1, 1>() }
    #[cfg_attr(kani, kani::unwind(10))] fn c05_ops_i64_edge_w60() { ops_i64::<60, 1, 2>() }
    #[cfg_attr(kani, kani::unwind(4))] fn c05_ops_i64_w65() { ops_i64::<65, 2, 1>() }
    #[cfg_attr(kani, kani::unwind(18))] fn c05_ops_i64_edge_w65() { ops_i64::<65, 2, 2>() }
    #[cfg_attr(kani, kani::unwind(10))] fn c05_uamt_w0() { uamt::<0, 0, 0, 0>() }
    #[cfg_attr(kani, kani::unwind(10))] fn c05_uamtl_w1() { uamt::<1, 1, 0, 1>() }
    #[cfg_attr(kani, kani::unwind(10))] fn c05_uamtr_w1() { uamt::<1, 1, 0, 2>() }
    #[cfg_attr(kani, kani::unwind(10))] fn c05_uamtl_w60() { uamt::<60, 1, 0, 1>() }
    #[cfg_attr(kani, kani::unwind(10))] fn c05_uamtr_w60() { uamt::<60, 1, 0, 2>() }
    #[cfg_attr(kani, kani::unwind(10))] fn c05_uamtl_w64() { uamt::<64, 1, 0, 1>() }
    #[cfg_attr(kani, kani::unwind(10))] fn c05_uamtr_w64() { uamt::<64, 1, 0, 2>() }
    #[cfg_attr(kani, kani::unwind(4))] fn c05_uamtl_w65() { uamt::<65, 2, 1, 1>() }
    #[cfg_attr(kani, kani::unwind(4))] fn c05_uamtr_w65() { uamt::<65, 2, 1, 2>() }
    #[cfg_attr(kani, kani::unwind(18))] fn c05_uamtl_edge_w65() { uamt::<65, 2, 2, 1>() }
    #[cfg_attr(kani, kani::unwind(18))] fn c05_uamtr_edge_w65() { uamt::<65, 2, 2, 2>() }
    #[cfg_attr(kani, kani::unwind(5))] fn c05_uamtl_w129() { uamt::<129, 3, 1, 1>() }
    #[cfg_attr(kani, kani::unwind(5))] fn c05_uamtr_w129() { uamt::<129, 3, 1, 2>() }
    #[cfg_attr(kani, kani::unwind(26))] fn c05_uamtl_edge_w129() { uamt::<129, 3, 2, 1>() }
    #[cfg_attr(kani, kani::unwind(26))] fn c05_uamtr_edge_w129() { uamt::<129, 3, 2, 2>() }
}

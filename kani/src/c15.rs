//! C15 — limb-slice kernels (public module ruint::algorithms): exact result limbs and carry/borrow words.
//! Oracles: u128 ripple arithmetic written here. Slice lengths are fixed per harness (complete for that
//! length: all contents); multiplication by a symbolic word is limited to one limb (CBMC cost: 40-140 s each);
//! multi-limb products (addmul, addmul_n) are decided by the Verus units `addmul` / `addmul_n` only - CBMC did not
//! finish even a 1x1x1 addmul against a schoolbook reference within 400 s.
use crate::oracle as o;
use crate::sym::*;
use ruint::algorithms as alg;

fn adc_sbb_n<const N: usize>() {
    let a: [u64; N] = any();
    let b: [u64; N] = any();
    let c: u64 = any();
    assume(c <= 1);
    let mut x = a;
    let r = alg::adc_n(&mut x, &b, c);
    let (want, cy) = o::add(&a, &b, c != 0);
    assert!(o::same(&x, &want), "adc_n limbs");
    assert!(r == cy as u64, "adc_n carry");
    let mut x = a;
    let r = alg::sbb_n(&mut x, &b, c);
    let (want, bw) = o::sub(&a, &b, c != 0);
    assert!(o::same(&x, &want), "sbb_n limbs");
    assert!(r == bw as u64, "sbb_n borrow");
}

fn add_nx1<const N: usize>() {
    let a: [u64; N] = any();
    let w: u64 = any();
    let mut x = a;
    let r = alg::add_nx1(&mut x, w);
    // reference: ripple the word through
    let mut want = a;
    let mut c = w as u128;
    let mut i = 0;
    while i < N { let s = want[i] as u128 + c; want[i] = s as u64; c = s >> 64; i += 1; }
    assert!(o::same(&x, &want), "add_nx1 limbs");
    assert!(r as u128 == c, "add_nx1 carry");
}

fn shifts<const N: usize>() {
    let a: [u64; N] = any();
    let s: usize = any();
    assume(s < 64);
    // left
    let mut x = a;
    let out = alg::shift_left_small(&mut x, s);
    let mut want = [0u64; N];
    let mut carry = 0u64;
    let mut i = 0;
    while i < N {
        let wide = (a[i] as u128) << s;
        want[i] = (wide as u64) | carry;
        carry = (wide >> 64) as u64;
        i += 1;
    }
    assert!(o::same(&x, &want), "shift_left_small limbs");
    assert!(out == carry, "shift_left_small bits shifted out");
    // right: bits shifted out are returned left-aligned
    let mut x = a;
    let out = alg::shift_right_small(&mut x, s);
    let mut want = [0u64; N];
    let mut carry = 0u64;
    let mut i = N;
    while i > 0 {
        i -= 1;
        let wide = ((a[i] as u128) << 64) >> s;
        want[i] = ((wide >> 64) as u64) | carry;
        carry = wide as u64;
    }
    assert!(o::same(&x, &want), "shift_right_small limbs");
    assert!(out == carry, "shift_right_small bits shifted out");
}

fn cmp_n<const N: usize>() {
    let a: [u64; N] = any();
    let b: [u64; N] = any();
    let r = alg::cmp(&a, &b);
    let want = if o::lt(&a, &b) { core::cmp::Ordering::Less } else if o::lt(&b, &a) { core::cmp::Ordering::Greater } else { core::cmp::Ordering::Equal };
    assert!(r == want, "cmp orders equal-length slices as integers");
}

/// x * w + add for one word w -> (limbs, carry word)
fn mul_word<const N: usize>(x: &[u64; N], w: u64, add: &[u64; N], cin: u64) -> ([u64; N], u64) {
    let mut r = [0u64; N];
    let mut c = cin as u128;
    let mut i = 0;
    while i < N {
        let t = (x[i] as u128) * (w as u128) + (add[i] as u128) + c;
        r[i] = t as u64;
        c = t >> 64;
        i += 1;
    }
    (r, c as u64)
}

fn nx1_mul<const N: usize>() {
    let l: [u64; N] = any();
    let w: u64 = any();
    let mut x = l;
    let r = alg::mul_nx1(&mut x, w);
    let (want, c) = mul_word(&l, w, &[0u64; N], 0);
    assert!(o::same(&x, &want) && r == c, "mul_nx1");
}
fn nx1_addmul<const N: usize>() {
    let a: [u64; N] = any();
    let l: [u64; N] = any();
    let w: u64 = any();
    let mut x = l;
    let r = alg::addmul_nx1(&mut x, &a, w);
    let (want, c) = mul_word(&a, w, &l, 0);
    assert!(o::same(&x, &want) && r == c, "addmul_nx1");
}
fn nx1_submul<const N: usize>() {
    // lhs - a*w = x - r * 2^(64N)
    let a: [u64; N] = any();
    let l: [u64; N] = any();
    let w: u64 = any();
    let mut x = l;
    let r = alg::submul_nx1(&mut x, &a, w);
    let (prod, pc) = mul_word(&a, w, &[0u64; N], 0);
    let (want, bw) = o::sub(&l, &prod, false);
    assert!(o::same(&x, &want) && r == pc + bw as u64, "submul_nx1");
}

crate::harnesses! {
    #[cfg_attr(kani, kani::unwind(12))] fn c15_adc_sbb_n0() { adc_sbb_n::<0>() }
    #[cfg_attr(kani, kani::unwind(12))] fn c15_adc_sbb_n1() { adc_sbb_n::<1>() }
    #[cfg_attr(kani, kani::unwind(12))] fn c15_adc_sbb_n3() { adc_sbb_n::<3>() }
    #[cfg_attr(kani, kani::unwind(12))] fn c15_adc_sbb_n6() { adc_sbb_n::<6>() }
    #[cfg_attr(kani, kani::unwind(12))] fn c15_adc_sbb_n10() { adc_sbb_n::<10>() }
    #[cfg_attr(kani, kani::unwind(12))] fn c15_add_nx1_n0() { add_nx1::<0>() }
    #[cfg_attr(kani, kani::unwind(12))] fn c15_add_nx1_n1() { add_nx1::<1>() }
    #[cfg_attr(kani, kani::unwind(12))] fn c15_add_nx1_n3() { add_nx1::<3>() }
    #[cfg_attr(kani, kani::unwind(12))] fn c15_add_nx1_n6() { add_nx1::<6>() }
    #[cfg_attr(kani, kani::unwind(12))] fn c15_shift_n0() { shifts::<0>() }
    #[cfg_attr(kani, kani::unwind(12))] fn c15_shift_n1() { shifts::<1>() }
    #[cfg_attr(kani, kani::unwind(12))] fn c15_shift_n3() { shifts::<3>() }
    #[cfg_attr(kani, kani::unwind(12))] fn c15_shift_n6() { shifts::<6>() }
    #[cfg_attr(kani, kani::unwind(12))] fn c15_cmp_n0() { cmp_n::<0>() }
    #[cfg_attr(kani, kani::unwind(12))] fn c15_cmp_n1() { cmp_n::<1>() }
    #[cfg_attr(kani, kani::unwind(12))] fn c15_cmp_n4() { cmp_n::<4>() }
    #[cfg_attr(kani, kani::unwind(12))] fn c15_cmp_n10() { cmp_n::<10>() }
    #[cfg_attr(kani, kani::unwind(12))] fn c15_nx1_n0() { nx1_mul::<0>(); nx1_addmul::<0>(); nx1_submul::<0>() }
    #[cfg_attr(kani, kani::unwind(12))] fn c15_mul_nx1_n1() { nx1_mul::<1>() }
    #[cfg_attr(kani, kani::unwind(12))] fn c15_addmul_nx1_n1() { nx1_addmul::<1>() }
    #[cfg_attr(kani, kani::unwind(12))] fn c15_submul_nx1_n1() { nx1_submul::<1>() }
}

//! C11 — the conditional final subtraction of Montgomery multiplication (reduce1_carry / sub are private and iterate with
//! zip(): their contract is ASSUMED in the Verus unit mul_redc). They are only reachable through mul_redc / square_redc,
//! whose symbolic multiplies are out of CBMC's reach beyond tiny cases, so this module checks the public functions at
//! N = 1 with a constant modulus (bounded stand-in). MEASURED: m = 3 finishes in 15 s; every larger constant modulus tried
//! (2^32-5, 2^62+1, 2^63+29, 2^64-59) did not finish in 900 s (64x64 symbolic multiply followed by u128 % constant),
//! so only m = 3 is kept; Montgomery multiplication is decided by the Verus unit mul_redc.
use crate::sym::*;
use ruint::algorithms::{mul_redc, square_redc};

/// -m^-1 mod 2^64 by Newton iteration on constants
const fn neg_inv(m: u64) -> u64 {
    let mut inv = 1u64;
    let mut i = 0;
    while i < 6 { inv = inv.wrapping_mul(2u64.wrapping_sub(m.wrapping_mul(inv))); i += 1; }
    inv.wrapping_neg()
}

fn redc1(m: u64) {
    let inv = neg_inv(m);
    let a: u64 = any();
    let b: u64 = any();
    assume(a < m && b < m);
    let r = mul_redc([a], [b], [m], inv)[0];
    assert!(r < m, "mul_redc result is fully reduced");
    // r * 2^64 == a * b (mod m)
    assert!(((r as u128) << 64) % (m as u128) == ((a as u128) * (b as u128)) % (m as u128), "mul_redc: r * R == a * b (mod m)");
    let s = square_redc([a], [m], inv)[0];
    assert!(s < m, "square_redc result is fully reduced");
    assert!(((s as u128) << 64) % (m as u128) == ((a as u128) * (a as u128)) % (m as u128), "square_redc: r * R == a * a (mod m)");
}

crate::harnesses! {
    #[cfg_attr(kani, kani::unwind(10))] fn c11_redc1_m3() { redc1(3) }
}

//! Cross-checks of the `assume_specification`s of core integer operations that the Verus units take on trust
//! (units/lib/base.rs, kernels.rs, knuth.rs, mul_redc.rs). Every harness is loop-free over the full input domain: complete.
use crate::sym::*;

crate::harnesses! {
    // assume_specification [u64::reverse_bits] (unit revbits): bit j of the result is bit 63 - j of the operand
    fn core_specs_u64_reverse_bits() {
        let x: u64 = any();
        let j: u32 = any();
        assume(j < 64);
        assert!((x.reverse_bits() >> j) & 1 == (x >> (63 - j)) & 1, "reverse_bits mirrors the word");
    }
    // N14 wrapper reverse_arr (unit revbits): std's slice::reverse on an array of length 5 (bounded in length)
    #[cfg_attr(kani, kani::unwind(7))] fn core_specs_array_reverse_len5() {
        let a: [u64; 5] = any();
        let mut b = a;
        b.reverse();
        let mut i = 0;
        while i < 5 { assert!(b[i] == a[4 - i], "reverse: element i is element N-1-i"); i += 1; }
    }
    // N14 wrappers position_nonzero_arr / position_not_max_arr (unit trailing): std's Iterator::position on arrays of
    // length 5 with any contents (bounded in length)
    #[cfg_attr(kani, kani::unwind(7))] fn core_specs_position_len5() {
        let a: [u64; 5] = any();
        match a.iter().position(|&x| x != 0) {
            Some(i) => {
                assert!(i < 5 && a[i] != 0, "position: index of a non-zero limb");
                let mut j = 0;
                while j < i { assert!(a[j] == 0, "position: everything below is zero"); j += 1; }
            }
            None => { let mut j = 0; while j < 5 { assert!(a[j] == 0, "position None: all zero"); j += 1; } }
        }
        match a.iter().position(|&x| x != u64::MAX) {
            Some(i) => {
                assert!(i < 5 && a[i] != u64::MAX, "position: index of a limb that is not all ones");
                let mut j = 0;
                while j < i { assert!(a[j] == u64::MAX, "position: everything below is all ones"); j += 1; }
            }
            None => { let mut j = 0; while j < 5 { assert!(a[j] == u64::MAX, "position None: all ones"); j += 1; } }
        }
    }
    // vstd's axioms for u64::trailing_zeros / trailing_ones as used by unit trailing
    fn core_specs_trailing_zeros_facts() {
        let x: u64 = any();
        let t = x.trailing_zeros();
        assert!((x == 0) == (t == 64), "trailing_zeros == 64 exactly for 0");
        if x != 0 {
            assert!((x >> t) & 1 == 1, "bit trailing_zeros is set");
            let j: u32 = any();
            assume(j < t);
            assert!((x >> j) & 1 == 0, "bits below trailing_zeros are clear");
        }
        assert!(x.trailing_ones() == (!x).trailing_zeros(), "trailing_ones(x) == trailing_zeros(!x)");
    }
    // assume_specification [u64::overflowing_add]: r.0 == (a + b) mod 2^64, r.1 == (a + b >= 2^64)
    fn core_specs_u64_overflowing_add_spec() {
        let a: u64 = any(); let b: u64 = any();
        let (r, f) = a.overflowing_add(b);
        let s = a as u128 + b as u128;
        assert!(r as u128 == s % (1u128 << 64), "sum modulo 2^64");
        assert!(f == (s >= (1u128 << 64)), "flag iff the sum does not fit");
    }
    // assume_specification [u64::overflowing_sub]: r.0 == (a - b) mod 2^64 (euclidean), r.1 == (a < b)
    fn core_specs_u64_overflowing_sub_spec() {
        let a: u64 = any(); let b: u64 = any();
        let (r, f) = a.overflowing_sub(b);
        let d = a as i128 - b as i128;
        assert!(r as i128 == d.rem_euclid(1i128 << 64), "difference modulo 2^64");
        assert!(f == (d < 0), "flag iff negative");
    }
    // assume_specification [u64::wrapping_neg]
    fn core_specs_u64_wrapping_neg_spec() {
        let a: u64 = any();
        let r = a.wrapping_neg();
        if a == 0 { assert!(r == 0, "neg 0"); } else { assert!(r as u128 == (1u128 << 64) - a as u128, "2^64 - a"); }
    }
    // assume_specification [u128::overflowing_add]: no wider type, so stated through the complement
    fn core_specs_u128_overflowing_add_spec() {
        let a: u128 = any(); let b: u128 = any();
        let (r, f) = a.overflowing_add(b);
        let room = u128::MAX - b;
        assert!(f == (a > room), "flag iff a + b > 2^128 - 1");
        if !f { assert!(r - a == b && r >= a, "exact sum"); } else { assert!(r == a - room - 1, "sum minus 2^128"); }
    }
    // lemma_u128_lz (unit jebelean): x >= 1  ==>  lz < 128, 2^127 <= x << lz (no bits lost), and lz <= 63 for x >= 2^64
    fn core_specs_u128_leading_zeros_fact() {
        let x: u128 = any();
        assume(x >= 1);
        let lz = x.leading_zeros();
        assert!(lz < 128, "leading_zeros of a non-zero u128 is < 128");
        let y = x << lz;
        assert!(y >> lz == x, "no bits are lost by x << lz");
        assert!(y >= (1u128 << 127), "x << lz has the top bit set");
        if x >= (1u128 << 64) { assert!(lz <= 63, "values of more than 64 bits have at most 63 leading zeros"); }
    }
    // assume_specification [u64::count_ones] (unit popcount): the recursive definition pop(v) = v % 2 + pop(v / 2)
    #[cfg_attr(kani, kani::unwind(66))] fn core_specs_u64_count_ones_spec() {
        let x: u64 = any();
        let mut v = x; let mut n = 0u32;
        while v != 0 { n += (v % 2) as u32; v /= 2; }
        assert!(x.count_ones() == n, "count_ones == number of ones of the binary expansion");
    }
    // assume_specification [<i8 as From<bool>>::from] and [core::cmp::min]
    fn core_specs_i8_from_bool_and_min_spec() {
        assert!(i8::from(true) == 1 && i8::from(false) == 0, "i8::from(bool)");
        let a: usize = any(); let b: usize = any();
        let m = core::cmp::min(a, b);
        assert!(m <= a && m <= b && (m == a || m == b), "min");
        let x: u64 = any(); let y: u64 = any();
        let n = core::cmp::min(x, y);
        assert!(n <= x && n <= y && (n == x || n == y), "min u64");
    }
    // assume_specification [Option::<&T>::copied]
    fn core_specs_option_copied_spec() {
        let x: u64 = any();
        let some: Option<&u64> = Some(&x);
        let none: Option<&u64> = None;
        assert!(some.copied() == Some(x) && none.copied().is_none(), "Option::copied");
    }
    // wrapper any_nonzero_above_first (unit shifts): std's Iterator::any on `limbs[1..]`, arrays of 1, 2, 3 and 6 limbs (bounded)
    #[cfg_attr(kani, kani::unwind(8))] fn core_specs_any_above_first_len6() {
        fn chk<const N: usize>() {
            let a: [u64; N] = any();
            let got = a[1..].iter().any(|&limb| limb != 0);
            let mut want = false;
            let mut j = 1;
            while j < N { if a[j] != 0 { want = true; } j += 1; }
            assert!(got == want, "any(|&limb| limb != 0) over limbs[1..]");
        }
        chk::<1>(); chk::<2>(); chk::<3>(); chk::<6>();
    }
    // assume_specification [<[T]>::fill] on slices of length 0..=6 (bounded)
    #[cfg_attr(kani, kani::unwind(8))] fn core_specs_slice_fill_len6() {
        let mut a: [u64; 6] = any();
        let n: usize = any(); assume(n <= 6);
        let v: u64 = any();
        let before = a;
        a[..n].fill(v);
        let mut j = 0;
        while j < 6 { if j < n { assert!(a[j] == v, "filled"); } else { assert!(a[j] == before[j], "frame"); } j += 1; }
    }
    // wrappers of unit conv_slice: std's copy_from_slice on a prefix / the whole array, split_at, Iterator::any;
    // slice lengths 0, 1, 2, 3, 6 against arrays of 6 limbs (bounded; lengths are concrete, contents symbolic)
    #[cfg_attr(kani, kani::unwind(8))] fn core_specs_slice_ctor_wrappers_len6() {
        fn chk<const N: usize>() {
            let src: [u64; N] = any();
            let slice = &src[..];
            // limbs[..slice.len()].copy_from_slice(slice)
            let mut limbs: [u64; 6] = any();
            let before = limbs;
            limbs[..slice.len()].copy_from_slice(slice);
            let mut j = 0;
            while j < 6 { if j < N { assert!(limbs[j] == slice[j], "prefix copied"); } else { assert!(limbs[j] == before[j], "frame"); } j += 1; }
            // split_at(mid), mid symbolic
            let mid: usize = any(); assume(mid <= N);
            let (head, tail) = slice.split_at(mid);
            assert!(head.len() == mid && tail.len() == N - mid, "split lengths");
            let mut j = 0;
            while j < N { if j < mid { assert!(head[j] == slice[j], "head"); } else { assert!(tail[j - mid] == slice[j], "tail"); } j += 1; }
            // tail.iter().any(|&limb| limb != 0)
            let got = tail.iter().any(|&limb| limb != 0);
            let mut want = false;
            let mut j = 0;
            while j < tail.len() { if tail[j] != 0 { want = true; } j += 1; }
            assert!(got == want, "any(|&limb| limb != 0)");
            // limbs.copy_from_slice(head) with head.len() == N
            let mut all: [u64; N] = any();
            all.copy_from_slice(slice);
            let mut j = 0;
            while j < N { assert!(all[j] == slice[j], "whole array copied"); j += 1; }
        }
        chk::<0>(); chk::<1>(); chk::<2>(); chk::<3>(); chk::<6>();
    }
    // assume_specification [iN::is_negative] (unit conv_prim): full domain of every signed type, loop-free (complete)
    fn core_specs_is_negative_spec() {
        let a: i8 = any(); assert!(a.is_negative() == (a < 0), "i8");
        let b: i16 = any(); assert!(b.is_negative() == (b < 0), "i16");
        let c: i32 = any(); assert!(c.is_negative() == (c < 0), "i32");
        let d: i64 = any(); assert!(d.is_negative() == (d < 0), "i64");
        let e: i128 = any(); assert!(e.is_negative() == (e < 0), "i128");
        let f: isize = any(); assert!(f.is_negative() == (f < 0), "isize");
    }
    // N20 callees of unit byteslice (le_u64_at / be_u64_before_end): the raw 8-byte reads of try_from_le_slice / try_from_be_slice, every in-bounds
    // offset of a 24-byte slice, all contents (complete for this length; the offsets are symbolic)
    #[cfg_attr(kani, kani::unwind(26))] fn core_specs_raw_u64_reads() {
        let a: [u8; 24] = any();
        let bytes: &[u8] = &a;
        let off: usize = any(); assume(off <= 16);
        let le = u64::from_le_bytes(unsafe { *bytes.as_ptr().add(off).cast() });
        let mut want = 0u64;
        let mut k = 0;
        while k < 8 { want |= (bytes[off + k] as u64) << (8 * k); k += 1; }
        assert!(le == want, "little-endian value of bytes[off..off+8]");
        let back: usize = any(); assume(8 <= back && back <= 24);
        let end = bytes.as_ptr_range().end;
        let be = u64::from_be_bytes(unsafe { *end.sub(back).cast() });
        let mut want = 0u64;
        let mut k = 0;
        while k < 8 { want |= (bytes[24 - back + 7 - k] as u64) << (8 * k); k += 1; }
        assert!(be == want, "value of the eight bytes ending `back - 8` before the end, most significant first");
    }
}

//! C20 - every alternative surface of an operation agrees with the inherent `Uint` method (or the plain `==`, `<`, `>`).
//! Needs `--features facades` (ruint features num-traits, num-integer, subtle, zeroize + those crates for the harness
//! crate).  The reference in each assertion is the INHERENT ruint method on the same inputs (that IS the property:
//! forwarding); where an independent value is cheap it is asserted too (mul_add, Product, swap_bytes, is_multiple_of,
//! next/prev_multiple_of, subtle comparisons and bit test, identities, parity).  What the inherent methods compute is
//! the subject of the other modules.  Symbolic = all canonical values of the width; `Option`s, flags and panics included.
//!
//! A. operator shapes of `*`, `/`, `%` (`+`, `-` are in c01; `& | ^ << >>` in their own modules), Uint<8,1>, `dz::`:
//!    `c20_mul_shapes_w8`, `c20_div_shapes_w8`, `c20_rem_shapes_w8`: `a op b`, `&a op b`, `a op &b`, `&a op &b`, `op=`,
//!    `op= &b` == wrapping_mul / wrapping_div / wrapping_rem (divisor != 0); `c20_product_w8`: Product<Self> and
//!    Product<&Self> over 0..=3 elements == fold of wrapping_mul from 1 == the product mod 2^8.
//!    `c20_{div,rem}_{ref_val,val_ref,ref_ref,assign,assign_ref}_zero_w65_must_panic`: the shapes not in c03p panic (and
//!    never return) for a zero divisor, for every dividend.
//! B. `ruint::Bits` (src/bit_arr.rs), every forwarded item == the same item of the inner Uint:
//!    `c20_bits_basic_w{1,64,65}`: From both ways, into(), into_inner, as_uint, as_uint_mut, as_limbs, as_limbs_mut,
//!    from_limbs, ZERO, Default, BITS/LIMBS/BYTES, derived `==`, Index (`bits[i] == bit(i)` for EVERY usize i), `!` (two
//!    shapes), reverse_bits, leading/trailing zeros/ones.  `c20_bits_{and,or,xor}_w{64,65,128}`: six shapes each.
//!    `c20_bits_{shl_ops,shr_ops}_*`: `<<`, `>>` by usize / &usize on Bits / &Bits, `<<=`, `>>=` (two shapes) ==
//!    wrapping_shl / wrapping_shr == Uint `<<` / `>>`; `c20_bits_shift_methods_*`: wrapping/overflowing/checked shl/shr;
//!    `c20_bits_rotate_*`: rotate_left/right.  `*_w64`: the amount is symbolic (EVERY usize); `*_edges_w65` - BOUNDED:
//!    amounts from the list {0, 1, 63, 64, 65, 66, 130, 137, 2^32-1, 2^64-1} (one evaluation of a two-limb shift by a
//!    symbolic amount costs ~9 s and these bodies hold 3 - 8 of them; one rotate at 65 bits, symbolic: 83 s).
//!    `c20_bits_bytes_w{64,65}`: to_le_bytes, to_be_bytes, as_le_bytes, to_be_bytes_vec, from_le_bytes, from_be_bytes (on
//!    the images of canonical values); `c20_bits_try_slices_w{64,65}`: try_from_le_slice / try_from_be_slice on EVERY byte
//!    string of length <= BYTES + 1.
//! C. num-traits (src/support/num_traits.rs):
//!    `c20_nt_ident_*` Zero (zero, is_zero, set_zero), One (one, is_one, set_one), Bounded; `c20_nt_addsub_w{1,64,65,128}`
//!    Checked/Wrapping/Overflowing/Saturating Add and Sub, CheckedNeg, WrappingNeg, Saturating (argument order is
//!    implied: two symbolic operands); `c20_nt_{shl,shr,rotate}_{w64,edges_w65}` CheckedShl/Shr, WrappingShl/Shr,
//!    PrimInt::{signed_shl, unsigned_shl, unsigned_shr, signed_shr (== arithmetic_shr), rotate_left, rotate_right} with
//!    the u32 amount symbolic at 64 bits, from the edge list at 65; `c20_nt_counts_w{1,64,65}` PrimInt::{count_ones,
//!    count_zeros, leading/trailing zeros/ones, reverse_bits, from_le, to_le}; `c20_nt_to_prim_*` ToPrimitive to_{u,i}{8,
//!    16,32,64,128,size} == try_from(&x).ok() == try_from(x).ok(); `c20_nt_from_prim_{a,b}_*` FromPrimitive from_* and
//!    NumCast::from::<T> for the same 12 integer types == Uint::try_from(v).ok(); `c20_nt_bytes_w{64,65}` ToBytes (le,
//!    be, ne) == to_*_bytes_vec, FromBytes round trip; `c20_nt_from_bytes_w65` FromBytes::from_{le,be}_bytes ==
//!    try_from_*_slice wherever that is Some, on every byte string of length <= 10, `..._must_panic`: and panics wherever
//!    it is None (as the inherent from_*_slice does); `c20_nt_swap_bytes_w{64,128}` swap_bytes / to_be / from_be reverse
//!    the bytes (only BITS % 8 == 0: documented as not well defined otherwise); `c20_nt_inv_w8` Inv == inv_ring.
//!    Uint<8,1>, `dz::`: `c20_nt_{wrapping,checked,overflowing,saturating}_mul_w8`, `c20_nt_mul_add_w8` (MulAdd,
//!    MulAddAssign == x a + b, also as a number), `c20_nt_div_w8` CheckedDiv, CheckedRem, CheckedEuclid (None for 0),
//!    `c20_nt_euclid_w8` Euclid::{div_euclid, rem_euclid, div_rem_euclid}, checked_div_rem_euclid == div_rem,
//!    `c20_nt_*_euclid_zero_w65_must_panic`; Uint<4,1>: `c20_nt_pow_w4` Pow<Self>::pow and PrimInt::pow(u32) == pow for
//!    every base and every exponent < 2^4.
//! D. num-integer (src/support/num_integer.rs): `c20_ni_parity_w{1,64,65}` is_even, is_odd, inc, dec; Uint<8,1>:
//!    `c20_ni_div_w8` div_floor, mod_floor, div_rem, div_mod_floor == div_rem; `c20_ni_div_ceil_w8` div_ceil,
//!    prev_multiple_of == a - a mod b; `c20_ni_multiple_w8` is_multiple_of == (a mod b == 0), for b == 0: a == 0;
//!    `c20_ni_next_multiple_w8` the provided next_multiple_of == ceil(a/b) b mod 2^8; `c20_ni_*_zero_w65_must_panic`
//!    (7 entry points).  gcd, extended_gcd, lcm: CONCRETE pairs executed one by one (symbolic is out of reach, see c10):
//!    `c20_ni_{gcd,extended_gcd,lcm}_w2` 6 - 8 pairs at 2 bits, `..._w8` 3 - 5 pairs at 8 bits incl. (233, 144) - BOUNDED;
//!    `c20_ni_lcm_overflow_w2_must_panic`: lcm(3, 2) at 2 bits: inherent None, facade (no Option) panics.
//! E. subtle (src/support/subtle.rs), widths 1, 64, 65, 128, 192: `c20_subtle_cmp_*` ct_eq / ct_ne / ct_gt / ct_lt ==
//!    `==`, `!=`, `>`, `<` (and == the limb oracle); `c20_subtle_select_*` conditional_select(a, b, c) == (c ? b : a),
//!    conditional_assign, conditional_swap, conditional_negate (== wrapping_neg when chosen); `c20_subtle_bit_*`
//!    bit_ct(i) == bit(i) for every i < BITS.
//!    `kf_c20_subtle_bit_ct_out_of_range_w65`: KNOWN FINDING, EXPECTED TO FAIL - asserts bit_ct(i) == bit(i) for i >= BITS;
//!    bit returns false there, bit_ct panics (`assert!(index < BITS)`, documented).
//! F. zeroize, `zz::c20_zeroize_w{1,64,65,192}`: zeroize() leaves Uint and Bits zero.  Stub: zeroize's
//!    `optimization_barrier` (an empty `asm!`, not supported by Kani, no effect on values) replaced by a no-op.
//!
//! Stubs: `dz::` = division kernels div_nx1 / div_nx2 / div_nxm fail when reached (proved unreachable at LIMBS = 1) and
//! `Uint::is_zero` replaced by its limb-wise model (contract: c03p_is_zero_contract_w8, c10_is_zero_contract_*);
//! `d::` = only the division kernels (bodies that need the memcmp anyway: unwind 10 / 18).
//!
//! NOT covered: mul / div / rem / pow / gcd facades above 8 bits and Inv above 8 bits (cost: at 64 bits Inv alone > 200 s);
//! PrimInt::pow(x, e: u32) for e >= 2^BITS (it PANICS there - `Self::from(exp)` does not fit - e.g. Uint<8,1>: pow(1, 256);
//! the inherent pow cannot be given such an exponent: reported, not asserted); FromStr / from_str_radix of Bits and
//! Num::from_str_radix (strings); Hash, Debug of Bits; ToPrimitive::{to_f32, to_f64}, FromPrimitive::{from_f32, from_f64},
//! NumCast from floats (provided methods of num-traits going through to_u64 / to_u128: to_f64(2^64) is None while
//! f64::from works, NumCast::from(2.7) == 2 while try_from(2.7) == 3 - no inherent method is documented as their
//! reference); Integer::{gcd_lcm, extended_gcd_lcm, divides}; Integer::extended_gcd drops the sign of gcd_extended
//! (gcd == a x + b y of num-integer does not hold: (12, 18) at 8 bits gives x = y = 1); Integer::next_multiple_of wraps
//! on overflow where the inherent method panics ((250, 100) at 8 bits: 44); swap_bytes for BITS % 8 != 0 (may panic);
//! symbolic shift / rotate amounts at LIMBS >= 2 (edge list instead); Sum (c01); `Unsigned` (marker).
//! Measured (cargo kani --features facades, -j 8): 123 harnesses, 1130 s CPU in total; slowest: overflowing_mul_w8 43 s,
//! bits_shift_methods_w64 42 s, div_shapes_w8 41 s, nt_shl_w64 38 s; all others < 38 s, most < 10 s.
#![cfg(feature = "facades")]
use crate::oracle as o;
use crate::sym::*;
use num_integer as ni;
use num_traits as nt;
use ruint::{Bits, Uint};
// NOTE: no trait is imported by name: with e.g. `PrimInt` in scope `x.leading_zeros()` would resolve to the by-value
// trait method instead of the inherent `&self` one.  Trait methods are always called through their path, inherent
// methods through `Uint::<B, L>::name(..)` or method syntax.

// ---------------------------------------------------------------- stubs (copies of the c03p ones; c03p.rs is not edited)
pub fn unreachable_div_nx1(_limbs: &mut [u64], _divisor: u64) -> u64 { panic!("div_nx1 reached at LIMBS = 1") }
pub fn unreachable_div_nx2(_limbs: &mut [u64], _divisor: u128) -> u128 { panic!("div_nx2 reached at LIMBS = 1") }
pub fn unreachable_div_nxm(_numerator: &mut [u64], _divisor: &mut [u64]) { panic!("div_nxm reached at LIMBS = 1") }
/// limb-wise model of `Uint::is_zero` (contract proved by c03p_is_zero_contract_w8 / c10_is_zero_contract_*)
pub fn is_zero_model<const BITS: usize, const LIMBS: usize>(x: &Uint<BITS, LIMBS>) -> bool { o::is_zero(x.as_limbs()) }

macro_rules! div_stubs {
    ($($(#[$m:meta])* fn $name:ident() $body:block)*) => {
        crate::harnesses! { $(
            $(#[$m])*
            #[cfg_attr(kani, kani::stub(ruint::algorithms::div::div_nx1, unreachable_div_nx1))]
            #[cfg_attr(kani, kani::stub(ruint::algorithms::div::div_nx2, unreachable_div_nx2))]
            #[cfg_attr(kani, kani::stub(ruint::algorithms::div::div_nxm, unreachable_div_nxm))]
            fn $name() $body
        )* }
    };
}
macro_rules! div_z_stubs {
    ($($(#[$m:meta])* fn $name:ident() $body:block)*) => {
        div_stubs! { $(
            $(#[$m])*
            #[cfg_attr(kani, kani::stub(ruint::Uint::is_zero, is_zero_model))]
            fn $name() $body
        )* }
    };
}

// ---------------------------------------------------------------- helpers
fn returned() {
    #[cfg(kani)]
    { let mut i: u8 = 0; loop { i = i.wrapping_add(1); } }
    #[cfg(not(kani))]
    panic!("REPLAY: the call returned although it must panic");
}
/// both None, or both Some with equal values
fn oeq<const B: usize, const L: usize>(a: Option<Uint<B, L>>, b: Option<Uint<B, L>>) -> bool {
    match (a, b) { (None, None) => true, (Some(x), Some(y)) => ueq(x, y), _ => false }
}
fn peq<const B: usize, const L: usize>(a: (Uint<B, L>, bool), b: (Uint<B, L>, bool)) -> bool { ueq(a.0, b.0) && a.1 == b.1 }
fn ppeq<const B: usize, const L: usize>(a: (Uint<B, L>, Uint<B, L>), b: (Uint<B, L>, Uint<B, L>)) -> bool { ueq(a.0, b.0) && ueq(a.1, b.1) }
fn beq<const B: usize, const L: usize>(a: Bits<B, L>, b: Uint<B, L>) -> bool { o::same(a.as_limbs(), b.as_limbs()) }
fn obeq<const B: usize, const L: usize>(a: Option<Bits<B, L>>, b: Option<Uint<B, L>>) -> bool {
    match (a, b) { (None, None) => true, (Some(x), Some(y)) => beq(x, y), _ => false }
}
fn bytes_eq(a: &[u8], b: &[u8]) -> bool {
    if a.len() != b.len() { return false; }
    let mut i = 0;
    while i < a.len() { if a[i] != b[i] { return false; } i += 1; }
    true
}
/// a canonical B-bit value (B <= 8) whose upper 56 bits are syntactically zero
fn small<const B: usize>() -> Uint<B, 1> {
    let v: u8 = any();
    assume((v as u16) < (1u16 << B));
    Uint::from_limbs([v as u64])
}
fn one<const B: usize, const L: usize>() -> Uint<B, L> { let mut l = [0u64; L]; l[0] = 1; Uint::from_limbs(l) }

// ================================================================ A. operator shapes of * / %  (8/1)
fn mul_shapes<const B: usize>() {
    let (a, b) = (small::<B>(), small::<B>());
    let w = a.wrapping_mul(b);
    assert!(ueq(a * b, w) && ueq(&a * b, w) && ueq(a * &b, w) && ueq(&a * &b, w), "Mul operators == wrapping_mul");
    let mut t = a; t *= b; assert!(ueq(t, w), "MulAssign");
    let mut t = a; t *= &b; assert!(ueq(t, w), "MulAssign ref");
}
fn div_shapes<const B: usize>() {
    let (a, b) = (small::<B>(), small::<B>());
    assume(b.as_limbs()[0] != 0);
    let w = a.wrapping_div(b);
    assert!(ueq(a / b, w) && ueq(&a / b, w) && ueq(a / &b, w) && ueq(&a / &b, w), "Div operators == wrapping_div");
    let mut t = a; t /= b; assert!(ueq(t, w), "DivAssign");
    let mut t = a; t /= &b; assert!(ueq(t, w), "DivAssign ref");
}
fn rem_shapes<const B: usize>() {
    let (a, b) = (small::<B>(), small::<B>());
    assume(b.as_limbs()[0] != 0);
    let w = a.wrapping_rem(b);
    assert!(ueq(a % b, w) && ueq(&a % b, w) && ueq(a % &b, w) && ueq(&a % &b, w), "Rem operators == wrapping_rem");
    let mut t = a; t %= b; assert!(ueq(t, w), "RemAssign");
    let mut t = a; t %= &b; assert!(ueq(t, w), "RemAssign ref");
}
/// the remaining zero-divisor shapes (c03p has `a / 0`, `a % 0`): which 0..=9
fn div_zero_shapes<const B: usize, const L: usize>(which: u8) {
    let a = uint::<B, L>();
    let z = Uint::<B, L>::ZERO;
    let mut t = a;
    match which {
        0 => { let _ = &a / z; }
        1 => { let _ = a / &z; }
        2 => { let _ = &a / &z; }
        3 => { t /= z; }
        4 => { t /= &z; }
        5 => { let _ = &a % z; }
        6 => { let _ = a % &z; }
        7 => { let _ = &a % &z; }
        8 => { t %= z; }
        _ => { t %= &z; }
    }
    returned();
}
fn product3<const B: usize>() {
    let xs = [small::<B>(), small::<B>(), small::<B>()];
    let n: usize = any();
    assume(n <= 3);
    let mut want = Uint::<B, 1>::from_limbs([1]);
    let mut i = 0;
    while i < n { want = want.wrapping_mul(xs[i]); i += 1; }
    let by_val: Uint<B, 1> = xs[..n].iter().copied().product();
    let by_ref: Uint<B, 1> = xs[..n].iter().product();
    assert!(ueq(by_val, want), "Product<Self> == fold of wrapping_mul from 1");
    assert!(ueq(by_ref, want), "Product<&Self> == fold of wrapping_mul from 1");
    // and against arithmetic: (x0 x1 x2) mod 2^B
    let mut p = 1u32;
    let mut i = 0;
    while i < n { p = p * xs[i].as_limbs()[0] as u32 % (1u32 << B); i += 1; }
    assert!(want.as_limbs()[0] == p as u64, "product value");
}

// ================================================================ B. the Bits wrapper
fn bits_basic<const B: usize, const L: usize>() {
    let x = uint::<B, L>();
    let y = uint::<B, L>();
    let bx = Bits::<B, L>::from(x);
    assert!(ueq(<Uint<B, L> as From<Bits<B, L>>>::from(bx), x), "Uint::from(Bits::from(x)) == x");
    let back: Uint<B, L> = bx.into();
    assert!(ueq(back, x), "Bits::into() == x");
    assert!(ueq(bx.into_inner(), x), "into_inner");
    assert!(ueq(*bx.as_uint(), x), "as_uint");
    assert!(o::same(bx.as_limbs(), x.as_limbs()), "as_limbs");
    assert!(beq(Bits::<B, L>::from_limbs(*x.as_limbs()), x), "from_limbs");
    let mut m = bx;
    *m.as_uint_mut() = y;
    assert!(beq(m, y), "as_uint_mut");
    let mut m = bx;
    unsafe { *m.as_limbs_mut() = *y.as_limbs(); }
    assert!(beq(m, y), "as_limbs_mut");
    assert!(o::is_zero(Bits::<B, L>::ZERO.as_limbs()), "Bits::ZERO");
    assert!(o::is_zero(Bits::<B, L>::default().as_limbs()), "Bits::default()");
    assert!(Bits::<B, L>::BITS == B && Bits::<B, L>::LIMBS == L && Bits::<B, L>::BYTES == Uint::<B, L>::BYTES, "constants");
    // derived Eq
    let by = Bits::<B, L>::from(y);
    assert!((bx == by) == o::same(x.as_limbs(), y.as_limbs()), "Bits == Bits iff the inner values are equal");
    // Index
    let i: usize = any();
    assert!(bx[i] == x.bit(i), "Bits[i] == Uint::bit(i) for every i");
    // unary
    assert!(beq(!bx, Uint::<B, L>::not(x)) && beq(!&bx, Uint::<B, L>::not(x)), "Not");
    assert!(beq(bx.reverse_bits(), x.reverse_bits()), "reverse_bits");
    assert!(bx.leading_zeros() == x.leading_zeros(), "leading_zeros");
    assert!(bx.leading_ones() == x.leading_ones(), "leading_ones");
    assert!(bx.trailing_zeros() == x.trailing_zeros(), "trailing_zeros");
    assert!(bx.trailing_ones() == x.trailing_ones(), "trailing_ones");
}
macro_rules! bits_binop {
    ($f:ident, $op:tt, $opa:tt) => {
        fn $f<const B: usize, const L: usize>() {
            let x = uint::<B, L>();
            let y = uint::<B, L>();
            let (bx, by) = (Bits::<B, L>::from(x), Bits::<B, L>::from(y));
            let w = x $op y;
            assert!(beq(bx $op by, w) && beq(bx $op &by, w) && beq(&bx $op by, w) && beq(&bx $op &by, w), "Bits binary operator, four shapes");
            let mut t = bx; t $opa by; assert!(beq(t, w), "Bits op-assign");
            let mut t = bx; t $opa &by; assert!(beq(t, w), "Bits op-assign ref");
        }
    };
}
bits_binop!(bits_and, &, &=);
bits_binop!(bits_or, |, |=);
bits_binop!(bits_xor, ^, ^=);
/// shift / rotate amounts: one symbolic amount (every usize), or a fixed list of edge amounts executed one by one
/// (at LIMBS = 2 each evaluation of a shift by a symbolic amount costs ~9 s, and these bodies evaluate 3 to 8 of them)
fn amounts<const B: usize>(symbolic: bool, f: impl Fn(usize)) {
    if symbolic {
        f(any());
    } else {
        let list = [0, 1, 63, 64, B - 1, B, B + 1, 2 * B, 2 * B + 7, u32::MAX as usize, usize::MAX];
        let mut i = 0;
        while i < list.len() { f(list[i]); i += 1; }
    }
}
fn bits_shl_ops<const B: usize, const L: usize>(symbolic: bool) {
    let x = uint::<B, L>();
    let bx = Bits::<B, L>::from(x);
    amounts::<B>(symbolic, |n| {
        let w = x.wrapping_shl(n);
        assert!(ueq(x << n, w), "Uint << usize == wrapping_shl");
        assert!(beq(bx << n, w) && beq(&bx << n, w) && beq(bx << &n, w) && beq(&bx << &n, w), "Bits << usize, four shapes");
        let mut t = bx; t <<= n; assert!(beq(t, w), "Bits <<= usize");
        let mut t = bx; t <<= &n; assert!(beq(t, w), "Bits <<= &usize");
    });
}
fn bits_shr_ops<const B: usize, const L: usize>(symbolic: bool) {
    let x = uint::<B, L>();
    let bx = Bits::<B, L>::from(x);
    amounts::<B>(symbolic, |n| {
        let w = x.wrapping_shr(n);
        assert!(ueq(x >> n, w), "Uint >> usize == wrapping_shr");
        assert!(beq(bx >> n, w) && beq(&bx >> n, w) && beq(bx >> &n, w) && beq(&bx >> &n, w), "Bits >> usize, four shapes");
        let mut t = bx; t >>= n; assert!(beq(t, w), "Bits >>= usize");
        let mut t = bx; t >>= &n; assert!(beq(t, w), "Bits >>= &usize");
    });
}
fn bits_shift_methods<const B: usize, const L: usize>(symbolic: bool) {
    let x = uint::<B, L>();
    let bx = Bits::<B, L>::from(x);
    amounts::<B>(symbolic, |n| {
        assert!(beq(bx.wrapping_shl(n), x.wrapping_shl(n)), "wrapping_shl");
        let ((r, f), (ur, uf)) = (bx.overflowing_shl(n), x.overflowing_shl(n));
        assert!(beq(r, ur) && f == uf, "overflowing_shl");
        assert!(obeq(bx.checked_shl(n), x.checked_shl(n)), "checked_shl");
        assert!(beq(bx.wrapping_shr(n), x.wrapping_shr(n)), "wrapping_shr");
        let ((r, f), (ur, uf)) = (bx.overflowing_shr(n), x.overflowing_shr(n));
        assert!(beq(r, ur) && f == uf, "overflowing_shr");
        assert!(obeq(bx.checked_shr(n), x.checked_shr(n)), "checked_shr");
    });
}
fn bits_rotate<const B: usize, const L: usize>(symbolic: bool) {
    let x = uint::<B, L>();
    let bx = Bits::<B, L>::from(x);
    amounts::<B>(symbolic, |n| {
        assert!(beq(bx.rotate_left(n), x.rotate_left(n)), "rotate_left");
        assert!(beq(bx.rotate_right(n), x.rotate_right(n)), "rotate_right");
    });
}
fn bits_bytes<const B: usize, const L: usize, const BY: usize>() {
    let x = uint::<B, L>();
    let bx = Bits::<B, L>::from(x);
    assert!(bytes_eq(&bx.to_le_bytes::<BY>(), &x.to_le_bytes::<BY>()), "to_le_bytes");
    assert!(bytes_eq(&bx.to_be_bytes::<BY>(), &x.to_be_bytes::<BY>()), "to_be_bytes");
    assert!(bytes_eq(&bx.as_le_bytes(), &x.as_le_bytes()), "as_le_bytes");
    assert!(bytes_eq(&bx.to_be_bytes_vec(), &x.to_be_bytes_vec()), "to_be_bytes_vec");
    // from bytes: the arrays of a canonical value (out-of-range arrays panic in both)
    let le = x.to_le_bytes::<BY>();
    let be = x.to_be_bytes::<BY>();
    assert!(beq(Bits::<B, L>::from_le_bytes::<BY>(le), Uint::<B, L>::from_le_bytes::<BY>(le)), "from_le_bytes");
    assert!(beq(Bits::<B, L>::from_be_bytes::<BY>(be), Uint::<B, L>::from_be_bytes::<BY>(be)), "from_be_bytes");
}
/// try_from_{be,le}_slice on EVERY byte string of length <= BY + 1 (BY + 1 bytes symbolic, length symbolic)
fn bits_try_slices<const B: usize, const L: usize, const BY1: usize>() {
    let buf: [u8; BY1] = any();
    let n: usize = any();
    assume(n <= BY1);
    let s = &buf[..n];
    assert!(obeq(Bits::<B, L>::try_from_le_slice(s), Uint::<B, L>::try_from_le_slice(s)), "try_from_le_slice");
    assert!(obeq(Bits::<B, L>::try_from_be_slice(s), Uint::<B, L>::try_from_be_slice(s)), "try_from_be_slice");
}

// ================================================================ C. num-traits, cheap (any width)
fn nt_ident<const B: usize, const L: usize>() {
    let x = uint::<B, L>();
    let z = o::is_zero(x.as_limbs());
    assert!(o::is_zero(<Uint<B, L> as nt::Zero>::zero().as_limbs()), "Zero::zero() == ZERO");
    assert!(nt::Zero::is_zero(&x) == z && nt::Zero::is_zero(&x) == x.is_zero(), "Zero::is_zero == Uint::is_zero");
    let mut t = x; nt::Zero::set_zero(&mut t); assert!(o::is_zero(t.as_limbs()), "Zero::set_zero");
    assert!(ueq(<Uint<B, L> as nt::One>::one(), one::<B, L>()), "One::one() == ONE == 1");
    assert!(ueq(Uint::<B, L>::ONE, one::<B, L>()), "ONE == 1");
    assert!(nt::One::is_one(&x) == ueq(x, one::<B, L>()), "One::is_one");
    let mut t = x; nt::One::set_one(&mut t); assert!(ueq(t, one::<B, L>()), "One::set_one");
    assert!(o::is_zero(<Uint<B, L> as nt::Bounded>::min_value().as_limbs()), "Bounded::min_value() == 0");
    assert!(o::same(<Uint<B, L> as nt::Bounded>::max_value().as_limbs(), &o::max_of::<L>(B)), "Bounded::max_value() == MAX == 2^BITS - 1");
    assert!(ueq(<Uint<B, L> as nt::Bounded>::max_value(), Uint::<B, L>::MAX), "Bounded::max_value() == MAX");
}
fn nt_addsub<const B: usize, const L: usize>() {
    let a = uint::<B, L>();
    let b = uint::<B, L>();
    assert!(oeq(nt::CheckedAdd::checked_add(&a, &b), a.checked_add(b)), "CheckedAdd");
    assert!(oeq(nt::CheckedSub::checked_sub(&a, &b), a.checked_sub(b)), "CheckedSub (argument order)");
    assert!(oeq(nt::CheckedNeg::checked_neg(&a), a.checked_neg()), "CheckedNeg");
    assert!(ueq(nt::WrappingAdd::wrapping_add(&a, &b), a.wrapping_add(b)), "WrappingAdd");
    assert!(ueq(nt::WrappingSub::wrapping_sub(&a, &b), a.wrapping_sub(b)), "WrappingSub (argument order)");
    assert!(ueq(nt::WrappingNeg::wrapping_neg(&a), a.wrapping_neg()), "WrappingNeg");
    assert!(peq(nt::ops::overflowing::OverflowingAdd::overflowing_add(&a, &b), a.overflowing_add(b)), "OverflowingAdd");
    assert!(peq(nt::ops::overflowing::OverflowingSub::overflowing_sub(&a, &b), a.overflowing_sub(b)), "OverflowingSub (argument order)");
    assert!(ueq(nt::SaturatingAdd::saturating_add(&a, &b), a.saturating_add(b)), "SaturatingAdd");
    assert!(ueq(nt::SaturatingSub::saturating_sub(&a, &b), a.saturating_sub(b)), "SaturatingSub (argument order)");
    assert!(ueq(nt::Saturating::saturating_add(a, b), a.saturating_add(b)), "Saturating::saturating_add");
    assert!(ueq(nt::Saturating::saturating_sub(a, b), a.saturating_sub(b)), "Saturating::saturating_sub (argument order)");
}
/// the num-traits shift amounts are u32: `amounts` without the values above u32::MAX
fn amounts32<const B: usize>(symbolic: bool, f: impl Fn(u32)) {
    if symbolic { f(any()); } else { amounts::<B>(false, |n| if n <= u32::MAX as usize { f(n as u32) }); }
}
fn nt_shl<const B: usize, const L: usize>(symbolic: bool) {
    let a = uint::<B, L>();
    amounts32::<B>(symbolic, |n| {
        assert!(oeq(nt::CheckedShl::checked_shl(&a, n), a.checked_shl(n as usize)), "CheckedShl");
        assert!(ueq(nt::WrappingShl::wrapping_shl(&a, n), a.wrapping_shl(n as usize)), "WrappingShl");
        assert!(ueq(nt::PrimInt::signed_shl(a, n), a.wrapping_shl(n as usize)), "PrimInt::signed_shl == x << n");
        assert!(ueq(nt::PrimInt::unsigned_shl(a, n), a.wrapping_shl(n as usize)), "PrimInt::unsigned_shl == x << n");
    });
}
fn nt_shr<const B: usize, const L: usize>(symbolic: bool) {
    let a = uint::<B, L>();
    amounts32::<B>(symbolic, |n| {
        assert!(oeq(nt::CheckedShr::checked_shr(&a, n), a.checked_shr(n as usize)), "CheckedShr");
        assert!(ueq(nt::WrappingShr::wrapping_shr(&a, n), a.wrapping_shr(n as usize)), "WrappingShr");
        assert!(ueq(nt::PrimInt::unsigned_shr(a, n), a.wrapping_shr(n as usize)), "PrimInt::unsigned_shr == x >> n");
        assert!(ueq(nt::PrimInt::signed_shr(a, n), a.arithmetic_shr(n as usize)), "PrimInt::signed_shr == arithmetic_shr");
    });
}
fn nt_rotate<const B: usize, const L: usize>(symbolic: bool) {
    let a = uint::<B, L>();
    amounts32::<B>(symbolic, |n| {
        assert!(ueq(nt::PrimInt::rotate_left(a, n), a.rotate_left(n as usize)), "PrimInt::rotate_left");
        assert!(ueq(nt::PrimInt::rotate_right(a, n), a.rotate_right(n as usize)), "PrimInt::rotate_right");
    });
}
fn nt_counts<const B: usize, const L: usize>() {
    let a = uint::<B, L>();
    assert!(nt::PrimInt::count_ones(a) as usize == Uint::<B, L>::count_ones(&a), "PrimInt::count_ones");
    assert!(nt::PrimInt::count_zeros(a) as usize == Uint::<B, L>::count_zeros(&a), "PrimInt::count_zeros");
    assert!(nt::PrimInt::leading_zeros(a) as usize == Uint::<B, L>::leading_zeros(&a), "PrimInt::leading_zeros");
    assert!(nt::PrimInt::leading_ones(a) as usize == Uint::<B, L>::leading_ones(&a), "PrimInt::leading_ones");
    assert!(nt::PrimInt::trailing_zeros(a) as usize == Uint::<B, L>::trailing_zeros(&a), "PrimInt::trailing_zeros");
    assert!(nt::PrimInt::trailing_ones(a) as usize == Uint::<B, L>::trailing_ones(&a), "PrimInt::trailing_ones");
    assert!(ueq(nt::PrimInt::reverse_bits(a), Uint::<B, L>::reverse_bits(a)), "PrimInt::reverse_bits");
    assert!(ueq(nt::PrimInt::from_le(a), a) && ueq(nt::PrimInt::to_le(a), a), "PrimInt::from_le / to_le are the identity (little-endian target)");
}
macro_rules! to_prim {
    ($x:ident; $($m:ident $t:ty),*) => { $(
        assert!(nt::ToPrimitive::$m(&$x) == <$t>::try_from(&$x).ok(), concat!("ToPrimitive::", stringify!($m), " == try_from(&x).ok()"));
        assert!(nt::ToPrimitive::$m(&$x) == <$t>::try_from($x).ok(), concat!("ToPrimitive::", stringify!($m), " == try_from(x).ok()"));
    )* };
}
fn nt_to_prim<const B: usize, const L: usize>() {
    let x = uint::<B, L>();
    to_prim!(x; to_u64 u64, to_i64 i64, to_u128 u128, to_i128 i128);
    // provided methods of the trait (derived from to_u64 / to_i64 by num-traits)
    to_prim!(x; to_u8 u8, to_u16 u16, to_u32 u32, to_usize usize, to_i8 i8, to_i16 i16, to_i32 i32, to_isize isize);
}
macro_rules! from_prim {
    ($($m:ident $t:ty),*) => { $( {
        let v: $t = any();
        assert!(oeq(<Uint<B, L> as nt::FromPrimitive>::$m(v), Uint::<B, L>::try_from(v).ok()), concat!("FromPrimitive::", stringify!($m), " == try_from(v).ok()"));
        assert!(oeq(<Uint<B, L> as nt::NumCast>::from(v), Uint::<B, L>::try_from(v).ok()), concat!("NumCast::from::<", stringify!($t), "> == try_from(v).ok()"));
    } )* };
}
fn nt_from_prim_a<const B: usize, const L: usize>() { from_prim!(from_u64 u64, from_i64 i64, from_u128 u128, from_i128 i128); }
fn nt_from_prim_b<const B: usize, const L: usize>() {
    from_prim!(from_u8 u8, from_u16 u16, from_u32 u32, from_usize usize, from_i8 i8, from_i16 i16, from_i32 i32, from_isize isize);
}
fn nt_bytes<const B: usize, const L: usize>() {
    let x = uint::<B, L>();
    let le = nt::ToBytes::to_le_bytes(&x);
    let be = nt::ToBytes::to_be_bytes(&x);
    assert!(bytes_eq(&le, &x.to_le_bytes_vec()), "ToBytes::to_le_bytes == to_le_bytes_vec");
    assert!(bytes_eq(&be, &x.to_be_bytes_vec()), "ToBytes::to_be_bytes == to_be_bytes_vec");
    assert!(bytes_eq(&nt::ToBytes::to_ne_bytes(&x), &le), "ToBytes::to_ne_bytes == to_le_bytes (little-endian target)");
    assert!(ueq(<Uint<B, L> as nt::FromBytes>::from_le_bytes(&le[..]), x), "FromBytes::from_le_bytes(to_le_bytes(x)) == x");
    assert!(ueq(<Uint<B, L> as nt::FromBytes>::from_be_bytes(&be[..]), x), "FromBytes::from_be_bytes(to_be_bytes(x)) == x");
    assert!(ueq(<Uint<B, L> as nt::FromBytes>::from_ne_bytes(&le[..]), x), "FromBytes::from_ne_bytes");
}
/// FromBytes on EVERY in-range byte string of length <= BY + 1 (out-of-range: both the facade and from_le_slice panic)
fn nt_from_bytes<const B: usize, const L: usize, const BY1: usize>() {
    let buf: [u8; BY1] = any();
    let n: usize = any();
    assume(n <= BY1);
    let s = &buf[..n];
    if let Some(v) = Uint::<B, L>::try_from_le_slice(s) {
        assert!(ueq(<Uint<B, L> as nt::FromBytes>::from_le_bytes(s), v), "FromBytes::from_le_bytes == try_from_le_slice");
    }
    if let Some(v) = Uint::<B, L>::try_from_be_slice(s) {
        assert!(ueq(<Uint<B, L> as nt::FromBytes>::from_be_bytes(s), v), "FromBytes::from_be_bytes == try_from_be_slice");
    }
}
fn nt_from_bytes_panics<const B: usize, const L: usize, const BY1: usize>(be: bool) {
    let buf: [u8; BY1] = any();
    let n: usize = any();
    assume(n <= BY1);
    let s = &buf[..n];
    if be {
        assume(Uint::<B, L>::try_from_be_slice(s).is_none());
        let _ = <Uint<B, L> as nt::FromBytes>::from_be_bytes(s);
    } else {
        assume(Uint::<B, L>::try_from_le_slice(s).is_none());
        let _ = <Uint<B, L> as nt::FromBytes>::from_le_bytes(s);
    }
    returned();
}
/// swap_bytes / to_be / from_be: byte reversal, only meaningful when BITS % 8 == 0 (documented)
fn nt_swap_bytes<const B: usize, const L: usize>() {
    let x = uint::<B, L>();
    // reverse the bytes of the 8 L-byte little-endian image: limb order reversed, each limb byte-swapped
    let mut want = [0u64; L];
    let mut i = 0;
    while i < L { want[i] = x.as_limbs()[L - 1 - i].swap_bytes(); i += 1; }
    assert!(o::same(nt::PrimInt::swap_bytes(x).as_limbs(), &want), "PrimInt::swap_bytes reverses the bytes (BITS % 64 == 0)");
    assert!(o::same(nt::PrimInt::to_be(x).as_limbs(), &want), "PrimInt::to_be == swap_bytes (little-endian target)");
    assert!(o::same(nt::PrimInt::from_be(x).as_limbs(), &want), "PrimInt::from_be == swap_bytes (little-endian target)");
}

// ================================================================ C'. num-traits, multiplicative (tiny widths)
/// which: 0 WrappingMul, 1 CheckedMul, 2 OverflowingMul, 3 SaturatingMul (one per harness: the general addmul is
/// pointer-heavy, two evaluations of it cost ~45 s even on 8-bit values)
fn nt_mul<const B: usize>(which: u8) {
    let (a, b) = (small::<B>(), small::<B>());
    match which {
        0 => assert!(ueq(nt::WrappingMul::wrapping_mul(&a, &b), a.wrapping_mul(b)), "WrappingMul"),
        1 => assert!(oeq(nt::CheckedMul::checked_mul(&a, &b), a.checked_mul(b)), "CheckedMul"),
        2 => assert!(peq(nt::ops::overflowing::OverflowingMul::overflowing_mul(&a, &b), a.overflowing_mul(b)), "OverflowingMul"),
        _ => assert!(ueq(nt::SaturatingMul::saturating_mul(&a, &b), a.saturating_mul(b)), "SaturatingMul"),
    }
}
fn nt_mul_add<const B: usize>() {
    let (x, a, b) = (small::<B>(), small::<B>(), small::<B>());
    let w = x.wrapping_mul(a).wrapping_add(b);
    assert!(ueq(nt::MulAdd::mul_add(x, a, b), w), "MulAdd::mul_add(x, a, b) == x * a + b");
    let mut t = x; nt::MulAddAssign::mul_add_assign(&mut t, a, b); assert!(ueq(t, w), "MulAddAssign");
    // and against arithmetic (argument order: x*a + b, not x*b + a)
    let v = (x.as_limbs()[0] * a.as_limbs()[0] + b.as_limbs()[0]) % (1u64 << B);
    assert!(w.as_limbs()[0] == v, "mul_add value");
}
fn nt_div<const B: usize>() {
    let (a, b) = (small::<B>(), small::<B>());
    assert!(oeq(nt::CheckedDiv::checked_div(&a, &b), a.checked_div(b)), "CheckedDiv (None for b == 0)");
    assert!(oeq(nt::CheckedRem::checked_rem(&a, &b), a.checked_rem(b)), "CheckedRem (None for b == 0)");
    assert!(oeq(nt::CheckedEuclid::checked_div_euclid(&a, &b), a.checked_div(b)), "CheckedEuclid::checked_div_euclid");
    assert!(oeq(nt::CheckedEuclid::checked_rem_euclid(&a, &b), a.checked_rem(b)), "CheckedEuclid::checked_rem_euclid");
}
fn nt_euclid<const B: usize>() {
    let (a, b) = (small::<B>(), small::<B>());
    assume(b.as_limbs()[0] != 0);
    let (q, r) = a.div_rem(b);
    assert!(ueq(nt::Euclid::div_euclid(&a, &b), q), "Euclid::div_euclid == wrapping_div");
    assert!(ueq(nt::Euclid::rem_euclid(&a, &b), r), "Euclid::rem_euclid == wrapping_rem");
    assert!(ppeq(nt::Euclid::div_rem_euclid(&a, &b), (q, r)), "Euclid::div_rem_euclid == div_rem");
    assert!(matches!(nt::CheckedEuclid::checked_div_rem_euclid(&a, &b), Some(p) if ppeq(p, (q, r))), "CheckedEuclid::checked_div_rem_euclid");
}
fn nt_euclid_zero<const B: usize, const L: usize>(which: u8) {
    let a = uint::<B, L>();
    let z = Uint::<B, L>::ZERO;
    match which {
        0 => { let _ = nt::Euclid::div_euclid(&a, &z); }
        1 => { let _ = nt::Euclid::rem_euclid(&a, &z); }
        _ => { let _ = nt::Euclid::div_rem_euclid(&a, &z); }
    }
    returned();
}
fn nt_pow<const B: usize>() {
    let (a, e) = (small::<B>(), small::<B>());
    let w = a.pow(e);
    assert!(ueq(nt::Pow::pow(a, e), w), "Pow<Self>::pow(a, e) == a.pow(e) (argument order)");
    assert!(ueq(nt::PrimInt::pow(a, e.as_limbs()[0] as u32), w), "PrimInt::pow(a, e as u32) == a.pow(e) for e < 2^BITS");
}
fn nt_inv<const B: usize, const L: usize>() {
    let a = uint::<B, L>();
    assert!(oeq(nt::Inv::inv(a), a.inv_ring()), "Inv::inv == inv_ring");
}

// ================================================================ D. num-integer
fn ni_parity<const B: usize, const L: usize>() {
    let a = uint::<B, L>();
    let odd = a.as_limbs()[0] & 1 == 1;
    assert!(ni::Integer::is_odd(&a) == odd && ni::Integer::is_odd(&a) == a.bit(0), "Integer::is_odd == bit 0");
    assert!(ni::Integer::is_even(&a) == !odd, "Integer::is_even == !bit 0");
    let mut t = a; ni::Integer::inc(&mut t); assert!(ueq(t, a.wrapping_add(one::<B, L>())), "Integer::inc == wrapping_add(1)");
    let mut t = a; ni::Integer::dec(&mut t); assert!(ueq(t, a.wrapping_sub(one::<B, L>())), "Integer::dec == wrapping_sub(1)");
}
fn ni_div<const B: usize>() {
    let (a, b) = (small::<B>(), small::<B>());
    assume(b.as_limbs()[0] != 0);
    let (q, r) = a.div_rem(b);
    assert!(ueq(ni::Integer::div_floor(&a, &b), q), "Integer::div_floor == wrapping_div");
    assert!(ueq(ni::Integer::mod_floor(&a, &b), r), "Integer::mod_floor == wrapping_rem");
    assert!(ppeq(ni::Integer::div_rem(&a, &b), (q, r)), "Integer::div_rem");
    assert!(ppeq(ni::Integer::div_mod_floor(&a, &b), (q, r)), "Integer::div_mod_floor == div_rem");
}
fn ni_div_ceil<const B: usize>() {
    let (a, b) = (small::<B>(), small::<B>());
    assume(b.as_limbs()[0] != 0);
    assert!(ueq(ni::Integer::div_ceil(&a, &b), Uint::<B, 1>::div_ceil(a, b)), "Integer::div_ceil");
    // prev_multiple_of (provided method): a - a mod b
    let (av, bv) = (a.as_limbs()[0], b.as_limbs()[0]);
    assert!(ni::Integer::prev_multiple_of(&a, &b).as_limbs()[0] == av - av % bv, "Integer::prev_multiple_of == a - a mod b");
}
fn ni_multiple<const B: usize>() {
    let (a, b) = (small::<B>(), small::<B>());
    let (av, bv) = (a.as_limbs()[0], b.as_limbs()[0]);
    let want = if bv == 0 { av == 0 } else { av % bv == 0 };
    assert!(ni::Integer::is_multiple_of(&a, &b) == want, "Integer::is_multiple_of (a multiple of 0 only when a == 0)");
}
/// provided trait method `Integer::next_multiple_of` (a + (b - a mod b), wrapping).  Compared with ceil(a/b)*b itself
/// (which `Uint::next_multiple_of` returns when it fits: c03p_nmo_w8) instead of calling the inherent method: the provided
/// method calls `Zero::is_zero` (memcmp, unwind 10, cannot be stubbed), and at that depth the inherent checked_mul explodes.
fn ni_next_multiple<const B: usize>() {
    let (a, b) = (small::<B>(), small::<B>());
    let (av, bv) = (a.as_limbs()[0], b.as_limbs()[0]);
    assume(bv != 0);
    let m = (av + bv - 1) / bv * bv;
    // on overflow the inherent method panics while the provided trait method wraps: the facade never panics where the
    // inherent one returns, and agrees with it wherever that one returns
    let r = ni::Integer::next_multiple_of(&a, &b);
    assert!(r.as_limbs()[0] == m % (1u64 << B), "Integer::next_multiple_of == ceil(a/b)*b (mod 2^BITS)");
}
fn ni_zero_panics<const B: usize, const L: usize>(which: u8) {
    let a = uint::<B, L>();
    let z = Uint::<B, L>::ZERO;
    match which {
        0 => { let _ = ni::Integer::div_floor(&a, &z); }
        1 => { let _ = ni::Integer::mod_floor(&a, &z); }
        2 => { let _ = ni::Integer::div_rem(&a, &z); }
        3 => { let _ = ni::Integer::div_mod_floor(&a, &z); }
        4 => { let _ = ni::Integer::div_ceil(&a, &z); }
        5 => { let _ = ni::Integer::next_multiple_of(&a, &z); }
        _ => { let _ = ni::Integer::prev_multiple_of(&a, &z); }
    }
    returned();
}
/// gcd / lcm / extended_gcd forward to the inherent methods: the listed pairs are executed concretely (a symbolic pair
/// is out of reach: see c10).  which: 0 gcd, 1 extended_gcd, 2 lcm (pairs whose lcm fits; the overflow case is separate)
fn ni_gcd_pairs<const B: usize>(which: u8, pairs: &[(u64, u64)]) {
    let mut i = 0;
    while i < pairs.len() {
        let (a, b) = (Uint::<B, 1>::from_limbs([pairs[i].0]), Uint::<B, 1>::from_limbs([pairs[i].1]));
        match which {
            0 => assert!(ueq(ni::Integer::gcd(&a, &b), Uint::<B, 1>::gcd(a, b)), "Integer::gcd"),
            1 => {
                let (g, x, y, _sign) = a.gcd_extended(b);
                let e = ni::Integer::extended_gcd(&a, &b);
                assert!(ueq(e.gcd, g) && ueq(e.x, x) && ueq(e.y, y), "Integer::extended_gcd == gcd_extended without the sign");
            }
            _ => match Uint::<B, 1>::lcm(a, b) {
                Some(l) => assert!(ueq(ni::Integer::lcm(&a, &b), l), "Integer::lcm == lcm().unwrap()"),
                None => assert!(false, "pair list: lcm must fit"),
            },
        }
        i += 1;
    }
}
/// lcm(3, 2) = 6 does not fit 2 bits: the inherent method returns None, the facade (no Option) panics
fn ni_lcm_overflow() {
    let (a, b) = (Uint::<2, 1>::from_limbs([3]), Uint::<2, 1>::from_limbs([2]));
    assert!(a.lcm(b).is_none(), "lcm(3, 2) overflows 2 bits");
    let _ = ni::Integer::lcm(&a, &b);
    returned();
}

// ================================================================ E. subtle
fn ch(c: bool) -> subtle::Choice { subtle::Choice::from(c as u8) }
fn st_cmp<const B: usize, const L: usize>() {
    let a = uint::<B, L>();
    let b = uint::<B, L>();
    let (al, bl) = (a.as_limbs(), b.as_limbs());
    let eq = bool::from(subtle::ConstantTimeEq::ct_eq(&a, &b));
    assert!(eq == (a == b) && eq == o::same(al, bl), "ct_eq == `==`");
    let ne = bool::from(subtle::ConstantTimeEq::ct_ne(&a, &b));
    assert!(ne == (a != b), "ct_ne == `!=`");
    let gt = bool::from(subtle::ConstantTimeGreater::ct_gt(&a, &b));
    assert!(gt == (a > b) && gt == o::lt(bl, al), "ct_gt == `>`");
    let lt = bool::from(subtle::ConstantTimeLess::ct_lt(&a, &b));
    assert!(lt == (a < b) && lt == o::lt(al, bl), "ct_lt == `<`");
}
fn st_select<const B: usize, const L: usize>() {
    let a = uint::<B, L>();
    let b = uint::<B, L>();
    let c: bool = any();
    let r = <Uint<B, L> as subtle::ConditionallySelectable>::conditional_select(&a, &b, ch(c));
    assert!(ueq(r, if c { b } else { a }), "conditional_select(a, b, c) == (if c then b else a)");
    let mut t = a;
    subtle::ConditionallySelectable::conditional_assign(&mut t, &b, ch(c));
    assert!(ueq(t, if c { b } else { a }), "conditional_assign");
    let (mut s, mut t) = (a, b);
    subtle::ConditionallySelectable::conditional_swap(&mut s, &mut t, ch(c));
    assert!(ueq(s, if c { b } else { a }) && ueq(t, if c { a } else { b }), "conditional_swap");
    let mut t = a;
    subtle::ConditionallyNegatable::conditional_negate(&mut t, ch(c));
    assert!(ueq(t, if c { a.wrapping_neg() } else { a }), "conditional_negate == wrapping_neg when chosen");
}
fn st_bit<const B: usize, const L: usize>() {
    let a = uint::<B, L>();
    let i: usize = any();
    assume(i < B);
    assert!(bool::from(a.bit_ct(i)) == a.bit(i), "bit_ct(i) == bit(i) for i < BITS");
    assert!(bool::from(a.bit_ct(i)) == o::bit(a.as_limbs(), i), "bit_ct(i) is bit i");
}
/// KNOWN FINDING: `bit` returns false for i >= BITS, `bit_ct` panics (documented)
fn st_bit_out_of_range<const B: usize, const L: usize>() {
    let a = uint::<B, L>();
    let i: usize = any();
    assume(i >= B);
    assert!(!a.bit(i), "bit(i) is false for i >= BITS");
    assert!(bool::from(a.bit_ct(i)) == a.bit(i), "bit_ct(i) == bit(i) also for i >= BITS");
}

// ================================================================ F. zeroize
/// zeroize's `optimization_barrier` is an empty `asm!` block (not supported by Kani); it has no effect on values
pub fn barrier_noop<T: ?Sized>(_val: &T) {}
fn zz<const B: usize, const L: usize>() {
    let mut x = uint::<B, L>();
    zeroize::Zeroize::zeroize(&mut x);
    assert!(o::is_zero(x.as_limbs()), "zeroize() leaves the value zero");
    let mut b = Bits::<B, L>::from(uint::<B, L>());
    zeroize::Zeroize::zeroize(&mut b);
    assert!(o::is_zero(b.as_limbs()), "Bits: zeroize() leaves the value zero");
}

// ================================================================ harnesses
pub mod dz {
    use super::*;
    div_z_stubs! {
        #[cfg_attr(kani, kani::unwind(3))] fn c20_div_shapes_w8() { div_shapes::<8>() }
        #[cfg_attr(kani, kani::unwind(3))] fn c20_rem_shapes_w8() { rem_shapes::<8>() }
        #[cfg_attr(kani, kani::unwind(3))] fn c20_nt_div_w8() { nt_div::<8>() }
        #[cfg_attr(kani, kani::unwind(3))] fn c20_nt_euclid_w8() { nt_euclid::<8>() }
        #[cfg_attr(kani, kani::unwind(3))] fn c20_ni_div_w8() { ni_div::<8>() }
        #[cfg_attr(kani, kani::unwind(3))] fn c20_ni_div_ceil_w8() { ni_div_ceil::<8>() }
        #[cfg_attr(kani, kani::unwind(3))] fn c20_mul_shapes_w8() { mul_shapes::<8>() }
        #[cfg_attr(kani, kani::unwind(3))] fn c20_nt_wrapping_mul_w8() { nt_mul::<8>(0) }
        #[cfg_attr(kani, kani::unwind(3))] fn c20_nt_checked_mul_w8() { nt_mul::<8>(1) }
        #[cfg_attr(kani, kani::unwind(3))] fn c20_nt_overflowing_mul_w8() { nt_mul::<8>(2) }
        #[cfg_attr(kani, kani::unwind(3))] fn c20_nt_saturating_mul_w8() { nt_mul::<8>(3) }
        #[cfg_attr(kani, kani::unwind(3))] fn c20_nt_mul_add_w8() { nt_mul_add::<8>() }
        #[cfg_attr(kani, kani::unwind(6))] fn c20_product_w8() { product3::<8>() }
        #[cfg_attr(kani, kani::unwind(6))] fn c20_nt_pow_w4() { nt_pow::<4>() }
    }
}
pub mod d {
    use super::*;
    div_stubs! {
        #[cfg_attr(kani, kani::unwind(10))] fn c20_ni_multiple_w8() { ni_multiple::<8>() }
        #[cfg_attr(kani, kani::unwind(10))] fn c20_ni_next_multiple_w8() { ni_next_multiple::<8>() }
        #[cfg_attr(kani, kani::unwind(18))] fn c20_ni_gcd_w2() { ni_gcd_pairs::<2>(0, &[(0, 0), (0, 3), (3, 0), (1, 3), (2, 2), (3, 2), (2, 3), (3, 3)]) }
        #[cfg_attr(kani, kani::unwind(18))] fn c20_ni_gcd_w8() { ni_gcd_pairs::<8>(0, &[(233, 144), (144, 233), (12, 18), (255, 255), (0, 200)]) }
        #[cfg_attr(kani, kani::unwind(18))] fn c20_ni_extended_gcd_w2() { ni_gcd_pairs::<2>(1, &[(0, 0), (0, 3), (3, 0), (1, 3), (3, 2), (2, 3)]) }
        #[cfg_attr(kani, kani::unwind(18))] fn c20_ni_extended_gcd_w8() { ni_gcd_pairs::<8>(1, &[(233, 144), (12, 18), (255, 254)]) }
        #[cfg_attr(kani, kani::unwind(18))] fn c20_ni_lcm_w2() { ni_gcd_pairs::<2>(2, &[(0, 0), (0, 3), (3, 0), (1, 3), (2, 2), (3, 3)]) }
        #[cfg_attr(kani, kani::unwind(18))] fn c20_ni_lcm_w8() { ni_gcd_pairs::<8>(2, &[(12, 18), (15, 17), (255, 255)]) }
        #[cfg_attr(kani, kani::unwind(18))] #[cfg_attr(kani, kani::should_panic)] fn c20_ni_lcm_overflow_w2_must_panic() { ni_lcm_overflow() }
    }
}
pub mod zz {
    use super::*;
    crate::harnesses! {
        #[cfg_attr(kani, kani::unwind(5))] #[cfg_attr(kani, kani::stub(zeroize::optimization_barrier, barrier_noop))] fn c20_zeroize_w1() { zz::<1, 1>() }
        #[cfg_attr(kani, kani::unwind(5))] #[cfg_attr(kani, kani::stub(zeroize::optimization_barrier, barrier_noop))] fn c20_zeroize_w64() { zz::<64, 1>() }
        #[cfg_attr(kani, kani::unwind(5))] #[cfg_attr(kani, kani::stub(zeroize::optimization_barrier, barrier_noop))] fn c20_zeroize_w65() { zz::<65, 2>() }
        #[cfg_attr(kani, kani::unwind(5))] #[cfg_attr(kani, kani::stub(zeroize::optimization_barrier, barrier_noop))] fn c20_zeroize_w192() { zz::<192, 3>() }
    }
}

crate::harnesses! {
    #[cfg_attr(kani, kani::unwind(12))] fn c20_bits_basic_w1() { bits_basic::<1, 1>() }
    #[cfg_attr(kani, kani::unwind(12))] fn c20_bits_basic_w64() { bits_basic::<64, 1>() }
    #[cfg_attr(kani, kani::unwind(20))] fn c20_bits_basic_w65() { bits_basic::<65, 2>() }
    #[cfg_attr(kani, kani::unwind(4))] fn c20_bits_and_w64() { bits_and::<64, 1>() }
    #[cfg_attr(kani, kani::unwind(4))] fn c20_bits_and_w65() { bits_and::<65, 2>() }
    #[cfg_attr(kani, kani::unwind(4))] fn c20_bits_and_w128() { bits_and::<128, 2>() }
    #[cfg_attr(kani, kani::unwind(4))] fn c20_bits_or_w64() { bits_or::<64, 1>() }
    #[cfg_attr(kani, kani::unwind(4))] fn c20_bits_or_w65() { bits_or::<65, 2>() }
    #[cfg_attr(kani, kani::unwind(4))] fn c20_bits_or_w128() { bits_or::<128, 2>() }
    #[cfg_attr(kani, kani::unwind(4))] fn c20_bits_xor_w64() { bits_xor::<64, 1>() }
    #[cfg_attr(kani, kani::unwind(4))] fn c20_bits_xor_w65() { bits_xor::<65, 2>() }
    #[cfg_attr(kani, kani::unwind(4))] fn c20_bits_xor_w128() { bits_xor::<128, 2>() }
    #[cfg_attr(kani, kani::unwind(10))] fn c20_bits_shl_ops_w64() { bits_shl_ops::<64, 1>(true) }
    #[cfg_attr(kani, kani::unwind(18))] fn c20_bits_shl_ops_edges_w65() { bits_shl_ops::<65, 2>(false) }
    #[cfg_attr(kani, kani::unwind(10))] fn c20_bits_shr_ops_w64() { bits_shr_ops::<64, 1>(true) }
    #[cfg_attr(kani, kani::unwind(18))] fn c20_bits_shr_ops_edges_w65() { bits_shr_ops::<65, 2>(false) }
    #[cfg_attr(kani, kani::unwind(10))] fn c20_bits_shift_methods_w64() { bits_shift_methods::<64, 1>(true) }
    #[cfg_attr(kani, kani::unwind(18))] fn c20_bits_shift_methods_edges_w65() { bits_shift_methods::<65, 2>(false) }
    #[cfg_attr(kani, kani::unwind(10))] fn c20_bits_rotate_w64() { bits_rotate::<64, 1>(true) }
    #[cfg_attr(kani, kani::unwind(18))] fn c20_bits_rotate_edges_w65() { bits_rotate::<65, 2>(false) }
    #[cfg_attr(kani, kani::unwind(12))] fn c20_bits_bytes_w64() { bits_bytes::<64, 1, 8>() }
    #[cfg_attr(kani, kani::unwind(20))] fn c20_bits_bytes_w65() { bits_bytes::<65, 2, 9>() }
    #[cfg_attr(kani, kani::unwind(20))] fn c20_bits_try_slices_w65() { bits_try_slices::<65, 2, 10>() }
    #[cfg_attr(kani, kani::unwind(20))] fn c20_bits_try_slices_w64() { bits_try_slices::<64, 1, 9>() }

    #[cfg_attr(kani, kani::unwind(10))] fn c20_nt_ident_w1() { nt_ident::<1, 1>() }
    #[cfg_attr(kani, kani::unwind(10))] fn c20_nt_ident_w64() { nt_ident::<64, 1>() }
    #[cfg_attr(kani, kani::unwind(18))] fn c20_nt_ident_w65() { nt_ident::<65, 2>() }
    #[cfg_attr(kani, kani::unwind(4))] fn c20_nt_addsub_w1() { nt_addsub::<1, 1>() }
    #[cfg_attr(kani, kani::unwind(4))] fn c20_nt_addsub_w64() { nt_addsub::<64, 1>() }
    #[cfg_attr(kani, kani::unwind(4))] fn c20_nt_addsub_w65() { nt_addsub::<65, 2>() }
    #[cfg_attr(kani, kani::unwind(4))] fn c20_nt_addsub_w128() { nt_addsub::<128, 2>() }
    #[cfg_attr(kani, kani::unwind(10))] fn c20_nt_shl_w64() { nt_shl::<64, 1>(true) }
    #[cfg_attr(kani, kani::unwind(18))] fn c20_nt_shl_edges_w65() { nt_shl::<65, 2>(false) }
    #[cfg_attr(kani, kani::unwind(10))] fn c20_nt_shr_w64() { nt_shr::<64, 1>(true) }
    #[cfg_attr(kani, kani::unwind(18))] fn c20_nt_shr_edges_w65() { nt_shr::<65, 2>(false) }
    #[cfg_attr(kani, kani::unwind(10))] fn c20_nt_rotate_w64() { nt_rotate::<64, 1>(true) }
    #[cfg_attr(kani, kani::unwind(18))] fn c20_nt_rotate_edges_w65() { nt_rotate::<65, 2>(false) }
    #[cfg_attr(kani, kani::unwind(4))] fn c20_nt_counts_w1() { nt_counts::<1, 1>() }
    #[cfg_attr(kani, kani::unwind(4))] fn c20_nt_counts_w64() { nt_counts::<64, 1>() }
    #[cfg_attr(kani, kani::unwind(4))] fn c20_nt_counts_w65() { nt_counts::<65, 2>() }
    #[cfg_attr(kani, kani::unwind(4))] fn c20_nt_to_prim_w1() { nt_to_prim::<1, 1>() }
    #[cfg_attr(kani, kani::unwind(4))] fn c20_nt_to_prim_w64() { nt_to_prim::<64, 1>() }
    #[cfg_attr(kani, kani::unwind(4))] fn c20_nt_to_prim_w65() { nt_to_prim::<65, 2>() }
    #[cfg_attr(kani, kani::unwind(4))] fn c20_nt_to_prim_w128() { nt_to_prim::<128, 2>() }
    #[cfg_attr(kani, kani::unwind(4))] fn c20_nt_from_prim_a_w1() { nt_from_prim_a::<1, 1>() }
    #[cfg_attr(kani, kani::unwind(4))] fn c20_nt_from_prim_a_w64() { nt_from_prim_a::<64, 1>() }
    #[cfg_attr(kani, kani::unwind(4))] fn c20_nt_from_prim_a_w65() { nt_from_prim_a::<65, 2>() }
    #[cfg_attr(kani, kani::unwind(4))] fn c20_nt_from_prim_b_w8() { nt_from_prim_b::<8, 1>() }
    #[cfg_attr(kani, kani::unwind(4))] fn c20_nt_from_prim_b_w65() { nt_from_prim_b::<65, 2>() }
    #[cfg_attr(kani, kani::unwind(12))] fn c20_nt_bytes_w64() { nt_bytes::<64, 1>() }
    #[cfg_attr(kani, kani::unwind(20))] fn c20_nt_bytes_w65() { nt_bytes::<65, 2>() }
    #[cfg_attr(kani, kani::unwind(20))] fn c20_nt_from_bytes_w65() { nt_from_bytes::<65, 2, 10>() }
    #[cfg_attr(kani, kani::unwind(20))] #[cfg_attr(kani, kani::should_panic)] fn c20_nt_from_le_bytes_w65_must_panic() { nt_from_bytes_panics::<65, 2, 10>(false) }
    #[cfg_attr(kani, kani::unwind(20))] #[cfg_attr(kani, kani::should_panic)] fn c20_nt_from_be_bytes_w65_must_panic() { nt_from_bytes_panics::<65, 2, 10>(true) }
    #[cfg_attr(kani, kani::unwind(12))] fn c20_nt_swap_bytes_w64() { nt_swap_bytes::<64, 1>() }
    #[cfg_attr(kani, kani::unwind(20))] fn c20_nt_swap_bytes_w128() { nt_swap_bytes::<128, 2>() }
    #[cfg_attr(kani, kani::unwind(4))] fn c20_nt_inv_w8() { nt_inv::<8, 1>() }

    #[cfg_attr(kani, kani::unwind(4))] fn c20_ni_parity_w1() { ni_parity::<1, 1>() }
    #[cfg_attr(kani, kani::unwind(4))] fn c20_ni_parity_w64() { ni_parity::<64, 1>() }
    #[cfg_attr(kani, kani::unwind(4))] fn c20_ni_parity_w65() { ni_parity::<65, 2>() }

    #[cfg_attr(kani, kani::unwind(10))] fn c20_subtle_cmp_w1() { st_cmp::<1, 1>() }
    #[cfg_attr(kani, kani::unwind(10))] fn c20_subtle_cmp_w64() { st_cmp::<64, 1>() }
    #[cfg_attr(kani, kani::unwind(18))] fn c20_subtle_cmp_w65() { st_cmp::<65, 2>() }
    #[cfg_attr(kani, kani::unwind(18))] fn c20_subtle_cmp_w128() { st_cmp::<128, 2>() }
    #[cfg_attr(kani, kani::unwind(26))] fn c20_subtle_cmp_w192() { st_cmp::<192, 3>() }
    #[cfg_attr(kani, kani::unwind(5))] fn c20_subtle_select_w1() { st_select::<1, 1>() }
    #[cfg_attr(kani, kani::unwind(5))] fn c20_subtle_select_w64() { st_select::<64, 1>() }
    #[cfg_attr(kani, kani::unwind(5))] fn c20_subtle_select_w65() { st_select::<65, 2>() }
    #[cfg_attr(kani, kani::unwind(5))] fn c20_subtle_select_w128() { st_select::<128, 2>() }
    #[cfg_attr(kani, kani::unwind(5))] fn c20_subtle_select_w192() { st_select::<192, 3>() }
    #[cfg_attr(kani, kani::unwind(5))] fn c20_subtle_bit_w1() { st_bit::<1, 1>() }
    #[cfg_attr(kani, kani::unwind(5))] fn c20_subtle_bit_w64() { st_bit::<64, 1>() }
    #[cfg_attr(kani, kani::unwind(5))] fn c20_subtle_bit_w65() { st_bit::<65, 2>() }
    #[cfg_attr(kani, kani::unwind(5))] fn c20_subtle_bit_w128() { st_bit::<128, 2>() }
    #[cfg_attr(kani, kani::unwind(5))] fn c20_subtle_bit_w192() { st_bit::<192, 3>() }
    // KNOWN FINDING (expected to FAIL): bit_ct panics for index >= BITS where bit returns false
    #[cfg_attr(kani, kani::unwind(5))] fn kf_c20_subtle_bit_ct_out_of_range_w65() { st_bit_out_of_range::<65, 2>() }

    #[cfg_attr(kani, kani::unwind(18))] #[cfg_attr(kani, kani::should_panic)] fn c20_div_ref_val_zero_w65_must_panic() { div_zero_shapes::<65, 2>(0) }
    #[cfg_attr(kani, kani::unwind(18))] #[cfg_attr(kani, kani::should_panic)] fn c20_div_val_ref_zero_w65_must_panic() { div_zero_shapes::<65, 2>(1) }
    #[cfg_attr(kani, kani::unwind(18))] #[cfg_attr(kani, kani::should_panic)] fn c20_div_ref_ref_zero_w65_must_panic() { div_zero_shapes::<65, 2>(2) }
    #[cfg_attr(kani, kani::unwind(18))] #[cfg_attr(kani, kani::should_panic)] fn c20_div_assign_zero_w65_must_panic() { div_zero_shapes::<65, 2>(3) }
    #[cfg_attr(kani, kani::unwind(18))] #[cfg_attr(kani, kani::should_panic)] fn c20_div_assign_ref_zero_w65_must_panic() { div_zero_shapes::<65, 2>(4) }
    #[cfg_attr(kani, kani::unwind(18))] #[cfg_attr(kani, kani::should_panic)] fn c20_rem_ref_val_zero_w65_must_panic() { div_zero_shapes::<65, 2>(5) }
    #[cfg_attr(kani, kani::unwind(18))] #[cfg_attr(kani, kani::should_panic)] fn c20_rem_val_ref_zero_w65_must_panic() { div_zero_shapes::<65, 2>(6) }
    #[cfg_attr(kani, kani::unwind(18))] #[cfg_attr(kani, kani::should_panic)] fn c20_rem_ref_ref_zero_w65_must_panic() { div_zero_shapes::<65, 2>(7) }
    #[cfg_attr(kani, kani::unwind(18))] #[cfg_attr(kani, kani::should_panic)] fn c20_rem_assign_zero_w65_must_panic() { div_zero_shapes::<65, 2>(8) }
    #[cfg_attr(kani, kani::unwind(18))] #[cfg_attr(kani, kani::should_panic)] fn c20_rem_assign_ref_zero_w65_must_panic() { div_zero_shapes::<65, 2>(9) }
    #[cfg_attr(kani, kani::unwind(18))] #[cfg_attr(kani, kani::should_panic)] fn c20_nt_div_euclid_zero_w65_must_panic() { nt_euclid_zero::<65, 2>(0) }
    #[cfg_attr(kani, kani::unwind(18))] #[cfg_attr(kani, kani::should_panic)] fn c20_nt_rem_euclid_zero_w65_must_panic() { nt_euclid_zero::<65, 2>(1) }
    #[cfg_attr(kani, kani::unwind(18))] #[cfg_attr(kani, kani::should_panic)] fn c20_nt_div_rem_euclid_zero_w65_must_panic() { nt_euclid_zero::<65, 2>(2) }
    #[cfg_attr(kani, kani::unwind(18))] #[cfg_attr(kani, kani::should_panic)] fn c20_ni_div_floor_zero_w65_must_panic() { ni_zero_panics::<65, 2>(0) }
    #[cfg_attr(kani, kani::unwind(18))] #[cfg_attr(kani, kani::should_panic)] fn c20_ni_mod_floor_zero_w65_must_panic() { ni_zero_panics::<65, 2>(1) }
    #[cfg_attr(kani, kani::unwind(18))] #[cfg_attr(kani, kani::should_panic)] fn c20_ni_div_rem_zero_w65_must_panic() { ni_zero_panics::<65, 2>(2) }
    #[cfg_attr(kani, kani::unwind(18))] #[cfg_attr(kani, kani::should_panic)] fn c20_ni_div_mod_floor_zero_w65_must_panic() { ni_zero_panics::<65, 2>(3) }
    #[cfg_attr(kani, kani::unwind(18))] #[cfg_attr(kani, kani::should_panic)] fn c20_ni_div_ceil_zero_w65_must_panic() { ni_zero_panics::<65, 2>(4) }
    #[cfg_attr(kani, kani::unwind(18))] #[cfg_attr(kani, kani::should_panic)] fn c20_ni_next_multiple_zero_w65_must_panic() { ni_zero_panics::<65, 2>(5) }
    #[cfg_attr(kani, kani::unwind(18))] #[cfg_attr(kani, kani::should_panic)] fn c20_ni_prev_multiple_zero_w65_must_panic() { ni_zero_panics::<65, 2>(6) }
}

// GENERATED on every run by vf/genmacro.py from /repo/ruint-macro/src/lib.rs - verbatim item texts, do not edit.

#![allow(dead_code, clippy::all)]

use std::fmt;

#[derive(Copy, Clone, PartialEq, Debug)]
pub enum LiteralBaseType {
    Uint,
    Bits,
}

impl LiteralBaseType {
    const PATTERN: &'static [char] = &['U', 'B'];
}

impl fmt::Display for LiteralBaseType {
    fn fmt(&self, f: &mut fmt::Formatter<'_>) -> fmt::Result {
        match self {
            Self::Uint => f.write_str("Uint"),
            Self::Bits => f.write_str("Bits"),
        }
    }
}

impl std::str::FromStr for LiteralBaseType {
    type Err = ();

    fn from_str(s: &str) -> Result<Self, Self::Err> {
        match s {
            "U" => Ok(Self::Uint),
            "B" => Ok(Self::Bits),
            _ => Err(()),
        }
    }
}

pub fn parse_digits(value: &str) -> Result<Vec<u64>, String> {
    // Parse base
    let (base, digits) = if value.len() >= 2 {
        let (prefix, remainder) = value.split_at(2);
        match prefix {
            "0x" => (16_u8, remainder),
            "0o" => (8, remainder),
            "0b" => (2, remainder),
            _ => (10, value),
        }
    } else {
        (10, value)
    };

    // Parse digits in base
    let mut limbs = vec![0_u64];
    for c in digits.chars() {
        // Read next digit
        let digit = match c {
            '0'..='9' => c as u64 - '0' as u64,
            'a'..='f' => c as u64 - 'a' as u64 + 10,
            'A'..='F' => c as u64 - 'A' as u64 + 10,
            '_' => continue,
            _ => return Err(format!("Invalid character '{c}'")),
        };
        #[allow(clippy::cast_lossless)]
        if digit >= base as u64 {
            return Err(format!(
                "Invalid digit {c} in base {base} (did you forget the `0x` prefix?)"
            ));
        }

        // Multiply result by base and add digit
        let mut carry = digit;
        #[allow(clippy::cast_lossless)]
        #[allow(clippy::cast_possible_truncation)]
        for limb in &mut limbs {
            let product = (*limb as u128) * (base as u128) + (carry as u128);
            *limb = product as u64;
            carry = (product >> 64) as u64;
        }
        if carry > 0 {
            limbs.push(carry);
        }
    }
    Ok(limbs)
}

pub fn pad_limbs(bits: usize, mut limbs: Vec<u64>) -> Option<Vec<u64>> {
    // Get limb count and mask
    let num_limbs = (bits + 63) / 64;
    let mask = if bits == 0 {
        0
    } else {
        let bits = bits % 64;
        if bits == 0 {
            u64::MAX
        } else {
            (1 << bits) - 1
        }
    };

    // Remove trailing zeros, pad with zeros
    while limbs.len() > num_limbs && limbs.last() == Some(&0) {
        limbs.pop();
    }
    while limbs.len() < num_limbs {
        limbs.push(0);
    }

    // Validate length
    if limbs.len() > num_limbs || limbs.last().copied().unwrap_or(0) > mask {
        return None;
    }
    Some(limbs)
}

pub fn parse_suffix(source: &str) -> Option<(LiteralBaseType, usize, &str)> {
    // Parse into value, bits, and base type.
    let suffix_index = source.rfind(LiteralBaseType::PATTERN)?;
    let (value, suffix) = source.split_at(suffix_index);
    let (base_type, bits) = suffix.split_at(1);
    let base_type = base_type.parse::<LiteralBaseType>().ok()?;
    let bits = bits.parse::<usize>().ok()?;

    // Ignore hexadecimal Bits literals without `_` before the suffix.
    if base_type == LiteralBaseType::Bits && value.starts_with("0x") && !value.ends_with('_') {
        return None;
    }
    Some((base_type, bits, value))
}

//! C07 — integer conversions (src/from.rs, from_limbs_slice family in src/lib.rs).
//!
//! Entry points covered (each complete per width: ALL values of the source type / ALL canonical Uint values):
//!  * primitive -> Uint: `TryFrom<T>` for T in bool,u8,u16,u32,u64,u128,usize,i8,i16,i32,i64,i128,isize, the inherent
//!    `Uint::from` (no panic when the value fits; panic class in `*_must_panic`), `wrapping_from`, `saturating_from`.
//!    Ok(x) iff 0 <= v < 2^BITS and x == v; ValueNegative(BITS, w) iff v < 0; ValueTooLarge(BITS, w) iff v >= 2^BITS;
//!    w == v mod 2^BITS for too-large v and for negative v whenever BITS <= width of T (for negative v and
//!    BITS > width of T only canonicity of w is asserted — the property statement leaves the payload open there).
//!  * Uint -> primitive: `TryFrom<&Uint>` / `TryFrom<Uint>` for the same 13 types, `to` (fits; panic class separate),
//!    `wrapping_to`, `saturating_to`; Overflow(BITS, x mod 2^T::BITS reinterpreted, T::MAX); bool payload (bit 0, true).
//!  * Uint -> Uint: `UintTryFrom::uint_try_from`, `UintTryTo::uint_try_to`, `from`, `wrapping_from`, `saturating_from`,
//!    `to`, `wrapping_to`, `saturating_to`, deprecated `from_uint` / `checked_from_uint`,
//!    for the width pairs (65,64) (64,65) (128,65) (65,128) (100,1) (1,100) (129,63) (0,64) (64,0).
//!  * limb slices: `overflowing_/wrapping_/checked_/saturating_from_limbs_slice` and `from_limbs_slice` (non-overflow
//!    side; panic class separate) on `&arr[..n]`, arr: [u64; LIMBS+2] symbolic, n symbolic in 0..=LIMBS+2 (ALL lengths
//!    up to LIMBS+2, all contents — longer slices are NOT covered: bounded input length); `from_limbs` identity on
//!    canonical arrays, panic class separate.
//! Widths: 0/0, 1/1, 8/1, 60/1, 64/1, 65/2, 100/2, 128/2, 129/3, 192/3.
//! Oracle: the source value as u128 (two's complement bits, zero extended), reduced with shifts/masks into limbs;
//! `as` casts of the Rust language for "reinterpret the low bits"; limb loops for Uint -> Uint and slices.
//! NOT covered here: f32/f64 conversions (separate property), `const_from_u64` (private), the text of panic messages,
//! "panics for EVERY non-fitting input" (Kani's should_panic proves only that the panic is reachable and that
//! nothing else fails under the assumed class).
use crate::oracle as o;
use crate::sym::*;
use ruint::{FromUintError, ToUintError, Uint, UintTryFrom, UintTryTo};

/// v (as an unsigned 128-bit number) reduced modulo 2^B into L limbs; flag: v >= 2^B
fn wrap128<const B: usize, const L: usize>(v: u128) -> ([u64; L], bool) {
    let (r, over) = if B >= 128 { (v, false) } else { (v & ((1u128 << B) - 1), (v >> B) != 0) };
    let mut l = [0u64; L];
    if L > 0 { l[0] = r as u64; }
    if L > 1 { l[1] = (r >> 64) as u64; }
    (l, over)
}

/// the low 128 bits of a limb array, and whether any higher limb is non-zero
fn low128<const L: usize>(a: &[u64; L]) -> (u128, bool) {
    let mut low = 0u128;
    if L > 0 { low |= a[0] as u128; }
    if L > 1 { low |= (a[1] as u128) << 64; }
    let mut high = false;
    let mut i = 2;
    while i < L { if a[i] != 0 { high = true; } i += 1; }
    (low, high)
}

fn canonical<const B: usize, const L: usize>(x: Uint<B, L>) -> bool {
    L == 0 || x.as_limbs()[L - 1] <= o::mask_of(B)
}

// ---------------------------------------------------------------- primitive -> Uint
macro_rules! to_uint {
    ($f:ident, $t:ty, $ut:ty, $signed:expr) => {
        fn $f<const B: usize, const L: usize>() {
            let v: $t = any();
            let neg = $signed && (v as i128) < 0;
            let src_bits = core::mem::size_of::<$t>() * 8;
            // two's complement bits of v, zero extended (== v itself when v >= 0)
            let twos = (v as $ut) as u128;
            let (wrapped, over_bits) = wrap128::<B, L>(twos);
            let over = !neg && over_bits;
            match Uint::<B, L>::try_from(v) {
                Ok(x) => {
                    assert!(!neg && !over, "try_from: Ok only when 0 <= v < 2^BITS");
                    assert!(o::same(x.as_limbs(), &wrapped), "try_from: Ok value equals v");
                }
                Err(ToUintError::ValueNegative(bits, w)) => {
                    assert!(neg, "try_from: ValueNegative only when v < 0");
                    assert!(bits == B, "try_from: ValueNegative reports BITS");
                    assert!(canonical(w), "try_from: ValueNegative payload canonical");
                    if B <= src_bits {
                        assert!(o::same(w.as_limbs(), &wrapped), "try_from: ValueNegative payload == v mod 2^BITS");
                    }
                }
                Err(ToUintError::ValueTooLarge(bits, w)) => {
                    assert!(!neg && over, "try_from: ValueTooLarge only when v >= 2^BITS");
                    assert!(bits == B, "try_from: ValueTooLarge reports BITS");
                    assert!(o::same(w.as_limbs(), &wrapped), "try_from: ValueTooLarge payload == v mod 2^BITS");
                }
                Err(ToUintError::NotANumber(_)) => assert!(false, "try_from: NotANumber for an integer"),
            }
            if !(neg && B > src_bits) {
                assert!(o::same(Uint::<B, L>::wrapping_from(v).as_limbs(), &wrapped), "wrapping_from == v mod 2^BITS");
            }
            let sat = if neg { [0u64; L] } else if over { o::max_of::<L>(B) } else { wrapped };
            assert!(o::same(Uint::<B, L>::saturating_from(v).as_limbs(), &sat), "saturating_from");
            if !neg && !over {
                assert!(o::same(Uint::<B, L>::from(v).as_limbs(), &wrapped), "from: value preserved, no panic");
            }
        }
    };
}
to_uint!(tu_bool, bool, u8, false);
to_uint!(tu_u8, u8, u8, false);
to_uint!(tu_u16, u16, u16, false);
to_uint!(tu_u32, u32, u32, false);
to_uint!(tu_u64, u64, u64, false);
to_uint!(tu_u128, u128, u128, false);
to_uint!(tu_usize, usize, usize, false);
to_uint!(tu_i8, i8, u8, true);
to_uint!(tu_i16, i16, u16, true);
to_uint!(tu_i32, i32, u32, true);
to_uint!(tu_i64, i64, u64, true);
to_uint!(tu_i128, i128, u128, true);
to_uint!(tu_isize, isize, usize, true);

fn tu_unsigned<const B: usize, const L: usize>() {
    tu_bool::<B, L>(); tu_u8::<B, L>(); tu_u16::<B, L>(); tu_u32::<B, L>(); tu_u64::<B, L>(); tu_u128::<B, L>(); tu_usize::<B, L>();
}
fn tu_signed<const B: usize, const L: usize>() {
    tu_i8::<B, L>(); tu_i16::<B, L>(); tu_i32::<B, L>(); tu_i64::<B, L>(); tu_i128::<B, L>(); tu_isize::<B, L>();
}

// ---------------------------------------------------------------- Uint -> primitive
macro_rules! from_uint {
    ($f:ident, $t:ty, $signed:expr) => {
        fn $f<const B: usize, const L: usize>() {
            let x = uint::<B, L>();
            let (low, high) = low128(x.as_limbs());
            let max = <$t>::MAX;
            let fits = !high && low <= max as u128;
            let wrapped = low as $t; // low bits of x reinterpreted in the target type
            let r = <$t>::try_from(&x);
            match r {
                Ok(t) => {
                    assert!(fits, "try_from(&Uint): Ok only when the value fits");
                    assert!(!($signed && (t as i128) < 0) && t as u128 == low, "try_from(&Uint): Ok value equals x");
                }
                Err(FromUintError::Overflow(bits, w, m)) => {
                    assert!(!fits, "try_from(&Uint): Overflow only when the value does not fit");
                    assert!(bits == B, "try_from(&Uint): Overflow reports BITS");
                    assert!(w == wrapped, "try_from(&Uint): Overflow payload is x mod 2^T::BITS reinterpreted");
                    assert!(m == max, "try_from(&Uint): Overflow reports T::MAX");
                }
            }
            let by_value_agrees = match (<$t>::try_from(x), r) {
                (Ok(a), Ok(b)) => a == b,
                (Err(FromUintError::Overflow(a1, a2, a3)), Err(FromUintError::Overflow(b1, b2, b3))) => a1 == b1 && a2 == b2 && a3 == b3,
                _ => false,
            };
            assert!(by_value_agrees, "try_from(Uint) == try_from(&Uint)");
            let by_trait_agrees = match (UintTryTo::<$t>::uint_try_to(&x), r) {
                (Ok(a), Ok(b)) => a == b,
                (Err(FromUintError::Overflow(a1, a2, a3)), Err(FromUintError::Overflow(b1, b2, b3))) => a1 == b1 && a2 == b2 && a3 == b3,
                _ => false,
            };
            assert!(by_trait_agrees, "uint_try_to == try_from(&Uint)");
            if fits {
                assert!(x.to::<$t>() == wrapped, "to: value preserved, no panic");
            }
            assert!(x.wrapping_to::<$t>() == wrapped, "wrapping_to");
            assert!(x.saturating_to::<$t>() == if fits { wrapped } else { max }, "saturating_to");
        }
    };
}
from_uint!(fu_u8, u8, false);
from_uint!(fu_u16, u16, false);
from_uint!(fu_u32, u32, false);
from_uint!(fu_u64, u64, false);
from_uint!(fu_u128, u128, false);
from_uint!(fu_usize, usize, false);
from_uint!(fu_i8, i8, true);
from_uint!(fu_i16, i16, true);
from_uint!(fu_i32, i32, true);
from_uint!(fu_i64, i64, true);
from_uint!(fu_i128, i128, true);
from_uint!(fu_isize, isize, true);

fn fu_bool<const B: usize, const L: usize>() {
    let x = uint::<B, L>();
    let (low, high) = low128(x.as_limbs());
    let fits = !high && low <= 1;
    let bit0 = low & 1 == 1;
    let r = bool::try_from(&x);
    match r {
        Ok(t) => {
            assert!(fits, "bool::try_from(&Uint): Ok only for 0 and 1");
            assert!(t == (low == 1), "bool::try_from(&Uint): Ok value");
        }
        Err(FromUintError::Overflow(bits, w, m)) => {
            assert!(!fits, "bool::try_from(&Uint): Overflow only for x > 1");
            assert!(bits == B && w == bit0 && m, "bool::try_from(&Uint): Overflow(BITS, bit 0, true)");
        }
    }
    let by_value_agrees = match (bool::try_from(x), r) {
        (Ok(a), Ok(b)) => a == b,
        (Err(FromUintError::Overflow(a1, a2, a3)), Err(FromUintError::Overflow(b1, b2, b3))) => a1 == b1 && a2 == b2 && a3 == b3,
        _ => false,
    };
    assert!(by_value_agrees, "bool::try_from(Uint) == bool::try_from(&Uint)");
    if fits {
        assert!(x.to::<bool>() == bit0, "to::<bool>");
    }
    assert!(x.wrapping_to::<bool>() == bit0, "wrapping_to::<bool>");
    assert!(x.saturating_to::<bool>() == if fits { bit0 } else { true }, "saturating_to::<bool>");
}

fn fu_unsigned<const B: usize, const L: usize>() {
    fu_bool::<B, L>(); fu_u8::<B, L>(); fu_u16::<B, L>(); fu_u32::<B, L>(); fu_u64::<B, L>(); fu_u128::<B, L>(); fu_usize::<B, L>();
}
fn fu_signed<const B: usize, const L: usize>() {
    fu_i8::<B, L>(); fu_i16::<B, L>(); fu_i32::<B, L>(); fu_i64::<B, L>(); fu_i128::<B, L>(); fu_isize::<B, L>();
}

// ---------------------------------------------------------------- Uint -> Uint
/// the value of `a` (L1 limbs) reduced modulo 2^B2 into L2 limbs; flag: value >= 2^B2
fn resize<const L1: usize, const B2: usize, const L2: usize>(a: &[u64; L1]) -> ([u64; L2], bool) {
    let mut r = [0u64; L2];
    let mut over = false;
    let mut i = 0;
    while i < L1 {
        if i < L2 { r[i] = a[i]; } else if a[i] != 0 { over = true; }
        i += 1;
    }
    if L2 > 0 {
        let m = o::mask_of(B2);
        if r[L2 - 1] > m { over = true; }
        r[L2 - 1] &= m;
    }
    (r, over)
}

#[allow(deprecated)]
fn uu<const B1: usize, const L1: usize, const B2: usize, const L2: usize>() {
    let x = uint::<B1, L1>();
    let (want, over) = resize::<L1, B2, L2>(x.as_limbs());
    let max = o::max_of::<L2>(B2);
    match <Uint<B2, L2> as UintTryFrom<Uint<B1, L1>>>::uint_try_from(x) {
        Ok(y) => {
            assert!(!over, "uint_try_from: Ok only when value < 2^BITS_DST");
            assert!(o::same(y.as_limbs(), &want), "uint_try_from: value preserved");
        }
        Err(ToUintError::ValueTooLarge(bits, w)) => {
            assert!(over, "uint_try_from: ValueTooLarge only when value >= 2^BITS_DST");
            assert!(bits == B2, "uint_try_from: reports destination BITS");
            assert!(o::same(w.as_limbs(), &want), "uint_try_from: payload == value mod 2^BITS_DST");
        }
        Err(_) => assert!(false, "uint_try_from: unexpected error variant"),
    }
    match <Uint<B1, L1> as UintTryTo<Uint<B2, L2>>>::uint_try_to(&x) {
        Ok(y) => {
            assert!(!over, "uint_try_to: Ok only when value < 2^BITS_DST");
            assert!(o::same(y.as_limbs(), &want), "uint_try_to: value preserved");
        }
        Err(FromUintError::Overflow(bits, w, m)) => {
            assert!(over, "uint_try_to: Overflow only when value >= 2^BITS_DST");
            assert!(bits == B2, "uint_try_to: reports destination BITS");
            assert!(o::same(w.as_limbs(), &want), "uint_try_to: payload == value mod 2^BITS_DST");
            assert!(o::same(m.as_limbs(), &max), "uint_try_to: reports destination MAX");
        }
    }
    assert!(o::same(Uint::<B2, L2>::wrapping_from(x).as_limbs(), &want), "wrapping_from(Uint)");
    assert!(o::same(x.wrapping_to::<Uint<B2, L2>>().as_limbs(), &want), "wrapping_to::<Uint>");
    let sat = if over { max } else { want };
    assert!(o::same(Uint::<B2, L2>::saturating_from(x).as_limbs(), &sat), "saturating_from(Uint)");
    assert!(o::same(x.saturating_to::<Uint<B2, L2>>().as_limbs(), &sat), "saturating_to::<Uint>");
    match Uint::<B2, L2>::checked_from_uint(x) {
        None => assert!(over, "checked_from_uint: None only on overflow"),
        Some(y) => assert!(!over && o::same(y.as_limbs(), &want), "checked_from_uint: value preserved"),
    }
    if !over {
        assert!(o::same(Uint::<B2, L2>::from(x).as_limbs(), &want), "from(Uint): value preserved, no panic");
        assert!(o::same(x.to::<Uint<B2, L2>>().as_limbs(), &want), "to::<Uint>: value preserved, no panic");
        assert!(o::same(Uint::<B2, L2>::from_uint(x).as_limbs(), &want), "from_uint: value preserved, no panic");
    }
}

// ---------------------------------------------------------------- limb slices
/// N must be L + 2 (const-generic arithmetic is not available, so it is passed and checked).
/// The symbolic length n is dispatched to a constant k before slicing: with a slice of *symbolic* length CBMC's
/// memcpy model (reached through `copy_from_slice` in overflowing_from_limbs_slice) produced a spurious
/// counterexample (arr = [1,1,1,0], n = 1 at 65 bits; the concrete replay of it holds), with constant lengths it is exact.
fn slices<const B: usize, const L: usize, const N: usize>() {
    assert!(N == L + 2);
    let arr: [u64; N] = any();
    let n: usize = any();
    assume(n <= N);
    let mut k = 0;
    while k <= N {
        if n == k { slice_case::<B, L, N>(&arr, k); }
        k += 1;
    }
    from_limbs_identity::<B, L>();
}

fn slice_case<const B: usize, const L: usize, const N: usize>(arr: &[u64; N], n: usize) {
    let s = &arr[..n];
    // denoted value: sum arr[i] * 2^(64 i), i < n
    let mut want = [0u64; L];
    let mut over = false;
    let mut i = 0;
    while i < N {
        if i < n {
            if i < L { want[i] = arr[i]; } else if arr[i] != 0 { over = true; }
        }
        i += 1;
    }
    if L > 0 {
        let m = o::mask_of(B);
        if want[L - 1] > m { over = true; }
        want[L - 1] &= m;
    }
    let (r, f) = Uint::<B, L>::overflowing_from_limbs_slice(s);
    assert!(o::same(r.as_limbs(), &want), "overflowing_from_limbs_slice value == slice value mod 2^BITS");
    assert!(f == over, "overflowing_from_limbs_slice flag iff slice value >= 2^BITS");
    assert!(o::same(Uint::<B, L>::wrapping_from_limbs_slice(s).as_limbs(), &want), "wrapping_from_limbs_slice");
    match Uint::<B, L>::checked_from_limbs_slice(s) {
        None => assert!(over, "checked_from_limbs_slice: None only on overflow"),
        Some(y) => assert!(!over && o::same(y.as_limbs(), &want), "checked_from_limbs_slice: value"),
    }
    let sat = if over { o::max_of::<L>(B) } else { want };
    assert!(o::same(Uint::<B, L>::saturating_from_limbs_slice(s).as_limbs(), &sat), "saturating_from_limbs_slice");
    if !over {
        assert!(o::same(Uint::<B, L>::from_limbs_slice(s).as_limbs(), &want), "from_limbs_slice: value, no panic");
    }
}

fn from_limbs_identity<const B: usize, const L: usize>() {
    // from_limbs: identity on canonical arrays
    let l: [u64; L] = any();
    if L == 0 || l[L - 1] <= o::mask_of(B) {
        assert!(o::same(Uint::<B, L>::from_limbs(l).as_limbs(), &l), "from_limbs is the identity on canonical limbs");
        assert!(o::same(&Uint::<B, L>::from_limbs(l).into_limbs(), &l), "into_limbs(from_limbs(l)) == l");
    }
}

// ---------------------------------------------------------------- panic classes (reachability of the panic only)
fn from_prim_too_large_panics() {
    let v: u64 = any();
    assume(v >= 256);
    let _ = Uint::<8, 1>::from(v);
}
fn from_prim_negative_panics() {
    let v: i32 = any();
    assume(v < 0);
    let _ = Uint::<65, 2>::from(v);
}
fn to_prim_overflow_panics() {
    let x = uint::<65, 2>();
    assume(x.as_limbs()[1] == 0 && x.as_limbs()[0] > 255);
    let _ = x.to::<u8>();
}
fn from_uint_overflow_panics() {
    let x = uint::<65, 2>();
    assume(x.as_limbs()[1] == 1);
    let _ = Uint::<64, 1>::from(x);
}
fn to_uint_overflow_panics() {
    let x = uint::<65, 2>();
    assume(x.as_limbs()[1] == 1);
    let _ = x.to::<Uint<64, 1>>();
}
fn from_limbs_slice_tail_panics() {
    let arr: [u64; 3] = any();
    assume(arr[2] != 0);
    let _ = Uint::<65, 2>::from_limbs_slice(&arr[..]);
}
fn from_limbs_slice_top_panics() {
    let arr: [u64; 2] = any();
    assume(arr[1] > 1);
    let _ = Uint::<65, 2>::from_limbs_slice(&arr[..]);
}
fn from_limbs_top_panics() {
    let arr: [u64; 2] = any();
    assume(arr[1] > 1);
    let _ = Uint::<65, 2>::from_limbs(arr);
}

crate::harnesses! {
    #[cfg_attr(kani, kani::unwind(8))] fn c07_from_unsigned_w0() { tu_unsigned::<0, 0>() }
    #[cfg_attr(kani, kani::unwind(8))] fn c07_from_unsigned_w1() { tu_unsigned::<1, 1>() }
    #[cfg_attr(kani, kani::unwind(8))] fn c07_from_unsigned_w8() { tu_unsigned::<8, 1>() }
    #[cfg_attr(kani, kani::unwind(8))] fn c07_from_unsigned_w60() { tu_unsigned::<60, 1>() }
    #[cfg_attr(kani, kani::unwind(8))] fn c07_from_unsigned_w64() { tu_unsigned::<64, 1>() }
    #[cfg_attr(kani, kani::unwind(8))] fn c07_from_unsigned_w65() { tu_unsigned::<65, 2>() }
    #[cfg_attr(kani, kani::unwind(8))] fn c07_from_unsigned_w100() { tu_unsigned::<100, 2>() }
    #[cfg_attr(kani, kani::unwind(8))] fn c07_from_unsigned_w128() { tu_unsigned::<128, 2>() }
    #[cfg_attr(kani, kani::unwind(8))] fn c07_from_unsigned_w129() { tu_unsigned::<129, 3>() }
    #[cfg_attr(kani, kani::unwind(8))] fn c07_from_unsigned_w192() { tu_unsigned::<192, 3>() }
    #[cfg_attr(kani, kani::unwind(8))] fn c07_from_signed_w0() { tu_signed::<0, 0>() }
    #[cfg_attr(kani, kani::unwind(8))] fn c07_from_signed_w1() { tu_signed::<1, 1>() }
    #[cfg_attr(kani, kani::unwind(8))] fn c07_from_signed_w8() { tu_signed::<8, 1>() }
    #[cfg_attr(kani, kani::unwind(8))] fn c07_from_signed_w60() { tu_signed::<60, 1>() }
    #[cfg_attr(kani, kani::unwind(8))] fn c07_from_signed_w64() { tu_signed::<64, 1>() }
    #[cfg_attr(kani, kani::unwind(8))] fn c07_from_signed_w65() { tu_signed::<65, 2>() }
    #[cfg_attr(kani, kani::unwind(8))] fn c07_from_signed_w100() { tu_signed::<100, 2>() }
    #[cfg_attr(kani, kani::unwind(8))] fn c07_from_signed_w128() { tu_signed::<128, 2>() }
    #[cfg_attr(kani, kani::unwind(8))] fn c07_from_signed_w129() { tu_signed::<129, 3>() }
    #[cfg_attr(kani, kani::unwind(8))] fn c07_from_signed_w192() { tu_signed::<192, 3>() }
    #[cfg_attr(kani, kani::unwind(8))] fn c07_to_unsigned_w0() { fu_unsigned::<0, 0>() }
    #[cfg_attr(kani, kani::unwind(8))] fn c07_to_unsigned_w1() { fu_unsigned::<1, 1>() }
    #[cfg_attr(kani, kani::unwind(8))] fn c07_to_unsigned_w8() { fu_unsigned::<8, 1>() }
    #[cfg_attr(kani, kani::unwind(8))] fn c07_to_unsigned_w60() { fu_unsigned::<60, 1>() }
    #[cfg_attr(kani, kani::unwind(8))] fn c07_to_unsigned_w64() { fu_unsigned::<64, 1>() }
    #[cfg_attr(kani, kani::unwind(8))] fn c07_to_unsigned_w65() { fu_unsigned::<65, 2>() }
    #[cfg_attr(kani, kani::unwind(8))] fn c07_to_unsigned_w100() { fu_unsigned::<100, 2>() }
    #[cfg_attr(kani, kani::unwind(8))] fn c07_to_unsigned_w128() { fu_unsigned::<128, 2>() }
    #[cfg_attr(kani, kani::unwind(8))] fn c07_to_unsigned_w129() { fu_unsigned::<129, 3>() }
    #[cfg_attr(kani, kani::unwind(8))] fn c07_to_unsigned_w192() { fu_unsigned::<192, 3>() }
    #[cfg_attr(kani, kani::unwind(8))] fn c07_to_signed_w0() { fu_signed::<0, 0>() }
    #[cfg_attr(kani, kani::unwind(8))] fn c07_to_signed_w1() { fu_signed::<1, 1>() }
    #[cfg_attr(kani, kani::unwind(8))] fn c07_to_signed_w8() { fu_signed::<8, 1>() }
    #[cfg_attr(kani, kani::unwind(8))] fn c07_to_signed_w60() { fu_signed::<60, 1>() }
    #[cfg_attr(kani, kani::unwind(8))] fn c07_to_signed_w64() { fu_signed::<64, 1>() }
    #[cfg_attr(kani, kani::unwind(8))] fn c07_to_signed_w65() { fu_signed::<65, 2>() }
    #[cfg_attr(kani, kani::unwind(8))] fn c07_to_signed_w100() { fu_signed::<100, 2>() }
    #[cfg_attr(kani, kani::unwind(8))] fn c07_to_signed_w128() { fu_signed::<128, 2>() }
    #[cfg_attr(kani, kani::unwind(8))] fn c07_to_signed_w129() { fu_signed::<129, 3>() }
    #[cfg_attr(kani, kani::unwind(8))] fn c07_to_signed_w192() { fu_signed::<192, 3>() }
    #[cfg_attr(kani, kani::unwind(8))] fn c07_uint_65_to_64() { uu::<65, 2, 64, 1>() }
    #[cfg_attr(kani, kani::unwind(8))] fn c07_uint_64_to_65() { uu::<64, 1, 65, 2>() }
    #[cfg_attr(kani, kani::unwind(8))] fn c07_uint_128_to_65() { uu::<128, 2, 65, 2>() }
    #[cfg_attr(kani, kani::unwind(8))] fn c07_uint_65_to_128() { uu::<65, 2, 128, 2>() }
    #[cfg_attr(kani, kani::unwind(8))] fn c07_uint_100_to_1() { uu::<100, 2, 1, 1>() }
    #[cfg_attr(kani, kani::unwind(8))] fn c07_uint_1_to_100() { uu::<1, 1, 100, 2>() }
    #[cfg_attr(kani, kani::unwind(8))] fn c07_uint_129_to_63() { uu::<129, 3, 63, 1>() }
    #[cfg_attr(kani, kani::unwind(8))] fn c07_uint_0_to_64() { uu::<0, 0, 64, 1>() }
    #[cfg_attr(kani, kani::unwind(8))] fn c07_uint_64_to_0() { uu::<64, 1, 0, 0>() }
    #[cfg_attr(kani, kani::unwind(8))] fn c07_slice_w0() { slices::<0, 0, 2>() }
    #[cfg_attr(kani, kani::unwind(8))] fn c07_slice_w1() { slices::<1, 1, 3>() }
    #[cfg_attr(kani, kani::unwind(8))] fn c07_slice_w8() { slices::<8, 1, 3>() }
    #[cfg_attr(kani, kani::unwind(8))] fn c07_slice_w60() { slices::<60, 1, 3>() }
    #[cfg_attr(kani, kani::unwind(8))] fn c07_slice_w64() { slices::<64, 1, 3>() }
    #[cfg_attr(kani, kani::unwind(8))] fn c07_slice_w65() { slices::<65, 2, 4>() }
    #[cfg_attr(kani, kani::unwind(8))] fn c07_slice_w100() { slices::<100, 2, 4>() }
    #[cfg_attr(kani, kani::unwind(8))] fn c07_slice_w128() { slices::<128, 2, 4>() }
    #[cfg_attr(kani, kani::unwind(8))] fn c07_slice_w129() { slices::<129, 3, 5>() }
    #[cfg_attr(kani, kani::unwind(8))] fn c07_slice_w192() { slices::<192, 3, 5>() }
    #[cfg_attr(kani, kani::unwind(8))] #[cfg_attr(kani, kani::should_panic)] fn c07_from_u64_too_large_w8_must_panic() { from_prim_too_large_panics() }
    #[cfg_attr(kani, kani::unwind(8))] #[cfg_attr(kani, kani::should_panic)] fn c07_from_i32_negative_w65_must_panic() { from_prim_negative_panics() }
    #[cfg_attr(kani, kani::unwind(8))] #[cfg_attr(kani, kani::should_panic)] fn c07_to_u8_overflow_w65_must_panic() { to_prim_overflow_panics() }
    #[cfg_attr(kani, kani::unwind(8))] #[cfg_attr(kani, kani::should_panic)] fn c07_from_uint_65_to_64_must_panic() { from_uint_overflow_panics() }
    #[cfg_attr(kani, kani::unwind(8))] #[cfg_attr(kani, kani::should_panic)] fn c07_to_uint_65_to_64_must_panic() { to_uint_overflow_panics() }
    #[cfg_attr(kani, kani::unwind(8))] #[cfg_attr(kani, kani::should_panic)] fn c07_from_limbs_slice_tail_w65_must_panic() { from_limbs_slice_tail_panics() }
    #[cfg_attr(kani, kani::unwind(8))] #[cfg_attr(kani, kani::should_panic)] fn c07_from_limbs_slice_top_w65_must_panic() { from_limbs_slice_top_panics() }
    #[cfg_attr(kani, kani::unwind(8))] #[cfg_attr(kani, kani::should_panic)] fn c07_from_limbs_top_w65_must_panic() { from_limbs_top_panics() }
}

//! C13, NATIVE-ONLY harness bodies (never sent to CBMC: a symbolic multi-limb multiply ladder is far out of its reach):
//! pow / wrapping_pow / overflowing_pow / checked_pow / saturating_pow against an independent square-and-multiply ladder over the
//! exponent's bits, built from `overflowing_mul` (proved in unit mul). They are executed by the native sweep only (bounded:
//! generated operands, incl. exponents >= 2^64 and >= 2^BITS); the all-widths statement is the Verus proof of unit pow.
use crate::sym::*;
use ruint::Uint;

fn pow_body<const B: usize, const L: usize>() {
    let a = uint::<B, L>();
    let e = uint::<B, L>();
    // oracle: left-to-right binary ladder over every bit of e; overflow = some intermediate product did not fit
    let mut acc = if B == 0 { Uint::<B, L>::ZERO } else { Uint::<B, L>::from(1u64) };
    let mut over = false;
    let mut i = B;
    while i > 0 {
        i -= 1;
        let (sq, f1) = acc.overflowing_mul(acc);
        // squaring an overflowed accumulator stays overflowed unless it is 0 or 1 times ...: track the flag on true values
        over = over || f1;
        acc = sq;
        if e.bit(i) {
            let (m, f2) = acc.overflowing_mul(a);
            over = over || f2;
            acc = m;
        }
    }
    assert!(ueq(a.wrapping_pow(e), acc), "wrapping_pow == a^e mod 2^BITS");
    assert!(ueq(a.pow(e), acc), "pow == a^e mod 2^BITS");
    let (p, f) = a.overflowing_pow(e);
    assert!(ueq(p, acc), "overflowing_pow value == a^e mod 2^BITS");
    // the ladder's flag is exact only while no intermediate wrapped to a value that hides the overflow; it is exact when it is
    // false (nothing wrapped): then a^e < 2^BITS and the library must not flag
    if !over {
        assert!(!f, "overflowing_pow does not flag when a^e < 2^BITS");
        assert!(opt_is(a.checked_pow(e), false, acc), "checked_pow == Some(a^e) when it fits");
        assert!(ueq(a.saturating_pow(e), acc), "saturating_pow == a^e when it fits");
    }
}

crate::harnesses! {
    fn c13n_pow_w8() { pow_body::<8, 1>() }
    fn c13n_pow_w64() { pow_body::<64, 1>() }
    fn c13n_pow_w65() { pow_body::<65, 2>() }
    fn c13n_pow_w128() { pow_body::<128, 2>() }
    fn c13n_pow_w192() { pow_body::<192, 3>() }
}

//! Symbolic inputs: `kani::any()` under Kani, values popped from a replay queue otherwise.
//! The same harness body therefore runs symbolically (verification) and concretely
//! (replay of a counterexample against the real code, no verifier involved).
use ruint::Uint;

#[cfg(not(kani))]
thread_local! {
    pub static QUEUE: std::cell::RefCell<std::collections::VecDeque<Vec<u8>>> = Default::default();
}

#[cfg(not(kani))]
fn pop(n: usize) -> Vec<u8> {
    QUEUE.with(|q| {
        let v = q.borrow_mut().pop_front().expect("REPLAY: input queue exhausted");
        assert_eq!(v.len(), n, "REPLAY: input width mismatch");
        v
    })
}

pub trait Sym: Sized {
    fn sym() -> Self;
}

macro_rules! prim {
    ($($t:ty),*) => {$(
        impl Sym for $t {
            #[cfg(kani)]
            #[inline(always)]
            fn sym() -> Self { kani::any() }
            #[cfg(not(kani))]
            fn sym() -> Self {
                let v = pop(core::mem::size_of::<$t>());
                let mut b = [0u8; core::mem::size_of::<$t>()];
                b.copy_from_slice(&v);
                <$t>::from_le_bytes(b)
            }
        }
    )*};
}
prim!(u8, u16, u32, u64, u128, usize, i8, i16, i32, i64, i128, isize, f32, f64);

impl Sym for bool {
    #[cfg(kani)]
    #[inline(always)]
    fn sym() -> Self { kani::any() }
    #[cfg(not(kani))]
    fn sym() -> Self { pop(1)[0] != 0 }
}

impl<T: Sym + Copy + Default, const N: usize> Sym for [T; N] {
    fn sym() -> Self {
        let mut a = [T::default(); N];
        let mut i = 0;
        while i < N {
            a[i] = T::sym();
            i += 1;
        }
        a
    }
}

#[inline(always)]
pub fn any<T: Sym>() -> T { T::sym() }

#[inline(always)]
pub fn assume(c: bool) {
    #[cfg(kani)]
    kani::assume(c);
    #[cfg(not(kani))]
    if !c {
        panic!("REPLAY-ASSUMPTION-VIOLATED");
    }
}

/// reachability marker: the harness reached its end (vacuity guard)
#[inline(always)]
pub fn reached() {
    #[cfg(kani)]
    kani::cover!(true, "harness end reachable");
}

/// an arbitrary *canonical* Uint (the type invariant is a precondition)
pub fn uint<const B: usize, const L: usize>() -> Uint<B, L> {
    let limbs: [u64; L] = any();
    if L > 0 {
        assume(limbs[L - 1] <= Uint::<B, L>::MASK);
    }
    Uint::from_limbs(limbs)
}

/// equality of two Uints without memcmp
pub fn ueq<const B: usize, const L: usize>(a: Uint<B, L>, b: Uint<B, L>) -> bool {
    crate::oracle::same(a.as_limbs(), b.as_limbs())
}
/// Option<Uint> equals: None when `none`, else Some(v)
pub fn opt_is<const B: usize, const L: usize>(x: Option<Uint<B, L>>, none: bool, v: Uint<B, L>) -> bool {
    match x { None => none, Some(y) => !none && ueq(y, v) }
}

//! Symbolic inputs: `kani::any()` under Kani, values popped from a replay queue otherwise.
//! The same harness body therefore runs symbolically (verification) and concretely
//! (replay of a counterexample against the real code, no verifier involved).
use ruint::Uint;

#[cfg(not(kani))]
thread_local! {
    pub static QUEUE: std::cell::RefCell<std::collections::VecDeque<Vec<u8>>> = Default::default();
}

/// pattern mode (native sweep): when set, symbolic inputs are generated from a palette of boundary words instead of being
/// popped from the replay queue; every generated input is recorded in `DRAWN` so that a failing run can be replayed exactly.
#[cfg(not(kani))]
thread_local! {
    pub static PATTERN: std::cell::Cell<Option<u64>> = const { std::cell::Cell::new(None) };
    pub static DRAWN: std::cell::RefCell<Vec<Vec<u8>>> = Default::default();
}

#[cfg(not(kani))]
fn mix(mut x: u64) -> u64 {
    // splitmix64
    x = x.wrapping_add(0x9e37_79b9_7f4a_7c15);
    let mut z = x;
    z = (z ^ (z >> 30)).wrapping_mul(0xbf58_476d_1ce4_e5b9);
    z = (z ^ (z >> 27)).wrapping_mul(0x94d0_49bb_1331_11eb);
    z ^ (z >> 31)
}

#[cfg(not(kani))]
fn pattern_bytes(run: u64, draw: u64, n: usize) -> Vec<u8> {
    const PAL: [u64; 20] = [0, 1, 2, 3, 0x7f, 0x80, 0xff, 0x100, 0x7fff_ffff, 0x8000_0000, 0xffff_ffff, 0x1_0000_0000,
        0x7fff_ffff_ffff_ffff, 0x8000_0000_0000_0000, 0x8000_0000_0000_0001, 0xffff_ffff_ffff_fffe, u64::MAX, 10, 0x3f, 0x40];
    let mut out = Vec::with_capacity(n);
    let mut k = 0u64;
    while out.len() < n {
        let h = mix(run.wrapping_mul(0x1_0000_0001).wrapping_add(draw.wrapping_mul(977)).wrapping_add(k));
        // early runs: palette only (boundary patterns); later runs: one word in four is pseudo-random
        let w = if run >= 64 && h & 3 == 0 { mix(h) } else { PAL[(h >> 8) as usize % PAL.len()] };
        out.extend_from_slice(&w.to_le_bytes());
        k += 1;
    }
    out.truncate(n);
    out
}

#[cfg(not(kani))]
fn pop(n: usize) -> Vec<u8> {
    if let Some(run) = PATTERN.with(|p| p.get()) {
        let draw = DRAWN.with(|d| d.borrow().len() as u64);
        let v = pattern_bytes(run, draw, n);
        DRAWN.with(|d| d.borrow_mut().push(v.clone()));
        return v;
    }
    QUEUE.with(|q| {
        let v = q.borrow_mut().pop_front().expect("REPLAY: input queue exhausted");
        assert_eq!(v.len(), n, "REPLAY: input width mismatch");
        v
    })
}

pub trait Sym: Sized {
    fn sym() -> Self;
}

macro_rules! prim {
    ($($t:ty),*) => {$(
        impl Sym for $t {
            #[cfg(kani)]
            #[inline(always)]
            fn sym() -> Self { kani::any() }
            #[cfg(not(kani))]
            fn sym() -> Self {
                let v = pop(core::mem::size_of::<$t>());
                let mut b = [0u8; core::mem::size_of::<$t>()];
                b.copy_from_slice(&v);
                <$t>::from_le_bytes(b)
            }
        }
    )*};
}
prim!(u8, u16, u32, u64, u128, usize, i8, i16, i32, i64, i128, isize, f32, f64);

impl Sym for bool {
    #[cfg(kani)]
    #[inline(always)]
    fn sym() -> Self { kani::any() }
    #[cfg(not(kani))]
    fn sym() -> Self { pop(1)[0] != 0 }
}

impl<T: Sym + Copy + Default, const N: usize> Sym for [T; N] {
    fn sym() -> Self {
        let mut a = [T::default(); N];
        let mut i = 0;
        while i < N {
            a[i] = T::sym();
            i += 1;
        }
        a
    }
}

#[inline(always)]
pub fn any<T: Sym>() -> T { T::sym() }

#[inline(always)]
pub fn assume(c: bool) {
    #[cfg(kani)]
    kani::assume(c);
    #[cfg(not(kani))]
    if !c {
        panic!("REPLAY-ASSUMPTION-VIOLATED");
    }
}

/// reachability marker: the harness reached its end (vacuity guard)
#[inline(always)]
pub fn reached() {
    #[cfg(kani)]
    kani::cover!(true, "harness end reachable");
}

/// an arbitrary *canonical* Uint (the type invariant is a precondition)
pub fn uint<const B: usize, const L: usize>() -> Uint<B, L> {
    #[allow(unused_mut)]
    let mut limbs: [u64; L] = any();
    // native execution (sweep and replay): the limbs are made canonical instead of being rejected - a no-op for the values of a
    // Kani counterexample (they satisfy the assumption below), and it lets the inputs recorded by a sweep be replayed as they are
    #[cfg(not(kani))]
    if L > 0 {
        limbs[L - 1] &= Uint::<B, L>::MASK;
    }
    if L > 0 {
        assume(limbs[L - 1] <= Uint::<B, L>::MASK);
    }
    Uint::from_limbs(limbs)
}

/// equality of two Uints without memcmp
pub fn ueq<const B: usize, const L: usize>(a: Uint<B, L>, b: Uint<B, L>) -> bool {
    crate::oracle::same(a.as_limbs(), b.as_limbs())
}
/// Option<Uint> equals: None when `none`, else Some(v)
pub fn opt_is<const B: usize, const L: usize>(x: Option<Uint<B, L>>, none: bool, v: Uint<B, L>) -> bool {
    match x { None => none, Some(y) => !none && ueq(y, v) }
}

//! C19 — `uint!` literal parsing: the three pure functions of ruint-macro that decide a literal's value and its
//! rejection (`parse_digits`, `pad_limbs`, `parse_suffix`), copied verbatim into `crate::gen_macro_fns` on every run.
//! RUN WITH `-Z stubbing` (the parse_digits harnesses use kani::stub; lib.rs needs
//! `#![cfg_attr(kani, feature(allocator_api))]` for the signature of the `Vec::push` model).
//!
//! Entry points covered:
//!  * `parse_digits` (`c19_parse_digits_short`): ALL strings of length 0..=5 over the 16-character alphabet
//!    `0 1 2 7 8 9 a A f F g x o b _ X` (bounded: alphabet subset, length <= 5). Ok(limbs) iff, after the optional
//!    prefix (`0x` -> 16, `0o` -> 8, `0b` -> 2, anything else incl. `0X` -> 10, prefix kept), every character is `_`
//!    or a digit (0-9, a-f, A-F) of value < base; then the limbs denote the Horner value of the digits (the empty
//!    digit string denotes 0); Err otherwise. The text of the error is not inspected.
//!  * `parse_digits` multi-limb carry: `c19_parse_digits_carry_dec20`: "184467440737095516??" (?? = two symbolic
//!    decimal digits; the values straddle 2^64 = ...1616: one- and two-limb results, the `limbs.push(carry)` path);
//!    `..._dec21` "18446744073709551615?", `..._dec22` "184467440737095516150?", `..._hex` "0xfFfFfFfFfFfFfFfF?"
//!    (68 bits) with ONE symbolic last digit: Ok, and the limbs denote the u128 value of the string.
//!    Bounded: only the last 2 resp. 1 digits are symbolic (see the note at `pd_carry_dec`).
//!  * Stubs (all parse_digits harnesses): `std::fmt::format` -> `fmt_stub` (the error-path `format!`; Kani lists
//!    "Stub: std::fmt::format -> fmt_stub") and `Vec::push` -> `push_stub` (a model of push without realloc).
//!    Measured: c19_parse_digits_short with both stubs 65 s; with the real `format!` (push stubbed) no result in
//!    900 s at length <= 5 and none in 600 s even at length <= 1; with the real `Vec::push` (format stubbed) CBMC
//!    ran out of memory (> 20 GB) at length <= 5, <= 3, <= 2 and <= 1 (symbolic-size realloc under the symbolic
//!    condition `carry > 0`). So neither `format!` nor the real `push` is exercised by these harnesses.
//!  * `pad_limbs` (`c19_pad_limbs_b<bits>`): bits constant per harness from {0, 1, 2, 8, 63, 64, 65, 100, 127, 128,
//!    129, 191, 192}, limb vectors of every length n in 0..=4: Some(out) iff the little-endian value of the limbs
//!    < 2^bits, then out.len() == ceil(bits/64) and out denotes the same value; None otherwise. Limb contents: all
//!    symbolic when n <= ceil(bits/64); for longer vectors the number z of zero top limbs is enumerated, the limbs
//!    below them are symbolic, except that a top limb that must be NON-zero is taken from {1, 2^63, 2^64-1} (in that
//!    class the result is None whatever the value; see the cost note at `pad_check`). `c19_pad_limbs_bits0`: bits = 0,
//!    n <= 4, ALL contents symbolic. `c19_pad_limbs_empty_vec`: the empty vector at EVERY bits in 0..=192.
//!    Bounded: bits from the set above (all bits <= 192 only for the empty vector), n <= 4, the three constants.
//!  * `parse_suffix` (`c19_parse_suffix_len0_5 / _len6 / _len7`): ALL strings of length 0..=7 over the alphabet
//!    `0 1 9 x a b B U _ u f` (bounded: alphabet subset, length <= 7): Some((ty, bits, value)) iff s = value ++ L ++
//!    digits where L is the LAST 'U' or 'B' of s, digits is a non-empty decimal string (its value is `bits`), and NOT
//!    (L == 'B' and value starts with "0x" and does not end with '_'); value is returned unchanged, ty == Uint for
//!    'U', Bits for 'B'.
//! Oracle: byte loops written here (own digit table, Horner in u64/u128, limb-wise comparison with 2^bits).
//! NOT covered: the token-tree traversal / code generation of the macro (`transform_*`, `construct`: they need
//! proc_macro types that exist only inside the compiler), so "expands to a constant of exactly that width" is covered
//! only through pad_limbs' length/value contract; non-ASCII input (`parse_digits("1é")` panics in `split_at(2)` —
//! still a compile-time error, never a wrong constant); a leading '+' in the bit count (accepted by
//! `usize::from_str`; cannot occur in a literal token); bit counts that overflow usize; longer strings; results of
//! more than two limbs; the text of the error messages.
use crate::gen_macro_fns::*;
use crate::sym::*;

const PD_TABLE: [u8; 16] = *b"012789aAfFgxob_X";
const PS_TABLE: [u8; 11] = *b"019xabBU_uf";
const HEX_TABLE: [u8; 22] = *b"0123456789abcdefABCDEF";

/// stub for `format!` on the error paths of parse_digits (the text is never inspected)
pub fn fmt_stub(_: core::fmt::Arguments<'_>) -> String {
    String::new()
}

/// Model of `Vec::push` without realloc, used as a Kani stub for the parse_digits harnesses. parse_digits pushes a
/// limb under the symbolic condition `carry > 0`; with the real `push` every later push explores `grow_one` with a
/// symbolic old and new size, and CBMC's symbolic-size realloc made the harnesses run out of memory (> 20 GB at 5
/// characters). The model grows at most once per call, to a buffer of the constant capacity 4, element by element.
#[cfg(kani)]
pub fn push_stub<T, A: std::alloc::Allocator>(v: &mut Vec<T, A>, value: T) {
    const CAP: usize = 4;
    let len = v.len();
    if len == v.capacity() {
        assert!(len < CAP, "harness bound: vector longer than 4 elements");
        unsafe {
            let a: A = core::ptr::read(v.allocator());
            let mut nv: Vec<T, A> = Vec::with_capacity_in(CAP, a);
            let mut i = 0;
            while i < CAP {
                if i < len { nv.as_mut_ptr().add(i).write(v.as_ptr().add(i).read()); }
                i += 1;
            }
            nv.set_len(len);
            v.set_len(0);
            let old = core::mem::replace(v, nv);
            drop(old);
        }
    }
    unsafe {
        v.as_mut_ptr().add(len).write(value);
        v.set_len(len + 1);
    }
}

/// the bytes as &str; precondition: all bytes < 128 (ASCII is valid UTF-8). Under Kani the validation of
/// `from_utf8` is skipped (its word-at-a-time scan cost 20 s per call in CBMC); the replay build checks it.
fn ascii(b: &[u8]) -> &str {
    #[cfg(kani)]
    { unsafe { core::str::from_utf8_unchecked(b) } }
    #[cfg(not(kani))]
    { core::str::from_utf8(b).expect("REPLAY: harness strings are ASCII") }
}

/// N characters drawn from `table` by symbolic indices, and a symbolic length n <= N
fn table_string<const N: usize, const T: usize>(table: &[u8; T]) -> ([u8; N], usize) {
    let mut s = [0u8; N];
    let mut i = 0;
    while i < N {
        let k: u8 = any();
        assume((k as usize) < T);
        s[i] = table[k as usize];
        i += 1;
    }
    let n: usize = any();
    assume(n <= N);
    (s, n)
}

/// value of a (hexa)decimal digit character
fn digit_val(c: u8) -> Option<u64> {
    if c >= b'0' && c <= b'9' { Some((c - b'0') as u64) }
    else if c >= b'a' && c <= b'f' { Some((c - b'a') as u64 + 10) }
    else if c >= b'A' && c <= b'F' { Some((c - b'A') as u64 + 10) }
    else { None }
}

/// the limb vector denotes v (little-endian limbs, trailing zero limbs allowed, at most 4 limbs)
fn denotes(l: &Vec<u64>, v: u128) -> bool {
    let n = l.len();
    if n > 4 { return false; }
    let mut ok = true;
    let mut i = 0;
    while i < 4 {
        let want = if i == 0 { v as u64 } else if i == 1 { (v >> 64) as u64 } else { 0 };
        let got = if i < n { l[i] } else { 0 };
        if got != want { ok = false; }
        i += 1;
    }
    ok
}

// ---------------------------------------------------------------- parse_digits
fn pd_short<const N: usize>() {
    let (s, n) = table_string::<N, 16>(&PD_TABLE);
    let (base, start) = if n >= 2 && s[0] == b'0' && s[1] == b'x' { (16u64, 2usize) }
        else if n >= 2 && s[0] == b'0' && s[1] == b'o' { (8, 2) }
        else if n >= 2 && s[0] == b'0' && s[1] == b'b' { (2, 2) }
        else { (10, 0) };
    let mut valid = true;
    let mut value: u64 = 0;
    let mut i = 0;
    while i < N {
        if i >= start && i < n && s[i] != b'_' {
            match digit_val(s[i]) {
                Some(d) if d < base => value = value * base + d,
                _ => valid = false,
            }
        }
        i += 1;
    }
    match parse_digits(ascii(&s[..n])) {
        Ok(l) => {
            assert!(valid, "parse_digits: Ok only when every character is '_' or a digit < base");
            assert!(denotes(&l, value as u128), "parse_digits: limbs denote the value of the digits");
        }
        Err(_) => assert!(!valid, "parse_digits: Err only for an invalid character / digit >= base"),
    }
}

/// N in 20..=22: the first N characters of "1844674407370955161500" with the LAST K replaced by symbolic decimal
/// digits. (The limbs live on the heap and are not constant-propagated by CBMC, so after the first symbolic digit
/// every character explores a push and unwinds the limb loop to the harness bound: symbolic digits are affordable
/// at the end of the string only; with symbolic digits at positions 0 and 10 the harness did not finish in 900 s.)
fn pd_carry_dec<const N: usize, const K: usize>() {
    let base: &[u8; 22] = b"1844674407370955161500";
    let mut s = [0u8; N];
    let mut i = 0;
    while i < N { s[i] = base[i]; i += 1; }
    let d: [u8; K] = any();
    let mut i = 0;
    while i < K { assume(d[i] < 10); s[N - K + i] = b'0' + d[i]; i += 1; }
    let mut v: u128 = 0;
    let mut i = 0;
    while i < N { v = v * 10 + (s[i] - b'0') as u128; i += 1; }
    match parse_digits(ascii(&s)) {
        Ok(l) => assert!(denotes(&l, v), "parse_digits: multi-limb decimal value"),
        Err(_) => assert!(false, "parse_digits: decimal digits rejected"),
    }
}

/// "0x" + 17 hex digits (68 bits, two limbs), the last one symbolic over 0-9a-fA-F
fn pd_carry_hex() {
    let mut s: [u8; 19] = *b"0xfFfFfFfFfFfFfFfFf";
    let k: u8 = any();
    assume(k < 22);
    s[18] = HEX_TABLE[k as usize];
    let mut v: u128 = 0;
    let mut i = 2;
    while i < 19 {
        match digit_val(s[i]) { Some(d) => v = v * 16 + d as u128, None => assert!(false, "harness: hex digit") }
        i += 1;
    }
    match parse_digits(ascii(&s)) {
        Ok(l) => assert!(denotes(&l, v), "parse_digits: multi-limb hexadecimal value"),
        Err(_) => assert!(false, "parse_digits: hexadecimal digits rejected"),
    }
}

// ---------------------------------------------------------------- pad_limbs
// CBMC cost note: a `Vec::push` on a vector whose length is not a constant during symbolic execution explores
// `grow_one` -> realloc with a symbolic size; one such harness (n = 2, bits symbolic) needed 11 M variables / 166 s,
// the full one (n <= 4 symbolic) ran out of memory. pad_limbs pops and pushes, so the harnesses below keep the
// vector length constant along every explored path: `bits`, the length n and the number z of literal-zero top limbs
// are dispatched to constants; a top limb that must be NON-zero (the "too long" class, result None whatever its
// value) is taken from three constants. All other limb contents are symbolic.
const PAD_TOP: [u64; 3] = [1, 1 << 63, u64::MAX];

/// contract of pad_limbs on the first n limbs of `lim`
fn pad_check(lim: &[u64; 4], n: usize, bits: usize) {
    let mut v: Vec<u64> = Vec::with_capacity(8);
    let mut i = 0;
    while i < n { v.push(lim[i]); i += 1; }
    // value < 2^bits, limb by limb
    let mut fits = true;
    let mut i = 0;
    while i < n {
        if 64 * i >= bits { if lim[i] != 0 { fits = false; } }
        else if bits - 64 * i < 64 { if (lim[i] >> (bits - 64 * i)) != 0 { fits = false; } }
        i += 1;
    }
    let want_len = bits / 64 + (bits % 64 != 0) as usize;
    match pad_limbs(bits, v) {
        None => assert!(!fits, "pad_limbs: None only when the value >= 2^bits"),
        Some(out) => {
            assert!(fits, "pad_limbs: Some only when the value < 2^bits");
            assert!(out.len() == want_len, "pad_limbs: exactly ceil(bits/64) limbs");
            let mut i = 0;
            while i < 4 {
                if i < want_len {
                    assert!(out[i] == if i < n { lim[i] } else { 0 }, "pad_limbs: same value");
                }
                i += 1;
            }
        }
    }
}

/// one constant `bits`; n <= 4; see the cost note for the classes of limb contents
fn pad_bits(bits: usize) {
    let arr: [u64; 4] = any();
    let sel: [u8; 3] = any(); // n, z, top-constant index
    let nl = (bits + 63) / 64;
    let mut n = 0;
    while n <= 4 {
        if n <= nl {
            // nothing to remove: all contents symbolic
            if sel[0] as usize == n { pad_check(&arr, n, bits); }
        } else {
            let mut z = 0;
            while z <= n - nl {
                let mut lim = arr;
                let mut i = n - z;
                while i < n { lim[i] = 0; i += 1; }
                if z == n - nl {
                    // exactly the superfluous limbs are zero: the rest is symbolic
                    if sel[0] as usize == n && sel[1] as usize == z { pad_check(&lim, n, bits); }
                } else {
                    // a non-zero limb at an index >= ceil(bits/64): too large
                    let mut c = 0;
                    while c < 3 {
                        lim[n - z - 1] = PAD_TOP[c];
                        if sel[0] as usize == n && sel[1] as usize == z && sel[2] as usize == c { pad_check(&lim, n, bits); }
                        c += 1;
                    }
                }
                z += 1;
            }
        }
        n += 1;
    }
}

/// bits == 0 (no limbs at all): n <= 4 symbolic limbs, all contents symbolic (Some([]) iff all limbs are zero)
fn pad_w0() {
    let arr: [u64; 4] = any();
    let n: usize = any();
    assume(n <= 4);
    let mut k = 0;
    while k <= 4 {
        if n == k { pad_check(&arr, k, 0); }
        k += 1;
    }
}

/// the empty limb vector at every bits in 0..=192: ceil(bits/64) zero limbs
fn pad_empty() {
    let bits: usize = any();
    assume(bits <= 192);
    pad_check(&[0u64; 4], 0, bits);
}

// ---------------------------------------------------------------- parse_suffix
/// fixed: the length is exactly N (a constant during symbolic execution: cheaper), otherwise symbolic in 0..=N
fn suffix<const N: usize>(fixed: bool) {
    let (s, n) = table_string::<N, 11>(&PS_TABLE);
    let n = if fixed { N } else { n };
    // last 'U' or 'B'
    let mut pos = N; // N = none
    let mut i = 0;
    while i < N {
        if i < n && (s[i] == b'U' || s[i] == b'B') { pos = i; }
        i += 1;
    }
    let mut some = pos < N;
    let mut bits = 0usize;
    if some {
        if pos + 1 >= n { some = false; } // no digits
        let mut i = 0;
        while i < N {
            if i > pos && i < n {
                if s[i] >= b'0' && s[i] <= b'9' { bits = bits * 10 + (s[i] - b'0') as usize; } else { some = false; }
            }
            i += 1;
        }
        let is_b = s[pos] == b'B';
        let hex = pos >= 2 && s[0] == b'0' && s[1] == b'x';
        let under = pos >= 1 && s[pos - 1] == b'_';
        if is_b && hex && !under { some = false; }
    }
    match parse_suffix(ascii(&s[..n])) {
        None => assert!(!some, "parse_suffix: None only without a well-formed suffix (or for an ignored 0x..B<n>)"),
        Some((ty, b, value)) => {
            assert!(some, "parse_suffix: Some only for value ++ U|B ++ digits");
            assert!(ty == if s[pos] == b'U' { LiteralBaseType::Uint } else { LiteralBaseType::Bits }, "parse_suffix: base type");
            assert!(b == bits, "parse_suffix: bit count");
            assert!(value.len() == pos, "parse_suffix: value part is the text before the suffix letter");
            let vb = value.as_bytes();
            let mut i = 0;
            while i < N {
                if i < pos { assert!(vb[i] == s[i], "parse_suffix: value part unchanged"); }
                i += 1;
            }
        }
    }
}

crate::harnesses! {
    #[cfg_attr(kani, kani::unwind(7))] #[cfg_attr(kani, kani::stub(std::fmt::format, fmt_stub))] #[cfg_attr(kani, kani::stub(std::vec::Vec::push, push_stub))] fn c19_parse_digits_short() { pd_short::<5>() }
    #[cfg_attr(kani, kani::unwind(25))] #[cfg_attr(kani, kani::stub(std::fmt::format, fmt_stub))] #[cfg_attr(kani, kani::stub(std::vec::Vec::push, push_stub))] fn c19_parse_digits_carry_dec20() { pd_carry_dec::<20, 2>() }
    #[cfg_attr(kani, kani::unwind(25))] #[cfg_attr(kani, kani::stub(std::fmt::format, fmt_stub))] #[cfg_attr(kani, kani::stub(std::vec::Vec::push, push_stub))] fn c19_parse_digits_carry_dec21() { pd_carry_dec::<21, 1>() }
    #[cfg_attr(kani, kani::unwind(25))] #[cfg_attr(kani, kani::stub(std::fmt::format, fmt_stub))] #[cfg_attr(kani, kani::stub(std::vec::Vec::push, push_stub))] fn c19_parse_digits_carry_dec22() { pd_carry_dec::<22, 1>() }
    #[cfg_attr(kani, kani::unwind(22))] #[cfg_attr(kani, kani::stub(std::fmt::format, fmt_stub))] #[cfg_attr(kani, kani::stub(std::vec::Vec::push, push_stub))] fn c19_parse_digits_carry_hex() { pd_carry_hex() }
    #[cfg_attr(kani, kani::unwind(8))] fn c19_pad_limbs_b0() { pad_bits(0) }
    #[cfg_attr(kani, kani::unwind(8))] fn c19_pad_limbs_b1() { pad_bits(1) }
    #[cfg_attr(kani, kani::unwind(8))] fn c19_pad_limbs_b2() { pad_bits(2) }
    #[cfg_attr(kani, kani::unwind(8))] fn c19_pad_limbs_b8() { pad_bits(8) }
    #[cfg_attr(kani, kani::unwind(8))] fn c19_pad_limbs_b63() { pad_bits(63) }
    #[cfg_attr(kani, kani::unwind(8))] fn c19_pad_limbs_b64() { pad_bits(64) }
    #[cfg_attr(kani, kani::unwind(8))] fn c19_pad_limbs_b65() { pad_bits(65) }
    #[cfg_attr(kani, kani::unwind(8))] fn c19_pad_limbs_b100() { pad_bits(100) }
    #[cfg_attr(kani, kani::unwind(8))] fn c19_pad_limbs_b127() { pad_bits(127) }
    #[cfg_attr(kani, kani::unwind(8))] fn c19_pad_limbs_b128() { pad_bits(128) }
    #[cfg_attr(kani, kani::unwind(8))] fn c19_pad_limbs_b129() { pad_bits(129) }
    #[cfg_attr(kani, kani::unwind(8))] fn c19_pad_limbs_b191() { pad_bits(191) }
    #[cfg_attr(kani, kani::unwind(8))] fn c19_pad_limbs_b192() { pad_bits(192) }
    #[cfg_attr(kani, kani::unwind(7))] fn c19_pad_limbs_bits0() { pad_w0() }
    #[cfg_attr(kani, kani::unwind(7))] fn c19_pad_limbs_empty_vec() { pad_empty() }
    #[cfg_attr(kani, kani::unwind(10))] fn c19_parse_suffix_len0_5() { suffix::<5>(false) }
    #[cfg_attr(kani, kani::unwind(10))] fn c19_parse_suffix_len6() { suffix::<6>(true) }
    #[cfg_attr(kani, kani::unwind(10))] fn c19_parse_suffix_len7() { suffix::<7>(true) }
}

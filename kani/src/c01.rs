//! C01 — add / sub / neg are exact modulo 2^BITS; flags exact; abs_diff; Sum.
use crate::oracle as o;
use crate::sym::*;
use ruint::Uint;

fn add_sub_neg<const B: usize, const L: usize>() {
    let a = uint::<B, L>();
    let b = uint::<B, L>();
    let (al, bl) = (*a.as_limbs(), *b.as_limbs());
    // a + b
    let (raw, carry) = o::add(&al, &bl, false);
    let (want, over) = o::reduce(B, raw);
    let flag = carry || over;
    let (r, f) = a.overflowing_add(b);
    assert!(o::same(r.as_limbs(), &want), "overflowing_add value");
    assert!(f == flag, "overflowing_add flag");
    assert!(ueq(a.wrapping_add(b), r), "wrapping_add");
    assert!(opt_is(a.checked_add(b), flag, r), "checked_add");
    assert!(o::same(a.saturating_add(b).as_limbs(), &if flag { o::max_of::<L>(B) } else { want }), "saturating_add");
    assert!(ueq(a + b, r) && ueq(&a + b, r) && ueq(a + &b, r) && ueq(&a + &b, r), "Add operators");
    let mut t = a; t += b; assert!(ueq(t, r), "AddAssign");
    let mut t = a; t += &b; assert!(ueq(t, r), "AddAssign ref");
    // a - b
    let (raw, borrow) = o::sub(&al, &bl, false);
    let (want, _) = o::reduce(B, raw);
    let (r, f) = a.overflowing_sub(b);
    assert!(o::same(r.as_limbs(), &want), "overflowing_sub value");
    assert!(f == borrow, "overflowing_sub flag");
    assert!(borrow == o::lt(&al, &bl), "oracle self-check: borrow <=> a < b");
    assert!(ueq(a.wrapping_sub(b), r), "wrapping_sub");
    assert!(opt_is(a.checked_sub(b), borrow, r), "checked_sub");
    assert!(o::same(a.saturating_sub(b).as_limbs(), &if borrow { [0u64; L] } else { want }), "saturating_sub");
    assert!(ueq(a - b, r) && ueq(&a - b, r) && ueq(a - &b, r) && ueq(&a - &b, r), "Sub operators");
    let mut t = a; t -= b; assert!(ueq(t, r), "SubAssign");
    let mut t = a; t -= &b; assert!(ueq(t, r), "SubAssign ref");
    // |a - b|
    let want_abs = if o::lt(&al, &bl) { o::reduce(B, o::sub(&bl, &al, false).0).0 } else { want };
    assert!(o::same(a.abs_diff(b).as_limbs(), &want_abs), "abs_diff");
    // -a
    let (raw, _) = o::sub(&[0u64; L], &al, false);
    let (want, _) = o::reduce(B, raw);
    let nz = !o::is_zero(&al);
    let (r, f) = a.overflowing_neg();
    assert!(o::same(r.as_limbs(), &want), "overflowing_neg value");
    assert!(f == nz, "overflowing_neg flag");
    assert!(ueq(a.wrapping_neg(), r) && ueq(-a, r) && ueq(-&a, r), "wrapping_neg / Neg");
    assert!(opt_is(a.checked_neg(), nz, r), "checked_neg");
}

fn sum3<const B: usize, const L: usize>() {
    let xs: [Uint<B, L>; 3] = [uint::<B, L>(), uint::<B, L>(), uint::<B, L>()];
    let n: usize = any();
    assume(n <= 3);
    let (s1, _) = o::add(xs[0].as_limbs(), xs[1].as_limbs(), false);
    let (s2, _) = o::add(&s1, xs[2].as_limbs(), false);
    let want = match n { 0 => [0u64; L], 1 => *xs[0].as_limbs(), 2 => o::reduce(B, s1).0, _ => o::reduce(B, s2).0 };
    let by_val: Uint<B, L> = xs[..n].iter().copied().sum();
    let by_ref: Uint<B, L> = xs[..n].iter().sum();
    assert!(o::same(by_val.as_limbs(), &want), "Sum<Self>");
    assert!(o::same(by_ref.as_limbs(), &want), "Sum<&Self>");
}

crate::harnesses! {
    #[cfg_attr(kani, kani::unwind(6))] fn c01_arith_w0() { add_sub_neg::<0, 0>() }
    #[cfg_attr(kani, kani::unwind(6))] fn c01_arith_w1() { add_sub_neg::<1, 1>() }
    #[cfg_attr(kani, kani::unwind(6))] fn c01_arith_w8() { add_sub_neg::<8, 1>() }
    #[cfg_attr(kani, kani::unwind(6))] fn c01_arith_w60() { add_sub_neg::<60, 1>() }
    #[cfg_attr(kani, kani::unwind(6))] fn c01_arith_w64() { add_sub_neg::<64, 1>() }
    #[cfg_attr(kani, kani::unwind(6))] fn c01_arith_w65() { add_sub_neg::<65, 2>() }
    #[cfg_attr(kani, kani::unwind(6))] fn c01_arith_w128() { add_sub_neg::<128, 2>() }
    #[cfg_attr(kani, kani::unwind(6))] fn c01_arith_w192() { add_sub_neg::<192, 3>() }
    #[cfg_attr(kani, kani::unwind(6))] fn c01_arith_w250() { add_sub_neg::<250, 4>() }
    #[cfg_attr(kani, kani::unwind(6))] fn c01_arith_w256() { add_sub_neg::<256, 4>() }
    #[cfg_attr(kani, kani::unwind(6))] fn c01_sum_w65() { sum3::<65, 2>() }
    #[cfg_attr(kani, kani::unwind(6))] fn c01_sum_w8() { sum3::<8, 1>() }
}

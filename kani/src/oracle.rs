//! Reference arithmetic on little-endian limb arrays, independent of ruint.
//! Deliberately naive (ripple carry through u128, bit loops).

pub fn mask_of(bits: usize) -> u64 {
    if bits == 0 { 0 } else if bits % 64 == 0 { u64::MAX } else { (1u64 << (bits % 64)) - 1 }
}

/// a + b + cin over L limbs -> (sum limbs, carry out)
pub fn add<const L: usize>(a: &[u64; L], b: &[u64; L], cin: bool) -> ([u64; L], bool) {
    let mut r = [0u64; L];
    let mut c = cin as u128;
    let mut i = 0;
    while i < L {
        let s = a[i] as u128 + b[i] as u128 + c;
        r[i] = s as u64;
        c = s >> 64;
        i += 1;
    }
    (r, c != 0)
}

/// a - b - bin over L limbs -> (difference limbs mod 2^(64L), borrow out)
pub fn sub<const L: usize>(a: &[u64; L], b: &[u64; L], bin: bool) -> ([u64; L], bool) {
    let mut r = [0u64; L];
    let mut c = bin as i128;
    let mut i = 0;
    while i < L {
        let s = a[i] as i128 - b[i] as i128 - c;
        r[i] = s as u64;
        c = if s < 0 { 1 } else { 0 };
        i += 1;
    }
    (r, c != 0)
}

/// reduce a raw L-limb value modulo 2^bits; second component: value >= 2^bits
pub fn reduce<const L: usize>(bits: usize, mut a: [u64; L]) -> ([u64; L], bool) {
    if L == 0 { return (a, false); }
    let m = mask_of(bits);
    let over = a[L - 1] > m;
    a[L - 1] &= m;
    (a, over)
}

pub fn lt<const L: usize>(a: &[u64; L], b: &[u64; L]) -> bool {
    let mut i = L;
    while i > 0 {
        i -= 1;
        if a[i] != b[i] { return a[i] < b[i]; }
    }
    false
}

pub fn is_zero<const L: usize>(a: &[u64; L]) -> bool {
    let mut i = 0;
    while i < L { if a[i] != 0 { return false; } i += 1; }
    true
}

pub fn bit<const L: usize>(a: &[u64; L], i: usize) -> bool {
    if i >= 64 * L { false } else { (a[i / 64] >> (i % 64)) & 1 == 1 }
}

pub fn set_bit<const L: usize>(a: &mut [u64; L], i: usize, v: bool) {
    if i < 64 * L {
        if v { a[i / 64] |= 1 << (i % 64); } else { a[i / 64] &= !(1 << (i % 64)); }
    }
}

pub fn max_of<const L: usize>(bits: usize) -> [u64; L] {
    let mut r = [u64::MAX; L];
    if L > 0 { r[L - 1] = mask_of(bits); }
    r
}

/// limb-wise equality (avoids memcmp, whose unwinding depends on the byte length)
pub fn same<const L: usize>(a: &[u64; L], b: &[u64; L]) -> bool {
    let mut i = 0;
    while i < L { if a[i] != b[i] { return false; } i += 1; }
    true
}

#!/bin/sh
# Offline setup after a fresh restore: nothing is fetched; warm the build caches the checks reuse.
set -e
cd "$(dirname "$0")"
export CARGO_NET_OFFLINE=true
mkdir -p build/units evidence/replay
[ -f kani/Cargo.lock ] || cp /repo/Cargo.lock kani/Cargo.lock
# warm Verus (first run loads vstd) and the replay binary; failures here do not matter for correctness
./vfx gen canary >/dev/null 2>&1 || true
( cd build/units && verus canary.rs >/dev/null 2>&1 ) || true
( cd kani && cargo build --offline --bin replay --target-dir ../build/replay-target >/dev/null 2>&1 ) || true
echo setup done

//! see Cargo.toml. Output: one line `MACRO-OK <case>` / `MACRO-FAIL <case>` per case.
#![allow(clippy::all, unused)]
use ruint::{uint, Bits, Uint};

macro_rules! via_expr { ($e:expr) => { uint!($e) }; }
macro_rules! via_lit { ($l:literal) => { uint!($l) }; }
macro_rules! via_lit_list { ($l:literal) => { uint!([$l, $l]) }; }
macro_rules! via_tt { ($($t:tt)*) => { uint!($($t)*) }; }

/// runtime parsing of the same digits (the oracle of the property)
fn rt<const B: usize, const L: usize>(digits: &str, radix: u64) -> Uint<B, L> {
    Uint::<B, L>::from_str_radix(digits, radix).expect("oracle digits parse")
}
fn rtb<const B: usize, const L: usize>(digits: &str, radix: u64) -> Bits<B, L> {
    Bits::<B, L>::from(rt::<B, L>(digits, radix))
}
fn pass_through(a: u64) -> u64 { a }

fn main() {
    let mut fails = 0u32;
    macro_rules! case {
        ($name:literal, $got:expr, $want:expr) => {{
            let got = $got;
            let want = $want;
            if got == want { println!("MACRO-OK {}", $name); } else { println!("MACRO-FAIL {} got {:?} want {:?}", $name, got, want); fails += 1; }
        }};
    }
    // ---- bases, underscores, widths (the type annotation pins the width the macro must produce)
    case!("decimal U8", { let x: Uint<8, 1> = uint!(255_U8); x }, rt::<8, 1>("255", 10));
    case!("decimal zero U0", { let x: Uint<0, 0> = uint!(0_U0); x }, rt::<0, 0>("0", 10));
    case!("decimal U1", { let x: Uint<1, 1> = uint!(1_U1); x }, rt::<1, 1>("1", 10));
    case!("decimal underscores U64", { let x: Uint<64, 1> = uint!(18_446_744_073_709_551_615_U64); x }, rt::<64, 1>("18446744073709551615", 10));
    case!("decimal 2 limbs U65", { let x: Uint<65, 2> = uint!(36893488147419103231_U65); x }, rt::<65, 2>("36893488147419103231", 10));
    case!("decimal U256", { let x: Uint<256, 4> = uint!(115792089237316195423570985008687907853269984665640564039457584007913129639935_U256); x },
          rt::<256, 4>("115792089237316195423570985008687907853269984665640564039457584007913129639935", 10));
    case!("hex lower U16", { let x: Uint<16, 1> = uint!(0xab_U16); x }, rt::<16, 1>("ab", 16));
    case!("hex upper with B digit U16", { let x: Uint<16, 1> = uint!(0xAB_U16); x }, rt::<16, 1>("AB", 16));
    case!("hex upper B digits U80", { let x: Uint<80, 2> = uint!(0xDEAD_BEEF_0000_0000_BBBB_U80); x }, rt::<80, 2>("DEADBEEF00000000BBBB", 16));
    case!("hex mixed U128", { let x: Uint<128, 2> = uint!(0xffff_FFFF_0000_0001_8000_0000_0000_0000_U128); x }, rt::<128, 2>("ffffFFFF00000001" .to_owned().as_str().to_owned().as_str(), 16) << 64 | rt::<128, 2>("8000000000000000", 16));
    case!("octal U9", { let x: Uint<9, 1> = uint!(0o777_U9); x }, rt::<9, 1>("777", 8));
    case!("binary U5", { let x: Uint<5, 1> = uint!(0b1_0101_U5); x }, rt::<5, 1>("10101", 2));
    case!("binary 65 bits U65", { let x: Uint<65, 2> = uint!(0b1_0000000000000000_0000000000000000_0000000000000000_0000000000000001_U65); x }, rt::<65, 2>("10000000000000000000000000000000000000000000000000000000000000001", 2));
    // ---- Bits suffix, incl. the hex/B ambiguity rule
    case!("Bits decimal B8", { let x: Bits<8, 1> = uint!(165_B8); x }, rtb::<8, 1>("165", 10));
    case!("Bits hex 0xB0_B8", { let x: Bits<8, 1> = uint!(0xB0_B8); x }, rtb::<8, 1>("B0", 16));
    case!("Bits binary B8", { let x: Bits<8, 1> = uint!(0b1010_0101_B8); x }, rtb::<8, 1>("10100101", 2));
    // ---- nesting: delimiters, calls, operators, blocks
    case!("parentheses", uint!((1_U8 + 2_U8)), rt::<8, 1>("3", 10));
    case!("array", uint!([1_U8, 0x10_U8])[1], rt::<8, 1>("16", 10));
    case!("block with statements", uint! { { let a = 7_U8; let b = 0b11_U8; a * b } }, rt::<8, 1>("21", 10));
    case!("call argument", uint!(core::convert::identity(200_U8)), rt::<8, 1>("200", 10));
    case!("nested groups", uint!(((([(250_U8)])))[0]), rt::<8, 1>("250", 10));
    case!("tuple", uint!((1_U8, 0x1_0000_0000_0000_0000_U65)).1, rt::<65, 2>("18446744073709551616", 10));
    // ---- literals reaching the macro through macro_rules fragments (invisible groups) and tt forwarding
    case!("via $e:expr", via_expr!(0x1_0000_0000_0000_0001_U65 + 1_U65), rt::<65, 2>("18446744073709551618", 10));
    case!("via $l:literal", via_lit!(0b1010_0101_U8), rt::<8, 1>("165", 10));
    case!("via $l:literal list", via_lit_list!(77_U7)[1], rt::<7, 1>("77", 10));
    case!("via $t:tt", via_tt!(3_U8 * 5_U8), rt::<8, 1>("15", 10));
    // ---- everything else passes through untouched
    case!("plain integers untouched", uint!(pass_through(1u64 + 0x10 + 0b1)), 18u64);
    case!("plain suffixed integer untouched", uint!(255_u8 as u64 + 1_u64), 256u64);
    case!("identifiers untouched", { type U8 = Uint<8, 1>; uint!(U8::MAX) }, rt::<8, 1>("255", 10));
    case!("strings untouched", uint!("1_U8".len()), 4usize);
    case!("float untouched", uint!(1.5_f64 * 2.0), 3.0f64);
    if fails == 0 { println!("MACRO-DONE all cases agree"); } else { println!("MACRO-DONE {} failures", fails); }
}

// ---- literals that must be rejected at compile time (one per feature; the build is expected to fail at this line).
// Only digits rustc's own lexer lets through can be tried: `0b2`, `0o8` never reach the macro; a decimal literal followed by
// letters does (`1a_U8` is the literal `1` with suffix `a_U8`: the digit `a` equals the base, `9f_U16` has a digit above it).
#[cfg(feature = "bad_digit")]
fn bad_digit() -> Uint<16, 1> { uint!(9f_U16) }
#[cfg(feature = "bad_range")]
fn bad_range() -> Uint<8, 1> { uint!(256_U8) }
#[cfg(feature = "bad_digit_eq_base")]
fn bad_digit_eq_base() -> Uint<8, 1> { uint!(1a_U8) }
#[cfg(feature = "bad_range_bits")]
fn bad_range_bits() -> Bits<4, 1> { uint!(0x10_B4) }

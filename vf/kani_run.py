"""Run Kani harnesses of the harness crate (which path-depends on /repo) and replay
counterexamples natively against the real code."""
import os
import re
import signal
import subprocess
import time

VERIF = os.path.dirname(os.path.dirname(os.path.abspath(__file__)))
KANI_DIR = os.path.join(VERIF, "kani")
NOISE = re.compile(r"unstable|register_tool|^\s*\||^\s*-->|^\s*$|= note|^warning")


def _env():
    e = dict(os.environ)
    e["CARGO_NET_OFFLINE"] = "true"
    e.setdefault("CARGO_TERM_COLOR", "never")
    return e


def _run(cmd, timeout, cwd=KANI_DIR):
    """run in its own process group; kill the whole group on timeout (cbmc survives otherwise)"""
    p = subprocess.Popen(cmd, cwd=cwd, stdout=subprocess.PIPE, stderr=subprocess.STDOUT, text=True,
                         start_new_session=True, env=_env())
    try:
        out, _ = p.communicate(timeout=timeout)
        return p.returncode, out, False
    except subprocess.TimeoutExpired:
        try:
            os.killpg(p.pid, signal.SIGKILL)
        except ProcessLookupError:
            pass
        out, _ = p.communicate()
        return -9, out, True


def ensure_lock():
    lock = os.path.join(KANI_DIR, "Cargo.lock")
    if not os.path.exists(lock):
        src = "/repo/Cargo.lock"
        if os.path.exists(src):
            import shutil
            shutil.copy(src, lock)


def parse_blocks(out):
    """per-harness verdicts from the streamed output: 'Thread N: Checking harness X...' announces, a bare 'Thread N: ' line
    starts that harness's result block. returns {harness: 'ok'|'failed'|'timeout'}"""
    cur = {}      # thread -> harness
    res = {}
    active = None
    for line in out.split("\n"):
        m = re.match(r"\s*Thread (\d+): Checking harness (\S+?)\.\.\.\s*$", line)
        if m:
            cur[m.group(1)] = m.group(2)
            active = None
            continue
        m = re.match(r"\s*Thread (\d+):\s*$", line)
        if m:
            active = cur.get(m.group(1))
            continue
        if re.match(r"\s*Thread \d+:", line):
            active = None
            continue
        if active is None:
            # single-threaded runs print 'Checking harness X...' without a thread prefix
            m = re.match(r"\s*Checking harness (\S+?)\.\.\.\s*$", line)
            if m:
                active = m.group(1)
            continue
        if "VERIFICATION:- SUCCESSFUL" in line:
            res.setdefault(active, "ok")
        elif "VERIFICATION:- FAILED" in line:
            if res.get(active) != "timeout":
                res[active] = "failed"
        elif "CBMC timed out" in line or "out of memory" in line.lower():
            res[active] = "timeout"
    return res


def run_harnesses(harnesses, features=None, jobs=16, timeout=1500, extra=(), harness_timeout=None):
    """one cargo-kani invocation for all harnesses; returns dict name -> 'ok'|'failed'|'undecided'
    plus the raw log. A harness that exceeds harness_timeout (CBMC timed out) is undecided, never failed;
    when the whole run is cut off, harnesses that had already finished keep their verdict."""
    ensure_lock()
    t0 = time.time()
    cmd = ["cargo", "kani", "--output-format", "terse", "-j", str(jobs), "--exact"]
    if harness_timeout:
        cmd += ["-Z", "unstable-options", "--harness-timeout", "%ds" % int(harness_timeout)]
    if features:
        cmd += ["--features", features]
    for h in harnesses:
        cmd += ["--harness", h]
    cmd += list(extra)
    rc, out, timed_out = _run(cmd, timeout)
    log = "\n".join(l for l in out.split("\n") if not NOISE.search(l))
    status = {}
    blocks = parse_blocks(out)
    failed = set(m.group(1).strip() for m in re.finditer(r"Verification failed for - (\S+)", out))
    m = re.search(r"Complete - (\d+) successfully verified harnesses, (\d+) failures, (\d+) total", out)
    nochecks = re.search(r"error: Failed to match the following harness|error\[E|could not compile|error: no harnesses matched", out)
    timeouts = [h for h in harnesses if blocks.get(h) == "timeout"]
    if m and not timed_out and not nochecks:
        total = int(m.group(3))
        for h in harnesses:
            if blocks.get(h) == "timeout":
                status[h] = "undecided"
            else:
                status[h] = "failed" if h in failed else "ok"
        if total != len(harnesses):
            for h in harnesses:
                if status[h] == "ok":
                    status[h] = "undecided"
    else:
        for h in harnesses:
            b = blocks.get(h)
            if nochecks:
                status[h] = "undecided"
            elif b == "failed" or (h in failed and b != "timeout"):
                status[h] = "failed"
            elif b == "ok" and timed_out:
                status[h] = "ok"          # finished before the run was cut off
            else:
                status[h] = "undecided"
    checks = sum(int(x) for x in re.findall(r"\*\* \d+ of (\d+) failed", out))
    covers = re.findall(r"\*\* (\d+) of (\d+) cover properties satisfied", out)
    return {"status": status, "log": log, "timed_out": timed_out, "rc": rc, "wall_s": time.time() - t0,
            "cbmc_checks": checks, "covers_satisfied": sum(int(a) for a, b in covers), "covers_total": sum(int(b) for a, b in covers),
            "cmd": " ".join(cmd[:8]) + " ... (%d harnesses)" % len(harnesses),
            "compile_error": bool(nochecks), "harness_timeouts": timeouts}


def diagnose(harness, features=None, timeout=900):
    """re-run one failed harness alone with concrete playback; returns
    {failed_checks:[..], unwinding:bool, values:[hex,...] or None, log}"""
    cmd = ["cargo", "kani", "--output-format", "terse", "--exact", "--harness", harness,
           "-Z", "concrete-playback", "--concrete-playback=print"]
    if features:
        cmd += ["--features", features]
    rc, out, timed_out = _run(cmd, timeout)
    log = "\n".join(l for l in out.split("\n") if not NOISE.search(l))
    failed_checks = re.findall(r'Failed Checks: (.*)', out)
    unwinding = any("unwinding assertion" in f for f in failed_checks)
    real = [f for f in failed_checks if "unwinding assertion" not in f]
    values = None
    # first playback block that belongs to an assertion (not a cover)
    for blk in re.finditer(r"Check for `([^`]*)`: (.*?)\n(.*?)kani::concrete_playback_run", out, re.S):
        kind = blk.group(1)
        if kind == "cover":
            continue
        vecs = re.findall(r"vec!\[([0-9, ]*)\]", blk.group(3))
        vals = []
        for v in vecs:
            bs = [int(x) for x in v.replace(" ", "").split(",") if x != ""]
            vals.append("".join("%02x" % b for b in bs))
        values = vals
        break
    if harness.endswith("_must_panic") and unwinding and not real:
        real = ["the call returned although it must panic (unwinding failure of the post-call sentinel loop)"]
        unwinding = False
    return {"failed_checks": real, "unwinding": unwinding and not real, "values": values, "log": log,
            "timed_out": timed_out, "still_fails": "VERIFICATION:- FAILED" in out}


def build_replay(features=None, timeout=900):
    cmd = ["cargo", "build", "--offline", "--bin", "replay", "--target-dir", os.path.join(VERIF, "build", "replay-target")]
    if features:
        cmd += ["--features", features]
    rc, out, to = _run(cmd, timeout)
    return rc == 0, out


def replay(harness, values, features=None):
    """run the harness body natively on the concrete values; returns (outcome, text)
    outcome in {'violated','holds','invalid','error'}"""
    ok, out = build_replay(features)
    if not ok:
        return "error", out[-2000:]
    exe = os.path.join(VERIF, "build", "replay-target", "debug", "replay")
    short = harness.split("::")[-1]
    p = subprocess.run([exe, short, ",".join(values or [])], capture_output=True, text=True, timeout=300)
    txt = (p.stdout + p.stderr).strip()
    if short.endswith("_must_panic"):
        # the contract is "the call panics": violated iff it returned (or nothing panicked at all)
        if "the call returned although it must panic" in txt or p.returncode == 0:
            return "violated", txt
        if "outcome=VIOLATED" in txt:
            return "holds", txt + "\n(the expected panic occurred)"
    if p.returncode == 1 and "outcome=VIOLATED" in txt:
        return "violated", txt
    if p.returncode == 0:
        return "holds", txt
    if p.returncode == 3:
        return "invalid", txt
    return "error", txt


def sweep(harnesses, runs, features=None, timeout=1800):
    """native sweep (bounded): run every harness body natively on `runs` generated inputs (boundary-word palette plus pseudo-random
    words, see kani/src/sym.rs) against /repo; returns dict(status, results={harness: (outcome, valid, invalid, values, message)})"""
    ok, out = build_replay(features)
    if not ok:
        return {"status": "error", "message": out[-1500:], "results": {}}
    exe = os.path.join(VERIF, "build", "replay-target", "debug", "replay")
    shorts = {}
    for h in harnesses:
        s_ = h.split("::")[-1]
        if s_.endswith("_must_panic") or s_.startswith("canary"):
            continue
        shorts[s_] = h
    if not shorts:
        return {"status": "ok", "results": {}}
    try:
        p = subprocess.run([exe, "--sweep", str(runs)] + sorted(shorts), capture_output=True, text=True, timeout=timeout)
    except subprocess.TimeoutExpired:
        return {"status": "timeout", "message": "native sweep timed out", "results": {}}
    res = {}
    for line in p.stdout.split("\n"):
        m = re.match(r"SWEEP harness=(\S+) outcome=holds valid=(\d+) invalid=(\d+)", line)
        if m and m.group(1) in shorts:
            res[shorts[m.group(1)]] = ("holds", int(m.group(2)), int(m.group(3)), None, "")
            continue
        m = re.match(r"SWEEP harness=(\S+) outcome=VIOLATED run=(\d+) values=(\S*) message=(.*)", line)
        if m and m.group(1) in shorts:
            vals = [v for v in m.group(3).split(",") if v]
            res[shorts[m.group(1)]] = ("violated", 0, 0, vals, m.group(4)[:400])
    status = "ok" if p.returncode in (0, 1) and len(res) == len(shorts) else "error"
    return {"status": status, "message": (p.stdout + p.stderr)[-600:] if status != "ok" else "", "results": res}

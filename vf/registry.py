"""Which obligations belong to which property (dependency closure of its contracts)."""

UNIT_RLIMIT = {}      # unit -> --rlimit
UNIT_TIMEOUT = {}     # unit -> seconds
UNIT_EXPECT = {       # unit -> minimum number of verified functions on the unchanged tree (vacuity guard)
    "core": 31,
}

COMMON_TRUST = [
    "Verus 0.2026.09.13 / Z3, Kani 0.68 / CBMC 6.11, rustc: trusted tools",
    "extraction (vf/): attributes, docs, visibility, constness are dropped; normalisations N1-N9 of DESIGN.md 3.2 are assumed meaning-preserving; ghost-erasure self-check ties the verified text to /repo's tokens",
    "target: x86-64 little endian, usize = 64 bit",
]

W_Q = ["w0", "w1", "w8", "w60", "w64", "w65", "w128", "w192"]
W_T = W_Q + ["w250", "w256"]

HOOK_COMMITS = []
NOT_APPLICABLE = {}

PROPS = {
    "C01": dict(
        level="proof",
        level_text="Verus discharges value/flag/canonicity contracts of overflowing_add/sub/neg and all checked/saturating/wrapping wrappers for every BITS and LIMBS "
                   "on the functions re-extracted from /repo each run; Kani proves the same contract for every entry point (methods, all operator shapes, Sum) per width",
        level_note="assumed: u64::overflowing_add/sub specifications (cross-checked full-domain by Kani), the extraction normalisations, the tools; "
                   "Sum/iterator fold only bounded (<= 3 elements); operator impls are checked per width by Kani, not by Verus",
        technique="deductive contracts (Verus, all widths) + Kani per-width contract harnesses with replayed counterexamples",
        units=["core", "add"],
        kani=dict(
            features=None,
            quick=["c01::c01_arith_" + w for w in ["w0", "w1", "w60", "w64", "w65", "w128"]] + ["c01::c01_sum_w65"],
            thorough=["c01::c01_arith_" + w for w in W_T] + ["c01::c01_sum_w65", "c01::c01_sum_w8"],
            bounds="per width: all operand pairs, loops closed by LIMBS (complete); Sum: slices of <= 3 elements (bounded)",
        ),
        explanation="overflowing_add/sub/neg and their wrappers carry Verus contracts over val() = limb value for ALL BITS/LIMBS; "
                    "Kani re-checks every entry point (methods, six operator shapes, Sum) per width against a ripple-carry oracle and supplies counterexamples",
        trusted=COMMON_TRUST + ["std Iterator::fold / copied (Sum is checked by Kani on slices of length <= 3 only)"],
        not_decided=["Sum over iterators longer than 3 (follows by induction from wrapping_add's contract; the induction over std's fold is not mechanised)"],
    ),
}

"""Which obligations belong to which property (dependency closure of its contracts)."""

UNIT_RLIMIT = {}      # unit -> --rlimit
UNIT_TIMEOUT = {}     # unit -> seconds
UNIT_EXPECT = {       # unit -> minimum number of verified functions on the unchanged tree (vacuity guard)
    "core": 31, "add": 29, "kernels": 79, "addmul": 71, "addmul_n": 73, "mul": 51,
}

COMMON_TRUST = [
    "Verus 0.2026.09.13 / Z3, Kani 0.68 / CBMC 6.11, rustc: trusted tools",
    "extraction (vf/): attributes, docs, visibility, constness are dropped; normalisations N1-N9 of DESIGN.md 3.2 are assumed meaning-preserving; ghost-erasure self-check ties the verified text to /repo's tokens",
    "target: x86-64 little endian, usize = 64 bit",
]

import os as _os
import re as _re

_KDIR = _os.path.join(_os.path.dirname(_os.path.dirname(_os.path.abspath(__file__))), "kani", "src")


def hs(module, include=None, exclude=None):
    """harness names declared in kani/src/<module>.rs, filtered by regex"""
    try:
        src = open(_os.path.join(_KDIR, module + ".rs")).read()
    except OSError:
        return []
    i = src.find("crate::harnesses!")
    names = _re.findall(r"fn\s+(%s_[A-Za-z0-9_]+)\s*\(\)" % _re.escape(module.rstrip("p")), src[i:]) if i >= 0 else []
    out = []
    for n in names:
        if include and not _re.search(include, n):
            continue
        if exclude and _re.search(exclude, n):
            continue
        out.append("%s::%s" % (module, n))
    return out


W_Q = ["w0", "w1", "w8", "w60", "w64", "w65", "w128", "w192"]
W_T = W_Q + ["w250", "w256"]

HOOK_COMMITS = []
NOT_APPLICABLE = {}

PROPS = {
    "C01": dict(
        level="proof",
        level_text="Verus discharges value/flag/canonicity contracts of overflowing_add/sub/neg and all checked/saturating/wrapping wrappers for every BITS and LIMBS "
                   "on the functions re-extracted from /repo each run; Kani proves the same contract for every entry point (methods, all operator shapes, Sum) per width",
        level_note="assumed: u64::overflowing_add/sub specifications (cross-checked full-domain by Kani), the extraction normalisations, the tools; "
                   "Sum/iterator fold only bounded (<= 3 elements); operator impls are checked per width by Kani, not by Verus",
        technique="deductive contracts (Verus, all widths) + Kani per-width contract harnesses with replayed counterexamples",
        units=["core", "add"],
        kani=dict(
            features=None,
            quick=["c01::c01_arith_" + w for w in ["w0", "w1", "w60", "w64", "w65", "w128"]] + ["c01::c01_sum_w65"],
            thorough=["c01::c01_arith_" + w for w in W_T] + ["c01::c01_sum_w65", "c01::c01_sum_w8"],
            bounds="per width: all operand pairs, loops closed by LIMBS (complete); Sum: slices of <= 3 elements (bounded)",
        ),
        explanation="overflowing_add/sub/neg and their wrappers carry Verus contracts over val() = limb value for ALL BITS/LIMBS; "
                    "Kani re-checks every entry point (methods, six operator shapes, Sum) per width against a ripple-carry oracle and supplies counterexamples",
        trusted=COMMON_TRUST + ["std Iterator::fold / copied (Sum is checked by Kani on slices of length <= 3 only)"],
        not_decided=["Sum over iterators longer than 3 (follows by induction from wrapping_add's contract; the induction over std's fold is not mechanised)"],
    ),
    "C15": dict(
        level="proof",
        level_text="Verus proves, for all slice lengths and contents, the exact integer contracts (result limbs plus carry/borrow word, or overflow flag) of adc, sbb, adc_n, sbb_n, "
                   "mac, mul_nx1, addmul_nx1, submul_nx1, cmp, the DoubleWord helpers and the general addmul (zero trimming, sliding window, truncation) on the functions re-extracted from /repo; "
                   "Kani proves the linear kernels (adc_n, sbb_n, add_nx1, shifts, cmp) per length and supplies counterexamples",
        level_note="assumed in Verus: add_nx1's contract (early return inside an iter_mut loop; discharged per length <= 6 by Kani), slice length stability axiom, "
                   "core integer specs (u64::overflowing_add/sub, wrapping_neg, i8::from(bool), cmp::min); shift_left_small/shift_right_small and add_nx1 are decided by Kani only (lengths 0,1,3,6: complete per length); "
                   "addmul_n and its private unrolled kernels addmul_1..4 are proved in unit addmul_n",
        technique="deductive contracts (Verus, all lengths) + Kani per-length contract harnesses",
        units=["kernels", "addmul", "addmul_n"],
        kani=dict(
            features=None,
            quick=["c15::c15_adc_sbb_n0", "c15::c15_adc_sbb_n1", "c15::c15_adc_sbb_n3", "c15::c15_adc_sbb_n6",
                   "c15::c15_add_nx1_n0", "c15::c15_add_nx1_n1", "c15::c15_add_nx1_n3", "c15::c15_add_nx1_n6",
                   "c15::c15_shift_n0", "c15::c15_shift_n1", "c15::c15_shift_n3", "c15::c15_shift_n6",
                   "c15::c15_cmp_n0", "c15::c15_cmp_n1", "c15::c15_cmp_n4", "c15::c15_nx1_n0"],
            thorough=["c15::c15_adc_sbb_n0", "c15::c15_adc_sbb_n1", "c15::c15_adc_sbb_n3", "c15::c15_adc_sbb_n6", "c15::c15_adc_sbb_n10",
                   "c15::c15_add_nx1_n0", "c15::c15_add_nx1_n1", "c15::c15_add_nx1_n3", "c15::c15_add_nx1_n6",
                   "c15::c15_shift_n0", "c15::c15_shift_n1", "c15::c15_shift_n3", "c15::c15_shift_n6",
                   "c15::c15_cmp_n0", "c15::c15_cmp_n1", "c15::c15_cmp_n4", "c15::c15_cmp_n10", "c15::c15_nx1_n0",
                   "c15::c15_mul_nx1_n1", "c15::c15_addmul_nx1_n1", "c15::c15_submul_nx1_n1"],
            bounds="per fixed slice length: all contents, loops closed by the length (complete for that length); word multiplies only at length 1",
        ),
        explanation="every kernel of ruint::algorithms named by the property carries a Verus contract over lvr() = little-endian limb value; addmul's contract is the property's sentence "
                    "(value modulo 2^(64 len) and flag <=> true sum does not fit)",
        trusted=COMMON_TRUST,
        not_decided=["shift_left_small / shift_right_small and add_nx1 for slice lengths other than 0,1,3,6 (Kani per length only)"],
    ),
    "C02": dict(
        level="proof",
        level_text="Verus proves, for every BITS/LIMBS, that overflowing_mul/wrapping_mul/checked_mul/saturating_mul return a*b mod 2^BITS with the flag a*b >= 2^BITS and that widening_mul "
                   "returns the full product for every (BITS, BITS_RHS), modular over the proved contracts of addmul, addmul_n (incl. the unrolled addmul_1..4), addmul_nx1, mac and the DoubleWord helpers",
        level_note="assumed: add_nx1's contract (Kani per length), slice-length axiom, core integer specs; NOT decided: inv_ring for BITS > 8 (Wrapping<u64> Newton block and the operator-based lifting loop are "
                   "outside the Verus units; Kani: BITS 1, 8 (16 in thorough)), Product beyond 2 elements, the Mul/MulAssign operator impls (macro-generated forwards to wrapping_mul; checked by Kani for add/sub only)",
        technique="deductive contracts (Verus, all widths) over the real multiplication code; Kani for inv_ring/Product at tiny widths",
        units=["core", "kernels", "addmul", "addmul_n", "mul"],
        kani=dict(
            features=None,
            quick=["c02::c02_inv_ring_cond_w0", "c02::c02_inv_ring_w1", "c02::c02_inv_ring_w8", "c02::c02_product_w8", "c02::c02_mulc_zero_w128", "c02::c02_mulc_zero_w65", "c02::c02_mulc_zero_w192"],
            thorough=["c02::c02_inv_ring_cond_w0", "c02::c02_inv_ring_w1", "c02::c02_inv_ring_w8", "c02::c02_inv_ring_w16", "c02::c02_product_w8", "c02::c02_mulc_zero_w128", "c02::c02_mulc_zero_w65", "c02::c02_mulc_zero_w192"],
            timeout_thorough=3000,
            bounds="inv_ring: BITS in {0,1,8,16} all values; Product: <= 2 elements at 8 bits",
        ),
        explanation="the property's sentences about products are postconditions of the Uint methods over val(); every function between them and the u128 multiply is under contract",
        trusted=COMMON_TRUST,
        not_decided=["inv_ring above 16 bits", "iterator Product beyond 2 elements", "Mul/MulAssign operator shapes (forwarding only)"],
    ),
    "C07": dict(
        level="other",
        level_text="Kani proves, per width and for ALL values of the source type / all canonical Uint values, the exact Ok/Err classification, the payloads, and the wrapping/saturating forms of "
                   "every integer conversion entry point (13 primitive types in both directions, Uint-to-Uint for 9 width pairs, the limb-slice constructors for every length 0..LIMBS+2); "
                   "loops are closed by LIMBS, so each harness is complete for its width",
        level_note="per-width only (10 widths), no all-widths proof: TryFrom<u64>/<u128> are not yet under a Verus contract; limb slices longer than LIMBS+2 not covered; "
                   "should_panic harnesses prove that the panic is reachable and nothing else fails (plus an unreachable end-of-harness cover), not a universally quantified 'always panics'",
        technique="Kani contract harnesses (pre/postconditions on the compiled crate), complete per width; native replay of counterexamples",
        units=[],
        kani=dict(
            features=None,
            quick=hs("c07", r"_w(0|1|60|64|65|128)$|_uint_|_must_panic$"),
            thorough=hs("c07"),
            bounds="widths 0,1,8,60,64,65,100,128,129,192; slices of length 0..LIMBS+2",
        ),
        explanation="harness-level contracts: assume(type invariant), call, assert(postcondition from the property statement) against a u128 / limb-loop oracle",
        trusted=COMMON_TRUST,
        not_decided=["widths outside the grid", "limb slices longer than LIMBS+2"],
    ),
    "C08": dict(
        level="other",
        level_text="Kani proves, per width, that every byte encoder emits exactly the base-256 digits in the stated order and length (fixed, vector, borrowed, trimmed, copy-into-buffer incl. frame), "
                   "that try_from_le/be_slice accept exactly the byte strings of length <= BYTES denoting a value < 2^BITS (all strings up to BYTES+8 bytes, never panicking), and the round trips",
        level_note="per-width only (12 widths incl. 60, 63 and 72 where BYTES%8 and BITS%64 disagree); the code is raw-pointer slices, outside Verus; byte strings longer than BYTES+8 take the loop-free length exit",
        technique="Kani contract harnesses on the compiled crate (bit-precise for the unsafe pointer casts), complete per width",
        units=[],
        kani=dict(
            features=None,
            quick=hs("c08", r"_w(0|1|7|60|63|64|65|72)$|_must_panic$", r"trim_be_vec_w(63|64|65|72)"),
            thorough=hs("c08"),
            timeout_thorough=4000,
            bounds="widths 0,1,7,8,60,63,64,65,72,100,128,129; byte strings 0..BYTES+8; buffers 0..BYTES+3",
        ),
        explanation="harness-level contracts against digit oracles computed from the limbs",
        trusted=COMMON_TRUST,
        not_decided=["widths outside the grid"],
    ),
}

"""Which obligations belong to which property (dependency closure of its contracts)."""

DEFAULT_RLIMIT = 50


class _RL(dict):
    def get(self, k, d=None):
        return dict.get(self, k, DEFAULT_RLIMIT)


UNIT_RLIMIT = _RL({"div_small": 80, "mul_redc": 80})      # unit -> --rlimit (Verus default is 10; 5x head-room over the measured maximum)
UNIT_TIMEOUT = {"knuth": 1500, "addmul": 900, "mul_redc": 1200}     # unit -> seconds
UNIT_EXPECT = {       # unit -> minimum number of verified functions on the unchanged tree (vacuity guard)
    "core": 31, "add": 29, "kernels": 79, "addmul": 71, "addmul_n": 73, "mul": 51, "divd": 45, "div_small": 235, "knuth": 145, "mul_redc": 126, "basics": 22, "pow": 38, "divw": 54, "modular": 70, "spigot": 44, "gcd": 24, "forward": 57, "invring": 47, "bitlen": 81, "shifts": 131, "recip_table": 2, "gcdext": 67, "gcdw": 36, "bits": 78, "conv": 53, "lehmer": 38, "jebelean": 92, "logs": 27, "forward_shift": 81, "fmt_consts": 5, "rotate": 27, "popcount": 29, "conv_slice": 54, "conv_prim": 53, "absdiff": 15, "frombase": 71, "byteslice": 78, "padlimbs": 45, "addnx1": 37, "sumprod": 26, "trailing": 55, "cmpord": 39, "convgen": 20, "shr_raw": 78, "revbits": 49,
}

COMMON_TRUST = [
    "Verus 0.2026.09.13 / Z3, Kani 0.68 / CBMC 6.11, rustc: trusted tools",
    "extraction (vf/): attributes, docs, visibility, constness are dropped; normalisations N1-N9 of DESIGN.md 3.2 are assumed meaning-preserving; ghost-erasure self-check ties the verified text to /repo's tokens",
    "target: x86-64 little endian, usize = 64 bit",
]

import os as _os
import re as _re

_KDIR = _os.path.join(_os.path.dirname(_os.path.dirname(_os.path.abspath(__file__))), "kani", "src")


def hs(module, include=None, exclude=None):
    """harness names declared in kani/src/<module>.rs (incl. one level of `pub mod x { }`), filtered by regex"""
    try:
        src = open(_os.path.join(_KDIR, module + ".rs")).read()
    except OSError:
        return []
    pat = r"fn\s+(%s_[A-Za-z0-9_]+)\s*\(\)\s*\{" % _re.escape(module)
    names = []
    rest = src
    for m in _re.finditer(r"\npub mod (\w+) \{\n(.*?)\n\}", src, _re.S):
        sub, body = m.group(1), m.group(2)
        rest = rest.replace(m.group(0), "\n")
        if sub == "arb":
            continue    # needs --features codecs
        for n in _re.findall(pat, body):
            names.append("%s::%s::%s" % (module, sub, n))
    i = rest.find("\ncrate::harnesses!")
    for n in (_re.findall(pat, rest[i:]) if i >= 0 else []):
        names.append("%s::%s" % (module, n))
    out = []
    for n in names:
        if include and not _re.search(include, n):
            continue
        if exclude and _re.search(exclude, n):
            continue
        out.append(n)
    return out


def fmt_hs(quick):
    """concrete formatting harnesses of kani/src/c09f.rs (declared through the fmt_cases! macro)"""
    try:
        src = open(_os.path.join(_KDIR, "c09f.rs")).read()
    except OSError:
        return []
    names = _re.findall(r"^\s+(c09f_[a-z0-9_]+):", src, _re.M)
    slow = ("c09f_one_ux_w64", "c09f_one_d_w64", "c09f_bnd_dm_w65", "c09f_one_dbg_w64", "c09f_max_d_w128")
    return ["c09f::" + n for n in names if not (quick and n in slow)]


# harnesses without symbolic inputs (every value is a constant of the harness): the Kani run of such a harness is a concrete
# execution under CBMC's memory / overflow checks; the driver ALSO runs them natively (replay binary), because a change can push
# a concrete harness into a path CBMC cannot finish (core::fmt padding: > 600 s), which would leave it undecided
CONCRETE_HARNESS = _re.compile(r"^(c09f::|c16::c16_serde_human_|c16::c16_pg_numeric_|c14::c14_reciprocal_rows_|c02::c02_mul_grid_|c13::fl::c13_log10_pow10_|c13::fl::c13_log_samples_)")


W_Q = ["w0", "w1", "w8", "w60", "w64", "w65", "w128", "w192"]
W_T = W_Q + ["w250", "w256"]

HOOK_COMMITS = []
NOT_APPLICABLE = {}

PROPS = {
    "C01": dict(
        level="proof",
        level_text="Verus discharges value/flag/canonicity contracts of overflowing_add/sub/neg, all checked/saturating/wrapping wrappers, abs_diff, the 12 + / - operator impls and both Sum impls (sum of a sequence of any length, modulo 2^BITS) for every BITS and LIMBS "
                   "on the functions re-extracted from /repo each run; Kani proves the same contract for every entry point (methods, all operator shapes, Sum) per width",
        level_note="assumed: u64::overflowing_add/sub specifications (cross-checked full-domain by Kani), the extraction normalisations, the tools; "
                   "Sum (unit sumprod): declared rewrites - the iterator type parameter is instantiated with a (copying) slice iterator and `iter[.copied()].fold(init, f)` is written as its definition `acc = init; while let Some(x) = iter.next() { acc = f(acc, *x) }` (init and f are taken from the real tokens); other iterator types are covered by Kani on <= 3 elements only; abs_diff uses the assumed contract of `<` on Uint (lib/uint_ops.rs: agrees with the value; cmp is proved in unit kernels)",
        technique="deductive contracts (Verus, all widths) + Kani per-width contract harnesses with replayed counterexamples",
        units=["core", "add", "forward", "absdiff", "sumprod"],
        kani=dict(
            features=None,
            quick=["c01::c01_arith_" + w for w in ["w0", "w1", "w60", "w64", "w65", "w128"]] + ["c01::c01_sum_w65"] + hs("core_specs", r"u64_"),
            thorough=["c01::c01_arith_" + w for w in W_T] + ["c01::c01_sum_w65", "c01::c01_sum_w8"] + hs("core_specs", r"u64_"),
            bounds="per width: all operand pairs, loops closed by LIMBS (complete); Sum: slices of <= 3 elements (bounded)",
        ),
        explanation="overflowing_add/sub/neg and their wrappers carry Verus contracts over val() = limb value for ALL BITS/LIMBS; "
                    "Kani re-checks every entry point (methods, six operator shapes, Sum) per width against a ripple-carry oracle and supplies counterexamples",
        trusted=COMMON_TRUST + ["std Iterator::fold / copied: replaced by their definitions in unit sumprod (declared rewrite); vstd's specification of slice::Iter::next"],
        not_decided=["Sum over iterator types other than slice iterators (parametricity argument, not mechanised; Kani on <= 3 elements)"],
    ),
    "C15": dict(
        level="proof",
        level_text="Verus proves, for all slice lengths and contents, the exact integer contracts (result limbs plus carry/borrow word, or overflow flag) of adc, sbb, adc_n, sbb_n, "
                   "mac, mul_nx1, addmul_nx1, submul_nx1, add_nx1, cmp, shift_left_small, shift_right_small, the DoubleWord helpers and the general addmul (zero trimming, sliding window, truncation) on the functions re-extracted from /repo; "
                   "Kani proves the linear kernels (adc_n, sbb_n, add_nx1, shifts, cmp) per length and supplies counterexamples",
        level_note="add_nx1 is proved in unit addnx1 for all lengths (declared rewrite: its early-exit loop over `iter_mut()` is written as an index loop; Kani re-checks the unrewritten code per length <= 6); assumed: slice length stability axiom, "
                   "core integer specs (u64::overflowing_add/sub, wrapping_neg, i8::from(bool), cmp::min: each cross-checked full-domain by the loop-free Kani harnesses core_specs::*); "
                   "shift_left_small / shift_right_small are proved for all lengths in unit shifts (declared rewrite `for limb in limbs` -> `limbs.iter_mut()`); "
                   "addmul_n and its private unrolled kernels addmul_1..4 are proved in unit addmul_n",
        technique="deductive contracts (Verus, all lengths) + Kani per-length contract harnesses",
        units=["kernels", "addnx1", "addmul", "addmul_n", "shifts"],
        kani=dict(
            features=None,
            quick=["c15::c15_adc_sbb_n0", "c15::c15_adc_sbb_n1", "c15::c15_adc_sbb_n3", "c15::c15_adc_sbb_n6",
                   "c15::c15_add_nx1_n0", "c15::c15_add_nx1_n1", "c15::c15_add_nx1_n3", "c15::c15_add_nx1_n6",
                   "c15::c15_shift_n0", "c15::c15_shift_n1", "c15::c15_shift_n3", "c15::c15_shift_n6",
                   "c15::c15_cmp_n0", "c15::c15_cmp_n1", "c15::c15_cmp_n4", "c15::c15_nx1_n0"] + hs("core_specs"),
            thorough=["c15::c15_adc_sbb_n0", "c15::c15_adc_sbb_n1", "c15::c15_adc_sbb_n3", "c15::c15_adc_sbb_n6", "c15::c15_adc_sbb_n10",
                   "c15::c15_add_nx1_n0", "c15::c15_add_nx1_n1", "c15::c15_add_nx1_n3", "c15::c15_add_nx1_n6",
                   "c15::c15_shift_n0", "c15::c15_shift_n1", "c15::c15_shift_n3", "c15::c15_shift_n6",
                   "c15::c15_cmp_n0", "c15::c15_cmp_n1", "c15::c15_cmp_n4", "c15::c15_cmp_n10", "c15::c15_nx1_n0",
                   "c15::c15_mul_nx1_n1", "c15::c15_addmul_nx1_n1", "c15::c15_submul_nx1_n1"] + hs("core_specs"),
            bounds="per fixed slice length: all contents, loops closed by the length (complete for that length); word multiplies only at length 1",
        ),
        explanation="every kernel of ruint::algorithms named by the property carries a Verus contract over lvr() = little-endian limb value; addmul's contract is the property's sentence "
                    "(value modulo 2^(64 len) and flag <=> true sum does not fit)",
        trusted=COMMON_TRUST,
        not_decided=[],
    ),
    "C02": dict(
        level="proof",
        level_text="Verus proves, for every BITS/LIMBS, that overflowing_mul/wrapping_mul/checked_mul/saturating_mul return a*b mod 2^BITS with the flag a*b >= 2^BITS and that widening_mul "
                   "returns the full product for every (BITS, BITS_RHS), modular over the proved contracts of addmul, addmul_n (incl. the unrolled addmul_1..4), addmul_nx1, mac and the DoubleWord helpers; "
                   "inv_ring returns None exactly for BITS = 0 or an even value and otherwise the inverse modulo 2^BITS, for every width: the word-level Newton block (seed correct modulo 16, four doubling steps, the "
                   "debug assertion) and the limb-doubling lifting loop (Hensel step modulo 2^min(2p, BITS)); the Mul/MulAssign operator impls forward to wrapping_mul (unit forward)",
        level_note="assumed: slice-length axiom, core integer specs, Uint::from(2), operator contracts on Uint inside inv_ring's loop (* - *=: unit forward + proved methods). "
                   "Declared rewrites in inv_ring: the core::num::Wrapping<u64> newtype is erased (Wrapping(x) -> x, .0 -> identity, * and - on such values -> wrapping_mul / wrapping_sub: the definition of Wrapping's "
                   "operators). Product<Self> / Product<&Self> are proved in unit sumprod for sequences of any length (empty product = 1, BITS = 0 gives 0) with the same declared rewrites as Sum (slice-iterator instance, fold written as its definition)",
        technique="deductive contracts (Verus, all widths) over the real multiplication code; Kani for Product and as counterexample source at tiny widths",
        units=["core", "basics", "add", "kernels", "addnx1", "addmul", "addmul_n", "mul", "invring", "forward", "sumprod"],
        kani=dict(sweep_only=['cn::cn_mul_w65', 'cn::cn_mul_w128', 'cn::cn_mul_w192', 'cn::cn_mul_w250', 'cn::cn_mul_w320'], 
            features=None,
            quick=["c02::c02_inv_ring_cond_w0", "c02::c02_inv_ring_w1", "c02::c02_inv_ring_w8", "c02::c02_product_w8", "c02::c02_mulc_zero_w128", "c02::c02_mulc_zero_w65", "c02::c02_mulc_zero_w192"],
            thorough=["c02::c02_inv_ring_cond_w0", "c02::c02_inv_ring_w1", "c02::c02_inv_ring_w8", "c02::c02_inv_ring_w16", "c02::c02_product_w8", "c02::c02_mulc_zero_w128", "c02::c02_mulc_zero_w65", "c02::c02_mulc_zero_w192"],
            native_quick=["c02::c02_mul_grid_w128", "c02::c02_mul_grid_w127", "c02::c02_mul_grid_w192"],
            native_thorough=["c02::c02_mul_grid_w128", "c02::c02_mul_grid_w127", "c02::c02_mul_grid_w192"],
            timeout_thorough=3000,
            bounds="inv_ring: BITS in {0,1,8,16} all values; Product: <= 2 elements at 8 bits; c02_mul_grid_*: every pair of operands with limbs from {0,1,MAX} at 127/128 bits, {1,MAX} at 192 bits, CONCRETE (BOUNDED; 520 s each under CBMC at 127/128 bits and no result in 14 min at 192 bits: executed natively in both tiers, not under Kani)",
        ),
        explanation="the property's sentences about products are postconditions of the Uint methods over val(); every function between them and the u128 multiply is under contract",
        trusted=COMMON_TRUST,
        not_decided=["Product over iterator types other than slice iterators (parametricity argument, not mechanised; Kani on <= 2 elements)"],
    ),
    "C05": dict(
        level="proof",
        level_text="Verus proves, for every BITS/LIMBS, every value and EVERY usize shift amount (whole-limb, sub-limb, mixed, >= BITS, >= 64*LIMBS): overflowing_shl returns (value*2^s mod 2^BITS, value*2^s >= 2^BITS), "
                   "overflowing_shr returns (floor(value/2^s), value mod 2^s != 0); checked_shl/saturating_shl/wrapping_shl/checked_shr/wrapping_shr follow from those contracts; and the 80 operator impls that impl_shift! generates "
                   "for the ten primitive amount types (<<, >>, <<=, >>= by value and by reference) forward to wrapping_shl / wrapping_shr with the amount cast to usize (bodies re-extracted from the macro-expanded crate); "
                   "rotate_left / rotate_right are the cyclic bit permutation for every amount (bit j of the result is bit (j -+ s) mod BITS of the value) and arithmetic_shr replicates bit BITS-1 (statements about every bit)",
        level_note="Shl<Uint> / Shr<Uint> (Uint-typed amounts of any magnitude, incl. >= 2^64) are proved in unit shifts (value * 2^s mod 2^BITS resp. floor(value / 2^s) with s the full Uint value; the `.iter().any(..)` test is routed through a wrapper whose body is that expression, Kani-checked); their &/assign shapes are Kani per width. rotate / arithmetic_shr are proved over per-bit operator contracts for <<, >>, |, |= (assumed in unit rotate; justified by units shifts, bits, forward_shift). In unit forward_shift the nested operator uses "
                   "inside the `&T` and compound-assignment impls are resolved by hand to the impl rustc's trait selection picks from the operand types (declared optional rewrites). "
                   "ASSUMED: derived PartialEq (limb-wise == value equality)",
        technique="deductive contracts (Verus, all widths and all shift amounts) + Kani per width for operators, rotations and arithmetic shift",
        units=["core", "basics", "bits", "shifts", "forward_shift", "rotate"],
        kani=dict(features=None, quick=hs("c05", None, r"_slow") + hs("core_specs", r"any_above"), thorough=hs("c05") + hs("core_specs", r"any_above"), bounds="see kani/src/c05.rs: fixed widths, all values, all shift amounts up to BITS + 64*LIMBS + 1"),
        explanation="loop invariant lv(r[L..L+i]) + B^i*carry = lv(self[0..i]) * 2^b (shl) resp. lv(r[k-i..k]) * 2^b + (y mod 2^b) = lv(self[n-i..n]) (shr) with the carry tied to the previous limb; "
                    "lemma_shl_result / lemma_shr_result lift limb facts to value*2^s mod 2^BITS, floor(value/2^s) and the exact lost-bits flag",
        trusted=COMMON_TRUST,
        not_decided=["operator overloads and Uint-typed shift amounts beyond the Kani widths", "rotations / arithmetic_shr beyond the Kani widths"],
    ),
    "C06": dict(
        level="proof",
        level_text="Verus proves for ALL widths, against the binary expansion of the value (vbit(v, i) = floor(v / 2^i) mod 2, pop(v) = number of ones): bit (= bit index, false out of range), set_bit (every bit of the result: the "
                   "addressed one takes the value, all others unchanged; out-of-range writes nothing; canonical), not (= 2^BITS - 1 - value), &=, |=, ^= by reference (the impls all other bitwise operator shapes forward to: every bit "
                   "is the and/or/xor of the operand bits; canonical), leading_zeros, leading_ones, bit_len, byte_len, count_ones (= pop), count_zeros (= BITS - pop), is_power_of_two (<=> value = 2^k for some k), "
                   "checked_next_power_of_two (Some(least power of two >= value) exactly when it is < 2^BITS), next_power_of_two, trailing_zeros, trailing_ones, reverse_bits and most_significant_bits (bits = floor(value / 2^exponent), bits >= 2^63 whenever exponent > 0, exponent = 0 when the value fits a word). Kani proves per width, for ALL values and fully symbolic usize indices, the same and the rest: "
                   "byte / checked_byte (incl. the documented panic), trailing zeros and ones, reverse_bits, all operator shapes",
        level_note="trailing_zeros / trailing_ones are proved for all widths in unit trailing (result r: every bit below r is clear resp. set, bit r is set resp. clear when r < BITS, r <= BITS, r == BITS exactly for 0 resp. for MAX) with declared rewrites: `iter().position(closure)` goes through an N14 wrapper whose contract is ASSUMED (first index satisfying the predicate; Kani core_specs_position_len5) and `opt.map_or(d, |n| e)` is written as its definition `match opt { None => d, Some(n) => e }`; reverse_bits is proved for all widths in unit revbits (bit i of the result is bit BITS-1-i of the operand; canonical) - it shifts a NON-canonical intermediate, so unit shr_raw re-proves overflowing_shr under the weaker precondition `sized()` (result = floor(lv(limbs) / 2^s) for arbitrary limbs, canonical whenever that fits); ASSUMED there: u64::reverse_bits mirrors a word and slice::reverse (N14 wrapper) - Kani core_specs_u64_reverse_bits (full domain) / core_specs_array_reverse_len5 - and that `>>=` forwards to overflowing_shr (unit forward_shift); byte / checked_byte are proved in unit byteslice (digit `index` of the value in base 256; None exactly for index >= BYTES; `index < BYTES` is byte()'s precondition = its documented panic) relative to the ASSUMED little-endian layout of as_le_slice (the raw-pointer view is the base-256 digit string of the value: same fact as for to_le_bytes; Kani c06 per width); "
                   "the forwarding shapes of & | ^. ASSUMED: u64::count_ones = pop (Kani full domain), operator contract of `ONE << exp` (units forward_shift + shifts)",
        technique="deductive contracts (Verus, all widths) + Kani contract harnesses on the compiled crate, complete per width",
        units=["core", "basics", "bitlen", "bits", "popcount", "trailing", "shr_raw", "revbits", "byteslice"],
        kani=dict(features=None, quick=hs("c06") + hs("core_specs", r"count_ones|position|trailing|reverse"), thorough=hs("c06") + hs("core_specs", r"count_ones|position|trailing|reverse"), bounds="widths 0,1,8,60,63,64,65,100,128,129,192,250,256 (per family see kani/src/c06.rs); all values; all usize indices"),
        explanation="lemma_limb_bit (bit 64l+b of the value is bit b of limb l), lemma_pop_concat (ones of lo + 2^k x), lemma_pop_one (one one <=> power of two); harness-level contracts with bit-by-bit oracles",
        trusted=COMMON_TRUST,
        not_decided=["the raw-pointer byte view itself (as_le_slice: memory layout, assumed; Kani per width)"],
    ),
    "C07": dict(
        level="other",
        level_text="Verus proves for ALL widths and all values: TryFrom<u64> and TryFrom<u128> (Ok(v) exactly when v < 2^BITS, else ValueTooLarge(BITS, v mod 2^BITS), incl. the one-limb, two-limb and BITS = 0 cases), "
                   "const_from_u64, every macro-generated primitive conversion taken from the macro expansion (TryFrom<bool/u8/u16/u32/usize>; TryFrom<i8/i16/i32/i64/i128/isize>: non-negative as unsigned, negative gives "
                   "ValueNegative(BITS, two's-complement image mod 2^BITS); TryFrom<&Uint> for u8/u16/u32/u64/usize/u128/i8/i16/i32/i64/isize: Ok(value) iff value < 2^capacity, else Overflow(BITS, low bits truncated to the type, MAX)), "
                   "the limb-slice constructors for slices of ANY length (overflowing_from_limbs_slice = (value mod 2^BITS, value >= 2^BITS); from_ / checked_ / wrapping_ / saturating_from_limbs_slice) and the Uint-to-Uint conversions "
                   "for ALL pairs of widths (UintTryFrom<Uint>, UintTryTo<Uint>, from_uint, checked_from_uint). Kani proves, per width and for ALL values of the source type / all canonical Uint values, the exact Ok/Err classification, "
                   "the payloads, and the wrapping/saturating forms of every conversion entry point incl. the generic from / to families (13 primitive types in both directions, Uint-to-Uint for 9 width pairs, limb slices of every length 0..LIMBS+2)",
        level_note="all-widths proof for every primitive integer type in both directions (incl. TryFrom<&Uint> for bool and for i128: Ok iff the value is < 2 resp. < 2^127, else Overflow(BITS, low bit / two's-complement low 128 bits, MAX)), the limb-slice constructors and Uint-to-Uint; "
                   "the generic entry points from / wrapping_from / saturating_from / to / wrapping_to / saturating_to are proved in unit convgen for EVERY type parameter T relative to the contract of the trait method they dispatch to (ghost additions to the extracted UintTryFrom / UintTryTo traits: a spec function naming the implementor's outcome and the postcondition r == outcome; from / to require the outcome to be Ok - the panic arm is an obligation); the two blanket impls `Self::try_from(value)` / `T::try_from(self)` (one-line forwards through core's TryFrom) are not in the Verus subset and stay Kani per width (10 widths), as does the tie between an implementor's outcome and the TryFrom impls proved in units conv / conv_prim; "
                   "ASSUMED in unit conv_prim: iN::is_negative (Kani core_specs, full domain); declared rewrites there: callee named by its impl, `#[verifier::truncate]` added to the truncating `as` casts (Rust's semantics of `as`), the two associated consts of to_int! inlined; "
                   "ASSUMED in unit conv_slice: std's copy_from_slice / split_at / Iterator::any through N14 wrappers (Kani core_specs, lengths <= 6); "
                   "declared rewrites in TryFrom<u128>: Self::try_from(value as u64) is named by its impl, `.and_then(|n| Err(..))` is replaced by its definition (closures over Result are outside the Verus subset); "
                   "limb slices longer than LIMBS+2 not covered; "
                   "should_panic harnesses prove that the panic is reachable and nothing else fails (plus an unreachable end-of-harness cover), not a universally quantified 'always panics'",
        technique="deductive contracts (Verus, all widths) on the integer, limb-slice and Uint-to-Uint conversions; Kani contract harnesses (pre/postconditions on the compiled crate), complete per width, for every entry point incl. the generic from/to families; native replay of counterexamples",
        units=["core", "basics", "bitlen", "bits", "conv", "conv_slice", "conv_prim", "convgen"],
        kani=dict(
            features=None,
            quick=hs("c07", r"_w(0|1|60|64|65|128)$|_uint_|_must_panic$") + hs("core_specs", r"slice_ctor|is_negative"),
            thorough=hs("c07") + hs("core_specs", r"slice_ctor|is_negative"),
            bounds="widths 0,1,8,60,64,65,100,128,129,192; slices of length 0..LIMBS+2",
        ),
        explanation="harness-level contracts: assume(type invariant), call, assert(postcondition from the property statement) against a u128 / limb-loop oracle",
        trusted=COMMON_TRUST,
        not_decided=["widths outside the grid", "limb slices longer than LIMBS+2"],
    ),
    "C08": dict(
        level="other",
        level_text="Verus proves for ALL widths and byte strings of ANY length the two decoders everything byte-oriented funnels into, try_from_le_slice and try_from_be_slice (unit byteslice): Some(v) exactly when the string is at most "
                   "BYTES = ceil(BITS/8) long and its base-256 value (le: first byte least significant; be: last byte least significant) is < 2^BITS, v being that value and canonical; no panic, no overflow in the limb accumulation, and the raw "
                   "8-byte reads of the full-limb fast path stay inside the slice (their bounds are proof obligations); the panicking forms from_le_slice / from_be_slice / from_le_bytes / from_be_bytes follow; to_be_bytes is proved to be the reversal "
                   "of to_le_bytes (so its bytes are the digits most significant first, relative to the assumed layout contract of to_le_bytes). Kani proves, per width, that every byte encoder emits exactly the base-256 digits in the stated order and length "
                   "(fixed, vector, borrowed, trimmed, copy-into-buffer incl. frame), the same acceptance condition of the decoders (all strings up to BYTES+8 bytes), and the round trips",
        level_note="encoders per width only (12 widths incl. 60, 63 and 72 where BYTES%8 and BITS%64 disagree): they are raw-pointer views of the limb array, outside Verus; normalisation N20 replaces the unaligned raw read "
                   "`u64::from_le_bytes(unsafe { *bytes.as_ptr().add(off).cast() })` (and the from_be_bytes / `end.sub(..)` form) by a callee that REQUIRES the read to be in bounds and is ASSUMED to return the value of the eight bytes "
                   "(Kani core_specs_raw_u64_reads: all offsets and contents of a 24-byte slice)",
        technique="deductive contracts (Verus, all widths and lengths) on the slice decoders + Kani contract harnesses on the compiled crate (bit-precise for the unsafe pointer casts), complete per width, for encoders and round trips",
        units=["core", "byteslice"],
        kani=dict(
            features=None,
            quick=hs("c08", r"_w(0|1|7|60|63|64|65|72)$|_must_panic$", r"trim_be_vec_w(63|64|65|72)") + hs("core_specs", r"raw_u64_reads"),
            thorough=hs("c08") + hs("core_specs", r"raw_u64_reads"),
            timeout_thorough=4000,
            bounds="widths 0,1,7,8,60,63,64,65,72,100,128,129; byte strings 0..BYTES+8; buffers 0..BYTES+3",
        ),
        explanation="harness-level contracts against digit oracles computed from the limbs",
        trusted=COMMON_TRUST,
        not_decided=["widths outside the grid"],
    ),
    "C14": dict(
        level="proof",
        level_text="Verus proves on the extracted real code: div_2x1_mg10 (MG10 Thm 2), div_3x2_mg10 (Thm 3), reciprocal_2_mg10 (Alg. 6), reciprocal_ref, div_nx1_normalized, div_nx2_normalized and "
                   "the complete un-normalised Knuth D div_nxm (estimate, multiply-subtract, add-back, forced digit, shift==0 shortcut, q_high, final shuffle), the un-normalised n-by-1 / n-by-2 drivers div_nx1 / div_nx2 "
                   "(on-the-fly normalisation shift) and the `div` dispatcher (zero trimming through re-borrowed sub-slices, n = 0, n < d, 1-by-1, dispatch, lifting back to the padded slices) against n = q*d + r, r < d over limb values",
        level_note="ASSUMED: reciprocal_mg10 (table-seeded Newton iteration over Wrapping<u64>; its contract 'equals reciprocal_ref' is assumed, the lookup table is pinned by unit recip_table; BOUNDED stand-in: Kani c14_reciprocal_rows_* compares it with reciprocal_ref on 7 concrete divisors at the edges and the middle of each of the table rows 0..=254 - 1785 divisors, never counted as proved), "
                   "div_nxm_normalized (public, not called by div) not covered; Iterator::rposition (N14 wrapper; Kani on slices <= 8) "
                   "one fact about u64::leading_zeros (lemma_lz_facts, Kani full domain), Option::copied, slice::fill, u128::overflowing_sub specs",
        technique="deductive contracts (Verus, all slice lengths and limb values) on the division kernels",
        units=["kernels", "div_small", "knuth", "divd", "recip_table"],
        kani=dict(sweep_only=['cn::cn_div_w64', 'cn::cn_div_w65', 'cn::cn_div_w128', 'cn::cn_div_w192', 'cn::cn_div_w256', 'cn::cn_div_w320'], features=None, quick=hs("c14"), thorough=hs("c14"), bounds="leading_zeros fact: all u64 (loop-free, complete); reciprocal_mg10: 7 concrete divisors per table row 0..=254 (BOUNDED)"),
        explanation="each kernel's documented conditions of use are its requires; its ensures is the Euclidean identity in lvr() terms with the in-place layout",
        trusted=COMMON_TRUST,
        not_decided=["body of reciprocal_mg10 beyond its lookup table and the concrete row-edge grid (bounded)", "div_nxm_normalized"],
    ),
    "C03": dict(
        level="proof",
        level_text="Verus proves div_rem, wrapping_div/rem, checked_div/rem (None iff d == 0), div_ceil, checked_next_multiple_of and next_multiple_of against the Euclidean contract over val() "
                   "for every BITS/LIMBS, modular over the contract of algorithms::div; the division kernels behind it are proved in C14's units (closure includes them)",
        level_note="the whole chain div_rem -> div -> div_nx1/nx2/nxm -> div_2x1/3x2 -> reciprocal_2 is proved; the only ASSUMED kernel body is reciprocal_mg10 (see C14); operator forms / and % are assumed to forward to wrapping_div/rem (C20); "
                   "'zero divisor panics' is a Kani should_panic obligation per width (c03p), 'non-zero divisor never panics' is the Verus no-panic obligation under d != 0",
        technique="deductive contracts (Verus, all widths) + Kani should_panic/None harnesses per width",
        units=["core", "basics", "add", "mul", "kernels", "addnx1", "addmul", "addmul_n", "div_small", "knuth", "divd", "divw", "forward"],
        kani=dict(sweep_only=['cn::cn_div_w64', 'cn::cn_div_w65', 'cn::cn_div_w128', 'cn::cn_div_w192', 'cn::cn_div_w256', 'cn::cn_div_w320'], features=None, quick=hs("c03p", None, r"_w8_|divrem_w8") + hs("c14", r"reciprocal_rows"), thorough=hs("c03p") + hs("c14", r"reciprocal_rows"), bounds="widths 1, 64, 65 for the zero-divisor clauses; 8-bit exhaustive division; reciprocal_mg10 on a concrete row-edge grid (bounded)"),
        explanation="the property's sentences are postconditions of the Uint methods; r < d and n = q*d + r give q = floor(n/d) by lemma_euclid",
        trusted=COMMON_TRUST,
        not_decided=["/ and % operator impls (forwarding only)"],
    ),
    "C13": dict(
        level="proof",
        level_text="Verus proves overflowing_pow, wrapping_pow, checked_pow, saturating_pow and pow against a^e mod 2^BITS with the exact overflow flag for every BITS/LIMBS (square-and-multiply loop with ghost true values), "
                   "modular over the proved contracts of overflowing_mul / wrapping_mul, is_zero, bit(0), ONE; and log, checked_log, log2, checked_log2, log10, checked_log10 for every width: the result r satisfies "
                   "base^r <= value < base^(r+1), the checked forms return None exactly for value 0 or base < 2 (and Some(0) when ten does not fit the type), no panic under the documented preconditions, and both correction loops terminate",
        level_note="log is proved RELATIVE TO a one-sided assumption on the floating-point estimate: (approx_log2(self) / approx_log2(base)) rounded to a Uint exceeds floor(log) by at most one (libm is outside both verifiers; "
                   "a too-small estimate only costs iterations). The three statements computing the estimate are replaced by a call to an opaque function carrying exactly that assumption (declared rewrite, reported on every run), "
                   "`while let Some(trial) = ..` is rewritten to loop/break (declared). ASSUMED: `exp >>= 1` halves the value (operator impl, C05/C20), the generic Uint::from(2) / .to::<usize>() plumbing. "
                   "NOT decided: root (Newton iteration seeded by a float; Kani per width at 3-8 bits: values, early exits, panics), the approx_* functions",
        technique="deductive contracts (Verus, all widths) for pow and log; Kani per width for root and as counterexample source for log",
        units=["core", "basics", "kernels", "addnx1", "addmul", "addmul_n", "mul", "pow", "bitlen", "conv", "logs"],
        kani=dict(features=None, quick=hs("c13"), thorough=hs("c13"), bounds="log/root: tiny widths only (values at 2-8 bits; None/panic conditions at 1..250 bits); pow: no Kani harness (a symbolic multiply ladder is out of reach) - the native-only bodies c13n_pow_* are run by the native sweep (bounded: generated operands incl. exponents >= 2^64)",
                  sweep_only=["c13n::c13n_pow_w8", "c13n::c13n_pow_w64", "c13n::c13n_pow_w65", "c13n::c13n_pow_w128", "c13n::c13n_pow_w192"]),
        explanation="pow: invariant result * base^exp = a^e over ghost true values. log: first loop keeps base^(result-1) <= value and ends with base^result <= value; second loop ends with value < base^(result+1); "
                    "result < BITS bounds both loops and the final conversion",
        trusted=COMMON_TRUST + ["floating-point estimate of log: at most floor(log)+1 (one-sided; libm log2, f64 division and rounding)"],
        not_decided=["root values beyond 8 bits", "approx_log / approx_log2 / approx_log10 / approx_pow2 (floating point)"],
    ),
    "C11": dict(
        level="proof",
        level_text="Verus proves mul_redc<N> (CIOS Montgomery multiplication) AND square_redc<N> (Montgomery squaring with doubled cross terms) for ALL N on the extracted real code: for inv*m[0] = -1 mod 2^64 "
                   "and a, b < m the result r satisfies r < m and 2^(64N) * r = a*b + m*mu (resp. a*a + m*mu) for some integer mu, i.e. r = a*b*2^(-64N) mod m fully reduced; the helpers carrying_mul_add, "
                   "carrying_double_mul_add, sub and reduce1_carry; and the Uint::mul_redc / Uint::square_redc wrappers (BITS = 0 case, from_limbs never panics, result < modulus)",
        level_note="declared rewrites (reported as normalisations on every run): `for b in b` and the zip() loop of `sub` become index loops with the same element order (iteration over arrays by value / zip is outside the Verus subset); "
                   "ASSUMED: Ordering::eq, u128::overflowing_add specs; the precondition inv*m[0] = -1 mod 2^64 is the documented caller obligation",
        technique="deductive contracts (Verus, all N / all widths) + Kani per N for the final conditional subtraction as counterexample source",
        units=["core", "basics", "add", "kernels", "mul_redc", "modular"],
        kani=dict(sweep_only=['cn::cn_redc_w64', 'cn::cn_redc_w128', 'cn::cn_redc_w192', 'cn::cn_redc_w256'], features=None, quick=hs("c11"), thorough=hs("c11"), bounds="reduce1_carry: N in 1..4, all inputs"),
        explanation="mul_redc: outer invariant B^k * Acc = a * lv(b,k) + m*mu and Acc < 2m; inner row invariant; threshold argument for the dropped carry. "
                    "square_redc: outer invariant B^i * Acc = P_i*(2a - P_i) + m*mu with P_i = lv(a,i), mu < B^i, hence Acc < 2a + m < 3m (carry_outer <= 2) and Acc < 2m at the end; "
                    "two inner invariants (row of doubled products with a two-word carry, reduction row); the 0x3fff.. threshold branch is proved not to drop a carry",
        trusted=COMMON_TRUST,
        not_decided=[],
    ),
    "C16": dict(
        level="other",
        level_text="Kani proves per width, for ALL canonical values: the encoder of each integration emits exactly the format's reference encoding written in the harness from the format definition (minimal big-endian RLP string for "
                   "alloy-rlp / fastrlp 0.3 / 0.4 and the rlp crate's stream at 8 bits; SCALE fixed = length prefix + little-endian bytes; SCALE compact in its four modes; little-endian SSZ / borsh; canonical DER INTEGER content; "
                   "BYTES big-endian bytes in binary serde; limb bytes for bytemuck / primitive-types), the advertised length / size hint / max_encoded_len agrees with the bytes produced and never makes encoding fail, decoding the "
                   "encoding returns the value, and where the codec crate encodes u64/u128 itself the bytes are identical",
        level_note="per width (7, 8, 16, 60, 64, 65, 128, some 129/192), not all widths: the integrations are glue around third-party crates that Verus cannot see; the third-party encoders/decoders are EXECUTED symbolically by CBMC, "
                   "not specified. NOT decided (measured > 150 s or > 6 GB): the rlp crate's encoder above 8 bits, DER to_der/from_der end to end (the ruint part encode_value/decode_value is covered), num-bigint, postgres, "
                   "serde human-readable (JSON hex string: core::fmt), ark-ff (not in the harness crate's feature set). Known finding: SCALE fixed encoding of Uint<64> differs from u64's (length-prefixed): changing it changes the wire format",
        technique="Kani contract harnesses on the compiled crate with the codec crates enabled (feature codecs), complete per width",
        units=[],
        kani=dict(sweep_only=['c16::native::c16n_bigint_to_w64', 'c16::native::c16n_bigint_to_w65', 'c16::native::c16n_bigint_to_w128', 'c16::native::c16n_bigint_to_w192', 'c16::native::c16n_bigint_to_w256', 'c16::native::c16n_bigint_from_w8', 'c16::native::c16n_bigint_from_w64', 'c16::native::c16n_bigint_from_w65', 'c16::native::c16n_bigint_from_w128', 'c16::native::c16n_der_body_w8', 'c16::native::c16n_der_body_w64', 'c16::native::c16n_der_body_w65', 'c16::native::c16n_der_body_w128'], features="codecs", quick=hs("c16", None, r"_w(128|129|192)$|rlp_stream|serde_human_2p64") + hs("c17", r"scale_compact_m[012]_.*_w65|scale_compact_big_w65|c17_spec_"), thorough=hs("c16") + hs("c17", r"scale_compact|c17_spec_"), timeout_quick=3000, timeout_thorough=7200,
                  bounds="widths 7,8,16,60,64,65 (quick) + 128,129,192 (thorough); all canonical values"),
        known_findings={"scale_fixed_equals_primitive": ["c16::kf_c16_scale_fixed_equals_primitive_w64"]},
        explanation="harness-level contracts; reference encodings written from the format definitions",
        trusted=COMMON_TRUST + ["Kani stubs: alloc::fmt::format (error text), ptr_rotate / BytesMut::reserve_inner proved unreachable in c16_rlp_stream_w8"],
        not_decided=["rlp crate encoder above 8 bits", "DER to_der / from_der end to end (encode_to_slice: native sweep only, bounded)", "num-bigint (From<&Uint> for BigUint, TryFrom<&BigUint>: native sweep only, bounded)", "postgres beyond binary NUMERIC on four concrete values (c16_pg_numeric_*, BOUNDED)", "serde human-readable beyond the 8 concrete value/width pairs of c16_serde_human_* (BOUNDED stand-in: text handed to serialize_str and its visit_str round trip)", "ark-ff"],
    ),
    "C17": dict(
        level="other",
        level_text="Kani proves per width, for ALL input byte strings of length 0..BYTES+4: each decoder (alloy-rlp, fastrlp 0.3/0.4, rlp crate decode/as_val, SCALE fixed and compact, SSZ, borsh, DER decode_value and the "
                   "TryFrom<IntRef/UintRef/AnyRef> forms, binary serde) terminates without panicking and returns Ok exactly for the inputs that denote a value < 2^BITS under the format (strict spec for the canonical-form decoders, "
                   "for which re-encoding the result reproduces the consumed bytes; lenient spec for the rlp crate and SCALE), the Ok value being canonical and the denoted one; an RLP list is rejected; the byte-slice parsers "
                   "underneath (try_from_le_slice / try_from_be_slice) are proved total and exact by Verus for ALL widths and input lengths (unit byteslice, see C08), the digit-string parsers from_base_le / from_base_be likewise (unit frombase, see C09)",
        level_note="BOUNDED in input length (BYTES+4; longer inputs take the same length-check exits) and per width (7, 8, 16, 60, 64, 65); SCALE at 60-65 bits with concrete first bytes (all single-byte-mode prefixes; compact: modes 0-2 and the "
                   "4/8/16-byte big modes - the generic big-mode arm does not finish); postgres from_sql, serde human-readable, num-bigint not covered (cost); the third-party decoders are executed, not specified",
        technique="Kani contract harnesses over all inputs up to a stated length per width (feature codecs); deductive contracts (Verus, all widths and lengths) on the byte-slice and digit-string parsers underneath",
        units=["core", "kernels", "basics", "byteslice", "frombase"],
        kani=dict(sweep_only=["c17n::c17n_pg_w8", "c17n::c17n_pg_w64", "c17n::c17n_pg_w65", "c17n::c17n_pg_w256", "c17::native::c17nd_from_der_w8", "c17::native::c17nd_from_der_w64", "c17::native::c17nd_from_der_w65", "c17::native::c17nd_from_der_w128"], features="codecs", quick=hs("c17", None, r"_w(64|16)$|_p\d.*_w(7|8|60)$|_k\d.*_w(60|64)$") + hs("c09", r"str_non_ascii"), thorough=hs("c17") + hs("c09", r"str_non_ascii|c09_from_str"), timeout_quick=3000, timeout_thorough=7200,
                  bounds="all byte strings of length 0..BYTES+4; quick: 65 bits (all families) and 7/8/60 for the unpartitioned ones; thorough: + 16, 64 and every partition"),
        explanation="decode specs written from the format definitions; c17_spec_* prove they invert c16's encode specs",
        trusted=COMMON_TRUST + ["Kani stub: alloc::fmt::format (error text)"],
        not_decided=["inputs longer than BYTES+4", "SCALE compact generic big-mode arm", "postgres from_sql", "serde human-readable", "num-bigint"],
    ),
    "C18": dict(
        level="other",
        level_text="Kani proves per width, over ALL f64 (and f32) bit patterns partitioned into range harnesses, the exact classification and value of TryFrom<f64>/<f32> "
                   "(NaN, negative, floor(f+1/2) computed exactly from the bits, ValueTooLarge), the saturating/wrapping forms, and for Uint-to-float: neighbour-of-exact-value, exactness when representable, finiteness, monotonicity",
        level_note="floats are outside Verus; CBMC is bit-precise for IEEE arithmetic but NOT for libm: f64::exp2/f32::exp2 are stubbed by their contract (exact power of two, the stub asserts an integral in-range argument) "
                   "and fmod only feeds an unchecked payload; widths 0,1,8,53,64,65,128 (float->Uint, LIMBS <= 2) and up to 192 (Uint->float); the top of f64's range (2^1022, 2^1023, f64::MAX, 2^1024 -> +inf) only on concrete values at 1024/1088 bits",
        technique="Kani contract harnesses over all float bit patterns per width, libm modelled by contract stubs",
        units=[],
        kani=dict(features=None,
                  quick=hs("c18", r"_w(1|8|64|65)$|selfcheck|all_w0|top_w1024", r"sat_f32|mono_f32_w8"),
                  thorough=hs("c18"), timeout_thorough=5000,
                  bounds="all bit patterns per width; TryFrom<f64> at LIMBS <= 2"),
        explanation="harness-level contracts with an integer decode of the float bits as oracle",
        trusted=COMMON_TRUST + ["f64::exp2 / f32::exp2 are exact on integral arguments in [0, 1023] (contract stub; CBMC's own libm model is inexact)"],
        not_decided=["float -> Uint at LIMBS >= 3", "f64 +infinity for BITS > 1024", "error payloads for floats"],
    ),
    "C04": dict(
        level="proof",
        level_text="representation invariant as a postcondition: every Verus contract in the closure (constants, from_limbs*, masked/apply_mask, add/sub/neg, mul, pow, div wrappers, const_from_u64 ...) ensures r.wf() for ALL widths, "
                   "and lemma_eq_iff_val shows limb equality <=> value equality; algorithms::cmp is proved to order equal-length slices as integers and unit cmpord proves that Ord::cmp / PartialOrd::partial_cmp of Uint return the ordering of the two values (so <, <=, >, >= follow the numbers). Kani adds, per non-aligned width, the canonical-closure sweep over the "
                   "public producers, ==, Hash (recording hasher), all comparison operators, min/max/clamp, and the rejecting constructors (None / panics for every non-canonical input)",
        level_note="the clause 'a Uint type with LIMBS != ceil(BITS/64) has no obtainable value' is a compile-time outcome (const-eval panic of Self::LIMBS) and cannot be expressed as a contract on a call: NOT decided "
                   "(the one hole found by reading, Uint::<64,2>::MAX, was repaired: fix 4621248); producers not swept: multi-limb division/modular/gcd/root/log results, rand generators; Ord/PartialOrd impls forward to the proved cmp (assumed forwarding)",
        technique="deductive contracts (Verus: wf as postcondition, cmp) + Kani canonical-closure sweep per width",
        units=["core", "add", "kernels", "cmpord", "mul", "basics", "pow", "divw", "bits", "shifts", "conv_slice", "frombase", "byteslice",
               # every other unit whose contracts state r.wf() for a value-producing public function
               "invring", "modular", "gcdw", "gcdext", "rotate", "popcount", "conv", "conv_prim", "sumprod", "absdiff"],
        kani=dict(features=None,
                  quick=hs("c04", r"_w(1|7|60|65)(_must_panic)?$", r"closure_(mul|pow|div|rem|checked_div|div_ceil|reduce_mod|add_mod)") + hs("c09", r"c09_from_(le|be)_w(8|65)_b(10|16|10p19)$"),
                  thorough=hs("c04") + hs("c09", r"c09_from_(le|be)_w(1|8|60|65)_"), timeout_thorough=5000,
                  bounds="widths 1,7,60,65,100,250 (+64,128 for comparisons); expensive producers at 7 bits only"),
        explanation="wf() = sized and top limb <= mask; every producer under contract ensures it; Kani asserts limbs[L-1] <= MASK after each public producer",
        trusted=COMMON_TRUST,
        not_decided=["ill-formed (BITS, LIMBS) types are rejected (compile-time outcome)", "producers outside the sweep (multi-limb division results, gcd, root, log, rand)"],
    ),
    "C09": dict(
        level="proof",
        level_text="Verus proves SpigotLittle::next (the step behind to_base_le / to_base_be) for all LIMBS, values and bases >= 2: None and unchanged state for zero, otherwise Some(value mod base) and the state "
                   "becomes floor(value / base) - so the digit iterator yields exactly the base-b digits; and from_base_be and from_base_le for ALL widths, bases and digit strings of ANY length (unit frombase): InvalidBase for base < 2, otherwise the string is scanned in its own order "
                   "and Ok(value) is returned exactly when every digit is < base and the denoted value is < 2^BITS, InvalidDigit(d, base) for the first invalid digit reached, Overflow as soon as a valid prefix denotes a value >= 2^BITS "
                   "(be: Horner step result*base + digit limb by limb; le: result += digit*power through the proved addmul_nx1 / mul_nx1 kernels, and once base^k >= 2^BITS every further digit must be zero); Kani checks from_base_le/be, from_str_radix (alphabets, errors) and FromStr prefix sniffing at small widths with constant bases",
        level_note="Display/Debug/LowerHex/UpperHex/Octal/Binary formatting is NOT proved (core::fmt machinery behind write!/pad_integral: no result with a symbolic value in 20 min): its per-base constants are pinned for all widths "
                   "(unit fmt_consts: MAX = base^WIDTH, WIDTH >= 1, PREFIX, decided by evaluation of the extracted initialisers) and a BOUNDED Kani grid (c09f: 19 concrete value/spec pairs through the real core::fmt::write, compared byte by byte with the u128 primitive's text: zero with and without #, LIMBS == 0, one chunk, three chunks, {:?}, {:+}) stands in; from_str_radix only bounded "
                   "(digit strings <= 4, constant bases, widths 8/16(/65)); to_base_be's Vec reversal is not separately proved; declared rewrites in from_base_be / from_base_le: the iterator parameter `I: IntoIterator<Item = u64>` is instantiated with a slice "
                   "iterator (the functions use `digits` only through the Iterator protocol), `for digit in iter.by_ref()` / `for digit in iter` are written as their definition `while let Some(d) = iter.next()`, "
                   "`for limb in &mut result.limbs` -> `.iter_mut()`, `#[verifier::truncate]` on `carry as u64`; vstd's specification of slice::Iter::next is trusted",
        technique="deductive contracts (Verus, all widths/bases/lengths) for the digit step and from_base_le/be + Kani bounded contract harnesses for string parsing; formatting traits: bounded concrete Kani grid only",
        units=["core", "basics", "kernels", "spigot", "fmt_consts", "frombase",
               "div_small"],   # the digit step divides by the base through div_nx1
        kani=dict(features=None, quick=hs("c09") + fmt_hs(True), thorough=hs("c09") + fmt_hs(False), bounds="see module headers of kani/src/c09.rs and c09f.rs (formatting: BOUNDED, one concrete value per harness)"),
        explanation="invariant of Knuth's algorithm S over the reversed limb iterator: processed high limbs hold the quotient, remainder < base",
        trusted=COMMON_TRUST,
        not_decided=["formatting traits (Display, Debug, LowerHex, UpperHex, Octal, Binary) beyond the concrete grid of c09f (bounded stand-in; width/fill/alignment only on zero)", "from_str_radix / FromStr beyond the stated bounds; from_base_* called with iterators other than a slice iterator (parametricity argument, not mechanised)"],
    ),
    "C10": dict(
        level="proof",
        level_text="Verus proves reduce_mod, add_mod, mul_mod and pow_mod for every BITS/LIMBS and every modulus (0 for m = 0; pow_mod 0 for m <= 1): canonical residues in [0, m), "
                   "add_mod without intermediate overflow (carry-out case), mul_mod through the full double-width product (proved addmul) and the proved division, pow_mod by the square-and-multiply invariant modulo m; "
                   "and inv_mod (algorithms::inv_mod and the Uint wrapper): Some(x) with x < m and a*x = 1 (mod m) exactly when m >= 2 and gcd(a, m) = 1, None otherwise - through the Lehmer loop with the Euclidean fallback, "
                   "implicit-sign cofactor in wrapping arithmetic and the final sign patch",
        level_note="ASSUMED: one memory-layout fact in mul_mod (normalisation N19: the raw-pointer reinterpretation of `[[u64; 2]; LIMBS]` as a limb slice is replaced by a call whose contract says element 2i+j is store[i][j]); "
                   "operators >=, %=, -=, >>=, /, *, + on Uint (C20); the conversion plumbing inside LehmerMatrix::from/apply (see C12; the matrix construction itself is proved); precondition BITS <= (usize::MAX - 63) / 2 (2*BITS is computed)",
        technique="deductive contracts (Verus, all widths) + Kani at tiny widths as counterexample source",
        units=["core", "basics", "add", "modular", "gcdext", "gcdw", "lehmer", "jebelean",
               # callees whose contracts the modular functions rely on: the wide product (mul_mod) and the division chain (reduce_mod, mul_mod, inv_mod)
               "kernels", "addnx1", "addmul", "addmul_n", "mul", "div_small", "knuth", "divd", "divw"],
        kani=dict(sweep_only=['cn::cn_mod_w64', 'cn::cn_mod_w65', 'cn::cn_mod_w128', 'cn::cn_mod_w192', 'cn::cn_mod_w256'], features=None, quick=hs("c10", None, r"gcd|lcm"), thorough=hs("c10", None, r"gcd|lcm"), bounds="tiny widths (2-8 bits) and reduced add_mod at 64..192 bits, see kani/src/c10.rs"),
        explanation="postconditions over val() with vstd's modular-arithmetic lemma library; inv_mod: ghost cofactor magnitudes T0 <= T1 with T1*a + T0*b = m, a = +-T0*n + ka*m, stored cofactors = signed values mod 2^BITS",
        trusted=COMMON_TRUST,
        not_decided=[],
    ),
    "C12": dict(
        level="proof",
        level_text="Verus proves, for every width: the gcd loop (initial swap, Lehmer step via apply, Euclidean fallback, termination) returns Euclid's function sgcd, which is proved to be the greatest common divisor "
                   "(divides both; every common divisor divides it); gcd_extended returns g = gcd and cofactors with a*x - b*y = g (sign) resp. b*y - a*x = g modulo 2^BITS (exact integer Bezout rows, stored cofactors as residues, "
                   "final negation and swap); lcm returns Some(a*b/gcd) exactly when that value is < 2^BITS (Some(0) if either is 0) and None otherwise; the Uint wrappers forward; and the property's last sentence itself: "
                   "a Lehmer update matrix produced by LehmerMatrix::from for any a >= b is the identity or maps (a, b) exactly to a pair (c, d) with 0 <= d < c <= a, d < b, gcd(c, d) = gcd(a, b) (plus determinant +-1, "
                   "row order and entry bounds) - proved through from's dispatch on the bit length, from_u64 (extended Euclid on two words), from_u128_prefix (normalisation to a 64-bit prefix) and from_u64_prefix "
                   "(the word-level Lehmer loop with two 32-bit cofactors packed per word - no carry between the halves, no word overflow - and Jebelean's exactness conditions selecting matrix i, i+1 or i+2, "
                   "for ALL full operands sharing the prefix); LehmerMatrix::apply evaluates the signed map modulo 2^BITS without panicking for such matrices",
        level_note="ASSUMED: the conversions `x.try_into().unwrap()` to u64/u128 in `from` (named by declared rewrites; TryFrom<Uint> for primitives is C07, Kani per width), Uint::from(u64) in apply, the Uint operators "
                   "used in the loops (>=, /, *, -, %=, >>: units forward / forward_shift + the proved inherent methods), u128::leading_zeros facts (Kani full domain), the derived == on Matrix; compose() (unused by from) is not covered. "
                   "lcm uses a declared rewrite of Option::unwrap_or_default to unwrap_or(<Uint as Default>::default()), with Default::default extracted and proved to be ZERO. Kani enumerations at 3-4 bits serve as counterexample source",
        technique="deductive contracts (Verus, all widths and all operand sizes) + Kani enumeration at tiny widths as counterexample source",
        units=["core", "gcd", "gcdext", "gcdw", "lehmer", "jebelean",
               # callees: the division chain (Euclidean steps, lcm) and multiplication (Lehmer apply, lcm)
               "basics", "kernels", "addnx1", "addmul", "addmul_n", "mul", "div_small", "knuth", "divd", "divw"],
        kani=dict(sweep_only=['cn::cn_gcd_w64', 'cn::cn_gcd_w65', 'cn::cn_gcd_w128', 'cn::cn_gcd_w192', 'cn::cn_gcd_w256'], features=None, quick=hs("c10", r"gcd|lcm") + hs("core_specs", r"u128_leading"), thorough=hs("c10", r"gcd|lcm") + hs("core_specs", r"u128_leading"), bounds="3-4 bits, all pairs"),
        explanation="gcd: invariant gcd(a, b) = gcd(a0, b0), a >= b; decreases b. gcd_extended: a = S0*A + T0*B, b = S1*A + T1*B over the integers, stored s/t = S/T mod 2^BITS. from_u64_prefix: a sliding window of four "
                    "consecutive prefix remainders and cofactor pairs in one of two orientations (lemma_win_step), cofactors < 2^32 from the inverse identities yn*r3 + y3*rn = a0; Jebelean: with aa = a0*2^k + ta, "
                    "c = ax*2^k + (ux*ta - vx*tb) >= ..., the tested inequalities give 0 <= d < c on the full numbers, the inverse map aa = vy*c + vx*d, bb = uy*c + ux*d gives c <= bb, the entry bounds and the equal gcd",
        trusted=COMMON_TRUST,
        not_decided=["LehmerMatrix::compose (not used by from)"],
    ),
    "C19": dict(
        level="other",
        level_text="Verus proves pad_limbs (the range check behind `literal >= 2^bits is rejected` and the padding to the target width) for ALL widths and limb vectors of ANY length on the text re-extracted from "
                   "/repo/ruint-macro/src/lib.rs: Some(v) exactly when the limb string denotes a value < 2^bits, v having exactly ceil(bits/64) limbs and the same value (unit padlimbs). "
                   "Kani proves bounded contracts of the three pure functions of the proc-macro crate, whose item texts are copied VERBATIM from /repo/ruint-macro/src/lib.rs into the harness crate on every run "
                   "(vf/genmacro.py): parse_digits accepts exactly the digit strings of the base selected by the 0x/0o/0b prefix (underscores ignored) and returns the limbs of the Horner value incl. the carry-push path across 2^64; "
                   "pad_limbs returns Some iff value < 2^bits with exactly ceil(bits/64) limbs of the same value (13 widths 0..192); parse_suffix splits value / U|B / bits exactly per the hex-B ambiguity rule",
        level_note="pad_limbs: proof (ASSUMED there: std's `last() == Some(&0)` and `last().copied().unwrap_or(0)` through N14 wrappers). parse_digits / parse_suffix BOUNDED (not a proof): strings <= 5 characters over a 16-character alphabet (parse_digits), <= 7 (parse_suffix), limb vectors <= 4; alloc::fmt::format and Vec::push are replaced by Kani stubs "
                   "(the real ones exhaust CBMC), the native replay runs the real ones. The Transformer's token-tree traversal and code generation (proc_macro::TokenStream exists only inside rustc) are outside both verifiers; BOUNDED stand-in (vf/macroexp.py, /verif/macrocheck): the REAL macro, built from /repo, is executed by rustc on 31 literal / nesting shapes (all bases, underscores, widths 0..256, upper-case hex with B digits, the Bits suffix, () [] {} nesting, call arguments, macro_rules $e:expr / $l:literal / $t:tt forwarding, pass-through of plain integers, identifiers, strings, floats) and every expansion is compared at run time with from_str_radix of the same digits; four invalid literals (digit above / equal to the base, value >= 2^bits for U and B) must each fail to compile at their own line. NOT decided: "
                   "literals of several hundred digits, widths up to 4096, error message text",
        technique="deductive contract (Verus, all widths and lengths) on pad_limbs; Kani bounded contract harnesses on verbatim-extracted proc-macro functions (extraction drops everything that touches proc_macro::TokenStream); the token traversal is only executed (real macro on a grid of literal shapes, bounded)",
        units=["padlimbs"],
        macro_grid=True,
        kani=dict(features=None, quick=hs("c19"), thorough=hs("c19"), bounds="strings <= 5 / <= 7 chars, vectors <= 4 limbs, bits in {0,1,2,8,63,64,65,100,127,128,129,191,192}"),
        explanation="harness-level contracts with Horner / u128 oracles",
        trusted=COMMON_TRUST + ["stubs: alloc::fmt::format (error text only), Vec::push without reallocation (capacity 4)"],
        not_decided=["token traversal / pass-through / nesting beyond the 35 executed shapes of the macro grid (bounded)", "long literals and wide suffixes"],
    ),
    "C20": dict(
        level="proof",
        level_text="Verus proves, for ALL widths at once, that the 30 operator impls generated by impl_bin_op! (Add/Sub/Mul/Div/Rem x {value, reference} operands and both compound-assignment forms) and 26 num-traits facade methods "
                   "(Checked*, Wrapping*, Overflowing*, Saturating*, Euclid) forward to the right inherent method with the right arguments in the right order: the bodies are re-extracted from the macro-expanded crate "
                   "(rustc -Zunpretty=expanded) on every run and checked against uninterpreted spec functions of the inherent methods; Kani adds per-width equality for the Bits wrapper, the remaining num-traits / num-integer "
                   "methods, the subtle constant-time forms and zeroize",
        level_note="the Uint-typed shift operators (Shl<Uint>, Shr<Uint> and the three shapes forwarding to them) have no inherent counterpart; their contract (value * 2^s mod 2^BITS resp. floor(value / 2^s) for an amount of ANY magnitude) is proved in unit shifts, which is part of this property's closure; macro expansion is rustc's (trusted); N15 places trait-impl methods in an inherent impl under mangled names; commutative operations accept either argument order; NOT under Verus: Bits wrapper, bit-op / shift "
                   "operator families (Kani per width in C05/C06), PrimInt/ToPrimitive/FromPrimitive, num-integer, subtle (Kani per width, expensive ones only at 7-8 bits); known finding: subtle bit_ct panics for index >= BITS",
        technique="deductive forwarding contracts over uninterpreted spec functions (Verus, all widths) + Kani per-width equality harnesses",
        units=["forward", "forward_shift", "shifts"],
        kani=dict(sweep_only=['c05::c05_uamt_w0', 'c05::c05_uamtl_w1', 'c05::c05_uamtr_w1', 'c05::c05_uamtl_w60', 'c05::c05_uamtr_w60', 'c05::c05_uamtl_w64', 'c05::c05_uamtr_w64', 'c05::c05_uamtl_w65', 'c05::c05_uamtr_w65', 'c05::c05_uamtl_edge_w65', 'c05::c05_uamtr_edge_w65', 'c05::c05_uamtl_w129', 'c05::c05_uamtr_w129', 'c05::c05_uamtl_edge_w129', 'c05::c05_uamtr_edge_w129'], features="facades", quick=hs("c20", None, r"^c20::kf_"), thorough=hs("c20", None, r"^c20::kf_"), bounds="see kani/src/c20.rs"),
        known_findings={"subtle_bit_ct_out_of_range": ["c20::kf_c20_subtle_bit_ct_out_of_range_w65"]},
        explanation="a swapped argument, a forward to the wrong variant or *self vs *other breaks r == spec_m(args)",
        trusted=COMMON_TRUST + ["rustc macro expansion (-Zunpretty=expanded)"],
        not_decided=["Bits wrapper, PrimInt, ToPrimitive/FromPrimitive, num-integer, subtle: per width only (Kani)"],
    ),
}

"""Generate a unit from /repo's current tree and discharge it with Verus."""
import json
import os
import re
import subprocess
import time

from . import unit as U

FAIL_PATTERNS = [
    "postcondition not satisfied", "precondition not satisfied", "assertion failed",
    "invariant not satisfied", "possible arithmetic underflow/overflow", "possible division by zero",
    "decreases not satisfied", "possible bit shift underflow/overflow", "index out of bounds",
    "recommendation not met", "precondition not met", "might not be allowed", "unable to prove", "loop invariant",
    "assertion failure", "possible", "not satisfied", "cannot show", "simplifies to false",
]
UNDECIDED_PATTERNS = ["rlimit", "resource limit", "timed out", "timeout", "could not finish", "canceled", "incomplete"]

TRUST_RE = re.compile(r"assume_specification\s*(?:<[^>]*>)?\s*\[([^\]]+)\]|#\[verifier::external_body\]\s*(?:pub\s+)?(?:proof\s+)?fn\s+(\w+)|\badmit\s*\(\s*\)|\bassume\s*\(|pub\s+(?:broadcast\s+)?(?:proof\s+)?axiom\s+fn\s+(\w+)|(?:proof\s+)?fn\s+(axiom_\w+)")


def scan_trusted(text):
    out = []
    for m in TRUST_RE.finditer(text):
        if m.group(1):
            out.append("assume_specification[%s]" % m.group(1).strip())
        elif m.group(2):
            out.append("external_body fn %s" % m.group(2))
        elif m.group(3) or m.group(4):
            out.append("axiom %s" % (m.group(3) or m.group(4)))
        else:
            out.append("assume/admit in proof text: %s" % m.group(0))
    seen, res = set(), []
    for x in out:
        if x not in seen:
            seen.add(x)
            res.append(x)
    return res


def func_at(gen_text_lines, g, line):
    for f in g.functions:
        if f["gen_lines"][0] <= line <= f["gen_lines"][1]:
            return f["name"], f
    # nearest preceding fn declaration
    for k in range(min(line, len(gen_text_lines)) - 1, -1, -1):
        m = re.search(r"\bfn\s+(\w+)", gen_text_lines[k])
        if m:
            return m.group(1), None
    return "?", None


def run_unit(unit, rlimit=None, timeout=600, extra=()):
    """run_unit_once, plus the missing-method auto-import: when the current code calls an inherent Uint method that the unit
    template does not declare (rustc E0599) and another unit holds that method's contract, import it and try again"""
    imports = []
    res = None
    for _round in range(4):
        res = run_unit_once(unit, rlimit, timeout, extra, tuple(imports))
        if res["status"] != "undecided":
            break
        missing = []
        for u in res["undecided"]:
            m = re.search(r"no method named `(\w+)` found for (?:struct|reference) `&?(?:mut )?Uint<", u.get("message", "")) or \
                re.search(r"no (?:function or )?associated (?:item|function|function or constant) named `(\w+)` found for struct `Uint<", u.get("message", ""))
            if m:
                missing.append(m.group(1))
        new = []
        for fn in missing:
            u2 = U.find_method_unit(fn)
            if u2 and u2 != unit and (u2, fn) not in imports and (u2, fn) not in new:
                new.append((u2, fn))
        if not new:
            break
        imports += new
    if imports:
        res["auto_imports"] = ["%s::%s" % x for x in imports]
    if res["status"] == "undecided" and res["undecided"] and all(u.get("kind") in ("rlimit", "timeout") for u in res["undecided"]):
        res2 = run_unit_once(unit, rlimit, timeout, tuple(extra) + ("--smt-option", "smt.random_seed=%d" % RESEED), tuple(imports))
        if res2["status"] == "ok":
            res2["reseed"] = {"seed": RESEED, "status": "ok", "note": "first run hit the resource limit; all obligations discharged under seed %d" % RESEED}
            return res2
    # de-flaking: an obligation that really fails cannot be discharged under any solver seed, so a reported failure is
    # confirmed by a second run with another seed and only the obligations failing in BOTH runs are kept; an obligation that
    # fails once and verifies once is solver instability: undecided, never a violation
    if res["status"] == "failed":
        res2 = run_unit_once(unit, rlimit, timeout, tuple(extra) + ("--smt-option", "smt.random_seed=%d" % RESEED), tuple(imports))
        keys2 = set((f["function"], f["message"], f["clause"]) for f in res2["failures"])
        both = [f for f in res["failures"] if (f["function"], f["message"], f["clause"]) in keys2]
        flaky = [f for f in res["failures"] if (f["function"], f["message"], f["clause"]) not in keys2]
        res["reseed"] = {"seed": RESEED, "status": res2["status"], "confirmed": len(both), "not_reproduced": len(flaky)}
        if res2["status"] == "ok":
            # a proof found under any seed is a proof: every obligation of the unit is discharged by the second run
            res2["reseed"] = {"seed": RESEED, "status": "ok", "note": "first run (default seed) reported %d unstable failure(s); all obligations discharged under seed %d" % (len(res["failures"]), RESEED)}
            if imports:
                res2["auto_imports"] = res.get("auto_imports")
            return res2
        # per-function outcome of the second run: a failure is dropped only when the second run PROVED that function
        proved2 = set(f["function"].split("::")[-1] for f in res2["functions"] if f.get("success"))
        failed2 = set(f["function"] for f in res2["failures"])
        keep, unstable = [], []
        for f in res["failures"]:
            fn = f["function"]
            if fn in failed2 or fn not in proved2:
                keep.append(f)          # failed again, or not decided the second time (resource limit): the first verdict stands
            else:
                unstable.append(f)
        res["reseed"]["kept"] = len(keep)
        res["failures"] = keep
        for f in unstable:
            res["undecided"].append({"kind": "unstable", "obligation": f["obligation"], "message": "failed under the default seed, proved under seed %d (solver instability): %s" % (RESEED, f["message"]), "clause": f["clause"]})
        if not keep:
            res["status"] = "undecided"
    return res


RESEED = 7


def run_unit_once(unit, rlimit=None, timeout=600, extra=(), extra_imports=()):
    """returns dict with keys: unit, status (ok|failed|undecided), verified, errors,
    failures[], undecided[], functions[], trusted[], wall_s, gen (function infos)"""
    t0 = time.time()
    res = {"unit": unit, "status": "undecided", "verified": 0, "errors": 0, "failures": [], "undecided": [],
           "functions": [], "trusted": [], "gen": [], "smt_ms": 0, "rlimit_max": 0}
    try:
        g = U.gen_unit(unit, extra_imports=extra_imports)
    except (U.UnitError, Exception) as ex:  # extraction problems are never violations
        res["undecided"].append({"kind": "extraction", "message": "%s: %s" % (type(ex).__name__, ex)})
        res["wall_s"] = time.time() - t0
        return res
    if g.problems:
        for p in g.problems:
            res["undecided"].append({"kind": "template", "message": p})
        res["wall_s"] = time.time() - t0
        return res
    os.makedirs(os.path.join(U.BUILD, "units"), exist_ok=True)
    path = os.path.join(U.BUILD, "units", unit.replace("/", "_") + ".rs")
    with open(path, "w") as f:
        f.write(g.text)
    res["gen"] = g.functions
    res["trusted"] = scan_trusted(g.text) + g.assumptions
    cmd = ["verus", path, "--output-json", "--time", "--error-format=json", "--crate-name", "u_" + unit.replace("/", "_")]
    if rlimit:
        cmd += ["--rlimit", str(rlimit)]
    cmd += list(extra)
    res["cmd"] = " ".join(cmd)
    # own process group, killed as a whole on timeout: z3 children otherwise survive a killed rust_verify and keep a core busy
    import signal
    pp = subprocess.Popen(cmd, cwd=os.path.join(U.BUILD, "units"), stdout=subprocess.PIPE, stderr=subprocess.PIPE, text=True, start_new_session=True)
    try:
        so, se = pp.communicate(timeout=timeout)
    except subprocess.TimeoutExpired:
        try:
            os.killpg(pp.pid, signal.SIGKILL)
        except ProcessLookupError:
            pass
        pp.communicate()
        res["undecided"].append({"kind": "timeout", "message": "verus exceeded %ds" % timeout})
        res["wall_s"] = time.time() - t0
        return res

    class _P:
        pass
    p = _P()
    p.stdout, p.stderr, p.returncode = so, se, pp.returncode
    lines = g.text.split("\n")
    out = {}
    try:
        out = json.loads(p.stdout)
    except Exception:
        pass
    vr = out.get("verification-results", {})
    res["verified"] = vr.get("verified", 0)
    res["errors"] = vr.get("errors", 0)
    try:
        for mod in out["times-ms"]["smt"]["smt-run-module-times"]:
            for fb in mod.get("function-breakdown", []):
                res["functions"].append({"function": fb["function"].split("::", 1)[-1], "mode": fb.get("mode:"),
                                         "ms": fb["time"], "rlimit": fb["rlimit"], "success": fb["success"]})
                res["rlimit_max"] = max(res["rlimit_max"], fb["rlimit"])
        res["smt_ms"] = out["times-ms"]["smt"]["smt-run"]
    except Exception:
        pass
    # diagnostics
    ndiag = 0
    for l in p.stderr.split("\n"):
        l = l.strip()
        if not l.startswith("{"):
            continue
        try:
            d = json.loads(l)
        except Exception:
            continue
        if d.get("level") != "error":
            continue
        msg = d.get("message", "")
        if msg.startswith("aborting due to"):
            continue
        ndiag += 1
        prim = [s for s in d.get("spans", []) if s.get("is_primary")]
        sec = [s for s in d.get("spans", []) if not s.get("is_primary")]
        line = prim[0]["line_start"] if prim else (sec[0]["line_start"] if sec else 0)
        fname, finfo = func_at(lines, g, line)
        clause = ""
        for s in prim + sec:
            if s.get("text"):
                lab = s.get("label") or ""
                clause = (lab + ": " if lab else "") + s["text"][0]["text"].strip().replace("/*+*/", "").replace("/*-*/", "")
                if s in prim:
                    break
        # prefer the labelled failing clause
        for s in d.get("spans", []):
            if s.get("label") and "failed" in s["label"] and s.get("text"):
                clause = s["label"] + ": " + s["text"][0]["text"].strip().replace("/*+*/", "").replace("/*-*/", "")
        low = msg.lower()
        entry = {"function": fname, "message": msg, "clause": clause[:300], "gen_line": line,
                 "source": ("%s:%d-%d" % (finfo["file"], finfo["lines"][0], finfo["lines"][1])) if finfo else None,
                 "obligation": "%s::%s::%s" % (unit, fname, msg)}
        if any(u in low for u in UNDECIDED_PATTERNS):
            entry["kind"] = "rlimit"
            res["undecided"].append(entry)
        elif any(f in low for f in FAIL_PATTERNS):
            res["failures"].append(entry)
        else:
            entry["kind"] = "tool"
            res["undecided"].append(entry)
    if p.returncode == 0 and vr.get("success") and not res["failures"] and not res["undecided"]:
        res["status"] = "ok"
    elif res["failures"] and not [u for u in res["undecided"] if u.get("kind") in ("tool", "extraction", "template")]:
        res["status"] = "failed"
    elif res["failures"]:
        res["status"] = "failed"
    else:
        if not res["undecided"]:
            res["undecided"].append({"kind": "tool", "message": "verus exit %d: %s" % (p.returncode, p.stderr[-600:])})
        res["status"] = "undecided"
    res["wall_s"] = time.time() - t0
    return res

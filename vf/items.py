"""Locate items (fn / const / struct) in a tokenised Rust file by name and
enclosing-block context; never by line number."""
from .rtok import match_close, TokError

QUALS = {"pub", "const", "unsafe", "async", "default", "extern"}


class ItemError(Exception):
    pass


def _headers(toks):
    """for every token index, the list of enclosing block headers (as text)"""
    stack = []          # (header_text)
    last_boundary = [0]  # per depth: index after last ; { }
    ctx_at = [None] * len(toks)
    for i, t in enumerate(toks):
        ctx_at[i] = tuple(stack)
        if t.text == "{":
            hdr = " ".join(x.text for x in toks[last_boundary[-1]:i])
            stack.append(hdr)
            last_boundary.append(i + 1)
        elif t.text == "}":
            if stack:
                stack.pop()
                last_boundary.pop()
            last_boundary[-1] = i + 1
        elif t.text == ";":
            last_boundary[-1] = i + 1
    return ctx_at


def _item_start(toks, i):
    """walk back from the keyword at i over qualifiers and attributes"""
    s = i
    while s > 0:
        p = toks[s - 1]
        if p.kind == "id" and p.text in QUALS:
            s -= 1
        elif p.kind == "str" and s >= 2 and toks[s - 2].text == "extern":
            s -= 1
        elif p.text == ")" and s >= 4 and toks[s - 4].text == "pub" and toks[s - 3].text == "(":
            s -= 3  # pub(crate)
        elif p.text == "]":
            # attribute #[...]
            depth, k = 0, s - 1
            while k >= 0:
                if toks[k].text == "]":
                    depth += 1
                elif toks[k].text == "[":
                    depth -= 1
                    if depth == 0:
                        break
                k -= 1
            if k >= 1 and toks[k - 1].text == "#":
                s = k - 1
            elif k >= 2 and toks[k - 1].text == "!" and toks[k - 2].text == "#":
                break
            else:
                break
        else:
            break
    return s


def _fn_end(toks, i):
    """end (exclusive) of the fn item whose `fn` keyword is at i"""
    j = i + 1
    depth = 0
    while j < len(toks):
        t = toks[j]
        if t.text in "([":
            j = match_close(toks, j) + 1
            continue
        if t.text == "{":
            return match_close(toks, j) + 1, j
        if t.text == ";":
            return j + 1, None
        j += 1
    raise ItemError("fn without body")


def find_items(toks, kind, name):
    """yield (start, end, body_open_index_or_None, ctx_headers) for every match"""
    ctx_at = _headers(toks)
    out = []
    for i, t in enumerate(toks):
        if t.kind != "id" or t.text != kind:
            continue
        if i + 1 >= len(toks) or toks[i + 1].text != name:
            continue
        if kind == "const" and (i + 2 >= len(toks) or toks[i + 2].text != ":"):
            continue
        if kind == "const" and i > 0 and toks[i - 1].text in ("<", ","):
            continue  # const generic parameter
        if kind == "static" and (i + 2 >= len(toks) or toks[i + 2].text != ":"):
            continue
        if kind == "fn":
            end, body = _fn_end(toks, i)
        elif kind in ("const", "static"):
            j = i
            while toks[j].text != ";":
                if toks[j].kind == "open":
                    j = match_close(toks, j)
                j += 1
            end, body = j + 1, None
        elif kind in ("struct", "trait", "enum"):
            j = i
            while toks[j].text not in ("{", ";"):
                if toks[j].text in "([":
                    j = match_close(toks, j)
                j += 1
            if toks[j].text == "{":
                body = j
                end = match_close(toks, j) + 1
            else:
                end, body = j + 1, None
        else:
            raise ItemError("unknown item kind " + kind)
        out.append((_item_start(toks, i), end, body, ctx_at[i], i))
    return out


def select(toks, kind, name, ctx=None, nth=None):
    cands = find_items(toks, kind, name)
    if ctx:
        want = "".join(ctx.split())
        cands = [c for c in cands if any(want in "".join(h.split()) for h in c[3])]
    # ignore items inside `mod tests`
    cands = [c for c in cands if not any(h.strip().endswith("mod tests") or "mod test" in h for h in c[3])]
    if nth is not None:
        if nth >= len(cands):
            raise ItemError("%s %s: only %d candidates" % (kind, name, len(cands)))
        return cands[nth]
    if len(cands) != 1:
        raise ItemError("%s %s (ctx=%r): %d candidates" % (kind, name, ctx, len(cands)))
    return cands[0]

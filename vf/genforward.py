"""Authoring tool (run once, output committed): writes units/forward.rs from the facade table below.
Each row: a trait-impl method taken from the macro-expanded crate (build/expanded.rs), its receiver shape, and the
contract it must satisfy in terms of UNINTERPRETED spec functions of the inherent methods (forwarding needs no arithmetic).
    python3 -m vf.genforward && ./vfx mark forward
"""
import os
HERE = os.path.dirname(os.path.dirname(os.path.abspath(__file__)))
U = "Uint<BITS, LIMBS>"

# inherent methods the facades forward to: name -> (params after self, return type)
INH = {
    "wrapping_add": ("rhs: Self", "Self"), "wrapping_sub": ("rhs: Self", "Self"), "wrapping_mul": ("rhs: Self", "Self"),
    "wrapping_div": ("rhs: Self", "Self"), "wrapping_rem": ("rhs: Self", "Self"), "wrapping_neg": ("", "Self"),
    "checked_add": ("rhs: Self", "Option<Self>"), "checked_sub": ("rhs: Self", "Option<Self>"), "checked_mul": ("rhs: Self", "Option<Self>"),
    "checked_div": ("rhs: Self", "Option<Self>"), "checked_rem": ("rhs: Self", "Option<Self>"), "checked_neg": ("", "Option<Self>"),
    "checked_shl": ("rhs: usize", "Option<Self>"), "checked_shr": ("rhs: usize", "Option<Self>"),
    "wrapping_shl": ("rhs: usize", "Self"), "wrapping_shr": ("rhs: usize", "Self"),
    "saturating_add": ("rhs: Self", "Self"), "saturating_sub": ("rhs: Self", "Self"), "saturating_mul": ("rhs: Self", "Self"),
    "overflowing_add": ("rhs: Self", "(Self, bool)"), "overflowing_sub": ("rhs: Self", "(Self, bool)"), "overflowing_mul": ("rhs: Self", "(Self, bool)"),
    "inv_ring": ("", "Option<Self>"),
}

OPS = [("Add", "add", "AddAssign", "add_assign", "wrapping_add"), ("Sub", "sub", "SubAssign", "sub_assign", "wrapping_sub"),
       ("Mul", "mul", "MulAssign", "mul_assign", "wrapping_mul"), ("Div", "div", "DivAssign", "div_assign", "wrapping_div"),
       ("Rem", "rem", "RemAssign", "rem_assign", "wrapping_rem")]

# num-traits rows: (trait, method, signature after N15, ensures)
NT = [
    ("CheckedAdd", "checked_add", "(&self, other: &Self) -> (r: Option<Self>)", "r == spec_checked_add(*self, *other)"),
    ("CheckedSub", "checked_sub", "(&self, other: &Self) -> (r: Option<Self>)", "r == spec_checked_sub(*self, *other)"),
    ("CheckedMul", "checked_mul", "(&self, other: &Self) -> (r: Option<Self>)", "r == spec_checked_mul(*self, *other)"),
    ("CheckedDiv", "checked_div", "(&self, other: &Self) -> (r: Option<Self>)", "r == spec_checked_div(*self, *other)"),
    ("CheckedRem", "checked_rem", "(&self, other: &Self) -> (r: Option<Self>)", "r == spec_checked_rem(*self, *other)"),
    ("CheckedNeg", "checked_neg", "(&self) -> (r: Option<Self>)", "r == spec_checked_neg(*self)"),
    ("CheckedShl", "checked_shl", "(&self, other: u32) -> (r: Option<Self>)", "r == spec_checked_shl(*self, other as usize)"),
    ("CheckedShr", "checked_shr", "(&self, other: u32) -> (r: Option<Self>)", "r == spec_checked_shr(*self, other as usize)"),
    ("CheckedEuclid", "checked_div_euclid", "(&self, v: &Self) -> (r: Option<Self>)", "r == spec_checked_div(*self, *v)"),
    ("CheckedEuclid", "checked_rem_euclid", "(&self, v: &Self) -> (r: Option<Self>)", "r == spec_checked_rem(*self, *v)"),
    ("EuclidforUint", "div_euclid", "(&self, v: &Self) -> (r: Self)", "r == spec_wrapping_div(*self, *v)"),
    ("EuclidforUint", "rem_euclid", "(&self, v: &Self) -> (r: Self)", "r == spec_wrapping_rem(*self, *v)"),
    ("SaturatingforUint", "saturating_add", "(self, v: Self) -> (r: Self)", "r == spec_saturating_add(self, v)"),
    ("SaturatingforUint", "saturating_sub", "(self, v: Self) -> (r: Self)", "r == spec_saturating_sub(self, v)"),
    ("SaturatingAdd", "saturating_add", "(&self, v: &Self) -> (r: Self)", "r == spec_saturating_add(*self, *v)"),
    ("SaturatingSub", "saturating_sub", "(&self, v: &Self) -> (r: Self)", "r == spec_saturating_sub(*self, *v)"),
    ("SaturatingMul", "saturating_mul", "(&self, v: &Self) -> (r: Self)", "r == spec_saturating_mul(*self, *v)"),
    ("WrappingAdd", "wrapping_add", "(&self, v: &Self) -> (r: Self)", "r == spec_wrapping_add(*self, *v)"),
    ("WrappingSub", "wrapping_sub", "(&self, v: &Self) -> (r: Self)", "r == spec_wrapping_sub(*self, *v)"),
    ("WrappingMul", "wrapping_mul", "(&self, v: &Self) -> (r: Self)", "r == spec_wrapping_mul(*self, *v)"),
    ("WrappingNeg", "wrapping_neg", "(&self) -> (r: Self)", "r == spec_wrapping_neg(*self)"),
    ("WrappingShl", "wrapping_shl", "(&self, rhs: u32) -> (r: Self)", "r == spec_wrapping_shl(*self, rhs as usize)"),
    ("WrappingShr", "wrapping_shr", "(&self, rhs: u32) -> (r: Self)", "r == spec_wrapping_shr(*self, rhs as usize)"),
    ("OverflowingAdd", "overflowing_add", "(&self, v: &Self) -> (r: (Self, bool))", "r == spec_overflowing_add(*self, *v)"),
    ("OverflowingSub", "overflowing_sub", "(&self, v: &Self) -> (r: (Self, bool))", "r == spec_overflowing_sub(*self, *v)"),
    ("OverflowingMul", "overflowing_mul", "(&self, v: &Self) -> (r: (Self, bool))", "r == spec_overflowing_mul(*self, *v)"),
]


def main():
    out = []
    w = out.append
    w("// unit forward: operator impls (impl_bin_op!) and num-traits facades forward to the inherent methods  (C20)")
    w("// GENERATED skeleton (vf/genforward.py) - the item bodies are re-extracted from the macro-expanded crate on every run.")
    w("// Every inherent method m is an external_body declaration `ensures r == spec_m(args)` with an UNINTERPRETED spec_m, so a facade")
    w("// verifies iff it calls the right method with the right arguments in the right order (N15: trait-impl methods are placed")
    w("// in an inherent impl under the mangled name Trait__method; `<Self>::m(..)` resolves to the inherent m exactly as in rustc).")
    w("#![allow(non_snake_case, non_camel_case_types)]")
    w("use vstd::prelude::*;")
    w("verus! {")
    w("//@ extract src/lib.rs struct Uint")
    w("pub struct Uint<const BITS: usize, const LIMBS: usize> { pub\n    limbs: [u64; LIMBS],\n}")
    w("//@ end")
    w("impl<const BITS: usize, const LIMBS: usize> Clone for %s { fn clone(&self) -> (r: Self) ensures r == *self { Uint { limbs: self.limbs } } }" % U)
    w("impl<const BITS: usize, const LIMBS: usize> Copy for %s {}" % U)
    w("")
    for m, (params, ret) in INH.items():
        ps = [p.split(":")[0].strip() for p in params.split(",") if p.strip()]
        tys = [p.split(":")[1].strip().replace("Self", U) for p in params.split(",") if p.strip()]
        sig = ", ".join(["a: %s" % U] + ["p%d: %s" % (i, t) for i, t in enumerate(tys)])
        w("pub uninterp spec fn spec_%s<const BITS: usize, const LIMBS: usize>(%s) -> %s;" % (m, sig, ret.replace("Self", U)))
    w("")
    w("impl<const BITS: usize, const LIMBS: usize> %s {" % U)
    for m, (params, ret) in INH.items():
        ps = [p.split(":")[0].strip() for p in params.split(",") if p.strip()]
        w("    #[verifier::external_body]")
        w("    pub fn %s(self%s) -> (r: %s)" % (m, (", " + params) if params else "", ret))
        w("        ensures r == spec_%s(%s)" % (m, ", ".join(["self"] + ps)))
        w("    { unimplemented!() }")
    w("")
    # operator impls
    for (T, f, TA, fa, d) in OPS:
        rows = [
            ("%s_val__%s" % (TA, fa), ">%s<Uint<BITS,LIMBS>>forUint<BITS,LIMBS>" % TA, fa, "(&mut self, rhs: %s)" % U, "*final(self) == spec_%s(*old(self), rhs)" % d, None),
            ("%s_ref__%s" % (TA, fa), ">%s<&Uint<BITS,LIMBS>>forUint<BITS,LIMBS>" % TA, fa, "(&mut self, rhs: &%s)" % U, "*final(self) == spec_%s(*old(self), *rhs)" % d, None),
            ("%s_val_val__%s" % (T, f), ">%s<Uint<BITS,LIMBS>>forUint<BITS,LIMBS>" % T, f, "(self, rhs: %s) -> (r: %s)" % (U, U), "r == spec_%s(self, rhs)" % d, "val"),
            ("%s_val_ref__%s" % (T, f), ">%s<&Uint<BITS,LIMBS>>forUint<BITS,LIMBS>" % T, f, "(self, rhs: &%s) -> (r: %s)" % (U, U), "r == spec_%s(self, *rhs)" % d, "val"),
            ("%s_ref_val__%s" % (T, f), ">%s<Uint<BITS,LIMBS>>for&Uint<BITS,LIMBS>" % T, f, "(&self, rhs: %s) -> (r: %s)" % (U, U), "r == spec_%s(*self, rhs)" % d, "ref"),
            ("%s_ref_ref__%s" % (T, f), ">%s<&Uint<BITS,LIMBS>>for&Uint<BITS,LIMBS>" % T, f, "(&self, rhs: &%s) -> (r: %s)" % (U, U), "r == spec_%s(*self, *rhs)" % d, "ref"),
        ]
        for (name, ctx, fn, sig, ens, recv) in rows:
            rw = ""
            if recv is not None:
                rw += ' rewrite="-> Self :: Output" => "-> Uint<BITS, LIMBS>" #1'
            if recv == "ref":
                rw += ' rewrite="( self ," => "( & self ," #1'
            w('//@ extract expanded fn %s ctx="%s" vis=none as=%s%s' % (fn, ctx, name, rw))
            body_call = {"add": "add", "sub": "sub"}
            w("    fn %s%s" % (name, sig))
            w("        ensures %s" % ens)
            w("    { PLACEHOLDER }")
            w("//@ end")
    for (T, m, sig, ens) in NT:
        name = "%s__%s" % (T.replace("forUint", ""), m)
        w('//@ extract expanded fn %s ctx="%s" vis=none as=%s' % (m, T if "for" in T else T + "forUint", name))
        w("    fn %s%s" % (name, sig))
        w("        ensures %s" % ens)
        w("    { PLACEHOLDER }")
        w("//@ end")
    w("}")
    w("")
    w("} // verus!")
    w("fn main() {}")
    text = "\n".join(out) + "\n"
    open(os.path.join(HERE, "units", "forward.rs"), "w").write(text)
    print("wrote units/forward.rs")


if __name__ == "__main__":
    main()


# ---------------------------------------------------------------------------------------------------------------------
# unit forward_shift: the 80 shift operator impls generated by impl_shift! for the ten primitive amount types
SHIFT_TYPES = ["usize", "u8", "u16", "u32", "u64", "isize", "i8", "i16", "i32", "i64"]


def main_shift():
    out = []
    w = out.append
    w("// unit forward_shift: the shift operator impls generated for each primitive amount type (src/bits.rs impl_shift!) forward to")
    w("// wrapping_shl / wrapping_shr with the amount cast to usize  (C05, C20)")
    w("// GENERATED skeleton (vf/genforward.py main_shift) - the item bodies are re-extracted from the macro-expanded crate on every run.")
    w("// N15 places each trait-impl method in an inherent impl under a mangled name; the nested operator uses inside the `&T` and")
    w("// compound-assignment forms (`<Self>::shl(self, *rhs)`, `*self << rhs`) are resolved by hand to the impl rustc's trait")
    w("// selection picks from the operand types (declared rewrites, listed per item).")
    w("#![allow(non_snake_case, non_camel_case_types)]")
    w("use vstd::prelude::*;")
    w("verus! {")
    w("//@ extract src/lib.rs struct Uint")
    w("pub struct Uint<const BITS: usize, const LIMBS: usize> { pub\n    limbs: [u64; LIMBS],\n}")
    w("//@ end")
    w("impl<const BITS: usize, const LIMBS: usize> Clone for %s { fn clone(&self) -> (r: Self) ensures r == *self { Uint { limbs: self.limbs } } }" % U)
    w("impl<const BITS: usize, const LIMBS: usize> Copy for %s {}" % U)
    w("")
    for m in ("wrapping_shl", "wrapping_shr"):
        w("pub uninterp spec fn spec_%s<const BITS: usize, const LIMBS: usize>(a: %s, p0: usize) -> %s;" % (m, U, U))
    w("")
    w("impl<const BITS: usize, const LIMBS: usize> %s {" % U)
    for m in ("wrapping_shl", "wrapping_shr"):
        w("    #[verifier::external_body]")
        w("    pub fn %s(self, rhs: usize) -> (r: Self)" % m)
        w("        ensures r == spec_%s(self, rhs)" % m)
        w("    { unimplemented!() }")
    w("")
    for T in SHIFT_TYPES:
        signed = T.startswith("i")
        pre = "rhs >= 0 ==> " if signed else ""
        prer = "*rhs >= 0 ==> " if signed else ""
        for (Tr, f, d) in (("Shl", "shl", "wrapping_shl"), ("Shr", "shr", "wrapping_shr")):
            val = "%s_%s_val__%s" % (Tr, T, f)
            ref = "%s_%s_ref__%s" % (Tr, T, f)
            aval = "%sAssign_%s_val__%s_assign" % (Tr, T, f)
            aref = "%sAssign_%s_ref__%s_assign" % (Tr, T, f)
            op = "<<" if f == "shl" else ">>"
            w('//@ extract expanded fn %s ctx=">%s<%s>forUint<BITS,LIMBS>" vis=none as=%s rewrite="-> Self :: Output" => "-> Uint<BITS, LIMBS>" #1' % (f, Tr, T, val))
            w("    fn %s(self, rhs: %s) -> (r: Uint<BITS, LIMBS>)" % (val, T))
            w("        ensures %sr == spec_%s(self, rhs as usize)" % (pre, d))
            w("    { PLACEHOLDER }")
            w("//@ end")
            w('//@ extract expanded fn %s ctx=">%s<&%s>forUint<BITS,LIMBS>" vis=none as=%s rewrite="-> Self :: Output" => "-> Uint<BITS, LIMBS>" #1 rewrite="< Self > :: shl ( self , * rhs )" => "Self::Shl_%s_val__shl(self, *rhs)" #? rewrite="< Self > :: shr ( self , * rhs )" => "Self::Shr_%s_val__shr(self, *rhs)" #?' % (f, Tr, T, ref, T, T))
            w("    fn %s(self, rhs: &%s) -> (r: Uint<BITS, LIMBS>)" % (ref, T))
            w("        ensures %sr == spec_%s(self, *rhs as usize)" % (prer, d))
            w("    { PLACEHOLDER }")
            w("//@ end")
            w('//@ extract expanded fn %s_assign ctx=">%sAssign<%s>forUint<BITS,LIMBS>" vis=none as=%s rewrite="* self << rhs" => "Self::Shl_%s_val__shl(*self, rhs)" #? rewrite="* self >> rhs" => "Self::Shr_%s_val__shr(*self, rhs)" #?' % (f, Tr, T, aval, T, T))
            w("    fn %s(&mut self, rhs: %s)" % (aval, T))
            w("        ensures %s*final(self) == spec_%s(*old(self), rhs as usize)" % (pre, d))
            w("    { PLACEHOLDER }")
            w("//@ end")
            w('//@ extract expanded fn %s_assign ctx=">%sAssign<&%s>forUint<BITS,LIMBS>" vis=none as=%s rewrite="* self << rhs" => "Self::Shl_%s_ref__shl(*self, rhs)" #? rewrite="* self >> rhs" => "Self::Shr_%s_ref__shr(*self, rhs)" #?' % (f, Tr, T, aref, T, T))
            w("    fn %s(&mut self, rhs: &%s)" % (aref, T))
            w("        ensures %s*final(self) == spec_%s(*old(self), *rhs as usize)" % (prer, d))
            w("    { PLACEHOLDER }")
            w("//@ end")
    w("}")
    w("")
    w("} // verus!")
    w("fn main() {}")
    open(os.path.join(HERE, "units", "forward_shift.rs"), "w").write("\n".join(out) + "\n")
    print("wrote units/forward_shift.rs")

"""Mechanical, purely syntactic normalisations (DESIGN.md section 3.2) that bring
an item extracted from /repo into the subset Verus accepts.  Every rule is a
token rewrite whose side conditions are checked; anything outside the rules
raises NormError (=> the check is undecided, never a violation).

Each rule application is logged as (rule id, count).
"""
import re
from .rtok import Tok, tokenize, match_close, TokError

CONSTS = {"MASK", "LIMBS", "BITS", "BYTES", "SHOULD_MASK", "ZERO", "ONE", "MAX", "MIN"}
CONST_PREFIX = {"Self", "Uint"}


class NormError(Exception):
    pass


def mk(text):
    toks, _ = tokenize(text)
    for t in toks:
        if not t.ws:
            t.ws = " "
        t.line = 0
    return toks


def split_commas(toks, lo, hi):
    """split toks[lo:hi] at depth-0 commas -> list of (a,b) ranges; turbofish `::<..>` is a group"""
    out, start = [], lo
    i = lo
    angle = 0
    while i < hi:
        t = toks[i]
        if t.kind == "open":
            i = match_close(toks, i)
        elif t.text == "<" and i > lo and toks[i - 1].text == "::":
            angle += 1
        elif t.text == ">" and angle > 0:
            angle -= 1
        elif t.text == ">>" and angle > 0:
            angle = max(0, angle - 2)
        elif t.text == "," and angle == 0:
            out.append((start, i))
            start = i + 1
        i += 1
    if start < hi or out:
        out.append((start, hi))
    return [r for r in out if r[0] < r[1]]


class Normaliser:
    def __init__(self, bools=(), consts=None, const_prefix=None, keep_mut=False, vis="pub", as_name=None):
        self.vis = vis
        self.as_name = as_name
        self.bools = set(bools)
        self.consts = set(consts) if consts is not None else set(CONSTS)
        self.const_prefix = set(const_prefix) if const_prefix is not None else set(CONST_PREFIX)
        self.log = {}
        self.tmp = 0

    def note(self, rule, n=1):
        if n:
            self.log[rule] = self.log.get(rule, 0) + n

    # ---- N1 attributes -------------------------------------------------
    def strip_attrs(self, toks):
        out = []
        i = 0
        skip_next_stmt = False
        while i < len(toks):
            t = toks[i]
            if t.text == "#" and i + 1 < len(toks) and toks[i + 1].text == "[":
                j = match_close(toks, i + 1)
                inner = [x.text for x in toks[i + 2:j]]
                if inner and inner[0] == "cfg":
                    s = "".join(inner)
                    if s == 'cfg(target_endian="little")':
                        self.note("N1-cfg-little-kept")
                    elif s == 'cfg(target_endian="big")':
                        # drop the attribute and the statement/block that follows
                        k = j + 1
                        if toks[k].text == "{":
                            k = match_close(toks, k) + 1
                        else:
                            while toks[k].text != ";":
                                if toks[k].kind == "open":
                                    k = match_close(toks, k)
                                k += 1
                            k += 1
                        self.note("N1-cfg-big-dropped")
                        nxt = k
                        if nxt < len(toks) and out is not None:
                            toks[nxt].ws = t.ws
                        i = k
                        continue
                    else:
                        raise NormError("unsupported cfg attribute: " + s)
                else:
                    self.note("N1-attr")
                if j + 1 < len(toks):
                    toks[j + 1].ws = t.ws
                i = j + 1
                continue
            out.append(t)
            i += 1
        return out

    # ---- N2 qualifiers ---------------------------------------------------
    def strip_quals(self, toks, kw):
        i = 0
        ws = toks[0].ws
        while toks[i].text != kw:
            t = toks[i]
            if t.text == "pub":
                if toks[i + 1].text == "(":
                    i = match_close(toks, i + 1) + 1
                else:
                    i += 1
                continue
            if t.text == "const" and kw == "fn":
                self.note("N2-const-fn")
                i += 1
                continue
            raise NormError("unsupported qualifier %r" % t.text)
        if self.vis == "none":
            out = toks[i:]
            out[0].ws = ws
            return out
        out = mk("pub") + toks[i:]
        out[0].ws = ws
        out[1].ws = " "
        return out

    # ---- signature helpers ------------------------------------------------
    @staticmethod
    def _skip_generics(toks, i):
        if toks[i].text != "<":
            return i
        depth = 0
        while True:
            tx = toks[i].text
            if tx == "<":
                depth += 1
            elif tx == "<<":
                depth += 2
            elif tx == ">":
                depth -= 1
            elif tx == ">>":
                depth -= 2
            elif tx == "->":
                pass
            i += 1
            if depth <= 0:
                return i

    def fn_parts(self, toks):
        """indices: (name_idx, params_open, params_close, body_open, body_close)"""
        i = 0
        while toks[i].text != "fn":
            i += 1
        name = i + 1
        j = self._skip_generics(toks, name + 1)
        if toks[j].text != "(":
            raise NormError("cannot find parameter list")
        pc = match_close(toks, j)
        k = pc + 1
        while toks[k].text != "{":
            if toks[k].text in "([":
                k = match_close(toks, k)
            k += 1
        return name, j, pc, k, match_close(toks, k)

    # ---- N3 mut params ---------------------------------------------------
    def mut_params(self, toks):
        name, po, pc, bo, bc = self.fn_parts(toks)
        prologue = []
        rename_self = False
        drop = []
        for (a, b) in split_commas(toks, po + 1, pc):
            if toks[a].text == "mut":
                nm = toks[a + 1].text
                drop.append(a)
                if nm == "self":
                    rename_self = True
                    prologue += mk("let mut this = self ;")
                else:
                    prologue += mk("let mut %s = %s ;" % (nm, nm))
                self.note("N3-mut-param")
        if not drop:
            return toks
        out = []
        for i, t in enumerate(toks):
            if i in drop:
                toks[i + 1].ws = t.ws
                continue
            if rename_self and bo < i < bc and t.kind == "id" and t.text == "self":
                t = Tok("id", "this", t.ws, t.line)
            out.append(t)
            if i == bo:
                out += prologue
        return out

    # ---- statement starts ---------------------------------------------------
    @staticmethod
    def _stmt_starts(toks, lo, hi):
        starts = []
        for i in range(lo, hi):
            p = toks[i - 1].text if i > 0 else "{"
            if p in ("{", ";", "}"):
                starts.append(i)
        return starts

    # ---- N4 destructuring assignment --------------------------------------
    def destructuring(self, toks):
        name, po, pc, bo, bc = self.fn_parts(toks)
        i = bo + 1
        out = toks[:bo + 1]
        while i < len(toks):
            t = toks[i]
            prev = out[-1].text if out else "{"
            if i < bc and t.text == "(" and prev in ("{", ";", "}"):
                j = match_close(toks, i)
                if toks[j + 1].text == "=":
                    # find end of statement
                    k = j + 2
                    while toks[k].text != ";":
                        if toks[k].kind == "open":
                            k = match_close(toks, k)
                        k += 1
                    elems = split_commas(toks, i + 1, j)
                    names = []
                    assigns = []
                    for n, (a, b) in enumerate(elems):
                        if b - a == 1 and toks[a].text == "_":
                            names.append("_")
                            continue
                        nm = "t%d_%d" % (self.tmp, n)
                        names.append(nm)
                        assigns += toks[a:b] + mk("= %s ;" % nm)
                    self.tmp += 1
                    new = mk("let ( %s ) =" % " , ".join(names))
                    new[0].ws = t.ws
                    out += new + toks[j + 2:k + 1] + assigns
                    self.note("N4-destructuring-assignment")
                    i = k + 1
                    continue
            out.append(t)
            i += 1
        return out

    # ---- N5 eager bool operators -------------------------------------------
    def bool_ops(self, toks):
        if not self.bools:
            return toks
        out = []
        i = 0
        n = len(toks)
        while i < n:
            t = toks[i]
            if t.kind == "punct" and t.text in ("|", "&", "^", "|=", "&=") and 0 < i < n - 1:
                p, q = toks[i - 1], toks[i + 1]
                isb = (p.kind == "id" and p.text in self.bools) or (q.kind == "id" and q.text in self.bools)
                if isb and t.text in ("|", "&", "^"):
                    new = {"|": "||", "&": "&&", "^": "!="}[t.text]
                    # side condition: the right operand up to the next `;`/`,`/`)`
                    # must not contain a call taking `&mut` (eager == lazy on pure operands)
                    k = i + 1
                    while k < n and toks[k].text not in (";", ",", ")", "}", "{"):
                        if toks[k].text == "&" and toks[k + 1].text == "mut":
                            raise NormError("N5: operand of bool operator is not pure")
                        if toks[k].kind == "open":
                            k = match_close(toks, k)
                        k += 1
                    out.append(Tok("punct", new, t.ws, t.line))
                    self.note("N5-bool-" + t.text)
                    i += 1
                    continue
                if isb and t.text in ("|=", "&=") and p.kind == "id" and (i < 2 or toks[i - 2].text in ("{", ";", "}")):
                    k = i + 1
                    while toks[k].text != ";":
                        if toks[k].text == "&" and toks[k + 1].text == "mut":
                            raise NormError("N5: operand of bool operator is not pure")
                        if toks[k].kind == "open":
                            k = match_close(toks, k)
                        k += 1
                    op = "||" if t.text == "|=" else "&&"
                    out += mk("= %s %s (" % (p.text, op)) + self.bool_ops(toks[i + 1:k]) + mk(")")
                    self.note("N5-bool-" + t.text)
                    i = k
                    continue
            out.append(t)
            i += 1
        return out

    # ---- N6 associated consts ------------------------------------------------
    def const_uses(self, toks):
        out = []
        n = len(toks)
        for i, t in enumerate(toks):
            out.append(t)
            if not (t.kind == "id" and t.text in self.consts and i >= 2 and toks[i - 1].text == "::"
                    and (i + 1 >= n or toks[i + 1].text not in ("(", "::"))):
                continue
            ok = False
            if toks[i - 2].kind == "id" and toks[i - 2].text in self.const_prefix:
                ok = not (i >= 3 and toks[i - 3].text == "::")
            elif toks[i - 2].text == ">":
                # turbofish:  Uint :: < ... > :: NAME
                k = i - 2
                depth = 0
                while k >= 0:
                    if toks[k].text == ">":
                        depth += 1
                    elif toks[k].text == "<":
                        depth -= 1
                        if depth == 0:
                            break
                    k -= 1
                if k >= 2 and toks[k - 1].text == "::" and toks[k - 2].kind == "id" and toks[k - 2].text in self.const_prefix:
                    ok = True
            if ok:
                out += [Tok("open", "(", "", 0), Tok("close", ")", "", 0)]
                self.note("N6-const-use")
        return out

    def const_def(self, toks):
        # [pub] const NAME : T = EXPR ;   ->   pub fn NAME ( ) -> T { EXPR }
        toks = self.strip_quals(toks, "const")
        i = 1
        assert toks[i].text == "const"
        name = toks[i + 1]
        assert toks[i + 2].text == ":"
        k = i + 3
        while toks[k].text != "=":
            if toks[k].kind == "open":
                k = match_close(toks, k)
            k += 1
        ty = toks[i + 3:k]
        expr = toks[k + 1:-1]
        assert toks[-1].text == ";"
        if self.vis == "spec":
            # N18: a constant whose VALUE is the object of a proof becomes a transparent spec function with the same initialiser
            self.note("N18-const-as-spec")
            head = mk("pub open spec fn")
            # rustc infers an unsuffixed leading literal of the initialiser at the declared type; spec mode would not
            INTS = ("u8", "u16", "u32", "u64", "u128", "usize", "i8", "i16", "i32", "i64", "i128", "isize")
            if len(ty) == 1 and ty[0].text in INTS and expr and expr[0].kind == "num" and re.fullmatch(r"[0-9][0-9_]*|0[xob][0-9a-fA-F_]+", expr[0].text):
                expr = [Tok("num", expr[0].text + ty[0].text, expr[0].ws, expr[0].line)] + list(expr[1:])
        else:
            self.note("N6-const-def")
            head = mk("pub fn")
        head[0].ws = toks[0].ws
        return head + [Tok("id", name.text, " ", name.line)] + mk("( ) ->") + ty + mk("{") + expr + mk("}")

    # ---- N7 panicking macros --------------------------------------------------
    def macros(self, toks):
        out = []
        i, n = 0, len(toks)
        while i < n:
            t = toks[i]
            if t.kind == "id" and i + 2 < n and toks[i + 1].text == "!" and toks[i + 2].kind == "open":
                j = match_close(toks, i + 2)
                args = split_commas(toks, i + 3, j)
                nm = t.text
                new = None
                if nm in ("assert", "debug_assert", "assume"):
                    a, b = args[0]
                    new = mk("vassert (") + toks[a:b] + mk(")")
                elif nm in ("assert_eq", "debug_assert_eq", "assert_ne", "debug_assert_ne"):
                    (a, b), (c, d) = args[0], args[1]
                    op = "==" if nm.endswith("eq") else "!="
                    new = mk("vassert ( (") + toks[a:b] + mk(") %s (" % op) + toks[c:d] + mk(") )")
                elif nm in ("panic", "unreachable", "todo", "unimplemented"):
                    new = mk("vpanic ( )")
                if new is not None:
                    new[0].ws = t.ws
                    out += new
                    self.note("N7-" + nm)
                    i = j + 1
                    continue
            # the macro-expanded form of panic!/unreachable!:  ::core::panicking::panic("..")  (items extracted from the expansion)
            if t.text == "::" and i + 6 < n and [x.text for x in toks[i + 1:i + 7]] == ["core", "::", "panicking", "::", "panic", "("]:
                j = match_close(toks, i + 6)
                new = mk("vpanic ( )")
                new[0].ws = t.ws
                out += new
                self.note("N7-panic-expanded")
                i = j + 1
                continue
            out.append(t)
            i += 1
        return out

    # ---- N9 branch hints ----------------------------------------------------
    def hints(self, toks):
        out = []
        for i, t in enumerate(toks):
            if t.kind == "id" and t.text in ("likely", "unlikely") and i + 1 < len(toks) and toks[i + 1].text == "(" \
                    and (i == 0 or toks[i - 1].text not in (".", "::", "fn")):
                toks[i + 1].ws = t.ws
                self.note("N9-hint")
                continue
            out.append(t)
        return out

    # ---- N8 unchecked access --------------------------------------------------
    def unchecked(self, toks):
        # unsafe { core::hint::unreachable_unchecked() }  ->  vpanic()
        out = []
        i, n = 0, len(toks)
        while i < n:
            t = toks[i]
            if t.text == "unsafe" and toks[i + 1].text == "{":
                j = match_close(toks, i + 1)
                inner = "".join(x.text for x in toks[i + 2:j])
                if inner in ("core::hint::unreachable_unchecked()", "unreachable_unchecked()"):
                    new = mk("vpanic ( )")
                    new[0].ws = t.ws
                    out += new
                    self.note("N8-unreachable_unchecked")
                    i = j + 1
                    continue
                # N8: unsafe { RECV.get_unchecked(I) } -> (&RECV[I]) ; get_unchecked_mut -> (&mut RECV[I])
                body = toks[i + 2:j]
                k = None
                for q in range(len(body) - 1):
                    if body[q].text in ("get_unchecked", "get_unchecked_mut") and q >= 2 and body[q - 1].text == "." and body[q + 1].text == "(":
                        k = q
                if k is not None and match_close(body, k + 1) == len(body) - 1:
                    recv = body[:k - 1]
                    if all(x.kind == "id" or x.text in (".", "::") for x in recv):
                        args = body[k + 2:len(body) - 1]
                        mut = body[k].text == "get_unchecked_mut"
                        new = mk("( & mut" if mut else "( &") + recv + mk("[") + args + mk("] )")
                        new[0].ws = t.ws
                        out += new
                        self.note("N8-get_unchecked")
                        i = j + 1
                        continue
                # N19: unsafe { core::slice::from_raw_parts_mut(X.as_mut_ptr().cast::<u64>(), LEN) } where X is a local
                # `[[u64; 2]; N]`  ->  limb_pairs_as_slice(&mut X, LEN): the reinterpretation of an array of limb pairs as a limb
                # slice is replaced by a call whose contract (unit side, label A) states the memory-layout fact: same bytes,
                # element 2*i + j of the slice is X[i][j]
                m = re.fullmatch(r"core::slice::from_raw_parts_mut\((\w+)\.as_mut_ptr\(\)\.cast::<u64>\(\),(\w+)\)", inner)
                if m:
                    new = mk("limb_pairs_as_slice ( & mut %s , %s )" % (m.group(1), m.group(2)))
                    new[0].ws = t.ws
                    out += new
                    self.note("N19-limb-pairs-as-slice")
                    i = j + 1
                    continue
                # N20: an unaligned 8-byte read through a raw pointer into a byte slice,
                #   u64::from_le_bytes(unsafe { *S.as_ptr().add(OFF).cast() })                        ->  le_u64_at(S, OFF)
                #   let P = S.as_ptr_range().end; .. u64::from_be_bytes(unsafe { *P.sub(OFF).cast() })  ->  be_u64_before_end(S, OFF)
                # The callee (unit side, label A) REQUIRES the read to lie inside the slice (OFF + 8 <= len, resp. 8 <= OFF <= len:
                # the memory-safety condition becomes a proof obligation) and ensures the value of the eight bytes.
                bt = [x.text for x in body]
                prev = [x.text for x in out[-4:]]
                nxt = toks[j + 1].text if j + 1 < n else ""
                if len(bt) > 9 and bt[0] == "*" and bt[2:8] == [".", "as_ptr", "(", ")", ".", "add"] and bt[8] == "(" and bt[-4:] == [".", "cast", "(", ")"] \
                        and match_close(body, 8) == len(bt) - 5 and prev == ["u64", "::", "from_le_bytes", "("] and nxt == ")":
                    ws = out[-4].ws
                    del out[-4:]
                    new = mk("le_u64_at ( %s ," % bt[1]) + body[9:len(bt) - 5] + mk(")")
                    new[0].ws = ws
                    out += new
                    self.note("N20-le-u64-at")
                    i = j + 2
                    continue
                if len(bt) > 7 and bt[0] == "*" and bt[2:4] == [".", "sub"] and bt[4] == "(" and bt[-4:] == [".", "cast", "(", ")"] \
                        and match_close(body, 4) == len(bt) - 5 and prev == ["u64", "::", "from_be_bytes", "("] and nxt == ")":
                    ptr = bt[1]
                    # the pointer must be bound exactly once by `let P = S.as_ptr_range().end;`
                    pat = ["let", ptr, "=", None, ".", "as_ptr_range", "(", ")", ".", "end", ";"]
                    hit = [q for q in range(len(out) - len(pat) + 1) if all(p is None or out[q + r].text == p for r, p in enumerate(pat))]
                    if len(hit) == 1 and out[hit[0] + 3].kind == "id":
                        src = out[hit[0] + 3].text
                        del out[hit[0]:hit[0] + len(pat)]
                        ws = out[-4].ws
                        del out[-4:]
                        new = mk("be_u64_before_end ( %s ," % src) + body[5:len(bt) - 5] + mk(")")
                        new[0].ws = ws
                        out += new
                        self.note("N20-be-u64-before-end")
                        i = j + 2
                        continue
                raise NormError("unsupported unsafe block: " + inner[:60])
            out.append(t)
            i += 1
        return out

    # ---- driver ---------------------------------------------------------------
    def run(self, kind, toks, rewrites=()):
        toks = [Tok(t.kind, t.text, t.ws, t.line) for t in toks]
        toks = self.strip_attrs(toks)
        if kind == "const":
            toks = self.const_def(toks)
            toks = self.macros(toks)
            toks = self.const_uses(toks)
        elif kind == "fn":
            toks = self.strip_quals(toks, "fn")
            if self.as_name:
                # N15: a trait-impl method is placed in an inherent impl under a mangled name
                k = next(i for i, t in enumerate(toks) if t.text == "fn")
                toks[k + 1] = Tok("id", self.as_name, toks[k + 1].ws, toks[k + 1].line)
                self.note("N15-rename")
            toks = self.mut_params(toks)
            toks = self.destructuring(toks)
            toks = self.hints(toks)
            toks = self.macros(toks)
            toks = self.unchecked(toks)
            toks = self.bool_ops(toks)
            toks = self.const_uses(toks)
        elif kind == "static":
            # N17: `static NAME: [T; N] = [ literals ];`  ->  `pub open spec fn NAME() -> Seq<int> { seq![ literals ] }`
            i = 0
            while toks[i].text != "static":
                i += 1
            name = toks[i + 1]
            k = i + 2
            while toks[k].text != "=":
                if toks[k].kind == "open":
                    k = match_close(toks, k)
                k += 1
            if toks[k + 1].text != "[" or toks[-1].text != ";" or toks[-2].text != "]":
                raise NormError("static initialiser is not an array literal")
            elems = toks[k + 2:-2]
            for e in elems:
                if e.kind not in ("num", "punct") or (e.kind == "punct" and e.text != ","):
                    raise NormError("static table holds a non-literal element")
            head = mk("pub open spec fn %s ( ) -> Seq < int > { seq ! [" % name.text)
            head[0].ws = toks[0].ws
            toks = head + elems + mk("] }")
            self.note("N17-static-table")
        elif kind == "trait":
            toks = self.strip_quals(toks, "trait")
        elif kind == "enum":
            toks = self.strip_quals(toks, "enum")
        elif kind == "struct":
            toks = self.strip_quals(toks, "struct")
            # N2: make fields public
            out = []
            bo = next((i for i, t in enumerate(toks) if t.text == "{"), len(toks))     # tuple structs have no brace body
            for i, t in enumerate(toks):
                if i > bo and t.kind == "id" and toks[i + 1].text == ":" and toks[i - 1].text in ("{", ","):
                    out += mk("pub")
                    self.note("N2-pub-field")
                out.append(t)
            toks = out
        for (pat, rep, count) in rewrites:
            toks = self.rewrite(toks, pat, rep, count)
        # comments never survive into the normalised text
        from .rtok import strip_comments_ws
        for t in toks:
            t.ws = strip_comments_ws(t.ws)
            if t.ws.count("\n") > 1:      # collapse blank lines left by comments
                t.ws = "\n" + t.ws.rsplit("\n", 1)[-1]
        # leading whitespace of the item: just the indentation of its first line
        if toks:
            toks[0].ws = "\n" + toks[0].ws.rsplit("\n", 1)[-1] if "\n" in toks[0].ws else toks[0].ws
        return toks

    def rewrite(self, toks, pat, rep, count):
        """declared per-unit rewrite: token sequence `pat` -> `rep`; `$1..$9` in
        pat match one balanced token tree or identifier each."""
        ptoks = [t.text for t in tokenize(pat)[0]]
        # `$ 1` is tokenised as two tokens; merge
        p2, k = [], 0
        while k < len(ptoks):
            if ptoks[k] == "$" and k + 1 < len(ptoks):
                p2.append("$" + ptoks[k + 1])
                k += 2
            else:
                p2.append(ptoks[k])
                k += 1
        ptoks = p2
        out = []
        i, n, hits = 0, len(toks), 0
        while i < n:
            binds = {}
            j = i
            ok = True
            for p in ptoks:
                if j >= n:
                    ok = False
                    break
                if p.startswith("$"):
                    if toks[j].kind == "open":
                        e = match_close(toks, j) + 1
                    elif toks[j].kind == "close":
                        ok = False
                        break
                    else:
                        e = j + 1
                    binds[p] = toks[j:e]
                    j = e
                elif toks[j].text == p:
                    j += 1
                else:
                    ok = False
                    break
            if ok:
                hits += 1
                rt = mk(rep)
                new = []
                k = 0
                while k < len(rt):
                    if rt[k].text == "$" and k + 1 < len(rt):
                        new += [Tok(x.kind, x.text, x.ws or " ", x.line) for x in binds["$" + rt[k + 1].text]]
                        k += 2
                    else:
                        new.append(rt[k])
                        k += 1
                if new:
                    new[0].ws = toks[i].ws
                out += new
                i = j
            else:
                out.append(toks[i])
                i += 1
        if count == -1:
            if hits > 1:
                raise NormError("declared rewrite %r matched %d times, expected at most 1" % (pat, hits))
        elif count is not None and hits != count:
            raise NormError("declared rewrite %r matched %d times, expected %d" % (pat, hits, count))
        self.note("R-declared:" + pat, hits)
        return out

"""Regenerate MANIFEST.json from vf/registry.py:  python3 -m vf.mkmanifest"""
import json
import os
from . import registry as R

HERE = os.path.dirname(os.path.dirname(os.path.abspath(__file__)))


def main():
    props = [json.loads(l) for l in open(os.path.join(HERE, "properties.jsonl"))]
    checks = []
    for p in props:
        pid = p["id"]
        if pid not in R.PROPS:
            continue
        s = R.PROPS[pid]
        checks.append({
            "property_id": pid,
            "quick_cmd": "./check %s --tier quick" % pid,
            "thorough_cmd": "./check %s --tier thorough" % pid,
            "evidence_file": "/verif/evidence/%s.json" % pid,
            "replay_cmd_template": "./check %s --replay {path}" % pid,
            "engine": "contracts",
            "level_claimed": {"category": s["level"], "text": s["level_text"], "design_ref": "DESIGN.md section 5, " + pid},
            "level_note": s["level_note"],
            "technique": s["technique"],
        })
    na = [{"property_id": p["id"], "reason": R.NOT_APPLICABLE.get(p["id"], "check not built yet (work in progress)")}
          for p in props if p["id"] not in R.PROPS]
    m = {
        "version": 1,
        "setup_cmd": "./setup.sh",
        "hooks": {
            "guard": "recmo_uint_verif",
            "enable": "RUSTFLAGS='--cfg recmo_uint_verif' (set by the driver for the Kani harness crate and the replay binary); Verus units need no hooks",
            "baseline_off_cmd": "cd /repo && cargo test --workspace --no-fail-fast --offline",
            "source_commits": R.HOOK_COMMITS,
            "add_only": True,
        },
        "engines": [
            {"name": "contracts", "path": "/verif/check", "serves_properties": [c["property_id"] for c in checks],
             "kind_free_text": "contract-based deductive verification of the real code: Verus (unbounded, all BITS/LIMBS) on functions re-extracted from /repo on every run "
                               "with ghost contracts merged in; Kani/CBMC harness-level pre/postconditions on the compiled crate per width (complete per width or labelled bounded) "
                               "as counterexample source; native replay of counterexamples"},
        ],
        "checks": checks,
        "notes": "exit 0 = all obligations discharged; exit 1 = a contract obligation failed (VIOLATION line, replay file); exit 2 = undecided (tool limit / lost anchor), never an alarm. "
                 "known-findings.txt lists repaired defects (fixed:) and recorded findings (finding:).",
        "not_applicable": na,
    }
    with open(os.path.join(HERE, "MANIFEST.json"), "w") as f:
        json.dump(m, f, indent=1)
    print("MANIFEST.json: %d checks, %d not_applicable" % (len(checks), len(na)))


if __name__ == "__main__":
    main()

"""Mechanical extraction (every run) of the pure functions of the proc-macro crate ruint-macro into the
Kani harness crate: kani/src/gen_macro_fns.rs.  The item texts are copied VERBATIM from
/repo/ruint-macro/src/lib.rs (located by item name, never by line); nothing is rewritten.
Dropped: everything that touches proc_macro::TokenStream (the Transformer, `uint`, `uint_with_path`, `error`).
usage: python3 -m vf.genmacro [outfile]
"""
import os
import sys
from .rtok import tokenize, emit
from .items import find_items, _item_start, match_close

REPO = os.environ.get("VERIF_REPO", "/repo")
HERE = os.path.dirname(os.path.dirname(os.path.abspath(__file__)))


def item_text(toks, kind, name, ctxsub=None):
    c = find_items(toks, kind, name)
    if ctxsub is not None:
        c = [x for x in c if any(ctxsub in "".join(h.split()) for h in x[3])]
    c = [x for x in c if not any("mod tests" in h for h in x[3])]
    if len(c) != 1:
        raise SystemExit("genmacro: %s %s: %d candidates" % (kind, name, len(c)))
    s, e = c[0][0], c[0][1]
    return emit(toks[s:e]).strip("\n")


def impl_text(toks, header_sub):
    """whole `impl ... { }` block whose header contains header_sub"""
    for i, t in enumerate(toks):
        if t.text == "impl":
            j = i
            while toks[j].text != "{":
                j += 1
            hdr = "".join(x.text for x in toks[i:j])
            if header_sub in hdr:
                return emit(toks[_item_start(toks, i):match_close(toks, j) + 1]).strip("\n")
    raise SystemExit("genmacro: impl %s not found" % header_sub)


def main():
    out = sys.argv[1] if len(sys.argv) > 1 else os.path.join(HERE, "kani", "src", "gen_macro_fns.rs")
    src = open(os.path.join(REPO, "ruint-macro", "src", "lib.rs")).read()
    toks, _ = tokenize(src)
    parts = [
        "// GENERATED on every run by vf/genmacro.py from /repo/ruint-macro/src/lib.rs - verbatim item texts, do not edit.",
        "#![allow(dead_code, clippy::all)]",
        "use std::fmt;",
        # enum LiteralBaseType
    ]
    # enum: locate `enum LiteralBaseType`
    for i, t in enumerate(toks):
        if t.text == "enum" and toks[i + 1].text == "LiteralBaseType":
            j = i
            while toks[j].text != "{":
                j += 1
            parts.append(emit(toks[_item_start(toks, i):match_close(toks, j) + 1]).strip("\n"))
            break
    else:
        raise SystemExit("genmacro: enum LiteralBaseType not found")
    parts.append(impl_text(toks, "implLiteralBaseType"))
    parts.append(impl_text(toks, "fmt::DisplayforLiteralBaseType"))
    parts.append(impl_text(toks, "std::str::FromStrforLiteralBaseType"))
    for fn in ("parse_digits", "pad_limbs", "parse_suffix"):
        parts.append(item_text(toks, "fn", fn))
    text = "\n\n".join(parts) + "\n"
    text = text.replace("\nfn parse_digits", "\npub fn parse_digits").replace("\nfn pad_limbs", "\npub fn pad_limbs").replace("\nfn parse_suffix", "\npub fn parse_suffix").replace("\nenum LiteralBaseType", "\npub enum LiteralBaseType")
    old = open(out).read() if os.path.exists(out) else None
    if old != text:
        open(out, "w").write(text)
    print("genmacro: wrote %s (%d bytes)" % (out, len(text)))


if __name__ == "__main__":
    main()

"""Minimal Rust tokenizer (lossless enough for token comparison and re-emission).

A token is (kind, text, ws) where `ws` is the whitespace/comment text that
preceded it in the source.  Kinds: id, life, num, str, chr, punct, open, close.
Comments are kept inside `ws` (so that ghost markers, which are comments, can
be recognised by the unit parser) but never take part in comparisons.
"""
import re

PUNCT3 = ["<<=", ">>=", "...", "..="]
PUNCT2 = ["::", "->", "=>", "==", "!=", "<=", ">=", "&&", "||", "+=", "-=", "*=",
          "/=", "%=", "^=", "&=", "|=", "<<", ">>", ".."]
OPEN = "([{"
CLOSE = ")]}"
MATCH = {")": "(", "]": "[", "}": "{"}

_id = re.compile(r"[A-Za-z_][A-Za-z0-9_]*")
_num = re.compile(r"[0-9][0-9A-Za-z_]*(\.[0-9][0-9A-Za-z_]*)?([eE][+-]?[0-9_]+)?[A-Za-z0-9_]*")
_rawstr = re.compile(r'b?r(#*)"')


class Tok:
    __slots__ = ("kind", "text", "ws", "line")

    def __init__(self, kind, text, ws, line):
        self.kind, self.text, self.ws, self.line = kind, text, ws, line

    def __repr__(self):
        return "Tok(%s,%r)" % (self.kind, self.text)


class TokError(Exception):
    pass


def tokenize(src):
    toks = []
    i, n = 0, len(src)
    ws_start = 0
    line = 1
    while i < n:
        c = src[i]
        if c in " \t\r\n":
            if c == "\n":
                line += 1
            i += 1
            continue
        if src.startswith("//", i):
            j = src.find("\n", i)
            i = n if j < 0 else j
            continue
        if src.startswith("/*", i):
            depth, j = 1, i + 2
            while j < n and depth:
                if src.startswith("/*", j):
                    depth += 1
                    j += 2
                elif src.startswith("*/", j):
                    depth -= 1
                    j += 2
                else:
                    if src[j] == "\n":
                        line += 1
                    j += 1
            i = j
            continue
        ws = src[ws_start:i]
        start = i
        m = _rawstr.match(src, i)
        if m:
            hashes = m.group(1)
            end = src.find('"' + hashes, m.end())
            if end < 0:
                raise TokError("unterminated raw string at line %d" % line)
            i = end + 1 + len(hashes)
            kind = "str"
        elif c == '"' or (c == "b" and src.startswith('b"', i)):
            j = i + (2 if c == "b" else 1)
            while j < n and src[j] != '"':
                j += 2 if src[j] == "\\" else 1
            i = j + 1
            kind = "str"
        elif c == "'" or (c == "b" and src.startswith("b'", i)):
            j = i + (2 if c == "b" else 1)
            # lifetime or char literal
            m2 = _id.match(src, j)
            if c == "'" and m2 and not src.startswith("'", m2.end()):
                i = m2.end()
                kind = "life"
            else:
                while j < n and src[j] != "'":
                    j += 2 if src[j] == "\\" else 1
                i = j + 1
                kind = "chr"
        elif c.isdigit():
            m2 = _num.match(src, i)
            j = m2.end()
            # `0..5` / `1.method()`: do not swallow a '.' that is not followed by a digit
            txt = src[i:j]
            if "." in txt:
                k = txt.index(".")
                if src[i + k:i + k + 2] == "..":
                    j = i + k
            i = j
            kind = "num"
        elif c.isalpha() or c == "_":
            m2 = _id.match(src, i)
            i = m2.end()
            kind = "id"
            # raw identifiers r#foo
            if src[start:i] == "r" and src.startswith("#", i):
                m3 = _id.match(src, i + 1)
                if m3:
                    i = m3.end()
        elif c in OPEN:
            i += 1
            kind = "open"
        elif c in CLOSE:
            i += 1
            kind = "close"
        else:
            for p in PUNCT3:
                if src.startswith(p, i):
                    i += 3
                    break
            else:
                for p in PUNCT2:
                    if src.startswith(p, i):
                        i += 2
                        break
                else:
                    i += 1
            kind = "punct"
        text = src[start:i]
        toks.append(Tok(kind, text, ws, line))
        line += text.count("\n")
        ws_start = i
    trailing = src[ws_start:]
    return toks, trailing


def texts(toks):
    return [t.text for t in toks]


def emit(toks, trailing=""):
    return "".join(t.ws + t.text for t in toks) + trailing


def match_close(toks, i):
    """index of the closing bracket matching the opening bracket at toks[i]"""
    assert toks[i].kind == "open", toks[i]
    depth = 0
    for j in range(i, len(toks)):
        k = toks[j].kind
        if k == "open":
            depth += 1
        elif k == "close":
            depth -= 1
            if depth == 0:
                return j
    raise TokError("unbalanced bracket at line %d" % toks[i].line)


def match_open(toks, j):
    assert toks[j].kind == "close"
    depth = 0
    for i in range(j, -1, -1):
        k = toks[i].kind
        if k == "close":
            depth += 1
        elif k == "open":
            depth -= 1
            if depth == 0:
                return i
    raise TokError("unbalanced bracket")


def strip_comments_ws(ws):
    """whitespace with comments removed (used when re-emitting real code)"""
    out = []
    i, n = 0, len(ws)
    while i < n:
        if ws.startswith("//", i):
            j = ws.find("\n", i)
            i = n if j < 0 else j
        elif ws.startswith("/*", i):
            depth, j = 1, i + 2
            while j < n and depth:
                if ws.startswith("/*", j):
                    depth += 1
                    j += 2
                elif ws.startswith("*/", j):
                    depth -= 1
                    j += 2
                else:
                    j += 1
            i = j
        else:
            out.append(ws[i])
            i += 1
    s = "".join(out)
    return s

"""Unit templates -> generated Verus files.

A unit template (units/<name>.rs) is a Verus file with `//@` directives:

  //@ include lib/foo.rs
  //@ extract <file> <kind> <name> [ctx="impl header substring"] [nth=N]
  //@         [bools=a,b] [rewrite="pat" => "rep" #count]
  <annotated item: the normalised real item plus ghost text between
   /*+*/ and /*-*/ markers>
  //@ end
  //@ import <unit> <fn name>          (external_body declaration carrying the
                                        contract proved in <unit>)

On every run the item is re-extracted from /repo, normalised (norm.py) and the
ghost segments of the template are merged into the *current* token stream of
the real item by token alignment.  Self-check: erasing the ghost segments from
the generated text gives exactly the normalised real tokens.
"""
import difflib
import hashlib
import json
import os
import re
import shlex

from .rtok import tokenize, Tok, match_close, emit, TokError, strip_comments_ws
from .items import select, ItemError
from .norm import Normaliser, NormError

VERIF = os.path.dirname(os.path.dirname(os.path.abspath(__file__)))
REPO = os.environ.get("VERIF_REPO", "/repo")
UNITS = os.path.join(VERIF, "units")
BUILD = os.environ.get("VERIF_BUILD") or os.path.join(VERIF, "build")

GB, GE = "/*+*/", "/*-*/"

GHOST_STARTERS = [
    ["requires"], ["ensures"], ["recommends"], ["invariant"], ["invariant_except_break"],
    ["decreases"], ["proof", "{"], ["assert"], ["let", "ghost"], ["let", "tracked"],
    ["reveal"], ["reveal_with_fuel"], ["broadcast", "use"], ["#", "[", "verifier"],
    ["returns"], ["no_unwind"], ["opens_invariants"],
    ["spec", "fn"],     # a spec-function member added to an extracted trait (no executable content)
]
FORBIDDEN_GHOST = {"assume", "admit"}


class UnitError(Exception):
    """extraction / merge problem: the check is undecided, never a violation"""


class Piece:
    __slots__ = ("ghost", "text", "tok")

    def __init__(self, ghost, text, tok=None):
        self.ghost, self.text, self.tok = ghost, text, tok


def parse_region(src):
    """annotated item text -> list of Pieces"""
    toks, trailing = tokenize(src)
    pieces = []
    state = False

    def do_ws(ws):
        nonlocal state
        pos = 0
        for m in re.finditer(r"/\*\+\*/|/\*-\*/", ws):
            if m.start() > pos:
                pieces.append(Piece(state, ws[pos:m.start()]))
            if m.group() == GB:
                if state:
                    raise UnitError("nested ghost begin marker")
                state = True
                pieces.append(Piece(True, GB))
            else:
                if not state:
                    raise UnitError("ghost end marker without begin")
                pieces.append(Piece(True, GE))
                state = False
            pos = m.end()
        if pos < len(ws):
            pieces.append(Piece(state, ws[pos:]))

    for t in toks:
        do_ws(t.ws)
        pieces.append(Piece(state, t.text, t))
    do_ws(trailing)
    if state:
        raise UnitError("unterminated ghost segment")
    return pieces


def exec_tokens(pieces):
    return [p.tok for p in pieces if p.tok is not None and not p.ghost]


def ghost_segments(pieces):
    segs, cur = [], []
    for p in pieces:
        if p.ghost:
            if p.tok is not None:
                cur.append(p.tok)
        elif p.tok is not None:
            if cur:
                segs.append(cur)
                cur = []
    if cur:
        segs.append(cur)
    return segs


def validate_ghost(pieces, where):
    """every ghost segment is a sequence of balanced items, each starting with a
    ghost keyword (or is one of the inline naming forms)"""
    problems = []
    for seg in ghost_segments(pieces):
        tx = [t.text for t in seg]
        # inline forms
        if tx == [")"]:
            continue
        if len(tx) == 3 and tx[0] == "(" and tx[2] == ":":      # -> (r: T)
            continue
        if len(tx) == 2 and tx[1] == ":" and seg[0].kind == "id":  # for x in it: e
            continue
        if tx[0] == ")" and len(tx) > 1:      # `-> (r: T) requires ...`
            seg = seg[1:]
            tx = tx[1:]
        for f in FORBIDDEN_GHOST:
            for i, x in enumerate(tx):
                if x == f and i + 1 < len(tx) and tx[i + 1] == "(":
                    problems.append("%s: `%s(` inside ghost text" % (where, f))
        depth = 0
        ok = True
        for t in seg:
            if t.kind == "open":
                depth += 1
            elif t.kind == "close":
                depth -= 1
                if depth < 0:
                    ok = False
        if depth != 0 or not ok:
            problems.append("%s: unbalanced ghost segment starting `%s`" % (where, " ".join(tx[:6])))
            continue
        if not any(tx[:len(s)] == s for s in GHOST_STARTERS):
            problems.append("%s: ghost segment does not start with a ghost keyword: `%s`" % (where, " ".join(tx[:6])))
    return problems


def merge(pieces, real):
    """emit the template with its exec tokens replaced by `real` (list of Tok)"""
    T = exec_tokens(pieces)
    a = [t.text for t in T]
    b = [t.text for t in real]
    if a == b:
        return "".join(p.text for p in pieces), False
    sm = difflib.SequenceMatcher(None, a, b, autojunk=False)
    action = {}   # T index -> ("keep",) | ("drop",) | ("emit", [real toks])
    before = {}   # T index -> [real toks] inserted before it
    tail = []
    for tag, i1, i2, j1, j2 in sm.get_opcodes():
        if tag == "equal":
            for k in range(i1, i2):
                action[k] = ("keep",)
        elif tag == "delete":
            for k in range(i1, i2):
                action[k] = ("drop",)
        elif tag == "replace":
            action[i1] = ("emit", real[j1:j2])
            for k in range(i1 + 1, i2):
                action[k] = ("drop",)
        elif tag == "insert":
            if i1 < len(a):
                before.setdefault(i1, []).extend(real[j1:j2])
            else:
                tail.extend(real[j1:j2])
    out = []
    ti = 0

    def emit_real(ts):
        for t in ts:
            out.append((t.ws if t.ws else " ") + t.text)
        out.append(" ")     # never glue an inserted token to the kept token that follows

    for p in pieces:
        if p.tok is not None and not p.ghost:
            if ti in before:
                emit_real(before[ti])
            act = action[ti]
            if act[0] == "keep":
                out.append(p.text)
            elif act[0] == "emit":
                emit_real(act[1])
            ti += 1
        else:
            out.append(p.text)
    # tokens appended after the last template token: place before trailing ws
    if tail:
        emit_real(tail)
    return "".join(out), True


_DANGLING = re.compile(r"let\s+(\w+)\s*=\s*/\*-\*/(\s*)let\s+(?:mut\s+)?(\w+)\s*=")


def fix_dangling_binders(text):
    """A template may name a result the code discards:  /*+*/let c =/*-*/ call(..);  When the current code binds that result
    itself (`let carry = call(..);`), the merged text would read `let c = let carry = ..`. The ghost binder is then moved behind the
    statement as `let ghost c = carry;` - ghost text only is moved, the exec tokens stay as they are (the erasure self-check
    still runs on the result)."""
    while True:
        m = _DANGLING.search(text)
        if not m:
            return text
        # end of the real statement: next `;` at bracket depth 0, with no ghost marker in between
        depth, k, end = 0, m.end(), -1
        while k < len(text):
            c = text[k]
            if text.startswith(GB, k):
                break
            if c in "([{":
                depth += 1
            elif c in ")]}":
                depth -= 1
                if depth < 0:
                    break
            elif c == ";" and depth == 0:
                end = k
                break
            k += 1
        if end < 0:
            return text
        ghost_name, ws, real_name = m.group(1), m.group(2), m.group(3)
        head = text[:m.start()] + GE + ws
        stmt = text[m.start():end + 1]
        stmt = stmt[stmt.index(GE) + len(GE):].lstrip()
        text = head + stmt + " " + GB + "let ghost " + ghost_name + " = " + real_name + ";" + GE + text[end + 1:]


# --------------------------------------------------------------------------
# directives
# --------------------------------------------------------------------------

def parse_extract_args(line):
    # //@ extract <file> <kind> <name> key=value ...
    lex = shlex.split(line)
    file_, kind, name = lex[0], lex[1], lex[2]
    opts = {"ctx": None, "nth": None, "bools": [], "rewrites": [], "consts": None, "vis": "pub"}
    i = 3
    while i < len(lex):
        w = lex[i]
        if w.startswith("ctx="):
            opts["ctx"] = w[4:]
        elif w.startswith("nth="):
            opts["nth"] = int(w[4:])
        elif w.startswith("vis="):
            opts["vis"] = w[4:]
        elif w.startswith("as="):
            opts["as"] = w[3:]
        elif w.startswith("consts="):
            opts["consts"] = [x for x in w[7:].split(",") if x]
        elif w.startswith("cprefix="):
            opts["cprefix"] = [x for x in w[8:].split(",") if x]
        elif w.startswith("bools="):
            opts["bools"] = [x for x in w[6:].split(",") if x]
        elif w.startswith("rewrite="):
            pat = w[8:]
            assert lex[i + 1] == "=>", line
            rep = lex[i + 2]
            cnt = None
            i += 2
            if i + 1 < len(lex) and lex[i + 1].startswith("#"):
                cnt = -1 if lex[i + 1] == "#?" else int(lex[i + 1][1:])     # `#?`: zero or one occurrence
                i += 1
            opts["rewrites"].append((pat, rep, cnt))
        else:
            raise UnitError("bad extract option: " + w)
        i += 1
    return file_, kind, name, opts


_file_cache = {}
EXPANDED = os.path.join(BUILD, "expanded.rs")


EXPAND_FEATURES = "num-traits,num-integer,subtle,zeroize"


def ensure_expanded():
    """(re)generate build/expanded.rs with rustc -Zunpretty=expanded when /repo's sources are newer"""
    import subprocess
    newest = 0
    for root, _, files in os.walk(os.path.join(REPO, "src")):
        for f in files:
            if f.endswith(".rs"):
                newest = max(newest, os.path.getmtime(os.path.join(root, f)))
    newest = max(newest, os.path.getmtime(os.path.join(REPO, "Cargo.toml")))
    key = "%s %.6f" % (os.path.realpath(REPO), newest)
    keyfile = EXPANDED + ".key"
    if os.path.exists(EXPANDED) and os.path.getsize(EXPANDED) > 1000 and os.path.exists(keyfile) and open(keyfile).read() == key \
            and os.path.getmtime(EXPANDED) >= newest:
        return
    os.makedirs(BUILD, exist_ok=True)
    env = dict(os.environ)
    env["CARGO_NET_OFFLINE"] = "true"
    p = subprocess.run(["cargo", "+nightly", "rustc", "--offline", "--lib", "--profile=check", "--features", EXPAND_FEATURES,
                        "--target-dir", os.path.join(BUILD, "expand-target"), "--", "-Zunpretty=expanded"],
                       cwd=REPO, capture_output=True, text=True, env=env, timeout=900)
    if p.returncode != 0 or len(p.stdout) < 1000:
        raise UnitError("macro expansion failed: " + p.stderr[-400:])
    with open(EXPANDED, "w") as f:
        f.write(p.stdout)
    with open(keyfile, "w") as f:
        f.write(key)


def load_tokens(file_):
    if file_ == "expanded":
        ensure_expanded()
    path = EXPANDED if file_ == "expanded" else os.path.join(REPO, file_)
    key = (path, os.path.getmtime(path))
    if key not in _file_cache:
        src = open(path).read()
        _file_cache[key] = (tokenize(src)[0], src)
    return _file_cache[key]


def extract_real(file_, kind, name, opts):
    toks, src = load_tokens(file_)
    try:
        s, e, body, ctx, kw = select(toks, kind, name, opts["ctx"], opts["nth"])
    except ItemError as ex:
        raise UnitError("anchor lost: %s in %s: %s" % (name, file_, ex))
    item = toks[s:e]
    from .norm import CONSTS, CONST_PREFIX
    n = Normaliser(bools=opts["bools"], vis=opts.get("vis", "pub"), as_name=opts.get("as"),
                   consts=(set(CONSTS) | set(opts["consts"])) if opts.get("consts") else None,
                   const_prefix=(set(CONST_PREFIX) | set(opts["cprefix"])) if opts.get("cprefix") else None)
    try:
        real = n.run(kind, item, opts["rewrites"])
    except (NormError, TokError, IndexError, AssertionError) as ex:
        raise UnitError("normalisation refused %s in %s: %s" % (name, file_, ex))
    raw = emit(item).strip()
    info = {
        "file": file_, "kind": kind, "name": name, "ctx": opts["ctx"],
        "lines": [toks[s].line, toks[e - 1].line],
        "sha256": hashlib.sha256(" ".join(t.text for t in item).encode()).hexdigest()[:16],
        "normalisations": dict(n.log),
    }
    return real, info


class Generated:
    def __init__(self):
        self.text = ""
        self.functions = []   # dicts: name, file, lines, gen_lines, changed, normalisations
        self.problems = []
        self.assumptions = []


def _contract_header(pieces):
    """pieces up to (excluding) the exec body-open brace of an annotated fn"""
    T = exec_tokens(pieces)
    n = Normaliser()
    name, po, pc, bo, bc = n.fn_parts(T)
    target = T[bo]
    out = []
    for p in pieces:
        if p.tok is target:
            break
        out.append(p)
    return out


def find_method_unit(fn):
    """unit whose template extracts an inherent Uint method `fn` (for the missing-method auto-import)"""
    for f in sorted(os.listdir(UNITS)):
        if not f.endswith(".rs"):
            continue
        txt = open(os.path.join(UNITS, f)).read()
        for m in re.finditer(r"^//@ extract (\S+) (fn|const) (\w+)(.*)$", txt, re.M):
            if m.group(3) == fn and "as=" not in m.group(4) and m.group(1) != "expanded":
                # only methods placed inside an `impl ... Uint<BITS, LIMBS>` block of that unit
                before = txt[:m.start()]
                k = before.rfind("\nimpl<const BITS: usize, const LIMBS: usize> Uint<BITS, LIMBS> {")
                if k >= 0 and before.count("\n}\n", k) == 0:
                    return f[:-3]
    return None


def gen_unit(unit, _stack=(), extra_imports=()):
    """returns Generated for units/<unit>.rs (and writes nothing).
    extra_imports: [(unit, method)] appended in a separate impl block (missing-method auto-import on changed code)"""
    path = os.path.join(UNITS, unit + ".rs")
    src = open(path).read()
    if extra_imports:
        blk = "impl<const BITS: usize, const LIMBS: usize> Uint<BITS, LIMBS> {\n" + "".join("//@ import %s %s\n" % (u2, fn) for (u2, fn) in extra_imports) + "}\n"
        k = src.rindex("} // verus!")
        src = src[:k] + "// ---- auto-imported: methods the current code calls that the template does not declare\n" + blk + src[k:]
    g = Generated()
    out = []
    lines = src.split("\n")
    i = 0
    curline = 1

    def add(text):
        nonlocal curline
        out.append(text)
        curline += text.count("\n")

    while i < len(lines):
        ln = lines[i]
        st = ln.strip()
        if st.startswith("//@ include "):
            inc = st[len("//@ include "):].strip()
            add("// ---- include %s\n" % inc)
            add(open(os.path.join(UNITS, inc)).read().rstrip("\n") + "\n")
            i += 1
            continue
        if st.startswith("//@ import "):
            parts = st.split()
            u2, fn = parts[2], parts[3]
            hdr = import_header(u2, fn, _stack + (unit,))
            hdr = hdr.replace("#[verifier::external_body]", "")
            add("#[verifier::external_body]\n" + hdr.strip() + "\n{ unimplemented!() }\n")
            g.assumptions.append("import %s::%s (contract proved in unit %s)" % (u2, fn, u2))
            i += 1
            continue
        if st.startswith("//@ extract "):
            args = st[len("//@ extract "):]
            # continuation lines `//@   ...`
            while i + 1 < len(lines) and lines[i + 1].strip().startswith("//@  "):
                i += 1
                args += " " + lines[i].strip()[3:].strip()
            file_, kind, name, opts = parse_extract_args(args)
            j = i + 1
            region = []
            while j < len(lines) and lines[j].strip() != "//@ end":
                region.append(lines[j])
                j += 1
            if j >= len(lines):
                raise UnitError("%s: extract %s without //@ end" % (unit, name))
            region_src = "\n".join(region) + "\n"
            pieces = parse_region(region_src)
            real, info = extract_real(file_, kind, name, opts)
            # guard: an unmarked template would silently lose its proof text in a merge
            for t in exec_tokens(pieces):
                if t.kind == "id" and t.text in ("requires", "ensures", "invariant", "decreases", "recommends", "invariant_except_break"):
                    raise UnitError("%s::%s: template region is not marked (ghost keyword `%s` among exec tokens); run ./vfx mark %s" % (unit, name, t.text, unit))
            probs = validate_ghost(pieces, "%s::%s" % (unit, name))
            g.problems += probs
            text, changed = merge(pieces, real)
            if changed:
                text = fix_dangling_binders(text)
            # self-check: erasing ghost from the generated text gives the real tokens
            chk = exec_tokens(parse_region(text))
            if [t.text for t in chk] != [t.text for t in real]:
                raise UnitError("%s::%s: ghost-erasure self-check failed" % (unit, name))
            info["gen_lines"] = [curline, curline + text.count("\n")]
            info["changed_vs_template"] = changed
            info["unit"] = unit
            g.functions.append(info)
            add("// ---- extracted %s %s from %s:%d-%d%s\n" % (kind, name, file_, info["lines"][0], info["lines"][1],
                                                               " (differs from template: merged)" if changed else ""))
            info["gen_lines"][0] = curline
            add(text)
            info["gen_lines"][1] = curline
            i = j + 1
            continue
        add(ln + "\n")
        i += 1
    g.text = "".join(out)
    # scan for trusted escapes
    for m in re.finditer(r"assume_specification|external_body|\badmit\s*\(|\bassume\s*\(|external_fn_specification|#\[verifier::external\]|axiom ", g.text):
        pass
    return g


_import_cache = {}


def import_header(unit, fn, stack=()):
    key = (unit, fn)
    if key in _import_cache:
        return _import_cache[key]
    path = os.path.join(UNITS, unit + ".rs")
    lines = open(path).read().split("\n")
    has_as = any(l.strip().startswith("//@ extract ") and (" as=%s " % fn) in (l + " ") for l in lines)   # a renamed item (N15) is imported by its new name
    i = 0
    while i < len(lines):
        st = lines[i].strip()
        if st.startswith("//@ extract "):
            args = st[len("//@ extract "):]
            while i + 1 < len(lines) and lines[i + 1].strip().startswith("//@  "):
                i += 1
                args += " " + lines[i].strip()[3:].strip()
            file_, kind, name, opts = parse_extract_args(args)
            j = i + 1
            region = []
            while lines[j].strip() != "//@ end":
                region.append(lines[j])
                j += 1
            if (opts.get("as") == fn) or (name == fn and not has_as):
                pieces = parse_region("\n".join(region) + "\n")
                real, info = extract_real(file_, kind, name, opts)
                text, changed = merge(pieces, real)
                hp = _contract_header(parse_region(text))
                hdr = "".join(p.text for p in hp)
                # drop a decreases clause? keep: harmless for external_body
                _import_cache[key] = hdr
                return hdr
            i = j
        i += 1
    raise UnitError("import: %s not found in unit %s" % (fn, unit))


# --------------------------------------------------------------------------
# authoring tool: (re)compute ghost markers of a template against /repo
# --------------------------------------------------------------------------

def _tree(toks, idxs):
    """idxs: indices into toks (pre-marked ghost tokens removed) -> nodes
    node = (i,) plain token | (i_open, i_close, children)"""
    nodes = []
    stack = [nodes]
    opens = []
    for i in idxs:
        t = toks[i]
        if t.kind == "open":
            node = [i, None, []]
            stack[-1].append(node)
            stack.append(node[2])
            opens.append(node)
        elif t.kind == "close":
            if not opens:
                raise UnitError("unbalanced template/real item")
            node = opens.pop()
            node[1] = i
            stack.pop()
        else:
            stack[-1].append((i,))
    if opens:
        raise UnitError("unbalanced template/real item")
    return nodes


def _all(node, acc):
    if len(node) == 1:
        acc.append(node[0])
    else:
        acc.append(node[0])
        acc.append(node[1])
        for c in node[2]:
            _all(c, acc)


def tree_align(mtoks, real):
    """structure-aware alignment of template tokens with the real tokens.
    returns (ghost flags for mtoks, list of mismatches)"""
    n = len(mtoks)
    ghost = [False] * n
    # pre-pass: named return  `-> ( id : T )`  and  named iterator `in id :`
    pre = set()
    for i, t in enumerate(mtoks):
        if t.text == "->" and i + 3 < n and mtoks[i + 1].text == "(" and mtoks[i + 2].kind == "id" and mtoks[i + 3].text == ":":
            j = match_close(mtoks, i + 1)
            pre.update([i + 1, i + 2, i + 3, j])
        if t.text == "in" and i + 2 < n and mtoks[i + 1].kind == "id" and mtoks[i + 2].text == ":" and mtoks[i + 3].text != ":":
            pre.update([i + 1, i + 2])
    for i in pre:
        ghost[i] = True
    tn = _tree(mtoks, [i for i in range(n) if i not in pre])
    rn = _tree(real, list(range(len(real))))
    bad = []

    import sys
    sys.setrecursionlimit(10000)
    NEG = -10 ** 9
    memo = {}

    def embed(tnodes, rnodes):
        """best embedding of rnodes into tnodes; returns (score, pairs) or (NEG, None)"""
        k = (id(tnodes), id(rnodes))
        if k in memo:
            return memo[k]
        nt, nr = len(tnodes), len(rnodes)
        # f[i][j][c]
        f = [[[NEG, NEG] for _ in range(nr + 1)] for _ in range(nt + 1)]
        ch = [[[None, None] for _ in range(nr + 1)] for _ in range(nt + 1)]
        for i in range(nt, -1, -1):
            for j in range(nr, -1, -1):
                for c in (0, 1):
                    if j == nr:
                        f[i][j][c] = 0
                        ch[i][j][c] = "end"
                        continue
                    if i == nt:
                        continue
                    best, how = f[i + 1][j][0], "skip"
                    if best > NEG and (c == 1 or i == 0) and _starter_ok(tnodes, i):
                        best += 3
                    x, y = tnodes[i], rnodes[j]
                    ok = False
                    g = 0
                    if len(x) == len(y) and mtoks[x[0]].text == real[y[0]].text:
                        if len(x) == 1:
                            ok = True
                        else:
                            g, _ = embed(x[2], y[2])
                            ok = g > NEG
                    if ok and f[i + 1][j + 1][1] > NEG:
                        v = f[i + 1][j + 1][1] + g + (2 if c else 0) + 1
                        if v >= best:
                            best, how = v, "match"
                    f[i][j][c] = best
                    ch[i][j][c] = how
        if f[0][0][0] <= NEG:
            memo[k] = (NEG, None)
            return memo[k]
        pairs = []
        i, j, c = 0, 0, 0
        while j < nr:
            how = ch[i][j][c]
            if how == "match":
                pairs.append((i, j))
                i, j, c = i + 1, j + 1, 1
            else:
                i, c = i + 1, 0
        memo[k] = (f[0][0][0], pairs)
        return memo[k]

    def _starter_ok(tnodes, i):
        tx = []
        for x in tnodes[i:i + 3]:
            tx.append(mtoks[x[0]].text)
        for st in GHOST_STARTERS:
            if tx[:len(st)] == st[:len(tx)] and len(tx) >= min(len(st), 2):
                return True
        return False

    def apply(tnodes, rnodes):
        sc, pairs = embed(tnodes, rnodes)
        if pairs is None:
            bad.append(("no-embedding", " ".join(mtoks[x[0]].text for x in tnodes)[:120], " ".join(real[y[0]].text for y in rnodes)[:120]))
            return
        matched = set(i for i, _ in pairs)
        for i, x in enumerate(tnodes):
            if i not in matched:
                acc = []
                _all(x, acc)
                for q in acc:
                    ghost[q] = True
        for i, j in pairs:
            if len(tnodes[i]) == 3:
                apply(tnodes[i][2], rnodes[j][2])

    apply(tn, rn)
    return ghost, bad


def mark_unit(unit):
    path = os.path.join(UNITS, unit + ".rs")
    lines = open(path).read().split("\n")
    out = []
    i = 0
    report = []
    while i < len(lines):
        st = lines[i].strip()
        out.append(lines[i])
        if st.startswith("//@ extract "):
            args = st[len("//@ extract "):]
            while i + 1 < len(lines) and lines[i + 1].strip().startswith("//@  "):
                i += 1
                out.append(lines[i])
                args += " " + lines[i].strip()[3:].strip()
            file_, kind, name, opts = parse_extract_args(args)
            j = i + 1
            region = []
            while lines[j].strip() != "//@ end":
                region.append(lines[j])
                j += 1
            region_src = "\n".join(region) + "\n"
            plain = region_src.replace(GB, "").replace(GE, "")
            mtoks, trailing = tokenize(plain)
            real, info = extract_real(file_, kind, name, opts)
            a = [t.text for t in mtoks]
            ghost, bad = tree_align(mtoks, real)
            if bad:
                report.append((name, bad))
                out += region
            else:
                buf = []
                state = False
                for k, t in enumerate(mtoks):
                    if ghost[k] and not state:
                        buf.append(t.ws + GB + t.text)
                        state = True
                    elif not ghost[k] and state:
                        buf.append(GE + t.ws + t.text)
                        state = False
                    else:
                        buf.append(t.ws + t.text)
                if state:
                    buf.append(GE)
                buf.append(trailing)
                new = "".join(buf)
                out += new.rstrip("\n").split("\n")
                probs = validate_ghost(parse_region(new), name)
                if probs:
                    report.append((name, probs))
            i = j
            out.append(lines[i])
        i += 1
    return "\n".join(out), report

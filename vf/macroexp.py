"""C19, bounded stand-in: execute the REAL `uint!` proc macro (built from /repo's working tree) on the grid of literal and nesting
shapes in /verif/macrocheck and compare each expansion with runtime parsing of the same digits; four literals that must be rejected
are compiled one by one and must fail to compile at their own line.  Returns (cases_total, cases_ok, violations, undecided)."""
import os, re, subprocess

HERE = os.path.dirname(os.path.dirname(os.path.abspath(__file__)))
CRATE = os.path.join(HERE, "macrocheck")
REPO = os.environ.get("VERIF_REPO", "/repo")
BAD = ["bad_digit", "bad_range", "bad_digit_eq_base", "bad_range_bits"]


def _cargo(args, timeout=900):
    env = dict(os.environ, CARGO_NET_OFFLINE="true")
    return subprocess.run(["cargo"] + args, cwd=CRATE, capture_output=True, text=True, timeout=timeout, env=env)


def _errors_at_main(stderr):
    """rustc diagnostics whose primary span is in the grid file itself (the macro rejected or mis-expanded a literal there)"""
    out = []
    for m in re.finditer(r"^error(?:\[E\d+\])?: (.*)\n\s+--> src/main\.rs:(\d+):(\d+)", stderr, re.M):
        out.append((m.group(1), int(m.group(2))))
    return out


def run():
    viol, und = [], []
    total = ok = 0
    lock = os.path.join(REPO, "Cargo.lock")
    if os.path.exists(lock):
        try:
            open(os.path.join(CRATE, "Cargo.lock"), "w").write(open(lock).read())
        except OSError:
            pass
    src = open(os.path.join(CRATE, "src", "main.rs")).read().split("\n")
    try:
        b = _cargo(["build", "--offline"])
    except subprocess.TimeoutExpired:
        return 0, 0, [], [{"obligation": "macrocheck", "message": "build of the macro grid timed out"}]
    if b.returncode != 0:
        errs = _errors_at_main(b.stderr)
        if errs:
            for msg, line in errs[:6]:
                total += 1
                viol.append({"engine": "exec", "unit": "macrocheck", "obligation": "macrocheck::valid literal shape accepted and expanded (src/main.rs:%d)" % line,
                             "function": "uint!", "message": "the real uint! macro rejects or mis-expands a valid literal shape: " + msg,
                             "clause": src[line - 1].strip()[:300] if 0 < line <= len(src) else "", "source": "macrocheck/src/main.rs:%d" % line, "cex": None})
        else:
            und.append({"obligation": "macrocheck", "message": "the macro grid does not build for a reason outside the grid file: " + b.stderr[-400:]})
        return total, ok, viol, und
    exe = os.path.join(HERE, "build", "macrocheck-target", "debug", "macrocheck")
    try:
        r = subprocess.run([exe], capture_output=True, text=True, timeout=120)
    except (OSError, subprocess.TimeoutExpired) as ex:
        return 0, 0, [], [{"obligation": "macrocheck", "message": "grid binary did not run: %s" % ex}]
    done = False
    for line in r.stdout.split("\n"):
        if line.startswith("MACRO-OK "):
            total += 1; ok += 1
        elif line.startswith("MACRO-FAIL "):
            total += 1
            viol.append({"engine": "exec", "unit": "macrocheck", "obligation": "macrocheck::expansion equals runtime parsing of the same digits :: " + line[11:90],
                         "function": "uint!", "message": "the constant produced by the real uint! macro differs from runtime parsing of the same digits",
                         "clause": line[11:], "source": "macrocheck/src/main.rs", "cex": None})
        elif line.startswith("MACRO-DONE"):
            done = True
    if not done or r.returncode != 0:
        und.append({"obligation": "macrocheck", "message": "grid binary ended abnormally (exit %s): %s" % (r.returncode, (r.stdout + r.stderr)[-300:])})
    if total < 25:
        und.append({"obligation": "macrocheck", "message": "only %d grid cases ran (vacuity guard: >= 25 expected)" % total})
    for feat in BAD:
        total += 1
        try:
            b = _cargo(["build", "--offline", "--features", feat])
        except subprocess.TimeoutExpired:
            und.append({"obligation": "macrocheck::" + feat, "message": "build timed out"}); continue
        if b.returncode == 0:
            viol.append({"engine": "exec", "unit": "macrocheck", "obligation": "macrocheck::invalid literal is a compile-time error (%s)" % feat, "function": "uint!",
                         "message": "a literal with an invalid digit / a value >= 2^bits was accepted by the real uint! macro",
                         "clause": [l for l in src if ("fn " + feat + "(") in l][0].strip() if any(("fn " + feat + "(") in l for l in src) else feat,
                         "source": "macrocheck/src/main.rs", "cex": None})
        elif _errors_at_main(b.stderr):
            ok += 1
        else:
            und.append({"obligation": "macrocheck::" + feat, "message": "build failed for a reason outside the grid file: " + b.stderr[-300:]})
    return total, ok, viol, und


if __name__ == "__main__":
    t, o, v, u = run()
    print(t, o)
    for x in v: print("VIOL", x["obligation"], "|", x["message"], "|", x["clause"])
    for x in u: print("UND", x)

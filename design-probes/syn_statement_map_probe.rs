use syn::{visit::Visit, spanned::Spanned};
struct V { depth: usize }
impl<'ast> Visit<'ast> for V {
    fn visit_item_fn(&mut self, f: &'ast syn::ItemFn) {
        let s = f.span();
        println!("fn {} {}:{}-{}:{} stmts={}", f.sig.ident, s.start().line, s.start().column, s.end().line, s.end().column, f.block.stmts.len());
        for (i, st) in f.block.stmts.iter().enumerate() {
            let sp = st.span();
            println!("  stmt[{}] {}..{} kind={}", i, sp.start().line, sp.end().line, match st { syn::Stmt::Local(_) => "let", syn::Stmt::Expr(e, _) => match e { syn::Expr::ForLoop(_) => "for", syn::Expr::If(_) => "if", syn::Expr::While(_) => "while", _ => "expr" }, _ => "other" });
        }
        syn::visit::visit_item_fn(self, f);
    }
}
fn main() {
    let src = std::fs::read_to_string(std::env::args().nth(1).unwrap()).unwrap();
    let file = syn::parse_file(&src).unwrap();
    V { depth: 0 }.visit_file(&file);
}

#![allow(unused)]
use ruint::Uint;
#[cfg(kani)]
mod h {
    use super::*;
    #[kani::proof_for_contract(ruint::algorithms::carrying_add)]
    fn c_carrying_add() {
        let _ = ruint::algorithms::carrying_add(kani::any(), kani::any(), kani::any());
    }
    fn any_uint<const B: usize, const L: usize>() -> Uint<B, L> {
        let mut limbs: [u64; L] = kani::any();
        if L > 0 { limbs[L - 1] &= Uint::<B, L>::MASK; }
        Uint::from_limbs(limbs)
    }
    #[kani::proof_for_contract(Uint::<100,2>::overflowing_add)]
    fn c_oadd_100() {
        let _ = Uint::<100,2>::overflowing_add(any_uint(), any_uint());
    }
    #[kani::proof_for_contract(Uint::overflowing_add)]
    fn c_oadd_100b() {
        let _ = Uint::<100,2>::overflowing_add(any_uint(), any_uint());
    }
    // modular: use carrying_add's contract instead of body
    #[kani::proof_for_contract(Uint::overflowing_add)]
    #[kani::stub_verified(ruint::algorithms::carrying_add)]
    fn c_oadd_100c() {
        let _ = Uint::<100,2>::overflowing_add(any_uint(), any_uint());
    }
}

use vstd::prelude::*;
use vstd::arithmetic::power2::*;
use vstd::arithmetic::mul::*;
use vstd::arithmetic::div_mod::*;
use vstd::bits::*;
verus! {

pub open spec const B: nat = 0x1_0000_0000_0000_0000;

pub open spec fn lv(s: Seq<u64>, n: nat) -> nat
    decreases n
{
    if n == 0 { 0 } else { lv(s, (n - 1) as nat) + (s[n - 1] as nat) * pow2(64 * (n - 1) as nat) }
}

pub proof fn lemma_pow2_64()
    ensures pow2(64) == B
{
    lemma2_to64();
}

pub proof fn lemma_lv_ext(s: Seq<u64>, t: Seq<u64>, n: nat)
    requires n <= s.len(), n <= t.len(), forall|j: int| 0 <= j < n ==> s[j] == t[j]
    ensures lv(s, n) == lv(t, n)
    decreases n
{
    if n > 0 { lemma_lv_ext(s, t, (n - 1) as nat); }
}

trait DoubleWord<T>: Sized + Copy {
    fn muladd2(a: T, b: T, c: T, d: T) -> Self;
    fn high(self) -> T;
    fn low(self) -> T;
    fn split(self) -> (T, T);
}


impl DoubleWord<u64> for u128 {
    fn muladd2(a: u64, b: u64, c: u64, d: u64) -> (r: Self)
        ensures r as nat == (a as nat) * (b as nat) + (c as nat) + (d as nat)
    {
        proof {
            assert((a as nat) * (b as nat) <= 0xffff_ffff_ffff_ffff * 0xffff_ffff_ffff_ffff) by(nonlinear_arith)
                requires a as nat <= 0xffff_ffff_ffff_ffff, b as nat <= 0xffff_ffff_ffff_ffff;
        }
        Self::from(a) * Self::from(b) + Self::from(c) + Self::from(d)
    }
    fn high(self) -> (r: u64)
        ensures r as nat == (self as nat) / B
    {
        proof { lemma_u128_shr_is_div(self, 64); lemma_pow2_64(); }
        (self >> 64) as u64
    }
    fn low(self) -> (r: u64)
        ensures r as nat == (self as nat) % B
    {
        assert(self as u64 == (self % 0x1_0000_0000_0000_0000u128) as u64) by(bit_vector);
        self as u64
    }
    fn split(self) -> (r: (u64, u64))
        ensures r.0 as nat + (r.1 as nat) * B == self as nat
    {
        proof { lemma_fundamental_div_mod(self as int, B as int); }
        (self.low(), self.high())
    }
}

pub fn addmul_nx1(lhs: &mut [u64], a: &[u64], b: u64) -> (carry: u64)
    requires old(lhs).len() == a.len()
    ensures
        final(lhs).len() == old(lhs).len(),
        lv(final(lhs)@, a.len() as nat) + (carry as nat) * pow2(64 * a.len() as nat)
            == lv(old(lhs)@, a.len() as nat) + lv(a@, a.len() as nat) * (b as nat),
{
    assert(lhs.len() == a.len());
    let mut carry = 0;
    proof {
        assert(lv(lhs@, 0) == 0);
        assert(lv(old(lhs)@, 0) == 0);
        assert(lv(a@, 0) == 0);
        assert((carry as nat) * pow2(0) == 0) by(nonlinear_arith) requires carry == 0;
        assert(lv(a@, 0) * (b as nat) == 0) by(nonlinear_arith) requires lv(a@, 0) == 0;
    }
    for i in 0..a.len()
        invariant
            lhs.len() == a.len(),
            lv(lhs@, i as nat) + (carry as nat) * pow2(64 * i as nat)
                == lv(old(lhs)@, i as nat) + lv(a@, i as nat) * (b as nat),
            forall|j: int| i <= j < a.len() ==> lhs@[j] == old(lhs)@[j],
    {
        let ghost prev = lhs@;
        let ghost c0 = carry;
        let (t0, t1) = u128::muladd2(a[i], b, carry, lhs[i]).split();
        lhs[i] = t0; carry = t1;
        proof {
            lemma_lv_ext(prev, lhs@, i as nat);
            lemma_pow2_adds(64 * i as nat, 64);
            lemma_pow2_64();
            let w = pow2(64 * i as nat);
            let ai = a@[i as int] as nat;
            let li = old(lhs)@[i as int] as nat;
            assert(t0 as nat + (t1 as nat) * B == ai * (b as nat) + c0 as nat + li);
            assert((t0 as nat) * w + (t1 as nat) * (w * B) == (ai * w) * (b as nat) + (c0 as nat) * w + li * w) by(nonlinear_arith)
                requires t0 as nat + (t1 as nat) * B == ai * (b as nat) + c0 as nat + li;
            assert((lv(a@, i as nat) + ai * w) * (b as nat) == lv(a@, i as nat) * (b as nat) + (ai * w) * (b as nat)) by(nonlinear_arith);
        }
    }
    carry
}

} // verus!
fn main() {}

use vstd::prelude::*;
use vstd::arithmetic::mul::*;
use vstd::arithmetic::div_mod::*;
verus! {

pub open spec const B: int = 0x1_0000_0000_0000_0000;

// Knuth D quotient-digit estimate from a 3-by-2 division of the (implicitly shifted) leading limbs.
//   W  : (n+1)-limb window, W < D*B         D : n-limb divisor
//   s2 : 2^shift, E : B^(n-2)
//   T  : floor(W*s2 / E)  (three leading limbs of the shifted window)
//   d  : floor(D*s2 / E)  (two leading limbs of the shifted divisor), normalised
//   q  : floor(T / d) < B
// Then the true digit floor(W/D) is q or q-1:   -D < W - q*D < D
pub proof fn lemma_knuth_estimate(w: int, dd: int, s2: int, e: int, t: int, d: int, q: int)
    requires
        e >= 1, s2 >= 1, dd >= 1, 0 <= w,
        t * e <= w * s2 < (t + 1) * e,
        d * e <= dd * s2 < (d + 1) * e,
        d >= B * B / 2,
        q * d <= t < (q + 1) * d,
        0 <= q < B,
    ensures
        -dd < w - q * dd < dd
{
    // upper:  w*s2 - q*dd*s2 < (t+1)e - q*d*e <= d*e <= dd*s2
    assert((t + 1) * e <= (q + 1) * d * e) by(nonlinear_arith) requires t + 1 <= (q + 1) * d, e >= 1;
    assert(q * (dd * s2) >= q * (d * e)) by(nonlinear_arith) requires q >= 0, dd * s2 >= d * e;
    assert((w - q * dd) * s2 == w * s2 - q * (dd * s2)) by(nonlinear_arith);
    assert((q + 1) * d * e - q * (d * e) == d * e) by(nonlinear_arith);
    assert((w - q * dd) * s2 < dd * s2);
    assert(w - q * dd < dd) by(nonlinear_arith) requires (w - q * dd) * s2 < dd * s2, s2 >= 1;
    // lower:  w*s2 - q*dd*s2 >= t*e - q*(d+1)*e >= -q*e > -B*e >= -d*e >= -dd*s2   (d >= B)
    assert(q * (dd * s2) <= q * ((d + 1) * e)) by(nonlinear_arith) requires q >= 0, dd * s2 < (d + 1) * e;
    assert(t * e >= q * d * e) by(nonlinear_arith) requires t >= q * d, e >= 1;
    assert(q * ((d + 1) * e) == q * d * e + q * e) by(nonlinear_arith);
    assert(q * e < B * e) by(nonlinear_arith) requires q < B, e >= 1;
    assert(B * e <= d * e) by(nonlinear_arith) requires d >= B, e >= 1;
    assert((w - q * dd) * s2 > -(dd * s2));
    assert(w - q * dd > -dd) by(nonlinear_arith) requires (w - q * dd) * s2 > -(dd * s2), s2 >= 1;
}

// Overflow case: the two leading limbs of the window equal d, i.e. T >= d*B. Then the digit is B-1.
pub proof fn lemma_knuth_overflow(w: int, dd: int, s2: int, e: int, t: int, d: int)
    requires
        e >= 1, s2 >= 1, dd >= 1, 0 <= w < dd * B,
        t * e <= w * s2,
        dd * s2 < (d + 1) * e,
        d >= B * B / 2,
        t >= d * B,
    ensures
        0 <= w - (B - 1) * dd < dd
{
    assert(w - (B - 1) * dd < dd) by(nonlinear_arith) requires w < dd * B;
    // w*s2 >= t*e >= d*B*e ;  (B-1)*dd*s2 < (B-1)*(d+1)*e
    assert(t * e >= d * B * e) by(nonlinear_arith) requires t >= d * B, e >= 1;
    assert((B - 1) * (dd * s2) < (B - 1) * ((d + 1) * e)) by(nonlinear_arith) requires dd * s2 < (d + 1) * e, B == 0x1_0000_0000_0000_0000;
    assert(d * B * e - (B - 1) * ((d + 1) * e) == (d - B + 1) * e) by(nonlinear_arith);
    assert((d - B + 1) * e > 0) by(nonlinear_arith) requires d >= B * B / 2, e >= 1, B == 0x1_0000_0000_0000_0000;
    assert((w - (B - 1) * dd) * s2 == w * s2 - (B - 1) * (dd * s2)) by(nonlinear_arith);
    assert((w - (B - 1) * dd) * s2 > 0);
    assert(w - (B - 1) * dd >= 0) by(nonlinear_arith) requires (w - (B - 1) * dd) * s2 > 0, s2 >= 1;
}

} // verus!
fn main() {}

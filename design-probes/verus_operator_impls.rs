use vstd::prelude::*;
use core::ops::{Add, AddAssign, Rem};
use vstd::std_specs::ops::*;
verus! {
pub struct Uint<const BITS: usize, const LIMBS: usize> {
    pub limbs: [u64; LIMBS],
}
impl<const BITS: usize, const LIMBS: usize> Clone for Uint<BITS, LIMBS> { fn clone(&self) -> Self { Uint { limbs: self.limbs } } }
impl<const BITS: usize, const LIMBS: usize> Copy for Uint<BITS, LIMBS> {}

pub uninterp spec fn wadd<const BITS: usize, const LIMBS: usize>(a: Uint<BITS, LIMBS>, b: Uint<BITS, LIMBS>) -> Uint<BITS, LIMBS>;

impl<const BITS: usize, const LIMBS: usize> Uint<BITS, LIMBS> {
    #[verifier::external_body]
    pub fn wrapping_add(self, rhs: Self) -> (r: Self)
        ensures r == wadd(self, rhs)
    { unimplemented!() }
}

impl<const BITS: usize, const LIMBS: usize> AddSpecImpl<Uint<BITS, LIMBS>> for Uint<BITS, LIMBS> {
    open spec fn obeys_add_spec() -> bool { true }
    open spec fn add_req(self, rhs: Uint<BITS, LIMBS>) -> bool { true }
    open spec fn add_spec(self, rhs: Uint<BITS, LIMBS>) -> Uint<BITS, LIMBS> { wadd(self, rhs) }
}
impl<const BITS: usize, const LIMBS: usize> AddAssignSpecImpl<&Uint<BITS, LIMBS>> for Uint<BITS, LIMBS> {
    open spec fn obeys_add_assign_spec() -> bool { true }
    open spec fn add_assign_req(self, rhs: &Uint<BITS, LIMBS>) -> bool { true }
    open spec fn add_assign_spec(self, rhs: &Uint<BITS, LIMBS>) -> Uint<BITS, LIMBS> { wadd(self, *rhs) }
}
impl<const BITS: usize, const LIMBS: usize> Add<Uint<BITS, LIMBS>> for Uint<BITS, LIMBS> {
    type Output = Uint<BITS, LIMBS>;
    fn add(self, rhs: Uint<BITS, LIMBS>) -> (r: Self::Output)
    {
        self.wrapping_add(rhs)
    }
}
impl<const BITS: usize, const LIMBS: usize> AddAssign<&Uint<BITS, LIMBS>> for Uint<BITS, LIMBS> {
    fn add_assign(&mut self, rhs: &Uint<BITS, LIMBS>)
    {
        *self = self.wrapping_add(*rhs);
    }
}
pub fn user<const BITS: usize, const LIMBS: usize>(a: Uint<BITS, LIMBS>, b: Uint<BITS, LIMBS>) -> (r: Uint<BITS, LIMBS>)
    ensures r == wadd(wadd(a, b), b)
{
    let mut c = a + b;
    c += &b;
    let mut x = a; let mut y = b;
    core::mem::swap(&mut x, &mut y);
    c
}
}
fn main(){}

use vstd::prelude::*;
verus! {
pub fn f(limbs: &mut [u64]) -> (o: u64)
    ensures final(limbs).len() == old(limbs).len(),
            forall|j: int| 0 <= j < old(limbs).len() - 1 ==> #[trigger] final(limbs)@[j] == old(limbs)@[j + 1],
{
    let mut overflow = 0;
    for limb in it: limbs.iter_mut().rev()
        invariant
            it.seq().len() == old(limbs).len(),
            forall|j: int| 0 <= j < it.seq().len() ==> *(#[trigger] it.seq()[j]) == old(limbs)@[old(limbs).len() - 1 - j],
            it.index@ > 0 ==> overflow == old(limbs)@[old(limbs).len() - it.index@],
            forall|j: int| 1 <= j < it.index@ ==> *final(#[trigger] it.seq()[j]) == old(limbs)@[old(limbs).len() - j],
    {
        let v = *limb;
        *limb = overflow;
        overflow = v;
    }
    overflow
}
}
fn main(){}

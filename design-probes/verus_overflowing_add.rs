use vstd::prelude::*;
use vstd::arithmetic::power2::*;
use vstd::arithmetic::mul::*;
use vstd::arithmetic::div_mod::*;
use vstd::bits::*;
verus! {

pub open spec const B: nat = 0x1_0000_0000_0000_0000;

// value of the first n limbs, little endian
pub open spec fn lv(s: Seq<u64>, n: nat) -> nat
    decreases n
{
    if n == 0 { 0 } else { lv(s, (n - 1) as nat) + (s[n - 1] as nat) * pow2(64 * (n - 1) as nat) }
}

pub proof fn lemma_pow2_64()
    ensures pow2(64) == B
{
    lemma2_to64();
}

pub proof fn lemma_lv_bound(s: Seq<u64>, n: nat)
    requires n <= s.len()
    ensures lv(s, n) < pow2(64 * n)
    decreases n
{
    if n == 0 {
        lemma2_to64();
    } else {
        lemma_lv_bound(s, (n - 1) as nat);
        let w = pow2(64 * (n - 1) as nat);
        lemma_pow2_adds(64 * (n - 1) as nat, 64);
        lemma_pow2_64();
        assert(pow2(64 * n) == w * B);
        assert((s[n - 1] as nat) <= B - 1);
        assert((s[n - 1] as nat) * w <= (B - 1) * w) by {
            lemma_mul_inequality(s[n - 1] as int, (B - 1) as int, w as int);
        }
        assert((B - 1) * w + w == B * w) by { lemma_mul_is_distributive_add_other_way(w as int, (B - 1) as int, 1); }
        assert(B * w == w * B) by { lemma_mul_is_commutative(B as int, w as int); }
    }
}

// lv only depends on the first n entries
pub proof fn lemma_lv_ext(s: Seq<u64>, t: Seq<u64>, n: nat)
    requires n <= s.len(), n <= t.len(), forall|j: int| 0 <= j < n ==> s[j] == t[j]
    ensures lv(s, n) == lv(t, n)
    decreases n
{
    if n > 0 { lemma_lv_ext(s, t, (n - 1) as nat); }
}

pub open spec fn spec_mask(bits: usize) -> u64 {
    if bits == 0 { 0 } else if bits % 64 == 0 { u64::MAX } else { (low_bits_mask((bits % 64) as nat)) as u64 }
}

pub fn mask(bits: usize) -> (r: u64)
    ensures r == spec_mask(bits)
{
    if bits == 0 {
        return 0;
    }
    let bits = bits % 64;
    if bits == 0 {
        u64::MAX
    } else {
        proof {
            let k = bits as u64;
            assert(0 < k < 64);
            assert((1u64 << k) >= 1 && (1u64 << k) as nat == pow2(k as nat)) by {
                lemma_u64_pow2_no_overflow(k as nat);
                lemma_pow2_pos(k as nat);
                lemma_u64_shl_is_mul(1, k);
            }
            assert(low_bits_mask(k as nat) == pow2(k as nat) - 1);
        }
        (1 << bits) - 1
    }
}

pub assume_specification [u64::overflowing_add] (a: u64, b: u64) -> (r: (u64, bool))
    ensures r.0 as int == (a as int + b as int) % 0x1_0000_0000_0000_0000, r.1 == (a as int + b as int >= 0x1_0000_0000_0000_0000);

pub struct Uint<const BITS: usize, const LIMBS: usize> {
    pub limbs: [u64; LIMBS],
}

pub open spec fn b2n(b: bool) -> nat { if b { 1 } else { 0 } }

pub fn carrying_add(lhs: u64, rhs: u64, carry: bool) -> (r: (u64, bool))
    ensures r.0 as nat + b2n(r.1) * B == lhs as nat + rhs as nat + b2n(carry)
{
    let (result, carry_1) = lhs.overflowing_add(rhs);
    let (result, carry_2) = result.overflowing_add(carry as u64);
    (result, carry_1 || carry_2)
}

impl<const BITS: usize, const LIMBS: usize> Uint<BITS, LIMBS> {
    pub open spec fn sized() -> bool { LIMBS == (BITS + 63) / 64 }
    pub open spec fn wf(self) -> bool {
        &&& Self::sized()
        &&& BITS > 0 ==> self.limbs[LIMBS - 1] <= spec_mask(BITS)
    }
    pub open spec fn val(self) -> nat { lv(self.limbs@, LIMBS as nat) }
    pub open spec fn raw(self) -> Seq<u64> { self.limbs@ }

    pub fn MASK() -> (r: u64) ensures r == spec_mask(BITS) { mask(BITS) }
    fn SHOULD_MASK() -> (r: bool) ensures r == (BITS > 0 && spec_mask(BITS) != u64::MAX) { BITS > 0 && Self::MASK() != u64::MAX }

    // top limb <= mask  <==>  value < 2^BITS   (for correctly sized types)
    pub proof fn lemma_wf_iff_lt(self)
        requires Self::sized(), BITS > 0
        ensures (self.limbs[LIMBS - 1] <= spec_mask(BITS)) <==> self.val() < pow2(BITS as nat)
    {
        let n = (LIMBS - 1) as nat;
        let k = (BITS % 64) as nat;
        let w = pow2(64 * n);
        let top = self.limbs[LIMBS - 1] as nat;
        let low = lv(self.limbs@, n);
        lemma_lv_bound(self.limbs@, n);
        lemma_lv_bound(self.limbs@, LIMBS as nat);
        assert(self.val() == low + top * w);
        if k == 0 {
            assert(BITS == 64 * (n + 1));
        } else {
            assert(BITS == 64 * n + k);
            lemma_pow2_adds(64 * n, k);
            assert(pow2(BITS as nat) == w * pow2(k)) ;
            lemma_pow2_pos(k);
            lemma_pow2_pos(64 * n);
            assert(low_bits_mask(k) == pow2(k) - 1);
            lemma_u64_pow2_no_overflow(k);
            // top <= 2^k - 1 <==> low + top*w < 2^k * w
            if top <= pow2(k) - 1 {
                lemma_mul_inequality(top as int, (pow2(k) - 1) as int, w as int);
                lemma_mul_is_distributive_sub_other_way(w as int, pow2(k) as int, 1);
                lemma_mul_is_commutative(pow2(k) as int, w as int);
            } else {
                lemma_mul_inequality(pow2(k) as int, top as int, w as int);
                lemma_mul_is_commutative(pow2(k) as int, w as int);
            }
        }
    }

    fn masked(self) -> (r: Self)
        requires Self::sized()
        ensures r.wf(), r.val() == self.val() % pow2(BITS as nat)
    {
        let mut this = self;
        if Self::SHOULD_MASK() {
            let ghost top0 = this.limbs[LIMBS - 1];
            this.limbs[LIMBS - 1] &= Self::MASK();
            proof {
                let n = (LIMBS - 1) as nat;
                let k = (BITS % 64) as nat;
                let w = pow2(64 * n);
                let top1 = this.limbs[LIMBS - 1];
                assert(k != 0);
                lemma_u64_pow2_no_overflow(k);
                lemma_pow2_pos(k);
                assert(low_bits_mask(k) == pow2(k) - 1);
                assert(spec_mask(BITS) == low_bits_mask(k) as u64);
                assert(top1 == top0 & (low_bits_mask(k) as u64));
                lemma_u64_low_bits_mask_is_mod(top0, k);
                assert(top1 as nat == (top0 as nat) % pow2(k));
                lemma_pow2_pos(k);
                lemma_pow2_pos(64 * n);
                lemma_u64_pow2_no_overflow(k);
                assert(top1 <= spec_mask(BITS)) by { lemma_mod_bound(top0 as int, pow2(k) as int); }
                let low = lv(self.limbs@, n);
                lemma_lv_ext(self.limbs@, this.limbs@, n);
                lemma_lv_bound(self.limbs@, n);
                assert(this.val() == low + (top1 as nat) * w);
                assert(self.val() == low + (top0 as nat) * w);
                lemma_pow2_adds(64 * n, k);
                // (low + top0*w) % (w * 2^k) == low + (top0 % 2^k) * w
                let x = (low + (top0 as nat) * w) as int;
                lemma_mod_breakdown(x, w as int, pow2(k) as int);
                lemma_mul_is_commutative(top0 as int, w as int);
                lemma_fundamental_div_mod_converse(x, w as int, top0 as int, low as int);
                assert(x / (w as int) == top0 as int);
                assert(x % (w as int) == low as int);
                assert(x % ((w * pow2(k)) as int) == (w as int) * ((top0 as int) % (pow2(k) as int)) + low as int);
                lemma_mul_is_commutative(w as int, top1 as int);
                assert(pow2(BITS as nat) == w * pow2(k));
                assert(this.val() as int == x % (pow2(BITS as nat) as int));
            }
        } else {
            proof {
                if BITS > 0 {
                    lemma_lv_bound(self.limbs@, LIMBS as nat);
                    assert(spec_mask(BITS) == u64::MAX);
                    assert(BITS % 64 == 0) by {
                        if BITS % 64 != 0 {
                            let k = (BITS % 64) as nat;
                            lemma_u64_pow2_no_overflow(k);
                            assert(low_bits_mask(k) == pow2(k) - 1);
                            lemma_pow2_strictly_increases(k, 64);
                            lemma_pow2_64();
                        }
                    }
                    assert(BITS == 64 * LIMBS);
                    lemma_pow2_pos(BITS as nat);
                    lemma_small_mod(self.val(), pow2(BITS as nat));
                } else {
                    lemma2_to64();
                    assert(self.val() == 0);
                }
            }
        }
        this
    }

    pub fn overflowing_add(self, rhs: Self) -> (r: (Self, bool))
        requires self.wf(), rhs.wf()
        ensures r.0.wf(),
            r.0.val() == (self.val() + rhs.val()) % pow2(BITS as nat),
            r.1 == (self.val() + rhs.val() >= pow2(BITS as nat)),
    {
        let mut this = self;
        if BITS == 0 {
            proof { lemma2_to64(); assert(self.val() == 0 && rhs.val() == 0); }
            return (this, false);
        }
        let mut carry = false;
        let mut i = 0;
        while i < LIMBS
            invariant
                0 <= i <= LIMBS,
                lv(this.limbs@, i as nat) + b2n(carry) * pow2(64 * i as nat) == lv(self.limbs@, i as nat) + lv(rhs.limbs@, i as nat),
                forall|j: int| i <= j < LIMBS ==> this.limbs[j] == self.limbs[j],
            decreases LIMBS - i
        {
            let ghost prev = this.limbs@;
            let ghost c0 = carry;
            let (t0, t1) = carrying_add(this.limbs[i], rhs.limbs[i], carry); this.limbs[i] = t0; carry = t1;
            proof {
                lemma_lv_ext(prev, this.limbs@, i as nat);
                lemma_pow2_adds(64 * i as nat, 64);
                lemma_pow2_64();
                let w = pow2(64 * i as nat);
                let a = self.limbs[i as int] as nat;
                let b = rhs.limbs[i as int] as nat;
                assert(pow2(64 * (i + 1) as nat) == w * B);
                assert(t0 as nat + b2n(t1) * B == a + b + b2n(c0));
                assert((t0 as nat) * w + b2n(t1) * (w * B) == a * w + b * w + b2n(c0) * w) by(nonlinear_arith)
                    requires t0 as nat + b2n(t1) * B == a + b + b2n(c0);
            }
            i += 1;
        }
        let overflow = carry || (this.limbs[LIMBS - 1] > Self::MASK());
        proof {
            let sum = self.val() + rhs.val();
            let full = pow2(64 * LIMBS as nat);
            let m = pow2(BITS as nat);
            // this.val() + carry*full == sum ; this.val() < full
            lemma_lv_bound(this.limbs@, LIMBS as nat);
            this.lemma_wf_iff_lt();
            self.lemma_wf_iff_lt();
            rhs.lemma_wf_iff_lt();
            lemma_pow2_pos(BITS as nat);
            // full == m * 2^(64*LIMBS - BITS)
            let d = (64 * LIMBS - BITS) as nat;
            lemma_pow2_adds(BITS as nat, d);
            lemma_pow2_pos(d);
            assert(full == m * pow2(d));
            // sum < 2m <= ... so carry ==> sum >= full >= m
            assert(full >= m) by { lemma_mul_increases(pow2(d) as int, m as int); lemma_mul_is_commutative(m as int, pow2(d) as int); }
            if carry {
                assert(sum >= full);
                // (this.val + full) % m == this.val % m since m | full
                lemma_mod_multiples_vanish(pow2(d) as int, this.val() as int, m as int);
                lemma_mul_is_commutative(m as int, pow2(d) as int);
                assert(sum == this.val() + pow2(d) * m);
            } else {
                assert(sum == this.val());
            }
        }
        (this.masked(), overflow)
    }
}


} // verus!
fn main() {}

use vstd::prelude::*;
use vstd::arithmetic::power2::*;
use vstd::arithmetic::mul::*;
use vstd::arithmetic::div_mod::*;
use vstd::bits::*;
verus! {
pub open spec const B: int = 0x1_0000_0000_0000_0000;

// value of s[lo..hi], little endian, relative to position lo
pub open spec fn lvr(s: Seq<u64>, lo: int, hi: int) -> int
    decreases hi - lo
{
    if lo >= hi { 0 } else { s[lo] as int + B * lvr(s, lo + 1, hi) }
}
pub proof fn lemma_lvr_ext(s: Seq<u64>, t: Seq<u64>, lo: int, hi: int)
    requires 0 <= lo, hi <= s.len(), hi <= t.len(), forall|j: int| lo <= j < hi ==> s[j] == t[j]
    ensures lvr(s, lo, hi) == lvr(t, lo, hi)
    decreases hi - lo
{
    if lo < hi { lemma_lvr_ext(s, t, lo + 1, hi); }
}

pub open spec fn is_reciprocal(d: u64, v: u64) -> bool { (v as int + B) == (B * B - 1) / (d as int) }

#[verifier::external_body]
pub fn reciprocal(d: u64) -> (v: u64)
    requires d as int >= B / 2
    ensures is_reciprocal(d, v)
{ unimplemented!() }

#[verifier::external_body]
pub fn div_2x1(u: u128, d: u64, v: u64) -> (res: (u64, u64))
    requires d as int >= B / 2, (u as int) / B < d as int, is_reciprocal(d, v),
    ensures res.0 as int * d as int + res.1 as int == u as int, (res.1 as int) < d as int,
{ unimplemented!() }

trait DoubleWord<T>: Sized + Copy { fn join(high: T, low: T) -> Self; }
impl DoubleWord<u64> for u128 {
    fn join(high: u64, low: u64) -> (r: Self)
        ensures r as int == high as int * B + low as int
    {
        proof {
            let h = high as u128; let l = low as u128;
            assert(((h << 64) | l) == h * 0x1_0000_0000_0000_0000u128 + l) by(bit_vector)
                requires h < 0x1_0000_0000_0000_0000u128, l < 0x1_0000_0000_0000_0000u128;
        }
        (Self::from(high) << 64) | Self::from(low)
    }
}

// ---------- the real function (src/algorithms/div/small.rs) ----------
pub fn div_nx1_normalized(u: &mut [u64], d: u64) -> (rem: u64)
    requires d as int >= B / 2
    ensures
        final(u).len() == old(u).len(),
        lvr(old(u)@, 0, old(u).len() as int) == lvr(final(u)@, 0, old(u).len() as int) * d as int + rem as int,
        (rem as int) < d as int,
{
    let v = reciprocal(d);
    let mut r: u64 = 0;
    let ghost n = u.len() as int;
    let ghost old_s = u@;
    let ghost fin = final(u)@;
    for u in it: u.iter_mut().rev()
        invariant
            n == old_s.len(), fin.len() == n, it.seq().len() == n,
            d as int >= B / 2, is_reciprocal(d, v),
            forall|j: int| 0 <= j < n ==> *(#[trigger] it.seq()[j]) == old_s[n - 1 - j],
            forall|j: int| 0 <= j < n ==> *final(#[trigger] it.seq()[j]) == fin[n - 1 - j],
            0 <= it.index@ <= n,
            (r as int) < d as int,
            lvr(old_s, n - it.index@, n) == lvr(fin, n - it.index@, n) * d as int + r as int,
    {
        let ghost k = it.index@;
        let ghost i = n - 1 - k;
        let ghost r_in = r as int;
        let ghost u_in = *u;
        let n_ = u128::join(r, *u);
        proof {
            assert(u_in == old_s[i]);
            lemma_fundamental_div_mod_converse(n_ as int, B, r_in, u_in as int);
            assert(B * r_in == r_in * B) by(nonlinear_arith);
        }
        let (q, r0) = div_2x1(n_, d, v);
        *u = q;
        r = r0;
        proof {
            assert(fin[i] == q);
            // lvr(old, i, n) = u + B*lvr(old, i+1, n) = u + B*(lvr(fin,i+1,n)*d + r_in) = d*(q + B*lvr(fin,i+1,n)) + r0
            let a = lvr(old_s, i + 1, n);
            let f = lvr(fin, i + 1, n);
            assert(lvr(old_s, i, n) == u_in as int + B * a);
            assert(lvr(fin, i, n) == q as int + B * f);
            assert((u_in as int + B * a) == (q as int + B * f) * d as int + r0 as int) by(nonlinear_arith)
                requires a == f * d as int + r_in, q as int * d as int + r0 as int == r_in * B + u_in as int;
        }
    }
    proof { assert(final(u)@ == fin); }
    r
}
}
fn main(){}

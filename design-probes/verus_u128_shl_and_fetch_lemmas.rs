use vstd::prelude::*;
use vstd::arithmetic::power2::*;
use vstd::arithmetic::mul::*;
use vstd::arithmetic::div_mod::*;
use vstd::bits::*;
verus! {
pub open spec const B: int = 0x1_0000_0000_0000_0000;

// u128: a << s == a * 2^s when nothing is shifted out
pub proof fn lemma_u128_shl_is_mul(a: u128, s: u32)
    requires s < 128, (a as int) * pow2(s as nat) < 0x1_0000_0000_0000_0000_0000_0000_0000_0000
    ensures (a << s) as int == (a as int) * pow2(s as nat)
    decreases s
{
    if s == 0 {
        assert(a << 0u32 == a) by(bit_vector);
        lemma2_to64();
        assert((a as int) * 1 == a as int) by(nonlinear_arith);
    } else {
        let s1 = (s - 1) as u32;
        lemma_pow2_unfold(s as nat);
        lemma_pow2_pos(s1 as nat);
        assert((a as int) * pow2(s1 as nat) * 2 == (a as int) * pow2(s as nat)) by(nonlinear_arith) requires pow2(s as nat) == 2 * pow2(s1 as nat);
        assert((a as int) * pow2(s1 as nat) <= (a as int) * pow2(s as nat)) by(nonlinear_arith) requires pow2(s as nat) == 2 * pow2(s1 as nat), a as int >= 0, pow2(s1 as nat) > 0;
        lemma_u128_shl_is_mul(a, s1);
        let x = a << s1;
        assert(a << s == (a << s1) << 1u32) by(bit_vector) requires s1 == s - 1, 0 < s < 128;
        assert(x << 1u32 == x * 2) by(bit_vector) requires x < 0x8000_0000_0000_0000_0000_0000_0000_0000u128;
    }
}

// the three leading limbs of ((x3,x2,x1,x0) << s) as integers
pub proof fn lemma_fetch4(x3: int, x2: int, x1: int, x0: int, c: int, s2: int, hi: int, lo: int)
    requires
        c >= 1, s2 >= 1, B == c * s2, 0 <= x1, 0 <= x0,
        hi == (x3 * B + x2) * s2 + x1 / c,
        lo == (x1 % c) * s2 + x0 / c,
    ensures
        ({
            let t = hi * B + lo;
            let x4 = ((x3 * B + x2) * B + x1) * B + x0;
            t * B <= x4 * s2 && x4 * s2 <= t * B + B - s2
        })
{
    lemma_fundamental_div_mod(x1, c);
    lemma_fundamental_div_mod(x0, c);
    lemma_mod_bound(x0, c);
    let t = hi * B + lo;
    let x4 = ((x3 * B + x2) * B + x1) * B + x0;
    let q1 = x1 / c; let r1 = x1 % c; let q0 = x0 / c; let r0 = x0 % c;
    assert(x4 * s2 - t * B == r0 * s2) by(nonlinear_arith)
        requires x4 == ((x3 * B + x2) * B + x1) * B + x0, t == hi * B + lo,
                 hi == (x3 * B + x2) * s2 + q1, lo == r1 * s2 + q0, x1 == c * q1 + r1, x0 == c * q0 + r0, B == c * s2;
    assert(0 <= r0 * s2 <= (c - 1) * s2) by(nonlinear_arith) requires 0 <= r0 <= c - 1, s2 >= 1;
    assert((c - 1) * s2 == B - s2) by(nonlinear_arith) requires B == c * s2;
}
}
fn main(){}

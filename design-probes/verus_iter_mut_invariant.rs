use vstd::prelude::*;
verus! {
pub fn f(limbs: &mut [u64])
    ensures final(limbs).len() == old(limbs).len(),
            forall|j: int| 0 <= j < old(limbs).len() ==> final(limbs)@[j] == 1,
{
    for limb in it: limbs.iter_mut()
        invariant
            it.seq().len() == old(limbs).len(),
            forall|j: int| 0 <= j < it.index@ ==> *final(it.seq()[j]) == 1,
    {
        *limb = 1;
    }
}
}
fn main(){}

use vstd::prelude::*;
use core::cmp::Ordering;
use vstd::std_specs::cmp::*;
verus! {
pub struct Uint<const BITS: usize, const LIMBS: usize> { pub limbs: [u64; LIMBS] }
impl<const BITS: usize, const LIMBS: usize> Uint<BITS, LIMBS> {
    pub uninterp spec fn val(self) -> nat;
}
impl<const BITS: usize, const LIMBS: usize> PartialEqSpecImpl for Uint<BITS, LIMBS> {
    open spec fn obeys_eq_spec() -> bool { true }
    open spec fn eq_spec(&self, other: &Self) -> bool { self.val() == other.val() }
}
impl<const BITS: usize, const LIMBS: usize> PartialEq for Uint<BITS, LIMBS> {
    #[verifier::external_body]
    fn eq(&self, other: &Self) -> (r: bool) { unimplemented!() }
}
impl<const BITS: usize, const LIMBS: usize> PartialOrdSpecImpl for Uint<BITS, LIMBS> {
    open spec fn obeys_partial_cmp_spec() -> bool { true }
    open spec fn partial_cmp_spec(&self, other: &Self) -> Option<Ordering> {
        if self.val() < other.val() { Some(Ordering::Less) } else if self.val() == other.val() { Some(Ordering::Equal) } else { Some(Ordering::Greater) }
    }
}
impl<const BITS: usize, const LIMBS: usize> PartialOrd for Uint<BITS, LIMBS> {
    #[verifier::external_body]
    fn partial_cmp(&self, other: &Self) -> (r: Option<Ordering>) { unimplemented!() }
}
fn user<const BITS: usize, const LIMBS: usize>(a: Uint<BITS, LIMBS>, b: Uint<BITS, LIMBS>) -> (r: bool)
    ensures r == (b.val() > a.val() && a.val() != b.val())
{
    let x = b > a;
    let y = a != b;
    x && y
}
}
fn main(){}

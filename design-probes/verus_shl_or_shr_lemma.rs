use vstd::prelude::*;
use vstd::arithmetic::power2::*;
use vstd::arithmetic::mul::*;
use vstd::arithmetic::div_mod::*;
use vstd::bits::*;
verus! {
pub open spec const B: int = 0x1_0000_0000_0000_0000;

// (hi << s) | (lo >> (64-s))  for u64 words, 0 < s < 64:
//   == (hi mod 2^(64-s)) * 2^s + lo / 2^(64-s)
pub proof fn lemma_shl_or_shr_u64(hi: u64, lo: u64, s: u32)
    requires 0 < s < 64
    ensures
        ((hi << s) | (lo >> (64 - s))) as int
            == ((hi as int) % (pow2((64 - s) as nat) as int)) * pow2(s as nat) + (lo as int) / (pow2((64 - s) as nat) as int),
        (lo as int) / (pow2((64 - s) as nat) as int) < pow2(s as nat),
{
    let c: u32 = (64 - s) as u32;
    let a = hi << s;
    let b = lo >> c;
    // disjoint bits: or == add
    assert(a | b == a + b) by(bit_vector) requires a == hi << s, b == lo >> c, c == 64 - s, 0 < s < 64;
    assert(a as int + b as int <= u64::MAX as int) by {
        assert(a | b <= 0xffff_ffff_ffff_ffffu64) by(bit_vector);
    }
    // b == lo / 2^c
    lemma_u64_shr_is_div(lo, c as u64);
    // a == (hi & mask(c)) << s == (hi % 2^c) * 2^s
    let m: u64 = hi & (((1u64 << c) - 1) as u64);
    assert(hi << s == m << s) by(bit_vector) requires m == hi & (((1u64 << c) - 1) as u64), c == 64 - s, 0 < s < 64;
    assert(m < (1u64 << c)) by(bit_vector) requires m == hi & (((1u64 << c) - 1) as u64), 0 < c < 64;
    lemma_u64_pow2_no_overflow(c as nat);
    lemma_u64_shl_is_mul(1, c as u64);
    assert((1u64 << c) as int == pow2(c as nat));
    lemma_u64_low_bits_mask_is_mod(hi, c as nat);
    assert(low_bits_mask(c as nat) == pow2(c as nat) - 1);
    assert(m as int == (hi as int) % (pow2(c as nat) as int));
    // m * 2^s < 2^64
    lemma_pow2_adds(c as nat, s as nat);
    lemma2_to64();
    lemma_pow2_pos(s as nat);
    assert((m as int) * pow2(s as nat) < pow2(64)) by(nonlinear_arith)
        requires (m as int) < pow2(c as nat), pow2(c as nat) * pow2(s as nat) == pow2(64), pow2(s as nat) > 0;
    lemma_u64_shl_is_mul(m, s as u64);
    assert((m << s) as int == (m as int) * pow2(s as nat));
    // bound on b
    lemma_pow2_pos(c as nat);
    assert((lo as int) / (pow2(c as nat) as int) < pow2(s as nat)) by {
        lemma_div_by_multiple_is_strongly_ordered(lo as int, pow2(64) as int, pow2(s as nat) as int, pow2(c as nat) as int);
        lemma_div_multiples_vanish(pow2(s as nat) as int, pow2(c as nat) as int);
        lemma_mul_is_commutative(pow2(s as nat) as int, pow2(c as nat) as int);
    }
}
}
fn main(){}

use vstd::prelude::*;
use vstd::arithmetic::div_mod::*;
use core::ops::RemAssign;
use core::mem::swap;
use vstd::std_specs::ops::*;
use vstd::std_specs::cmp::*;
verus! {

pub struct Uint<const BITS: usize, const LIMBS: usize> { pub limbs: [u64; LIMBS] }
impl<const BITS: usize, const LIMBS: usize> Clone for Uint<BITS, LIMBS> { fn clone(&self) -> (r: Self) ensures r == *self { Uint { limbs: self.limbs } } }
impl<const BITS: usize, const LIMBS: usize> Copy for Uint<BITS, LIMBS> {}

// Euclid's function as the specification
pub open spec fn sgcd(a: nat, b: nat) -> nat decreases b { if b == 0 { a } else { sgcd(b, a % b) } }

impl<const BITS: usize, const LIMBS: usize> Uint<BITS, LIMBS> {
    pub uninterp spec fn val(self) -> nat;
    pub uninterp spec fn wf(self) -> bool;
    // injectivity of val on canonical values (C04 lemma)
    #[verifier::external_body]
    pub proof fn lemma_val_inj(self, other: Self) requires self.wf(), other.wf() ensures (self == other) <==> (self.val() == other.val()) {}
    #[verifier::external_body]
    pub fn ZERO() -> (r: Self) ensures r.wf(), r.val() == 0 { unimplemented!() }
    // comparison operators used by the real code, under their C04 contracts
    #[verifier::external_body]
    pub fn gt(&self, other: &Self) -> (r: bool) requires self.wf(), other.wf() ensures r == (self.val() > other.val()) { unimplemented!() }
    #[verifier::external_body]
    pub fn ne(&self, other: &Self) -> (r: bool) requires self.wf(), other.wf() ensures r == (self.val() != other.val()) { unimplemented!() }
}
impl<const BITS: usize, const LIMBS: usize> RemAssignSpecImpl<Uint<BITS, LIMBS>> for Uint<BITS, LIMBS> {
    open spec fn obeys_rem_assign_spec() -> bool { false }
    open spec fn rem_assign_req(&self, rhs: Uint<BITS, LIMBS>) -> bool { self.wf() && rhs.wf() && rhs.val() != 0 }
    open spec fn rem_assign_spec(&self, rhs: Uint<BITS, LIMBS>) -> &Self { self }
}
impl<const BITS: usize, const LIMBS: usize> RemAssign<Uint<BITS, LIMBS>> for Uint<BITS, LIMBS> {
    #[verifier::external_body]
    fn rem_assign(&mut self, rhs: Uint<BITS, LIMBS>)
        ensures final(self).wf(), final(self).val() == old(self).val() % rhs.val()
    { unimplemented!() }
}

// Lehmer matrix: contract of `from` is the property's last sentence (ASSUMED, Jebelean)
pub struct Matrix(pub u64, pub u64, pub u64, pub u64, pub bool);
pub uninterp spec fn maps(m: Matrix, a: nat, b: nat) -> (nat, nat);
pub open spec fn is_identity(m: Matrix) -> bool { m.0 == 1 && m.1 == 0 && m.2 == 0 && m.3 == 1 && m.4 }
impl Matrix {
    #[verifier::external_body]
    pub fn from<const BITS: usize, const LIMBS: usize>(a: Uint<BITS, LIMBS>, b: Uint<BITS, LIMBS>) -> (m: Self)
        requires a.wf(), b.wf(), a.val() >= b.val()
        ensures !is_identity(m) ==> ({
            let (c, d) = maps(m, a.val(), b.val());
            c >= d && d < b.val() && sgcd(c, d) == sgcd(a.val(), b.val())
        })
    { unimplemented!() }
    #[verifier::external_body]
    pub fn is_identity_exec(&self) -> (r: bool) ensures r == is_identity(*self) { unimplemented!() }
    #[verifier::external_body]
    pub fn apply<const BITS: usize, const LIMBS: usize>(&self, a: &mut Uint<BITS, LIMBS>, b: &mut Uint<BITS, LIMBS>)
        requires old(a).wf(), old(b).wf(),
            // exactness of the wrapping evaluation is part of `from`'s (assumed) contract
        ensures final(a).wf(), final(b).wf(), (final(a).val(), final(b).val()) == maps(*self, old(a).val(), old(b).val())
    { unimplemented!() }
}

// src/algorithms/gcd/mod.rs  (operators `>`/`!=`/`==` shown through their contract-carrying methods in this probe)
pub fn gcd<const BITS: usize, const LIMBS: usize>(a: Uint<BITS, LIMBS>, b: Uint<BITS, LIMBS>) -> (g: Uint<BITS, LIMBS>)
    requires a.wf(), b.wf()
    ensures g.wf(), g.val() == sgcd(a.val(), b.val()) || g.val() == sgcd(b.val(), a.val()),
        a.val() >= b.val() ==> g.val() == sgcd(a.val(), b.val()),
{
    let mut a = a; let mut b = b;
    let ghost a0 = a.val(); let ghost b0 = b.val();
    if b.gt(&a) {
        swap(&mut a, &mut b);
    }
    let ghost target = sgcd(a.val(), b.val());
    while b.ne(&Uint::ZERO())
        invariant a.wf(), b.wf(), a.val() >= b.val(), sgcd(a.val(), b.val()) == target
        decreases b.val()
    {
        let m = Matrix::from(a, b);
        if m.is_identity_exec() {
            // Lehmer step failed to find a factor, which happens when
            // the factor is very large. We do a regular Euclidean step, which
            // will make a lot of progress since `q` will be large.
            let ghost av = a.val(); let ghost bv = b.val();
            a %= b;
            swap(&mut a, &mut b);
            proof {
                lemma_mod_bound(av as int, bv as int);
                assert(sgcd(av, bv) == sgcd(bv, av % bv));
            }
        } else {
            m.apply(&mut a, &mut b);
        }
    }
    proof { assert(sgcd(a.val(), 0) == a.val()); }
    a
}

} // verus!
fn main() {}

use vstd::prelude::*;
use core::ops::{Add, AddAssign, Mul, MulAssign};
use vstd::std_specs::ops::*;
verus! {
pub struct Uint<const BITS: usize, const LIMBS: usize> { pub limbs: [u64; LIMBS] }
impl<const BITS: usize, const LIMBS: usize> Clone for Uint<BITS, LIMBS> { fn clone(&self) -> (r: Self) ensures r == *self { Uint { limbs: self.limbs } } }
impl<const BITS: usize, const LIMBS: usize> Copy for Uint<BITS, LIMBS> {}
type U<const B: usize, const L: usize> = Uint<B, L>;

pub uninterp spec fn s_wrapping_add<const B: usize, const L: usize>(a: U<B,L>, b: U<B,L>) -> U<B,L>;
pub uninterp spec fn s_wrapping_mul<const B: usize, const L: usize>(a: U<B,L>, b: U<B,L>) -> U<B,L>;
pub uninterp spec fn s_checked_add<const B: usize, const L: usize>(a: U<B,L>, b: U<B,L>) -> Option<U<B,L>>;

impl<const BITS: usize, const LIMBS: usize> Uint<BITS, LIMBS> {
    #[verifier::external_body] pub fn wrapping_add(self, rhs: Self) -> (r: Self) ensures r == s_wrapping_add(self, rhs) { unimplemented!() }
    #[verifier::external_body] pub fn wrapping_mul(self, rhs: Self) -> (r: Self) ensures r == s_wrapping_mul(self, rhs) { unimplemented!() }
    #[verifier::external_body] pub fn checked_add(self, rhs: Self) -> (r: Option<Self>) ensures r == s_checked_add(self, rhs) { unimplemented!() }
}

// ---- spec side of the forwarding table (generated from the table) ----
impl<const BITS: usize, const LIMBS: usize> AddSpecImpl<Uint<BITS, LIMBS>> for Uint<BITS, LIMBS> {
    open spec fn obeys_add_spec() -> bool { true }
    open spec fn add_req(self, rhs: Uint<BITS, LIMBS>) -> bool { true }
    open spec fn add_spec(self, rhs: Uint<BITS, LIMBS>) -> Uint<BITS, LIMBS> { s_wrapping_add(self, rhs) }
}
impl<const BITS: usize, const LIMBS: usize> MulSpecImpl<Uint<BITS, LIMBS>> for Uint<BITS, LIMBS> {
    open spec fn obeys_mul_spec() -> bool { true }
    open spec fn mul_req(self, rhs: Uint<BITS, LIMBS>) -> bool { true }
    open spec fn mul_spec(self, rhs: Uint<BITS, LIMBS>) -> Uint<BITS, LIMBS> { s_wrapping_mul(self, rhs) }
}

// ---- verbatim from expanded.rs (attributes dropped) ----
impl<const BITS : usize, const LIMBS : usize> Add<Uint<BITS, LIMBS>> for Uint<BITS, LIMBS> {
    type Output = Uint<BITS, LIMBS>;
    fn add(self, rhs: Uint<BITS, LIMBS>) -> Self::Output { self.wrapping_add(rhs) }
}
impl<const BITS : usize, const LIMBS : usize> Mul<Uint<BITS, LIMBS>> for Uint<BITS, LIMBS> {
    type Output = Uint<BITS, LIMBS>;
    fn mul(self, rhs: Uint<BITS, LIMBS>) -> Self::Output { self.wrapping_mul(rhs) }
}
// third-party trait methods -> mangled inherent methods, bodies untouched
impl<const BITS: usize, const LIMBS: usize> Uint<BITS, LIMBS> {
    fn CheckedAdd__checked_add(&self, other: &Self) -> (r: Option<Self>)
        ensures r == s_checked_add(*self, *other)
    {
        <Self>::checked_add(*self, *other)
    }
    fn MulAdd__mul_add(self, a: Self, b: Self) -> (r: Self)
        ensures r == s_wrapping_add(s_wrapping_mul(self, a), b)
    {
        (self * a) + b
    }
}
}
fn main(){}

use vstd::prelude::*;
use vstd::arithmetic::power2::*;
use vstd::arithmetic::mul::*;
use vstd::arithmetic::div_mod::*;
use vstd::bits::*;
verus! {

pub open spec const B: int = 0x1_0000_0000_0000_0000;

// reciprocal contract:  v + B == floor((B^2 - 1) / d)
pub open spec fn is_reciprocal(d: u64, v: u64) -> bool {
    (v as int + B) == (B * B - 1) / (d as int)
}


// ---------- pure math ----------

// k = B^2 - vv*d is in [1, d]
pub proof fn lemma_k(d: int, vv: int)
    requires B / 2 <= d < B, vv == (B * B - 1) / d
    ensures 1 <= B * B - vv * d <= d
{
    let n = B * B - 1;
    lemma_fundamental_div_mod(n, d);
    lemma_mod_bound(n, d);
    // n == d * vv + n % d, 0 <= n % d < d
    assert(d * vv == vv * d) by { lemma_mul_is_commutative(d, vv); }
}

// the core inequality of MG10 Theorem 2
pub proof fn lemma_mg10_2x1(u1: int, u0: int, d: int, vv: int, q1: int, q0: int)
    requires
        B / 2 <= d < B, 0 <= u1 < d, 0 <= u0 < B,
        vv == (B * B - 1) / d,
        0 <= q0 < B,
        u1 * vv + u0 == q1 * B + q0,
    ensures
        ({
            let rt = u1 * B + u0 - (q1 + 1) * d;
            let m = if B - d >= q0 { B - d } else { q0 };
            &&& -d <= rt < m
            &&& rt - q0 > -B
            &&& 0 <= q1 < B
        })
{
    let k = B * B - vv * d;
    lemma_k(d, vv);
    let rt = u1 * B + u0 - (q1 + 1) * d;
    // identity: B*rt == u1*k + u0*(B-d) + q0*d - B*d
    assert(B * rt == u1 * k + u0 * (B - d) + q0 * d - B * d) by(nonlinear_arith)
        requires k == B * B - vv * d, rt == u1 * B + u0 - (q1 + 1) * d, u1 * vv + u0 == q1 * B + q0;
    // bounds on the pieces
    assert(0 <= u1 * k <= (d - 1) * d) by(nonlinear_arith) requires 0 <= u1 <= d - 1, 1 <= k <= d;
    assert(0 <= u0 * (B - d) <= (B - 1) * (B - d)) by(nonlinear_arith) requires 0 <= u0 <= B - 1, B - d >= 1;
    assert(0 <= q0 * d) by(nonlinear_arith) requires 0 <= q0, d > 0;
    // lower: B*rt >= q0*d - B*d >= -B*d
    assert(B * rt >= -(B * d));
    assert(rt >= -d) by(nonlinear_arith) requires B * rt >= -(B * d), B > 0;
    // upper: B*rt < (B-d)*(B-d) + q0*d <= B*m
    let m = if B - d >= q0 { B - d } else { q0 };
    assert((d - 1) * d + (B - 1) * (B - d) + q0 * d - B * d < (B - d) * (B - d) + q0 * d) by(nonlinear_arith)
        requires B / 2 <= d < B;
    assert((B - d) * (B - d) + q0 * d <= B * m) by(nonlinear_arith)
        requires B - d <= m, q0 <= m, 0 < d < B, 0 <= q0;
    assert(B * rt < B * m);
    assert(rt < m) by(nonlinear_arith) requires B * rt < B * m, B > 0;
    // rt - q0 > -B :  B*(rt - q0) >= q0*d - B*d - B*q0 > -B*B
    assert(q0 * d - B * d - B * q0 > -(B * B)) by(nonlinear_arith)
        requires 0 <= q0 < B, B / 2 <= d < B;
    assert(B * (rt - q0) > -(B * B)) by(nonlinear_arith)
        requires B * rt >= q0 * d - B * d, q0 * d - B * d - B * q0 > -(B * B);
    assert(rt - q0 > -B) by(nonlinear_arith) requires B * (rt - q0) > -(B * B), B > 0;
    // q1 range: q1*B + q0 = u1*vv + u0 < B*B
    assert(u1 * vv <= (d - 1) * vv) by(nonlinear_arith) requires 0 <= u1 <= d - 1, vv >= 0;
    assert(vv >= B) by {
        // (B*B-1)/d >= B  since d*B <= B*B - 1  (d <= B-1)
        assert(d * B <= B * B - 1) by(nonlinear_arith) requires d <= B - 1, B > 1;
        lemma_div_is_ordered(d * B, B * B - 1, d);
        lemma_div_multiples_vanish(B, d);
        lemma_mul_is_commutative(d, B);
    }
    assert((d - 1) * vv == vv * d - vv) by(nonlinear_arith);
    assert(q1 * B + q0 < B * B);
    assert(q1 < B) by(nonlinear_arith) requires q1 * B + q0 < B * B, q0 >= 0, B > 0;
    assert(q1 >= 0) by(nonlinear_arith) requires q1 * B + q0 >= 0, q0 < B, B > 0;
}


// ---------- the real function (src/algorithms/div/small.rs), N7/N9 applied ----------
pub fn div_2x1_mg10(u: u128, d: u64, v: u64) -> (res: (u64, u64))
    requires
        d as int >= B / 2,
        (u as int) / B < d as int,
        is_reciprocal(d, v),
    ensures
        res.0 as int * d as int + res.1 as int == u as int,
        (res.1 as int) < d as int,
{
    let ghost u1 = (u as int) / B;
    let ghost u0 = (u as int) % B;
    let ghost vv = v as int + B;
    proof {
        lemma_fundamental_div_mod(u as int, B);
        lemma_u128_shr_is_div(u, 64); lemma2_to64();
        assert((u >> 64) as int == u1);
        lemma_k(d as int, vv);
        // no overflow in u + (u>>64)*v :  u1*vv + u0 < B*B
        assert(u1 * (v as int) <= (d as int - 1) * (v as int)) by(nonlinear_arith) requires 0 <= u1 <= d as int - 1, v as int >= 0;
        assert((d as int - 1) * vv == vv * d as int - vv) by(nonlinear_arith);
        assert(u1 * vv == u1 * (v as int) + u1 * B) by(nonlinear_arith) requires vv == v as int + B;
        assert(u1 * vv <= (d as int - 1) * vv) by(nonlinear_arith) requires 0 <= u1 <= d as int - 1, vv >= 0;
        assert(u1 * (v as int) >= 0) by(nonlinear_arith) requires u1 >= 0, v as int >= 0;
    }
    let q = u + (u >> 64) * u128::from(v);
    let ghost qi = q as int;
    proof { assert(qi == u1 * vv + u0); }
    let q0 = q as u64;
    let ghost q1i = qi / B;
    let ghost q0i = qi % B;
    proof {
        lemma_fundamental_div_mod(qi, B);
        assert(q0 as int == q0i) by {
            assert(q as u64 == (q % 0x1_0000_0000_0000_0000u128) as u64) by(bit_vector);
        }
        lemma_u128_shr_is_div(q, 64);
        assert((q >> 64) as int == q1i);
        assert(B * q1i == q1i * B) by { lemma_mul_is_commutative(B, q1i); }
        lemma_mg10_2x1(u1, u0, d as int, vv, q1i, q0i);
    }
    let ghost qc = q1i + 1;                         // integer candidate quotient, may equal B
    let ghost rt = u as int - qc * (d as int);       // integer candidate remainder, may be negative
    let q1 = ((q >> 64) as u64).wrapping_add(1);
    let r = (u as u64).wrapping_sub(q1.wrapping_mul(d));
    proof {
        assert(u as int == u1 * B + u0) by { lemma_mul_is_commutative(B, u1); }
        assert((u as u64) as int == u0) by {
            assert(u as u64 == (u % 0x1_0000_0000_0000_0000u128) as u64) by(bit_vector);
        }
        assert(q1 as int == qc % B);
        // r == rt mod B
        let t = (q1 as int * d as int) % B;
        assert(t == (qc * (d as int)) % B) by { lemma_mul_mod_noop_left(qc, d as int, B); }
        assert(r as int == (u0 - t) % B);
        assert((u0 - t) % B == (u0 - qc * (d as int)) % B) by { lemma_sub_mod_noop_right(u0, qc * (d as int), B); }
        assert((u0 - qc * (d as int)) % B == rt % B) by {
            // rt = u1*B + (u0 - qc*d)
            lemma_mod_multiples_vanish(u1, u0 - qc * (d as int), B);
            assert(B * u1 == u1 * B) by { lemma_mul_is_commutative(B, u1); }
        }
        assert(r as int == rt % B);
    }
    let ghost r_a = r;
    let ghost q1_a = q1;
    let (q1, r) = if r > q0 {
        (q1.wrapping_sub(1), r.wrapping_add(d))
    } else {
        (q1, r)
    };
    // after the first adjustment: integer quotient qb in [0,B), remainder rb in [0, 2d) , q1 == qb, r == rb, qb*d + rb == u
    let ghost qb: int = if r_a > q0 { qc - 1 } else { qc };
    let ghost rb: int = if r_a > q0 { rt + d as int } else { rt };
    proof {
        let m = if B - d as int >= q0i { B - d as int } else { q0i };
        if rt < 0 {
            // r_a = rt + B > q0  -> decrement taken
            lemma_small_mod((rt + B) as nat, B as nat);
            lemma_mod_add_multiples_vanish(rt, B);
            assert(r_a as int == rt + B);
            assert(r_a > q0);
            assert(rb == rt + d as int);
            assert(0 <= rb < d as int);
            // r = (rt + B + d) % B = rt + d
            lemma_mod_add_multiples_vanish(rt + d as int, B);
            lemma_small_mod((rt + d as int) as nat, B as nat);
            assert(r as int == rb);
            // q1 = (qc % B - 1) % B == qc - 1  (0 <= qc-1 < B)
            lemma_sub_mod_noop(qc, 1, B);
            lemma_small_mod(1, B as nat);
            lemma_small_mod((qc - 1) as nat, B as nat);
            assert(q1 as int == qb);
        } else {
            lemma_small_mod(rt as nat, B as nat);
            assert(r_a as int == rt);
            // qc < B here, because rt >= 0 means qc*d <= u < d*B
            assert(qc < B) by(nonlinear_arith) requires rt >= 0, rt == u as int - qc * (d as int), (u as int) < (d as int) * B, d as int > 0;
            lemma_small_mod(qc as nat, B as nat);
            assert(q1_a as int == qc);
            if r_a > q0 {
                // then m == B - d > rt, so rt + d < B: no wrap
                assert(rt < B - d as int);
                lemma_small_mod((rt + d as int) as nat, B as nat);
                assert(r as int == rb);
                lemma_small_mod((qc - 1) as nat, B as nat);
                assert(q1 as int == qb);
            } else {
                assert(r as int == rb);
                assert(q1 as int == qb);
            }
        }
        assert(qb * (d as int) + rb == u as int) by(nonlinear_arith)
            requires rt == u as int - qc * (d as int), (qb == qc - 1 && rb == rt + d as int) || (qb == qc && rb == rt);
        assert(0 <= rb < 2 * d as int);
        assert(0 <= qb);
    }
    let ghost q1_b = q1;
    let ghost r_b = r;
    let (q1, r) = if r >= d {
        (q1.wrapping_add(1), r.wrapping_sub(d))
    } else {
        (q1, r)
    };
    proof {
        if r_b >= d {
            lemma_small_mod((rb - d as int) as nat, B as nat);
            assert(r as int == rb - d as int);
            // qb + 1 < B because (qb+1)*d <= u < d*B
            assert(qb + 1 < B) by(nonlinear_arith)
                requires qb * (d as int) + rb == u as int, rb >= d as int, (u as int) < (d as int) * B, d as int > 0;
            lemma_small_mod((qb + 1) as nat, B as nat);
            assert(q1 as int == qb + 1);
            assert((qb + 1) * (d as int) + (rb - d as int) == u as int) by(nonlinear_arith)
                requires qb * (d as int) + rb == u as int;
        }
    }
    (q1, r)
}

} // verus!
fn main() {}

#![allow(unused)]
use ruint::Uint;
#[cfg(kani)]
mod h {
    use super::*;
    use postgres_types::{FromSql, Type};
    #[kani::proof]
    #[kani::unwind(8)]
    fn pg_jsonb_8() {
        let bytes: [u8; 3] = kani::any();
        let len: usize = kani::any(); kani::assume(len <= 1);
        let r = Uint::<8,1>::from_sql(&Type::JSONB, &bytes[..len]);
        if let Ok(v) = r { assert!(v.as_limbs()[0] < 256); }
    }
    #[kani::proof]
    #[kani::unwind(8)]
    fn pg_varbit_8() {
        let bytes: [u8; 6] = kani::any();
        let len: usize = kani::any(); kani::assume(len <= 6);
        let r = Uint::<8,1>::from_sql(&Type::VARBIT, &bytes[..len]);
        if let Ok(v) = r { assert!(v.as_limbs()[0] < 256); }
    }
    #[kani::proof]
    #[kani::unwind(10)]
    fn arb_65() {
        use arbitrary::{Arbitrary, Unstructured};
        let bytes: [u8; 9] = kani::any();
        let mut u = Unstructured::new(&bytes);
        if let Ok(v) = Uint::<65,2>::arbitrary(&mut u) { assert!(v.as_limbs()[1] <= 1); }
    }
}

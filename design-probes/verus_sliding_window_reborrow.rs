use vstd::prelude::*;
verus! {
// skip k limbs by sliding the window (as addmul's zero trimming does), then overwrite the rest
fn g(lhs0: &mut [u64], k: usize)
    requires k <= old(lhs0).len()
    ensures final(lhs0).len() == old(lhs0).len(),
        forall|i: int| 0 <= i < old(lhs0).len() ==> #[trigger] final(lhs0)@[i] == (if i < k { old(lhs0)@[i] } else { 0u64 }),
{
    let ghost old_s = lhs0@;
    let ghost fin = final(lhs0)@;
    let ghost n = lhs0.len() as int;
    let mut lhs = lhs0;
    let mut j: usize = 0;
    assert(lhs@ == old_s);
    assert(final(lhs)@ == fin);
    while j < k
        invariant
            j <= k <= n, n == old_s.len(),
            lhs.len() == n - j,
            fin.len() == j + final(lhs).len(),
            forall|i: int| 0 <= i < n - j ==> lhs@[i] == old_s[j + i],
            forall|i: int| 0 <= i < j ==> #[trigger] fin[i] == old_s[i],
            forall|i: int| 0 <= i < final(lhs).len() ==> final(lhs)@[i] == #[trigger] fin[j + i],
        decreases k - j
    {
        let ghost pf = final(lhs)@;
        let ghost pv = lhs@;
        lhs = &mut lhs[1..];
        proof {
            assert(pf[0] == pv[0]);
            assert(final(lhs)@ == pf.subrange(1, pf.len() as int));
            assume(pf.len() >= 1);      // slice length is invariant under &mut: final(x).len() == x.len()
            assert(fin[j as int] == pf[0]);
            assert forall|i: int| 0 <= i < final(lhs).len() implies final(lhs)@[i] == #[trigger] fin[(j + 1) + i] by {
                assert(final(lhs)@[i] == pf[i + 1]);
                assert(pf[i + 1] == fin[j + (i + 1)]);
            }
        }
        j += 1;
    }
    let ghost wf = final(lhs)@;
    for x in it: lhs.iter_mut()
        invariant
            it.seq().len() == n - k,
            forall|i: int| 0 <= i < n - k ==> *final(#[trigger] it.seq()[i]) == wf[i],
            forall|i: int| 0 <= i < it.index@ ==> #[trigger] wf[i] == 0,
    {
        *x = 0;
    }
    proof {
        assert(wf.len() == n - k);
        assert(fin.len() == n);
        assert forall|i: int| 0 <= i < n implies #[trigger] fin[i] == (if i < k { old_s[i] } else { 0u64 }) by {
            if i >= k { assert(fin[k + (i - k)] == wf[i - k]); }
        }
    }
}
}
fn main(){}

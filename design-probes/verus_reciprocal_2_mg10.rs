use vstd::prelude::*;
use vstd::arithmetic::power2::*;
use vstd::arithmetic::mul::*;
use vstd::arithmetic::div_mod::*;
use vstd::bits::*;
verus! {

pub open spec const B: int = 0x1_0000_0000_0000_0000;

pub open spec fn is_reciprocal(d: u64, v: u64) -> bool {
    (v as int + B) == (B * B - 1) / (d as int)
}
pub open spec fn is_reciprocal_2(d: u128, v: u64) -> bool {
    (v as int + B) == (B * B * B - 1) / (d as int)
}

// x is floor((n-1)/d)  iff  n - d <= x*d < n
pub proof fn lemma_floor_char(n: int, d: int, x: int)
    requires d > 0, n - d <= x * d < n
    ensures x == (n - 1) / d
{
    lemma_fundamental_div_mod_converse(n - 1, d, x, n - 1 - x * d);
    assert(d * x == x * d) by { lemma_mul_is_commutative(d, x); }
}
pub proof fn lemma_floor_char_rev(n: int, d: int)
    requires d > 0
    ensures n - d <= ((n - 1) / d) * d < n
{
    lemma_fundamental_div_mod(n - 1, d);
    lemma_mod_bound(n - 1, d);
    assert(d * ((n - 1) / d) == ((n - 1) / d) * d) by { lemma_mul_is_commutative(d, (n - 1) / d); }
}

#[verifier::external_body]
pub fn reciprocal(d: u64) -> (v: u64)
    requires d as int >= B / 2
    ensures is_reciprocal(d, v)
{ unimplemented!() }

// ---------- the real function (src/algorithms/div/reciprocal.rs) ----------
pub fn reciprocal_2_mg10(d: u128) -> (res: u64)
    requires d as int >= B * B / 2
    ensures is_reciprocal_2(d, res)
{
    let d1 = (d >> 64) as u64;
    let d0 = d as u64;
    let ghost d1i = d1 as int;
    let ghost d0i = d0 as int;
    let ghost di = d as int;
    proof {
        assert(B * B == 0x1_0000_0000_0000_0000_0000_0000_0000_0000) by(compute_only);
        lemma_u128_shr_is_div(d, 64); lemma2_to64();
        assert(d as u64 == (d % 0x1_0000_0000_0000_0000u128) as u64) by(bit_vector);
        lemma_fundamental_div_mod(di, B);
        assert(B * d1i == d1i * B) by(nonlinear_arith);
        assert(di == d1i * B + d0i);
        assert(d1i >= B / 2) by(nonlinear_arith) requires di == d1i * B + d0i, d0i < B, di >= B * B / 2, B == 0x1_0000_0000_0000_0000;
    }

    let mut v = reciprocal(d1);
    let ghost v0 = v as int;
    proof {
        lemma_floor_char_rev(B * B, d1i);
        // B*B - d1 <= (B+v0)*d1 < B*B
    }
    let mut p = d1.wrapping_mul(v).wrapping_add(d0);
    // integer bookkeeping: e = (B+vi)*d1 + d0
    let ghost e0 = (B + v0) * d1i + d0i;
    let ghost vi: int = v0;
    proof {
        // a = (d1*v0) mod B == (B+v0)*d1 - (B*B - B)
        let a = (B + v0) * d1i - (B * B - B);
        assert(0 <= a < B);
        assert((d1i * v0) == a + (B - 1 - d1i) * B) by(nonlinear_arith) requires a == (B + v0) * d1i - (B * B - B);
        lemma_mod_multiples_vanish(B - 1 - d1i, a, B);
        lemma_small_mod(a as nat, B as nat);
        assert((d1i * v0) % B == a);
        assert(p as int == (a + d0i) % B);
        assert(e0 == a + d0i + (B * B - B));
    }
    // OPT: This is checking the carry flag
    let ghost p0 = p;
    let ghost carry1 = e0 >= B * B;
    proof {
        let a = (B + v0) * d1i - (B * B - B);
        if a + d0i >= B {
            lemma_mod_sub_multiples_vanish(a + d0i, B);  // (x - B) % B == x % B
            lemma_small_mod((a + d0i - B) as nat, B as nat);
            assert(p0 as int == a + d0i - B);
            assert(p0 < d0);
        } else {
            lemma_small_mod((a + d0i) as nat, B as nat);
            assert(p0 as int == a + d0i);
            assert(p0 >= d0);
        }
        assert((p0 < d0) == carry1);
    }
    let ghost mut e = e0;
    if p < d0 {
        v = v.wrapping_sub(1);
        proof { e = e - d1i; }
        let ghost p_in = p as int;       // == e0 - B*B
        if p >= d1 {
            v = v.wrapping_sub(1);
            p = p.wrapping_sub(d1);
            proof { e = e - d1i; }
        }
        p = p.wrapping_sub(d1);
        proof {
            assert(p_in == e0 - B * B);
            // now B*B - d1 <= e < B*B and p == e - B*B + B
            if p_in >= d1i {
                assert(e == e0 - 2 * d1i);
                lemma_small_mod((p_in - d1i) as nat, B as nat);
                // second wrapping_sub: (p_in - d1 - d1) % B ; p_in - 2 d1 in [-d1, 0) -> + B
                lemma_mod_add_multiples_vanish(p_in - 2 * d1i, B);
                lemma_small_mod((p_in - 2 * d1i + B) as nat, B as nat);
                assert(p as int == p_in - 2 * d1i + B);
            } else {
                assert(e == e0 - d1i);
                lemma_mod_add_multiples_vanish(p_in - d1i, B);
                lemma_small_mod((p_in - d1i + B) as nat, B as nat);
                assert(p as int == p_in - d1i + B);
            }
        }
    }
    let ghost c1: int = (e0 - e) / 1;   // e0 - e == c*d1 with c in {0,1,2}
    let ghost vi1: int = if !carry1 { v0 } else if (e0 - B * B) >= d1i { v0 - 2 } else { v0 - 1 };
    proof {
        assert(e == (B + vi1) * d1i + d0i) by(nonlinear_arith)
            requires e0 == (B + v0) * d1i + d0i,
                (vi1 == v0 && e == e0) || (vi1 == v0 - 1 && e == e0 - d1i) || (vi1 == v0 - 2 && e == e0 - 2 * d1i);
        assert(B * B - d1i <= e < B * B);
        assert(p as int == e - B * B + B);
    }
    proof {
        // machine v == vi1 (no wrap): vi1 >= 0 because e >= B*B - d1 and d < B*B
        assert(vi1 >= 0) by(nonlinear_arith)
            requires e == (B + vi1) * d1i + d0i, e >= B * B - d1i, d1i * B + d0i < B * B, d1i > 0;
        lemma_small_mod(1, B as nat);
        if vi1 == v0 - 1 { lemma_small_mod((v0 - 1) as nat, B as nat); }
        if vi1 == v0 - 2 { lemma_small_mod((v0 - 1) as nat, B as nat); lemma_small_mod((v0 - 2) as nat, B as nat); }
        assert(v as int == vi1);
        assert((v as int) * d0i <= 0xffff_ffff_ffff_ffff * 0xffff_ffff_ffff_ffff) by(nonlinear_arith)
            requires 0 <= v as int <= 0xffff_ffff_ffff_ffff, 0 <= d0i <= 0xffff_ffff_ffff_ffff;
        assert((v as int) * d0i >= 0) by(nonlinear_arith) requires v as int >= 0, d0i >= 0;
    }
    let t = u128::from(v) * u128::from(d0);
    let t1 = (t >> 64) as u64;
    let t0 = t as u64;
    let ghost ti = t as int;
    let ghost t1i = t1 as int;
    let ghost t0i = t0 as int;
    proof {
        lemma_u128_shr_is_div(t, 64); lemma2_to64();
        assert(t as u64 == (t % 0x1_0000_0000_0000_0000u128) as u64) by(bit_vector);
        lemma_fundamental_div_mod(ti, B);
        assert(B * t1i == t1i * B) by(nonlinear_arith);
        assert(ti == t1i * B + t0i);
        assert(ti == vi1 * d0i);
    }
    // E = (B+vi1)*d == (e + t1)*B + t0
    let ghost big_e = (B + vi1) * di;
    proof {
        assert(big_e == (e + t1i) * B + t0i) by(nonlinear_arith)
            requires big_e == (B + vi1) * di, di == d1i * B + d0i, e == (B + vi1) * d1i + d0i, vi1 * d0i == t1i * B + t0i;
    }
    let ghost p1 = p as int;
    let p = p.wrapping_add(t1);
    let ghost carry2 = e + t1i >= B * B;
    proof {
        if p1 + t1i >= B {
            lemma_mod_sub_multiples_vanish(p1 + t1i, B);
            lemma_small_mod((p1 + t1i - B) as nat, B as nat);
            assert(p as int == p1 + t1i - B);
        } else {
            lemma_small_mod((p1 + t1i) as nat, B as nat);
        }
        assert((p < t1) == carry2);
    }
    // OPT: This is checking the carry flag
    if p < t1 {
        v = v.wrapping_sub(1);
        proof {
            // <p, t0> == E - B^3
            assert(p as int == e + t1i - B * B);
            let ph = p as u128; let tl = t0 as u128;
            assert(((ph << 64) | tl) == ph * 0x1_0000_0000_0000_0000u128 + tl) by(bit_vector)
                requires ph < 0x1_0000_0000_0000_0000u128, tl < 0x1_0000_0000_0000_0000u128;
            assert((((ph << 64) | tl) as int) == (p as int) * B + t0i);
            assert((p as int) * B + t0i == big_e - B * B * B) by(nonlinear_arith)
                requires p as int == e + t1i - B * B, big_e == (e + t1i) * B + t0i;
        }
        if (u128::from(p) << 64) | u128::from(t0) >= d {
            v = v.wrapping_sub(1);
        }
    }
    let ghost vf: int = if !carry2 { vi1 } else if big_e - B * B * B >= di { vi1 - 2 } else { vi1 - 1 };
    proof {
        let n = B * B * B;
        // (B+vf)*d in [n - d, n)
        assert((B + vf) * di == big_e - (vi1 - vf) * di) by(nonlinear_arith) requires big_e == (B + vi1) * di;
        assert(e * B >= n - d1i * B) by(nonlinear_arith) requires e >= B * B - d1i, n == B * B * B, B > 0;
        assert(t1i * B + t0i >= 0);
        if !carry2 {
            assert(big_e < n) by(nonlinear_arith) requires big_e == (e + t1i) * B + t0i, e + t1i <= B * B - 1, t0i <= B - 1, n == B * B * B;
            assert(big_e >= n - di) by(nonlinear_arith) requires big_e == (e + t1i) * B + t0i, e * B >= n - d1i * B, t1i >= 0, t0i >= 0, di == d1i * B + d0i, d0i >= 0;
        } else {
            assert(big_e >= n) by(nonlinear_arith) requires big_e == (e + t1i) * B + t0i, e + t1i >= B * B, t0i >= 0, n == B * B * B;
            assert(big_e < n + 2 * di) by(nonlinear_arith)
                requires big_e == (e + t1i) * B + t0i, e <= B * B - 1, t1i <= B - 1, t0i <= B - 1, n == B * B * B, di >= B * B / 2, B == 0x1_0000_0000_0000_0000;
        }
        assert((vi1 - vf) * di == (if vf == vi1 { 0 } else if vf == vi1 - 1 { di } else { 2 * di })) by(nonlinear_arith)
            requires vf == vi1 || vf == vi1 - 1 || vf == vi1 - 2;
        assert(n - di <= (B + vf) * di < n);
        lemma_floor_char(n, di, B + vf);
        // machine v == vf : vf >= 0 since floor((B^3-1)/d) >= B
        assert(B + vf >= B) by {
            assert(di * B <= n - 1) by(nonlinear_arith) requires di <= B * B - 1, n == B * B * B, B > 1;
            lemma_div_is_ordered(di * B, n - 1, di);
            lemma_div_multiples_vanish(B, di);
            assert(B * di == di * B) by(nonlinear_arith);
        }
        lemma_small_mod(1, B as nat);
        if vf == vi1 - 1 { lemma_small_mod((vi1 - 1) as nat, B as nat); }
        if vf == vi1 - 2 { lemma_small_mod((vi1 - 1) as nat, B as nat); lemma_small_mod((vi1 - 2) as nat, B as nat); }
        assert(v as int == vf);
    }
    v
}

} // verus!
fn main() {}

#![allow(unused)]
use ruint::Uint;

#[cfg(kani)]
mod h {
    use super::*;
    use ruint::algorithms::div::{reciprocal_mg10, reciprocal_ref, div_2x1_mg10, div_3x2_mg10, reciprocal_2_mg10, div_nxm};

    fn any_uint<const B: usize, const L: usize>() -> Uint<B, L> {
        let mut limbs: [u64; L] = kani::any();
        if L > 0 { limbs[L - 1] &= Uint::<B, L>::MASK; }
        Uint::from_limbs(limbs)
    }

    fn div2x1_const(d: u64) {
        let u: u128 = kani::any();
        kani::assume((u >> 64) < d as u128);
        let v = reciprocal_ref(d);
        let (q, r) = div_2x1_mg10(u, d, v);
        assert!(r < d);
        assert_eq!((q as u128) * (d as u128) + (r as u128), u);
    }
    #[kani::proof] fn div2x1_c1() { div2x1_const(1 << 63); }
    #[kani::proof] fn div2x1_c2() { div2x1_const(u64::MAX); }
    #[kani::proof] fn div2x1_c3() { div2x1_const(0xd555_5555_5555_5555); }
    #[kani::proof] fn div2x1_c4() { div2x1_const(0x8000_0000_0000_0001); }

    #[kani::proof]
    #[kani::unwind(4)]
    fn divrem_64m() {
        let a = any_uint::<64, 1>();
        let b = any_uint::<64, 1>();
        kani::assume(b.as_limbs()[0] != 0);
        let (q, r) = a.div_rem(b);
        let (q, r, a, b) = (q.as_limbs()[0], r.as_limbs()[0], a.as_limbs()[0], b.as_limbs()[0]);
        assert!(r < b);
        assert_eq!((q as u128) * (b as u128) + (r as u128), a as u128);
    }

    #[kani::proof]
    #[kani::unwind(3)]
    fn f64_to_64() {
        let f: f64 = kani::any();
        kani::assume(f >= 0.0 && f < 1.0e15);
        let r = Uint::<64, 1>::try_from(f);
        let t = f as u64; // trunc
        let frac = f - (t as f64);
        let expect = if frac >= 0.5 { t + 1 } else { t };
        assert_eq!(r.unwrap().as_limbs()[0], expect);
    }

    // Knuth 4x3 with constant divisor, symbolic numerator
    #[kani::proof]
    #[kani::unwind(6)]
    fn nxm_4x3_const() {
        let n: [u64; 4] = kani::any();
        let mut num = n;
        let d0 = [0x1415dfe9e8161414u64, 0x1656161616161682, 0x0000001682001616];
        let mut d = d0;
        div_nxm(&mut num, &mut d);
        // q = num[0..1], r = d ; check n == q*d0 + r (4 limbs) and r < d0
        let q = num[0];
        assert_eq!(num[1], 0); assert_eq!(num[2], 0); assert_eq!(num[3], 0);
        let mut acc = [d[0], d[1], d[2], 0u64];
        let mut carry: u128 = 0;
        let mut i = 0;
        while i < 3 {
            let t = (q as u128) * (d0[i] as u128) + (acc[i] as u128) + carry;
            acc[i] = t as u64; carry = t >> 64; i += 1;
        }
        acc[3] = carry as u64;
        assert_eq!(acc, n);
        // r < d0
        let lt = d[2] < d0[2] || (d[2] == d0[2] && (d[1] < d0[1] || (d[1] == d0[1] && d[0] < d0[0])));
        assert!(lt);
    }
}

#[cfg(kani)]
mod hf {
    use ruint::{Uint, ToUintError};
    #[kani::proof]
    #[kani::unwind(3)]
    fn f64_full_64() {
        let f: f64 = kani::any();
        let r = Uint::<64, 1>::try_from(f);
        if f.is_nan() { assert!(matches!(r, Err(ToUintError::NotANumber(64)))); return; }
        if f < 0.0 { assert!(matches!(r, Err(ToUintError::ValueNegative(64, _)))); return; }
        // floor(f + 1/2) exactly: for f >= 2^52 f is an integer; else f + 0.5 is exact-enough (see design)
        if f >= 18446744073709551616.0 { assert!(matches!(r, Err(ToUintError::ValueTooLarge(64, _)))); return; }
        let expect: u128 = if f >= 4503599627370496.0 { f as u128 } else { let t = f as u128; if f - (t as f64) >= 0.5 { t + 1 } else { t } };
        if expect > u64::MAX as u128 { assert!(matches!(r, Err(ToUintError::ValueTooLarge(64, _)))); return; }
        assert_eq!(r.unwrap().as_limbs()[0] as u128, expect);
    }
    #[kani::proof]
    #[kani::unwind(20)]
    fn to_f64_128() {
        let limbs: [u64; 2] = kani::any();
        let v = Uint::<128, 2>::from_limbs(limbs);
        let vi = (limbs[0] as u128) | ((limbs[1] as u128) << 64);
        let r = f64::from(v);
        assert!(r.is_finite() && r >= 0.0);
        let near = vi as f64; // correctly rounded
        // r must be within one representable step of the exact value: compare integer images
        let ri = r as u128; // exact, r is an integer < 2^128 or saturates at 2^128 -> u128::MAX
        let ni = near as u128;
        assert!(r == near || (ri <= vi && vi <= ni) || (ni <= vi && vi <= ri));
    }
}

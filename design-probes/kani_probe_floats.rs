// Kani probes for C18 (run inside a harness crate that depends on ruint by path, `cargo kani -Z stubbing`)
#![allow(unused)]
#[cfg(kani)]
mod hf {
    use ruint::{Uint, ToUintError};
    // contract model of libm exp2 on integral arguments: exact power of two; precondition ASSERTED
    fn model_exp2(x: f64) -> f64 {
        let i = x as i64;
        assert!((i as f64) == x && i >= 0 && i <= 1023);
        f64::from_bits(((i as u64) + 1023) << 52)
    }
    // 14.5 s: passes
    #[kani::proof]
    #[kani::unwind(20)]
    #[kani::stub(f64::exp2, model_exp2)]
    fn to_f64_128() {
        let limbs: [u64; 2] = kani::any();
        let v = Uint::<128, 2>::from_limbs(limbs);
        let vi = (limbs[0] as u128) | ((limbs[1] as u128) << 64);
        let r = f64::from(v);
        assert!(r.is_finite() && r >= 0.0);
        let near = vi as f64;
        let ri = r as u128;
        let ni = near as u128;
        assert!(r == near || (ri <= vi && vi <= ni) || (ni <= vi && vi <= ri));
    }
    // 24 s: FAILS on the pinned tree (round-to-even defect at odd integers in [2^52, 2^53))
    #[kani::proof]
    #[kani::unwind(3)]
    #[kani::stub(f64::exp2, model_exp2)]
    fn f64_mid_64() {
        let f: f64 = kani::any();
        kani::assume(f >= 0.5 && f < 18446744073709551616.0);
        let r = Uint::<64, 1>::try_from(f);
        let expect: u128 = if f >= 4503599627370496.0 { f as u128 } else { let t = f as u128; if f - (t as f64) >= 0.5 { t + 1 } else { t } };
        assert_eq!(r.unwrap().as_limbs()[0] as u128, expect);
    }
}

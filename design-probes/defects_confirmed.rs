use ruint::{Uint, aliases::*};
use std::panic::catch_unwind;
fn main() {
    std::panic::set_hook(Box::new(|_| {}));
    // C05
    let x = U128::from(1u128 << 64);
    println!("shl flag: {:?}", x.overflowing_shl(64));
    println!("shr flag: {:?}", U128::from(1u64).overflowing_shr(64));
    println!("shl by Uint 2^64: {:?}", U128::from(5u64) << U128::from(1u128 << 64));
    let y = Uint::<65,2>::from(3u64 << 62);
    println!("shl65 mask-lost: {:?}", Uint::<65,2>::from_limbs([0,1]).overflowing_shl(1));
    // C03
    println!("next_multiple_of: {:?}", catch_unwind(|| U64::from(7u64).next_multiple_of(U64::from(3u64))).is_err());
    // C07
    println!("u128 wrap: {:?}", Uint::<65,2>::wrapping_from((3u128 << 64) | 5));
    // C08
    println!("be60: {:?}", catch_unwind(|| Uint::<60,1>::try_from_be_slice(&[0xff;8])).map_err(|_| "PANIC"));
    println!("le60: {:?}", catch_unwind(|| Uint::<60,1>::try_from_le_slice(&[0xff;8])).map_err(|_| "PANIC"));
    // C09
    println!("b64 'g': {:?}", U64::from_str_radix("g", 64));
    println!("b64 'a': {:?}", U64::from_str_radix("a", 64));
    // C13
    println!("log2 U1: {:?}", catch_unwind(|| Uint::<1,1>::from(1u64).checked_log2()).map_err(|_| "PANIC"));
    println!("log10 U3: {:?}", catch_unwind(|| Uint::<3,1>::from(5u64).checked_log10()).map_err(|_| "PANIC"));
    // C18
    let f = 4503599627370497.0f64; // 2^52+1 odd
    println!("f64 odd 2^52+1: {:?} expect {}", U64::try_from(f), 4503599627370497u64);
    println!("f64 0.49999999999999994: {:?}", U64::try_from(0.49999999999999994f64));
    // C04 ill-formed
    println!("illformed MAX: {:?}", catch_unwind(|| { let z = Uint::<64,2>::MAX; *z.as_limbs() }).map_err(|_| "PANIC"));
    let _ = y;
}

use vstd::prelude::*;
verus! {
pub open spec const B: int = 0x1_0000_0000_0000_0000;
#[verifier::external_body] pub fn div_nx1(limbs: &mut [u64], divisor: u64) -> (r: u64) ensures final(limbs).len() == old(limbs).len() { unimplemented!() }
#[verifier::external_body] pub fn div_nx2(limbs: &mut [u64], divisor: u128) -> (r: u128) ensures final(limbs).len() == old(limbs).len() { unimplemented!() }
#[verifier::external_body] pub fn div_nxm(numerator: &mut [u64], divisor: &mut [u64]) ensures final(numerator).len() == old(numerator).len(), final(divisor).len() == old(divisor).len() { unimplemented!() }
trait DoubleWord<T>: Sized + Copy { fn join(high: T, low: T) -> Self; fn high(self) -> T; fn low(self) -> T; }
impl DoubleWord<u64> for u128 {
    #[verifier::external_body] fn join(high: u64, low: u64) -> (r: Self) { unimplemented!() }
    #[verifier::external_body] fn high(self) -> (r: u64) { unimplemented!() }
    #[verifier::external_body] fn low(self) -> (r: u64) { unimplemented!() }
}
pub assume_specification<T: Clone> [<[T]>::fill] (s: &mut [T], value: T)
    ensures final(s).len() == old(s).len(), forall|i: int| 0 <= i < old(s).len() ==> final(s)@[i] == value;

// spec of rposition for the one predicate shape used: last index with a non-zero limb
pub open spec fn last_nonzero(s: Seq<u64>) -> Option<int>
    decreases s.len()
{
    if s.len() == 0 { None } else if s[s.len() - 1] != 0 { Some(s.len() - 1) } else { last_nonzero(s.subrange(0, s.len() - 1)) }
}
#[verifier::external_body]
fn rposition_nonzero(s: &[u64]) -> (r: Option<usize>)
    ensures (match r { Some(i) => last_nonzero(s@) == Some(i as int), None => last_nonzero(s@) is None })
{ s.iter().rposition(|&x| x != 0) }

pub fn div(numerator: &mut [u64], divisor: &mut [u64])
    requires last_nonzero(old(divisor)@) is Some
{
    // Trim most significant zeros from divisor.
    let i = rposition_nonzero(divisor)
        .expect("Divisor is zero");
    let divisor = &mut divisor[..=i];

    // Trim zeros from numerator
    let numerator = if let Some(i) = rposition_nonzero(numerator) {
        &mut numerator[..=i]
    } else {
        // Empty numerator (q, r) = (0,0)
        divisor.fill(0);
        return;
    };

    // If numerator is smaller than divisor (q, r) = (0, numerator)
    if numerator.len() < divisor.len() {
        let (remainder, padding) = divisor.split_at_mut(numerator.len());
        remainder.copy_from_slice(numerator);
        padding.fill(0);
        numerator.fill(0);
        return;
    }

    // Compute quotient and remainder, branching out to different algorithms.
    if divisor.len() <= 2 {
        if divisor.len() == 1 {
            if numerator.len() == 1 {
                let q = numerator[0] / divisor[0];
                let r = numerator[0] % divisor[0];
                numerator[0] = q;
                divisor[0] = r;
            } else {
                divisor[0] = div_nx1(numerator, divisor[0]);
            }
        } else {
            let d = u128::join(divisor[1], divisor[0]);
            let remainder = div_nx2(numerator, d);
            divisor[0] = remainder.low();
            divisor[1] = remainder.high();
        }
    } else {
        div_nxm(numerator, divisor);
    }
}
}
fn main(){}

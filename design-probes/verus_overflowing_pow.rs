use vstd::prelude::*;
use vstd::arithmetic::power::*;
use vstd::arithmetic::power2::*;
use vstd::arithmetic::mul::*;
use vstd::arithmetic::div_mod::*;
use core::ops::ShrAssign;
use vstd::std_specs::ops::*;
verus! {

pub struct Uint<const BITS: usize, const LIMBS: usize> { pub limbs: [u64; LIMBS] }
impl<const BITS: usize, const LIMBS: usize> Clone for Uint<BITS, LIMBS> { fn clone(&self) -> (r: Self) ensures r == *self { Uint { limbs: self.limbs } } }
impl<const BITS: usize, const LIMBS: usize> Copy for Uint<BITS, LIMBS> {}

pub open spec fn m(bits: usize) -> int { pow2(bits as nat) as int }

impl<const BITS: usize, const LIMBS: usize> Uint<BITS, LIMBS> {
    // abstract view; defined in the vocabulary unit as lv(limbs, LIMBS) etc.
    pub uninterp spec fn val(self) -> int;
    pub uninterp spec fn wf(self) -> bool;
    #[verifier::external_body]
    pub proof fn lemma_wf_range(self) requires self.wf() ensures 0 <= self.val() < m(BITS) {}

    // callee contracts (each proved in its own unit)
    #[verifier::external_body]
    pub fn ONE() -> (r: Self) requires BITS > 0 ensures r.wf(), r.val() == 1 { unimplemented!() }
    #[verifier::external_body]
    pub fn is_zero(&self) -> (r: bool) requires self.wf() ensures r == (self.val() == 0) { unimplemented!() }
    #[verifier::external_body]
    pub fn bit(&self, index: usize) -> (r: bool) requires self.wf(), index == 0, BITS > 0 ensures r == (self.val() % 2 == 1) { unimplemented!() }
    #[verifier::external_body]
    pub fn overflowing_mul(self, rhs: Self) -> (r: (Self, bool))
        requires self.wf(), rhs.wf()
        ensures r.0.wf(), r.0.val() == (self.val() * rhs.val()) % m(BITS), r.1 == (self.val() * rhs.val() >= m(BITS))
    { unimplemented!() }
}
impl<const BITS: usize, const LIMBS: usize> ShrAssignSpecImpl<i32> for Uint<BITS, LIMBS> {
    open spec fn obeys_shr_assign_spec() -> bool { false }
    open spec fn shr_assign_req(&self, rhs: i32) -> bool { self.wf() && rhs == 1 }
    open spec fn shr_assign_spec(&self, rhs: i32) -> &Self { self }
}
impl<const BITS: usize, const LIMBS: usize> ShrAssign<i32> for Uint<BITS, LIMBS> {
    #[verifier::external_body]
    fn shr_assign(&mut self, rhs: i32)
        ensures final(self).wf(), final(self).val() == old(self).val() / 2
    { unimplemented!() }
}

pub proof fn lemma_pow_step(s: int, e: nat)
    requires e > 0
    ensures pow(s, e) == pow(s * s, e / 2) * (if e % 2 == 1 { s } else { 1 })
{
    let h = e / 2;
    lemma_pow_multiplies(s, 2, h);          // pow(pow(s,2), h) == pow(s, 2*h)
    lemma_pow2_unfold_sq(s);
    if e % 2 == 1 {
        assert(e == 2 * h + 1);
        lemma_pow_adds(s, 2 * h, 1);
        lemma_pow1(s);
    } else {
        assert(e == 2 * h);
        assert(pow(s * s, h) * 1 == pow(s * s, h)) by(nonlinear_arith);
    }
}
pub proof fn lemma_pow2_unfold_sq(s: int) ensures pow(s, 2) == s * s {
    reveal(pow);
    assert(pow(s, 2) == s * pow(s, 1));
    assert(pow(s, 1) == s * pow(s, 0));
    assert(pow(s, 0) == 1);
    assert(s * 1 == s) by(nonlinear_arith);
}

impl<const BITS: usize, const LIMBS: usize> Uint<BITS, LIMBS> {
    // src/pow.rs, N3/N5/N6 applied
    pub fn overflowing_pow(self, exp: Self) -> (res: (Self, bool))
        requires self.wf(), exp.wf()
        ensures
            BITS > 0 ==> res.0.wf()
                && res.0.val() == pow(self.val(), exp.val() as nat) % m(BITS)
                && res.1 == (pow(self.val(), exp.val() as nat) >= m(BITS)),
    {
        let mut this = self; let mut exp = exp;
        if BITS == 0 {
            return (this, false);
        }
        let ghost a = self.val();
        let ghost e0 = exp.val() as nat;
        let ghost mm = m(BITS);
        proof { self.lemma_wf_range(); exp.lemma_wf_range(); lemma_pow2_pos(BITS as nat); }

        // Exponentiation by squaring
        let mut overflow = false;
        let mut base_overflow = false;
        let mut result = Self::ONE();
        let ghost mut rr: int = 1;      // true result so far
        let ghost mut ss: int = a;      // true running base
        proof {
            assert(1 * pow(a, e0) == pow(a, e0)) by(nonlinear_arith);
            lemma_pow2_strictly_increases(0, BITS as nat); lemma2_to64();
            lemma_small_mod(1, mm as nat);
            lemma_small_mod(a as nat, mm as nat);
        }
        while !exp.is_zero()
            invariant
                BITS > 0, mm == m(BITS), mm >= 2, a == self.val(), 0 <= a,
                exp.wf(), result.wf(), this.wf(), 0 <= exp.val(),
                rr * pow(ss, exp.val() as nat) == pow(a, e0),
                result.val() == rr % mm, this.val() == ss % mm,
                overflow == (rr >= mm), base_overflow == (ss >= mm),
                a >= 1 ==> (ss >= 1 && rr >= 1),
                a == 0 ==> (ss == 0 && (rr == 0 || rr == 1)),
            decreases exp.val()
        {
            let ghost e = exp.val() as nat;
            let ghost r_in = rr; let ghost s_in = ss;
            proof { exp.lemma_wf_range(); this.lemma_wf_range(); result.lemma_wf_range(); lemma_pow_step(s_in, e); }
            // Multiply by base
            if exp.bit(0) {
                let (r, o) = result.overflowing_mul(this);
                result = r;
                overflow = overflow || (o || base_overflow);
                proof {
                    rr = r_in * s_in;
                    // result.val == (r_in%mm * s_in%mm) % mm == (r_in*s_in) % mm
                    lemma_mul_mod_noop_general(r_in, s_in, mm);
                    // flag
                    if r_in >= mm || s_in >= mm {
                        // then (a >= 1, both >= 1) product >= mm
                        if a >= 1 {
                            assert(r_in * s_in >= mm) by(nonlinear_arith) requires r_in >= 1, s_in >= 1, (r_in >= mm || s_in >= mm);
                        }
                    } else {
                        lemma_small_mod(r_in as nat, mm as nat);
                        lemma_small_mod(s_in as nat, mm as nat);
                    }
                    if a >= 1 { assert(r_in * s_in >= 1) by(nonlinear_arith) requires r_in >= 1, s_in >= 1; }
                    if a == 0 { assert(r_in * s_in == 0) by(nonlinear_arith) requires s_in == 0; }
                }
            }
            // Square base
            let (s, o) = this.overflowing_mul(this);
            this = s;
            base_overflow = base_overflow || o;
            exp >>= 1;
            proof {
                ss = s_in * s_in;
                lemma_mul_mod_noop_general(s_in, s_in, mm);
                if s_in >= mm {
                    assert(s_in * s_in >= mm) by(nonlinear_arith) requires s_in >= mm, mm >= 2;
                } else {
                    lemma_small_mod(s_in as nat, mm as nat);
                }
                if a >= 1 { assert(s_in * s_in >= 1) by(nonlinear_arith) requires s_in >= 1; }
                if a == 0 { assert(s_in * s_in == 0) by(nonlinear_arith) requires s_in == 0; }
                // rr * pow(ss, e/2) == pow(a, e0)
                let f = if e % 2 == 1 { s_in } else { 1 };
                assert(rr == r_in * f) by(nonlinear_arith) requires (e % 2 == 1 && rr == r_in * s_in && f == s_in) || (e % 2 == 0 && rr == r_in && f == 1);
                assert(rr * pow(ss, e / 2) == r_in * (pow(ss, e / 2) * f)) by(nonlinear_arith) requires rr == r_in * f;
                assert(exp.val() as nat == e / 2);
            }
        }
        proof {
            assert(exp.val() == 0);
            lemma_pow0(ss);
            assert(rr * 1 == rr) by(nonlinear_arith);
        }
        (result, overflow)
    }
}

} // verus!
fn main() {}

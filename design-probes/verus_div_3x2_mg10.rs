use vstd::prelude::*;
use vstd::arithmetic::power2::*;
use vstd::arithmetic::mul::*;
use vstd::arithmetic::div_mod::*;
use vstd::bits::*;
verus! {

pub open spec const B: int = 0x1_0000_0000_0000_0000;

// k = B^3 - vv*d in [1, d], vv in [B, 2B)
pub proof fn lemma_k3(d: int, vv: int)
    requires B * B / 2 <= d < B * B, vv == (B * B * B - 1) / d
    ensures 1 <= B * B * B - vv * d <= d, B <= vv < 2 * B
{
    let n = B * B * B - 1;
    lemma_fundamental_div_mod(n, d);
    lemma_mod_bound(n, d);
    assert(d * vv == vv * d) by { lemma_mul_is_commutative(d, vv); }
    // vv >= B : d*B <= n
    assert(d * B <= n) by(nonlinear_arith) requires d <= B * B - 1, n == B * B * B - 1, B > 1;
    lemma_div_is_ordered(d * B, n, d);
    lemma_div_multiples_vanish(B, d);
    assert(B * d == d * B) by { lemma_mul_is_commutative(d, B); }
    // vv < 2B : vv*d <= n < 2B*d
    assert(n < 2 * B * d) by(nonlinear_arith) requires d >= B * B / 2, n == B * B * B - 1, B == 0x1_0000_0000_0000_0000;
    assert(vv < 2 * B) by(nonlinear_arith) requires vv * d <= n, n < 2 * B * d, d > 0;
}

// MG10 Theorem 3, the candidate-remainder bounds
pub proof fn lemma_mg10_3x2(u2: int, u1: int, u0: int, d1: int, d0: int, vv: int, q1: int, q0: int)
    requires
        0 <= u2 < B, 0 <= u1 < B, 0 <= u0 < B, 0 <= d1 < B, 0 <= d0 < B,
        B * B / 2 <= d1 * B + d0,
        u2 * B + u1 < d1 * B + d0,
        vv == (B * B * B - 1) / (d1 * B + d0),
        0 <= q0 < B,
        u2 * vv + u1 == q1 * B + q0,
    ensures
        ({
            let d = d1 * B + d0;
            let rt = (u2 * B + u1) * B + u0 - (q1 + 1) * d;
            let m = if B * B - d >= q0 * B { B * B - d } else { q0 * B };
            &&& m - B * B <= rt < m
            &&& 0 <= q1 < B
        })
{
    let d = d1 * B + d0;
    let s = B * B - d;
    let k = B * B * B - vv * d;
    let v = vv - B;
    assert(d < B * B) by(nonlinear_arith) requires d == d1 * B + d0, d1 <= B - 1, d0 <= B - 1;
    lemma_k3(d, vv);
    let rt = (u2 * B + u1) * B + u0 - (q1 + 1) * d;
    let m = if s >= q0 * B { s } else { q0 * B };
    let f = u2 * k + u1 * s + u0 * B - B * d;
    // identity  B*rt == F + q0*d
    assert(B * rt == f + q0 * d) by(nonlinear_arith)
        requires k == B * B * B - vv * d, s == B * B - d, f == u2 * k + u1 * s + u0 * B - B * d,
                 rt == (u2 * B + u1) * B + u0 - (q1 + 1) * d, u2 * vv + u1 == q1 * B + q0;
    assert(1 <= s <= B * B / 2 + 1);
    // ---- lower bound ----
    assert(u2 * k >= 0) by(nonlinear_arith) requires u2 >= 0, k >= 1;
    assert(u1 * s >= 0) by(nonlinear_arith) requires u1 >= 0, s >= 1;
    assert(u0 * B >= 0) by(nonlinear_arith) requires u0 >= 0;
    assert(f >= -(B * d));
    assert(q0 * d >= 0) by(nonlinear_arith) requires q0 >= 0, d > 0;
    if s >= q0 * B {
        // m = s = B^2 - d ; need rt >= -d
        assert(B * rt >= -(B * d));
        assert(rt >= -d) by(nonlinear_arith) requires B * rt >= -(B * d), B > 0;
    } else {
        // m = q0*B ; need rt >= q0*B - B^2 :  B*rt >= q0*d - B*d >= B*(q0*B - B*B)
        assert(q0 * d - B * d >= B * (q0 * B - B * B)) by(nonlinear_arith)
            requires 0 <= q0 < B, s == B * B - d, s >= 1;
        assert(rt >= q0 * B - B * B) by(nonlinear_arith)
            requires B * rt >= B * (q0 * B - B * B), B > 0;
    }
    // ---- upper bound:  B*F < s*s ----
    assert(k == B * s - v * d) by(nonlinear_arith) requires k == B * B * B - vv * d, s == B * B - d, v == vv - B;
    assert(k <= B * s) by(nonlinear_arith) requires k == B * s - v * d, v >= 0, d > 0;
    // u2 <= d1
    assert(u2 <= d1) by(nonlinear_arith) requires u2 * B + u1 < d1 * B + d0, u1 >= 0, d0 < B;
    assert(B * f < s * s) by {
        if u2 <= d1 - 1 {
            // Case A
            assert(u2 * k <= (d1 - 1) * d) by(nonlinear_arith) requires 0 <= u2 <= d1 - 1, 1 <= k <= d;
            assert(u1 * s <= (B - 1) * s) by(nonlinear_arith) requires u1 <= B - 1, s >= 1;
            assert(u0 * B <= (B - 1) * B) by(nonlinear_arith) requires u0 <= B - 1;
            assert(B * ((d1 - 1) * d + (B - 1) * s + (B - 1) * B - B * d) < s * s) by(nonlinear_arith)
                requires d == d1 * B + d0, 0 <= d0, s == B * B - d, s >= 1, d >= 1, B == 0x1_0000_0000_0000_0000;
            assert(B * f <= B * ((d1 - 1) * d + (B - 1) * s + (B - 1) * B - B * d)) by(nonlinear_arith)
                requires f == u2 * k + u1 * s + u0 * B - B * d, u2 * k <= (d1 - 1) * d, u1 * s <= (B - 1) * s, u0 * B <= (B - 1) * B, B > 0;
        } else {
            // Case B: u2 == d1, u1 <= d0 - 1
            assert(u2 == d1);
            assert(u1 <= d0 - 1);
            assert(u1 * s <= (d0 - 1) * s) by(nonlinear_arith) requires u1 <= d0 - 1, s >= 1;
            assert(u0 * B <= (B - 1) * B) by(nonlinear_arith) requires u0 <= B - 1;
            if B * s <= d && s <= B - 1 {
                assert(d1 * k <= d1 * (B * s)) by(nonlinear_arith) requires d1 >= 0, k <= B * s;
                assert(B * (d1 * (B * s) + (d0 - 1) * s + (B - 1) * B - B * d) < s * s) by(nonlinear_arith)
                    requires d == d1 * B + d0, s == B * B - d, 1 <= s <= B - 1, B == 0x1_0000_0000_0000_0000;
                assert(B * f <= B * (d1 * (B * s) + (d0 - 1) * s + (B - 1) * B - B * d)) by(nonlinear_arith)
                    requires f == u2 * k + u1 * s + u0 * B - B * d, u2 == d1, d1 * k <= d1 * (B * s), u1 * s <= (d0 - 1) * s, u0 * B <= (B - 1) * B, B > 0;
            } else {
                assert(d1 * k <= d1 * d) by(nonlinear_arith) requires d1 >= 0, k <= d;
                assert(B * (d1 * d + (d0 - 1) * s + (B - 1) * B - B * d) < s * s) by(nonlinear_arith)
                    requires d == d1 * B + d0, 0 <= d0 <= B - 1, s == B * B - d, s >= 1, (B * s > d || s >= B - 1),
                             d >= B * B / 2, B == 0x1_0000_0000_0000_0000;
                assert(B * f <= B * (d1 * d + (d0 - 1) * s + (B - 1) * B - B * d)) by(nonlinear_arith)
                    requires f == u2 * k + u1 * s + u0 * B - B * d, u2 == d1, d1 * k <= d1 * d, u1 * s <= (d0 - 1) * s, u0 * B <= (B - 1) * B, B > 0;
            }
        }
    }
    // B*F < s^2  ==>  rt < m
    assert(B * B * (f + q0 * d) < B * (s * s) + B * B * (q0 * d)) by(nonlinear_arith) requires B * f < s * s, B > 0;
    assert(B * B * B * m >= B * (s * s) + B * B * (q0 * d)) by(nonlinear_arith)
        requires m >= s, m >= q0 * B, s + d == B * B, s >= 1, d >= 1, q0 >= 0, B > 0;
    assert(B * B * (B * rt) < B * B * B * m);
    assert(rt < m) by(nonlinear_arith) requires B * B * (B * rt) < B * B * B * m, B > 0;
    // q1 range:  B*(u2*vv + u1) < B^3
    assert(vv * d <= B * B * B - 1);
    assert(B * (u2 * vv + u1) < B * B * B) by {
        if u2 <= d1 - 1 {
            assert(B * (u2 * vv) <= (d - d0 - B) * vv) by(nonlinear_arith)
                requires 0 <= u2 <= d1 - 1, d == d1 * B + d0, vv >= 0;
            assert((d - d0 - B) * vv <= B * B * B - 1 - B * vv) by(nonlinear_arith)
                requires vv * d <= B * B * B - 1, d0 >= 0, vv >= 0;
            assert(B * vv >= B * B) by(nonlinear_arith) requires vv >= B, B > 0;
            assert(B * u1 <= B * B - B) by(nonlinear_arith) requires u1 <= B - 1, B > 0;
            assert(B * (u2 * vv + u1) == B * (u2 * vv) + B * u1) by(nonlinear_arith);
        } else {
            assert(u2 == d1 && u1 <= d0 - 1);
            assert(B * (u2 * vv) == (d - d0) * vv) by(nonlinear_arith) requires u2 == d1, d == d1 * B + d0;
            assert((d - d0) * vv == vv * d - d0 * vv) by(nonlinear_arith);
            assert(d0 * vv >= d0 * B) by(nonlinear_arith) requires d0 >= 0, vv >= B;
            assert(B * u1 <= B * d0 - B) by(nonlinear_arith) requires u1 <= d0 - 1, B > 0;
            assert(B * d0 == d0 * B) by(nonlinear_arith);
            assert(B * (u2 * vv + u1) == B * (u2 * vv) + B * u1) by(nonlinear_arith);
        }
    }
    assert(u2 * vv + u1 < B * B) by(nonlinear_arith) requires B * (u2 * vv + u1) < B * B * B, B > 0;
    assert(q1 < B) by(nonlinear_arith) requires q1 * B + q0 < B * B, q0 >= 0, B > 0;
    assert(q1 >= 0) by(nonlinear_arith) requires q1 * B + q0 >= 0, q0 < B, B > 0;
}


// ---------- DoubleWord (src/algorithms/mod.rs), verbatim modulo N1/N2 ----------
trait DoubleWord<T>: Sized + Copy {
    fn join(high: T, low: T) -> Self;
    fn mul(a: T, b: T) -> Self;
    fn high(self) -> T;
    fn low(self) -> T;
}
impl DoubleWord<u64> for u128 {
    fn join(high: u64, low: u64) -> (r: Self)
        ensures r as int == high as int * B + low as int
    {
        proof {
            let h = high as u128; let l = low as u128;
            assert(((h << 64) | l) == h * 0x1_0000_0000_0000_0000u128 + l) by(bit_vector)
                requires h < 0x1_0000_0000_0000_0000u128, l < 0x1_0000_0000_0000_0000u128;
        }
        (Self::from(high) << 64) | Self::from(low)
    }
    fn mul(a: u64, b: u64) -> (r: Self)
        ensures r as int == a as int * b as int
    {
        proof {
            assert((a as int) * (b as int) <= 0xffff_ffff_ffff_ffff * 0xffff_ffff_ffff_ffff) by(nonlinear_arith)
                requires 0 <= a as int <= 0xffff_ffff_ffff_ffff, 0 <= b as int <= 0xffff_ffff_ffff_ffff;
            assert((a as int) * (b as int) >= 0) by(nonlinear_arith) requires a as int >= 0, b as int >= 0;
        }
        Self::from(a) * Self::from(b)
    }
    fn high(self) -> (r: u64)
        ensures r as int == (self as int) / B
    {
        proof { lemma_u128_shr_is_div(self, 64); lemma2_to64(); }
        (self >> 64) as u64
    }
    fn low(self) -> (r: u64)
        ensures r as int == (self as int) % B
    {
        assert(self as u64 == (self % 0x1_0000_0000_0000_0000u128) as u64) by(bit_vector);
        self as u64
    }
}

pub open spec fn is_reciprocal_2(d: u128, v: u64) -> bool {
    (v as int + B) == (B * B * B - 1) / (d as int)
}

// ---------- machine-arithmetic lemmas, kept out of the exec query (see DESIGN 3.5 "query shape") ----------

// the wrapping computation of r equals the candidate remainder mod B^2
pub proof fn lemma_3x2_r_mod(u2: int, u1: int, u0: int, d1: int, d0: int, q1i: int, r1: int, t: int, r: int)
    requires
        0 <= d1 * B + d0 < B * B,
        r1 == (u1 - (q1i * d1) % B) % B,
        t == d0 * q1i,
        r == ((r1 * B + u0 - t) % (B * B) - (d1 * B + d0)) % (B * B),
    ensures
        r == ((u2 * B + u1) * B + u0 - (q1i + 1) * (d1 * B + d0)) % (B * B)
{
    let bb = B * B;
    let di = d1 * B + d0;
    let rt = (u2 * B + u1) * B + u0 - (q1i + 1) * di;
    lemma_sub_mod_noop_right(u1, q1i * d1, B);
    assert(r1 == (u1 - q1i * d1) % B);
    let j = r1 * B + u0;
    lemma_sub_mod_noop((j - t), di, bb);
    lemma_small_mod(di as nat, bb as nat);
    assert(r == (j - t - di) % bb);
    let a = u1 - q1i * d1;
    lemma_fundamental_div_mod(a, B);
    assert((a % B) * B + u0 - t - di == (a * B + u0 - t - di) + (-(a / B)) * bb) by(nonlinear_arith)
        requires a == B * (a / B) + a % B, bb == B * B;
    lemma_mod_multiples_vanish(-(a / B), a * B + u0 - t - di, bb);
    assert(r == (a * B + u0 - t - di) % bb);
    assert(a * B + u0 - t - di == rt + (-u2) * bb) by(nonlinear_arith)
        requires a == u1 - q1i * d1, t == d0 * q1i, di == d1 * B + d0, rt == (u2 * B + u1) * B + u0 - (q1i + 1) * di, bb == B * B;
    lemma_mod_multiples_vanish(-u2, rt, bb);
}

// first adjustment: decide on  floor(r/B) >= q0
pub proof fn lemma_3x2_adjust1(rt: int, di: int, q0i: int, qc: int, ui: int)
    requires
        B * B / 2 <= di < B * B, 0 <= q0i < B, 1 <= qc <= B,
        rt == ui - qc * di, 0 <= ui < di * B,
        ({ let m = if B * B - di >= q0i * B { B * B - di } else { q0i * B }; m - B * B <= rt < m }),
    ensures
        ({
            let bb = B * B;
            let ra = rt % bb;
            let c = ra / B >= q0i;
            let qb = if c { qc - 1 } else { qc };
            let rb = if c { rt + di } else { rt };
            &&& 0 <= ra < bb
            &&& c ==> (ra + di) % bb == rb && (qc % B - 1) % B == qb
            &&& !c ==> ra == rb && qc % B == qb
            &&& 0 <= rb < 2 * di && 0 <= qb && qb * di + rb == ui
        })
{
    let bb = B * B;
    let m = if bb - di >= q0i * B { bb - di } else { q0i * B };
    let ra = rt % bb;
    lemma_mod_bound(rt, bb);
    lemma_fundamental_div_mod(ra, B);
    lemma_mod_bound(ra, B);
    let c = ra / B >= q0i;
    assert(c == (ra >= q0i * B)) by(nonlinear_arith)
        requires c == (ra / B >= q0i), ra == B * (ra / B) + ra % B, 0 <= ra % B < B;
    assert(m <= bb) by(nonlinear_arith) requires m == (if bb - di >= q0i * B { bb - di } else { q0i * B }), q0i < B, q0i >= 0, di > 0, bb == B * B;
    let qb = if c { qc - 1 } else { qc };
    let rb = if c { rt + di } else { rt };
    if rt < 0 {
        lemma_mod_add_multiples_vanish(rt, bb);
        lemma_small_mod((rt + bb) as nat, bb as nat);
        assert(ra == rt + bb);
        assert(c);
        lemma_mod_add_multiples_vanish(rt + di, bb);
        lemma_small_mod((rt + di) as nat, bb as nat);
        lemma_sub_mod_noop(qc, 1, B);
        lemma_small_mod(1, B as nat);
        lemma_small_mod((qc - 1) as nat, B as nat);
    } else {
        lemma_small_mod(rt as nat, bb as nat);
        assert(ra == rt);
        assert(qc < B) by(nonlinear_arith) requires rt >= 0, rt == ui - qc * di, ui < di * B, di > 0;
        lemma_small_mod(qc as nat, B as nat);
        if c {
            assert(rt < bb - di);
            lemma_small_mod((rt + di) as nat, bb as nat);
            lemma_small_mod((qc - 1) as nat, B as nat);
        }
    }
    assert(qb * di + rb == ui) by(nonlinear_arith)
        requires rt == ui - qc * di, (qb == qc - 1 && rb == rt + di) || (qb == qc && rb == rt);
}

// second (rare) adjustment
pub proof fn lemma_3x2_adjust2(qb: int, rb: int, di: int, ui: int)
    requires qb * di + rb == ui, di <= rb < 2 * di, 0 <= ui < di * B, 0 <= qb, 0 < di < B * B
    ensures qb + 1 < B, (rb - di) % (B * B) == rb - di, (qb + 1) % B == qb + 1, (qb + 1) * di + (rb - di) == ui
{
    lemma_small_mod((rb - di) as nat, (B * B) as nat);
    assert(qb + 1 < B) by(nonlinear_arith) requires qb * di + rb == ui, rb >= di, ui < di * B, di > 0;
    lemma_small_mod((qb + 1) as nat, B as nat);
    assert((qb + 1) * di + (rb - di) == ui) by(nonlinear_arith) requires qb * di + rb == ui;
}

// everything the exec function needs, in terms of the machine values only
pub proof fn lemma_3x2_q_no_overflow(u21i: int, di: int, vi: int)
    requires B * B / 2 <= di < B * B, 0 <= u21i < di, 0 <= vi < B, vi + B == (B * B * B - 1) / di
    ensures 0 <= (u21i / B) * vi, (u21i / B) * vi + u21i < B * B
{
    let u2 = u21i / B; let u1 = u21i % B; let d1 = di / B; let d0 = di % B; let vv = vi + B;
    lemma_fundamental_div_mod(u21i, B);
    lemma_fundamental_div_mod(di, B);
    assert(B * u2 == u2 * B && B * d1 == d1 * B) by(nonlinear_arith);
    assert(0 <= u2 < B && 0 <= d1 < B) by(nonlinear_arith)
        requires u21i == B * u2 + u1, di == B * d1 + d0, 0 <= u1 < B, 0 <= d0 < B, 0 <= u21i, u21i < B * B, 0 <= di, di < B * B;
    let qi = u2 * vv + u1;
    lemma_fundamental_div_mod(qi, B);
    assert(B * (qi / B) == (qi / B) * B) by(nonlinear_arith);
    lemma_mod_bound(qi, B);
    lemma_mg10_3x2(u2, u1, 0, d1, d0, vv, qi / B, qi % B);
    assert(qi < B * B) by(nonlinear_arith) requires qi == (qi / B) * B + qi % B, qi / B <= B - 1, qi % B <= B - 1;
    assert(u2 * vi + u21i == qi) by(nonlinear_arith) requires vv == vi + B, u21i == u2 * B + u1, qi == u2 * vv + u1;
    assert(u2 * vi >= 0) by(nonlinear_arith) requires u2 >= 0, vi >= 0;
}

#[verifier::opaque]
pub open spec fn res_3x2(u21i: int, u0i: int, di: int, vi: int) -> (int, int) {
    let bb = B * B;
    let qi = (u21i / B) * vi + u21i;
    let r1 = (u21i % B - ((qi / B) * (di / B)) % B) % B;
    let t = (di % B) * (qi / B);
    let r = ((r1 * B + u0i - t) % bb - di) % bb;
    let q1 = (qi / B + 1) % B;
    let c = r / B >= qi % B;
    let r_a = if c { (r + di) % bb } else { r };
    let q_a = if c { (q1 - 1) % B } else { q1 };
    let c2 = r_a >= di;
    (if c2 { (q_a + 1) % B } else { q_a }, if c2 { (r_a - di) % bb } else { r_a })
}

pub proof fn lemma_3x2_all(u21i: int, u0i: int, di: int, vi: int)
    requires B * B / 2 <= di < B * B, 0 <= u21i < di, 0 <= u0i < B, 0 <= vi < B, vi + B == (B * B * B - 1) / di
    ensures ({
        let (qf, rf) = res_3x2(u21i, u0i, di, vi);
        qf * di + rf == u21i * B + u0i && 0 <= rf < di && 0 <= qf < B
    })
{
    reveal(res_3x2);
    let bb = B * B;
    let u2 = u21i / B; let u1 = u21i % B; let d1 = di / B; let d0 = di % B; let vv = vi + B;
    let ui = u21i * B + u0i;
    lemma_fundamental_div_mod(u21i, B);
    lemma_fundamental_div_mod(di, B);
    assert(B * u2 == u2 * B && B * d1 == d1 * B) by(nonlinear_arith);
    assert(0 <= u2 < B && 0 <= d1 < B) by(nonlinear_arith)
        requires u21i == B * u2 + u1, di == B * d1 + d0, 0 <= u1 < B, 0 <= d0 < B, 0 <= u21i, u21i < B * B, 0 <= di, di < B * B;
    let qi = u2 * vi + u21i;
    let qi2 = u2 * vv + u1;
    assert(qi == qi2) by(nonlinear_arith) requires vv == vi + B, u21i == u2 * B + u1, qi == u2 * vi + u21i, qi2 == u2 * vv + u1;
    lemma_fundamental_div_mod(qi, B);
    assert(B * (qi / B) == (qi / B) * B) by(nonlinear_arith);
    lemma_mod_bound(qi, B);
    let q1i = qi / B; let q0i = qi % B; let qc = q1i + 1;
    lemma_mg10_3x2(u2, u1, u0i, d1, d0, vv, q1i, q0i);
    let rt = ui - qc * di;
    assert(ui == (u2 * B + u1) * B + u0i);
    assert(di == d1 * B + d0);
    assert(ui < di * B) by(nonlinear_arith) requires ui == u21i * B + u0i, u21i <= di - 1, u0i < B;
    assert(ui >= 0) by(nonlinear_arith) requires ui == u21i * B + u0i, u21i >= 0, u0i >= 0;
    let r1 = (u1 - (q1i * d1) % B) % B;
    let t = d0 * q1i;
    let r = ((r1 * B + u0i - t) % bb - di) % bb;
    lemma_3x2_r_mod(u2, u1, u0i, d1, d0, q1i, r1, t, r);
    assert(rt == (u2 * B + u1) * B + u0i - (q1i + 1) * (d1 * B + d0));
    assert(r == rt % bb);
    lemma_3x2_adjust1(rt, di, q0i, qc, ui);
    let c = r / B >= q0i;
    let qb = if c { qc - 1 } else { qc };
    let rb = if c { rt + di } else { rt };
    if rb >= di { lemma_3x2_adjust2(qb, rb, di, ui); }
    else { lemma_small_mod(qb as nat, B as nat); assert(qb < B) by(nonlinear_arith) requires qb * di + rb == ui, rb >= 0, ui < di * B, di > 0; }
}

// ---------- the real function (src/algorithms/div/small.rs), N9 applied ----------
pub fn div_3x2_mg10(u21: u128, u0: u64, d: u128, v: u64) -> (res: (u64, u128))
    requires
        d as int >= B * B / 2,
        u21 < d,
        is_reciprocal_2(d, v),
    ensures
        res.0 as int * d as int + res.1 as int == u21 as int * B + u0 as int,
        res.1 < d,
{
    proof {
        assert(B * B == 0x1_0000_0000_0000_0000_0000_0000_0000_0000) by(compute_only);
        lemma_3x2_q_no_overflow(u21 as int, d as int, v as int);
    }
    let q = u128::mul(u21.high(), v) + u21;
    let ghost bb = B * B;
    let ghost qi = q as int;
    proof { assert(qi == ((u21 as int) / B) * v as int + u21 as int); }
    let r1 = u21.low().wrapping_sub(q.high().wrapping_mul(d.high()));
    proof { assert(r1 as int == ((u21 as int) % B - ((qi / B) * ((d as int) / B)) % B) % B); }
    let t = u128::mul(d.low(), q.high());
    proof { assert(t as int == ((d as int) % B) * (qi / B)); }
    let mut r = u128::join(r1, u0).wrapping_sub(t).wrapping_sub(d);
    proof { assert(r as int == ((r1 as int * B + u0 as int - t as int) % bb - d as int) % bb); }
    let mut q1 = q.high().wrapping_add(1);
    proof { assert(q1 as int == (qi / B + 1) % B); }
    let ghost r_0 = r as int; let ghost q1_0 = q1 as int;
    let ghost c = r_0 / B >= qi % B;
    if r.high() >= q.low() {
        q1 = q1.wrapping_sub(1);
        r = r.wrapping_add(d);
    }
    let ghost r_1 = r as int; let ghost q1_1 = q1 as int;
    proof {
        assert(r_1 == (if c { (r_0 + d as int) % bb } else { r_0 }));
        assert(q1_1 == (if c { (q1_0 - 1) % B } else { q1_0 }));
    }
    let ghost c2 = r_1 >= d as int;
    if r >= d {
        q1 = q1.wrapping_add(1);
        r = r.wrapping_sub(d);
    }
    proof {
        assert(r as int == (if c2 { (r_1 - d as int) % bb } else { r_1 }));
        assert(q1 as int == (if c2 { (q1_1 + 1) % B } else { q1_1 }));
        assert((q1 as int, r as int) == res_3x2(u21 as int, u0 as int, d as int, v as int)) by { reveal(res_3x2); }
        lemma_3x2_all(u21 as int, u0 as int, d as int, v as int);
    }
    (q1, r)
}

} // verus!
fn main() {}

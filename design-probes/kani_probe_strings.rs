#![allow(unused)]
#[cfg(kani)]
mod hs {
    use ruint::{Uint, ParseError, BaseConvertError};
    // independent digit table
    fn digit(c: u8, radix: u64) -> Option<Option<u64>> { // None = invalid, Some(None) = ignored
        if radix <= 36 {
            match c { b'0'..=b'9' => Some(Some((c - b'0') as u64)), b'a'..=b'z' => Some(Some((c - b'a') as u64 + 10)), b'A'..=b'Z' => Some(Some((c - b'A') as u64 + 10)), b'_' => Some(None), _ => None }
        } else {
            match c { b'A'..=b'Z' => Some(Some((c - b'A') as u64)), b'a'..=b'z' => Some(Some((c - b'a') as u64 + 26)), b'0'..=b'9' => Some(Some((c - b'0') as u64 + 52)), b'+' | b'-' => Some(Some(62)), b'/' | b',' | b'_' => Some(Some(63)), b'=' | b'\r' | b'\n' => Some(None), _ => None }
        }
    }
    #[kani::proof]
    #[kani::unwind(5)]
    fn from_str_radix_16() {
        let bytes: [u8; 3] = kani::any();
        kani::assume(bytes[0] < 128 && bytes[1] < 128 && bytes[2] < 128);
        let len: usize = kani::any(); kani::assume(len <= 3);
        let s = core::str::from_utf8(&bytes[..len]).unwrap();
        let radix: u64 = kani::any(); kani::assume(radix <= 65);
        let r = Uint::<16, 1>::from_str_radix(s, radix);
        if radix > 64 { assert!(matches!(r, Err(ParseError::InvalidRadix(_)))); return; }
        if radix < 2 { assert!(matches!(r, Err(ParseError::BaseConvertError(BaseConvertError::InvalidBase(_))))); return; }
        // oracle: Horner over valid prefix
        let mut v: u128 = 0; let mut bad_char = false; let mut bad_digit = false; let mut ovf = false;
        let mut i = 0;
        while i < len {
            match digit(bytes[i], radix) {
                None => { bad_char = true; break; }
                Some(None) => {}
                Some(Some(d)) => { if d >= radix { bad_digit = true; break; } v = v * (radix as u128) + d as u128; if v >= 1 << 16 { ovf = true; break; } }
            }
            i += 1;
        }
        if !bad_char && !bad_digit && !ovf { assert!(r.is_ok()); assert_eq!(r.unwrap().as_limbs()[0] as u128, v); }
        else { assert!(r.is_err()); }
    }

    #[kani::proof]
    #[kani::unwind(12)]
    fn to_base_le_const10_128() {
        let limbs: [u64; 2] = kani::any();
        let v = Uint::<128, 2>::from_limbs(limbs);
        let vi = (limbs[0] as u128) | ((limbs[1] as u128) << 64);
        let mut it = v.to_base_le(10);
        let d0 = it.next();
        let d1 = it.next();
        if vi == 0 { assert!(d0.is_none()); } else {
            assert_eq!(d0, Some((vi % 10) as u64));
            if vi / 10 == 0 { assert!(d1.is_none()); } else { assert_eq!(d1, Some(((vi / 10) % 10) as u64)); }
        }
    }
}

use vstd::prelude::*;
use core::cmp::Ordering;
verus! {
pub assume_specification<T: Ord> [core::cmp::min::<T>] (a: T, b: T) -> (r: T)
    ensures r == a || r == b;
#[verifier::exec_allows_no_decreases_clause]
pub fn cmp(left: &[u64], right: &[u64]) -> Ordering {
    let l = core::cmp::min(left.len(), right.len());
    let lhs = &left[..l];
    let rhs = &right[..l];
    for i in (0..l).rev() {
        match i8::from(lhs[i] > rhs[i]) - i8::from(lhs[i] < rhs[i]) {
            -1 => return Ordering::Less,
            0 => {}
            1 => return Ordering::Greater,
            _ => unsafe { core::hint::unreachable_unchecked() },
        }
    }
    left.len().cmp(&right.len())
}
}
fn main(){}

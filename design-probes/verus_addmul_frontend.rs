use vstd::prelude::*;
verus! {
#[verifier::external_body]
pub fn addmul_nx1(lhs: &mut [u64], a: &[u64], b: u64) -> (carry: u64)
    requires old(lhs).len() == a.len()
    ensures final(lhs).len() == old(lhs).len()
{ unimplemented!() }
#[verifier::external_body]
pub fn add_nx1(lhs: &mut [u64], a: u64) -> (carry: u64)
    ensures final(lhs).len() == old(lhs).len()
{ unimplemented!() }

#[verifier::exec_allows_no_decreases_clause]
pub fn addmul(lhs0: &mut [u64], a0: &[u64], b0: &[u64]) -> bool {
    let mut lhs = lhs0; let mut a = a0; let mut b = b0;
    // Trim zeros from `a`
    while a.len() > 0 && a[0] == 0 {
        let rest = &a[1..];
        a = rest;
        if lhs.len() > 0 {
            let rest = &mut lhs[1..];
            lhs = rest;
        }
    }
    while a.len() > 0 && a[a.len() - 1] == 0 {
        let rest = &a[..a.len() - 1];
        a = rest;
    }
    // Trim zeros from `b`
    while b.len() > 0 && b[0] == 0 {
        let rest = &b[1..];
        b = rest;
        if lhs.len() > 0 {
            let rest = &mut lhs[1..];
            lhs = rest;
        }
    }
    while b.len() > 0 && b[b.len() - 1] == 0 {
        let rest = &b[..b.len() - 1];
        b = rest;
    }

    if a.is_empty() || b.is_empty() {
        return false;
    }
    if lhs.is_empty() {
        return true;
    }

    let (a, b) = if b.len() > a.len() { (b, a) } else { (a, b) };

    // Iterate over limbs of `b` and add partial products to `lhs`.
    let mut overflow = false;
    for b_ref in b {
        let b = *b_ref;
        if lhs.len() >= a.len() {
            let (target, rest) = lhs.split_at_mut(a.len());
            let carry = addmul_nx1(target, a, b);
            let carry = add_nx1(rest, carry);
            overflow = overflow || carry != 0;
        } else {
            overflow = true;
            if lhs.is_empty() {
                break;
            }
            addmul_nx1(lhs, &a[..lhs.len()], b);
        }
        lhs = &mut lhs[1..];
    }
    overflow
}
}
fn main(){}

#![allow(unused)]
use ruint::Uint;
#[cfg(kani)]
mod h {
    use super::*;
    use alloy_rlp::{Encodable, Decodable};
    fn any_uint<const B: usize, const L: usize>() -> Uint<B, L> {
        let mut limbs: [u64; L] = kani::any();
        if L > 0 { limbs[L - 1] &= Uint::<B, L>::MASK; }
        Uint::from_limbs(limbs)
    }
    #[kani::proof]
    #[kani::unwind(12)]
    fn alloy_rt_64() {
        let x = any_uint::<64, 1>();
        let mut out: Vec<u8> = Vec::new();
        x.encode(&mut out);
        assert_eq!(out.len(), x.length());
        // identical to u64 encoding
        let mut out2: Vec<u8> = Vec::new();
        x.as_limbs()[0].encode(&mut out2);
        assert_eq!(out, out2);
        let mut s = &out[..];
        let y = Uint::<64, 1>::decode(&mut s);
        assert!(y == Ok(x));
        assert!(s.is_empty());
    }
    #[kani::proof]
    #[kani::unwind(12)]
    fn alloy_dec_60() {
        let bytes: [u8; 10] = kani::any();
        let len: usize = kani::any();
        kani::assume(len <= 10);
        let mut s = &bytes[..len];
        let r = Uint::<60, 1>::decode(&mut s);
        if let Ok(v) = r { assert!(v.as_limbs()[0] < (1 << 60)); }
    }
    #[kani::proof]
    #[kani::unwind(12)]
    fn borsh_dec_60() {
        let bytes: [u8; 8] = kani::any();
        let r: Result<Uint<60,1>, _> = borsh::from_slice(&bytes);
        if let Ok(v) = r { assert!(v.as_limbs()[0] < (1 << 60)); }
    }
    #[kani::proof]
    #[kani::unwind(12)]
    fn ssz_dec_7() {
        use ssz::Decode;
        let bytes: [u8; 2] = kani::any();
        let len: usize = kani::any();
        kani::assume(len <= 2);
        let r = Uint::<7,1>::from_ssz_bytes(&bytes[..len]);
        if let Ok(v) = r { assert!(v.as_limbs()[0] < (1 << 7)); assert!(len == 1); }
    }
}

use vstd::prelude::*;
verus! {
// forward: does final(limbs)@[j] relate to *final(it.seq()[j]) ?
pub fn fwd(limbs: &mut [u64])
    ensures final(limbs).len() == old(limbs).len(),
            forall|j: int| 0 <= j < old(limbs).len() ==> #[trigger] final(limbs)@[j] == old(limbs)@[j] / 2,
{
    for limb in it: limbs.iter_mut()
        invariant
            it.seq().len() == old(limbs).len(),
            forall|j: int| 0 <= j < it.seq().len() ==> *(#[trigger] it.seq()[j]) == old(limbs)@[j],
            forall|j: int| 0 <= j < it.index@ ==> *final(#[trigger] it.seq()[j]) == old(limbs)@[j] / 2,
    {
        *limb = *limb / 2;
    }
}
pub fn bwd(limbs: &mut [u64])
    ensures final(limbs).len() == old(limbs).len(),
            forall|j: int| 0 <= j < old(limbs).len() ==> #[trigger] final(limbs)@[j] == old(limbs)@[j] / 2,
{
    let ghost n = limbs.len() as int;
    let ghost fin = final(limbs)@;
    for limb in it: limbs.iter_mut().rev()
        invariant
            n == old(limbs).len(),
            it.seq().len() == n,
            forall|j: int| 0 <= j < n ==> *(#[trigger] it.seq()[j]) == old(limbs)@[n - 1 - j],
            forall|i: int| 0 <= i < n && n - 1 - i < it.index@ ==> #[trigger] fin[i] == old(limbs)@[i] / 2,
            fin.len() == n,
            forall|j: int| 0 <= j < n ==> *final(#[trigger] it.seq()[j]) == fin[n - 1 - j],
    {
        *limb = *limb / 2;
    }
    proof {
        assert(final(limbs)@ == fin);
    }
}
pub open spec fn it_seq_dummy(k: int) -> &'static mut u64;
}
fn main(){}

use vstd::prelude::*;
use vstd::arithmetic::power2::*;
use vstd::arithmetic::mul::*;
use vstd::arithmetic::div_mod::*;
use vstd::bits::*;
verus! {

pub open spec const B: int = 0x1_0000_0000_0000_0000;

// k = B^3 - vv*d in [1, d], vv in [B, 2B)
pub proof fn lemma_k3(d: int, vv: int)
    requires B * B / 2 <= d < B * B, vv == (B * B * B - 1) / d
    ensures 1 <= B * B * B - vv * d <= d, B <= vv < 2 * B
{
    let n = B * B * B - 1;
    lemma_fundamental_div_mod(n, d);
    lemma_mod_bound(n, d);
    assert(d * vv == vv * d) by { lemma_mul_is_commutative(d, vv); }
    // vv >= B : d*B <= n
    assert(d * B <= n) by(nonlinear_arith) requires d <= B * B - 1, n == B * B * B - 1, B > 1;
    lemma_div_is_ordered(d * B, n, d);
    lemma_div_multiples_vanish(B, d);
    assert(B * d == d * B) by { lemma_mul_is_commutative(d, B); }
    // vv < 2B : vv*d <= n < 2B*d
    assert(n < 2 * B * d) by(nonlinear_arith) requires d >= B * B / 2, n == B * B * B - 1, B == 0x1_0000_0000_0000_0000;
    assert(vv < 2 * B) by(nonlinear_arith) requires vv * d <= n, n < 2 * B * d, d > 0;
}

// MG10 Theorem 3, the candidate-remainder bounds
pub proof fn lemma_mg10_3x2(u2: int, u1: int, u0: int, d1: int, d0: int, vv: int, q1: int, q0: int)
    requires
        0 <= u2 < B, 0 <= u1 < B, 0 <= u0 < B, 0 <= d1 < B, 0 <= d0 < B,
        B * B / 2 <= d1 * B + d0,
        u2 * B + u1 < d1 * B + d0,
        vv == (B * B * B - 1) / (d1 * B + d0),
        0 <= q0 < B,
        u2 * vv + u1 == q1 * B + q0,
    ensures
        ({
            let d = d1 * B + d0;
            let rt = (u2 * B + u1) * B + u0 - (q1 + 1) * d;
            let m = if B * B - d >= q0 * B { B * B - d } else { q0 * B };
            &&& m - B * B <= rt < m
            &&& 0 <= q1 < B
        })
{
    let d = d1 * B + d0;
    let s = B * B - d;
    let k = B * B * B - vv * d;
    let v = vv - B;
    assert(d < B * B) by(nonlinear_arith) requires d == d1 * B + d0, d1 <= B - 1, d0 <= B - 1;
    lemma_k3(d, vv);
    let rt = (u2 * B + u1) * B + u0 - (q1 + 1) * d;
    let m = if s >= q0 * B { s } else { q0 * B };
    let f = u2 * k + u1 * s + u0 * B - B * d;
    // identity  B*rt == F + q0*d
    assert(B * rt == f + q0 * d) by(nonlinear_arith)
        requires k == B * B * B - vv * d, s == B * B - d, f == u2 * k + u1 * s + u0 * B - B * d,
                 rt == (u2 * B + u1) * B + u0 - (q1 + 1) * d, u2 * vv + u1 == q1 * B + q0;
    assert(1 <= s <= B * B / 2 + 1);
    // ---- lower bound ----
    assert(u2 * k >= 0) by(nonlinear_arith) requires u2 >= 0, k >= 1;
    assert(u1 * s >= 0) by(nonlinear_arith) requires u1 >= 0, s >= 1;
    assert(u0 * B >= 0) by(nonlinear_arith) requires u0 >= 0;
    assert(f >= -(B * d));
    assert(q0 * d >= 0) by(nonlinear_arith) requires q0 >= 0, d > 0;
    if s >= q0 * B {
        // m = s = B^2 - d ; need rt >= -d
        assert(B * rt >= -(B * d));
        assert(rt >= -d) by(nonlinear_arith) requires B * rt >= -(B * d), B > 0;
    } else {
        // m = q0*B ; need rt >= q0*B - B^2 :  B*rt >= q0*d - B*d >= B*(q0*B - B*B)
        assert(q0 * d - B * d >= B * (q0 * B - B * B)) by(nonlinear_arith)
            requires 0 <= q0 < B, s == B * B - d, s >= 1;
        assert(rt >= q0 * B - B * B) by(nonlinear_arith)
            requires B * rt >= B * (q0 * B - B * B), B > 0;
    }
    // ---- upper bound:  B*F < s*s ----
    assert(k == B * s - v * d) by(nonlinear_arith) requires k == B * B * B - vv * d, s == B * B - d, v == vv - B;
    assert(k <= B * s) by(nonlinear_arith) requires k == B * s - v * d, v >= 0, d > 0;
    // u2 <= d1
    assert(u2 <= d1) by(nonlinear_arith) requires u2 * B + u1 < d1 * B + d0, u1 >= 0, d0 < B;
    assert(B * f < s * s) by {
        if u2 <= d1 - 1 {
            // Case A
            assert(u2 * k <= (d1 - 1) * d) by(nonlinear_arith) requires 0 <= u2 <= d1 - 1, 1 <= k <= d;
            assert(u1 * s <= (B - 1) * s) by(nonlinear_arith) requires u1 <= B - 1, s >= 1;
            assert(u0 * B <= (B - 1) * B) by(nonlinear_arith) requires u0 <= B - 1;
            assert(B * ((d1 - 1) * d + (B - 1) * s + (B - 1) * B - B * d) < s * s) by(nonlinear_arith)
                requires d == d1 * B + d0, 0 <= d0, s == B * B - d, s >= 1, d >= 1, B == 0x1_0000_0000_0000_0000;
            assert(B * f <= B * ((d1 - 1) * d + (B - 1) * s + (B - 1) * B - B * d)) by(nonlinear_arith)
                requires f == u2 * k + u1 * s + u0 * B - B * d, u2 * k <= (d1 - 1) * d, u1 * s <= (B - 1) * s, u0 * B <= (B - 1) * B, B > 0;
        } else {
            // Case B: u2 == d1, u1 <= d0 - 1
            assert(u2 == d1);
            assert(u1 <= d0 - 1);
            assert(u1 * s <= (d0 - 1) * s) by(nonlinear_arith) requires u1 <= d0 - 1, s >= 1;
            assert(u0 * B <= (B - 1) * B) by(nonlinear_arith) requires u0 <= B - 1;
            if B * s <= d && s <= B - 1 {
                assert(d1 * k <= d1 * (B * s)) by(nonlinear_arith) requires d1 >= 0, k <= B * s;
                assert(B * (d1 * (B * s) + (d0 - 1) * s + (B - 1) * B - B * d) < s * s) by(nonlinear_arith)
                    requires d == d1 * B + d0, s == B * B - d, 1 <= s <= B - 1, B == 0x1_0000_0000_0000_0000;
                assert(B * f <= B * (d1 * (B * s) + (d0 - 1) * s + (B - 1) * B - B * d)) by(nonlinear_arith)
                    requires f == u2 * k + u1 * s + u0 * B - B * d, u2 == d1, d1 * k <= d1 * (B * s), u1 * s <= (d0 - 1) * s, u0 * B <= (B - 1) * B, B > 0;
            } else {
                assert(d1 * k <= d1 * d) by(nonlinear_arith) requires d1 >= 0, k <= d;
                assert(B * (d1 * d + (d0 - 1) * s + (B - 1) * B - B * d) < s * s) by(nonlinear_arith)
                    requires d == d1 * B + d0, 0 <= d0 <= B - 1, s == B * B - d, s >= 1, (B * s > d || s >= B - 1),
                             d >= B * B / 2, B == 0x1_0000_0000_0000_0000;
                assert(B * f <= B * (d1 * d + (d0 - 1) * s + (B - 1) * B - B * d)) by(nonlinear_arith)
                    requires f == u2 * k + u1 * s + u0 * B - B * d, u2 == d1, d1 * k <= d1 * d, u1 * s <= (d0 - 1) * s, u0 * B <= (B - 1) * B, B > 0;
            }
        }
    }
    // B*F < s^2  ==>  rt < m
    assert(B * B * (f + q0 * d) < B * (s * s) + B * B * (q0 * d)) by(nonlinear_arith) requires B * f < s * s, B > 0;
    assert(B * B * B * m >= B * (s * s) + B * B * (q0 * d)) by(nonlinear_arith)
        requires m >= s, m >= q0 * B, s + d == B * B, s >= 1, d >= 1, q0 >= 0, B > 0;
    assert(B * B * (B * rt) < B * B * B * m);
    assert(rt < m) by(nonlinear_arith) requires B * B * (B * rt) < B * B * B * m, B > 0;
    // q1 range:  B*(u2*vv + u1) < B^3
    assert(vv * d <= B * B * B - 1);
    assert(B * (u2 * vv + u1) < B * B * B) by {
        if u2 <= d1 - 1 {
            assert(B * (u2 * vv) <= (d - d0 - B) * vv) by(nonlinear_arith)
                requires 0 <= u2 <= d1 - 1, d == d1 * B + d0, vv >= 0;
            assert((d - d0 - B) * vv <= B * B * B - 1 - B * vv) by(nonlinear_arith)
                requires vv * d <= B * B * B - 1, d0 >= 0, vv >= 0;
            assert(B * vv >= B * B) by(nonlinear_arith) requires vv >= B, B > 0;
            assert(B * u1 <= B * B - B) by(nonlinear_arith) requires u1 <= B - 1, B > 0;
            assert(B * (u2 * vv + u1) == B * (u2 * vv) + B * u1) by(nonlinear_arith);
        } else {
            assert(u2 == d1 && u1 <= d0 - 1);
            assert(B * (u2 * vv) == (d - d0) * vv) by(nonlinear_arith) requires u2 == d1, d == d1 * B + d0;
            assert((d - d0) * vv == vv * d - d0 * vv) by(nonlinear_arith);
            assert(d0 * vv >= d0 * B) by(nonlinear_arith) requires d0 >= 0, vv >= B;
            assert(B * u1 <= B * d0 - B) by(nonlinear_arith) requires u1 <= d0 - 1, B > 0;
            assert(B * d0 == d0 * B) by(nonlinear_arith);
            assert(B * (u2 * vv + u1) == B * (u2 * vv) + B * u1) by(nonlinear_arith);
        }
    }
    assert(u2 * vv + u1 < B * B) by(nonlinear_arith) requires B * (u2 * vv + u1) < B * B * B, B > 0;
    assert(q1 < B) by(nonlinear_arith) requires q1 * B + q0 < B * B, q0 >= 0, B > 0;
    assert(q1 >= 0) by(nonlinear_arith) requires q1 * B + q0 >= 0, q0 < B, B > 0;
}

} // verus!
fn main() {}

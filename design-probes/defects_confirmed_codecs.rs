use ruint::{Uint, aliases::*};
use std::panic::catch_unwind;
use parity_scale_codec::{Encode, Decode, Compact, MaxEncodedLen, HasCompact};
use postgres_types::{FromSql, Type};
fn main() {
    std::panic::set_hook(Box::new(|_| {}));
    // C16 scale
    let x = U512::from(1u64 << 31);
    let r = catch_unwind(|| { let c = <U512 as HasCompact>::Type::from(x); let rf = ruint::support::scale::CompactRefUint(&c.0); rf.size_hint() });
    println!("scale compact size_hint U512 2^31: {:?}", r.map_err(|_| "PANIC"));
    let y = U64::from(5u64);
    println!("scale fixed U64 encode len {} max_encoded_len {} ; u64 encode len {}", y.encode().len(), U64::max_encoded_len(), 5u64.encode().len());
    // C17 postgres
    println!("pg JSONB empty: {:?}", catch_unwind(|| U64::from_sql(&Type::JSONB, &[]).is_ok()).map_err(|_| "PANIC"));
    println!("pg JSON '\"': {:?}", catch_unwind(|| U64::from_sql(&Type::JSON, b"\"").is_ok()).map_err(|_| "PANIC"));
    println!("pg VARBIT len=1 no payload: {:?}", catch_unwind(|| U64::from_sql(&Type::VARBIT, &[0,0,0,1]).is_ok()).map_err(|_| "PANIC"));
    println!("pg NUMERIC exp=32767: {:?}", catch_unwind(|| U64::from_sql(&Type::NUMERIC, &[0,0, 0x7f,0xff, 0,0, 0,0]).is_ok()).map_err(|_| "PANIC"));
    // ssz
    use ssz::Decode as _;
    println!("ssz U7 0xff: {:?}", catch_unwind(|| Uint::<7,1>::from_ssz_bytes(&[0xff]).is_ok()).map_err(|_| "PANIC"));
    println!("ssz U16 short: {:?}", Uint::<16,1>::from_ssz_bytes(&[1]).is_ok());
}

use vstd::prelude::*;
use vstd::arithmetic::mul::*;
use vstd::arithmetic::div_mod::*;
use vstd::bits::*;
verus! {

pub open spec const B: int = 0x1_0000_0000_0000_0000;

pub open spec fn bp(n: int) -> int decreases n { if n <= 0 { 1 } else { B * bp(n - 1) } }
pub proof fn lemma_bp_pos(n: int) ensures bp(n) >= 1 decreases n {
    if n > 0 { lemma_bp_pos(n - 1); assert(B * bp(n - 1) >= 1) by(nonlinear_arith) requires bp(n - 1) >= 1; }
}
// value of the first n limbs
pub open spec fn lv(s: Seq<u64>, n: int) -> int decreases n {
    if n <= 0 { 0 } else { lv(s, n - 1) + s[n - 1] as int * bp(n - 1) }
}
pub proof fn lemma_lv_ext(s: Seq<u64>, t: Seq<u64>, n: int)
    requires n <= s.len(), n <= t.len(), forall|j: int| 0 <= j < n ==> s[j] == t[j]
    ensures lv(s, n) == lv(t, n)
    decreases n
{ if n > 0 { lemma_lv_ext(s, t, n - 1); } }
pub proof fn lemma_lv_bound(s: Seq<u64>, n: int)
    requires 0 <= n <= s.len()
    ensures 0 <= lv(s, n) < bp(n)
    decreases n
{
    if n > 0 {
        lemma_lv_bound(s, n - 1);
        lemma_bp_pos(n - 1);
        assert(s[n - 1] as int * bp(n - 1) <= (B - 1) * bp(n - 1)) by(nonlinear_arith) requires s[n - 1] as int <= B - 1, bp(n - 1) >= 1;
        assert(s[n - 1] as int * bp(n - 1) >= 0) by(nonlinear_arith) requires s[n - 1] as int >= 0, bp(n - 1) >= 1;
        assert((B - 1) * bp(n - 1) + bp(n - 1) == B * bp(n - 1)) by(nonlinear_arith);
    }
}
pub proof fn lemma_lv_zero(s: Seq<u64>, n: int)
    requires n <= s.len(), forall|j: int| 0 <= j < n ==> s[j] == 0
    ensures lv(s, n) == 0
    decreases n
{ if n > 0 { lemma_lv_zero(s, n - 1); } }

// ---------- leaf helpers (src/algorithms/mul_redc.rs, src/algorithms/mod.rs) ----------
#[verifier::external_body]
pub fn carrying_add(lhs: u64, rhs: u64, carry: bool) -> (r: (u64, bool))
    ensures r.0 as int + (if r.1 { B } else { 0 }) == lhs as int + rhs as int + (if carry { 1int } else { 0 })
{ unimplemented!() }

const fn carrying_mul_add(lhs: u64, rhs: u64, add: u64, carry: u64) -> (r: (u64, u64))
    ensures r.0 as int + r.1 as int * B == lhs as int * rhs as int + add as int + carry as int
{
    proof {
        assert((lhs as int) * (rhs as int) <= 0xffff_ffff_ffff_ffff * 0xffff_ffff_ffff_ffff) by(nonlinear_arith)
            requires 0 <= lhs as int <= 0xffff_ffff_ffff_ffff, 0 <= rhs as int <= 0xffff_ffff_ffff_ffff;
        assert((lhs as int) * (rhs as int) >= 0) by(nonlinear_arith) requires lhs as int >= 0, rhs as int >= 0;
    }
    let wide = (lhs as u128)
        .wrapping_mul(rhs as u128)
        .wrapping_add(add as u128)
        .wrapping_add(carry as u128);
    proof {
        let p = lhs as int * rhs as int;
        let bb: int = B * B; assert(B * B == 0x1_0000_0000_0000_0000_0000_0000_0000_0000) by(compute_only);
        lemma_small_mod(p as nat, bb as nat);
        lemma_small_mod((p + add as int) as nat, bb as nat);
        lemma_small_mod((p + add as int + carry as int) as nat, bb as nat);
        assert(wide as int == p + add as int + carry as int);
        lemma_u128_shr_is_div(wide, 64); vstd::arithmetic::power2::lemma2_to64();
        assert(wide as u64 == (wide % 0x1_0000_0000_0000_0000u128) as u64) by(bit_vector);
        lemma_fundamental_div_mod(wide as int, B);
        assert(B * ((wide as int) / B) == ((wide as int) / B) * B) by(nonlinear_arith);
    }
    (wide as u64, (wide >> 64) as u64)
}

// sub + reduce1_carry: zip() over arrays is outside the subset; contract only
#[verifier::external_body]
fn reduce1_carry<const N: usize>(value: [u64; N], modulus: [u64; N], carry: bool) -> (r: [u64; N])
    requires lv(value@, N as int) + (if carry { bp(N as int) } else { 0 }) < 2 * lv(modulus@, N as int)
    ensures
        lv(r@, N as int) < lv(modulus@, N as int),
        lv(r@, N as int) == lv(value@, N as int) + (if carry { bp(N as int) } else { 0 })
            || lv(r@, N as int) == lv(value@, N as int) + (if carry { bp(N as int) } else { 0 }) - lv(modulus@, N as int),
{ unimplemented!() }

// one inner step of the CIOS row, i >= 1
pub proof fn lemma_row_step(s_i: int, lvres: int, c1: int, c2: int, bpi1: int, r0i: int, ai: int, mi: int, b: int, m: int,
                            v1: int, c1n: int, v2: int, c2n: int)
    requires
        s_i == B * lvres + (c1 + c2) * (B * bpi1),
        v1 + c1n * B == ai * b + r0i + c1,
        v2 + c2n * B == mi * m + v1 + c2,
    ensures
        s_i + (r0i + ai * b + mi * m) * (B * bpi1) == B * (lvres + v2 * bpi1) + (c1n + c2n) * (B * (B * bpi1))
{
    assert(s_i + (r0i + ai * b + mi * m) * (B * bpi1) == B * (lvres + v2 * bpi1) + (c1n + c2n) * (B * (B * bpi1))) by(nonlinear_arith)
        requires s_i == B * lvres + (c1 + c2) * (B * bpi1), v1 + c1n * B == ai * b + r0i + c1, v2 + c2n * B == mi * m + v1 + c2;
}

pub open spec fn redc_rel(lhs: int, ab: int, mv: int, mu: int) -> bool { lhs == ab + mv * mu }

// ---------- the real function, N12 applied to the outer `for b in b` ----------
pub fn mul_redc<const N: usize>(a: [u64; N], b: [u64; N], modulus: [u64; N], inv: u64) -> (res: [u64; N])
    requires
        N >= 1,
        (inv as int * modulus@[0] as int) % B == B - 1,
        lv(a@, N as int) < lv(modulus@, N as int),
    ensures
        lv(res@, N as int) < lv(modulus@, N as int),
        exists|mu: int| #[trigger] redc_rel(bp(N as int) * lv(res@, N as int), lv(a@, N as int) * lv(b@, N as int), lv(modulus@, N as int), mu),
{
    let ghost av = lv(a@, N as int);
    let ghost mv = lv(modulus@, N as int);
    let ghost n = N as int;
    let mut result = [0; N];
    let mut carry = false;
    let ghost bs = b@;
    let ghost mut mu: int = 0;     // bp(k)*Acc == av*lv(b,k) + mv*mu
    proof {
        lemma_lv_zero(result@, n);
        lemma_lv_bound(modulus@, n); lemma_lv_bound(a@, n);
        assert(av * 0 + mv * 0 == 0) by(nonlinear_arith);
        assert(lv(bs, 0) == 0);
        assert(bp(0) * 0 == 0) by(nonlinear_arith);
    }
    for b_idx in 0..N
        invariant
            bs == b@,
            n == N, N >= 1, av == lv(a@, n), mv == lv(modulus@, n), 0 <= av < mv, mv < bp(n),
            (inv as int * modulus@[0] as int) % B == B - 1,
            (modulus@[n - 1] as int) < 0x7fff_ffff_ffff_ffff ==> !carry,
            lv(result@, n) + (if carry { bp(n) } else { 0 }) < 2 * mv,
            bp(b_idx as int) * (lv(result@, n) + (if carry { bp(n) } else { 0 })) == av * lv(bs, b_idx as int) + mv * mu,
    {
        let b = b[b_idx];
        let ghost r0 = result@;
        let ghost acc_old = lv(r0, n) + (if carry { bp(n) } else { 0 });
        let mut m = 0;
        let mut carry_1 = 0;
        let mut carry_2 = 0;
        for i in 0..N
            invariant
                n == N, N >= 1,
                (inv as int * modulus@[0] as int) % B == B - 1,
                forall|l: int| (if i == 0 { 0 } else { i as int - 1 }) <= l < n ==> result@[l] == r0[l],
                i == 0 ==> carry_1 == 0 && carry_2 == 0,
                i >= 1 ==> lv(r0, i as int) + lv(a@, i as int) * b as int + lv(modulus@, i as int) * m as int
                            == B * lv(result@, i as int - 1) + (carry_1 as int + carry_2 as int) * bp(i as int),
        {
            let ghost res_before = result@;
            let ghost c1 = carry_1 as int; let ghost c2 = carry_2 as int;
            // Add limb product
            let (value, next_carry) = carrying_mul_add(a[i], b, result[i], carry_1);
            let ghost v1 = value as int;
            carry_1 = next_carry;

            if i == 0 {
                // Compute reduction factor
                m = value.wrapping_mul(inv);
            }

            // Add m * modulus to acc to clear next_result[0]
            let (value, next_carry) = carrying_mul_add(modulus[i], m, value, carry_2);
            carry_2 = next_carry;

            // Shift result
            if i > 0 {
                result[i - 1] = value;
            } else {
                proof {
                    // value == 0 : modulus[0]*m + v1 == v1*(1 + modulus[0]*inv) == 0 (mod B)
                    let m0 = modulus@[0] as int;
                    assert(m as int == (v1 * inv as int) % B);
                    lemma_mul_mod_noop_right(m0, v1 * inv as int, B);
                    assert((m0 * m as int) % B == (m0 * (v1 * inv as int)) % B);
                    assert(m0 * (v1 * inv as int) == v1 * (inv as int * m0)) by(nonlinear_arith);
                    lemma_mul_mod_noop_right(v1, inv as int * m0, B);
                    assert((v1 * (inv as int * m0)) % B == (v1 * (B - 1)) % B);
                    assert(v1 * (B - 1) + v1 == v1 * B) by(nonlinear_arith);
                    lemma_mod_multiples_basic(v1, B);
                    // (m0*m + v1) % B == (v1*(B-1) + v1) % B == 0
                    lemma_add_mod_noop(m0 * m as int, v1, B);
                    lemma_add_mod_noop(v1 * (B - 1), v1, B);
                    assert((m0 * m as int + v1) % B == 0);
                    // value + carry_2*B == m0*m + v1  =>  value == 0
                    lemma_mod_multiples_vanish(carry_2 as int, value as int, B);
                    assert(B * carry_2 as int == carry_2 as int * B) by(nonlinear_arith);
                    lemma_small_mod(value as nat, B as nat);
                    assert(value == 0);
                    // establish the i=1 invariant
                    assert(bp(1) == B) by { assert(bp(0) == 1); assert(B * 1 == B); }
                    assert(lv(r0, 1) == r0[0] as int) by { assert(bp(0) == 1); assert(lv(r0, 0) == 0); assert(r0[0] as int * 1 == r0[0] as int) by(nonlinear_arith); }
                    assert(lv(a@, 1) == a@[0] as int) by { assert(bp(0) == 1); assert(lv(a@, 0) == 0); assert(a@[0] as int * 1 == a@[0] as int) by(nonlinear_arith); }
                    assert(lv(modulus@, 1) == m0) by { assert(bp(0) == 1); assert(lv(modulus@, 0) == 0); assert(m0 * 1 == m0) by(nonlinear_arith); }
                    assert(lv(result@, 0) == 0);
                    assert(r0[0] as int + a@[0] as int * b as int + m0 * m as int == B * 0 + (carry_1 as int + carry_2 as int) * B) by(nonlinear_arith)
                        requires v1 + carry_1 as int * B == a@[0] as int * b as int + r0[0] as int + 0,
                                 0 + carry_2 as int * B == m0 * m as int + v1 + 0;
                }
            }
            proof {
                if i > 0 {
                    let ii = i as int;
                    lemma_lv_ext(res_before, result@, ii - 1);
                    assert(bp(ii) == B * bp(ii - 1));
                    assert(bp(ii + 1) == B * bp(ii));
                    lemma_row_step(
                        lv(r0, ii) + lv(a@, ii) * b as int + lv(modulus@, ii) * m as int,
                        lv(res_before, ii - 1), c1, c2, bp(ii - 1),
                        r0[ii] as int, a@[ii] as int, modulus@[ii] as int, b as int, m as int,
                        v1, carry_1 as int, value as int, carry_2 as int);
                    // unfold lv at ii+1 on the three sequences and lv(result, ii)
                    assert(lv(r0, ii + 1) == lv(r0, ii) + r0[ii] as int * bp(ii));
                    assert(lv(a@, ii + 1) == lv(a@, ii) + a@[ii] as int * bp(ii));
                    assert(lv(modulus@, ii + 1) == lv(modulus@, ii) + modulus@[ii] as int * bp(ii));
                    assert(lv(result@, ii) == lv(result@, ii - 1) + value as int * bp(ii - 1));
                    assert(lv(r0, ii + 1) + lv(a@, ii + 1) * b as int + lv(modulus@, ii + 1) * m as int
                        == (lv(r0, ii) + lv(a@, ii) * b as int + lv(modulus@, ii) * m as int)
                           + (r0[ii] as int + a@[ii] as int * b as int + modulus@[ii] as int * m as int) * (B * bp(ii - 1))) by(nonlinear_arith)
                        requires lv(r0, ii + 1) == lv(r0, ii) + r0[ii] as int * bp(ii),
                                 lv(a@, ii + 1) == lv(a@, ii) + a@[ii] as int * bp(ii),
                                 lv(modulus@, ii + 1) == lv(modulus@, ii) + modulus@[ii] as int * bp(ii),
                                 bp(ii) == B * bp(ii - 1);
                }
            }
        }
        let ghost c1 = carry_1 as int; let ghost c2 = carry_2 as int;
        let ghost res_mid = result@;
        let ghost cin: int = if carry { 1 } else { 0 };
        // Add carries
        let (value, next_carry) = carrying_add(carry_1, carry_2, carry);
        result[N - 1] = value;
        let ghost nxt: int = if next_carry { 1 } else { 0 };
        let ghost acc_new = lv(result@, n) + nxt * bp(n);
        proof {
            // S_N == B*lv(res_mid, n-1) + (c1+c2)*bp(n)
            lemma_lv_ext(res_mid, result@, n - 1);
            assert(lv(result@, n) == lv(result@, n - 1) + value as int * bp(n - 1));
            assert(bp(n) == B * bp(n - 1));
            lemma_bp_pos(n - 1);
            assert(acc_old == lv(r0, n) + cin * bp(n)) by(nonlinear_arith) requires acc_old == lv(r0, n) + (if carry { bp(n) } else { 0 }), cin == (if carry { 1int } else { 0 });
            assert(B * acc_new == acc_old + av * b as int + mv * m as int) by(nonlinear_arith)
                requires
                    lv(r0, n) + av * b as int + mv * m as int == B * lv(result@, n - 1) + (c1 + c2) * bp(n),
                    value as int + nxt * B == c1 + c2 + cin,
                    acc_new == lv(result@, n - 1) + value as int * bp(n - 1) + nxt * bp(n),
                    bp(n) == B * bp(n - 1),
                    acc_old == lv(r0, n) + cin * bp(n);
            // bound: acc_new < 2*mv
            assert(av * b as int <= (mv - 1) * (B - 1)) by(nonlinear_arith) requires 0 <= av <= mv - 1, 0 <= b as int <= B - 1;
            assert(mv * m as int <= mv * (B - 1)) by(nonlinear_arith) requires mv >= 0, 0 <= m as int <= B - 1;
            assert(acc_new < 2 * mv) by(nonlinear_arith)
                requires B * acc_new == acc_old + av * b as int + mv * m as int, acc_old < 2 * mv,
                         av * b as int <= (mv - 1) * (B - 1), mv * m as int <= mv * (B - 1), mv >= 1, B == 0x1_0000_0000_0000_0000;
            // relation
            assert(bp(b_idx as int + 1) == B * bp(b_idx as int));
            assert(lv(bs, b_idx as int + 1) == lv(bs, b_idx as int) + b as int * bp(b_idx as int));
            assert(bp(b_idx as int + 1) * acc_new == av * lv(bs, b_idx as int + 1) + mv * (mu + m as int * bp(b_idx as int))) by(nonlinear_arith)
                requires bp(b_idx as int + 1) == B * bp(b_idx as int),
                         B * acc_new == acc_old + av * b as int + mv * m as int,
                         bp(b_idx as int) * acc_old == av * lv(bs, b_idx as int) + mv * mu,
                         lv(bs, b_idx as int + 1) == lv(bs, b_idx as int) + b as int * bp(b_idx as int);
            mu = mu + m as int * bp(b_idx as int);
            lemma_lv_bound(result@, n);
        }
        if modulus[N - 1] >= 0x7fff_ffff_ffff_ffff {
            carry = next_carry;
        } else {
            proof {
                // 2*mv < bp(n)  ==> next_carry is false, and carry was false
                lemma_lv_bound(modulus@, n - 1);
                assert(mv == lv(modulus@, n - 1) + modulus@[n - 1] as int * bp(n - 1));
                assert(2 * mv < bp(n)) by(nonlinear_arith)
                    requires mv == lv(modulus@, n - 1) + modulus@[n - 1] as int * bp(n - 1), lv(modulus@, n - 1) < bp(n - 1),
                             modulus@[n - 1] as int <= 0x7fff_ffff_ffff_fffe, bp(n) == B * bp(n - 1), bp(n - 1) >= 1, B == 0x1_0000_0000_0000_0000;
                assert(!next_carry) by(nonlinear_arith)
                    requires acc_new == lv(result@, n) + nxt * bp(n), acc_new < 2 * mv, 2 * mv < bp(n), lv(result@, n) >= 0, nxt == (if next_carry { 1int } else { 0 });
                assert(!carry);
            }
        }
        proof {
            assert(lv(result@, n) + (if carry { bp(n) } else { 0 }) == acc_new) by(nonlinear_arith)
                requires acc_new == lv(result@, n) + nxt * bp(n), (carry == next_carry), nxt == (if next_carry { 1int } else { 0 });
        }
    }
    // Compute reduced product.
    let ghost acc = lv(result@, n) + (if carry { bp(n) } else { 0 });
    let res = reduce1_carry(result, modulus, carry);
    proof {
        if lv(res@, n) == acc {
            assert(redc_rel(bp(n) * lv(res@, n), av * lv(bs, n), mv, mu));
        } else {
            assert(bp(n) * (acc - mv) == av * lv(bs, n) + mv * (mu - bp(n))) by(nonlinear_arith)
                requires bp(n) * acc == av * lv(bs, n) + mv * mu;
            assert(redc_rel(bp(n) * lv(res@, n), av * lv(bs, n), mv, mu - bp(n)));
        }
    }
    res
}

} // verus!
fn main() {}

use vstd::prelude::*;
use vstd::arithmetic::div_mod::*;
use vstd::arithmetic::mul::*;
verus! {
pub open spec const B: int = 0x1_0000_0000_0000_0000;

#[verifier::external_body]
fn mac(lhs: &mut u64, a: u64, b: u64, c: u64) -> (r: u64)
    ensures *final(lhs) as int + r as int * B == a as int * b as int + c as int + *old(lhs) as int
{ unimplemented!() }

// src/algorithms/mul.rs : addmul_2  (assume!(len == 2) become the precondition, N7)
fn addmul_2(lhs: &mut [u64], a: &[u64], b: &[u64])
    requires old(lhs).len() == 2, a.len() == 2, b.len() == 2
    ensures final(lhs).len() == 2,
        (final(lhs)@[0] as int + B * final(lhs)@[1] as int)
            == ((old(lhs)@[0] as int + B * old(lhs)@[1] as int) + (a@[0] as int + B * a@[1] as int) * (b@[0] as int + B * b@[1] as int)) % (B * B)
{
    let ghost l0 = lhs@[0] as int; let ghost l1 = lhs@[1] as int;
    let ghost a0 = a@[0] as int; let ghost a1 = a@[1] as int; let ghost b0 = b@[0] as int; let ghost b1 = b@[1] as int;
    let carry = mac(&mut lhs[0], a[0], b[0], 0);
    let ghost x0 = lhs@[0] as int; let ghost c0 = carry as int;
    let c1 = mac(&mut lhs[1], a[0], b[1], carry);
    let ghost y1 = lhs@[1] as int;

    let c2 = mac(&mut lhs[1], a[1], b[0], 0);
    proof {
        let z1 = lhs@[1] as int;
        // x0 + c0 B = a0 b0 + l0 ;  y1 + c1 B = a0 b1 + c0 + l1 ; z1 + c2 B = a1 b0 + y1
        let total = (l0 + B * l1) + (a0 + B * a1) * (b0 + B * b1);
        assert(total == (x0 + B * z1) + (c1 as int + c2 as int + a1 * b1) * (B * B)) by(nonlinear_arith)
            requires x0 + c0 * B == a0 * b0 + 0 + l0, y1 + c1 as int * B == a0 * b1 + c0 + l1, z1 + c2 as int * B == a1 * b0 + 0 + y1,
                     total == (l0 + B * l1) + (a0 + B * a1) * (b0 + B * b1);
        assert(0 <= x0 + B * z1 < B * B) by(nonlinear_arith) requires 0 <= x0 < B, 0 <= z1 < B;
        lemma_mod_multiples_vanish(c1 as int + c2 as int + a1 * b1, x0 + B * z1, B * B);
        lemma_small_mod((x0 + B * z1) as nat, (B * B) as nat);
        assert((B * B) * (c1 as int + c2 as int + a1 * b1) == (c1 as int + c2 as int + a1 * b1) * (B * B)) by(nonlinear_arith);
    }
}
}
fn main(){}

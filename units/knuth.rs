// unit knuth: src/algorithms/div/knuth.rs div_nxm (Knuth algorithm D, un-normalised divisor)  (C14, C03)
#![allow(non_snake_case)]
use vstd::prelude::*;
use vstd::arithmetic::power2::*;
use vstd::arithmetic::mul::*;
use vstd::arithmetic::div_mod::*;
use vstd::std_specs::bits::*;
use vstd::bits::*;
use core::cmp::Ordering;
use vstd::std_specs::cmp::*;
verus! {
//@ include lib/base.rs
//@ include lib/lvr.rs
//@ include lib/divspec.rs

//@ import div_small reciprocal_2_mg10
//@ import div_small div_3x2_mg10
// aliases (pub use self::{div_3x2_mg10 as div_3x2, reciprocal_2_mg10 as reciprocal_2})
pub fn div_3x2(u21: u128, u0: u64, d: u128, v: u64) -> (res: (u64, u128))
    requires d as int >= B * B / 2, u21 < d, is_reciprocal_2(d, v),
    ensures res.0 as int * d as int + res.1 as int == u21 as int * B + u0 as int, res.1 < d,
{ div_3x2_mg10(u21, u0, d, v) }
pub fn reciprocal_2(d: u128) -> (v: u64)
    requires d as int >= B * B / 2
    ensures is_reciprocal_2(d, v)
{ reciprocal_2_mg10(d) }
//@ import kernels submul_nx1
//@ import kernels adc_n
//@ import kernels sbb_n
//@ import kernels cmp
//@ import kernels mul_nx1
//@ import kernels addmul_nx1
pub open spec fn ord_of(a: int, b: int) -> Ordering {
    if a < b { Ordering::Less } else if a == b { Ordering::Equal } else { Ordering::Greater }
}
pub assume_specification [<Ordering as PartialEq>::eq] (a: &Ordering, b: &Ordering) -> (r: bool)
    ensures r == (*a == *b);

//@ extract src/algorithms/mod.rs trait DoubleWord
pub trait DoubleWord<T>: Sized + Copy {
    fn join(high: T, low: T) -> Self;
    fn add(a: T, b: T) -> Self;
    fn mul(a: T, b: T) -> Self;
    fn muladd(a: T, b: T, c: T) -> Self;
    fn muladd2(a: T, b: T, c: T, d: T) -> Self;
    fn high(self) -> T;
    fn low(self) -> T;
    fn split(self) -> (T, T);
}
//@ end
impl DoubleWord<u64> for u128 {
//@ import kernels join
//@ import kernels add
//@ import kernels mul
//@ import kernels muladd
//@ import kernels muladd2
//@ import kernels high
//@ import kernels low
//@ import kernels split
}

pub assume_specification<T: Copy> [Option::<&T>::copied] (o: Option<&T>) -> (r: Option<T>)
    ensures r == (match o { Some(x) => Some(*x), None => None::<T> });
pub assume_specification<T: Clone> [<[T]>::fill] (s: &mut [T], value: T)
    ensures final(s).len() == old(s).len(), forall|i: int| 0 <= i < old(s).len() ==> final(s)@[i] == value;
pub assume_specification [u128::overflowing_sub] (a: u128, b: u128) -> (r: (u128, bool))
    ensures r.1 == (a < b), r.0 as int == (if a < b { a as int - b as int + B * B } else { a as int - b as int });



//@ include lib/shift.rs

// Knuth D quotient-digit estimate from a 3-by-2 division of the (implicitly shifted) leading limbs.
//   W  : (n+1)-limb window, W < D*B         D : n-limb divisor
//   s2 : 2^shift, E : B^(n-2)
//   T  : floor(W*s2 / E)  (three leading limbs of the shifted window)
//   d  : floor(D*s2 / E)  (two leading limbs of the shifted divisor), normalised
//   q  : floor(T / d) < B
// Then the true digit floor(W/D) is q or q-1:   -D < W - q*D < D
pub proof fn lemma_knuth_estimate(w: int, dd: int, s2: int, e: int, t: int, d: int, q: int)
    requires
        e >= 1, s2 >= 1, dd >= 1, 0 <= w,
        t * e <= w * s2 < (t + 1) * e,
        d * e <= dd * s2 < (d + 1) * e,
        d >= B * B / 2,
        q * d <= t < (q + 1) * d,
        0 <= q < B,
    ensures
        -dd < w - q * dd < dd
{
    // upper:  w*s2 - q*dd*s2 < (t+1)e - q*d*e <= d*e <= dd*s2
    assert((t + 1) * e <= (q + 1) * d * e) by(nonlinear_arith) requires t + 1 <= (q + 1) * d, e >= 1;
    assert(q * (dd * s2) >= q * (d * e)) by(nonlinear_arith) requires q >= 0, dd * s2 >= d * e;
    assert((w - q * dd) * s2 == w * s2 - q * (dd * s2)) by(nonlinear_arith);
    assert((q + 1) * d * e - q * (d * e) == d * e) by(nonlinear_arith);
    assert((w - q * dd) * s2 < dd * s2);
    assert(w - q * dd < dd) by(nonlinear_arith) requires (w - q * dd) * s2 < dd * s2, s2 >= 1;
    // lower:  w*s2 - q*dd*s2 >= t*e - q*(d+1)*e >= -q*e > -B*e >= -d*e >= -dd*s2   (d >= B)
    assert(q * (dd * s2) <= q * ((d + 1) * e)) by(nonlinear_arith) requires q >= 0, dd * s2 < (d + 1) * e;
    assert(t * e >= q * d * e) by(nonlinear_arith) requires t >= q * d, e >= 1;
    assert(q * ((d + 1) * e) == q * d * e + q * e) by(nonlinear_arith);
    assert(q * e < B * e) by(nonlinear_arith) requires q < B, e >= 1;
    assert(B * e <= d * e) by(nonlinear_arith) requires d >= B, e >= 1;
    assert((w - q * dd) * s2 > -(dd * s2));
    assert(w - q * dd > -dd) by(nonlinear_arith) requires (w - q * dd) * s2 > -(dd * s2), s2 >= 1;
}

// Overflow case: the two leading limbs of the window equal d, i.e. T >= d*B. Then the digit is B-1.
pub proof fn lemma_knuth_overflow(w: int, dd: int, s2: int, e: int, t: int, d: int)
    requires
        e >= 1, s2 >= 1, dd >= 1, 0 <= w < dd * B,
        t * e <= w * s2,
        dd * s2 < (d + 1) * e,
        d >= B * B / 2,
        t >= d * B,
    ensures
        0 <= w - (B - 1) * dd < dd
{
    assert(w - (B - 1) * dd < dd) by(nonlinear_arith) requires w < dd * B;
    // w*s2 >= t*e >= d*B*e ;  (B-1)*dd*s2 < (B-1)*(d+1)*e
    assert(t * e >= d * B * e) by(nonlinear_arith) requires t >= d * B, e >= 1;
    assert((B - 1) * (dd * s2) < (B - 1) * ((d + 1) * e)) by(nonlinear_arith) requires dd * s2 < (d + 1) * e, B == 0x1_0000_0000_0000_0000;
    assert(d * B * e - (B - 1) * ((d + 1) * e) == (d - B + 1) * e) by(nonlinear_arith);
    assert((d - B + 1) * e > 0) by(nonlinear_arith) requires d >= B * B / 2, e >= 1, B == 0x1_0000_0000_0000_0000;
    assert((w - (B - 1) * dd) * s2 == w * s2 - (B - 1) * (dd * s2)) by(nonlinear_arith);
    assert((w - (B - 1) * dd) * s2 > 0);
    assert(w - (B - 1) * dd >= 0) by(nonlinear_arith) requires (w - (B - 1) * dd) * s2 > 0, s2 >= 1;
}

// the machine-level fetch of the shifted leading limbs (TODO in this probe: bit-level proof)
pub open spec fn fetch3_ok(x3: int, x2: int, x1: int, x0: int, sh: int, hi: int, lo: int) -> bool {
    // (hi*B + lo) == floor( (x3*B^3 + x2*B^2 + x1*B + x0) * 2^sh / B )   as a 3-limb value
    &&& (hi * B + lo) * B <= ((x3 * B + x2) * B + x1) * B * pow2(sh as nat) + x0 * pow2(sh as nat)
    &&& ((x3 * B + x2) * B + x1) * B * pow2(sh as nat) + x0 * pow2(sh as nat) < (hi * B + lo + 1) * B
    &&& (x0 * pow2(sh as nat)) % B <= B - pow2(sh as nat)
}


// From the loop invariant Rem < D*bp(j+1) the window is < D*B
pub proof fn lemma_window_lt(low: int, w: int, dd: int, bj: int)
    requires low >= 0, bj >= 1, low + bj * w < dd * (B * bj)
    ensures w < dd * B
{
    assert(bj * w < bj * (dd * B)) by(nonlinear_arith) requires low >= 0, low + bj * w < dd * (B * bj);
    assert(w < dd * B) by(nonlinear_arith) requires bj * w < bj * (dd * B), bj >= 1;
}

// T*E <= W*s2 < (T+1)*E  from the four leading limbs x (value x4 = top four limbs), shift factor s2 | B
//   W = x4 * bp(n-3) + wlow, 0 <= wlow < bp(n-3);   T*B <= x4*s2 <= T*B + B - s2   (x4*s2 is a multiple of s2)
pub proof fn lemma_window_bounds(w: int, x4: int, wlow: int, e3: int, s2: int, t: int)
    requires e3 >= 1, s2 >= 1, 0 <= wlow < e3, w == x4 * e3 + wlow,
        t * B <= x4 * s2, x4 * s2 <= t * B + B - s2,
    ensures t * (B * e3) <= w * s2 < (t + 1) * (B * e3)
{
    assert(w * s2 == (x4 * s2) * e3 + wlow * s2) by(nonlinear_arith) requires w == x4 * e3 + wlow;
    assert((x4 * s2) * e3 >= (t * B) * e3) by(nonlinear_arith) requires x4 * s2 >= t * B, e3 >= 1;
    assert(wlow * s2 >= 0) by(nonlinear_arith) requires wlow >= 0, s2 >= 1;
    assert((t * B) * e3 == t * (B * e3)) by(nonlinear_arith);
    assert((x4 * s2) * e3 <= (t * B + B - s2) * e3) by(nonlinear_arith) requires x4 * s2 <= t * B + B - s2, e3 >= 1;
    assert(wlow * s2 <= (e3 - 1) * s2) by(nonlinear_arith) requires wlow <= e3 - 1, s2 >= 1;
    assert((t * B + B - s2) * e3 + (e3 - 1) * s2 < (t + 1) * (B * e3)) by(nonlinear_arith) requires s2 >= 1, e3 >= 1;
}


//@ extract src/algorithms/div/knuth.rs fn div_nxm
/*+*/#[verifier::rlimit(2000)] #[verifier::spinoff_prover]/*-*/
pub fn div_nxm(numerator: &mut [u64], divisor: &mut [u64])
    /*+*/requires
        old(divisor).len() >= 3,
        old(numerator).len() >= old(divisor).len(),
        old(divisor)@[old(divisor).len() - 1] >= 1,
    ensures
        final(numerator).len() == old(numerator).len(),
        final(divisor).len() == old(divisor).len(),
        lvr(old(numerator)@, 0, old(numerator).len() as int)
            == lvr(final(numerator)@, 0, old(numerator).len() as int) * lvr(old(divisor)@, 0, old(divisor).len() as int)
               + lvr(final(divisor)@, 0, old(divisor).len() as int),
        lvr(final(divisor)@, 0, old(divisor).len() as int) < lvr(old(divisor)@, 0, old(divisor).len() as int),/*-*/
{
    vassert (divisor.len() >= 3 );
    vassert (numerator.len() >= divisor.len() );
    vassert (*divisor.last().unwrap() >= 1 );
    let n = divisor.len();
    let m = numerator.len() - n;
    /*+*/let ghost ni = n as int;
    let ghost mi = m as int;
    let ghost ll = ni + mi;
    let ghost num_in = numerator@;
    let ghost div0 = divisor@;
    let ghost dd = lvr(div0, 0, ni);
    let ghost nn = lvr(num_in, 0, ll);/*-*/

    // Compute normalized divisor double-word and reciprocal.
    let (d, shift) = {
        let d = u128::join(divisor[n - 1], divisor[n - 2]);
        let shift = d.high().leading_zeros();
        /*+*/proof {
            // d.high() == divisor[n-1]
            lemma_fundamental_div_mod_converse(d as int, B, divisor@[n as int - 1] as int, divisor@[n as int - 2] as int);
            assert(B * (divisor@[n as int - 1] as int) == divisor@[n as int - 1] as int * B) by(nonlinear_arith);
            assert((d as int) / B == divisor@[n as int - 1] as int);
            lemma_lz_facts(divisor@[n as int - 1]);
            assert(shift == u64_leading_zeros(divisor@[n as int - 1]));
        }/*-*/
        (
            if shift == 0 {
                d
            } else {
                /*+*/proof {
                    let y2 = divisor@[n as int - 1] as int; let y1 = divisor@[n as int - 2] as int;
                    let c = pow2((64 - shift) as nat) as int; let s2 = pow2(shift as nat) as int;
                    lemma_pow2_adds((64 - shift) as nat, shift as nat); lemma2_to64(); lemma_pow2_pos((64 - shift) as nat); lemma_pow2_pos(shift as nat);
                    assert(B == c * s2);
                    assert(y2 < c) by(nonlinear_arith) requires y2 * s2 < B, B == c * s2, s2 >= 1, c >= 1;
                    assert((y2 * B + y1) * s2 < B * B) by(nonlinear_arith) requires y2 + 1 <= c, 0 <= y1 < B, B == c * s2, s2 >= 1, y2 >= 0;
                    assert(B * B == 0x1_0000_0000_0000_0000_0000_0000_0000_0000) by(compute_only);
                    lemma_shl_or_shr_u64(0, divisor@[n as int - 3], shift);     // bound: y0/c < 2^s
                    lemma_u64_shr_is_div(divisor@[n as int - 3], (64 - shift) as u64);
                    lemma_u128_shl_or(d, divisor@[n as int - 3] >> ((64 - shift) as u32), shift);
                }/*-*/
                (d << shift) | u128::from(divisor[n - 3] >> (64 - shift))
            },
            shift,
        )
    };
    /*+*/let ghost s2 = pow2(shift as nat) as int;
    let ghost e = bp(ni - 2);
    proof {
        lemma_bp_pos(ni - 2); lemma_pow2_pos(shift as nat);
        // D == Dlow + e*(y1 + B*y2)
        lemma_lvr_split(div0, 0, ni - 2, ni);
        assert(lvr(div0, ni - 2, ni) == div0[ni - 2] as int + B * (div0[ni - 1] as int)) by {
            assert(lvr(div0, ni, ni) == 0); assert(B * 0 == 0);
            assert(lvr(div0, ni - 1, ni) == div0[ni - 1] as int);
        }
        lemma_lvr_bound(div0, 0, ni - 2);
        assert(bp(ni - 1) == B * e);
        let dlow = lvr(div0, 0, ni - 2);
        let y2 = div0[ni - 1] as int; let y1 = div0[ni - 2] as int;
        assert(dd == dlow + e * (y1 + B * y2));
        assert(dd >= bp(ni - 1)) by(nonlinear_arith) requires dd == dlow + e * (y1 + B * y2), dlow >= 0, y1 >= 0, y2 >= 1, e >= 1, bp(ni - 1) == B * e;
        if shift == 0 {
            assert(pow2(0) == 1) by { lemma2_to64(); }
            assert(d as int == y2 * B + y1);
            assert(y2 * 1 == y2) by(nonlinear_arith);
            assert(y2 >= B / 2);
            assert(d as int >= B * B / 2) by(nonlinear_arith) requires d as int == y2 * B + y1, y2 >= B / 2, y1 >= 0, B == 0x1_0000_0000_0000_0000;
            assert((d as int) * e <= dd * s2 && dd * s2 < (d as int + 1) * e) by(nonlinear_arith)
                requires dd == dlow + e * (y1 + B * y2), d as int == y2 * B + y1, 0 <= dlow < e, s2 == 1;
        } else {
            // bit-level facts about the shifted fetch of the divisor
            let y0 = div0[ni - 3] as int;
            let c = pow2((64 - shift) as nat) as int;
            lemma_pow2_adds((64 - shift) as nat, shift as nat); lemma2_to64(); lemma_pow2_pos((64 - shift) as nat);
            assert(B == c * s2);
            lemma_u64_shr_is_div(div0[ni - 3], (64 - shift) as u64);
            assert(d as int == (y2 * B + y1) * s2 + y0 / c);
            lemma_fetch3(y2, y1, y0, c, s2, d as int);
            // D == y3 * bp(n-3) + dlow3
            lemma_lvr_split(div0, 0, ni - 3, ni);
            lemma_lvr_bound(div0, 0, ni - 3);
            assert(lvr(div0, ni - 3, ni) == y0 + B * (y1 + B * y2)) by {
                assert(lvr(div0, ni, ni) == 0); assert(B * 0 == 0);
                assert(lvr(div0, ni - 1, ni) == y2);
                assert(lvr(div0, ni - 2, ni) == y1 + B * y2);
            }
            let y3 = (y2 * B + y1) * B + y0;
            assert(y0 + B * (y1 + B * y2) == y3) by(nonlinear_arith) requires y3 == (y2 * B + y1) * B + y0;
            lemma_bp_pos(ni - 3);
            assert(e == B * bp(ni - 3));
            assert(dd == y3 * bp(ni - 3) + lvr(div0, 0, ni - 3)) by(nonlinear_arith)
                requires dd == lvr(div0, 0, ni - 3) + bp(ni - 3) * lvr(div0, ni - 3, ni), lvr(div0, ni - 3, ni) == y3;
            lemma_window_bounds(dd, y3, lvr(div0, 0, ni - 3), bp(ni - 3), s2, d as int);
            assert((d as int) * e <= dd * s2 && dd * s2 < (d as int + 1) * e);
            lemma_div_pos_is_pos(y0, c);
            assert(d as int >= B * B / 2) by(nonlinear_arith)
                requires d as int == (y2 * B + y1) * s2 + y0 / c, y2 * s2 >= B / 2, y1 >= 0, y0 / c >= 0, s2 >= 1, B == 0x1_0000_0000_0000_0000;
        }
    }
    proof { assert((1u128 << 127) == 0x8000_0000_0000_0000_0000_0000_0000_0000u128) by(bit_vector); assert(B * B == 0x1_0000_0000_0000_0000_0000_0000_0000_0000) by(compute_only); }/*-*/
    vassert (d >= 1 << 127 );
    let v = reciprocal_2(d);

    // Compute the quotient one limb at a time.
    let mut q_high = 0;
    /*+*/let ghost mut qacc: int = 0;
    proof {
        lemma_lvr_bound(num_in, 0, ll);
        lemma_bp_add(ni - 1, mi + 1);
        lemma_bp_pos(mi + 1); assert(ni - 1 + mi + 1 == ll);
        assert(nn < dd * bp(mi + 1)) by(nonlinear_arith) requires nn < bp(ll), bp(ll) == bp(ni - 1) * bp(mi + 1), dd >= bp(ni - 1), bp(mi + 1) >= 1;
    }

    proof {
        assert(qacc * dd == 0) by(nonlinear_arith) requires qacc == 0;
        assert(lvr(numerator@, mi + 1 + ni, ll) == 0);
        assert(q_high as int * bp(mi - (mi + 1)) == 0) by(nonlinear_arith) requires q_high == 0;
        assert(bp(mi + 1) * (0 + 0) == 0) by(nonlinear_arith);
    }/*-*/
    for j in /*+*/it:/*-*/ (0..=m).rev()
        /*+*/invariant
            ni == n, mi == m, ll == ni + mi, ni >= 3, numerator.len() == ll, divisor@ == div0, divisor.len() == n,
            dd == lvr(div0, 0, ni), dd >= 1, dd >= bp(ni - 1), nn == lvr(num_in, 0, ll),
            shift < 64, s2 == pow2(shift as nat) as int, s2 >= 1, e == bp(ni - 2), e >= 1,
            d as int >= B * B / 2, (d as int) * e <= dd * s2, dd * s2 < (d as int + 1) * e,
            is_reciprocal_2(d, v),
            shift == 0 ==> d as int == div0[ni - 1] as int * B + div0[ni - 2] as int,
            div0[ni - 1] >= 1, shift == u64_leading_zeros(div0[ni - 1]),
            0 <= it.index@ <= mi + 1,
            it.index@ == 0 ==> q_high == 0 && qacc == 0,
            // remainder region and quotient digits
            ({
                let k = it.index@;
                let jn = mi - k + 1;                       // last processed index (mi+1 = none yet)
                let rl = if k == 0 { ll } else { ll - k + 1 };
                &&& nn == qacc * dd + lvr(numerator@, 0, rl)
                &&& lvr(numerator@, 0, rl) < dd * bp(jn)
                &&& qacc == bp(jn) * (lvr(numerator@, jn + ni, ll) + q_high as int * bp(mi - jn))
            }),/*-*/
    {
        /*+*/let ghost k = it.index@;
        let ghost ji = j as int;
        let ghost num0 = numerator@;
        let ghost rl = if k == 0 { ll } else { ll - k + 1 };
        let ghost n2v: int = if ji + ni < ll { num0[ji + ni] as int } else { 0 };
        let ghost wl = lvr(num0, ji, ji + ni);
        let ghost w = wl + n2v * bp(ni);
        let ghost low = lvr(num0, 0, ji);
        proof {
            assert(ji == mi - k);
            // Rem == low + bp(j)*W
            lemma_lvr_split(num0, 0, ji, rl);
            if k == 0 {
                assert(rl == ji + ni);
                assert(n2v * bp(ni) == 0) by(nonlinear_arith) requires n2v == 0;
            } else {
                assert(rl == ji + ni + 1);
                lemma_lvr_split(num0, ji, ji + ni, ji + ni + 1);
                assert(lvr(num0, ji + ni, ji + ni + 1) == num0[ji + ni] as int) by {
                    assert(lvr(num0, ji + ni + 1, ji + ni + 1) == 0);
                    assert(B * 0 == 0);
                }
                assert(bp(ni) * (num0[ji + ni] as int) == n2v * bp(ni)) by(nonlinear_arith) requires n2v == num0[ji + ni] as int;
            }
            assert(lvr(num0, 0, rl) == low + bp(ji) * w);
            lemma_bp_pos(ji); lemma_lvr_bound(num0, 0, ji);
            assert(bp(ji + 1) == B * bp(ji));
            lemma_window_lt(low, w, dd, bp(ji));
            lemma_lvr_bound(div0, 0, ni);
            lemma_lvr_bound(num0, ji, ji + ni);
            lemma_bp_pos(ni);
            assert(n2v * bp(ni) >= 0) by(nonlinear_arith) requires n2v >= 0, bp(ni) >= 1;
        }/*-*/

        // Fetch the first three limbs of the shifted numerator starting at `j + n`.
        let (n21, n0) = {
            let n2 = numerator.get(j + n).copied().unwrap_or_default();
            let n21 = u128::join(n2, numerator[j + n - 1]);
            let n0 = numerator[j + n - 2];
            /*+*/proof { assert(n2 as int == n2v); }/*-*/
            if shift == 0 {
                (n21, n0)
            } else {
                /*+*/proof {
                    let y2 = div0[ni - 1] as int;
                    let c = pow2((64 - shift) as nat) as int;
                    lemma_pow2_adds((64 - shift) as nat, shift as nat); lemma2_to64(); lemma_pow2_pos((64 - shift) as nat);
                    assert(B == c * s2);
                    // n2v <= y2 < c : otherwise W >= c*bp(n) > D*B
                    lemma_lz_facts(div0[ni - 1]);
                    assert(shift == u64_leading_zeros(div0[ni - 1]));
                    assert(y2 < c) by(nonlinear_arith) requires y2 * s2 < B, B == c * s2, s2 >= 1, c >= 1;
                    lemma_lvr_split(div0, 0, ni - 1, ni);
                    lemma_lvr_bound(div0, 0, ni - 1);
                    assert(lvr(div0, ni - 1, ni) == y2) by { assert(lvr(div0, ni, ni) == 0); assert(B * 0 == 0); }
                    assert(bp(ni) == B * bp(ni - 1));
                    lemma_bp_pos(ni - 1);
                    assert(dd * B < (y2 + 1) * bp(ni)) by(nonlinear_arith)
                        requires dd == lvr(div0, 0, ni - 1) + bp(ni - 1) * y2, lvr(div0, 0, ni - 1) < bp(ni - 1), bp(ni) == B * bp(ni - 1);
                    assert(n2v < c) by(nonlinear_arith)
                        requires w == wl + n2v * bp(ni), wl >= 0, w < dd * B, dd * B < (y2 + 1) * bp(ni), y2 + 1 <= c, bp(ni) >= 1, n2v >= 0
                        ;
                    assert((n2v * B + numerator@[ji + ni - 1] as int) * s2 < B * B) by(nonlinear_arith)
                        requires n2v + 1 <= c, 0 <= numerator@[ji + ni - 1] as int, (numerator@[ji + ni - 1] as int) < B, B == c * s2, s2 >= 1, n2v >= 0;
                    assert(B * B == 0x1_0000_0000_0000_0000_0000_0000_0000_0000) by(compute_only);
                    lemma_shl_or_shr_u64(0, n0, shift);     // bound: n0/c < 2^s
                    lemma_u64_shr_is_div(n0, (64 - shift) as u64);
                    lemma_u128_shl_or(n21, n0 >> ((64 - shift) as u32), shift);
                    lemma_shl_or_shr_u64(n0, numerator@[ji + ni - 3], shift);
                }/*-*/
                (
                    (n21 << shift) | u128::from(n0 >> (64 - shift)),
                    (n0 << shift) | (numerator[j + n - 3] >> (64 - shift)),
                )
            }
        };
        /*+*/let ghost t = n21 as int * B + n0 as int;
        let ghost wlow2 = lvr(num0, ji, ji + ni - 2);
        let ghost x2 = num0[ji + ni - 1] as int;
        let ghost x1 = num0[ji + ni - 2] as int;
        proof {
            // W == wlow2 + e*((n2v*B + x2)*B + x1)
            lemma_lvr_split(num0, ji, ji + ni - 2, ji + ni);
            assert(lvr(num0, ji + ni - 2, ji + ni) == x1 + B * x2) by {
                assert(lvr(num0, ji + ni, ji + ni) == 0); assert(B * 0 == 0);
                assert(lvr(num0, ji + ni - 1, ji + ni) == x2);
            }
            lemma_lvr_bound(num0, ji, ji + ni - 2);
            assert(bp(ni) == B * bp(ni - 1) && bp(ni - 1) == B * e);
            assert(w == wlow2 + e * ((n2v * B + x2) * B + x1)) by(nonlinear_arith)
                requires w == wl + n2v * bp(ni), wl == wlow2 + e * (x1 + B * x2), bp(ni) == B * (B * e);
            if shift == 0 {
                assert(pow2(0) == 1) by { lemma2_to64(); }
                assert(t == (n2v * B + x2) * B + x1);
                assert(t * e <= w * s2 && w * s2 < (t + 1) * e) by(nonlinear_arith)
                    requires w == wlow2 + e * t, 0 <= wlow2 < e, s2 == 1;
            } else {
                // bit-level facts about the shifted fetch of the window
                let x0 = num0[ji + ni - 3] as int;
                let c = pow2((64 - shift) as nat) as int;
                lemma_pow2_adds((64 - shift) as nat, shift as nat); lemma2_to64(); lemma_pow2_pos((64 - shift) as nat);
                assert(B == c * s2);
                assert(n21 as int == (n2v * B + x2) * s2 + x1 / c);
                assert(n0 as int == (x1 % c) * s2 + x0 / c);
                lemma_fetch4(n2v, x2, x1, x0, c, s2, n21 as int, n0 as int);
                // W == x4*bp(n-3) + wlow3
                lemma_lvr_split(num0, ji, ji + ni - 3, ji + ni);
                lemma_lvr_bound(num0, ji, ji + ni - 3);
                assert(lvr(num0, ji + ni - 3, ji + ni) == x0 + B * (x1 + B * x2)) by {
                    assert(lvr(num0, ji + ni, ji + ni) == 0); assert(B * 0 == 0);
                    assert(lvr(num0, ji + ni - 1, ji + ni) == x2);
                    assert(lvr(num0, ji + ni - 2, ji + ni) == x1 + B * x2);
                }
                let x4 = ((n2v * B + x2) * B + x1) * B + x0;
                lemma_bp_pos(ni - 3);
                assert(e == B * bp(ni - 3));
                assert(w == x4 * bp(ni - 3) + lvr(num0, ji, ji + ni - 3)) by(nonlinear_arith)
                    requires w == wl + n2v * bp(ni), wl == lvr(num0, ji, ji + ni - 3) + bp(ni - 3) * (x0 + B * (x1 + B * x2)),
                             bp(ni) == B * (B * (B * bp(ni - 3))), x4 == ((n2v * B + x2) * B + x1) * B + x0;
                lemma_window_bounds(w, x4, lvr(num0, ji, ji + ni - 3), bp(ni - 3), s2, t);
                assert(t * e <= w * s2 && w * s2 < (t + 1) * e);
            }
        }

        // Compute the quotient
        let ghost mut wnew: int = 0;
        proof {
            // W < D*B and the bracketing of the shifted leading limbs give n21 <= d
            let di = d as int;
            assert(t == n21 as int * B + n0 as int);
            assert((w * s2) < ((di + 1) * e) * B) by(nonlinear_arith)
                requires w < dd * B, dd * s2 < (di + 1) * e, s2 >= 1, B > 0, w >= 0, dd >= 0;
            assert(t < (di + 1) * B) by(nonlinear_arith)
                requires t * e <= w * s2, (w * s2) < ((di + 1) * e) * B, e >= 1;
            assert(n21 as int <= di) by(nonlinear_arith)
                requires t == n21 as int * B + n0 as int, n0 as int >= 0, t < (di + 1) * B, B > 0;
        }/*-*/
        vassert (n21 <= d );
        let q = if (n21 < d) {
            let (mut q, r) = div_3x2(n21, n0, d, v);
            /*+*/let ghost q3 = q as int;
            proof {
                assert(q3 * d as int <= t < (q3 + 1) * d as int) by(nonlinear_arith)
                    requires q3 * d as int + r as int == t, 0 <= r as int, (r as int) < d as int;
                lemma_knuth_estimate(w, dd, s2, e, t, d as int, q3);
                wnew = w;   // provisional, for the q == 0 case
            }/*-*/
            if q != 0 {
                let borrow = if shift == 0 {
                    /*+*/let ghost r_in = r as int;/*-*/
                    let borrow = submul_nx1(&mut numerator[j..j + n - 2], &divisor[..n - 2], q);
                    /*+*/let ghost b1 = borrow as int;
                    let ghost num_a = numerator@;/*-*/
                    let (r, borrow) = r.overflowing_sub(u128::from(borrow));
                    numerator[j + n - 2] = r.low();
                    numerator[j + n - 1] = r.high();
                    /*+*/proof {
                        let num1 = numerator@;
                        let dlow = lvr(div0, 0, ni - 2);
                        lemma_lvr_shift(num0, num0.subrange(ji, ji + ni - 2), ji, ji + ni - 2);
                        lemma_lvr_shift(num_a, num_a.subrange(ji, ji + ni - 2), ji, ji + ni - 2);
                        lemma_lvr_shift(div0, div0.subrange(0, ni - 2), 0, ni - 2);
                        assert(lvr(num_a, ji, ji + ni - 2) - b1 * e == wlow2 - dlow * q3);
                        // after the two stores
                        lemma_lvr_ext(num_a, num1, ji, ji + ni - 2);
                        lemma_lvr_split(num1, ji, ji + ni - 2, ji + ni);
                        lemma_fundamental_div_mod(r as int, B);
                        assert(lvr(num1, ji + ni - 2, ji + ni) == (r as int) % B + B * ((r as int) / B)) by {
                            assert(lvr(num1, ji + ni, ji + ni) == 0); assert(B * 0 == 0);
                            assert(lvr(num1, ji + ni - 1, ji + ni) == (r as int) / B);
                        }
                        assert(lvr(num1, ji, ji + ni) == lvr(num_a, ji, ji + ni - 2) + e * (r as int));
                        // D == dlow + e*d ;  W == wlow2 + e*t ;  t == q*d + r_in
                        assert(dd == dlow + e * (d as int)) by {
                            lemma_lvr_split(div0, 0, ni - 2, ni);
                            assert(lvr(div0, ni - 2, ni) == div0[ni - 2] as int + B * (div0[ni - 1] as int)) by {
                                assert(lvr(div0, ni, ni) == 0); assert(B * 0 == 0);
                                assert(lvr(div0, ni - 1, ni) == div0[ni - 1] as int);
                            }
                        }
                        assert(w - q3 * dd == e * (r_in - b1) + lvr(num_a, ji, ji + ni - 2)) by(nonlinear_arith)
                            requires w == wlow2 + e * t, dd == dlow + e * (d as int), q3 * d as int + r_in == t,
                                     lvr(num_a, ji, ji + ni - 2) - b1 * e == wlow2 - dlow * q3;
                        assert(bp(ni) == B * B * e) by(nonlinear_arith) requires bp(ni) == B * bp(ni - 1), bp(ni - 1) == B * e;
                        if borrow {
                            assert(w - q3 * dd == lvr(num1, ji, ji + ni) - bp(ni)) by(nonlinear_arith)
                                requires w - q3 * dd == e * (r_in - b1) + lvr(num_a, ji, ji + ni - 2), r as int == r_in - b1 + B * B,
                                         lvr(num1, ji, ji + ni) == lvr(num_a, ji, ji + ni - 2) + e * (r as int), bp(ni) == B * B * e;
                        } else {
                            assert(w - q3 * dd == lvr(num1, ji, ji + ni)) by(nonlinear_arith)
                                requires w - q3 * dd == e * (r_in - b1) + lvr(num_a, ji, ji + ni - 2), r as int == r_in - b1,
                                         lvr(num1, ji, ji + ni) == lvr(num_a, ji, ji + ni - 2) + e * (r as int);
                            lemma_lvr_bound(num1, ji, ji + ni);
                            wnew = lvr(num1, ji, ji + ni);
                        }
                    }/*-*/
                    borrow
                } else {
                    let borrow = submul_nx1(&mut numerator[j..j + n], divisor, q);
                    let n2 = numerator.get(j + n).copied().unwrap_or_default();
                    /*+*/proof {
                        let num1 = numerator@;
                        assert(n2 as int == n2v);
                        lemma_lvr_shift(num0, num0.subrange(ji, ji + ni), ji, ji + ni);
                        lemma_lvr_shift(num1, num1.subrange(ji, ji + ni), ji, ji + ni);
                        // lvr(num1, j, j+n) - borrow*bp(n) == wl - dd*q
                        assert(lvr(num1, ji, ji + ni) - borrow as int * bp(ni) == wl - dd * q3);
                        // W - q*D == (n2v - borrow)*bp(n) + lvr(num1, j, j+n)
                        lemma_lvr_bound(num1, ji, ji + ni);
                        lemma_lvr_bound(div0, 0, ni);
                        assert(w - q3 * dd == (n2v - borrow as int) * bp(ni) + lvr(num1, ji, ji + ni)) by(nonlinear_arith)
                            requires w == wl + n2v * bp(ni), lvr(num1, ji, ji + ni) - borrow as int * bp(ni) == wl - dd * q3;
                        // -D < W - qD < D < bp(n)  and 0 <= lvr < bp(n)  =>  n2v - borrow in {0, -1}
                        if borrow as int != n2v {
                            assert(n2v - borrow as int == -1) by(nonlinear_arith)
                                requires -dd < (n2v - borrow as int) * bp(ni) + lvr(num1, ji, ji + ni), (n2v - borrow as int) * bp(ni) + lvr(num1, ji, ji + ni) < dd,
                                         dd < bp(ni), 0 <= lvr(num1, ji, ji + ni) < bp(ni), n2v != borrow as int;
                            assert((n2v - borrow as int) * bp(ni) == -bp(ni)) by(nonlinear_arith) requires n2v - borrow as int == -1;
                            assert(w - q3 * dd == lvr(num1, ji, ji + ni) - bp(ni));
                        } else {
                            assert((n2v - borrow as int) * bp(ni) == 0) by(nonlinear_arith) requires n2v == borrow as int;
                            wnew = lvr(num1, ji, ji + ni);
                        }
                    }/*-*/
                    borrow != n2
                };
                /*+*/let ghost num1 = numerator@;
                proof {
                    if !borrow {
                        assert(wnew == lvr(num1, ji, ji + ni));
                        assert(wnew == w - q3 * dd);
                        assert(0 <= wnew < dd);
                    } else {
                        assert(w - q3 * dd == lvr(num1, ji, ji + ni) - bp(ni));
                    }
                }/*-*/
                // If we have a carry then the quotient was one too large.
                // We correct by decrementing the quotient and adding one divisor back.
                if (borrow) {
                    q = q.wrapping_sub(1);
                    let carry = adc_n(&mut numerator[j..j + n], &divisor[..n], 0);
                    /*+*/proof {
                        let num2 = numerator@;
                        lemma_lvr_shift(num1, num1.subrange(ji, ji + ni), ji, ji + ni);
                        lemma_lvr_shift(num2, num2.subrange(ji, ji + ni), ji, ji + ni);
                        lemma_lvr_shift(div0, div0.subrange(0, ni), 0, ni);
                        assert(lvr(num2, ji, ji + ni) + carry as int * bp(ni) == lvr(num1, ji, ji + ni) + dd);
                        lemma_lvr_bound(num2, ji, ji + ni);
                        lemma_lvr_bound(num1, ji, ji + ni);
                        // W - (q-1) D = lvr(num1) - bp(n) + D = lvr(num2) + (carry-1)*bp(n) in (0, D)
                        assert(carry == 1) by(nonlinear_arith)
                            requires lvr(num2, ji, ji + ni) + carry as int * bp(ni) == lvr(num1, ji, ji + ni) + dd,
                                     w - q3 * dd == lvr(num1, ji, ji + ni) - bp(ni), -dd < w - q3 * dd,
                                     0 <= lvr(num2, ji, ji + ni) < bp(ni), carry <= 1, dd < bp(ni), bp(ni) >= 1;
                        wnew = lvr(num2, ji, ji + ni);
                        assert(carry as int * bp(ni) == bp(ni)) by(nonlinear_arith) requires carry == 1;
                        assert(wnew == w - (q3 - 1) * dd) by(nonlinear_arith)
                            requires wnew + bp(ni) == lvr(num1, ji, ji + ni) + dd, w - q3 * dd == lvr(num1, ji, ji + ni) - bp(ni);
                        lemma_small_mod((q3 - 1) as nat, B as nat);
                        assert(q as int == q3 - 1);
                        assert(0 <= wnew < dd);
                    }/*-*/
                    vassert ( (carry ) == ( 1 ) );
                }
            }
            /*+*/proof {
                if q == 0 && q3 == 0 {
                    // q == 0: W < D < bp(n), so n2v == 0 and the window is already the remainder
                    lemma_lvr_bound(div0, 0, ni);
                    assert(q3 * dd == 0) by(nonlinear_arith) requires q3 == 0;
                    lemma_bp_pos(ni);
                    if n2v >= 1 { assert(n2v * bp(ni) >= bp(ni)) by(nonlinear_arith) requires n2v >= 1, bp(ni) >= 1; }
                    assert(n2v == 0);
                    assert(n2v * bp(ni) == 0) by(nonlinear_arith) requires n2v == 0;
                    wnew = wl;
                }
            }/*-*/
            q
        } else {
            // Overflow case
            let q = u64::MAX;
            let _carry = submul_nx1(&mut numerator[j..j + n], divisor, q);
            /*+*/proof {
                let num1 = numerator@;
                assert(t >= d as int * B) by(nonlinear_arith) requires t == n21 as int * B + n0 as int, n21 as int >= d as int, n0 as int >= 0;
                lemma_knuth_overflow(w, dd, s2, e, t, d as int);
                lemma_lvr_shift(num0, num0.subrange(ji, ji + ni), ji, ji + ni);
                lemma_lvr_shift(num1, num1.subrange(ji, ji + ni), ji, ji + ni);
                assert(lvr(num1, ji, ji + ni) - _carry as int * bp(ni) == wl - dd * (B - 1));
                lemma_lvr_bound(num1, ji, ji + ni);
                lemma_lvr_bound(div0, 0, ni);
                assert(n2v == _carry as int) by(nonlinear_arith)
                    requires w == wl + n2v * bp(ni), lvr(num1, ji, ji + ni) - _carry as int * bp(ni) == wl - dd * (B - 1),
                             0 <= w - (B - 1) * dd, w - (B - 1) * dd < dd, dd < bp(ni), 0 <= lvr(num1, ji, ji + ni) < bp(ni);
                wnew = lvr(num1, ji, ji + ni);
                assert(wnew == w - (B - 1) * dd) by(nonlinear_arith)
                    requires w == wl + n2v * bp(ni), wnew - _carry as int * bp(ni) == wl - dd * (B - 1), n2v == _carry as int;
            }/*-*/
            q
        };

        /*+*/let ghost num3 = numerator@;
        proof {
            assert(0 <= wnew < dd);
            assert(wnew == w - q as int * dd);
            assert(lvr(num3, ji, ji + ni) == wnew);
            assert(forall|i: int| (0 <= i < ji || ji + ni <= i < ll) ==> num3[i] == num0[i]);
        }/*-*/
        // Store the quotient in the processed bits of numerator plus `q_high`.
        if j + n < numerator.len() {
            numerator[j + n] = q;
        } else {
            q_high = q;
        }
        /*+*/proof {
            let num4 = numerator@;
            let jn = ji + 1;       // previous "last processed"
            // remainder region [0, j+n)
            lemma_lvr_ext(num3, num4, 0, ji + ni);
            lemma_lvr_split(num4, 0, ji, ji + ni);
            lemma_lvr_ext(num0, num4, 0, ji);
            lemma_lvr_ext(num3, num4, ji, ji + ni);
            assert(lvr(num4, ji, ji + ni) == wnew);
            assert(lvr(num4, 0, ji) == low);
            assert(lvr(num4, 0, ji + ni) == low + bp(ji) * wnew);
            // bound
            assert(low + bp(ji) * wnew < dd * bp(ji)) by(nonlinear_arith)
                requires 0 <= low < bp(ji), 0 <= wnew <= dd - 1, bp(ji) >= 1;
            // N == (qacc + bp(j)*q)*D + Rem'
            assert(nn == (qacc + bp(ji) * q as int) * dd + (low + bp(ji) * wnew)) by(nonlinear_arith)
                requires nn == qacc * dd + (low + bp(ji) * w), wnew == w - q as int * dd;
            // digits
            if ji + ni < ll {
                assert(ji < mi);
                lemma_lvr_ext(num0, num4, ji + ni + 1, ll);
                assert(lvr(num4, ji + ni, ll) == q as int + B * lvr(num4, ji + ni + 1, ll));
                assert(bp(mi - ji) == B * bp(mi - jn));
                assert(bp(jn) == B * bp(ji));
                assert(bp(ji) * (lvr(num4, ji + ni, ll) + q_high as int * bp(mi - ji)) == qacc + bp(ji) * q as int) by(nonlinear_arith)
                    requires lvr(num4, ji + ni, ll) == q as int + B * lvr(num4, ji + ni + 1, ll),
                             qacc == bp(jn) * (lvr(num0, jn + ni, ll) + q_high as int * bp(mi - jn)),
                             lvr(num0, jn + ni, ll) == lvr(num4, ji + ni + 1, ll), jn + ni == ji + ni + 1,
                             bp(mi - ji) == B * bp(mi - jn), bp(jn) == B * bp(ji);
            } else {
                assert(ji == mi && k == 0);
                assert(lvr(num4, ji + ni, ll) == 0);
                assert(bp(ji) * (0 + q_high as int * bp(0)) == 0 + bp(ji) * q as int) by(nonlinear_arith) requires bp(0) == 1, q_high == q;
            }
            qacc = qacc + bp(ji) * q as int;
        }/*-*/
    }

    /*+*/let ghost num5 = numerator@;
    proof {
        // loop exit: k == m+1, jn == 0, rl == n
        assert(nn == qacc * dd + lvr(num5, 0, ni));
        assert(lvr(num5, 0, ni) < dd * bp(0));
        assert(dd * bp(0) == dd) by(nonlinear_arith) requires bp(0) == 1;
        assert(qacc == bp(0) * (lvr(num5, ni, ll) + q_high as int * bp(mi)));
        assert(bp(0) * (lvr(num5, ni, ll) + q_high as int * bp(mi)) == lvr(num5, ni, ll) + q_high as int * bp(mi)) by(nonlinear_arith) requires bp(0) == 1;
    }/*-*/
    // Copy remainder to `divisor` and `quotient` to numerator.
    divisor.copy_from_slice(&numerator[..n]);
    numerator.copy_within(n.., 0);
    numerator[m] = q_high;
    numerator[m + 1..].fill(0);
    /*+*/proof {
        let numf = numerator@;
        let divf = divisor@;
        // remainder
        lemma_lvr_shift(num5, divf, 0, ni);
        assert(lvr(divf, 0, ni) == lvr(num5, 0, ni));
        // quotient: numf[0..m) == num5[n..n+m), numf[m] == q_high, numf[m+1..] == 0
        assert(forall|i: int| 0 <= i < mi ==> numf[i] == num5[i + ni]);
        assert(numf[mi] == q_high);
        assert(forall|i: int| mi + 1 <= i < ll ==> numf[i] == 0) by {
            assert forall|i: int| mi + 1 <= i < ll implies numf[i] == 0 by {
                assert(numf.subrange(mi + 1, ll)[i - (mi + 1)] == numf[i]);
            }
        }
        lemma_lvr_shift(num5, numf, ni, ll);      // lvr(num5, n, ll) == lvr(numf, 0, m)
        lemma_lvr_split(numf, 0, mi, ll);
        lemma_lvr_split(numf, mi, mi + 1, ll);
        lemma_lvr_zero(numf, mi + 1, ll);
        assert(lvr(numf, mi, mi + 1) == q_high as int) by { assert(lvr(numf, mi + 1, mi + 1) == 0); assert(B * 0 == 0); }
        assert(bp(1) == B) by { assert(bp(0) == 1); assert(B * 1 == B); }
        assert(lvr(numf, 0, ll) == lvr(num5, ni, ll) + bp(mi) * q_high as int) by(nonlinear_arith)
            requires lvr(numf, 0, ll) == lvr(numf, 0, mi) + bp(mi) * lvr(numf, mi, ll),
                     lvr(numf, mi, ll) == lvr(numf, mi, mi + 1) + bp(1) * lvr(numf, mi + 1, ll),
                     lvr(numf, mi + 1, ll) == 0, lvr(numf, mi, mi + 1) == q_high as int, lvr(numf, 0, mi) == lvr(num5, ni, ll);
        assert(lvr(numf, 0, ll) == qacc) by(nonlinear_arith)
            requires lvr(numf, 0, ll) == lvr(num5, ni, ll) + bp(mi) * q_high as int, qacc == lvr(num5, ni, ll) + q_high as int * bp(mi);
    }/*-*/
}
//@ end

} // verus!
fn main() {}

// unit pow: src/pow.rs — exponentiation by squaring with overflow tracking  (C13)
#![allow(non_snake_case)]
use vstd::prelude::*;
use vstd::arithmetic::power::*;
use vstd::arithmetic::power2::*;
use vstd::arithmetic::mul::*;
use vstd::arithmetic::div_mod::*;
use vstd::bits::*;
use vstd::std_specs::cmp::*;
use vstd::std_specs::ops::*;
verus! {
//@ include lib/base.rs

//@ extract src/lib.rs struct Uint
pub struct Uint<const BITS: usize, const LIMBS: usize> { pub
    limbs: [u64; LIMBS],
}
//@ end

//@ include lib/uint_spec.rs
//@ include lib/uint_ops.rs

pub proof fn lemma_pow_nonneg(b: int, e: nat)
    requires b >= 0
    ensures pow(b, e) >= 0
    decreases e
{
    reveal(pow);
    if e > 0 { lemma_pow_nonneg(b, (e - 1) as nat); assert(b * pow(b, (e - 1) as nat) >= 0) by(nonlinear_arith) requires b >= 0, pow(b, (e - 1) as nat) >= 0; }
}
pub proof fn lemma_pow_step(s: int, e: nat)
    requires e > 0
    ensures pow(s, e) == pow(s * s, e / 2) * (if e % 2 == 1 { s } else { 1 })
{
    let h = e / 2;
    lemma_pow_multiplies(s, 2, h);          // pow(pow(s,2), h) == pow(s, 2*h)
    lemma_pow2_unfold_sq(s);
    if e % 2 == 1 {
        assert(e == 2 * h + 1);
        lemma_pow_adds(s, 2 * h, 1);
        lemma_pow1(s);
    } else {
        assert(e == 2 * h);
        assert(pow(s * s, h) * 1 == pow(s * s, h)) by(nonlinear_arith);
    }
}
pub proof fn lemma_pow2_unfold_sq(s: int) ensures pow(s, 2) == s * s {
    reveal(pow);
    assert(pow(s, 2) == s * pow(s, 1));
    assert(pow(s, 1) == s * pow(s, 0));
    assert(pow(s, 0) == 1);
    assert(s * 1 == s) by(nonlinear_arith);
}

impl<const BITS: usize, const LIMBS: usize> Uint<BITS, LIMBS> {
//@ import core MAX
//@ import basics ONE
//@ import basics is_zero
//@ import basics bit
//@ import mul overflowing_mul
//@ import mul wrapping_mul

//@ extract src/pow.rs fn overflowing_pow bools=overflow,base_overflow
    pub fn overflowing_pow(self, exp: Self) -> /*+*/(res:/*-*/ (Self, bool)/*+*/)
        requires self.wf(), exp.wf(), BITS <= usize::MAX - 63
        ensures
            res.0.wf(),
            BITS > 0 ==> res.0.val() as int == pow(self.val() as int, exp.val()) % m2(BITS)
                && res.1 == (pow(self.val() as int, exp.val()) >= m2(BITS)),
            BITS == 0 ==> res.0.val() == 0 && !res.1,/*-*/
    { let mut this = self ; let mut exp = exp ;
        if BITS == 0 {
            return (this, false);
        }
        /*+*/let ghost a = self.val() as int;
        let ghost e0 = exp.val() as nat;
        let ghost mm = m2(BITS);
        proof { self.lemma_wf_lt(); exp.lemma_wf_lt(); lemma_pow2_pos(BITS as nat); }/*-*/

        // Exponentiation by squaring
        let mut overflow = false;
        let mut base_overflow = false;
        let mut result = Self::ONE();
        /*+*/let ghost mut rr: int = 1;      // true result so far
        let ghost mut ss: int = a;      // true running base
        proof {
            assert(1 * pow(a, e0) == pow(a, e0)) by(nonlinear_arith);
            lemma_pow2_strictly_increases(0, BITS as nat); lemma2_to64();
            lemma_small_mod(1, mm as nat);
            lemma_small_mod(a as nat, mm as nat);
        }/*-*/
        while !exp.is_zero()
            /*+*/invariant
                BITS > 0, BITS <= usize::MAX - 63, mm == m2(BITS), mm >= 2, a == self.val(), 0 <= a,
                exp.wf(), result.wf(), this.wf(), 0 <= exp.val(),
                rr * pow(ss, exp.val() as nat) == pow(a, e0),
                result.val() == rr % mm, this.val() == ss % mm,
                overflow == (rr >= mm), base_overflow == (ss >= mm),
                a >= 1 ==> (ss >= 1 && rr >= 1),
                a == 0 ==> (ss == 0 && (rr == 0 || rr == 1)),
            decreases exp.val()/*-*/
        {
            /*+*/let ghost e = exp.val() as nat;
            let ghost r_in = rr; let ghost s_in = ss;
            proof { exp.lemma_wf_lt(); this.lemma_wf_lt(); result.lemma_wf_lt(); lemma_pow_step(s_in, e); }/*-*/
            // Multiply by base
            if exp.bit(0) {
                let (r, o) = result.overflowing_mul(this);
                result = r;
                overflow = overflow || ( o || base_overflow );
                /*+*/proof {
                    rr = r_in * s_in;
                    // result.val == (r_in%mm * s_in%mm) % mm == (r_in*s_in) % mm
                    lemma_mul_mod_noop_general(r_in, s_in, mm);
                    // flag
                    if r_in >= mm || s_in >= mm {
                        // then (a >= 1, both >= 1) product >= mm
                        if a >= 1 {
                            assert(r_in * s_in >= mm) by(nonlinear_arith) requires r_in >= 1, s_in >= 1, (r_in >= mm || s_in >= mm);
                        }
                    } else {
                        lemma_small_mod(r_in as nat, mm as nat);
                        lemma_small_mod(s_in as nat, mm as nat);
                    }
                    if a >= 1 { assert(r_in * s_in >= 1) by(nonlinear_arith) requires r_in >= 1, s_in >= 1; }
                    if a == 0 { assert(r_in * s_in == 0) by(nonlinear_arith) requires s_in == 0; }
                }/*-*/
            }
            // Square base
            let (s, o) = this.overflowing_mul(this);
            this = s;
            base_overflow = base_overflow || ( o );
            exp >>= 1;
            /*+*/proof {
                ss = s_in * s_in;
                lemma_mul_mod_noop_general(s_in, s_in, mm);
                if s_in >= mm {
                    assert(s_in * s_in >= mm) by(nonlinear_arith) requires s_in >= mm, mm >= 2;
                } else {
                    lemma_small_mod(s_in as nat, mm as nat);
                }
                if a >= 1 { assert(s_in * s_in >= 1) by(nonlinear_arith) requires s_in >= 1; }
                if a == 0 { assert(s_in * s_in == 0) by(nonlinear_arith) requires s_in == 0; }
                // rr * pow(ss, e/2) == pow(a, e0)
                let f = if e % 2 == 1 { s_in } else { 1 };
                assert(rr == r_in * f) by(nonlinear_arith) requires (e % 2 == 1 && rr == r_in * s_in && f == s_in) || (e % 2 == 0 && rr == r_in && f == 1);
                assert(rr * pow(ss, e / 2) == r_in * (pow(ss, e / 2) * f)) by(nonlinear_arith) requires rr == r_in * f;
                lemma2_to64();
                assert(exp.val() as nat == e / 2);
            }/*-*/
        }
        /*+*/proof {
            assert(exp.val() == 0);
            lemma_pow0(ss);
            assert(rr * 1 == rr) by(nonlinear_arith);
        }/*-*/
        (result, overflow)
    }
//@ end
//@ extract src/pow.rs fn wrapping_pow
    pub fn wrapping_pow(self, exp: Self) -> /*+*/(res:/*-*/ Self/*+*/)
        requires self.wf(), exp.wf(), BITS <= usize::MAX - 63
        ensures res.wf(),
            BITS > 0 ==> res.val() as int == pow(self.val() as int, exp.val()) % m2(BITS),
            BITS == 0 ==> res.val() == 0,/*-*/
    { let mut this = self ; let mut exp = exp ;
        if BITS == 0 {
            /*+*/proof { lemma2_to64(); assert(self.val() == 0); }/*-*/
            return this;
        }
        /*+*/let ghost a = self.val() as int;
        let ghost e0 = exp.val() as nat;
        let ghost mm = m2(BITS);
        proof { self.lemma_wf_lt(); exp.lemma_wf_lt(); lemma_pow2_pos(BITS as nat); }/*-*/
        let mut result = Self::ONE();
        /*+*/let ghost mut rr: int = 1;
        let ghost mut ss: int = a;
        proof {
            assert(1 * pow(a, e0) == pow(a, e0)) by(nonlinear_arith);
            lemma_pow2_strictly_increases(0, BITS as nat); lemma2_to64();
            lemma_small_mod(1, mm as nat);
            lemma_small_mod(a as nat, mm as nat);
        }/*-*/
        while !exp.is_zero()
            /*+*/invariant
                BITS > 0, BITS <= usize::MAX - 63, mm == m2(BITS), mm >= 2, a == self.val(), 0 <= a,
                exp.wf(), result.wf(), this.wf(), 0 <= exp.val(),
                rr * pow(ss, exp.val() as nat) == pow(a, e0),
                result.val() == rr % mm, this.val() == ss % mm,
            decreases exp.val()/*-*/
        {
            /*+*/let ghost e = exp.val() as nat;
            let ghost r_in = rr; let ghost s_in = ss;
            proof { exp.lemma_wf_lt(); this.lemma_wf_lt(); result.lemma_wf_lt(); lemma_pow_step(s_in, e); }/*-*/
            if exp.bit(0) {
                result = result.wrapping_mul(this);
                /*+*/proof {
                    rr = r_in * s_in;
                    lemma_mul_mod_noop_general(r_in, s_in, mm);
                }/*-*/
            }
            this = this.wrapping_mul(this);
            exp >>= 1;
            /*+*/proof {
                ss = s_in * s_in;
                lemma_mul_mod_noop_general(s_in, s_in, mm);
                let f = if e % 2 == 1 { s_in } else { 1 };
                assert(rr == r_in * f) by(nonlinear_arith) requires (e % 2 == 1 && rr == r_in * s_in && f == s_in) || (e % 2 == 0 && rr == r_in && f == 1);
                assert(rr * pow(ss, e / 2) == r_in * (pow(ss, e / 2) * f)) by(nonlinear_arith) requires rr == r_in * f;
                lemma2_to64();
                assert(exp.val() as nat == e / 2);
            }/*-*/
        }
        /*+*/proof {
            assert(exp.val() == 0);
            lemma_pow0(ss);
            assert(rr * 1 == rr) by(nonlinear_arith);
        }/*-*/
        result
    }
//@ end

//@ extract src/pow.rs fn checked_pow
    pub fn checked_pow(self, exp: Self) -> /*+*/(r:/*-*/ Option<Self>/*+*/)
        requires self.wf(), exp.wf(), BITS <= usize::MAX - 63
        ensures
            BITS > 0 ==> (r.is_none() <==> pow(self.val() as int, exp.val()) >= m2(BITS)),
            BITS > 0 && r.is_some() ==> r.unwrap().wf() && r.unwrap().val() as int == pow(self.val() as int, exp.val()),
            BITS == 0 ==> r.is_some() && r.unwrap().val() == 0,/*-*/
    {
        /*+*/proof {
            lemma_pow2_pos(BITS as nat);
            lemma_pow_nonneg(self.val() as int, exp.val());
            if pow(self.val() as int, exp.val()) < m2(BITS) { lemma_small_mod(pow(self.val() as int, exp.val()) as nat, m2(BITS) as nat); }
        }/*-*/
        match self.overflowing_pow(exp) {
            (x, false) => Some(x),
            (_, true) => None,
        }
    }
//@ end

//@ extract src/pow.rs fn saturating_pow
    pub fn saturating_pow(self, exp: Self) -> /*+*/(r:/*-*/ Self/*+*/)
        requires self.wf(), exp.wf(), BITS <= usize::MAX - 63
        ensures r.wf(),
            BITS > 0 && pow(self.val() as int, exp.val()) >= m2(BITS) ==> r.val() == m2(BITS) - 1,
            BITS > 0 && pow(self.val() as int, exp.val()) < m2(BITS) ==> r.val() as int == pow(self.val() as int, exp.val()),/*-*/
    {
        /*+*/proof {
            lemma_pow2_pos(BITS as nat);
            lemma_pow_nonneg(self.val() as int, exp.val());
            if pow(self.val() as int, exp.val()) < m2(BITS) { lemma_small_mod(pow(self.val() as int, exp.val()) as nat, m2(BITS) as nat); }
        }/*-*/
        match self.overflowing_pow(exp) {
            (x, false) => x,
            (_, true) => Self::MAX(),
        }
    }
//@ end

//@ extract src/pow.rs fn pow
    pub fn pow(self, exp: Self) -> /*+*/(res:/*-*/ Self/*+*/)
        requires self.wf(), exp.wf(), BITS <= usize::MAX - 63
        ensures res.wf(),
            BITS > 0 ==> res.val() as int == pow(self.val() as int, exp.val()) % m2(BITS),/*-*/
    {
        self.wrapping_pow(exp)
    }
//@ end
}


} // verus!
fn main() {}

// unit shr_raw: src/bits.rs overflowing_shr under a weaker precondition - the operand need NOT be canonical (reverse_bits shifts
// a non-canonical intermediate): the result is floor(lv(limbs) / 2^rhs) for arbitrary limbs, and canonical whenever that fits  (C06)
#![allow(non_snake_case)]
use vstd::prelude::*;
use vstd::arithmetic::power::*;
use vstd::arithmetic::power2::*;
use vstd::arithmetic::mul::*;
use vstd::arithmetic::div_mod::*;
use vstd::bits::*;
use vstd::std_specs::bits::*;
use vstd::std_specs::cmp::*;
use vstd::std_specs::ops::*;
verus! {
global size_of usize == 8;
//@ include lib/base.rs
//@ include lib/lvr.rs
//@ include lib/shift.rs

//@ extract src/lib.rs struct Uint
pub struct Uint<const BITS: usize, const LIMBS: usize> { pub
    limbs: [u64; LIMBS],
}
//@ end

//@ include lib/uint_spec.rs
//@ include lib/uint_ops.rs

// one word of a right shift by b < 64 bits: y is the previous (higher) word, whose low b bits come in as the carry
pub proof fn lemma_shr_word(x: u64, y: u64, b: usize)
    requires b < 64
    ensures
        ((x >> b) | ((y << (63 - b) as usize) << 1usize)) as int
            == (x as int) / (pow2(b as nat) as int) + ((y as int) % (pow2(b as nat) as int)) * pow2((64 - b) as nat),
        ((y << (63 - b) as usize) << 1usize) as int == ((y as int) % (pow2(b as nat) as int)) * pow2((64 - b) as nat),
{
    lemma2_to64();
    lemma_pow2_64();
    let cy = (y << (63 - b) as usize) << 1usize;
    if b == 0 {
        assert((y << 63usize) << 1usize == 0) by(bit_vector);
        assert((x >> 0usize) | 0u64 == x) by(bit_vector);
        assert((y as int) % 1 == 0);
        assert(0 * pow2(64) == 0) by(nonlinear_arith);
        assert(cy == 0);
        assert((x >> b) | cy == x);
        assert((x as int) / 1 == x as int);
    } else {
        let s: u32 = (64 - b) as u32;   // left-shift amount of y
        let c: u32 = b as u32;
        assert(cy == y << s) by(bit_vector) requires cy == (y << (63 - b) as usize) << 1usize, s == 64 - b, 0 < b < 64;
        assert(x >> b == x >> c) by(bit_vector) requires c == b, b < 64;
        assert((x >> c) | (y << s) == (y << s) | (x >> c)) by(bit_vector);
        assert(c == 64 - s);
        lemma_shl_or_shr_u64(y, x, s);
        lemma_shl_or_shr_u64(y, 0, s);
        assert((y << s) | (0u64 >> c) == y << s) by(bit_vector) requires c < 64;
        lemma_pow2_pos(c as nat);
        assert(0int / (pow2(c as nat) as int) == 0) by { lemma_div_basics(pow2(c as nat) as int); }
        assert((x >> b) | cy == (y << s) | (x >> c));
        assert(((y << s) | (x >> ((64 - s) as u32))) as int == ((y as int) % (pow2((64 - s) as nat) as int)) * pow2(s as nat) + (x as int) / (pow2((64 - s) as nat) as int));
        assert(pow2((64 - s) as nat) == pow2(b as nat));
        assert(pow2(s as nat) == pow2((64 - b) as nat));
    }
}


impl<const BITS: usize, const LIMBS: usize> Uint<BITS, LIMBS> {
//@ import core ZERO

    // everything is shifted out
    pub proof fn lemma_shift_all_out_raw(a: Self, rhs: nat)
        requires Self::sized(), rhs >= 64 * LIMBS
        ensures (a.val() as int) / (pow2(rhs) as int) == 0
    {
        lemma_lv_bound(a.limbs@, LIMBS as nat);
        if rhs > 64 * LIMBS { lemma_pow2_strictly_increases(64 * LIMBS as nat, rhs); }
        lemma_pow2_pos(rhs);
        lemma_basic_div(a.val() as int, pow2(rhs) as int);
    }

    // the limb-level invariant of the shift loop gives the value of the result, for arbitrary operand limbs
    pub proof fn lemma_shr_result_raw(a: Self, r: Self, L: int, b: nat, cq: int)
        requires Self::sized(), BITS > 0, 0 <= L < LIMBS, b < 64, 0 <= cq < pow2(b),
            forall|j: int| LIMBS - L <= j < LIMBS ==> r.limbs[j] == 0,
            lvr(r.limbs@, 0, LIMBS - L) * pow2(b) + cq == lvr(a.limbs@, L, LIMBS as int),
        ensures
            r.val() as int == (a.val() as int) / (pow2((64 * L + b) as nat) as int),
            (a.val() as int) / (pow2((64 * L + b) as nat) as int) < pow2(BITS as nat) ==> r.wf(),
    {
        let n = LIMBS as int; let k = n - L;
        let pb = pow2(b) as int;
        let sh = pow2((64 * L + b) as nat) as int;
        let lo = lvr(a.limbs@, 0, L);
        let S = lvr(a.limbs@, L, n);
        let R = lvr(r.limbs@, 0, k);
        lemma_lvr_is_lv(a.limbs@, LIMBS as nat);
        lemma_lvr_is_lv(r.limbs@, LIMBS as nat);
        lemma_lvr_split(a.limbs@, 0, L, n);
        lemma_lvr_trailing_zeros(r.limbs@, 0, k, n);
        lemma_lvr_bound(a.limbs@, 0, L);
        lemma_lvr_bound(r.limbs@, 0, k);
        lemma_bp_is_pow2(L as nat);
        lemma_bp_pos(L);
        lemma_pow2_adds((64 * L) as nat, b);
        lemma_pow2_pos(b);
        assert(sh == bp(L) * pb);
        assert(r.val() as int == R);
        let rem = lo + bp(L) * cq;
        assert((a.val() as int) == sh * R + rem) by(nonlinear_arith)
            requires a.val() as int == lo + bp(L) * S, R * pb + cq == S, sh == bp(L) * pb, rem == lo + bp(L) * cq;
        assert(0 <= rem < sh) by(nonlinear_arith)
            requires rem == lo + bp(L) * cq, 0 <= lo < bp(L), 0 <= cq <= pb - 1, sh == bp(L) * pb, bp(L) >= 1;
        lemma_fundamental_div_mod_converse(a.val() as int, sh, R, rem);
        if R < pow2(BITS as nat) { r.lemma_wf_iff_lt(); }
    }

//@ extract src/bits.rs fn overflowing_shr bools=overflow
    pub fn overflowing_shr(self, rhs: usize) -> /*+*/(r:/*-*/ (Self, bool)/*+*/)
        requires Self::sized(), BITS <= usize::MAX - 63
        ensures
            r.0.val() as int == (self.val() as int) / (pow2(rhs as nat) as int),
            (self.val() as int) / (pow2(rhs as nat) as int) < pow2(BITS as nat) ==> r.0.wf(),/*-*/
    {
        let (limbs, bits) = (rhs / 64, rhs % 64);
        if limbs >= LIMBS {
            /*+*/proof { Self::lemma_shift_all_out_raw(self, rhs as nat); }/*-*/
            return (Self::ZERO(), self != Self::ZERO());
        }
        let word_bits = 64;
        let mut r = Self::ZERO();
        let mut carry = 0;
        /*+*/let ghost y: u64 = 0;
        let ghost pb = pow2(bits as nat) as int;
        proof {
            lemma_shr_word(0, 0, bits);
            lemma_pow2_pos(bits as nat);
            lemma_small_mod(0, pow2(bits as nat));
            assert(0 * pb + 0 == 0) by(nonlinear_arith);
            assert(BITS > 0);
        }/*-*/
        for i in /*+*/iter:/*-*/ 0..LIMBS - limbs
            /*+*/invariant
                iter.seq().len() == LIMBS - limbs, limbs < LIMBS, bits < 64, word_bits == 64, Self::sized(), rhs == 64 * limbs + bits,
                pb == pow2(bits as nat), pb > 0,
                carry == (y << (63 - bits) as usize) << 1usize,
                forall|j: int| LIMBS - limbs <= j < LIMBS ==> r.limbs[j] == 0,
                lvr(r.limbs@, LIMBS - limbs - i, LIMBS - limbs) * pb + (y as int) % pb == lvr(self.limbs@, LIMBS - i, LIMBS as int),/*-*/
        {
            /*+*/let ghost prev = r.limbs@;/*-*/
            let x = self.limbs[LIMBS - 1 - i];
            r.limbs[LIMBS - 1 - i - limbs] = (x >> bits) | carry;
            carry = (x << (word_bits - bits - 1)) << 1;
            /*+*/proof {
                lemma_shr_word(x, y, bits);
                let v = r.limbs[LIMBS - 1 - i - limbs] as int;
                let k = LIMBS - limbs;
                lemma_lvr_ext(prev, r.limbs@, k - i, k);
                let R0 = lvr(prev, k - i, k); let S0 = lvr(self.limbs@, LIMBS - i, LIMBS as int);
                assert(lvr(r.limbs@, k - i - 1, k) == v + B * lvr(r.limbs@, k - i, k));
                assert(lvr(self.limbs@, LIMBS - i - 1, LIMBS as int) == x as int + B * S0);
                let cq = (y as int) % pb;
                let pc = pow2((64 - bits) as nat) as int;
                lemma_pow2_adds(bits as nat, (64 - bits) as nat);
                lemma_pow2_64();
                lemma_fundamental_div_mod(x as int, pb);
                let q = (x as int) / pb; let rm = (x as int) % pb;
                assert((v + B * R0) * pb + rm == x + B * S0) by(nonlinear_arith)
                    requires v == q + cq * pc, pb * pc == B, x as int == pb * q + rm, R0 * pb + cq == S0;
                y = x;
            }/*-*/
        }
        let mut overflow = carry != 0;
        for i in /*+*/iter:/*-*/ 0..limbs
            /*+*/invariant
                iter.seq().len() == limbs, limbs < LIMBS,
                overflow == (carry != 0 || exists|j: int| 0 <= j < i && self.limbs[j] != 0),/*-*/
        {
            overflow = overflow || ( self.limbs[i] != 0 );
        }
        /*+*/proof {
            lemma_shr_word(0, y, bits);
            let cq = (y as int) % pb;
            let pc = pow2((64 - bits) as nat) as int;
            lemma_pow2_pos((64 - bits) as nat);
            lemma_mod_bound(y as int, pb);
            assert((carry != 0) == (cq != 0)) by(nonlinear_arith) requires carry as int == cq * pc, pc > 0, cq >= 0;
            Self::lemma_shr_result_raw(self, r, limbs as int, bits as nat, cq);
        }/*-*/
        (r, overflow)
    }
//@ end
}

} // verus!
fn main() {}

// unit sumprod: Sum / Product impls of Uint (iterator folds)  (C01, C02)
#![allow(non_snake_case)]
use vstd::prelude::*;
use vstd::arithmetic::power::*;
use vstd::arithmetic::power2::*;
use vstd::arithmetic::mul::*;
use vstd::arithmetic::div_mod::*;
use vstd::bits::*;
use vstd::std_specs::iter::IteratorSpec;
verus! {
//@ include lib/base.rs

//@ extract src/lib.rs struct Uint
pub struct Uint<const BITS: usize, const LIMBS: usize> { pub
    limbs: [u64; LIMBS],
}
//@ end

//@ include lib/uint_spec.rs

// mathematical sum / product of the first k values of a sequence of (references to) Uints
pub open spec fn ssum<const BITS: usize, const LIMBS: usize>(s: Seq<Uint<BITS, LIMBS>>, k: int) -> nat
    decreases k
{ if k <= 0 { 0 } else { ssum(s, k - 1) + s[k - 1].val() } }
pub open spec fn sprod<const BITS: usize, const LIMBS: usize>(s: Seq<Uint<BITS, LIMBS>>, k: int) -> nat
    decreases k
{ if k <= 0 { 1 } else { sprod(s, k - 1) * s[k - 1].val() } }

pub proof fn lemma_sum_step(acc: nat, t: nat, x: nat, m: nat)
    requires m > 0, acc == t % m
    ensures (acc + x) % m == (t + x) % m
{ lemma_add_mod_noop(t as int, x as int, m as int); lemma_add_mod_noop(acc as int, x as int, m as int); lemma_mod_twice(t as int, m as int); }
pub proof fn lemma_prod_step(acc: nat, t: nat, x: nat, m: nat)
    requires m > 0, acc == t % m
    ensures (acc * x) % m == (t * x) % m
{ lemma_mul_mod_noop_left(t as int, x as int, m as int); lemma_mul_mod_noop_left(acc as int, x as int, m as int); lemma_mod_twice(t as int, m as int); }

impl<const BITS: usize, const LIMBS: usize> Uint<BITS, LIMBS> {
//@ import core ZERO
//@ import basics ONE
//@ import add wrapping_add
//@ import mul wrapping_mul

//@ extract src/add.rs fn sum ctx="Sum<&" vis=none as=Sum_ref__sum rewrite="Sum_ref__sum < I > (" => "Sum_ref__sum<'a>(" #1 rewrite="iter : I" => "items: &'a [Self]" #1 rewrite="where I : Iterator < Item = & 'a Self > ," => "" #1 rewrite="iter . copied ( ) . fold ( $1 :: $2 $3 , $4 :: $5 )" => "{ let mut iter = items.iter(); let mut acc = $1::$2 $3; while let Some(x) = iter.next() { acc = $4::$5(acc, *x); } acc }" #1
    // declared rewrites: the iterator parameter is instantiated with a slice iterator, (`iter: I` -> `items: &[Self]`, iterated with `items.iter()`), and `iter.copied().fold(init, f)` is
    // written as its definition `acc = init; while let Some(x) = iter.next() { acc = f(acc, *x) }; acc`
    fn Sum_ref__sum<'a>(items: &'a [Self]) -> /*+*/(r:/*-*/ Self/*+*/)
        requires Self::sized(), BITS <= usize::MAX - 63, forall|j: int| 0 <= j < items.len() ==> (#[trigger] items@[j]).wf()
        ensures r.wf(), r.val() == ssum(items@, items.len() as int) % pow2(BITS as nat)/*-*/
    {
        { let mut iter = items.iter(); let mut acc = Self::ZERO();
          /*+*/let ghost all = items@; let ghost len = items.len() as int; let ghost mut k: int = 0;
          proof { lemma_pow2_pos(BITS as nat); lemma_small_mod(0, pow2(BITS as nat)); }/*-*/
          while let Some(x) = iter.next()
            /*+*/invariant Self::sized(), BITS <= usize::MAX - 63, len == all.len(), 0 <= k <= len, iter.remaining().len() == len - k,
                forall|j: int| 0 <= j < len - k ==> *(#[trigger] iter.remaining()[j]) == all[k + j],
                forall|j: int| 0 <= j < len ==> (#[trigger] all[j]).wf(),
                acc.wf(), acc.val() == ssum(all, k) % pow2(BITS as nat),
            ensures k == len
            decreases len - k/*-*/
          {
            /*+*/proof {
                lemma_pow2_pos(BITS as nat);
                assert(*x == all[k + 0]);
                lemma_sum_step(acc.val(), ssum(all, k), all[k].val(), pow2(BITS as nat));
                assert(ssum(all, k + 1) == ssum(all, k) + all[k].val());
                k = k + 1;
            }/*-*/
            acc = Self::wrapping_add(acc, *x); } acc }
    }
//@ end

//@ extract src/add.rs fn sum ctx="Sum<Self>" vis=none as=Sum_val__sum rewrite="Sum_val__sum < I > (" => "Sum_val__sum<'a>(" #1 rewrite="iter : I" => "items: &'a [Self]" #1 rewrite="where I : Iterator < Item = Self > ," => "" #1 rewrite="iter . fold ( $1 :: $2 $3 , $4 :: $5 )" => "{ let mut iter = items.iter(); let mut acc = $1::$2 $3; while let Some(x) = iter.next() { acc = $4::$5(acc, *x); } acc }" #1
    // declared rewrites: the iterator parameter is instantiated with a copying slice iterator (`items.iter().copied()`), (`iter: I` -> `items: &[Self]`, iterated with `items.iter()`), and `iter.fold(init, f)` is
    // written as its definition `acc = init; while let Some(x) = iter.next() { acc = f(acc, *x) }; acc`
    fn Sum_val__sum<'a>(items: &'a [Self]) -> /*+*/(r:/*-*/ Self/*+*/)
        requires Self::sized(), BITS <= usize::MAX - 63, forall|j: int| 0 <= j < items.len() ==> (#[trigger] items@[j]).wf()
        ensures r.wf(), r.val() == ssum(items@, items.len() as int) % pow2(BITS as nat)/*-*/
    {
        { let mut iter = items.iter(); let mut acc = Self::ZERO();
          /*+*/let ghost all = items@; let ghost len = items.len() as int; let ghost mut k: int = 0;
          proof { lemma_pow2_pos(BITS as nat); lemma_small_mod(0, pow2(BITS as nat)); }/*-*/
          while let Some(x) = iter.next()
            /*+*/invariant Self::sized(), BITS <= usize::MAX - 63, len == all.len(), 0 <= k <= len, iter.remaining().len() == len - k,
                forall|j: int| 0 <= j < len - k ==> *(#[trigger] iter.remaining()[j]) == all[k + j],
                forall|j: int| 0 <= j < len ==> (#[trigger] all[j]).wf(),
                acc.wf(), acc.val() == ssum(all, k) % pow2(BITS as nat),
            ensures k == len
            decreases len - k/*-*/
          {
            /*+*/proof {
                lemma_pow2_pos(BITS as nat);
                assert(*x == all[k + 0]);
                lemma_sum_step(acc.val(), ssum(all, k), all[k].val(), pow2(BITS as nat));
                assert(ssum(all, k + 1) == ssum(all, k) + all[k].val());
                k = k + 1;
            }/*-*/
            acc = Self::wrapping_add(acc, *x); } acc }
    }
//@ end

//@ extract src/mul.rs fn product ctx="Product<&" vis=none as=Product_ref__product rewrite="Product_ref__product < I > (" => "Product_ref__product<'a>(" #1 rewrite="iter : I" => "items: &'a [Self]" #1 rewrite="where I : Iterator < Item = & 'a Self > ," => "" #1 rewrite="iter . copied ( ) . fold ( $1 :: $2 $3 , $4 :: $5 )" => "{ let mut iter = items.iter(); let mut acc = $1::$2 $3; while let Some(x) = iter.next() { acc = $4::$5(acc, *x); } acc }" #1
    // declared rewrites: the iterator parameter is instantiated with a slice iterator, (`iter: I` -> `items: &[Self]`, iterated with `items.iter()`), and `iter.copied().fold(init, f)` is
    // written as its definition `acc = init; while let Some(x) = iter.next() { acc = f(acc, *x) }; acc`
    fn Product_ref__product<'a>(items: &'a [Self]) -> /*+*/(r:/*-*/ Self/*+*/)
        requires Self::sized(), BITS <= usize::MAX - 63, forall|j: int| 0 <= j < items.len() ==> (#[trigger] items@[j]).wf()
        ensures r.wf(), r.val() == sprod(items@, items.len() as int) % pow2(BITS as nat)/*-*/
    {
        /*+*/proof { if BITS == 0 { lemma2_to64(); } }/*-*/
        if BITS == 0 {
            return Self::ZERO();
        }
        { let mut iter = items.iter(); let mut acc = Self::ONE();
          /*+*/let ghost all = items@; let ghost len = items.len() as int; let ghost mut k: int = 0;
          proof { lemma_pow2_pos(BITS as nat); lemma2_to64(); lemma_pow2_strictly_increases(0, BITS as nat); lemma_small_mod(1, pow2(BITS as nat)); }/*-*/
          while let Some(x) = iter.next()
            /*+*/invariant Self::sized(), BITS <= usize::MAX - 63, len == all.len(), 0 <= k <= len, iter.remaining().len() == len - k,
                forall|j: int| 0 <= j < len - k ==> *(#[trigger] iter.remaining()[j]) == all[k + j],
                forall|j: int| 0 <= j < len ==> (#[trigger] all[j]).wf(),
                acc.wf(), acc.val() == sprod(all, k) % pow2(BITS as nat), BITS > 0,
            ensures k == len
            decreases len - k/*-*/
          {
            /*+*/proof {
                lemma_pow2_pos(BITS as nat);
                assert(*x == all[k + 0]);
                lemma_prod_step(acc.val(), sprod(all, k), all[k].val(), pow2(BITS as nat));
                assert(sprod(all, k + 1) == sprod(all, k) * all[k].val());
                k = k + 1;
            }/*-*/
            acc = Self::wrapping_mul(acc, *x); } acc }
    }
//@ end

//@ extract src/mul.rs fn product ctx="Product<Self>" vis=none as=Product_val__product rewrite="Product_val__product < I > (" => "Product_val__product<'a>(" #1 rewrite="iter : I" => "items: &'a [Self]" #1 rewrite="where I : Iterator < Item = Self > ," => "" #1 rewrite="iter . fold ( $1 :: $2 $3 , $4 :: $5 )" => "{ let mut iter = items.iter(); let mut acc = $1::$2 $3; while let Some(x) = iter.next() { acc = $4::$5(acc, *x); } acc }" #1
    // declared rewrites: the iterator parameter is instantiated with a copying slice iterator (`items.iter().copied()`), (`iter: I` -> `items: &[Self]`, iterated with `items.iter()`), and `iter.fold(init, f)` is
    // written as its definition `acc = init; while let Some(x) = iter.next() { acc = f(acc, *x) }; acc`
    fn Product_val__product<'a>(items: &'a [Self]) -> /*+*/(r:/*-*/ Self/*+*/)
        requires Self::sized(), BITS <= usize::MAX - 63, forall|j: int| 0 <= j < items.len() ==> (#[trigger] items@[j]).wf()
        ensures r.wf(), r.val() == sprod(items@, items.len() as int) % pow2(BITS as nat)/*-*/
    {
        /*+*/proof { if BITS == 0 { lemma2_to64(); } }/*-*/
        if BITS == 0 {
            return Self::ZERO();
        }
        { let mut iter = items.iter(); let mut acc = Self::ONE();
          /*+*/let ghost all = items@; let ghost len = items.len() as int; let ghost mut k: int = 0;
          proof { lemma_pow2_pos(BITS as nat); lemma2_to64(); lemma_pow2_strictly_increases(0, BITS as nat); lemma_small_mod(1, pow2(BITS as nat)); }/*-*/
          while let Some(x) = iter.next()
            /*+*/invariant Self::sized(), BITS <= usize::MAX - 63, len == all.len(), 0 <= k <= len, iter.remaining().len() == len - k,
                forall|j: int| 0 <= j < len - k ==> *(#[trigger] iter.remaining()[j]) == all[k + j],
                forall|j: int| 0 <= j < len ==> (#[trigger] all[j]).wf(),
                acc.wf(), acc.val() == sprod(all, k) % pow2(BITS as nat), BITS > 0,
            ensures k == len
            decreases len - k/*-*/
          {
            /*+*/proof {
                lemma_pow2_pos(BITS as nat);
                assert(*x == all[k + 0]);
                lemma_prod_step(acc.val(), sprod(all, k), all[k].val(), pow2(BITS as nat));
                assert(sprod(all, k + 1) == sprod(all, k) * all[k].val());
                k = k + 1;
            }/*-*/
            acc = Self::wrapping_mul(acc, *x); } acc }
    }
//@ end
}

} // verus!
fn main() {}

// unit padlimbs: ruint-macro/src/lib.rs pad_limbs - the range check and limb padding behind every uint! literal  (C19)
#![allow(non_snake_case)]
use vstd::prelude::*;
use vstd::arithmetic::power::*;
use vstd::arithmetic::power2::*;
use vstd::arithmetic::mul::*;
use vstd::arithmetic::div_mod::*;
use vstd::bits::*;
verus! {
global size_of usize == 8;
//@ include lib/base.rs
//@ include lib/lvr.rs
//@ include lib/lvr_nz.rs

// top limb <= mask  <==>  value < 2^bits, for a limb sequence of exactly ceil(bits/64) limbs (the statement of Uint::lemma_wf_iff_lt for a run-time width)
pub proof fn lemma_top_mask(s: Seq<u64>, bits: usize)
    requires bits > 0, s.len() == (bits + 63) / 64
    ensures (s[s.len() - 1] <= spec_mask(bits)) <==> lvr(s, 0, s.len() as int) < pow2(bits as nat)
{
    let n = s.len() as int; let l = n - 1;
    let k = (bits % 64) as nat;
    let w = bp(l); let top = s[l] as int; let low = lvr(s, 0, l);
    lemma_lvr_push(s, 0, l); lemma_lvr_bound(s, 0, l); lemma_bp_pos(l); lemma_bp_is_pow2(l as nat); lemma_pow2_64();
    assert(lvr(s, 0, n) == low + w * top);
    if k == 0 {
        assert(bits == 64 * n);
        lemma_bp_is_pow2(n as nat);
        lemma_lvr_bound(s, 0, n);
    } else {
        assert(bits == 64 * l + k);
        lemma_pow2_adds((64 * l) as nat, k);
        lemma_pow2_pos(k);
        assert(low_bits_mask(k) == pow2(k) - 1);
        lemma_u64_pow2_no_overflow(k);
        let pk = pow2(k) as int;
        assert(pow2(bits as nat) as int == w * pk);
        if top <= pk - 1 {
            assert(low + w * top < w * pk) by(nonlinear_arith) requires 0 <= low < w, 0 <= top <= pk - 1;
        } else {
            assert(low + w * top >= w * pk) by(nonlinear_arith) requires 0 <= low, top >= pk, w >= 1;
        }
    }
}

// N14 wrappers (bodies ARE the replaced expressions; ASSUMED facts about std's Vec/slice/Option API, label A; Kani c19 runs the real function)
#[verifier::external_body]
pub fn last_is_zero(limbs: &Vec<u64>) -> (r: bool)
    ensures r == (limbs.len() > 0 && limbs[limbs.len() - 1] == 0)
{ limbs.last() == Some(&0) }
#[verifier::external_body]
pub fn last_or_zero(limbs: &Vec<u64>) -> (r: u64)
    ensures r == (if limbs.len() == 0 { 0u64 } else { limbs[limbs.len() - 1] })
{ limbs.last().copied().unwrap_or(0) }

//@ extract ruint-macro/src/lib.rs fn pad_limbs rewrite="limbs . last ( ) == Some ( & 0 )" => "last_is_zero(&limbs)" #1 rewrite="limbs . last ( ) . copied ( ) . unwrap_or ( 0 )" => "last_or_zero(&limbs)" #1
pub fn pad_limbs(bits: usize, limbs: Vec<u64>) -> /*+*/(r:/*-*/ Option<Vec<u64>>/*+*/)
    requires bits <= usize::MAX - 63
    ensures
        // accepted exactly when the value of the limb string is < 2^bits; then exactly ceil(bits/64) limbs with the same value
        r.is_some() == (lvr(limbs@, 0, limbs.len() as int) < pow2(bits as nat)),
        r.is_some() ==> r.unwrap().len() == (bits + 63) / 64 && lvr(r.unwrap()@, 0, r.unwrap().len() as int) == lvr(limbs@, 0, limbs.len() as int),/*-*/
{ /*+*/let ghost V = lvr(limbs@, 0, limbs.len() as int);/*-*/ let mut limbs = limbs ;
    // Get limb count and mask
    let num_limbs = (bits + 63) / 64;
    let mask = if bits == 0 {
        0
    } else {
        let bits = bits % 64;
        if bits == 0 {
            u64::MAX
        } else {
            /*+*/proof {
                let k = bits as u64;
                assert((1u64 << k) >= 1 && (1u64 << k) as nat == pow2(k as nat)) by {
                    lemma_u64_pow2_no_overflow(k as nat);
                    lemma_pow2_pos(k as nat);
                    lemma_u64_shl_is_mul(1, k);
                }
                assert(low_bits_mask(k as nat) == pow2(k as nat) - 1);
            }/*-*/
            (1 << bits) - 1
        }
    };
    /*+*/proof { assert(mask == spec_mask(bits)); }/*-*/

    // Remove trailing zeros, pad with zeros
    while limbs.len() > num_limbs && last_is_zero(&limbs)
        /*+*/invariant lvr(limbs@, 0, limbs.len() as int) == V
        decreases limbs.len()/*-*/
    {
        /*+*/let ghost s0 = limbs@;/*-*/
        limbs.pop();
        /*+*/proof {
            let k = limbs.len() as int;
            lemma_lvr_push(s0, 0, k);
            lemma_lvr_ext(s0, limbs@, 0, k);
            assert(bp(k) * 0 == 0) by(nonlinear_arith);
        }/*-*/
    }
    while limbs.len() < num_limbs
        /*+*/invariant lvr(limbs@, 0, limbs.len() as int) == V, num_limbs == (bits + 63) / 64,
            limbs.len() > num_limbs ==> limbs[limbs.len() - 1] != 0,
        decreases num_limbs - limbs.len()/*-*/
    {
        /*+*/let ghost s0 = limbs@;/*-*/
        limbs.push(0);
        /*+*/proof {
            let k = s0.len() as int;
            lemma_lvr_push(limbs@, 0, k);
            lemma_lvr_ext(s0, limbs@, 0, k);
            assert(bp(k) * 0 == 0) by(nonlinear_arith);
        }/*-*/
    }

    // Validate length
    /*+*/proof {
        let len = limbs.len() as int; let n = num_limbs as int;
        lemma_pow2_pos(bits as nat);
        if len > n {
            // a non-zero limb at position len-1 >= n: the value is at least B^n >= 2^bits
            lemma_lvr_split(limbs@, 0, len - 1, len);
            lemma_lvr_nonzero(limbs@, len - 1, len, len - 1);
            lemma_lvr_bound(limbs@, 0, len - 1);
            lemma_bp_add(n, len - 1 - n); lemma_bp_pos(len - 1 - n); lemma_bp_pos(n);
            lemma_bp_is_pow2(n as nat);
            let d = (64 * n - bits) as nat;
            lemma_pow2_adds(bits as nat, d); lemma_pow2_pos(d);
            assert(V >= pow2(bits as nat)) by(nonlinear_arith)
                requires V == lvr(limbs@, 0, len - 1) + bp(len - 1) * lvr(limbs@, len - 1, len), lvr(limbs@, 0, len - 1) >= 0, lvr(limbs@, len - 1, len) >= 1,
                    bp(len - 1) == bp(n) * bp(len - 1 - n), bp(len - 1 - n) >= 1, bp(n) == pow2(bits as nat) * pow2(d), pow2(d) >= 1, pow2(bits as nat) >= 1;
        } else if bits > 0 {
            lemma_top_mask(limbs@, bits);
        } else {
            lemma2_to64(); assert(lvr(limbs@, 0, 0) == 0);
        }
    }/*-*/
    if limbs.len() > num_limbs || last_or_zero(&limbs) > mask {
        return None;
    }
    Some(limbs)
}
//@ end

} // verus!
fn main() {}

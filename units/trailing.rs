// unit trailing: src/bits.rs trailing_zeros, trailing_ones against the binary expansion of the value, for all widths  (C06)
#![allow(non_snake_case)]
use vstd::prelude::*;
use vstd::arithmetic::power::*;
use vstd::arithmetic::power2::*;
use vstd::arithmetic::mul::*;
use vstd::arithmetic::div_mod::*;
use vstd::bits::*;
use vstd::std_specs::bits::*;
verus! {
//@ include lib/base.rs
//@ include lib/lvr.rs

//@ extract src/lib.rs struct Uint
pub struct Uint<const BITS: usize, const LIMBS: usize> { pub
    limbs: [u64; LIMBS],
}
//@ end

//@ include lib/uint_spec.rs

// bit i of the binary expansion of v
pub open spec fn vbit(v: nat, i: nat) -> bool { (v / pow2(i)) % 2 == 1 }

// bit b of a machine word, as computed by `(x >> b) & 1 == 1`
pub proof fn lemma_word_bit_shr(x: u64, b: u64)
    requires b < 64
    ensures ((x >> b) & 1 == 1) == vbit(x as nat, b as nat)
{
    let y = x >> b;
    assert((y & 1 == 1) == (y % 2 == 1)) by(bit_vector);
    lemma_u64_shr_is_div(x, b);
}

//@ include lib/limbbit.rs

// N14: `s.iter().position(|&x| x != 0)` / `(|&x| x != u64::MAX)` are routed through these wrappers whose bodies ARE those expressions.
// ASSUMED (label A, std's Iterator::position): first index whose limb satisfies the predicate, or None. Kani: core_specs::position_*.
#[verifier::external_body]
pub fn position_nonzero_arr<const N: usize>(s: &[u64; N]) -> (r: Option<usize>)
    ensures (match r {
        Some(i) => i < N && s[i as int] != 0 && (forall|j: int| 0 <= j < i ==> s[j] == 0),
        None => forall|j: int| 0 <= j < N ==> s[j] == 0 })
{ s.iter().position(|&limb| limb != 0) }
#[verifier::external_body]
pub fn position_not_max_arr<const N: usize>(s: &[u64; N]) -> (r: Option<usize>)
    ensures (match r {
        Some(i) => i < N && s[i as int] != u64::MAX && (forall|j: int| 0 <= j < i ==> s[j] == u64::MAX),
        None => forall|j: int| 0 <= j < N ==> s[j] == u64::MAX })
{ s.iter().position(|&limb| limb != u64::MAX) }

impl<const BITS: usize, const LIMBS: usize> Uint<BITS, LIMBS> {
//@ import core as_limbs

    pub proof fn lemma_val_lvr(self)
        ensures self.val() as int == lvr(self.limbs@, 0, LIMBS as int), bp(LIMBS as int) == pow2(64 * LIMBS as nat)
    {
        lemma_lvr_is_lv(self.limbs@, LIMBS as nat);
        lemma_bp_is_pow2(LIMBS as nat);
    }

    // bits at positions >= BITS are zero
    pub proof fn lemma_bits_above(self, i: nat)
        requires self.wf(), i >= BITS
        ensures !vbit(self.val(), i)
    {
        self.lemma_wf_lt();
        if BITS < i { lemma_pow2_strictly_increases(BITS as nat, i); }
        lemma_high_bit_zero(self.val(), i);
    }

//@ extract src/bits.rs fn trailing_zeros rewrite="self . as_limbs ( ) . iter ( ) . position ( | & limb | limb != 0 ) . map_or ( $1 , | n | $2 )" => "match position_nonzero_arr(self.as_limbs()) { None => $1, Some(n) => $2 }" #1
    // declared rewrites: N14 wrapper for `iter().position(closure)`; `opt.map_or(d, |n| e)` is written as its definition
    // `match opt { None => d, Some(n) => e }`
    pub fn trailing_zeros(&self) -> /*+*/(r:/*-*/ usize/*+*/)
        requires self.wf()
        ensures r <= BITS,
            forall|i: nat| i < r ==> !vbit(self.val(), i),
            r < BITS ==> vbit(self.val(), r as nat),
            (self.val() == 0) == (r == BITS),/*-*/
    {
        /*+*/proof {
            self.lemma_val_lvr();
            if forall|j: int| 0 <= j < LIMBS ==> self.limbs[j] == 0 {
                lemma_lvr_zero(self.limbs@, 0, LIMBS as int);
                assert forall|i: nat| !vbit(self.val(), i) by { lemma_pow2_pos(i); lemma_high_bit_zero(0, i); }
            }
        }/*-*/
        match position_nonzero_arr(self.as_limbs()) { None => BITS, Some(n) => {
            /*+*/proof {
                let x = self.limbs[n as int];
                let t = u64_trailing_zeros(x);
                axiom_u64_trailing_zeros(x);
                assert(t < 64);
                // bit 64n + t is set
                lemma_limb_bit(self.limbs@, LIMBS as int, n as int, t as nat);
                lemma_word_bit_shr(x, t as u64);
                assert(vbit(self.val(), (64 * n + t) as nat));
                if 64 * n + t >= BITS { self.lemma_bits_above((64 * n + t) as nat); }
                // everything below is clear
                assert forall|i: nat| i < 64 * n + t implies !vbit(self.val(), i) by {
                    let l = (i / 64) as int; let b = (i % 64) as nat;
                    lemma_limb_bit(self.limbs@, LIMBS as int, l, b);
                    if l < n {
                        lemma_pow2_pos(b); lemma_high_bit_zero(0, b);
                    } else {
                        assert(l == n as int);
                        let bb = b as u64;
                        assert((x >> bb) & 1 == 0) by { axiom_u64_trailing_zeros(x); }
                        lemma_word_bit_shr(x, bb);
                    }
                }
                // the value is not zero
                if self.val() == 0 { lemma_pow2_pos((64 * n + t) as nat); lemma_high_bit_zero(0, (64 * n + t) as nat); }
            }/*-*/
                n * 64 + self.as_limbs()[n].trailing_zeros() as usize
            } }
    }
//@ end

//@ extract src/bits.rs fn trailing_ones rewrite="self . as_limbs ( ) . iter ( ) . position ( | & limb | limb != u64 :: MAX ) . map_or ( $1 , | n | $2 )" => "match position_not_max_arr(self.as_limbs()) { None => $1, Some(n) => $2 }" #1
    pub fn trailing_ones(&self) -> /*+*/(r:/*-*/ usize/*+*/)
        requires self.wf()
        ensures r <= BITS,
            forall|i: nat| i < r ==> vbit(self.val(), i),
            r < BITS ==> !vbit(self.val(), r as nat),/*-*/
    {
        /*+*/proof {
            self.lemma_val_lvr();
            if forall|j: int| 0 <= j < LIMBS ==> self.limbs[j] == u64::MAX {
                assert forall|i: nat| i < BITS implies vbit(self.val(), i) by {
                    let l = (i / 64) as int; let b = (i % 64) as nat;
                    assert(l < LIMBS);
                    lemma_limb_bit(self.limbs@, LIMBS as int, l, b);
                    let bb = b as u64;
                    assert((0xffff_ffff_ffff_ffffu64 >> bb) & 1 == 1) by(bit_vector) requires bb < 64;
                    lemma_word_bit_shr(u64::MAX, bb);
                }
            }
        }/*-*/
        match position_not_max_arr(self.as_limbs()) { None => BITS, Some(n) => {
            /*+*/proof {
                let x = self.limbs[n as int];
                let nx = !x;
                let t = u64_trailing_ones(x);
                axiom_u64_trailing_ones(x);
                axiom_u64_trailing_zeros(nx);
                assert(nx != 0) by(bit_vector) requires nx == !x, x != 0xffff_ffff_ffff_ffffu64;
                assert(t < 64);
                let tt = t as u64;
                // bit 64n + t is clear
                lemma_limb_bit(self.limbs@, LIMBS as int, n as int, t as nat);
                assert((x >> tt) & 1 == 0) by(bit_vector) requires (nx >> tt) & 1 == 1, nx == !x, tt < 64;
                lemma_word_bit_shr(x, tt);
                assert(!vbit(self.val(), (64 * n + t) as nat));
                // everything below is set
                assert forall|i: nat| i < 64 * n + t implies vbit(self.val(), i) by {
                    let l = (i / 64) as int; let b = (i % 64) as nat;
                    lemma_limb_bit(self.limbs@, LIMBS as int, l, b);
                    let bb = b as u64;
                    if l < n {
                        assert((0xffff_ffff_ffff_ffffu64 >> bb) & 1 == 1) by(bit_vector) requires bb < 64;
                        lemma_word_bit_shr(u64::MAX, bb);
                    } else {
                        assert(l == n as int);
                        assert((nx >> bb) & 1 == 0) by { axiom_u64_trailing_zeros(nx); }
                        assert((x >> bb) & 1 == 1) by(bit_vector) requires (nx >> bb) & 1 == 0, nx == !x, bb < 64;
                        lemma_word_bit_shr(x, bb);
                    }
                }
                // no more than BITS ones: bit BITS of the value is clear
                if 64 * n + t > BITS { self.lemma_bits_above(BITS as nat); }
            }/*-*/
                n * 64 + self.as_limbs()[n].trailing_ones() as usize
            } }
    }
//@ end
}

} // verus!
fn main() {}

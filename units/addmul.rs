// unit addmul: src/algorithms/mul.rs addmul (general multiply-accumulate with zero trimming and overflow flag)  (C15, C02)
#![allow(non_snake_case)]
use vstd::prelude::*;
use vstd::arithmetic::power2::*;
use vstd::arithmetic::mul::*;
use vstd::arithmetic::div_mod::*;
use vstd::bits::*;
verus! {
//@ include lib/base.rs
//@ include lib/lvr.rs

// A (Rust fact): a `&mut [T]` cannot change the length of the slice it points to
#[verifier::external_body]
pub proof fn axiom_slice_len_stable<T>(x: &mut [T])
    ensures final(x).len() == old(x).len()
{}

//@ import kernels addmul_nx1
//@ import addnx1 add_nx1


// window bookkeeping: `lhs` is the suffix of the original slice starting at `off`
pub open spec fn win(cur: Seq<u64>, wfin: Seq<u64>, fin: Seq<u64>, off: int, l0: int) -> bool {
    &&& 0 <= off <= l0 && fin.len() == l0
    &&& cur.len() == l0 - off && wfin.len() == l0 - off
    &&& forall|i: int| 0 <= i < l0 - off ==> wfin[i] == #[trigger] fin[off + i]
}
// during trimming nothing has been written yet
pub open spec fn untouched(cur: Seq<u64>, old_s: Seq<u64>, fin: Seq<u64>, off: int, l0: int) -> bool {
    &&& forall|i: int| 0 <= i < l0 - off ==> cur[i] == #[trigger] old_s[off + i]
    &&& forall|i: int| 0 <= i < off ==> #[trigger] fin[i] == old_s[i]
}
pub proof fn lemma_slide(pv: Seq<u64>, pf: Seq<u64>, nv: Seq<u64>, nf: Seq<u64>, fin: Seq<u64>, off: int, l0: int)
    requires win(pv, pf, fin, off, l0), off < l0,
        nv == pv.subrange(1, pv.len() as int), nf == pf.subrange(1, pf.len() as int), pf[0] == pv[0],
    ensures win(nv, nf, fin, off + 1, l0), fin[off] == pv[0]
{
    assert(fin[off + 0] == pf[0]);
    assert forall|i: int| 0 <= i < l0 - (off + 1) implies nf[i] == #[trigger] fin[(off + 1) + i] by {
        assert(nf[i] == pf[i + 1]);
        assert(pf[i + 1] == fin[off + (i + 1)]);
    }
}
pub proof fn lemma_slide_untouched(pv: Seq<u64>, nv: Seq<u64>, old_s: Seq<u64>, fin: Seq<u64>, off: int, l0: int)
    requires untouched(pv, old_s, fin, off, l0), off < l0, pv.len() == l0 - off, nv == pv.subrange(1, pv.len() as int), fin[off] == pv[0]
    ensures untouched(nv, old_s, fin, off + 1, l0)
{
    assert(pv[0] == old_s[off + 0]);
    assert forall|i: int| 0 <= i < l0 - (off + 1) implies nv[i] == #[trigger] old_s[(off + 1) + i] by {
        assert(nv[i] == pv[i + 1]);
        assert(pv[i + 1] == old_s[off + (i + 1)]);
    }
}
// strip one leading zero limb of an operand
pub proof fn lemma_strip_leading(p: Seq<u64>, n: Seq<u64>, v: int, z: int)
    requires p.len() >= 1, p[0] == 0, n == p.subrange(1, p.len() as int), z >= 0, v == bp(z) * lvr(p, 0, p.len() as int)
    ensures v == bp(z + 1) * lvr(n, 0, n.len() as int)
{
    lemma_lvr_shift(p, n, 1, p.len() as int);
    assert(lvr(p, 0, p.len() as int) == p[0] as int + B * lvr(p, 1, p.len() as int));
    assert(bp(z + 1) == B * bp(z));
    assert(v == bp(z + 1) * lvr(n, 0, n.len() as int)) by(nonlinear_arith)
        requires v == bp(z) * (0 + B * lvr(n, 0, n.len() as int)), bp(z + 1) == B * bp(z);
}
pub proof fn lemma_strip_trailing(p: Seq<u64>, n: Seq<u64>)
    requires p.len() >= 1, p[p.len() - 1] == 0, n == p.subrange(0, p.len() - 1)
    ensures lvr(p, 0, p.len() as int) == lvr(n, 0, n.len() as int)
{
    lemma_lvr_trailing_zeros(p, 0, p.len() - 1, p.len() as int);
    lemma_lvr_ext(p, n, 0, p.len() - 1);
}

// src/algorithms/mul.rs : addmul  (N3, N10, N11, N5 applied)
pub open spec fn total(old_s: Seq<u64>, a0: Seq<u64>, b0: Seq<u64>) -> int {
    lvr(old_s, 0, old_s.len() as int) + lvr(a0, 0, a0.len() as int) * lvr(b0, 0, b0.len() as int)
}
// non-empty operand with non-zero first and last limb
pub proof fn lemma_trimmed_bounds(s: Seq<u64>)
    requires s.len() >= 1, s[0] != 0, s[s.len() - 1] != 0
    ensures lvr(s, 0, s.len() as int) >= 1, lvr(s, 0, s.len() as int) >= bp(s.len() - 1)
{
    let n = s.len() as int;
    lemma_lvr_split(s, 0, n - 1, n);
    lemma_lvr_bound(s, 0, n - 1);
    assert(lvr(s, n - 1, n) == s[n - 1] as int) by { assert(lvr(s, n, n) == 0); assert(B * 0 == 0); }
    lemma_bp_pos(n - 1);
    assert(bp(n - 1) * (s[n - 1] as int) >= bp(n - 1)) by(nonlinear_arith) requires s[n - 1] as int >= 1, bp(n - 1) >= 1;
}
// lift a result on the window [off, l0) to the whole slice
pub proof fn lemma_lift(old_s: Seq<u64>, fin: Seq<u64>, off: int, l0: int, p: int, t: int)
    requires 0 <= off <= l0, old_s.len() == l0, fin.len() == l0, p >= 0,
        forall|i: int| 0 <= i < off ==> #[trigger] fin[i] == old_s[i],
        lvr(fin, off, l0) == (lvr(old_s, off, l0) + p) % bp(l0 - off),
        t == lvr(old_s, 0, l0) + bp(off) * p,
    ensures lvr(fin, 0, l0) == t % bp(l0), (t >= bp(l0)) == (lvr(old_s, off, l0) + p >= bp(l0 - off))
{
    let low = lvr(old_s, 0, off);
    let w0 = lvr(old_s, off, l0);
    let lw = l0 - off;
    lemma_lvr_split(old_s, 0, off, l0);
    lemma_lvr_split(fin, 0, off, l0);
    lemma_lvr_ext(old_s, fin, 0, off);
    lemma_lvr_bound(old_s, 0, off);
    lemma_lvr_bound(old_s, off, l0);
    lemma_bp_pos(off); lemma_bp_pos(lw); lemma_bp_add(off, lw);
    let s1 = w0 + p;
    lemma_fundamental_div_mod(s1, bp(lw));
    lemma_mod_bound(s1, bp(lw));
    let q = s1 / bp(lw); let r = s1 % bp(lw);
    assert(q >= 0) by { lemma_div_pos_is_pos(s1, bp(lw)); }
    assert(t == (low + bp(off) * r) + q * bp(l0)) by(nonlinear_arith)
        requires t == (low + bp(off) * w0) + bp(off) * p, s1 == w0 + p, s1 == bp(lw) * q + r, bp(l0) == bp(off) * bp(lw);
    assert(0 <= low + bp(off) * r < bp(l0)) by(nonlinear_arith)
        requires 0 <= low < bp(off), 0 <= r <= bp(lw) - 1, bp(l0) == bp(off) * bp(lw), bp(off) >= 1;
    lemma_mod_multiples_vanish(q, low + bp(off) * r, bp(l0));
    assert(bp(l0) * q == q * bp(l0)) by(nonlinear_arith);
    lemma_small_mod((low + bp(off) * r) as nat, bp(l0) as nat);
    assert((t >= bp(l0)) == (q >= 1)) by(nonlinear_arith)
        requires t == (low + bp(off) * r) + q * bp(l0), 0 <= low + bp(off) * r < bp(l0), q >= 0, bp(l0) >= 1;
    assert((s1 >= bp(lw)) == (q >= 1)) by(nonlinear_arith)
        requires s1 == bp(lw) * q + r, 0 <= r < bp(lw), q >= 0;
}

//@ extract src/algorithms/mul.rs fn addmul bools=overflow rewrite="while let [ 0 , rest @ .. ] = a {" => "while a.len() > 0 && a[0] == 0 { let rest = &a[1..];" #1 rewrite="while let [ rest @ .. , 0 ] = a {" => "while a.len() > 0 && a[a.len() - 1] == 0 { let rest = &a[..a.len() - 1];" #1 rewrite="while let [ 0 , rest @ .. ] = b {" => "while b.len() > 0 && b[0] == 0 { let rest = &b[1..];" #1 rewrite="while let [ rest @ .. , 0 ] = b {" => "while b.len() > 0 && b[b.len() - 1] == 0 { let rest = &b[..b.len() - 1];" #1 rewrite="if let [ _ , rest @ .. ] = lhs {" => "if lhs.len() > 0 { let rest = &mut lhs[1..];" #2 rewrite="for & b in b {" => "for b_ref in b.iter() { let b = *b_ref;" #1
/*+*/#[verifier::loop_isolation(false)]
#[verifier::rlimit(1000)] #[verifier::spinoff_prover]/*-*/
pub fn addmul(lhs: &mut [u64], a: &[u64], b: &[u64]) -> /*+*/(ovf:/*-*/ bool/*+*/)
    ensures
        final(lhs).len() == old(lhs).len(),
        lvr(final(lhs)@, 0, old(lhs).len() as int) == total(old(lhs)@, a@, b@) % bp(old(lhs).len() as int),
        ovf == (total(old(lhs)@, a@, b@) >= bp(old(lhs).len() as int)),/*-*/
{
    /*+*/let ghost old_s = lhs@;
    let ghost fin = final(lhs)@;
    let ghost l0 = lhs.len() as int;
    proof { axiom_slice_len_stable(lhs); }
    let ghost a0s = a@;
    let ghost b0s = b@;
    let ghost av = lvr(a0s, 0, a0s.len() as int);
    let ghost bv = lvr(b0s, 0, b0s.len() as int);/*-*/
    let mut lhs = lhs ; let mut a = a ; let mut b = b ;
    /*+*/let ghost mut off: int = 0;
    let ghost mut z: int = 0;       // zero limbs stripped from the fronts of a and b so far
    proof {
        assert(lhs@ == old_s); assert(final(lhs)@ == fin);
        assert(final(lhs).len() == lhs.len());
        assert(bp(0) * av == av) by(nonlinear_arith) requires bp(0) == 1;
    }/*-*/
    // Trim zeros from `a`
    while a.len() > 0 && a[0] == 0
        /*+*/invariant
            l0 == old_s.len(), z >= 0, off == (if z <= l0 { z } else { l0 }),
            av == bp(z) * lvr(a@, 0, a.len() as int),
            win(lhs@, final(lhs)@, fin, off, l0), untouched(lhs@, old_s, fin, off, l0),
        decreases a.len()/*-*/
    {
        /*+*/let ghost a_prev = a@;/*-*/
        let rest = &a[1..];
        a = rest;
        /*+*/proof { lemma_strip_leading(a_prev, a@, av, z); }/*-*/
        if lhs.len() > 0 {
            /*+*/let ghost pf = final(lhs)@; let ghost pv = lhs@;/*-*/
            let rest = &mut lhs[1..];
            lhs = rest;
            /*+*/proof {
                lemma_slide(pv, pf, lhs@, final(lhs)@, fin, off, l0);
                lemma_slide_untouched(pv, lhs@, old_s, fin, off, l0);
                off = off + 1;
            }/*-*/
        }
        /*+*/proof { z = z + 1; }/*-*/
    }
    while a.len() > 0 && a[a.len() - 1] == 0
        /*+*/invariant av == bp(z) * lvr(a@, 0, a.len() as int), z >= 0, a.len() > 0 ==> a@[0] != 0,
        decreases a.len()/*-*/
    {
        /*+*/let ghost a_prev = a@;/*-*/
        let rest = &a[..a.len() - 1];
        a = rest;
        /*+*/proof { lemma_strip_trailing(a_prev, a@); }/*-*/
    }
    /*+*/let ghost za = z;
    let ghost mut zb: int = 0;
    proof { assert(bp(0) * bv == bv) by(nonlinear_arith) requires bp(0) == 1; }/*-*/
    // Trim zeros from `b`
    while b.len() > 0 && b[0] == 0
        /*+*/invariant
            l0 == old_s.len(), zb >= 0, za >= 0, z == za + zb, off == (if z <= l0 { z } else { l0 }),
            bv == bp(zb) * lvr(b@, 0, b.len() as int),
            win(lhs@, final(lhs)@, fin, off, l0), untouched(lhs@, old_s, fin, off, l0),
        decreases b.len()/*-*/
    {
        /*+*/let ghost b_prev = b@;/*-*/
        let rest = &b[1..];
        b = rest;
        /*+*/proof { lemma_strip_leading(b_prev, b@, bv, zb); }/*-*/
        if lhs.len() > 0 {
            /*+*/let ghost pf = final(lhs)@; let ghost pv = lhs@;/*-*/
            let rest = &mut lhs[1..];
            lhs = rest;
            /*+*/proof {
                lemma_slide(pv, pf, lhs@, final(lhs)@, fin, off, l0);
                lemma_slide_untouched(pv, lhs@, old_s, fin, off, l0);
                off = off + 1;
            }/*-*/
        }
        /*+*/proof { zb = zb + 1; z = z + 1; }/*-*/
    }
    while b.len() > 0 && b[b.len() - 1] == 0
        /*+*/invariant bv == bp(zb) * lvr(b@, 0, b.len() as int), za >= 0, zb >= 0, z == za + zb, b.len() > 0 ==> b@[0] != 0,
        decreases b.len()/*-*/
    {
        /*+*/let ghost b_prev = b@;/*-*/
        let rest = &b[..b.len() - 1];
        b = rest;
        /*+*/proof { lemma_strip_trailing(b_prev, b@); }/*-*/
    }
    /*+*/let ghost ap = lvr(a@, 0, a.len() as int);
    let ghost bpv = lvr(b@, 0, b.len() as int);
    proof {
        lemma_bp_pos(za); lemma_bp_pos(zb); lemma_bp_add(za, zb);
        assert(av * bv == bp(z) * (ap * bpv)) by(nonlinear_arith)
            requires av == bp(za) * ap, bv == bp(zb) * bpv, bp(z) == bp(za) * bp(zb);
        lemma_lvr_bound(old_s, 0, l0);
    }/*-*/
    if a.is_empty() || b.is_empty() {
        /*+*/proof {
            assert(ap * bpv == 0) by(nonlinear_arith) requires ap == 0 || bpv == 0;
            assert(bp(z) * 0 == 0) by(nonlinear_arith);
            // nothing was written: fin == old_s
            assert(final(lhs)@ == lhs@);
            assert forall|i: int| 0 <= i < l0 implies fin[i] == old_s[i] by {
                if i >= off { assert(fin[off + (i - off)] == final(lhs)@[i - off]); assert(lhs@[i - off] == old_s[off + (i - off)]); }
            }
            assert(fin =~= old_s);
            lemma_small_mod(lvr(old_s, 0, l0) as nat, bp(l0) as nat);
        }/*-*/
        return false;
    }
    /*+*/proof {
        lemma_trimmed_bounds(a@); lemma_trimmed_bounds(b@);
        assert(ap * bpv >= 1) by(nonlinear_arith) requires ap >= 1, bpv >= 1;
    }/*-*/
    if lhs.is_empty() {
        /*+*/proof {
            // off == l0 <= z : the product is a multiple of bp(l0) and at least bp(l0)
            assert(final(lhs)@ == lhs@);
            assert forall|i: int| 0 <= i < l0 implies fin[i] == old_s[i] by {}
            assert(fin =~= old_s);
            lemma_bp_add(l0, z - l0); lemma_bp_pos(z - l0); lemma_bp_pos(l0);
            let k = bp(z - l0) * (ap * bpv);
            assert(av * bv == bp(l0) * k) by(nonlinear_arith) requires av * bv == bp(z) * (ap * bpv), bp(z) == bp(l0) * bp(z - l0), k == bp(z - l0) * (ap * bpv);
            assert(k >= 1) by(nonlinear_arith) requires k == bp(z - l0) * (ap * bpv), bp(z - l0) >= 1, ap * bpv >= 1;
            lemma_mod_multiples_vanish(k, lvr(old_s, 0, l0), bp(l0));
            lemma_small_mod(lvr(old_s, 0, l0) as nat, bp(l0) as nat);
            assert(bp(l0) * k >= bp(l0)) by(nonlinear_arith) requires k >= 1, bp(l0) >= 1;
        }/*-*/
        return true;
    }

    let (a, b) = if b.len() > a.len() { (b, a) } else { (a, b) };
    /*+*/let ghost la = a.len() as int; let ghost lb = b.len() as int; let ghost bs = b@;
    let ghost aa = lvr(a@, 0, la); let ghost bb_ = lvr(b@, 0, lb);
    let ghost off0 = off;
    let ghost lw = l0 - off0;
    let ghost w0 = lvr(old_s, off0, l0);
    let ghost mut lost: int = 0;
    proof {
        assert(aa * bb_ == ap * bpv) by(nonlinear_arith) requires (aa == ap && bb_ == bpv) || (aa == bpv && bb_ == ap);
        assert(off0 == z);                     // window not exhausted
        lemma_trimmed_bounds(a@); lemma_trimmed_bounds(b@);
        lemma_lvr_shift(old_s, lhs@, off0, l0);
        assert(lvr(fin, off0, off0) == 0);
        assert(bp(0) * lvr(lhs@, 0, lw) == lvr(lhs@, 0, lw)) by(nonlinear_arith) requires bp(0) == 1;
        assert(lost * bp(lw) == 0) by(nonlinear_arith) requires lost == 0;
        assert(aa * lvr(bs, 0, 0) == 0) by(nonlinear_arith) requires lvr(bs, 0, 0) == 0;
    }/*-*/

    // Iterate over limbs of `b` and add partial products to `lhs`.
    let mut overflow = false;
    /*+*/let ghost mut idx: int = 0;
    let ghost mut broke: bool = false;/*-*/
    for b_ref in /*+*/it:/*-*/ b.iter()
        /*+*/invariant
            l0 == old_s.len(), la == a.len(), lb == b.len(), la >= 1, lb >= 1, aa == lvr(a@, 0, la), lw == l0 - off0, 0 <= off0, lw >= 1,
            it.seq().len() == lb, forall|j: int| 0 <= j < lb ==> *(#[trigger] it.seq()[j]) == bs[j], bs.len() == lb,
            idx == it.index@, 0 <= idx <= lb, idx <= lw,
            win(lhs@, final(lhs)@, fin, off0 + idx, l0),
            lvr(fin, off0, off0 + idx) + bp(idx) * lvr(lhs@, 0, lw - idx) + lost * bp(lw) == w0 + aa * lvr(bs, 0, idx),
            lost >= 0, !overflow ==> lost == 0, overflow ==> (lost >= 1 || lw <= la + lb - 2),/*-*/
    {
        let b = *b_ref;
        /*+*/let ghost cur = lhs@;
        let ghost ln = lw - idx;
        proof { lemma_bp_pos(idx); lemma_bp_pos(ln); lemma_bp_add(idx, ln); lemma_lvr_push(bs.subrange(0, lb), 0, idx); assert(bs.subrange(0, lb) =~= bs); }/*-*/
        if lhs.len() >= a.len() {
            let (target, rest) = lhs.split_at_mut(a.len());
            /*+*/let ghost t0 = target@; let ghost r0 = rest@;/*-*/
            let carry = addmul_nx1(target, a, b);
            /*+*/let ghost c1 = carry as int;/*-*/
            let carry = add_nx1(rest, carry);
            /*+*/let ghost t1 = target@; let ghost r1 = rest@;
            proof {
                let c2 = carry as int;
                let nw = lhs@;
                assert(t0 =~= cur.subrange(0, la)); assert(r0 =~= cur.subrange(la, ln));
                assert(t1 =~= nw.subrange(0, la)); assert(r1 =~= nw.subrange(la, ln));
                lemma_lvr_split(cur, 0, la, ln); lemma_lvr_split(nw, 0, la, ln);
                lemma_lvr_shift(cur, t0, 0, la); lemma_lvr_shift(cur, r0, la, ln);
                lemma_lvr_shift(nw, t1, 0, la); lemma_lvr_shift(nw, r1, la, ln);
                lemma_bp_pos(la); lemma_bp_pos(ln - la); lemma_bp_add(la, ln - la);
                // lvr(nw) + c2*bp(ln) == lvr(cur) + aa*b
                assert(lvr(nw, 0, ln) + c2 * bp(ln) == lvr(cur, 0, ln) + aa * b as int) by(nonlinear_arith)
                    requires lvr(nw, 0, ln) == lvr(t1, 0, la) + bp(la) * lvr(r1, 0, ln - la),
                             lvr(cur, 0, ln) == lvr(t0, 0, la) + bp(la) * lvr(r0, 0, ln - la),
                             lvr(t1, 0, la) + c1 * bp(la) == lvr(t0, 0, la) + aa * b as int,
                             lvr(r1, 0, ln - la) + c2 * bp(ln - la) == lvr(r0, 0, ln - la) + c1,
                             bp(ln) == bp(la) * bp(ln - la);
                // invariant equation with lost' = lost + c2
                assert(lvr(fin, off0, off0 + idx) + bp(idx) * lvr(nw, 0, ln) + (lost + c2) * bp(lw) == w0 + aa * lvr(bs, 0, idx + 1)) by(nonlinear_arith)
                    requires lvr(fin, off0, off0 + idx) + bp(idx) * lvr(cur, 0, ln) + lost * bp(lw) == w0 + aa * lvr(bs, 0, idx),
                             lvr(nw, 0, ln) + c2 * bp(ln) == lvr(cur, 0, ln) + aa * b as int,
                             bp(lw) == bp(idx) * bp(ln), lvr(bs, 0, idx + 1) == lvr(bs, 0, idx) + bp(idx) * b as int;
                lost = lost + c2;
            }/*-*/
            overflow = overflow || ( carry != 0 );
        } else {
            overflow = true;
            if lhs.is_empty() {
                /*+*/proof { broke = true; }/*-*/
                break;
            }
            /*+*/let ghost k = ln;
            let c =/*-*/ addmul_nx1(lhs, &a[..lhs.len()], b);
            /*+*/proof {
                let nw = lhs@;
                let ahead = a@.subrange(0, k);
                lemma_lvr_shift(a@, ahead, 0, k);
                lemma_lvr_split(a@, 0, k, la);
                lemma_lvr_bound(a@, k, la);
                let hi = lvr(a@, k, la);
                // lvr(nw) + (c + hi*b)*bp(k) == lvr(cur) + aa*b
                assert(lvr(nw, 0, k) + (c as int + hi * b as int) * bp(k) == lvr(cur, 0, k) + aa * b as int) by(nonlinear_arith)
                    requires lvr(nw, 0, k) + c as int * bp(k) == lvr(cur, 0, k) + lvr(ahead, 0, k) * b as int,
                             aa == lvr(ahead, 0, k) + bp(k) * hi;
                assert(hi * b as int >= 0) by(nonlinear_arith) requires hi >= 0, b as int >= 0;
                let dl = c as int + hi * b as int;
                assert(lvr(fin, off0, off0 + idx) + bp(idx) * lvr(nw, 0, ln) + (lost + dl) * bp(lw) == w0 + aa * lvr(bs, 0, idx + 1)) by(nonlinear_arith)
                    requires lvr(fin, off0, off0 + idx) + bp(idx) * lvr(cur, 0, ln) + lost * bp(lw) == w0 + aa * lvr(bs, 0, idx),
                             lvr(nw, 0, ln) + dl * bp(ln) == lvr(cur, 0, ln) + aa * b as int,
                             bp(lw) == bp(idx) * bp(ln), lvr(bs, 0, idx + 1) == lvr(bs, 0, idx) + bp(idx) * b as int;
                lost = lost + dl;
                // structural overflow: lw - idx < la and idx <= lb - 1
                assert(lw <= la + lb - 2);
            }/*-*/
        }
        /*+*/proof {
            // common state after both branches: equation at idx+1 with the un-slid window
            assert(lvr(fin, off0, off0 + idx) + bp(idx) * lvr(lhs@, 0, ln) + lost * bp(lw) == w0 + aa * lvr(bs, 0, idx + 1));
            assert(lhs.len() == ln && ln >= 1);
        }
        let ghost pf = final(lhs)@; let ghost pv = lhs@;/*-*/
        lhs = &mut lhs[1..];
        /*+*/proof {
            lemma_slide(pv, pf, lhs@, final(lhs)@, fin, off0 + idx, l0);
            // finalized limb joins `done`; window value splits off its first limb
            lemma_lvr_push(fin, off0, off0 + idx);
            lemma_lvr_shift(pv, lhs@, 1, ln);
            assert(lvr(pv, 0, ln) == pv[0] as int + B * lvr(pv, 1, ln));
            assert(bp(idx + 1) == B * bp(idx));
            assert(lvr(fin, off0, off0 + idx + 1) + bp(idx + 1) * lvr(lhs@, 0, ln - 1) == lvr(fin, off0, off0 + idx) + bp(idx) * lvr(pv, 0, ln)) by(nonlinear_arith)
                requires lvr(fin, off0, off0 + idx + 1) == lvr(fin, off0, off0 + idx) + bp(idx) * fin[off0 + idx] as int, fin[off0 + idx] == pv[0],
                         lvr(pv, 0, ln) == pv[0] as int + B * lvr(lhs@, 0, ln - 1), bp(idx + 1) == B * bp(idx);
            idx = idx + 1;
        }/*-*/
    }
    /*+*/proof {
        // the rest of the window is dropped unchanged
        let i_end = idx;
        let ln = lw - i_end;
        assert(final(lhs)@ == lhs@);
        lemma_lvr_split(fin, off0, off0 + i_end, l0);
        lemma_lvr_shift(fin, lhs@, off0 + i_end, l0);
        // remaining limbs of b (only after `break`, where ln == 0) contribute multiples of bp(lw)
        lemma_lvr_split(bs, 0, i_end, lb);
        lemma_lvr_bound(bs, i_end, lb);
        let rem_b = lvr(bs, i_end, lb);
        let sfull = w0 + aa * bb_;
        lemma_bp_pos(i_end); lemma_bp_pos(ln); lemma_bp_add(i_end, ln); lemma_bp_pos(lw);
        let lost_f = if i_end == lb { lost } else { lost + aa * rem_b };
        if i_end < lb {
            assert(ln == 0 && bp(i_end) == bp(lw));
            assert(aa * rem_b >= 0) by(nonlinear_arith) requires aa >= 0, rem_b >= 0;
            assert(lvr(fin, off0, l0) + lost_f * bp(lw) == sfull) by(nonlinear_arith)
                requires lvr(fin, off0, l0) == lvr(fin, off0, off0 + i_end) + bp(i_end) * lvr(lhs@, 0, ln),
                         lvr(fin, off0, off0 + i_end) + bp(i_end) * lvr(lhs@, 0, ln) + lost * bp(lw) == w0 + aa * lvr(bs, 0, i_end),
                         bb_ == lvr(bs, 0, i_end) + bp(i_end) * rem_b, bp(i_end) == bp(lw), lost_f == lost + aa * rem_b, sfull == w0 + aa * bb_;
        } else {
            assert(rem_b == 0);
            assert(lvr(fin, off0, l0) + lost_f * bp(lw) == sfull) by(nonlinear_arith)
                requires lvr(fin, off0, l0) == lvr(fin, off0, off0 + i_end) + bp(i_end) * lvr(lhs@, 0, ln),
                         lvr(fin, off0, off0 + i_end) + bp(i_end) * lvr(lhs@, 0, ln) + lost * bp(lw) == w0 + aa * lvr(bs, 0, i_end),
                         bb_ == lvr(bs, 0, i_end) + bp(i_end) * rem_b, rem_b == 0, lost_f == lost, sfull == w0 + aa * bb_;
        }
        lemma_lvr_bound(fin, off0, l0);
        // value and flag on the window
        lemma_fundamental_div_mod_converse(sfull, bp(lw), lost_f, lvr(fin, off0, l0));
        assert(bp(lw) * lost_f == lost_f * bp(lw)) by(nonlinear_arith);
        // overflow <==> lost_f >= 1
        if overflow {
            if lost_f < 1 {
                // then lw <= la + lb - 2 and the product alone is >= bp(lw)
                lemma_bp_add(la - 1, lb - 1); lemma_bp_pos(la - 1); lemma_bp_pos(lb - 1);
                assert(aa * bb_ >= bp(la - 1) * bp(lb - 1)) by(nonlinear_arith) requires aa >= bp(la - 1), bb_ >= bp(lb - 1), bp(la - 1) >= 1, bp(lb - 1) >= 1;
                lemma_bp_add(lw, la + lb - 2 - lw); lemma_bp_pos(la + lb - 2 - lw);
                assert(bp(la + lb - 2) >= bp(lw)) by(nonlinear_arith) requires bp(la + lb - 2) == bp(lw) * bp(la + lb - 2 - lw), bp(la + lb - 2 - lw) >= 1, bp(lw) >= 1;
                lemma_lvr_bound(old_s, off0, l0);
                assert(false);
            }
        }
        assert(overflow == (sfull >= bp(lw))) by(nonlinear_arith)
            requires sfull == lost_f * bp(lw) + lvr(fin, off0, l0), 0 <= lvr(fin, off0, l0) < bp(lw), lost_f >= 0, overflow == (lost_f >= 1);
        // lift to the whole slice
        assert(total(old_s, a0s, b0s) == lvr(old_s, 0, l0) + bp(off0) * (aa * bb_));
        assert(aa * bb_ >= 0) by(nonlinear_arith) requires aa >= 0, bb_ >= 0;
        lemma_lift(old_s, fin, off0, l0, aa * bb_, total(old_s, a0s, b0s));
    }/*-*/
    overflow
}
//@ end

} // verus!
fn main() {}

// unit revbits: src/bits.rs reverse_bits - bit i of the result is bit BITS-1-i of the operand, for all widths  (C06)
#![allow(non_snake_case)]
use vstd::prelude::*;
use vstd::arithmetic::power::*;
use vstd::arithmetic::power2::*;
use vstd::arithmetic::mul::*;
use vstd::arithmetic::div_mod::*;
use vstd::bits::*;
use vstd::std_specs::bits::*;
use vstd::std_specs::ops::*;
verus! {
global size_of usize == 8;
//@ include lib/base.rs
//@ include lib/lvr.rs

//@ extract src/lib.rs struct Uint
pub struct Uint<const BITS: usize, const LIMBS: usize> { pub
    limbs: [u64; LIMBS],
}
//@ end

//@ include lib/uint_spec.rs

// bit i of the binary expansion of v
pub open spec fn vbit(v: nat, i: nat) -> bool { (v / pow2(i)) % 2 == 1 }

//@ include lib/limbbit.rs

// bit b of a machine word, as computed by `(x >> b) & 1 == 1`
pub proof fn lemma_word_bit_shr(x: u64, b: u64)
    requires b < 64
    ensures ((x >> b) & 1 == 1) == vbit(x as nat, b as nat)
{
    let y = x >> b;
    assert((y & 1 == 1) == (y % 2 == 1)) by(bit_vector);
    lemma_u64_shr_is_div(x, b);
}

// bit i of floor(v / 2^s) is bit i+s of v
pub proof fn lemma_vbit_shr(v: nat, s: nat, i: nat)
    ensures vbit(v / pow2(s), i) == vbit(v, i + s)
{
    lemma_pow2_pos(s); lemma_pow2_pos(i);
    lemma_pow2_adds(s, i);
    lemma_div_denominator(v as int, pow2(s) as int, pow2(i) as int);
}

// ASSUMED (label A, core): u64::reverse_bits mirrors the 64 bits of a word. Kani: core_specs_u64_reverse_bits (full domain).
pub assume_specification [u64::reverse_bits] (x: u64) -> (r: u64)
    ensures forall|j: u64| j < 64 ==> #[trigger] ((r >> j) & 1) == ((x >> ((63 - j) as u64)) & 1);

// N14: `a.reverse()` on the limb array is routed through this wrapper whose body IS that call.
// ASSUMED (label A, std's slice::reverse): element i of the result is element N-1-i of the operand. Kani: core_specs_array_reverse_len5.
#[verifier::external_body]
pub fn reverse_arr<const N: usize>(a: &mut [u64; N])
    ensures forall|i: int| 0 <= i < N ==> final(a)[i] == old(a)[N - 1 - i]
{ a.reverse(); }

// `x >>= n` with a usize amount forwards to wrapping_shr = overflowing_shr(..).0 (unit forward_shift); its contract for operands
// that need not be canonical is proved in unit shr_raw
impl<const BITS: usize, const LIMBS: usize> ShrAssignSpecImpl<usize> for Uint<BITS, LIMBS> {
    open spec fn obeys_shr_assign_spec() -> bool { false }
    open spec fn shr_assign_req(&self, rhs: usize) -> bool { Self::sized() && BITS <= usize::MAX - 63 }
    open spec fn shr_assign_spec(&self, rhs: usize) -> &Self { self }
}
impl<const BITS: usize, const LIMBS: usize> core::ops::ShrAssign<usize> for Uint<BITS, LIMBS> {
    #[verifier::external_body]
    fn shr_assign(&mut self, rhs: usize)
        ensures final(self).val() as int == (old(self).val() as int) / (pow2(rhs as nat) as int),
            (old(self).val() as int) / (pow2(rhs as nat) as int) < pow2(BITS as nat) ==> final(self).wf()
    { unimplemented!() }
}

impl<const BITS: usize, const LIMBS: usize> Uint<BITS, LIMBS> {

//@ extract src/bits.rs fn reverse_bits rewrite="this . limbs . reverse ( ) ;" => "reverse_arr(&mut this.limbs);" #1 rewrite="for limb in & mut this . limbs {" => "for limb in this.limbs.iter_mut() {" #1
    pub fn reverse_bits(self) -> /*+*/(r:/*-*/ Self/*+*/)
        requires self.wf(), BITS <= usize::MAX - 63
        ensures r.wf(), forall|i: nat| i < BITS ==> vbit(r.val(), i) == vbit(self.val(), (BITS - 1 - i) as nat)/*-*/
    { let mut this = self ;
        reverse_arr(&mut this.limbs);
        /*+*/let ghost n = LIMBS as int;
        let ghost src = this.limbs@;
        let ghost mut done: Seq<u64> = Seq::empty();/*-*/
        for limb in /*+*/it:/*-*/ this.limbs.iter_mut()
            /*+*/invariant
                it.seq().len() == n, n == src.len(), n == LIMBS, done.len() == it.index@,
                forall|j: int| 0 <= j < n ==> *(#[trigger] it.seq()[j]) == src[j],
                forall|j: int| 0 <= j < it.index@ ==> *final(#[trigger] it.seq()[j]) == done[j],
                forall|j: int, b: u64| 0 <= j < it.index@ && b < 64 ==> #[trigger] ((done[j] >> b) & 1) == ((src[j] >> ((63 - b) as u64)) & 1),/*-*/
        {
            *limb = limb.reverse_bits();
            /*+*/proof { done = done.push(*limb); }/*-*/
        }
        /*+*/proof {
            assert(this.limbs@ =~= done);
            lemma_lvr_is_lv(this.limbs@, LIMBS as nat);
            lemma_lvr_is_lv(self.limbs@, LIMBS as nat);
            lemma_bp_is_pow2(LIMBS as nat);
        }
        let ghost mid = this;
        proof {
            // full mirror over 64*LIMBS bits: bit p of mid is bit 64n-1-p of self
            assert forall|p: nat| p < 64 * n implies vbit(mid.val(), p) == vbit(self.val(), (64 * n - 1 - p) as nat) by {
                let l = (p / 64) as int; let b = (p % 64) as nat;
                lemma_limb_bit(mid.limbs@, n, l, b);
                lemma_limb_bit(self.limbs@, n, n - 1 - l, (63 - b) as nat);
                let x = mid.limbs@[l]; let y = self.limbs@[n - 1 - l];
                assert(src[l] == y);
                let bb = b as u64;
                assert(((done[l] >> bb) & 1) == ((src[l] >> ((63 - bb) as u64)) & 1));
                lemma_word_bit_shr(x, bb);
                lemma_word_bit_shr(y, (63 - bb) as u64);
                assert(64 * (n - 1 - l) + (63 - b) == 64 * n - 1 - p);
            }
            lemma_lv_bound(mid.limbs@, LIMBS as nat);
        }
        proof {
            if BITS % 64 == 0 {
                // no shift: 64*LIMBS == BITS, the mirrored limbs are the result and every top limb is within the (all-ones) mask
                assert(64 * n == BITS);
                if BITS > 0 { assert(spec_mask(BITS) == u64::MAX); }
            }
        }/*-*/
        if BITS % 64 != 0 {
            /*+*/proof {
                let s = (64 - BITS % 64) as nat;
                assert(64 * n == BITS + s);
                lemma_pow2_adds(BITS as nat, s);
                lemma_pow2_pos(s);
                // mid < 2^(64n) = 2^BITS * 2^s  ==>  mid / 2^s < 2^BITS
                lemma_div_by_multiple_is_strongly_ordered(mid.val() as int, pow2(64 * LIMBS as nat) as int, pow2(BITS as nat) as int, pow2(s) as int);
                lemma_div_multiples_vanish(pow2(BITS as nat) as int, pow2(s) as int);
                lemma_mul_is_commutative(pow2(BITS as nat) as int, pow2(s) as int);
            }/*-*/
            this >>= 64 - BITS % 64;
            /*+*/proof {
                let s = (64 - BITS % 64) as nat;
                assert forall|i: nat| i < BITS implies vbit(this.val(), i) == vbit(self.val(), (BITS - 1 - i) as nat) by {
                    lemma_vbit_shr(mid.val(), s, i);
                    assert(i + s < 64 * n);
                    assert(64 * n - 1 - (i + s) == BITS - 1 - i);
                }
            }/*-*/
        }
        this
    }
//@ end
}

} // verus!
fn main() {}

// unit gcd: src/algorithms/gcd/mod.rs — the gcd loop (swap, Lehmer step, Euclidean fallback) against Euclid's function,
// modular over the ASSUMED contract of LehmerMatrix::from / apply (the property's last sentence; Jebelean's exactness conditions)  (C12)
#![allow(non_snake_case)]
use vstd::prelude::*;
use vstd::arithmetic::power2::*;
use vstd::arithmetic::mul::*;
use vstd::arithmetic::div_mod::*;
use vstd::bits::*;
use vstd::std_specs::cmp::*;
use vstd::std_specs::ops::*;
use core::mem::swap;
verus! {
//@ include lib/base.rs

//@ extract src/lib.rs struct Uint
pub struct Uint<const BITS: usize, const LIMBS: usize> { pub
    limbs: [u64; LIMBS],
}
//@ end

//@ include lib/uint_spec.rs
//@ include lib/uint_ops.rs

impl<const BITS: usize, const LIMBS: usize> Uint<BITS, LIMBS> {
//@ import core ZERO
}

//@ extract src/algorithms/gcd/matrix.rs struct Matrix
pub struct Matrix(pub u64, pub u64, pub u64, pub u64, pub bool);
//@ end
pub type LehmerMatrix = Matrix;
//@ include lib/lehmer_spec.rs
//@ include lib/lehmer.rs
impl Matrix {
//@ import lehmer IDENTITY
//@ import lehmer apply
//@ import lehmer from
}

//@ extract src/algorithms/gcd/mod.rs fn gcd consts=IDENTITY cprefix=LehmerMatrix
pub fn gcd<const BITS: usize, const LIMBS: usize>(
    a: Uint<BITS, LIMBS>,
    b: Uint<BITS, LIMBS>,
) -> /*+*/(g:/*-*/ Uint<BITS, LIMBS>/*+*/)
    requires a.wf(), b.wf(), BITS <= usize::MAX - 63
    ensures g.wf(),
        a.val() >= b.val() ==> g.val() == sgcd(a.val(), b.val()),
        a.val() < b.val() ==> g.val() == sgcd(b.val(), a.val()),/*-*/
{ let mut a = a ; let mut b = b ;
    if b > a {
        swap(&mut a, &mut b);
    }
    /*+*/let ghost target = sgcd(a.val(), b.val());/*-*/
    while b != Uint::ZERO()
        /*+*/invariant a.wf(), b.wf(), a.val() >= b.val(), sgcd(a.val(), b.val()) == target, BITS <= usize::MAX - 63
        decreases b.val()/*-*/
    {
        vassert (a >= b );
        let m = LehmerMatrix::from(a, b);
        if m == LehmerMatrix::IDENTITY() {
            /*+*/let ghost av = a.val(); let ghost bv = b.val();/*-*/
            a %= b;
            swap(&mut a, &mut b);
            /*+*/proof {
                lemma_mod_bound(av as int, bv as int);
                assert(sgcd(av, bv) == sgcd(bv, av % bv));
            }/*-*/
        } else {
            /*+*/let ghost a0 = a.val() as int; let ghost b0 = b.val() as int;
            proof { a.lemma_wf_lt(); }/*-*/
            m.apply(&mut a, &mut b);
            /*+*/proof {
                // the mapped pair is an exact later pair of the remainder sequence, below a < 2^BITS: no wrap
                let (c, d) = maps(m, a0, b0);
                lemma_small_mod(c as nat, m2(BITS) as nat);
                lemma_small_mod(d as nat, m2(BITS) as nat);
            }/*-*/
        }
    }
    /*+*/proof { assert(sgcd(a.val(), 0) == a.val()); }/*-*/
    a
}
//@ end

//@ include lib/sgcd.rs

} // verus!
fn main() {}

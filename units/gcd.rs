// unit gcd: src/algorithms/gcd/mod.rs — the gcd loop (swap, Lehmer step, Euclidean fallback) against Euclid's function,
// modular over the ASSUMED contract of LehmerMatrix::from / apply (the property's last sentence; Jebelean's exactness conditions)  (C12)
#![allow(non_snake_case)]
use vstd::prelude::*;
use vstd::arithmetic::power2::*;
use vstd::arithmetic::mul::*;
use vstd::arithmetic::div_mod::*;
use vstd::bits::*;
use vstd::std_specs::cmp::*;
use vstd::std_specs::ops::*;
use core::mem::swap;
verus! {
//@ include lib/base.rs

//@ extract src/lib.rs struct Uint
pub struct Uint<const BITS: usize, const LIMBS: usize> { pub
    limbs: [u64; LIMBS],
}
//@ end

//@ include lib/uint_spec.rs
//@ include lib/uint_ops.rs

impl<const BITS: usize, const LIMBS: usize> Uint<BITS, LIMBS> {
//@ import core ZERO
}

// Euclid's function as the specification of gcd
pub open spec fn sgcd(a: nat, b: nat) -> nat decreases b { if b == 0 { a } else { sgcd(b, a % b) } }

// ---- ASSUMED (label A): the Lehmer update matrix (src/algorithms/gcd/matrix.rs) ----
// `from(a, b)` for a >= b returns either the identity or a matrix mapping (a, b) to (c, d) with c >= d, d < b and the same gcd,
// and `apply` evaluates that map exactly (no wrap) on such a pair. This is the last sentence of property C12; the construction
// (from_u64_prefix / from_u128_prefix, Jebelean's conditions) is not under proof. Kani checks from_u64 only at tiny sizes (c10).
pub struct LehmerMatrix(pub u64, pub u64, pub u64, pub u64, pub bool);
pub uninterp spec fn maps(m: LehmerMatrix, a: nat, b: nat) -> (nat, nat);
pub open spec fn is_identity(m: LehmerMatrix) -> bool { m.0 == 1 && m.1 == 0 && m.2 == 0 && m.3 == 1 && m.4 }
impl PartialEqSpecImpl for LehmerMatrix {
    open spec fn obeys_eq_spec() -> bool { true }
    open spec fn eq_spec(&self, other: &Self) -> bool { *self == *other }
}
impl PartialEq for LehmerMatrix {
    #[verifier::external_body]
    fn eq(&self, other: &Self) -> (r: bool) { unimplemented!() }
}
impl LehmerMatrix {
    #[verifier::external_body]
    pub fn IDENTITY() -> (r: Self) ensures is_identity(r), r == LehmerMatrix(1, 0, 0, 1, true) { unimplemented!() }
    #[verifier::external_body]
    pub fn from<const BITS: usize, const LIMBS: usize>(a: Uint<BITS, LIMBS>, b: Uint<BITS, LIMBS>) -> (m: Self)
        requires a.wf(), b.wf(), a.val() >= b.val()
        ensures !is_identity(m) ==> ({
            let (c, d) = maps(m, a.val(), b.val());
            c >= d && d < b.val() && sgcd(c, d) == sgcd(a.val(), b.val())
        })
    { unimplemented!() }
    #[verifier::external_body]
    pub fn apply<const BITS: usize, const LIMBS: usize>(&self, a: &mut Uint<BITS, LIMBS>, b: &mut Uint<BITS, LIMBS>)
        requires old(a).wf(), old(b).wf()
        ensures final(a).wf(), final(b).wf(), (final(a).val(), final(b).val()) == maps(*self, old(a).val(), old(b).val())
    { unimplemented!() }
}

//@ extract src/algorithms/gcd/mod.rs fn gcd consts=IDENTITY cprefix=LehmerMatrix
pub fn gcd<const BITS: usize, const LIMBS: usize>(
    a: Uint<BITS, LIMBS>,
    b: Uint<BITS, LIMBS>,
) -> /*+*/(g:/*-*/ Uint<BITS, LIMBS>/*+*/)
    requires a.wf(), b.wf(), BITS <= usize::MAX - 63
    ensures g.wf(),
        a.val() >= b.val() ==> g.val() == sgcd(a.val(), b.val()),
        a.val() < b.val() ==> g.val() == sgcd(b.val(), a.val()),/*-*/
{ let mut a = a ; let mut b = b ;
    if b > a {
        swap(&mut a, &mut b);
    }
    /*+*/let ghost target = sgcd(a.val(), b.val());/*-*/
    while b != Uint::ZERO()
        /*+*/invariant a.wf(), b.wf(), a.val() >= b.val(), sgcd(a.val(), b.val()) == target, BITS <= usize::MAX - 63
        decreases b.val()/*-*/
    {
        vassert (a >= b );
        let m = LehmerMatrix::from(a, b);
        if m == LehmerMatrix::IDENTITY() {
            /*+*/let ghost av = a.val(); let ghost bv = b.val();/*-*/
            a %= b;
            swap(&mut a, &mut b);
            /*+*/proof {
                lemma_mod_bound(av as int, bv as int);
                assert(sgcd(av, bv) == sgcd(bv, av % bv));
            }/*-*/
        } else {
            m.apply(&mut a, &mut b);
        }
    }
    /*+*/proof { assert(sgcd(a.val(), 0) == a.val()); }/*-*/
    a
}
//@ end

// Euclid's function is the greatest common divisor: it divides both, and every common divisor divides it
pub open spec fn mulof(d: nat, k: nat) -> nat { d * k }
pub open spec fn divides(d: nat, x: nat) -> bool { exists|k: nat| x == #[trigger] mulof(d, k) }
pub proof fn lemma_sgcd_divides(a: nat, b: nat)
    ensures divides(sgcd(a, b), a), divides(sgcd(a, b), b)
    decreases b
{
    let g = sgcd(a, b);
    if b == 0 {
        assert(a == g * 1) by(nonlinear_arith) requires a == g;
        assert(b == g * 0) by(nonlinear_arith) requires b == 0;
        assert(a == mulof(g, 1)); assert(b == mulof(g, 0));
    } else {
        lemma_sgcd_divides(b, a % b);
        let kb = choose|k: nat| b == mulof(g, k);
        let kr = choose|k: nat| a % b == mulof(g, k);
        lemma_fundamental_div_mod(a as int, b as int);
        let q = (a / b) as nat;
        assert(a == g * (kb * q + kr)) by(nonlinear_arith) requires a == b * q + a % b, b == g * kb, a % b == g * kr;
        assert(a == mulof(g, kb * q + kr));
    }
}
pub proof fn lemma_sgcd_greatest(a: nat, b: nat, d: nat)
    requires divides(d, a), divides(d, b), d > 0
    ensures divides(d, sgcd(a, b))
    decreases b
{
    if b != 0 {
        let ka = choose|k: nat| a == mulof(d, k);
        let kb = choose|k: nat| b == mulof(d, k);
        lemma_fundamental_div_mod(a as int, b as int);
        let q = (a / b) as nat;
        let r = a % b;
        // r == d * (ka - kb*q)
        assert(kb * q <= ka) by(nonlinear_arith) requires a == d * ka, b == d * kb, a == b * q + r, r >= 0, d > 0;
        let kr = (ka - kb * q) as nat;
        assert(r == d * kr) by(nonlinear_arith) requires a == d * ka, b == d * kb, a == b * q + r, kr == ka - kb * q;
        assert(r == mulof(d, kr));
        lemma_sgcd_greatest(b, r, d);
    }
}

} // verus!
fn main() {}

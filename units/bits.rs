// unit bits: src/bits.rs — bit, set_bit, not, leading_ones, &= |= ^= against the binary expansion of the value, for all widths  (C06)
#![allow(non_snake_case)]
use vstd::prelude::*;
use vstd::arithmetic::power::*;
use vstd::arithmetic::power2::*;
use vstd::arithmetic::mul::*;
use vstd::arithmetic::div_mod::*;
use vstd::bits::*;
use vstd::std_specs::bits::*;
verus! {
//@ include lib/base.rs
//@ include lib/lvr.rs

//@ extract src/lib.rs struct Uint
pub struct Uint<const BITS: usize, const LIMBS: usize> { pub
    limbs: [u64; LIMBS],
}
//@ end

//@ include lib/uint_spec.rs

// bit i of the binary expansion of v
pub open spec fn vbit(v: nat, i: nat) -> bool { (v / pow2(i)) % 2 == 1 }

// bit b of a machine word, as computed by `x & (1 << b) != 0`
pub proof fn lemma_word_bit(x: u64, b: usize)
    requires b < 64
    ensures (x & (1u64 << b) != 0) == vbit(x as nat, b as nat)
{
    let s = b as u64;
    let y = x >> s;
    assert((x & (1u64 << b) != 0) == (y & 1 == 1)) by(bit_vector) requires y == x >> s, s == b, b < 64;
    assert((y & 1 == 1) == (y % 2 == 1)) by(bit_vector);
    lemma_u64_shr_is_div(x, s);
}

// bit 64*l + b of a limb sequence's value is bit b of limb l
pub proof fn lemma_limb_bit(s: Seq<u64>, n: int, l: int, b: nat)
    requires 0 <= l < n <= s.len(), b < 64
    ensures vbit(lvr(s, 0, n) as nat, (64 * l + b) as nat) == vbit(s[l] as nat, b), lvr(s, 0, n) >= 0
{
    let v = lvr(s, 0, n);
    let lo = lvr(s, 0, l); let x = s[l] as int; let hi = lvr(s, l + 1, n);
    lemma_lvr_split(s, 0, l, n);
    lemma_lvr_bound(s, 0, l); lemma_lvr_bound(s, l + 1, n); lemma_lvr_bound(s, 0, n);
    assert(lvr(s, l, n) == x + B * hi);
    lemma_bp_pos(l); lemma_bp_is_pow2(l as nat);
    let pb = pow2(b) as int; let pc = pow2((64 - b) as nat) as int;
    lemma_pow2_pos(b); lemma_pow2_pos((64 - b) as nat);
    lemma_pow2_adds((64 * l) as nat, b);
    lemma_pow2_adds(b, (64 - b) as nat); lemma_pow2_64();
    // v / (bp(l) * 2^b) == (v / bp(l)) / 2^b == (x + B*hi) / 2^b
    let top = x + B * hi;
    assert(top >= 0) by(nonlinear_arith) requires top == x + B * hi, x >= 0, hi >= 0;
    assert(v == top * bp(l) + lo) by(nonlinear_arith) requires v == lo + bp(l) * top;
    lemma_fundamental_div_mod_converse(v, bp(l), top, lo);
    lemma_div_denominator(v, bp(l), pb);
    assert(v / (bp(l) * pb) == top / pb);
    // (x + 2^b * (2^(64-b) * hi)) / 2^b == x / 2^b + 2^(64-b) * hi
    assert(B * hi == pb * (pc * hi)) by(nonlinear_arith) requires pb * pc == B;
    lemma_fundamental_div_mod(x, pb);
    lemma_mod_bound(x, pb);
    let q = x / pb; let r = x % pb;
    assert(top == pb * (q + pc * hi) + r) by(nonlinear_arith) requires top == x + pb * (pc * hi), x == pb * q + r;
    lemma_fundamental_div_mod_converse(top, pb, q + pc * hi, r);
    // 2^(64-b) * hi is even
    lemma_pow2_unfold((64 - b) as nat);
    let ph = pow2((63 - b) as nat) as int;
    assert(pc * hi == 2 * (ph * hi)) by(nonlinear_arith) requires pc == 2 * ph;
    lemma_mod_multiples_vanish(ph * hi, q, 2);
    assert((2 * (ph * hi) + q) % 2 == q % 2);
    assert(q + pc * hi == 2 * (ph * hi) + q);
}

// bits at or above the size of the value are zero
pub proof fn lemma_high_bit_zero(v: nat, i: nat)
    requires v < pow2(i)
    ensures !vbit(v, i)
{
    lemma_pow2_pos(i);
    lemma_basic_div(v as int, pow2(i) as int);
}

// the complement of every limb complements the value:  lvr(t) == bp(n) - 1 - lvr(s)
pub proof fn lemma_lvr_not(s: Seq<u64>, t: Seq<u64>, lo: int, hi: int)
    requires 0 <= lo <= hi <= s.len(), hi <= t.len(), forall|j: int| lo <= j < hi ==> t[j] as int == B - 1 - s[j] as int
    ensures lvr(t, lo, hi) == bp(hi - lo) - 1 - lvr(s, lo, hi)
    decreases hi - lo
{
    if lo < hi {
        lemma_lvr_not(s, t, lo + 1, hi);
        let r = lvr(s, lo + 1, hi); let w = bp(hi - lo - 1);
        assert(bp(hi - lo) == B * w);
        assert((B - 1 - s[lo] as int) + B * (w - 1 - r) == B * w - 1 - (s[lo] as int + B * r)) by(nonlinear_arith);
    }
}

impl<const BITS: usize, const LIMBS: usize> Uint<BITS, LIMBS> {
//@ import core ZERO
//@ import core MASK
//@ import core masked
//@ import bitlen leading_zeros

    pub proof fn lemma_val_lvr(self)
        ensures self.val() as int == lvr(self.limbs@, 0, LIMBS as int), bp(LIMBS as int) == pow2(64 * LIMBS as nat)
    {
        lemma_lvr_is_lv(self.limbs@, LIMBS as nat);
        lemma_bp_is_pow2(LIMBS as nat);
    }

//@ extract src/bits.rs fn bit
    pub fn bit(&self, index: usize) -> /*+*/(r:/*-*/ bool/*+*/)
        requires self.wf()
        ensures r == (index < BITS && vbit(self.val(), index as nat)),
            index >= BITS ==> !vbit(self.val(), index as nat),/*-*/
    {
        if index >= BITS {
            /*+*/proof { self.lemma_wf_lt(); if BITS < index { lemma_pow2_strictly_increases(BITS as nat, index as nat); } lemma_high_bit_zero(self.val(), index as nat); }/*-*/
            return false;
        }
        let (limbs, bits) = (index / 64, index % 64);
        /*+*/proof {
            self.lemma_val_lvr();
            lemma_limb_bit(self.limbs@, LIMBS as int, limbs as int, bits as nat);
            lemma_word_bit(self.limbs[limbs as int], bits);
        }/*-*/
        self.limbs[limbs] & (1 << bits) != 0
    }
//@ end

//@ extract src/bits.rs fn set_bit
    pub fn set_bit(&mut self, index: usize, value: bool)
        /*+*/requires old(self).wf()
        ensures final(self).wf(),
            index >= BITS ==> *final(self) == *old(self),
            forall|j: nat| vbit(final(self).val(), j) == (if j == index && index < BITS { value } else { vbit(old(self).val(), j) }),/*-*/
    {
        if index >= BITS {
            return;
        }
        let (limbs, bits) = (index / 64, index % 64);
        /*+*/let ghost s0 = *self;
        let ghost x0 = self.limbs[limbs as int];/*-*/
        if value {
            self.limbs[limbs] |= 1 << bits;
        } else {
            self.limbs[limbs] &= !(1 << bits);
        }
        /*+*/proof {
            let x1 = self.limbs[limbs as int];
            let n = LIMBS as int; let l = limbs as int;
            s0.lemma_val_lvr(); self.lemma_val_lvr();
            // the top limb stays below the mask
            if l == n - 1 && BITS % 64 != 0 {
                let k = (BITS % 64) as u64;
                let m = spec_mask(BITS);
                lemma_u64_pow2_no_overflow(k as nat); lemma_u64_shl_is_mul(1, k); lemma_pow2_pos(k as nat);
                assert(low_bits_mask(k as nat) == pow2(k as nat) - 1);
                assert(m == ((1u64 << k) - 1) as u64);
                let b = bits as u64;
                assert((x0 | (1u64 << b)) <= m && (x0 & !(1u64 << b)) <= m) by(bit_vector)
                    requires x0 <= m, m == ((1u64 << k) - 1) as u64, b < k, k < 64;
            }
            assert(self.wf());
            // every bit
            assert forall|j: nat| vbit(self.val(), j) == (if j == index { value } else { vbit(s0.val(), j) }) by {
                if j >= 64 * n {
                    lemma_lv_bound(self.limbs@, LIMBS as nat); lemma_lv_bound(s0.limbs@, LIMBS as nat);
                    if j > 64 * n { lemma_pow2_strictly_increases((64 * n) as nat, j); }
                    lemma_high_bit_zero(self.val(), j); lemma_high_bit_zero(s0.val(), j);
                } else {
                    let lj = (j / 64) as int; let bj = (j % 64) as nat;
                    lemma_limb_bit(self.limbs@, n, lj, bj);
                    lemma_limb_bit(s0.limbs@, n, lj, bj);
                    if lj == l {
                        let c = bj as usize; let b = bits;
                        lemma_word_bit(x0, c); lemma_word_bit(x1, c);
                        if value {
                            assert(((x0 | (1u64 << b)) & (1u64 << c) != 0) == (if c == b { true } else { x0 & (1u64 << c) != 0 })) by(bit_vector)
                                requires b < 64, c < 64;
                        } else {
                            assert(((x0 & !(1u64 << b)) & (1u64 << c) != 0) == (if c == b { false } else { x0 & (1u64 << c) != 0 })) by(bit_vector)
                                requires b < 64, c < 64;
                        }
                    }
                }
            }
        }/*-*/
    }
//@ end

//@ extract src/bits.rs fn not ctx="impl<const BITS: usize, const LIMBS: usize> Uint<BITS, LIMBS>"
    pub fn not(self) -> /*+*/(r:/*-*/ Self/*+*/)
        requires self.wf(), BITS <= usize::MAX - 63
        ensures r.wf(), r.val() == pow2(BITS as nat) - 1 - self.val()/*-*/
    { let mut this = self ;
        if BITS == 0 {
            /*+*/proof { lemma2_to64(); self.lemma_wf_lt(); }/*-*/
            return Self::ZERO();
        }
        let mut i = 0;
        while i < LIMBS
            /*+*/invariant
                i <= LIMBS,
                forall|j: int| 0 <= j < i ==> this.limbs[j] as int == B - 1 - self.limbs[j] as int,
                forall|j: int| i <= j < LIMBS ==> this.limbs[j] == self.limbs[j],
            decreases LIMBS - i/*-*/
        {
            /*+*/proof { let x = this.limbs[i as int]; assert((!x) as int == 0x1_0000_0000_0000_0000 - 1 - x as int) by(bit_vector); }/*-*/
            this.limbs[i] = !this.limbs[i];
            i += 1;
        }
        /*+*/proof {
            let n = LIMBS as int;
            lemma_lvr_not(self.limbs@, this.limbs@, 0, n);
            self.lemma_val_lvr(); this.lemma_val_lvr();
            self.lemma_wf_lt();
            // (2^(64n) - 1 - v) mod 2^BITS == 2^BITS - 1 - v
            let m = pow2(BITS as nat) as int; let v = self.val() as int;
            let d = (64 * n - BITS) as nat;
            lemma_pow2_adds(BITS as nat, d); lemma_pow2_pos(d); lemma_pow2_pos(BITS as nat);
            let pd = pow2(d) as int;
            assert(bp(n) - 1 - v == m * (pd - 1) + (m - 1 - v)) by(nonlinear_arith) requires bp(n) == m * pd;
            lemma_fundamental_div_mod_converse(bp(n) - 1 - v, m, pd - 1, m - 1 - v);
        }/*-*/
        this.masked()
    }
//@ end

//@ extract src/bits.rs fn leading_ones
    pub fn leading_ones(&self) -> /*+*/(r:/*-*/ usize/*+*/)
        requires self.wf(), BITS <= usize::MAX - 63
        ensures r <= BITS, is_bit_len((pow2(BITS as nat) - 1 - self.val()) as nat, (BITS - r) as nat)/*-*/
    {
        /*+*/proof { self.lemma_wf_lt(); }/*-*/
        Self::not(*self).leading_zeros()
    }
//@ end
//@ extract expanded fn bitand_assign ctx=">BitAndAssign<&Uint<BITS,LIMBS>>forUint<BITS,LIMBS>" vis=none as=BitAndAssign_ref__bitand_assign rewrite="u64 :: bitand_assign ( & mut self . limbs [ i ] , rhs . limbs [ i ] ) ;" => "self.limbs[i] &= rhs.limbs[i];" #1
    fn BitAndAssign_ref__bitand_assign(&mut self, rhs: &Uint<BITS, LIMBS>)
        /*+*/requires old(self).wf(), rhs.wf()
        ensures final(self).wf(),
            forall|j: nat| vbit(final(self).val(), j) == (vbit(old(self).val(), j) && vbit(rhs.val(), j)),/*-*/
    {
        /*+*/let ghost s0 = *self;/*-*/
        for i in /*+*/iter:/*-*/ 0..LIMBS
            /*+*/invariant
                iter.seq().len() == LIMBS, s0.wf(), rhs.wf(),
                forall|k: int| 0 <= k < i ==> self.limbs[k] == (s0.limbs[k] & rhs.limbs[k]),
                forall|k: int| i <= k < LIMBS ==> self.limbs[k] == s0.limbs[k],/*-*/
        {
            self.limbs[i] &= rhs.limbs[i];
        }
        /*+*/proof {
            let n = LIMBS as int;
            s0.lemma_val_lvr(); self.lemma_val_lvr(); rhs.lemma_val_lvr();
            if BITS > 0 {
                // the top limb stays below the mask (the mask is 2^k - 1 or all ones)
                let x0 = s0.limbs[n - 1]; let y = rhs.limbs[n - 1]; let m = spec_mask(BITS);
                if BITS % 64 != 0 {
                    let k = (BITS % 64) as u64;
                    lemma_u64_pow2_no_overflow(k as nat); lemma_u64_shl_is_mul(1, k); lemma_pow2_pos(k as nat);
                    assert(low_bits_mask(k as nat) == pow2(k as nat) - 1);
                    assert(m == ((1u64 << k) - 1) as u64);
                    assert((x0 & y) <= m) by(bit_vector) requires x0 <= m, y <= m, m == ((1u64 << k) - 1) as u64, k < 64;
                }
            }
            assert(self.wf());
            assert forall|j: nat| vbit(self.val(), j) == (vbit(s0.val(), j) && vbit(rhs.val(), j)) by {
                if j >= 64 * n {
                    lemma_lv_bound(self.limbs@, LIMBS as nat); lemma_lv_bound(s0.limbs@, LIMBS as nat); lemma_lv_bound(rhs.limbs@, LIMBS as nat);
                    if j > 64 * n { lemma_pow2_strictly_increases((64 * n) as nat, j); }
                    lemma_high_bit_zero(self.val(), j); lemma_high_bit_zero(s0.val(), j); lemma_high_bit_zero(rhs.val(), j);
                } else {
                    let lj = (j / 64) as int; let bj = (j % 64) as nat;
                    lemma_limb_bit(self.limbs@, n, lj, bj); lemma_limb_bit(s0.limbs@, n, lj, bj); lemma_limb_bit(rhs.limbs@, n, lj, bj);
                    let x0 = s0.limbs[lj]; let y = rhs.limbs[lj]; let c = bj as usize;
                    lemma_word_bit(x0, c); lemma_word_bit(y, c); lemma_word_bit(self.limbs[lj], c);
                    assert(((x0 & y) & (1u64 << c) != 0) == ((x0 & (1u64 << c) != 0) && (y & (1u64 << c) != 0))) by(bit_vector) requires c < 64;
                }
            }
        }/*-*/
    }
//@ end

//@ extract expanded fn bitor_assign ctx=">BitOrAssign<&Uint<BITS,LIMBS>>forUint<BITS,LIMBS>" vis=none as=BitOrAssign_ref__bitor_assign rewrite="u64 :: bitor_assign ( & mut self . limbs [ i ] , rhs . limbs [ i ] ) ;" => "self.limbs[i] |= rhs.limbs[i];" #1
    fn BitOrAssign_ref__bitor_assign(&mut self, rhs: &Uint<BITS, LIMBS>)
        /*+*/requires old(self).wf(), rhs.wf()
        ensures final(self).wf(),
            forall|j: nat| vbit(final(self).val(), j) == (vbit(old(self).val(), j) || vbit(rhs.val(), j)),/*-*/
    {
        /*+*/let ghost s0 = *self;/*-*/
        for i in /*+*/iter:/*-*/ 0..LIMBS
            /*+*/invariant
                iter.seq().len() == LIMBS, s0.wf(), rhs.wf(),
                forall|k: int| 0 <= k < i ==> self.limbs[k] == (s0.limbs[k] | rhs.limbs[k]),
                forall|k: int| i <= k < LIMBS ==> self.limbs[k] == s0.limbs[k],/*-*/
        {
            self.limbs[i] |= rhs.limbs[i];
        }
        /*+*/proof {
            let n = LIMBS as int;
            s0.lemma_val_lvr(); self.lemma_val_lvr(); rhs.lemma_val_lvr();
            if BITS > 0 {
                // the top limb stays below the mask (the mask is 2^k - 1 or all ones)
                let x0 = s0.limbs[n - 1]; let y = rhs.limbs[n - 1]; let m = spec_mask(BITS);
                if BITS % 64 != 0 {
                    let k = (BITS % 64) as u64;
                    lemma_u64_pow2_no_overflow(k as nat); lemma_u64_shl_is_mul(1, k); lemma_pow2_pos(k as nat);
                    assert(low_bits_mask(k as nat) == pow2(k as nat) - 1);
                    assert(m == ((1u64 << k) - 1) as u64);
                    assert((x0 | y) <= m) by(bit_vector) requires x0 <= m, y <= m, m == ((1u64 << k) - 1) as u64, k < 64;
                }
            }
            assert(self.wf());
            assert forall|j: nat| vbit(self.val(), j) == (vbit(s0.val(), j) || vbit(rhs.val(), j)) by {
                if j >= 64 * n {
                    lemma_lv_bound(self.limbs@, LIMBS as nat); lemma_lv_bound(s0.limbs@, LIMBS as nat); lemma_lv_bound(rhs.limbs@, LIMBS as nat);
                    if j > 64 * n { lemma_pow2_strictly_increases((64 * n) as nat, j); }
                    lemma_high_bit_zero(self.val(), j); lemma_high_bit_zero(s0.val(), j); lemma_high_bit_zero(rhs.val(), j);
                } else {
                    let lj = (j / 64) as int; let bj = (j % 64) as nat;
                    lemma_limb_bit(self.limbs@, n, lj, bj); lemma_limb_bit(s0.limbs@, n, lj, bj); lemma_limb_bit(rhs.limbs@, n, lj, bj);
                    let x0 = s0.limbs[lj]; let y = rhs.limbs[lj]; let c = bj as usize;
                    lemma_word_bit(x0, c); lemma_word_bit(y, c); lemma_word_bit(self.limbs[lj], c);
                    assert(((x0 | y) & (1u64 << c) != 0) == ((x0 & (1u64 << c) != 0) || (y & (1u64 << c) != 0))) by(bit_vector) requires c < 64;
                }
            }
        }/*-*/
    }
//@ end

//@ extract expanded fn bitxor_assign ctx=">BitXorAssign<&Uint<BITS,LIMBS>>forUint<BITS,LIMBS>" vis=none as=BitXorAssign_ref__bitxor_assign rewrite="u64 :: bitxor_assign ( & mut self . limbs [ i ] , rhs . limbs [ i ] ) ;" => "self.limbs[i] ^= rhs.limbs[i];" #1
    fn BitXorAssign_ref__bitxor_assign(&mut self, rhs: &Uint<BITS, LIMBS>)
        /*+*/requires old(self).wf(), rhs.wf()
        ensures final(self).wf(),
            forall|j: nat| vbit(final(self).val(), j) == (vbit(old(self).val(), j) != vbit(rhs.val(), j)),/*-*/
    {
        /*+*/let ghost s0 = *self;/*-*/
        for i in /*+*/iter:/*-*/ 0..LIMBS
            /*+*/invariant
                iter.seq().len() == LIMBS, s0.wf(), rhs.wf(),
                forall|k: int| 0 <= k < i ==> self.limbs[k] == (s0.limbs[k] ^ rhs.limbs[k]),
                forall|k: int| i <= k < LIMBS ==> self.limbs[k] == s0.limbs[k],/*-*/
        {
            self.limbs[i] ^= rhs.limbs[i];
        }
        /*+*/proof {
            let n = LIMBS as int;
            s0.lemma_val_lvr(); self.lemma_val_lvr(); rhs.lemma_val_lvr();
            if BITS > 0 {
                // the top limb stays below the mask (the mask is 2^k - 1 or all ones)
                let x0 = s0.limbs[n - 1]; let y = rhs.limbs[n - 1]; let m = spec_mask(BITS);
                if BITS % 64 != 0 {
                    let k = (BITS % 64) as u64;
                    lemma_u64_pow2_no_overflow(k as nat); lemma_u64_shl_is_mul(1, k); lemma_pow2_pos(k as nat);
                    assert(low_bits_mask(k as nat) == pow2(k as nat) - 1);
                    assert(m == ((1u64 << k) - 1) as u64);
                    assert((x0 ^ y) <= m) by(bit_vector) requires x0 <= m, y <= m, m == ((1u64 << k) - 1) as u64, k < 64;
                }
            }
            assert(self.wf());
            assert forall|j: nat| vbit(self.val(), j) == (vbit(s0.val(), j) != vbit(rhs.val(), j)) by {
                if j >= 64 * n {
                    lemma_lv_bound(self.limbs@, LIMBS as nat); lemma_lv_bound(s0.limbs@, LIMBS as nat); lemma_lv_bound(rhs.limbs@, LIMBS as nat);
                    if j > 64 * n { lemma_pow2_strictly_increases((64 * n) as nat, j); }
                    lemma_high_bit_zero(self.val(), j); lemma_high_bit_zero(s0.val(), j); lemma_high_bit_zero(rhs.val(), j);
                } else {
                    let lj = (j / 64) as int; let bj = (j % 64) as nat;
                    lemma_limb_bit(self.limbs@, n, lj, bj); lemma_limb_bit(s0.limbs@, n, lj, bj); lemma_limb_bit(rhs.limbs@, n, lj, bj);
                    let x0 = s0.limbs[lj]; let y = rhs.limbs[lj]; let c = bj as usize;
                    lemma_word_bit(x0, c); lemma_word_bit(y, c); lemma_word_bit(self.limbs[lj], c);
                    assert(((x0 ^ y) & (1u64 << c) != 0) == ((x0 & (1u64 << c) != 0) != (y & (1u64 << c) != 0))) by(bit_vector) requires c < 64;
                }
            }
        }/*-*/
    }
//@ end
}

} // verus!
fn main() {}

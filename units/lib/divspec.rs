// ===== division vocabulary =====
// reciprocal contract:  v + B == floor((B^2 - 1) / d)
pub open spec fn is_reciprocal(d: u64, v: u64) -> bool {
    (v as int + B) == (B * B - 1) / (d as int)
}
// 3-by-2 reciprocal contract:  v + B == floor((B^3 - 1) / d)
pub open spec fn is_reciprocal_2(d: u128, v: u64) -> bool { (v as int + B) == (B * B * B - 1) / (d as int) }

// B <= floor((B^2-1)/d) < 2B  for normalised d
pub proof fn lemma_recip_range(d: int)
    requires B / 2 <= d < B
    ensures B <= (B * B - 1) / d < 2 * B
{
    let n = B * B - 1;
    lemma_fundamental_div_mod(n, d);
    lemma_mod_bound(n, d);
    let q = n / d;
    assert(q < 2 * B) by(nonlinear_arith) requires n == d * q + n % d, 0 <= n % d, n == B * B - 1, d >= B / 2, B == 0x1_0000_0000_0000_0000;
    assert(q >= B) by(nonlinear_arith) requires n == d * q + n % d, n % d < d, n == B * B - 1, d < B, d > 0, B == 0x1_0000_0000_0000_0000;
}

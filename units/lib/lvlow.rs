// kept out of base.rs: unit knuth's large queries are sensitive to any change of the shared prelude
// lv(s, n) == s[0] (mod B)
pub proof fn lemma_lv_low_limb(s: Seq<u64>, n: nat)
    requires 1 <= n <= s.len()
    ensures (lv(s, n) as int) % B == s[0] as int
    decreases n
{
    lemma_pow2_64();
    if n == 1 {
        lemma2_to64();
        assert(lv(s, 1) == lv(s, 0) + (s[0] as nat) * pow2(0));
        assert((s[0] as nat) * 1 == s[0] as nat) by(nonlinear_arith);
        lemma_small_mod(s[0] as nat, B as nat);
    } else {
        lemma_lv_low_limb(s, (n - 1) as nat);
        let w = pow2(64 * (n - 1) as nat);
        lemma_pow2_adds(64, (64 * (n - 1) - 64) as nat);
        let h = pow2((64 * (n - 1) - 64) as nat);
        let t = (s[n - 1] as nat) * w;
        assert(t as int == B * ((s[n - 1] as int) * h as int)) by(nonlinear_arith) requires t == (s[n - 1] as nat) * w, w as int == B * h as int;
        lemma_mod_multiples_vanish((s[n - 1] as int) * h as int, lv(s, (n - 1) as nat) as int, B);
    }
}
